(* Lemmas for the "fixed fields ++ TLV extension" message model (C10). *)
From Coq Require Import List NArith Bool Lia Arith.
From Coq Require Import ZifyBool ZifyN ZifyNat.
From LV Require Import Wire.Model Wire.Proofs Wire.Loose Wire.MsgModel.
Import ListNotations.
Local Open Scope N_scope.

(* ------------------------------------------------------------------ *)
(* small list / bytes facts *)


Lemma firstn_app_len {A} (a b : list A) n : length a = n -> firstn n (a ++ b) = a.
Proof.
  intros <-. rewrite firstn_app, Nat.sub_diag, firstn_all, firstn_O, app_nil_r. reflexivity.
Qed.

Lemma skipn_app_len {A} (a b : list A) n : length a = n -> skipn n (a ++ b) = b.
Proof.
  intros <-. rewrite skipn_app, Nat.sub_diag, skipn_all, skipn_O. reflexivity.
Qed.



Lemma filter_all {A} (f : A -> bool) l : forallb f l = true -> filter f l = l.
Proof.
  induction l as [|x l IH]; cbn; [reflexivity|]. intros H. apply andb_true_iff in H.
  destruct H as [-> H]. rewrite IH by assumption. reflexivity.
Qed.

Lemma filter_idem {A} (f : A -> bool) l : filter f (filter f l) = filter f l.
Proof.
  induction l as [|x l IH]; cbn; [reflexivity|]. destruct (f x) eqn:E; cbn; [rewrite E, IH|]; auto.
Qed.

Lemma forallb_filter {A} (f : A -> bool) l : forallb f (filter f l) = true.
Proof. induction l as [|x l IH]; cbn; [reflexivity|]. destruct (f x) eqn:E; cbn; [rewrite E|]; auto. Qed.

Lemma forallb_filter_sub {A} (f g : A -> bool) l :
  forallb g l = true -> forallb g (filter f l) = true.
Proof.
  induction l as [|x l IH]; cbn; [reflexivity|]. intros H. apply andb_true_iff in H.
  destruct H as [H1 H2]. destruct (f x); cbn; [rewrite H1|]; auto.
Qed.

(* ------------------------------------------------------------------ *)
(* sortedness *)

Lemma sorted_fromb_spec rs : forall lb, sorted_fromb lb rs = true <-> sorted_from lb rs.
Proof.
  induction rs as [|[t v] rs IH]; intros lb; cbn; [tauto|].
  rewrite andb_true_iff, IH. rewrite N.leb_le. tauto.
Qed.

Lemma sorted_weaken rs lb lb' : lb' <= lb -> sorted_from lb rs -> sorted_from lb' rs.
Proof. destruct rs as [|[t v] rs]; cbn; [auto|]. intros H [H1 H2]. split; [lia|assumption]. Qed.

Lemma sorted_filter f rs : forall lb, sorted_from lb rs -> sorted_from lb (filter f rs).
Proof.
  induction rs as [|[t v] rs IH]; intros lb; cbn; [auto|]. intros [H1 H2].
  destruct (f (t, v)); cbn.
  - split; [assumption|apply IH; assumption].
  - apply IH. apply sorted_weaken with (t + 1); [lia|assumption].
Qed.

Lemma sorted_map_types (g : tlv_record -> tlv_record) rs :
  (forall r, fst (g r) = fst r) -> forall lb, sorted_from lb rs -> sorted_from lb (map g rs).
Proof.
  intros Hg. induction rs as [|[t v] rs IH]; intros lb; cbn; [auto|]. intros [H1 H2].
  specialize (Hg (t, v)). destruct (g (t, v)) as [t' v']. cbn in Hg. subst t'.
  split; [assumption|apply IH; assumption].
Qed.

Lemma has_type_cons t0 t v rs : has_type t0 ((t, v) :: rs) = (t =? t0) || has_type t0 rs.
Proof. reflexivity. Qed.

Lemma has_type_lb t rs : forall lb, sorted_from lb rs -> has_type t rs = true -> lb <= t.
Proof.
  induction rs as [|[t' v] rs IH]; intros lb; [discriminate|]. cbn [sorted_from].
  intros [H1 H2] H. rewrite has_type_cons in H.
  apply orb_true_iff in H. destruct H as [H|H].
  - apply N.eqb_eq in H. subst. assumption.
  - specialize (IH _ H2 H). lia.
Qed.

(* ---- ensure ---- *)

Lemma ensure_sorted t rs : forall lb, lb <= t -> sorted_from lb rs -> sorted_from lb (ensure t rs).
Proof.
  induction rs as [|[t' v] rs IH]; intros lb Hlb; cbn [ensure sorted_from].
  - intros _. split; [assumption|exact I].
  - intros [H1 H2]. destruct (N.ltb_spec t t').
    + cbn [sorted_from]. repeat split; try assumption; lia.
    + destruct (N.eqb_spec t t').
      * cbn [sorted_from]. split; assumption.
      * cbn [sorted_from]. split; [assumption|]. apply IH; [lia|assumption].
Qed.

Lemma ensure_forall (P : tlv_record -> Prop) t rs :
  P (t, []) -> Forall P rs -> Forall P (ensure t rs).
Proof.
  intros Hp. induction rs as [|[t' v] rs IH]; intros H; cbn [ensure].
  - constructor; [assumption|constructor].
  - inversion H; subst. destruct (t <? t'); [constructor; assumption|].
    destruct (t =? t'); [assumption|]. constructor; auto.
Qed.

Lemma ensure_has t rs : has_type t (ensure t rs) = true.
Proof.
  induction rs as [|[t' v] rs IH]; cbn [ensure].
  - rewrite has_type_cons, N.eqb_refl. reflexivity.
  - destruct (t <? t'); [rewrite has_type_cons, N.eqb_refl; reflexivity|].
    destruct (N.eqb_spec t t').
    + subst. rewrite has_type_cons, N.eqb_refl. reflexivity.
    + rewrite has_type_cons, IH. apply orb_true_r.
Qed.

Lemma ensure_keeps t t0 rs : has_type t0 rs = true -> has_type t0 (ensure t rs) = true.
Proof.
  induction rs as [|[t' v] rs IH]; cbn [ensure]; [discriminate|].
  intros H. destruct (t <? t'); [rewrite has_type_cons, H; apply orb_true_r|].
  destruct (t =? t'); [assumption|].
  rewrite has_type_cons in *. apply orb_true_iff in H. destruct H as [->|H]; [reflexivity|].
  rewrite (IH H). apply orb_true_r.
Qed.

Lemma ensure_id t rs : forall lb, sorted_from lb rs -> has_type t rs = true -> ensure t rs = rs.
Proof.
  induction rs as [|[t' v] rs IH]; intros lb; cbn [ensure sorted_from]; [discriminate|].
  intros [H1 H2] H. rewrite has_type_cons in H. apply orb_true_iff in H.
  destruct (N.ltb_spec t t') as [Hlt|Hge].
  - destruct H as [H|H]; [apply N.eqb_eq in H; lia|].
    pose proof (has_type_lb _ _ _ H2 H). lia.
  - destruct (N.eqb_spec t t'); [reflexivity|].
    destruct H as [H|H]; [apply N.eqb_eq in H; lia|]. rewrite (IH _ H2 H). reflexivity.
Qed.

Lemma ensure_all_sorted ts rs :
  sorted_from 0 rs -> sorted_from 0 (ensure_all ts rs).
Proof.
  intros H. unfold ensure_all. induction ts as [|t ts IH]; cbn [fold_right]; [assumption|].
  apply ensure_sorted; [lia|assumption].
Qed.

Lemma ensure_all_forall (P : tlv_record -> Prop) ts rs :
  Forall (fun t => P (t, [])) ts -> Forall P rs -> Forall P (ensure_all ts rs).
Proof.
  intros Hts H. unfold ensure_all. induction Hts as [|t ts Ht Hts IH]; cbn [fold_right]; [assumption|].
  apply ensure_forall; assumption.
Qed.

Lemma ensure_all_has ts rs t : In t ts -> has_type t (ensure_all ts rs) = true.
Proof.
  unfold ensure_all. induction ts as [|t' ts IH]; cbn [fold_right In]; [contradiction|]. intros [->|H].
  - apply ensure_has.
  - apply ensure_keeps. apply IH. assumption.
Qed.

Lemma ensure_all_id ts rs :
  sorted_from 0 rs -> forallb (fun t => has_type t rs) ts = true -> ensure_all ts rs = rs.
Proof.
  intros Hs. unfold ensure_all. induction ts as [|t ts IH]; cbn [fold_right forallb]; [reflexivity|].
  intros H. apply andb_true_iff in H. destruct H as [H1 H2]. rewrite IH by assumption.
  apply ensure_id with 0; assumption.
Qed.

(* ------------------------------------------------------------------ *)
(* known-record codecs *)

Lemma lookup_kind_tm ks t :
  lookup_kind (map (fun k => (kr_type k, rk_vkind (kr_kind k))) ks) t =
  option_map rk_vkind (lookup_rk ks t).
Proof.
  induction ks as [|k ks IH]; cbn; [reflexivity|]. destruct (t =? kr_type k); [reflexivity|exact IH].
Qed.

Lemma value_okb_spec k v : wf_bytes v ->
  (value_ok (Some (rk_vkind k)) v <-> value_okb (rk_vkind k) v = true).
Proof.
  intros Hw. destruct k; cbn; try tauto; try (rewrite N.eqb_eq; tauto).
  (* RKBigSize *)
  split.
  - intros (n & Hn & ->). rewrite <- (app_nil_r (bigsize_enc n)).
    rewrite bigsize_dec_enc by assumption. reflexivity.
  - destruct (bigsize_dec v) as [[n r]|e] eqn:E; [|discriminate].
    destruct r; [|discriminate]. intros _. apply bigsize_dec_spec in E; [|assumption].
    destruct E as (-> & Hn & _). exists n. rewrite app_nil_r. auto.
Qed.

(* what DecodeP2P returns, for ANY known-record set (BigSize records included: their
   announced length is not constrained, see Loose.v) *)
Lemma wf_claimed_inv rs : forall ls,
  wf_bytes (encode_stream_claimed rs ls) -> length rs = length ls ->
  Forall (fun r => wf_bytes (snd r)) rs.
Proof.
  induction rs as [|[t v] rs IH]; intros ls H Hlen; [constructor|].
  destruct ls as [|l ls]; [discriminate|]. cbn [encode_stream_claimed] in H.
  unfold enc_record_claimed in H. cbn [fst snd] in H.
  apply wf_app in H. destruct H as [H1 H2]. apply wf_app in H1. destruct H1 as [_ H1].
  apply wf_app in H1. destruct H1 as [_ Hv]. constructor; [exact Hv|].
  apply (IH ls); [exact H2|]. cbn [length] in Hlen. lia.
Qed.

Lemma stream_facts_any K r2 rs :
  wf_bytes r2 -> decode_stream K true r2 = Ok rs ->
  sorted_from 0 rs /\ Forall (record_ok K true) rs /\ Forall (fun r => wf_bytes (snd r)) rs.
Proof.
  intros Hw H. apply tlv_p2p_accepts_exactly in H; [|assumption].
  destruct H as (ls & -> & Hs & Hf). split; [assumption|]. split.
  - clear Hw Hs. induction Hf as [|r l rs ls Hr Hf IH]; constructor; [|assumption].
    destruct Hr as (Ht & Hl & Hv & Hk). unfold record_ok. cbn [len_bound].
    split; [assumption|]. split; [|assumption].
    destruct (lookup_kind K (fst r)) as [[n|n| | |]|] eqn:Ek;
      try (rewrite <- Hk by discriminate; assumption).
    cbn [value_ok] in Hv. destruct Hv as (x & _ & ->).
    pose proof (bigsize_enc_len x). unfold max_record_size. lia.
  - apply (wf_claimed_inv rs ls Hw). clear Hw Hs. induction Hf; cbn [length]; congruence.
Qed.

Lemma secp_n_lt : secp_n < 256 ^ N.of_nat 32.
Proof. vm_compute. reflexivity. Qed.

Lemma modn32_len v : length (modn32 v) = 32%nat.
Proof. apply be_enc_length. Qed.

Lemma modn32_idem v : modn32 (modn32 v) = modn32 v.
Proof.
  unfold modn32. rewrite be_dec_enc.
  assert (Hn : secp_n <> 0) by discriminate.
  pose proof (N.mod_lt (be_dec v) secp_n Hn) as H. pose proof secp_n_lt as H2.
  rewrite (N.mod_small (be_dec v mod secp_n)) by lia.
  rewrite N.mod_mod by assumption. reflexivity.
Qed.


(* ------------------------------------------------------------------ *)
(* LocalNoncesData: sorting the entries by txid *)

Lemma lex_leb_total a : forall b, lex_leb a b = false -> lex_leb b a = true.
Proof.
  induction a as [|x a IH]; intros [|y b]; cbn [lex_leb]; try discriminate; auto.
  destruct (x <? y) eqn:E1; [discriminate|]. destruct (y <? x) eqn:E2; [reflexivity|].
  apply IH.
Qed.

Lemma key_leb_total x y : key_leb x y = false -> key_leb y x = true.
Proof. apply lex_leb_total. Qed.

Fixpoint sorted_e (l : list bytes) : bool :=
  match l with
  | [] => true
  | x :: l' => match l' with [] => true | y :: _ => key_leb x y && sorted_e l' end
  end.

Lemma insert_sorted x l : sorted_e l = true -> sorted_e (insert_e x l) = true.
Proof.
  induction l as [|y l IH]; [reflexivity|]. intros Hs. cbn [insert_e].
  destruct (key_leb x y) eqn:E.
  - change (key_leb x y && sorted_e (y :: l) = true). rewrite E, Hs. reflexivity.
  - apply key_leb_total in E. destruct l as [|z l].
    + cbn [insert_e sorted_e]. rewrite E. reflexivity.
    + cbn [sorted_e] in Hs. apply andb_true_iff in Hs. destruct Hs as [H1 H2].
      specialize (IH H2). cbn [insert_e] in *. destruct (key_leb x z).
      * change (key_leb y x && sorted_e (x :: z :: l) = true). rewrite E, IH. reflexivity.
      * change (key_leb y z && sorted_e (z :: insert_e x l) = true). rewrite H1, IH. reflexivity.
Qed.

Lemma isort_sorted l : sorted_e (isort_e l) = true.
Proof. induction l as [|x l IH]; [reflexivity|]. cbn [isort_e]. apply insert_sorted. exact IH. Qed.

Lemma isort_id l : sorted_e l = true -> isort_e l = l.
Proof.
  induction l as [|x l IH]; [reflexivity|]. intros Hs. cbn [isort_e].
  destruct l as [|y l]; [reflexivity|]. cbn [sorted_e] in Hs. apply andb_true_iff in Hs.
  destruct Hs as [H1 H2]. rewrite (IH H2). cbn [insert_e]. rewrite H1. reflexivity.
Qed.

Lemma isort_idem l : isort_e (isort_e l) = isort_e l.
Proof. apply isort_id. apply isort_sorted. Qed.

Lemma insert_forallb f x l : forallb f (insert_e x l) = f x && forallb f l.
Proof.
  induction l as [|y l IH]; [reflexivity|]. cbn [insert_e]. destruct (key_leb x y); [reflexivity|].
  cbn [forallb]. rewrite IH. destruct (f x), (f y); reflexivity.
Qed.

Lemma isort_forallb f l : forallb f (isort_e l) = forallb f l.
Proof. induction l as [|x l IH]; [reflexivity|]. cbn [isort_e forallb]. rewrite insert_forallb, IH. reflexivity. Qed.

Lemma insert_existsb f x l : existsb f (insert_e x l) = f x || existsb f l.
Proof.
  induction l as [|y l IH]; [reflexivity|]. cbn [insert_e]. destruct (key_leb x y); [reflexivity|].
  cbn [existsb]. rewrite IH. destruct (f x), (f y); reflexivity.
Qed.

Lemma isort_existsb f l : existsb f (isort_e l) = existsb f l.
Proof. induction l as [|x l IH]; [reflexivity|]. cbn [isort_e existsb]. rewrite insert_existsb, IH. reflexivity. Qed.

Lemma beq_sym a : forall b, beq a b = beq b a.
Proof.
  induction a as [|x a IH]; intros [|y b]; cbn [beq]; try reflexivity.
  rewrite IH, N.eqb_sym. reflexivity.
Qed.

Lemma same_key_sym x y : same_key x y = same_key y x.
Proof. apply beq_sym. Qed.

Lemma insert_distinct x l :
  keys_distinct (insert_e x l) = negb (existsb (same_key x) l) && keys_distinct l.
Proof.
  induction l as [|y l IH]; [reflexivity|]. cbn [insert_e]. destruct (key_leb x y); [reflexivity|].
  cbn [keys_distinct existsb]. rewrite insert_existsb, IH, (same_key_sym y x).
  destruct (same_key x y), (existsb (same_key x) l), (existsb (same_key y) l), (keys_distinct l);
    reflexivity.
Qed.

Lemma isort_distinct l : keys_distinct (isort_e l) = keys_distinct l.
Proof.
  induction l as [|x l IH]; [reflexivity|]. cbn [isort_e keys_distinct].
  rewrite insert_distinct, isort_existsb, IH. reflexivity.
Qed.

Lemma insert_length x l : length (insert_e x l) = S (length l).
Proof.
  induction l as [|y l IH]; [reflexivity|]. cbn [insert_e]. destruct (key_leb x y); cbn [length]; auto.
Qed.

Lemma isort_length l : length (isort_e l) = length l.
Proof. induction l as [|x l IH]; [reflexivity|]. cbn [isort_e length]. rewrite insert_length, IH. reflexivity. Qed.

Lemma entries_length k n : forall b, length (entries k n b) = k.
Proof. induction k as [|k IH]; intros b; [reflexivity|]. cbn [entries length]. rewrite IH. reflexivity. Qed.

Lemma entries_all_len k n : forall b, (k * n <= length b)%nat ->
  forallb (fun e => Nat.eqb (length e) n) (entries k n b) = true.
Proof.
  induction k as [|k IH]; intros b Hb; [reflexivity|]. cbn [entries forallb].
  rewrite firstn_length_le by lia. rewrite Nat.eqb_refl. apply IH. rewrite skipn_length. lia.
Qed.

Lemma entries_wf k n : forall b, wf_bytes b -> forallb wf_bytesb (entries k n b) = true.
Proof.
  induction k as [|k IH]; intros b Hb; [reflexivity|]. cbn [entries forallb].
  rewrite (proj2 (wf_bytesb_spec _) (wf_firstn n b Hb)). apply IH. apply wf_skipn. exact Hb.
Qed.

Lemma concat_wf l : forallb wf_bytesb l = true -> wf_bytes (concat l).
Proof.
  induction l as [|x l IH]; intros H; [constructor|]. cbn [forallb] in H. apply andb_true_iff in H.
  destruct H as [H1 H2]. cbn [concat]. apply wf_app. split; [apply wf_bytesb_spec; exact H1|auto].
Qed.

Lemma concat_len n (l : list bytes) : forallb (fun e => Nat.eqb (length e) n) l = true ->
  length (concat l) = (length l * n)%nat.
Proof.
  induction l as [|x l IH]; intros H; [reflexivity|]. cbn [forallb] in H. apply andb_true_iff in H.
  destruct H as [H1 H2]. apply Nat.eqb_eq in H1. cbn [concat length]. rewrite app_length, IH by exact H2. lia.
Qed.

Lemma entries_concat n (l : list bytes) : forallb (fun e => Nat.eqb (length e) n) l = true ->
  entries (length l) n (concat l) = l.
Proof.
  induction l as [|x l IH]; intros H; [reflexivity|]. cbn [forallb] in H. apply andb_true_iff in H.
  destruct H as [H1 H2]. apply Nat.eqb_eq in H1. cbn [length entries concat].
  rewrite (firstn_app_len _ _ n H1), (skipn_app_len _ _ n H1), IH by exact H2. reflexivity.
Qed.

Lemma nonce_norm_props oc v : wf_bytes v ->
  wf_bytes (nonce_norm v) /\ (length (nonce_norm v) <= length v)%nat /\
  nonce_norm (nonce_norm v) = nonce_norm v /\
  nonce_check oc (nonce_norm v) = nonce_check oc v.
Proof.
  intros Hw.
  destruct (Nat.eqb (Nat.modulo (length v) nonce_entry_len) 0) eqn:Em.
  2:{ assert (Hid : nonce_norm v = v) by (unfold nonce_norm; rewrite Em; reflexivity).
      rewrite !Hid. repeat split; auto. }
  assert (Hn : nonce_entry_len <> 0%nat) by discriminate.
  set (n := nonce_entry_len) in *. set (k := Nat.div (length v) n).
  assert (Hk : (k * n <= length v)%nat).
  { unfold k. rewrite Nat.mul_comm. apply Nat.mul_div_le. exact Hn. }
  set (es := entries k n v). set (S := isort_e es).
  assert (Hnv : nonce_norm v = concat S).
  { unfold nonce_norm, nonce_entries. fold n. rewrite Em. reflexivity. }
  assert (Hlen : forallb (fun e => Nat.eqb (length e) n) S = true).
  { unfold S. rewrite isort_forallb. apply entries_all_len. exact Hk. }
  assert (HS : length S = k) by (unfold S, es; rewrite isort_length, entries_length; reflexivity).
  pose proof (concat_len n S Hlen) as Hcl. rewrite HS in Hcl.
  assert (Hmod : Nat.modulo (length (concat S)) n = 0%nat) by (rewrite Hcl; apply Nat.mod_mul; exact Hn).
  assert (Hdiv : Nat.div (length (concat S)) n = k) by (rewrite Hcl; apply Nat.div_mul; exact Hn).
  assert (Hent : entries k n (concat S) = S) by (rewrite <- HS; apply entries_concat; exact Hlen).
  rewrite Hnv. split; [|split; [|split]].
  - apply concat_wf. unfold S. rewrite isort_forallb. apply entries_wf. exact Hw.
  - lia.
  - unfold nonce_norm, nonce_entries. fold n. rewrite Hmod, Hdiv, Hent. cbn [Nat.eqb].
    unfold S. rewrite isort_idem. reflexivity.
  - unfold nonce_check, nonce_entries. fold n. fold k. fold es. rewrite Hmod, Hdiv, Hent, Em.
    unfold S. rewrite isort_forallb, isort_distinct. reflexivity.
Qed.

Section RK.
  Variable oc : bytes -> bool.

  (* what re-encoding a known record does to its wire value *)
  Lemma norm_props k v :
    wf_bytes v -> value_ok (Some (rk_vkind k)) v ->
    wf_bytes (rk_norm k v) /\ value_ok (Some (rk_vkind k)) (rk_norm k v) /\
    (length (rk_norm k v) <= length v)%nat /\
    rk_norm k (rk_norm k v) = rk_norm k v /\
    rk_check oc k (rk_norm k v) = rk_check oc k v.
  Proof.
    intros Hw Hv.
    assert (Hid : wf_bytes v /\ value_ok (Some (rk_vkind k)) v /\ (length v <= length v)%nat /\
                  v = v /\ rk_check oc k v = rk_check oc k v) by (repeat split; auto).
    destruct k; cbn [rk_norm rk_vkind rk_check value_ok] in *; try exact Hid; clear Hid.
    - (* RKFeat *) split; [apply strip0_wf; assumption|]. split; [exact I|].
      split; [apply strip0_len|]. split; [|reflexivity]. apply strip0_id. apply strip0_head.
    - (* RKScalar *) split; [apply be_enc_wf|].
      split; [unfold blen; rewrite modn32_len; reflexivity|].
      split; [rewrite modn32_len; unfold blen in Hv; lia|].
      split; [apply modn32_idem|reflexivity].
    - (* RKSigNonce *)
      assert (Hl : length v = 98%nat) by (unfold blen in Hv; lia).
      assert (Hs : length (skipn 32 v) = 66%nat) by (rewrite skipn_length; lia).
      split; [apply wf_app; split; [apply be_enc_wf|apply wf_skipn; assumption]|].
      split; [unfold blen; rewrite app_length, modn32_len, Hs; reflexivity|].
      split; [rewrite app_length, modn32_len, Hs; lia|].
      split.
      + rewrite (firstn_app_len _ _ 32%nat (modn32_len _)), (skipn_app_len _ _ 32%nat (modn32_len _)).
        rewrite modn32_idem. reflexivity.
      + rewrite (skipn_app_len _ _ 32%nat (modn32_len _)). reflexivity.
    - (* RKNonceMap *)
      destruct (nonce_norm_props oc v Hw) as (H1 & H2 & H3 & H4). repeat split; auto.
  Qed.
End RK.

(* ------------------------------------------------------------------ *)
(* fixed part *)

Lemma dec_rest_is oc L : forall b, dec_rest oc L b = decode_rest oc L b.
Proof.
  induction L as [|k L IH]; intros b; [reflexivity|]. cbn [dec_rest decode_rest].
  destruct (dec_f oc k b) as [[v r]|]; [|reflexivity]. rewrite IH. reflexivity.
Qed.

Lemma nonterm_lay_ok L : nonterminal L = true -> lay_ok L = true.
Proof.
  induction L as [|k L IH]; [reflexivity|]. cbn [nonterminal forallb]. intros H.
  apply andb_true_iff in H. destruct H as [H1 H2]. cbn [lay_ok].
  destruct L; [reflexivity|]. rewrite H1. apply IH. exact H2.
Qed.

Lemma dec_rest_wf oc L : forall b vs r,
  wf_bytes b -> dec_rest oc L b = Some (vs, r) -> wf_bytes r.
Proof.
  induction L as [|k L IH]; intros b vs r Hw; cbn [dec_rest].
  - intros H; inversion H; subst. assumption.
  - destruct (dec_f oc k b) as [[v r1]|] eqn:E; [|discriminate].
    destruct (dec_rest oc L r1) as [[vs' r']|] eqn:E2; [|discriminate].
    intros H; inversion H; subst.
    destruct (field_dec_valid_any oc k b v r1 Hw E) as (_ & Hw1 & _).
    apply (IH _ _ _ Hw1 E2).
Qed.

Lemma wf_encode_stream_inv rs :
  wf_bytes (encode_stream rs) -> Forall (fun r => wf_bytes (snd r)) rs.
Proof.
  induction rs as [|[t v] rs IH]; intros H; [constructor|].
  rewrite enc_record_cons in H. apply wf_app in H. destruct H as [_ H].
  apply wf_app in H. destruct H as [_ H]. apply wf_app in H. destruct H as [Hv H].
  constructor; [exact Hv|apply IH; exact H].
Qed.

Lemma has_any_filter A (f : tlv_record -> bool) rs :
  has_any A (filter f rs) = true -> has_any A rs = true.
Proof.
  unfold has_any. intros H. apply existsb_exists in H. destruct H as (r & Hin & Hr).
  apply filter_In in Hin. apply existsb_exists. exists r. tauto.
Qed.

Lemma excl_ok_filter X (f : tlv_record -> bool) rs :
  excl_ok X rs = true -> excl_ok X (filter f rs) = true.
Proof.
  unfold excl_ok. intros H. apply forallb_forall. intros [A B] Hin.
  rewrite forallb_forall in H. specialize (H _ Hin). cbn [fst snd] in *.
  apply negb_true_iff in H. apply negb_true_iff. apply andb_false_iff in H.
  apply andb_false_iff. destruct H as [H|H]; [left|right];
    (destruct (has_any _ (filter f rs)) eqn:E; [apply has_any_filter in E; congruence|reflexivity]).
Qed.

Section Msg.
  Variable oc : bytes -> bool.
  Variable M : tlvmsg.
  Hypothesis Hok : tm_ok M = true.

  Notation ks := (tm_known M).
  Notation K := (tm_kinds M).

  Lemma ok_pre : nonterminal (tm_pre M) = true.
  Proof.
    unfold tm_ok in Hok. apply andb_true_iff in Hok. destruct Hok as [H _].
    apply andb_true_iff in H. tauto.
  Qed.

  Lemma ok_cond i mask Lc : tm_cond M = Some (i, mask, Lc) -> nonterminal Lc = true.
  Proof.
    intros E. unfold tm_ok in Hok. apply andb_true_iff in Hok. destruct Hok as [H _].
    apply andb_true_iff in H. destruct H as [_ H]. rewrite E in H. exact H.
  Qed.

  Lemma ok_always t : In t (always_types ks) ->
    t < two64 /\ lookup_rk ks t = Some RKVar.
  Proof.
    intros Hin. unfold tm_ok in Hok. apply andb_true_iff in Hok. destruct Hok as [_ H].
    rewrite forallb_forall in H. specialize (H t Hin). apply andb_true_iff in H.
    destruct H as [H1 H2]. split; [apply N.ltb_lt; assumption|].
    destruct (lookup_rk ks t) as [[]|]; try discriminate. reflexivity.
  Qed.

  Lemma K_kind t : lookup_kind K t = option_map rk_vkind (lookup_rk ks t).
  Proof. apply lookup_kind_tm. Qed.

  Lemma rec_norm_fst r : fst (rec_norm ks r) = fst r.
  Proof. unfold rec_norm. destruct (lookup_rk ks (fst r)); reflexivity. Qed.

  (* a record returned by the stream decoder, after normalisation, is a valid
     record of a message value *)
  Lemma rec_okb_norm r :
    record_ok K true r -> wf_bytes (snd r) -> rec_check oc ks r = true ->
    rec_okb oc M (rec_norm ks r) = true.
  Proof.
    destruct r as [t v]. unfold record_ok, rec_check, rec_norm, rec_okb. cbn [fst snd len_bound].
    intros (Ht & Hl & Hv) Hw Hc. rewrite K_kind in Hv.
    destruct (lookup_rk ks t) as [k|] eqn:E; cbn [fst snd option_map] in *.
    - rewrite E. destruct (norm_props oc k v Hw Hv) as (Hw' & Hv' & Hl' & Hi & Hc').
      rewrite Hi, Hc', Hc. rewrite (proj1 (value_okb_spec k _ Hw') Hv').
      rewrite (proj2 (wf_bytesb_spec _) Hw'), (proj2 (beq_spec _ _) eq_refl).
      assert (H1 : (t <? two64) = true) by (apply N.ltb_lt; assumption).
      assert (H2 : (blen (rk_norm k v) <=? max_record_size) = true).
      { apply N.leb_le. unfold blen in *. lia. }
      rewrite H1, H2. reflexivity.
    - rewrite E. rewrite (proj2 (wf_bytesb_spec _) Hw).
      assert (H1 : (t <? two64) = true) by (apply N.ltb_lt; assumption).
      assert (H2 : (blen v <=? max_record_size) = true) by (apply N.leb_le; assumption).
      rewrite H1, H2. reflexivity.
  Qed.

  Lemma rec_okb_spec r :
    rec_okb oc M r = true ->
    record_ok K true r /\ wf_bytes (snd r) /\ rec_check oc ks r = true /\ rec_norm ks r = r.
  Proof.
    destruct r as [t v]. unfold record_ok, rec_check, rec_norm, rec_okb. cbn [fst snd len_bound].
    intros H. apply andb_true_iff in H. destruct H as [H H4].
    apply andb_true_iff in H. destruct H as [H H3].
    apply andb_true_iff in H. destruct H as [H1 H2].
    apply N.ltb_lt in H1. apply N.leb_le in H2. apply wf_bytesb_spec in H3.
    rewrite K_kind. destruct (lookup_rk ks t) as [k|]; cbn [option_map].
    - apply andb_true_iff in H4. destruct H4 as [H4 H6].
      apply andb_true_iff in H4. destruct H4 as [H4 H5].
      apply (value_okb_spec _ _ H3) in H4. apply beq_spec in H6. rewrite H6. repeat split; auto.
    - repeat split; auto.
  Qed.

  Lemma always_okb t : In t (always_types ks) -> rec_okb oc M (t, []) = true.
  Proof.
    intros Hin. destruct (ok_always t Hin) as [Ht Hk]. unfold rec_okb. cbn [fst snd].
    rewrite Hk. assert (H1 : (t <? two64) = true) by (apply N.ltb_lt; assumption).
    rewrite H1. reflexivity.
  Qed.

  Lemma always_known t : In t (always_types ks) -> rec_known ks (t, []) = true.
  Proof.
    intros Hin. destruct (ok_always t Hin) as [_ Hk]. unfold rec_known. cbn [fst]. rewrite Hk.
    reflexivity.
  Qed.

  (* what the stream decoder returns *)
  Lemma stream_facts r2 rs :
    wf_bytes r2 -> decode_stream K true r2 = Ok rs ->
    sorted_from 0 rs /\ Forall (record_ok K true) rs /\
    Forall (fun r => wf_bytes (snd r)) rs.
  Proof. apply stream_facts_any. Qed.

  Definition post (rs : list tlv_record) : list tlv_record :=
    ensure_all (always_types ks) (map (rec_norm ks) rs).

  Lemma post_valid rs :
    sorted_from 0 rs -> Forall (record_ok K true) rs -> Forall (fun r => wf_bytes (snd r)) rs ->
    forallb (rec_check oc ks) rs = true ->
    sorted_fromb 0 (post rs) = true /\ forallb (rec_okb oc M) (post rs) = true /\
    forallb (fun t => has_type t (post rs)) (always_types ks) = true.
  Proof.
    intros Hs Hf Hw Hc. unfold post. split; [|split].
    - apply sorted_fromb_spec. apply ensure_all_sorted.
      apply sorted_map_types; [apply rec_norm_fst|assumption].
    - apply forallb_forall. apply Forall_forall. apply ensure_all_forall.
      + apply Forall_forall. intros t Hin. apply always_okb. assumption.
      + apply Forall_forall. intros r Hin. apply in_map_iff in Hin. destruct Hin as (r0 & <- & Hin).
        rewrite Forall_forall in Hf, Hw. rewrite forallb_forall in Hc.
        apply rec_okb_norm; auto.
    - apply forallb_forall. intros t Hin. apply ensure_all_has. assumption.
  Qed.

  (* the optional part *)
  Lemma cond_valid vs b cs r :
    wf_bytes b -> decode_cond oc M vs b = Some (cs, r) ->
    valid_cond oc M vs cs = true /\ wf_bytes r /\
    exists e, encode_cond M vs cs = Some e /\
              forall s, decode_cond oc M vs (e ++ s) = Some (cs, s).
  Proof.
    intros Hw. unfold decode_cond, valid_cond, encode_cond.
    destruct (tm_cond M) as [[[i mask] Lc]|] eqn:Ec.
    2:{ intros H; inversion H; subst. repeat split; auto. exists []. repeat split; auto. }
    destruct (flag_set vs i mask).
    2:{ intros H; inversion H; subst. repeat split; auto. exists []. repeat split; auto. }
    intros H. pose proof (dec_rest_wf _ _ _ _ _ Hw H) as Hwr.
    rewrite dec_rest_is in *.
    destruct (decode_rest_valid oc Lc b cs r Hw H) as (Hv & e & He & Hl & _).
    split; [assumption|]. split; [assumption|]. exists e. split; [assumption|].
    pose proof (ok_cond _ _ _ Ec) as Hn.
    destruct (layout_roundtrip_rest oc Lc (nonterm_lay_ok _ Hn) cs Hv) as (e' & He' & _ & Hr).
    rewrite He in He'. inversion He'; subst e'. intros s. rewrite dec_rest_is. apply Hr. exact Hn.
  Qed.

  (* Lemma A: whatever Decode returns is a valid message value *)
  Lemma decode_valid b v :
    wf_bytes b -> decode_tm oc M b = Some v -> valid_tv oc M v = true.
  Proof.
    intros Hw. unfold decode_tm.
    destruct (dec_rest oc (tm_pre M) b) as [[vs r1]|] eqn:E1; [|discriminate].
    pose proof (dec_rest_wf _ _ _ _ _ Hw E1) as Hw1.
    destruct (decode_cond oc M vs r1) as [[cs r2]|] eqn:E2; [|discriminate].
    destruct (cond_valid _ _ _ _ Hw1 E2) as (Hvc & Hw2 & _).
    destruct (decode_stream K true r2) as [rs|] eqn:E3; [|discriminate].
    destruct (forallb (rec_check oc ks) rs) eqn:E4; [|discriminate].
    cbv zeta. fold (post rs). destruct (excl_ok (tm_excl M) (post rs)) eqn:E5; [|discriminate].
    intros H; inversion H; subst v. clear H.
    destruct (stream_facts _ _ Hw2 E3) as (Hs & Hf & Hwr).
    destruct (post_valid rs Hs Hf Hwr E4) as (P1 & P2 & P3).
    rewrite dec_rest_is in E1.
    destruct (decode_rest_valid oc _ _ _ _ Hw E1) as (Hv & _).
    unfold valid_tv. rewrite Hv, Hvc, P1, P2, P3, E5. reflexivity.
  Qed.

  (* Lemma C: a complete valid value round-trips *)
  Lemma roundtrip v :
    valid_tv oc M v = true -> complete_tv M v = true ->
    exists e, encode_tm M v = Some e /\ decode_tm oc M e = Some v.
  Proof.
    destruct v as [[vs cs] rs]. unfold valid_tv, complete_tv. intros Hv Hc.
    apply andb_true_iff in Hv. destruct Hv as [Hv V6].
    apply andb_true_iff in Hv. destruct Hv as [Hv V5].
    apply andb_true_iff in Hv. destruct Hv as [Hv V4].
    apply andb_true_iff in Hv. destruct Hv as [Hv V3].
    apply andb_true_iff in Hv. destruct Hv as [V1 V2].
    assert (Hout : out_recs M rs = rs).
    { unfold out_recs. destruct (tm_mode M); [apply filter_all; assumption|reflexivity]. }
    pose proof ok_pre as Hn.
    destruct (layout_roundtrip_rest oc _ (nonterm_lay_ok _ Hn) vs V1) as (e1 & He1 & _ & Hr1).
    specialize (Hr1 Hn).
    (* conditional part *)
    assert (Hcnd : exists e2, encode_cond M vs cs = Some e2 /\
                              forall s, decode_cond oc M vs (e2 ++ s) = Some (cs, s)).
    { unfold valid_cond in V2. unfold encode_cond, decode_cond.
      destruct (tm_cond M) as [[[i mask] Lc]|] eqn:Ec.
      2:{ destruct cs; [|discriminate]. exists []. split; auto. }
      destruct (flag_set vs i mask).
      2:{ destruct cs; [|discriminate]. exists []. split; auto. }
      pose proof (ok_cond _ _ _ Ec) as Hnc.
      destruct (layout_roundtrip_rest oc Lc (nonterm_lay_ok _ Hnc) cs V2) as (e2 & He2 & _ & Hr2).
      exists e2. split; [assumption|]. intros s. rewrite dec_rest_is. apply Hr2. exact Hnc. }
    destruct Hcnd as (e2 & He2 & Hr2).
    exists (e1 ++ e2 ++ encode_stream rs). unfold encode_tm. rewrite He1, He2, Hout.
    split; [reflexivity|]. unfold decode_tm. rewrite dec_rest_is, Hr1, Hr2.
    (* the stream *)
    apply sorted_fromb_spec in V3.
    assert (Hall : Forall (fun r => record_ok K true r /\ wf_bytes (snd r) /\
                                    rec_check oc ks r = true /\ rec_norm ks r = r) rs).
    { apply Forall_forall. intros r Hin. rewrite forallb_forall in V4. apply rec_okb_spec. auto. }
    assert (Hdec : decode_stream K true (encode_stream rs) = Ok rs).
    { unfold decode_stream. apply dec_loop_complete; [|exact V3|lia].
      eapply Forall_impl; [|exact Hall]. cbn. tauto. }
    rewrite Hdec.
    assert (Hchk : forallb (rec_check oc ks) rs = true).
    { apply forallb_forall. intros r Hin. rewrite Forall_forall in Hall. apply Hall. assumption. }
    rewrite Hchk.
    assert (Hmap : map (rec_norm ks) rs = rs).
    { rewrite <- (map_id rs) at 2. apply map_ext_in. intros r Hin.
      rewrite Forall_forall in Hall. apply Hall. assumption. }
    cbv zeta. rewrite Hmap, ensure_all_id by assumption. rewrite V6. reflexivity.
  Qed.

  (* Lemma B: dropping what Encode does not write keeps the value valid *)
  Lemma out_valid vs cs rs :
    valid_tv oc M (vs, cs, rs) = true ->
    valid_tv oc M (vs, cs, out_recs M rs) = true /\ complete_tv M (vs, cs, out_recs M rs) = true.
  Proof.
    unfold valid_tv, complete_tv, out_recs. destruct (tm_mode M); [|tauto].
    intros Hv.
    apply andb_true_iff in Hv. destruct Hv as [Hv V6].
    apply andb_true_iff in Hv. destruct Hv as [Hv V5].
    apply andb_true_iff in Hv. destruct Hv as [Hv V4].
    apply andb_true_iff in Hv. destruct Hv as [Hv V3].
    rewrite Hv. split; [|apply forallb_filter].
    cbn [andb]. apply andb_true_iff. split; [apply andb_true_iff; split; [apply andb_true_iff; split|]|].
    4:{ apply excl_ok_filter. assumption. }
    - apply sorted_fromb_spec. apply sorted_filter. apply sorted_fromb_spec. assumption.
    - apply forallb_filter_sub. assumption.
    - apply forallb_forall. intros t Hin. rewrite forallb_forall in V5. specialize (V5 t Hin).
      unfold has_type in *. apply existsb_exists in V5. destruct V5 as (r & Hr & Ht).
      apply existsb_exists. exists r. split; [|assumption]. apply filter_In. split; [assumption|].
      apply N.eqb_eq in Ht. destruct (ok_always t Hin) as [_ Hk].
      unfold rec_known. rewrite Ht, Hk. reflexivity.
  Qed.

  Lemma out_idem rs : out_recs M (out_recs M rs) = out_recs M rs.
  Proof. unfold out_recs. destruct (tm_mode M); [apply filter_idem|reflexivity]. Qed.

  Lemma encode_out vs cs rs :
    encode_tm M (vs, cs, out_recs M rs) = encode_tm M (vs, cs, rs).
  Proof. unfold encode_tm. rewrite out_idem. reflexivity. Qed.

  (* canonical fixpoint after ONE re-encode; the only loss is out_recs *)
  Theorem tlvmsg_fixpoint b vs cs rs :
    wf_bytes b -> decode_tm oc M b = Some (vs, cs, rs) ->
    exists e, encode_tm M (vs, cs, rs) = Some e /\
              decode_tm oc M e = Some (vs, cs, out_recs M rs) /\
              encode_tm M (vs, cs, out_recs M rs) = Some e.
  Proof.
    intros Hw Hd. pose proof (decode_valid _ _ Hw Hd) as Hv.
    destruct (out_valid _ _ _ Hv) as [Hv' Hc'].
    destruct (roundtrip _ Hv' Hc') as (e & He & Hde).
    exists e. rewrite <- encode_out. auto.
  Qed.
End Msg.

(* exactly the unknown records are lost, and only by Repack messages *)
Lemma out_recs_in M r rs :
  In r (out_recs M rs) <->
  In r rs /\ (tm_mode M = Merge \/ rec_known (tm_known M) r = true).
Proof.
  unfold out_recs. destruct (tm_mode M).
  - rewrite filter_In. split; [intros [H1 H2]; auto|intros [H1 [H2|H2]]; [discriminate|auto]].
  - split; [auto|tauto].
Qed.

(* ------------------------------------------------------------------ *)
(* messages with an optional tail *)

Lemma enc_f_nonempty k L v a :
  starts_nonempty (k :: L) = true -> enc_f k v = Some a -> (1 <= length a)%nat.
Proof.
  destruct k as [[|n]|[|n]| | | | | | | | | | | |]; try discriminate; intros _; destruct v as [x|b];
    cbn [enc_f]; try discriminate.
  - intros H. injection H as <-. rewrite app_length. cbn [length]. lia.
  - destruct (Nat.eqb (length b) (S n)) eqn:E; [|discriminate]. apply Nat.eqb_eq in E.
    intros H. injection H as <-. lia.
  - destruct (Nat.eqb (length b) 33) eqn:E; [|discriminate]. apply Nat.eqb_eq in E.
    intros H. injection H as <-. lia.
Qed.

Section Opt.
  Variable oc : bytes -> bool.
  Variable W : optmsg.
  Hypothesis Hok : om_ok W = true.

  Notation M := (om_tail W).

  Lemma om_pre_ok : nonterminal (om_pre W) = true.
  Proof.
    unfold om_ok in Hok. apply andb_true_iff in Hok. destruct Hok as [H _].
    apply andb_true_iff in H. tauto.
  Qed.

  Lemma om_tail_ok : tm_ok M = true.
  Proof.
    unfold om_ok in Hok. apply andb_true_iff in Hok. destruct Hok as [H _].
    apply andb_true_iff in H. tauto.
  Qed.

  Lemma om_starts : starts_nonempty (tm_pre M) = true.
  Proof. unfold om_ok in Hok. apply andb_true_iff in Hok. tauto. Qed.

  Lemma tail_nonempty tv e : encode_tm M tv = Some e -> e <> [].
  Proof.
    destruct tv as [[ts cs] rs]. unfold encode_tm. pose proof om_starts as Hs.
    destruct (tm_pre M) as [|k L] eqn:EL; [discriminate|].
    destruct ts as [|v ts]; cbn [encode]; [discriminate|].
    destruct (enc_f k v) as [a|] eqn:Ea; [|discriminate].
    pose proof (enc_f_nonempty k L v a Hs Ea) as Hl.
    destruct (encode L ts) as [b1|]; [|discriminate].
    destruct (encode_cond M (v :: ts) cs) as [e2|]; [|discriminate].
    intros H; inversion H; subst. destruct a; [cbn in Hl; lia|discriminate].
  Qed.

  Theorem om_roundtrip v :
    valid_ov oc W v = true -> complete_ov W v = true ->
    exists e, encode_om W v = Some e /\ decode_om oc W e = Some v.
  Proof.
    destruct v as [vs tvo]. unfold valid_ov, complete_ov, encode_om, decode_om. cbn [fst snd].
    intros Hv Hc. apply andb_true_iff in Hv. destruct Hv as [V1 V2].
    pose proof om_pre_ok as Hn.
    destruct (layout_roundtrip_rest oc _ (nonterm_lay_ok _ Hn) vs V1) as (e1 & He1 & Hd1 & Hr1).
    specialize (Hr1 Hn). rewrite He1. destruct tvo as [tv|].
    - destruct (roundtrip oc M om_tail_ok tv V2 Hc) as (e2 & He2 & Hd2). rewrite He2.
      exists (e1 ++ e2). split; [reflexivity|]. rewrite dec_rest_is, Hr1.
      pose proof (tail_nonempty tv e2 He2) as Hne. destruct e2 as [|x e2]; [contradiction|].
      rewrite Hd2. reflexivity.
    - exists e1. split; [reflexivity|]. rewrite dec_rest_is, Hd1. reflexivity.
  Qed.

  Lemma encode_om_out v : encode_om W (out_ov W v) = encode_om W v.
  Proof.
    destruct v as [vs [[[ts cs] rs]|]]; unfold encode_om, out_ov; cbn [fst snd option_map out_tv];
      [|reflexivity].
    rewrite (encode_out M). reflexivity.
  Qed.

  Theorem om_fixpoint b v :
    wf_bytes b -> decode_om oc W b = Some v ->
    valid_ov oc W v = true /\
    exists e, encode_om W v = Some e /\ decode_om oc W e = Some (out_ov W v) /\
              encode_om W (out_ov W v) = Some e.
  Proof.
    intros Hw. unfold decode_om.
    destruct (dec_rest oc (om_pre W) b) as [[vs r]|] eqn:E1; [|discriminate].
    pose proof (dec_rest_wf _ _ _ _ _ Hw E1) as Hwr. rewrite dec_rest_is in E1.
    destruct (decode_rest_valid oc _ _ _ _ Hw E1) as (V1 & _).
    assert (Hgo : forall v', v' = out_ov W v -> valid_ov oc W v' = true -> complete_ov W v' = true ->
                  exists e, encode_om W v = Some e /\ decode_om oc W e = Some v' /\
                            encode_om W v' = Some e).
    { intros v' -> Hv' Hc'. destruct (om_roundtrip _ Hv' Hc') as (e & He & Hd).
      exists e. rewrite <- encode_om_out. auto. }
    destruct r as [|x r].
    - intros H; inversion H; subst v. clear H.
      assert (Hv : valid_ov oc W (vs, None) = true) by (unfold valid_ov; cbn [fst snd]; rewrite V1; reflexivity).
      split; [exact Hv|]. apply Hgo; auto.
    - destruct (decode_tm oc M (x :: r)) as [tv|] eqn:E2; [|discriminate].
      intros H; inversion H; subst v. clear H.
      pose proof (decode_valid oc M om_tail_ok _ _ Hwr E2) as V2.
      assert (Hv : valid_ov oc W (vs, Some tv) = true) by (unfold valid_ov; cbn [fst snd]; rewrite V1, V2; reflexivity).
      split; [exact Hv|]. destruct tv as [[ts cs] rs].
      destruct (out_valid oc M om_tail_ok _ _ _ V2) as [V2' C2'].
      apply Hgo; [reflexivity| |].
      + unfold valid_ov, out_ov. cbn [fst snd option_map out_tv]. rewrite V1, V2'. reflexivity.
      + unfold complete_ov, out_ov. cbn [fst snd option_map out_tv]. exact C2'.
  Qed.
End Opt.

(* ------------------------------------------------------------------ *)
(* onion failure packets *)

Lemma unframe_frame m p :
  frame_failure m = Some p -> unframe_failure p = Some m /\ blen p = 260.
Proof.
  unfold frame_failure.
  destruct (N.ltb_spec failure_len (blen m)) as [|Hle]; [discriminate|].
  intros H.
  assert (Hp : p = be_enc 2 (blen m) ++ m ++ be_enc 2 (failure_len - blen m) ++
                   repeat 0 (N.to_nat (failure_len - blen m))) by congruence.
  subst p. clear H. unfold failure_len in *.
  set (pad := 256 - blen m) in *.
  assert (Hz : blen (repeat 0 (N.to_nat pad)) = pad).
  { unfold blen. rewrite repeat_length. lia. }
  split.
  - unfold unframe_failure. rewrite read_be_app, pow2, N.mod_small by lia. cbv beta iota.
    rewrite take_app. cbv beta iota.
    rewrite read_be_app, pow2, N.mod_small by (unfold pad; lia). cbv beta iota.
    rewrite <- (app_nil_r (repeat 0 (N.to_nat pad))). rewrite <- Hz at 1. rewrite take_app.
    cbv beta iota.
    unfold failure_len. destruct (N.ltb_spec (blen m + pad) 256); [unfold pad in *; lia|].
    reflexivity.
  - assert (Hb : forall x, blen (be_enc 2 x) = 2)
      by (intros; unfold blen; rewrite be_enc_length; reflexivity).
    rewrite !blen_app, Hz, !Hb. unfold pad. lia.
Qed.

Lemma failure_roundtrip oc F code L vs p :
  lookup_layout F code = Some L -> lay_ok L = true -> code < 65536 ->
  valid_vs oc L vs = true -> encode_failure F code vs = Some p ->
  decode_failure oc F p = Some (code, vs) /\ blen p = 260.
Proof.
  intros HL Hok Hc Hv. unfold encode_failure.
  destruct (write_message F code vs) as [m|] eqn:Em; [|discriminate].
  pose proof (message_roundtrip oc F code L vs m HL Hok Hc Hv Em) as Hr.
  intros H. destruct (unframe_frame _ _ H) as [Hu Hl]. split; [|exact Hl].
  unfold decode_failure. rewrite Hu. exact Hr.
Qed.

(* failure payloads embedding a channel_update *)
Lemma uf_roundtrip oc U F v p :
  tm_ok U = true -> nonterminal (uf_pre F) = true ->
  valid_fd oc U (FDUpd F) v = true -> encode_uf U F v = Some p ->
  decode_uf oc U F p = Some v.
Proof.
  intros HU Hn. destruct v as [vs tvo]. unfold valid_fd, encode_uf, decode_uf. cbn [fst snd].
  intros Hv. apply andb_true_iff in Hv. destruct Hv as [V1 V2].
  destruct (layout_roundtrip_rest oc _ (nonterm_lay_ok _ Hn) vs V1) as (e1 & He1 & _ & Hr1).
  specialize (Hr1 Hn). rewrite He1. destruct tvo as [tv|].
  - apply andb_true_iff in V2. destruct V2 as [V2 C2].
    destruct (roundtrip oc U HU tv V2 C2) as (e2 & He2 & Hd2). rewrite He2.
    destruct (N.ltb_spec max_msg_body (blen e2)) as [|Hle]; [discriminate|].
    intros H.
    assert (Hp : p = e1 ++ be_enc 2 (blen e2 + 2) ++ [1; 2] ++ e2) by congruence.
    subst p. clear H. rewrite dec_rest_is, Hr1. unfold max_msg_body in Hle.
    rewrite read_be_app, pow2, N.mod_small by lia.
    assert (Hz : (blen e2 + 2 =? 0) = false) by (apply N.eqb_neq; lia).
    rewrite Hz, andb_false_r.
    assert (Hf : firstn (N.to_nat (blen e2 + 2)) ([1; 2] ++ e2) = 1 :: 2 :: e2).
    { change ([1; 2] ++ e2) with (1 :: 2 :: e2). rewrite firstn_all2; [reflexivity|].
      unfold blen. cbn [length]. lia. }
    rewrite Hf. cbn [N.mul N.add N.eqb Pos.mul Pos.add Pos.eqb]. rewrite Hd2. reflexivity.
  - rewrite V2. intros H.
    assert (Hp : p = e1 ++ [0; 0]) by congruence. subst p. clear H. rewrite dec_rest_is, Hr1.
    change (read_be 2 [0; 0]) with (Some (0, @nil N)). reflexivity.
Qed.

Lemma eof_roundtrip oc L : eof_ok L = true -> forall vs p,
  valid_vs oc L vs = true -> encode L vs = Some p -> decode_eof oc L p = Some vs.
Proof.
  induction L as [|k L IH]; intros Hok vs p Hv He.
  - destruct vs; [|discriminate]. reflexivity.
  - destruct vs as [|v vs]; [discriminate|]. cbn [valid_vs] in Hv. apply andb_true_iff in Hv.
    destruct Hv as [Hvk Hvs]. cbn [encode] in He.
    destruct (enc_f k v) as [a|] eqn:Ea; [|discriminate].
    destruct (encode L vs) as [q|] eqn:Eq; [|discriminate]. injection He as <-.
    destruct k as [[|n]| | | | | | | | | | | | |]; try discriminate.
    + (* FU (S n) *)
      assert (HokL : eof_ok L = true) by exact Hok.
      destruct (field_roundtrip oc _ _ Hvk eq_refl) as (a' & Ha' & Hd). rewrite Ea in Ha'.
      injection Ha' as <-.
      assert (Hne : (1 <= length a)%nat) by (eapply (enc_f_nonempty (FU (S n)) []); [reflexivity|exact Ea]).
      cbn [decode_eof]. destruct a as [|x a]; [cbn in Hne; lia|]. cbn [app].
      change (x :: a ++ q) with ((x :: a) ++ q). rewrite Hd, (IH HokL vs q Hvs Eq). reflexivity.
    + (* [FRest] *)
      destruct L as [|? ?]; [|discriminate]. destruct vs; [|discriminate].
      destruct v as [x|b]; [discriminate|]. cbn [enc_f] in Ea. injection Ea as <-.
      cbn [encode] in Eq. injection Eq as <-. rewrite app_nil_r. cbn [decode_eof].
      destruct b; reflexivity.
Qed.

Lemma fd_roundtrip oc U D v p :
  tm_ok U = true -> fd_ok D = true -> valid_fd oc U D v = true ->
  encode_fd U D v = Some p -> decode_fd oc U D p = Some v.
Proof.
  intros HU Hok. destruct D as [L|F|L]; cbn [fd_ok] in Hok.
  - destruct v as [vs [tv|]]; unfold valid_fd, encode_fd, decode_fd; cbn [fst snd].
    + rewrite andb_false_r. discriminate.
    + rewrite andb_true_r. intros Hv He.
      destruct (layout_roundtrip oc L vs Hok Hv) as (b & Hb & Hd). rewrite He in Hb.
      injection Hb as <-. rewrite Hd. reflexivity.
  - apply uf_roundtrip; assumption.
  - destruct v as [vs [tv|]]; unfold valid_fd, encode_fd, decode_fd; cbn [fst snd].
    + rewrite andb_false_r. discriminate.
    + rewrite andb_true_r. intros Hv He. rewrite (eof_roundtrip oc L Hok vs p Hv He). reflexivity.
Qed.

Theorem failure_g_roundtrip oc U T code D v p :
  tm_ok U = true -> lookup_fd T code = Some D -> fd_ok D = true -> code < 65536 ->
  valid_fd oc U D v = true -> encode_failure_g U T code v = Some p ->
  decode_failure_g oc U T p = Some (code, v) /\ blen p = 260.
Proof.
  intros HU HD Hok Hc Hv. unfold encode_failure_g, write_fmessage. rewrite HD.
  destruct (encode_fd U D v) as [q|] eqn:Eq; [|discriminate].
  intros H. destruct (unframe_frame _ _ H) as [Hu Hl]. split; [|exact Hl].
  unfold decode_failure_g. rewrite Hu. unfold read_fmessage.
  rewrite read_be_app, pow2, N.mod_small by assumption. rewrite HD.
  rewrite (fd_roundtrip oc U D v q HU Hok Hv Eq). reflexivity.
Qed.

(* ------------------------------------------------------------------ *)
(* feature vectors over the whole uint16 bit-index range *)

Lemma be_dec_acc_strip0 b : be_dec_acc (strip0 b) 0 = be_dec_acc b 0.
Proof.
  induction b as [|x b IH]; [reflexivity|]. cbn [strip0]. destruct x; [|reflexivity].
  cbn [be_dec_acc]. exact IH.
Qed.

Lemma feature_vector_roundtrip oc k n r :
  N.of_nat k <= 8192 -> n < 256 ^ N.of_nat k ->
  valid_f oc FFeat (VB (feat_of_N k n)) = true /\ be_dec (feat_of_N k n) = n /\
  blen (feat_of_N k n) <= 8192 /\
  exists e, enc_f FFeat (VB (feat_of_N k n)) = Some e /\
            dec_f oc FFeat (e ++ r) = Some (VB (feat_of_N k n), r).
Proof.
  unfold feat_of_N. intros Hk.
  pose proof (strip0_len (be_enc k n)) as Hl. rewrite be_enc_length in Hl.
  assert (Hb : blen (strip0 (be_enc k n)) <= 8192) by (unfold blen; lia).
  assert (Hv : valid_f oc FFeat (VB (strip0 (be_enc k n))) = true).
  { cbn [valid_f]. rewrite (proj2 (wf_bytesb_spec _) (strip0_wf _ (be_enc_wf k n))), strip0_head.
    assert (H : (blen (strip0 (be_enc k n)) <=? 65535) = true) by (apply N.leb_le; lia).
    rewrite H. reflexivity. }
  intros Hn. split; [exact Hv|]. split.
  - unfold be_dec. rewrite be_dec_acc_strip0. fold (be_dec (be_enc k n)).
    rewrite be_dec_enc. apply N.mod_small. exact Hn.
  - split; [exact Hb|].
    destruct (field_roundtrip oc FFeat _ Hv eq_refl) as (e & He & Hd). exists e. auto.
Qed.

(* ------------------------------------------------------------------ *)
(* default-elided records *)

Lemma elide_roundtrip_iff emit d :
  (forall v, el_decode d (el_encode emit v) = v) <-> (forall v, emit v = false -> v = d).
Proof.
  unfold el_decode, el_encode. split.
  - intros H v Hv. specialize (H v). rewrite Hv in H. symmetry. exact H.
  - intros H v. destruct (emit v) eqn:E; [reflexivity|]. symmetry. apply H. exact E.
Qed.

Lemma elide_canonical emit d :
  (forall v, emit v = negb (v =? d)) ->
  (forall v, el_decode d (el_encode emit v) = v) /\
  (forall w, el_encode emit (el_decode d w) = match w with Some v => if v =? d then None else w | None => None end).
Proof.
  intros H. split.
  - apply elide_roundtrip_iff. intros v Hv. rewrite H in Hv. apply negb_false_iff in Hv.
    apply N.eqb_eq. exact Hv.
  - intros [v|]; unfold el_decode, el_encode; rewrite H.
    + destruct (v =? d); reflexivity.
    + rewrite N.eqb_refl. reflexivity.
Qed.

Lemma elision_ok_spec e d :
  elision_ok e = true -> el_default e = DConst d ->
  forall v, etest_fn (el_test e) v = negb (v =? d).
Proof.
  unfold elision_ok. intros H Hd. rewrite Hd in H.
  destruct (el_test e) as [c| |]; try discriminate.
  apply N.eqb_eq in H. subst c. reflexivity.
Qed.
