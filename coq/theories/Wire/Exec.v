(* Trace checker for the C10 correspondence run: every case carries the inputs
   given to the real Go code and what it returned; the model is evaluated on
   the same inputs and must agree. *)
From Coq Require Import List NArith ZArith Bool Uint63.
From LV Require Import Wire.Model Wire.MsgModel Gen.GenWire.
Import ListNotations.
Local Open Scope N_scope.

(* Input transport only: props/c10.py writes a byte string of n bytes as `ub n [i1; i2; ...]`,
   seven bytes per primitive 63-bit integer (big endian, the last one zero padded); parsing
   this is ~10x faster than a list of N literals.  ub unpacks it into the model's bytes. *)
Definition byte_at (x sh : int) : N :=
  Z.to_N (Uint63.to_Z (Uint63.land (Uint63.lsr x sh) 255%uint63)).
Definition unpack7 (x : int) (acc : bytes) : bytes :=
  byte_at x 48%uint63 :: byte_at x 40%uint63 :: byte_at x 32%uint63 :: byte_at x 24%uint63 ::
  byte_at x 16%uint63 :: byte_at x 8%uint63 :: byte_at x 0%uint63 :: acc.
Definition ub (n : N) (l : list int) : bytes := firstn (N.to_nat n) (fold_right unpack7 [] l).

Fixpoint bytes_eqb (a b : bytes) : bool :=
  match a, b with
  | [], [] => true
  | x :: a', y :: b' => N.eqb x y && bytes_eqb a' b'
  | _, _ => false
  end.

Definition err_code (e : err) : N :=
  match e with
  | EEOF => 1 | EUnexpectedEOF => 2 | EVarIntNotCanonical => 3
  | EStreamNotCanonical => 4 | ERecordTooLarge => 5 | ETypeLen => 6
  | ENotMinimal => 7 | ECorrupt => 8 | EOutOfFuel => 99
  end.

Fixpoint recs_eqb (a b : list tlv_record) : bool :=
  match a, b with
  | [], [] => true
  | (t, v) :: a', (t', v') :: b' => N.eqb t t' && bytes_eqb v v' && recs_eqb a' b'
  | _, _ => false
  end.

Definition fval_eqb (a b : fval) : bool :=
  match a, b with
  | VN x, VN y => N.eqb x y
  | VB x, VB y => bytes_eqb x y
  | _, _ => false
  end.

Fixpoint fvals_eqb (a b : list fval) : bool :=
  match a, b with
  | [], [] => true
  | x :: a', y :: b' => fval_eqb x y && fvals_eqb a' b'
  | _, _ => false
  end.

Inductive case :=
(* tlv.ReadVarInt on b: code 0 => (value, bytes left) *)
| CVarRead (b : bytes) (code : N) (v : N) (nleft : N)
(* tlv.WriteVarInt v = out *)
| CVarWrite (v : N) (out : bytes)
(* Stream.Decode / DecodeP2P with known record kinds ks: code 0 => records
   (type, value bytes) in stream order; reenc = Stream.Encode of them *)
| CStream (ks : kinds) (p2p : bool) (b : bytes) (code : N) (recs : list tlv_record)
          (reenc : bytes)
(* same, only the verdict is observable (plain Decode on the non-p2p path) *)
| CStreamCode (ks : kinds) (p2p : bool) (b : bytes) (code : N)
(* lnwire.ReadMessage on b: ok => (type, fields) and WriteMessage of the result *)
| CMsg (b : bytes) (ok : bool) (t : N) (fields : list fval) (reenc : bytes)
(* the same with the ParsePubKey oracle given as a table (see pts below): plain layouts
   with public-key fields *)
| CMsgP (b : bytes) (ok : bool) (t : N) (fields : list fval) (reenc : bytes) (pts : list bytes)
(* lnwire.WriteMessage of a generated value *)
| CWrite (t : N) (fields : list fval) (ok : bool) (out : bytes)
(* lnwire.ReadMessage on b for a TLV-carrying message type (Gen.GenWire.gen_tlvmsgs):
   ok => type, fixed ++ conditional field values, the ExtraData field of the decoded
   struct, and WriteMessage of the result *)
| CTMsg (b : bytes) (ok : bool) (t : N) (fields : list fval) (extra : bytes) (reenc : bytes)
        (pts : list bytes)
(* the same for a message with an optional tail (Gen.GenWire.gen_optmsgs): fields = fixed
   ++ tail fields when the tail is present *)
| COMsg (b : bytes) (ok : bool) (t : N) (fields : list fval) (extra : bytes) (reenc : bytes)
        (pts : list bytes)
(* lnwire.DecodeFailure (full) / DecodeFailureMessage on b: ok => failure code and
   EncodeFailure / EncodeFailureMessage of the result (codes of Gen.GenWire.gen_fdescs:
   plain payload layouts and payloads embedding a channel_update) *)
| CFail (full : bool) (b : bytes) (ok : bool) (code : N) (reenc : bytes).
(* pts: the 33-byte windows of b that are compressed secp256k1 points, computed
   by props/c10.py independently of the Go code (evaluating secp_on_curve below
   inside Coq costs ~2 s per point); the model's ParsePubKey oracle for this
   case is membership in pts. *)

(* ---- btcec.ParsePubKey on 33 bytes: format byte 02/03, x < p, x^3+7 a square mod p ---- *)
Definition secp_p : N :=
  115792089237316195423570985008687907853269984665640564039457584007908834671663.

Fixpoint pow_mod_pos (b : N) (e : positive) (m : N) : N :=
  match e with
  | xH => b mod m
  | xO e' => let r := pow_mod_pos b e' m in (r * r) mod m
  | xI e' => let r := pow_mod_pos b e' m in ((r * r) mod m * b) mod m
  end.

Definition secp_on_curve (b : bytes) : bool :=
  match b with
  | f :: xs =>
    ((f =? 2) || (f =? 3)) && Nat.eqb (length xs) 32 &&
    (let x := be_dec xs in
     (x <? secp_p) &&
     (let c := (x * x mod secp_p * x + 7) mod secp_p in
      (c =? 0) ||
      (match (secp_p - 1) / 2 with
       | Npos e => pow_mod_pos c e secp_p =? 1
       | N0 => false
       end)))
  | [] => false
  end.

(* generated layouts + the custom-message range (Custom.Encode/Decode use the
   buffer directly, which the translator does not express; the custom range 32768..65535
   is sampled at its first two types and its last) *)
Definition exec_layouts : msg_table :=
  gen_layouts ++ [(32768, [FRest]); (32769, [FRest]); (65535, [FRest])].

Definition table_oc (pts : list bytes) (b : bytes) : bool := existsb (bytes_eqb b) pts.

(* the ExtraData field of the struct Decode fills *)
Definition tm_extra (oc : bytes -> bool) (M : tlvmsg) (nosplit : bool) (body : bytes) (v : tvalue)
  : bytes :=
  match tm_mode M with
  | Repack =>
    match dec_rest oc (tm_pre M) body with
    | Some (vs, r1) =>
      match decode_cond oc M vs r1 with Some (_, r2) => r2 | None => [] end
    | None => []
    end
  | Merge =>
    match v with
    | (_, _, rs) =>
      (* unknown records; those with type >= 65536 move to CustomRecords unless the message
         keeps everything in ExtraData (ParseAndExtractExtraData) *)
      encode_stream (filter (fun r => negb (rec_known (tm_known M) r) &&
                                      (nosplit || (fst r <? 65536))) rs)
    end
  end.

Definition check_msg (oc : bytes -> bool) (b : bytes) (ok : bool) (t : N) (fields : list fval)
           (reenc : bytes) : list N :=
  match read_message oc exec_layouts b with
  | Some (t', vs) =>
    (if ok && (t =? t') && fvals_eqb vs fields then [] else [6]) ++
    (match write_message exec_layouts t' vs with
     | Some out => if bytes_eqb out reenc then [] else [7]
     | None => [7]
     end)
  | None => if ok then [6] else []
  end.

Definition check (c : case) : list N :=
  match c with
  | CVarRead b code v nleft =>
    match bigsize_dec b with
    | Ok (v', r) =>
      (if (code =? 0) && (v =? v') && (nleft =? blen r) then [] else [1]) ++
      (* canonical: the consumed prefix is exactly the encoding *)
      (if bytes_eqb (bigsize_enc v' ++ r) b then [] else [2])
    | Err e => if code =? err_code e then [] else [1]
    end
  | CVarWrite v out => if bytes_eqb (bigsize_enc v) out then [] else [3]
  | CStream ks p2p b code recs reenc =>
    match decode_stream ks p2p b with
    | Ok rs =>
      (if (code =? 0) && recs_eqb rs recs then [] else [4]) ++
      (if bytes_eqb (encode_stream rs) reenc then [] else [5])
    | Err e => if code =? err_code e then [] else [4]
    end
  | CStreamCode ks p2p b code =>
    match decode_stream ks p2p b with
    | Ok _ => if code =? 0 then [] else [4]
    | Err e => if code =? err_code e then [] else [4]
    end
  | CMsg b ok t fields reenc => check_msg secp_on_curve b ok t fields reenc
  | CMsgP b ok t fields reenc pts => check_msg (table_oc pts) b ok t fields reenc
  | CWrite t fields ok out =>
    match write_message exec_layouts t fields with
    | Some o => if ok && bytes_eqb o out then [] else [8]
    | None => if ok then [8] else []
    end
  | CTMsg b ok t fields extra reenc pts =>
    match read_tmessage (table_oc pts) gen_tlvmsgs b with
    | Some (t', (vs, cs, rs)) =>
      (if ok && (t =? t') && fvals_eqb (vs ++ cs) fields then [] else [9]) ++
      (match lookup_tm gen_tlvmsgs t' with
       | Some M => if bytes_eqb (tm_extra (table_oc pts) M (memN t' gen_nosplit) (skipn 2 b)
                                          (vs, cs, rs)) extra then [] else [10]
       | None => [10]
       end) ++
      (match write_tmessage gen_tlvmsgs t' (vs, cs, rs) with
       | Some out => if bytes_eqb out reenc then [] else [11]
       | None => [11]
       end)
    | None => if ok then [9] else []
    end
  | COMsg b ok t fields extra reenc pts =>
    match read_omessage (table_oc pts) gen_optmsgs b with
    | Some (t', (vs, tvo)) =>
      (if ok && (t =? t') &&
          fvals_eqb (vs ++ match tvo with Some (ts, cs, _) => ts ++ cs | None => [] end) fields
       then [] else [9]) ++
      (match lookup_om gen_optmsgs t', tvo with
       | Some W, Some tv =>
         match dec_rest (table_oc pts) (om_pre W) (skipn 2 b) with
         | Some (_, r) =>
           if bytes_eqb (tm_extra (table_oc pts) (om_tail W) false r tv) extra then [] else [10]
         | None => [10]
         end
       | Some _, None => if bytes_eqb [] extra then [] else [10]
       | None, _ => [10]
       end) ++
      (match write_omessage gen_optmsgs t' (vs, tvo) with
       | Some out => if bytes_eqb out reenc then [] else [11]
       | None => [11]
       end)
    | None => if ok then [9] else []
    end
  | CFail full b ok code reenc =>
    match (if full then decode_failure_g secp_on_curve gen_upd gen_fdescs b
           else read_fmessage secp_on_curve gen_upd gen_fdescs b) with
    | Some (c, v) =>
      (if ok && (c =? code) then [] else [12]) ++
      (match (if full then encode_failure_g gen_upd gen_fdescs c v
              else write_fmessage gen_upd gen_fdescs c v) with
       | Some out => if bytes_eqb out reenc then [] else [13]
       | None => [13]
       end)
    | None => if ok then [12] else []
    end
  end.

Fixpoint mismatches (cases : list case) (i : N) : list (N * list N) :=
  match cases with
  | [] => []
  | c :: r =>
    match check c with
    | [] => mismatches r (i + 1)
    | bad => (i, bad) :: mismatches r (i + 1)
    end
  end.
