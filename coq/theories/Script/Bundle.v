(* Proofs of the C04/C05 script-layer theorems (statements repeated in Props.v). *)
From Coq Require Import List NArith ZArith Bool Lia String.
From LV Require Import Script.Interp Script.Parse Script.Witness Gen.GenScripts Script.Spend.
From LV Require Import Script.Proofs Script.Paths.
Import ListNotations.
Local Open Scope N_scope.

Lemma cltv_sat_height : forall ctx n, n <= tx_locktime ctx -> tx_locktime ctx < locktime_threshold ->
  in_sequence ctx <> max_sequence -> cltv_sat ctx n = true.
Proof.
  intros ctx n H1 H2 H3. unfold cltv_sat, verify_locktime.
  destruct (N.eqb_spec (in_sequence ctx) max_sequence); [contradiction|].
  destruct (N.ltb_spec (tx_locktime ctx) locktime_threshold); [|lia].
  destruct (N.ltb_spec n locktime_threshold); [|lia].
  destruct (N.leb_spec n (tx_locktime ctx)); [reflexivity|lia].
Qed.

(* the regenerated tx effect of ReceiverHtlcSpendTimeout / ReceiverHTLCScriptTaprootTimeout *)
Lemma timeout_tx_eq : forall cltv c, cltv < 2147483648 ->
  receiver_htlc_spend_timeout_tx (Z.of_N cltv) c = set_tx_locktime cltv c /\
  receiver_htlc_script_taproot_timeout_tx (Z.of_N cltv) c = set_tx_locktime cltv c.
Proof.
  intros cltv c H. unfold receiver_htlc_spend_timeout_tx, receiver_htlc_script_taproot_timeout_tx.
  destruct (Z.eqb_spec (Z.of_N cltv) (-1)); [lia|].
  rewrite Z.mod_small by lia. rewrite N2Z.id. split; reflexivity.
Qed.

Lemma timeout_tx_cltv : forall cltv c, cltv < 2147483648 -> in_sequence c <> max_sequence ->
  cltv_sat (receiver_htlc_spend_timeout_tx (Z.of_N cltv) c) cltv = true.
Proof. intros cltv c H Hs. rewrite (proj1 (timeout_tx_eq cltv c H)). apply cltv_sat_exact; [reflexivity|exact Hs]. Qed.

Lemma tap_timeout_tx_cltv : forall cltv c, cltv < 2147483648 -> in_sequence c <> max_sequence ->
  cltv_sat (receiver_htlc_script_taproot_timeout_tx (Z.of_N cltv) c) cltv = true.
Proof. intros cltv c H Hs. rewrite (proj2 (timeout_tx_eq cltv c H)). apply cltv_sat_exact; [reflexivity|exact Hs]. Qed.

Lemma timeout_tx_csv1 : forall cltv c, cltv < 2147483648 -> 2 <= tx_version c -> in_sequence c = 1 ->
  csv_sat (receiver_htlc_spend_timeout_tx (Z.of_N cltv) c) 1 = true.
Proof. intros cltv c H Hv Hs. rewrite (proj1 (timeout_tx_eq cltv c H)). apply csv_sat_exact; assumption. Qed.

Lemma tap_timeout_tx_csv1 : forall cltv c, cltv < 2147483648 -> 2 <= tx_version c -> in_sequence c = 1 ->
  csv_sat (receiver_htlc_script_taproot_timeout_tx (Z.of_N cltv) c) 1 = true.
Proof. intros cltv c H Hv Hs. rewrite (proj2 (timeout_tx_eq cltv c H)). apply csv_sat_exact; assumption. Qed.

(* "nSequence >= delay" for block-based relative locktimes *)
Lemma csv_blocks_sufficient : forall ctx d,
  2 <= tx_version ctx -> d <= in_sequence ctx -> in_sequence ctx < 65536 -> csv_sat ctx d = true.
Proof.
  intros ctx d Hv Hd Hs. unfold csv_sat, seq_disabled, seq_masked, verify_locktime, seq_type_flag.
  assert (E1 : d / 2147483648 = 0) by (apply N.div_small; lia).
  assert (E2 : in_sequence ctx / 2147483648 = 0) by (apply N.div_small; lia).
  assert (E3 : d / 4194304 = 0) by (apply N.div_small; lia).
  assert (E4 : in_sequence ctx / 4194304 = 0) by (apply N.div_small; lia).
  rewrite E1, E2, E3, E4. cbn [N.modulo N.div_eucl N.eqb snd].
  destruct (N.ltb_spec (tx_version ctx) 2); [lia|].
  rewrite !N.mod_small by lia. rewrite N.mul_0_r, !N.add_0_r.
  destruct (N.ltb_spec (in_sequence ctx) 4194304); [|lia].
  destruct (N.ltb_spec d 4194304); [|lia].
  destruct (N.leb_spec d (in_sequence ctx)); [reflexivity|lia].
Qed.

Lemma C04_revocation_paths_accept_proof :
  forall (sha256 ripemd160 : bytes -> bytes) (sigcheck : bytes -> bytes -> sigres),
  let h := hash160_of sha256 ripemd160 in
  (forall x, hash20 (ripemd160 x)) ->
  (* to_local (CommitScriptToSelf / CommitSpendRevoke) *)
  (forall ctx csv selfkey revkey sig ws,
     key33 revkey -> key33 selfkey -> u32 csv -> elem_ok sig ->
     parse_script ws = Some (commit_script_to_self_of sha256 ripemd160 csv selfkey revkey) ->
     verify sigcheck revkey sig = true ->
     spend_p2wsh h sigcheck ctx (commit_spend_revoke sig ws) = true)
  /\
  (* to_local of script-enforced lease channels *)
  (forall ctx csv lease selfkey revkey sig ws,
     key33 revkey -> key33 selfkey -> u32 csv -> u32 lease -> elem_ok sig ->
     parse_script ws = Some (lease_commit_script_to_self_of sha256 ripemd160 selfkey revkey csv lease) ->
     verify sigcheck revkey sig = true ->
     spend_p2wsh h sigcheck ctx (commit_spend_revoke sig ws) = true)
  /\
  (* offered HTLC (SenderHTLCScript / SenderHtlcSpendRevoke[WithKey]) *)
  (forall ctx confirmed senderkey receiverkey revkey payhash sig ws,
     key33 revkey -> key33 senderkey -> key33 receiverkey -> elem_ok sig ->
     parse_script ws = Some (sender_htlc_script_of sha256 ripemd160 confirmed senderkey receiverkey revkey payhash) ->
     verify sigcheck revkey sig = true ->
     spend_p2wsh h sigcheck ctx (sender_htlc_spend_revoke sig revkey ws) = true)
  /\
  (* received HTLC (ReceiverHTLCScript / ReceiverHtlcSpendRevoke[WithKey]) *)
  (forall ctx confirmed cltv senderkey receiverkey revkey payhash sig ws,
     key33 revkey -> key33 senderkey -> key33 receiverkey -> u32 cltv -> elem_ok sig ->
     parse_script ws = Some (receiver_htlc_script_of sha256 ripemd160 confirmed cltv senderkey receiverkey revkey payhash) ->
     verify sigcheck revkey sig = true ->
     spend_p2wsh h sigcheck ctx (receiver_htlc_spend_revoke sig revkey ws) = true)
  /\
  (* second-level HTLC output (SecondLevelHtlcScript / HtlcSpendRevoke) *)
  (forall ctx csv delaykey revkey sig ws,
     key33 revkey -> key33 delaykey -> u32 csv -> elem_ok sig ->
     parse_script ws = Some (second_level_htlc_script_of sha256 ripemd160 revkey delaykey csv) ->
     verify sigcheck revkey sig = true ->
     spend_p2wsh h sigcheck ctx (htlc_spend_revoke sig ws) = true)
  /\
  (* second-level HTLC output of lease channels *)
  (forall ctx csv cltv delaykey revkey sig ws,
     key33 revkey -> key33 delaykey -> u32 csv -> u32 cltv -> elem_ok sig ->
     parse_script ws = Some (lease_second_level_htlc_script_of sha256 ripemd160 revkey delaykey csv cltv) ->
     verify sigcheck revkey sig = true ->
     spend_p2wsh h sigcheck ctx (htlc_spend_revoke sig ws) = true)
  /\
  (* taproot to_local, revocation LEAF (script path; TaprootCommitSpendRevoke).  The taproot HTLC and
      second-level revocations are key-path spends: no script, nothing for the interpreter to decide *)
  (forall ctx selfkey revkey sig ls cb,
     xonly selfkey -> xonly revkey -> elem_ok sig -> elem_ok ls -> elem_ok cb ->
     parse_script ls = Some (taproot_local_commit_revoke_script_of sha256 ripemd160 selfkey revkey) ->
     verify sigcheck revkey sig = true ->
     spend_tapleaf h sigcheck ctx (taproot_commit_spend_revoke sig ls cb) = true).
Proof.
  intros sha256 ripemd160 sigcheck h Hrip.
  unfold hash160_of in h.
  repeat split.
  - (* to_local (CommitScriptToSelf / CommitSpendRevoke) *)
    intros; eapply (to_local_revoke h sigcheck); try (match goal with |- parse_script _ = Some _ => eassumption | |- spend_p2wsh _ _ _ _ = true => eassumption | |- spend_tapleaf _ _ _ _ = true => eassumption end); eauto.
    all: try (subst h; apply Hrip).
  - (* to_local of script-enforced lease channels *)
    intros; eapply (lease_to_local_revoke h sigcheck); try (match goal with |- parse_script _ = Some _ => eassumption | |- spend_p2wsh _ _ _ _ = true => eassumption | |- spend_tapleaf _ _ _ _ = true => eassumption end); eauto.
    all: try (subst h; apply Hrip).
  - (* offered HTLC (SenderHTLCScript / SenderHtlcSpendRevoke[WithKey]) *)
    intros; eapply (offered_revoke h sigcheck); try (match goal with |- parse_script _ = Some _ => eassumption | |- spend_p2wsh _ _ _ _ = true => eassumption | |- spend_tapleaf _ _ _ _ = true => eassumption end); eauto.
    all: try (subst h; apply Hrip).
  - (* received HTLC (ReceiverHTLCScript / ReceiverHtlcSpendRevoke[WithKey]) *)
    intros; eapply (received_revoke h sigcheck); try (match goal with |- parse_script _ = Some _ => eassumption | |- spend_p2wsh _ _ _ _ = true => eassumption | |- spend_tapleaf _ _ _ _ = true => eassumption end); eauto.
    all: try (subst h; apply Hrip).
  - (* second-level HTLC output (SecondLevelHtlcScript / HtlcSpendRevoke) *)
    intros; eapply (second_level_revoke h sigcheck); try (match goal with |- parse_script _ = Some _ => eassumption | |- spend_p2wsh _ _ _ _ = true => eassumption | |- spend_tapleaf _ _ _ _ = true => eassumption end); eauto.
    all: try (subst h; apply Hrip).
  - (* second-level HTLC output of lease channels *)
    intros; eapply (lease_second_level_revoke h sigcheck); try (match goal with |- parse_script _ = Some _ => eassumption | |- spend_p2wsh _ _ _ _ = true => eassumption | |- spend_tapleaf _ _ _ _ = true => eassumption end); eauto.
    all: try (subst h; apply Hrip).
  - (* taproot to_local, revocation LEAF (script path; TaprootCommitSpendRevoke).  The taproot HTLC and *)
    intros; eapply (tap_to_local_revoke h sigcheck); try (match goal with |- parse_script _ = Some _ => eassumption | |- spend_p2wsh _ _ _ _ = true => eassumption | |- spend_tapleaf _ _ _ _ = true => eassumption end); eauto.
    all: try (subst h; apply Hrip).
Qed.

Lemma C04_revocation_needs_revkey_proof :
  forall (sha256 ripemd160 : bytes -> bytes) (sigcheck : bytes -> bytes -> sigres),
  let h := hash160_of sha256 ripemd160 in
  (forall x, hash20 (ripemd160 x)) ->
  (* to_local *)
  (forall ctx csv selfkey revkey sig ws,
     key33 revkey -> key33 selfkey -> u32 csv -> elem_ok sig ->
     parse_script ws = Some (commit_script_to_self_of sha256 ripemd160 csv selfkey revkey) ->
     spend_p2wsh h sigcheck ctx (commit_spend_revoke sig ws) = true ->
     verify sigcheck revkey sig = true)
  /\
  (* lease to_local *)
  (forall ctx csv lease selfkey revkey sig ws,
     key33 revkey -> key33 selfkey -> u32 csv -> u32 lease -> elem_ok sig ->
     parse_script ws = Some (lease_commit_script_to_self_of sha256 ripemd160 selfkey revkey csv lease) ->
     spend_p2wsh h sigcheck ctx (commit_spend_revoke sig ws) = true ->
     verify sigcheck revkey sig = true)
  /\
  (* second-level output *)
  (forall ctx csv delaykey revkey sig ws,
     key33 revkey -> key33 delaykey -> u32 csv -> elem_ok sig ->
     parse_script ws = Some (second_level_htlc_script_of sha256 ripemd160 revkey delaykey csv) ->
     spend_p2wsh h sigcheck ctx (htlc_spend_revoke sig ws) = true ->
     verify sigcheck revkey sig = true)
  /\
  (* offered HTLC *)
  (forall ctx confirmed senderkey receiverkey revkey payhash k sig ws,
     key33 k -> key33 senderkey -> key33 receiverkey -> elem_ok sig ->
     parse_script ws = Some (sender_htlc_script_of sha256 ripemd160 confirmed senderkey receiverkey revkey payhash) ->
     h k = h revkey ->
     spend_p2wsh h sigcheck ctx (sender_htlc_spend_revoke sig k ws) = true ->
     verify sigcheck k sig = true)
  /\
  (* received HTLC *)
  (forall ctx confirmed cltv senderkey receiverkey revkey payhash k sig ws,
     key33 k -> key33 senderkey -> key33 receiverkey -> u32 cltv -> elem_ok sig ->
     parse_script ws = Some (receiver_htlc_script_of sha256 ripemd160 confirmed cltv senderkey receiverkey revkey payhash) ->
     h k = h revkey ->
     spend_p2wsh h sigcheck ctx (receiver_htlc_spend_revoke sig k ws) = true ->
     verify sigcheck k sig = true)
  /\
  (* taproot to_local revocation leaf *)
  (forall ctx selfkey revkey sig ls cb,
     xonly selfkey -> xonly revkey -> elem_ok sig -> elem_ok ls -> elem_ok cb ->
     parse_script ls = Some (taproot_local_commit_revoke_script_of sha256 ripemd160 selfkey revkey) ->
     spend_tapleaf h sigcheck ctx (taproot_commit_spend_revoke sig ls cb) = true ->
     verify sigcheck revkey sig = true).
Proof.
  intros sha256 ripemd160 sigcheck h Hrip.
  unfold hash160_of in h.
  repeat split.
  - (* to_local *)
    intros; eapply (to_local_revoke_needs_key h sigcheck); try (match goal with |- parse_script _ = Some _ => eassumption | |- spend_p2wsh _ _ _ _ = true => eassumption | |- spend_tapleaf _ _ _ _ = true => eassumption end); eauto.
    all: try (subst h; apply Hrip).
  - (* lease to_local *)
    intros; eapply (lease_to_local_revoke_needs_key h sigcheck); try (match goal with |- parse_script _ = Some _ => eassumption | |- spend_p2wsh _ _ _ _ = true => eassumption | |- spend_tapleaf _ _ _ _ = true => eassumption end); eauto.
    all: try (subst h; apply Hrip).
  - (* second-level output *)
    intros; eapply (second_level_revoke_needs_key h sigcheck); try (match goal with |- parse_script _ = Some _ => eassumption | |- spend_p2wsh _ _ _ _ = true => eassumption | |- spend_tapleaf _ _ _ _ = true => eassumption end); eauto.
    all: try (subst h; apply Hrip).
  - (* offered HTLC *)
    intros; eapply (offered_revoke_needs_key h sigcheck); try (match goal with |- parse_script _ = Some _ => eassumption | |- spend_p2wsh _ _ _ _ = true => eassumption | |- spend_tapleaf _ _ _ _ = true => eassumption end); eauto.
    all: try (subst h; apply Hrip).
  - (* received HTLC *)
    intros; eapply (received_revoke_needs_key h sigcheck); try (match goal with |- parse_script _ = Some _ => eassumption | |- spend_p2wsh _ _ _ _ = true => eassumption | |- spend_tapleaf _ _ _ _ = true => eassumption end); eauto.
    all: try (subst h; apply Hrip).
  - (* taproot to_local revocation leaf *)
    intros; eapply (tap_to_local_revoke_needs_key h sigcheck); try (match goal with |- parse_script _ = Some _ => eassumption | |- spend_p2wsh _ _ _ _ = true => eassumption | |- spend_tapleaf _ _ _ _ = true => eassumption end); eauto.
    all: try (subst h; apply Hrip).
Qed.

Lemma C05_local_paths_accept_proof :
  forall (sha256 ripemd160 : bytes -> bytes) (sigcheck : bytes -> bytes -> sigres),
  let h := hash160_of sha256 ripemd160 in
  (forall x, hash20 (ripemd160 x)) ->
  (* to_local after CSV: sweep input nSequence = LockTimeToSequence(false, csv), tx version >= 2 *)
  (forall ctx csv selfkey revkey sig ws,
     key33 revkey -> key33 selfkey -> u32 csv -> elem_ok sig ->
     parse_script ws = Some (commit_script_to_self_of sha256 ripemd160 csv selfkey revkey) ->
     verify sigcheck selfkey sig = true ->
     2 <= tx_version ctx -> in_sequence ctx = lock_time_to_sequence false csv ->
     spend_p2wsh h sigcheck ctx (commit_spend_timeout sig ws) = true)
  /\
  (* lease to_local: additionally nLockTime >= lease expiry (block heights), input not final *)
  (forall ctx csv lease selfkey revkey sig ws,
     key33 revkey -> key33 selfkey -> u32 csv -> u32 lease -> elem_ok sig ->
     parse_script ws = Some (lease_commit_script_to_self_of sha256 ripemd160 selfkey revkey csv lease) ->
     verify sigcheck selfkey sig = true ->
     2 <= tx_version ctx -> in_sequence ctx = lock_time_to_sequence false csv ->
     lease <= tx_locktime ctx -> tx_locktime ctx < locktime_threshold -> in_sequence ctx <> max_sequence ->
     spend_p2wsh h sigcheck ctx (commit_spend_timeout sig ws) = true)
  /\
  (* HTLC-timeout input: offered HTLC on our commitment, 2-of-2 with the remote signature *)
  (forall ctx confirmed senderkey receiverkey revkey payhash rsig ssig ws,
     key33 revkey -> key33 senderkey -> key33 receiverkey -> elem_ok rsig -> elem_ok ssig ->
     parse_script ws = Some (sender_htlc_script_of sha256 ripemd160 confirmed senderkey receiverkey revkey payhash) ->
     h revkey <> h [] ->
     verify sigcheck receiverkey rsig = true -> verify sigcheck senderkey ssig = true ->
     (confirmed = true -> 2 <= tx_version ctx /\ in_sequence ctx = 1) ->
     spend_p2wsh h sigcheck ctx (sender_htlc_spend_timeout rsig ssig ws) = true)
  /\
  (* HTLC-success input: received HTLC on our commitment, 2-of-2 plus the preimage *)
  (forall ctx confirmed cltv senderkey receiverkey revkey p ssig rsig ws,
     key33 revkey -> key33 senderkey -> key33 receiverkey -> u32 cltv ->
     elem_ok ssig -> elem_ok rsig -> blen p = 32 ->
     parse_script ws = Some (receiver_htlc_script_of sha256 ripemd160 confirmed cltv senderkey receiverkey revkey (sha256 p)) ->
     h revkey <> h p ->
     verify sigcheck senderkey ssig = true -> verify sigcheck receiverkey rsig = true ->
     (confirmed = true -> 2 <= tx_version ctx /\ in_sequence ctx = 1) ->
     spend_p2wsh h sigcheck ctx (receiver_htlc_spend_redeem ssig rsig p ws) = true)
  /\
  (* second-level output after CSV; HtlcSpendSuccess rewrites nSequence and version itself *)
  (forall ctx0 csv delaykey revkey sig ws,
     key33 revkey -> key33 delaykey -> u32 csv -> elem_ok sig ->
     parse_script ws = Some (second_level_htlc_script_of sha256 ripemd160 revkey delaykey csv) ->
     verify sigcheck delaykey sig = true ->
     spend_p2wsh h sigcheck (htlc_spend_success_tx csv ctx0) (htlc_spend_success sig ws) = true)
  /\
  (* second-level output through HtlcSecondLevelSpend (caller sets nSequence) *)
  (forall ctx csv delaykey revkey sig ws,
     key33 revkey -> key33 delaykey -> u32 csv -> elem_ok sig ->
     parse_script ws = Some (second_level_htlc_script_of sha256 ripemd160 revkey delaykey csv) ->
     verify sigcheck delaykey sig = true ->
     2 <= tx_version ctx -> in_sequence ctx = lock_time_to_sequence false csv ->
     spend_p2wsh h sigcheck ctx (htlc_second_level_spend sig ws) = true)
  /\
  (* lease second-level output *)
  (forall ctx csv cltv delaykey revkey sig ws,
     key33 revkey -> key33 delaykey -> u32 csv -> u32 cltv -> elem_ok sig ->
     parse_script ws = Some (lease_second_level_htlc_script_of sha256 ripemd160 revkey delaykey csv cltv) ->
     verify sigcheck delaykey sig = true ->
     2 <= tx_version ctx -> in_sequence ctx = lock_time_to_sequence false csv ->
     cltv <= tx_locktime ctx -> tx_locktime ctx < locktime_threshold -> in_sequence ctx <> max_sequence ->
     spend_p2wsh h sigcheck ctx (htlc_second_level_spend sig ws) = true)
  /\
  (* taproot to_local delay leaf (default and production scripts; the production leaf leaves the CSV
      operand as the final stack item, hence 0 < csv there) *)
  (forall ctx (prod : bool) csv selfkey sig ls cb,
     xonly selfkey -> u32 csv -> elem_ok sig -> elem_ok ls -> elem_ok cb ->
     parse_script ls = Some (taproot_local_commit_delay_script_of sha256 ripemd160 prod csv selfkey) ->
     verify sigcheck selfkey sig = true ->
     2 <= tx_version ctx -> in_sequence ctx = lock_time_to_sequence false csv ->
     (prod = true -> 0 < csv) ->
     spend_tapleaf h sigcheck ctx (taproot_commit_spend_success sig ls cb) = true)
  /\
  (* taproot second-level delay leaf *)
  (forall ctx (prod : bool) csv delaykey sig ls cb,
     xonly delaykey -> u32 csv -> elem_ok sig -> elem_ok ls -> elem_ok cb ->
     parse_script ls = Some (taproot_second_level_tap_leaf_of sha256 ripemd160 prod delaykey csv) ->
     verify sigcheck delaykey sig = true ->
     2 <= tx_version ctx -> in_sequence ctx = lock_time_to_sequence false csv ->
     (prod = true -> 0 < csv) ->
     spend_tapleaf h sigcheck ctx (taproot_htlc_spend_success sig ls cb) = true)
  /\
  (* taproot offered-HTLC timeout leaf (both signatures) *)
  (forall ctx senderkey receiverkey rsig ssig ls cb,
     xonly senderkey -> xonly receiverkey -> schnorr_len rsig -> schnorr_len ssig -> elem_ok ls -> elem_ok cb ->
     parse_script ls = Some (sender_htlc_tap_leaf_timeout_of sha256 ripemd160 senderkey receiverkey) ->
     verify sigcheck receiverkey rsig = true -> verify sigcheck senderkey ssig = true ->
     spend_tapleaf h sigcheck ctx (sender_htlc_script_taproot_timeout rsig ssig ls cb) = true)
  /\
  (* taproot received-HTLC success leaf (both signatures and the preimage) *)
  (forall ctx senderkey receiverkey p ssig rsig ls cb,
     xonly senderkey -> xonly receiverkey -> blen p = 32 ->
     schnorr_len ssig -> schnorr_len rsig -> elem_ok ls -> elem_ok cb ->
     parse_script ls = Some (receiver_htlc_tap_leaf_success_of sha256 ripemd160 receiverkey senderkey (sha256 p)) ->
     verify sigcheck senderkey ssig = true -> verify sigcheck receiverkey rsig = true ->
     spend_tapleaf h sigcheck ctx (receiver_htlc_script_taproot_redeem ssig rsig p ls cb) = true).
Proof.
  intros sha256 ripemd160 sigcheck h Hrip.
  unfold hash160_of in h.
  repeat split.
  - (* to_local after CSV: sweep input nSequence = LockTimeToSequence(false, csv), tx version >= 2 *)
    intros; eapply (to_local_timeout h sigcheck); try (match goal with |- parse_script _ = Some _ => eassumption | |- spend_p2wsh _ _ _ _ = true => eassumption | |- spend_tapleaf _ _ _ _ = true => eassumption end); eauto using csv_sat_exact.
    all: try (subst h; apply Hrip).
  - (* lease to_local: additionally nLockTime >= lease expiry (block heights), input not final *)
    intros; eapply (lease_to_local_timeout h sigcheck); try (match goal with |- parse_script _ = Some _ => eassumption | |- spend_p2wsh _ _ _ _ = true => eassumption | |- spend_tapleaf _ _ _ _ = true => eassumption end); eauto using csv_sat_exact, cltv_sat_height.
    all: try (subst h; apply Hrip).
  - (* HTLC-timeout input: offered HTLC on our commitment, 2-of-2 with the remote signature *)
    intros; eapply (offered_timeout h sigcheck); try (match goal with |- parse_script _ = Some _ => eassumption | |- spend_p2wsh _ _ _ _ = true => eassumption | |- spend_tapleaf _ _ _ _ = true => eassumption end); eauto; intro Hc; match goal with H : _ = true -> _ /\ _ |- _ => destruct (H Hc) end; eauto using csv_sat_exact.
    all: try (subst h; apply Hrip).
  - (* HTLC-success input: received HTLC on our commitment, 2-of-2 plus the preimage *)
    intros; eapply (received_redeem h sigcheck); try (match goal with |- parse_script _ = Some _ => eassumption | |- spend_p2wsh _ _ _ _ = true => eassumption | |- spend_tapleaf _ _ _ _ = true => eassumption end); eauto; intro Hc; match goal with H : _ = true -> _ /\ _ |- _ => destruct (H Hc) end; eauto using csv_sat_exact.
    all: try (subst h; apply Hrip).
  - (* second-level output after CSV; HtlcSpendSuccess rewrites nSequence and version itself *)
    intros; eapply (second_level_delay h sigcheck); try (match goal with |- parse_script _ = Some _ => eassumption | |- spend_p2wsh _ _ _ _ = true => eassumption | |- spend_tapleaf _ _ _ _ = true => eassumption end); eauto; apply csv_sat_exact; [cbn; lia | reflexivity].
    all: try (subst h; apply Hrip).
  - (* second-level output through HtlcSecondLevelSpend (caller sets nSequence) *)
    intros; eapply (second_level_delay h sigcheck); try (match goal with |- parse_script _ = Some _ => eassumption | |- spend_p2wsh _ _ _ _ = true => eassumption | |- spend_tapleaf _ _ _ _ = true => eassumption end); eauto using csv_sat_exact.
    all: try (subst h; apply Hrip).
  - (* lease second-level output *)
    intros; eapply (lease_second_level_delay h sigcheck); try (match goal with |- parse_script _ = Some _ => eassumption | |- spend_p2wsh _ _ _ _ = true => eassumption | |- spend_tapleaf _ _ _ _ = true => eassumption end); eauto using csv_sat_exact, cltv_sat_height.
    all: try (subst h; apply Hrip).
  - (* taproot to_local delay leaf (default and production scripts; the production leaf leaves the CSV *)
    intros; eapply (tap_to_local_delay h sigcheck); try (match goal with |- parse_script _ = Some _ => eassumption | |- spend_p2wsh _ _ _ _ = true => eassumption | |- spend_tapleaf _ _ _ _ = true => eassumption end); eauto using csv_sat_exact.
    all: try (subst h; apply Hrip).
  - (* taproot second-level delay leaf *)
    intros; eapply (tap_second_level_delay h sigcheck); try (match goal with |- parse_script _ = Some _ => eassumption | |- spend_p2wsh _ _ _ _ = true => eassumption | |- spend_tapleaf _ _ _ _ = true => eassumption end); eauto using csv_sat_exact.
    all: try (subst h; apply Hrip).
  - (* taproot offered-HTLC timeout leaf (both signatures) *)
    intros; eapply (tap_offered_timeout h sigcheck); try (match goal with |- parse_script _ = Some _ => eassumption | |- spend_p2wsh _ _ _ _ = true => eassumption | |- spend_tapleaf _ _ _ _ = true => eassumption end); eauto.
    all: try (subst h; apply Hrip).
  - (* taproot received-HTLC success leaf (both signatures and the preimage) *)
    intros; eapply (tap_received_redeem h sigcheck); try (match goal with |- parse_script _ = Some _ => eassumption | |- spend_p2wsh _ _ _ _ = true => eassumption | |- spend_tapleaf _ _ _ _ = true => eassumption end); eauto.
    all: try (subst h; apply Hrip).
Qed.

Lemma C05_remote_paths_accept_proof :
  forall (sha256 ripemd160 : bytes -> bytes) (sigcheck : bytes -> bytes -> sigres),
  let h := hash160_of sha256 ripemd160 in
  (forall x, hash20 (ripemd160 x)) ->
  (* to_remote, legacy/tweakless channels: P2WKH (CommitSpendNoDelay) *)
  (forall ctx (tweakless : bool) key tweaked sig,
     key33 key -> key33 tweaked -> elem_ok sig ->
     verify sigcheck (if tweakless then key else tweaked) sig = true ->
     spend_p2wkh h sigcheck ctx (h (if tweakless then key else tweaked))
       (commit_spend_no_delay tweakless sig key tweaked) = true)
  /\
  (* to_remote of anchor channels: 1-block CSV (nSequence = 1, version >= 2) *)
  (forall ctx key sig ws,
     key33 key -> elem_ok sig ->
     parse_script ws = Some (commit_script_to_remote_confirmed_of sha256 ripemd160 key) ->
     verify sigcheck key sig = true ->
     2 <= tx_version ctx -> in_sequence ctx = 1 ->
     spend_p2wsh h sigcheck ctx (commit_spend_to_remote_confirmed sig ws) = true)
  /\
  (* to_remote of lease channels: CLTV lease expiry and 1-block CSV *)
  (forall ctx key lease sig ws,
     key33 key -> u32 lease -> elem_ok sig ->
     parse_script ws = Some (lease_commit_script_to_remote_confirmed_of sha256 ripemd160 key lease) ->
     verify sigcheck key sig = true ->
     2 <= tx_version ctx -> in_sequence ctx = 1 ->
     lease <= tx_locktime ctx -> tx_locktime ctx < locktime_threshold ->
     spend_p2wsh h sigcheck ctx (commit_spend_to_remote_confirmed sig ws) = true)
  /\
  (* HTLC they offered, claimed with the preimage p (script checks hash160 p = ripemd160 (sha256 p)) *)
  (forall ctx confirmed senderkey receiverkey revkey p sig ws,
     key33 revkey -> key33 senderkey -> key33 receiverkey -> elem_ok sig -> blen p = 32 ->
     parse_script ws = Some (sender_htlc_script_of sha256 ripemd160 confirmed senderkey receiverkey revkey (sha256 p)) ->
     h revkey <> h p ->
     verify sigcheck receiverkey sig = true ->
     (confirmed = true -> 2 <= tx_version ctx /\ in_sequence ctx = 1) ->
     spend_p2wsh h sigcheck ctx (sender_htlc_spend_redeem sig p ws) = true)
  /\
  (* HTLC we offered, timed out after CLTV: ReceiverHtlcSpendTimeout sets nLockTime := expiry itself
      (regenerated receiver_htlc_spend_timeout_tx); the input must not be final *)
  (forall ctx0 confirmed cltv senderkey receiverkey revkey payhash sig ws,
     key33 revkey -> key33 senderkey -> key33 receiverkey -> cltv < 2147483648 -> elem_ok sig ->
     parse_script ws = Some (receiver_htlc_script_of sha256 ripemd160 confirmed cltv senderkey receiverkey revkey payhash) ->
     h revkey <> h [] ->
     verify sigcheck senderkey sig = true ->
     in_sequence ctx0 <> max_sequence ->
     (confirmed = true -> 2 <= tx_version ctx0 /\ in_sequence ctx0 = 1) ->
     spend_p2wsh h sigcheck (receiver_htlc_spend_timeout_tx (Z.of_N cltv) ctx0)
       (receiver_htlc_spend_timeout sig ws) = true)
  /\
  (* anchor, by its owner *)
  (forall ctx key sig ws,
     key33 key -> elem_ok sig ->
     parse_script ws = Some (commit_script_anchor_of sha256 ripemd160 key) ->
     verify sigcheck key sig = true ->
     spend_p2wsh h sigcheck ctx (commit_spend_anchor sig ws) = true)
  /\
  (* anchor, by anyone after 16 blocks *)
  (forall ctx key ws,
     key33 key -> compressed_pk key = true ->
     parse_script ws = Some (commit_script_anchor_of sha256 ripemd160 key) ->
     2 <= tx_version ctx -> in_sequence ctx = 16 ->
     spend_p2wsh h sigcheck ctx (commit_spend_anchor_anyone ws) = true)
  /\
  (* taproot to_remote leaf *)
  (forall ctx (prod : bool) remotekey sig ls cb,
     xonly remotekey -> elem_ok sig -> elem_ok ls -> elem_ok cb ->
     parse_script ls = Some (new_remote_commit_script_tree_of sha256 ripemd160 prod remotekey) ->
     verify sigcheck remotekey sig = true ->
     2 <= tx_version ctx -> in_sequence ctx = 1 ->
     spend_tapleaf h sigcheck ctx (taproot_commit_remote_spend sig ls cb) = true)
  /\
  (* taproot offered-HTLC success leaf (preimage) *)
  (forall ctx (prod : bool) receiverkey p sig ls cb,
     xonly receiverkey -> blen p = 32 -> elem_ok sig -> elem_ok ls -> elem_ok cb ->
     parse_script ls = Some (sender_htlc_tap_leaf_success_of sha256 ripemd160 prod receiverkey (sha256 p)) ->
     verify sigcheck receiverkey sig = true ->
     2 <= tx_version ctx -> in_sequence ctx = 1 ->
     spend_tapleaf h sigcheck ctx (sender_htlc_script_taproot_redeem sig p ls cb) = true)
  /\
  (* taproot received-HTLC timeout leaf: ReceiverHTLCScriptTaprootTimeout sets nLockTime := expiry *)
  (forall ctx0 (prod : bool) cltv senderkey sig ls cb,
     xonly senderkey -> cltv < 2147483648 -> elem_ok sig -> elem_ok ls -> elem_ok cb ->
     parse_script ls = Some (receiver_htlc_tap_leaf_timeout_of sha256 ripemd160 prod senderkey cltv) ->
     verify sigcheck senderkey sig = true ->
     2 <= tx_version ctx0 -> in_sequence ctx0 = 1 ->
     (prod = true -> 0 < cltv) ->
     spend_tapleaf h sigcheck (receiver_htlc_script_taproot_timeout_tx (Z.of_N cltv) ctx0)
       (receiver_htlc_script_taproot_timeout sig ls cb) = true)
  /\
  (* taproot anchor, by anyone after 16 blocks (script path; the owner's spend is a key-path spend) *)
  (forall ctx ls cb,
     elem_ok ls -> elem_ok cb ->
     parse_script ls = Some (new_anchor_script_tree_of sha256 ripemd160) ->
     2 <= tx_version ctx -> in_sequence ctx = 16 ->
     spend_tapleaf h sigcheck ctx (taproot_anchor_spend_any ls cb) = true).
Proof.
  intros sha256 ripemd160 sigcheck h Hrip.
  unfold hash160_of in h.
  repeat split.
  - (* to_remote, legacy/tweakless channels: P2WKH (CommitSpendNoDelay) *)
    intros; eapply (to_remote_p2wkh h sigcheck); try (match goal with |- parse_script _ = Some _ => eassumption | |- spend_p2wsh _ _ _ _ = true => eassumption | |- spend_tapleaf _ _ _ _ = true => eassumption end); eauto.
    all: try (subst h; apply Hrip).
  - (* to_remote of anchor channels: 1-block CSV (nSequence = 1, version >= 2) *)
    intros; eapply (to_remote_confirmed h sigcheck); try (match goal with |- parse_script _ = Some _ => eassumption | |- spend_p2wsh _ _ _ _ = true => eassumption | |- spend_tapleaf _ _ _ _ = true => eassumption end); eauto using csv_sat_exact.
    all: try (subst h; apply Hrip).
  - (* to_remote of lease channels: CLTV lease expiry and 1-block CSV *)
    intros; eapply (lease_to_remote_confirmed h sigcheck); try (match goal with |- parse_script _ = Some _ => eassumption | |- spend_p2wsh _ _ _ _ = true => eassumption | |- spend_tapleaf _ _ _ _ = true => eassumption end); eauto using csv_sat_exact; eapply cltv_sat_height; try (match goal with |- parse_script _ = Some _ => eassumption | |- spend_p2wsh _ _ _ _ = true => eassumption | |- spend_tapleaf _ _ _ _ = true => eassumption end); eauto; match goal with H : in_sequence _ = 1 |- _ => rewrite H end; discriminate.
    all: try (subst h; apply Hrip).
  - (* HTLC they offered, claimed with the preimage p (script checks hash160 p = ripemd160 (sha256 p)) *)
    intros; eapply (offered_redeem h sigcheck); try (match goal with |- parse_script _ = Some _ => eassumption | |- spend_p2wsh _ _ _ _ = true => eassumption | |- spend_tapleaf _ _ _ _ = true => eassumption end); eauto; intro Hc; match goal with H : _ = true -> _ /\ _ |- _ => destruct (H Hc) end; eauto using csv_sat_exact.
    all: try (subst h; apply Hrip).
  - (* HTLC we offered, timed out after CLTV: ReceiverHtlcSpendTimeout sets nLockTime := expiry itself *)
    intros; eapply (received_timeout h sigcheck); try (match goal with |- parse_script _ = Some _ => eassumption | |- spend_p2wsh _ _ _ _ = true => eassumption | |- spend_tapleaf _ _ _ _ = true => eassumption end); eauto using timeout_tx_cltv; [unfold u32; lia | intro Hc; match goal with H : _ = true -> _ /\ _ |- _ => destruct (H Hc) end; apply timeout_tx_csv1; auto].
    all: try (subst h; apply Hrip).
  - (* anchor, by its owner *)
    intros; eapply (anchor_owner h sigcheck); try (match goal with |- parse_script _ = Some _ => eassumption | |- spend_p2wsh _ _ _ _ = true => eassumption | |- spend_tapleaf _ _ _ _ = true => eassumption end); eauto.
    all: try (subst h; apply Hrip).
  - (* anchor, by anyone after 16 blocks *)
    intros; eapply (anchor_anyone h sigcheck); try (match goal with |- parse_script _ = Some _ => eassumption | |- spend_p2wsh _ _ _ _ = true => eassumption | |- spend_tapleaf _ _ _ _ = true => eassumption end); eauto using csv_sat_exact.
    all: try (subst h; apply Hrip).
  - (* taproot to_remote leaf *)
    intros; eapply (tap_to_remote h sigcheck); try (match goal with |- parse_script _ = Some _ => eassumption | |- spend_p2wsh _ _ _ _ = true => eassumption | |- spend_tapleaf _ _ _ _ = true => eassumption end); eauto using csv_sat_exact.
    all: try (subst h; apply Hrip).
  - (* taproot offered-HTLC success leaf (preimage) *)
    intros; eapply (tap_offered_redeem h sigcheck); try (match goal with |- parse_script _ = Some _ => eassumption | |- spend_p2wsh _ _ _ _ = true => eassumption | |- spend_tapleaf _ _ _ _ = true => eassumption end); eauto using csv_sat_exact.
    all: try (subst h; apply Hrip).
  - (* taproot received-HTLC timeout leaf: ReceiverHTLCScriptTaprootTimeout sets nLockTime := expiry *)
    intros; eapply (tap_received_timeout h sigcheck); try (match goal with |- parse_script _ = Some _ => eassumption | |- spend_p2wsh _ _ _ _ = true => eassumption | |- spend_tapleaf _ _ _ _ = true => eassumption end); eauto; [unfold u32; lia | apply tap_timeout_tx_csv1; auto | apply tap_timeout_tx_cltv; [assumption | match goal with H : in_sequence _ = 1 |- _ => rewrite H end; discriminate]].
    all: try (subst h; apply Hrip).
  - (* taproot anchor, by anyone after 16 blocks (script path; the owner's spend is a key-path spend) *)
    intros; eapply (tap_anchor_anyone h sigcheck); try (match goal with |- parse_script _ = Some _ => eassumption | |- spend_p2wsh _ _ _ _ = true => eassumption | |- spend_tapleaf _ _ _ _ = true => eassumption end); eauto using csv_sat_exact.
    all: try (subst h; apply Hrip).
Qed.

Lemma C05_success_needs_preimage_proof :
  forall (sha256 ripemd160 : bytes -> bytes) (sigcheck : bytes -> bytes -> sigres),
  let h := hash160_of sha256 ripemd160 in
  (forall x, hash20 (ripemd160 x)) ->
  (* offered HTLC (claimed by the receiver) *)
  (forall ctx confirmed senderkey receiverkey revkey payhash p sig ws,
     key33 revkey -> key33 senderkey -> key33 receiverkey -> elem_ok sig -> elem_ok p ->
     parse_script ws = Some (sender_htlc_script_of sha256 ripemd160 confirmed senderkey receiverkey revkey payhash) ->
     h revkey <> h p -> ripemd160 payhash <> h p ->
     spend_p2wsh h sigcheck ctx (sender_htlc_spend_redeem sig p ws) = false)
  /\
  (* received HTLC (HTLC-success input) *)
  (forall ctx confirmed cltv senderkey receiverkey revkey payhash p ssig rsig ws,
     key33 revkey -> key33 senderkey -> key33 receiverkey -> u32 cltv ->
     elem_ok ssig -> elem_ok rsig -> blen p = 32 ->
     parse_script ws = Some (receiver_htlc_script_of sha256 ripemd160 confirmed cltv senderkey receiverkey revkey payhash) ->
     h revkey <> h p -> ripemd160 payhash <> h p ->
     spend_p2wsh h sigcheck ctx (receiver_htlc_spend_redeem ssig rsig p ws) = false)
  /\
  (* taproot offered-HTLC success leaf *)
  (forall ctx (prod : bool) receiverkey payhash p sig ls cb,
     xonly receiverkey -> elem_ok p -> elem_ok sig -> elem_ok ls -> elem_ok cb ->
     parse_script ls = Some (sender_htlc_tap_leaf_success_of sha256 ripemd160 prod receiverkey payhash) ->
     ripemd160 payhash <> h p ->
     spend_tapleaf h sigcheck ctx (sender_htlc_script_taproot_redeem sig p ls cb) = false).
Proof.
  intros sha256 ripemd160 sigcheck h Hrip.
  unfold hash160_of in h.
  repeat split.
  - (* offered HTLC (claimed by the receiver) *)
    intros; eapply (offered_redeem_needs_preimage h sigcheck); try (match goal with |- parse_script _ = Some _ => eassumption | |- spend_p2wsh _ _ _ _ = true => eassumption | |- spend_tapleaf _ _ _ _ = true => eassumption end); eauto.
    all: try (subst h; apply Hrip).
  - (* received HTLC (HTLC-success input) *)
    intros; eapply (received_redeem_needs_preimage h sigcheck); try (match goal with |- parse_script _ = Some _ => eassumption | |- spend_p2wsh _ _ _ _ = true => eassumption | |- spend_tapleaf _ _ _ _ = true => eassumption end); eauto.
    all: try (subst h; apply Hrip).
  - (* taproot offered-HTLC success leaf *)
    intros; eapply (tap_offered_redeem_needs_preimage h sigcheck); try (match goal with |- parse_script _ = Some _ => eassumption | |- spend_p2wsh _ _ _ _ = true => eassumption | |- spend_tapleaf _ _ _ _ = true => eassumption end); eauto.
    all: try (subst h; apply Hrip).
Qed.

Lemma C05_timeout_needs_locktime_proof :
  forall (sha256 ripemd160 : bytes -> bytes) (sigcheck : bytes -> bytes -> sigres),
  let h := hash160_of sha256 ripemd160 in
  (forall x, hash20 (ripemd160 x)) ->
  (* received HTLC, v0 *)
  (forall ctx confirmed cltv senderkey receiverkey revkey payhash sig ws,
     key33 revkey -> key33 senderkey -> key33 receiverkey -> u32 cltv -> elem_ok sig ->
     parse_script ws = Some (receiver_htlc_script_of sha256 ripemd160 confirmed cltv senderkey receiverkey revkey payhash) ->
     h revkey <> h [] ->
     tx_locktime ctx < cltv ->
     spend_p2wsh h sigcheck ctx (receiver_htlc_spend_timeout sig ws) = false).
Proof.
  intros sha256 ripemd160 sigcheck h Hrip.
  unfold hash160_of in h.
  repeat split.
  - (* received HTLC, v0 *)
    intros; eapply (received_timeout_needs_locktime h sigcheck); try (match goal with |- parse_script _ = Some _ => eassumption | |- spend_p2wsh _ _ _ _ = true => eassumption | |- spend_tapleaf _ _ _ _ = true => eassumption end); eauto.
    all: try (subst h; apply Hrip).
Qed.

Lemma C05_delay_is_enforced_proof :
  forall (sha256 ripemd160 : bytes -> bytes) (sigcheck : bytes -> bytes -> sigres),
  let h := hash160_of sha256 ripemd160 in
  (forall x, hash20 (ripemd160 x)) ->
  (* to_local *)
  (forall ctx csv selfkey revkey sig ws,
     key33 revkey -> key33 selfkey -> u32 csv -> elem_ok sig ->
     parse_script ws = Some (commit_script_to_self_of sha256 ripemd160 csv selfkey revkey) ->
     spend_p2wsh h sigcheck ctx (commit_spend_timeout sig ws) = true -> csv_sat ctx csv = true)
  /\
  (* lease to_local: CSV and the CLTV lease expiry *)
  (forall ctx csv lease selfkey revkey sig ws,
     key33 revkey -> key33 selfkey -> u32 csv -> u32 lease -> elem_ok sig ->
     parse_script ws = Some (lease_commit_script_to_self_of sha256 ripemd160 selfkey revkey csv lease) ->
     spend_p2wsh h sigcheck ctx (commit_spend_timeout sig ws) = true ->
     csv_sat ctx csv && cltv_sat ctx lease = true)
  /\
  (* second-level output *)
  (forall ctx csv delaykey revkey sig ws,
     key33 revkey -> key33 delaykey -> u32 csv -> elem_ok sig ->
     parse_script ws = Some (second_level_htlc_script_of sha256 ripemd160 revkey delaykey csv) ->
     spend_p2wsh h sigcheck ctx (htlc_second_level_spend sig ws) = true -> csv_sat ctx csv = true)
  /\
  (* to_remote of anchor channels *)
  (forall ctx key sig ws,
     key33 key -> elem_ok sig ->
     parse_script ws = Some (commit_script_to_remote_confirmed_of sha256 ripemd160 key) ->
     spend_p2wsh h sigcheck ctx (commit_spend_to_remote_confirmed sig ws) = true -> csv_sat ctx 1 = true)
  /\
  (* offered HTLC with confirmedSpend, preimage path *)
  (forall ctx senderkey receiverkey revkey p sig ws,
     key33 revkey -> key33 senderkey -> key33 receiverkey -> elem_ok sig -> blen p = 32 ->
     parse_script ws = Some (sender_htlc_script_of sha256 ripemd160 true senderkey receiverkey revkey (sha256 p)) ->
     h revkey <> h p ->
     spend_p2wsh h sigcheck ctx (sender_htlc_spend_redeem sig p ws) = true -> csv_sat ctx 1 = true)
  /\
  (* received HTLC with confirmedSpend, timeout path *)
  (forall ctx cltv senderkey receiverkey revkey payhash sig ws,
     key33 revkey -> key33 senderkey -> key33 receiverkey -> u32 cltv -> elem_ok sig ->
     parse_script ws = Some (receiver_htlc_script_of sha256 ripemd160 true cltv senderkey receiverkey revkey payhash) ->
     h revkey <> h [] ->
     spend_p2wsh h sigcheck ctx (receiver_htlc_spend_timeout sig ws) = true -> csv_sat ctx 1 = true)
  /\
  (* taproot to_local delay leaf *)
  (forall ctx (prod : bool) csv selfkey sig ls cb,
     xonly selfkey -> u32 csv -> elem_ok sig -> elem_ok ls -> elem_ok cb ->
     parse_script ls = Some (taproot_local_commit_delay_script_of sha256 ripemd160 prod csv selfkey) ->
     spend_tapleaf h sigcheck ctx (taproot_commit_spend_success sig ls cb) = true -> csv_sat ctx csv = true)
  /\
  (* taproot second-level delay leaf *)
  (forall ctx (prod : bool) csv delaykey sig ls cb,
     xonly delaykey -> u32 csv -> elem_ok sig -> elem_ok ls -> elem_ok cb ->
     parse_script ls = Some (taproot_second_level_tap_leaf_of sha256 ripemd160 prod delaykey csv) ->
     spend_tapleaf h sigcheck ctx (taproot_htlc_spend_success sig ls cb) = true -> csv_sat ctx csv = true).
Proof.
  intros sha256 ripemd160 sigcheck h Hrip.
  unfold hash160_of in h.
  repeat split.
  - (* to_local *)
    intros; eapply (to_local_timeout_needs_csv h sigcheck); try (match goal with |- parse_script _ = Some _ => eassumption | |- spend_p2wsh _ _ _ _ = true => eassumption | |- spend_tapleaf _ _ _ _ = true => eassumption end); eauto.
    all: try (subst h; apply Hrip).
  - (* lease to_local: CSV and the CLTV lease expiry *)
    intros; apply andb_true_intro; eapply (lease_to_local_timeout_needs_csv h sigcheck); try (match goal with |- parse_script _ = Some _ => eassumption | |- spend_p2wsh _ _ _ _ = true => eassumption | |- spend_tapleaf _ _ _ _ = true => eassumption end); eauto.
    all: try (subst h; apply Hrip).
  - (* second-level output *)
    intros; eapply (second_level_delay_needs_csv h sigcheck); try (match goal with |- parse_script _ = Some _ => eassumption | |- spend_p2wsh _ _ _ _ = true => eassumption | |- spend_tapleaf _ _ _ _ = true => eassumption end); eauto.
    all: try (subst h; apply Hrip).
  - (* to_remote of anchor channels *)
    intros; eapply (to_remote_confirmed_needs_csv h sigcheck); try (match goal with |- parse_script _ = Some _ => eassumption | |- spend_p2wsh _ _ _ _ = true => eassumption | |- spend_tapleaf _ _ _ _ = true => eassumption end); eauto.
    all: try (subst h; apply Hrip).
  - (* offered HTLC with confirmedSpend, preimage path *)
    intros; eapply (offered_redeem_confirmed_needs_csv h sigcheck); try (match goal with |- parse_script _ = Some _ => eassumption | |- spend_p2wsh _ _ _ _ = true => eassumption | |- spend_tapleaf _ _ _ _ = true => eassumption end); eauto.
    all: try (subst h; apply Hrip).
  - (* received HTLC with confirmedSpend, timeout path *)
    intros; eapply (received_timeout_confirmed_needs_csv h sigcheck); try (match goal with |- parse_script _ = Some _ => eassumption | |- spend_p2wsh _ _ _ _ = true => eassumption | |- spend_tapleaf _ _ _ _ = true => eassumption end); eauto.
    all: try (subst h; apply Hrip).
  - (* taproot to_local delay leaf *)
    intros; eapply (tap_to_local_delay_needs_csv h sigcheck); try (match goal with |- parse_script _ = Some _ => eassumption | |- spend_p2wsh _ _ _ _ = true => eassumption | |- spend_tapleaf _ _ _ _ = true => eassumption end); eauto.
    all: try (subst h; apply Hrip).
  - (* taproot second-level delay leaf *)
    intros; eapply (tap_second_level_delay_needs_csv h sigcheck); try (match goal with |- parse_script _ = Some _ => eassumption | |- spend_p2wsh _ _ _ _ = true => eassumption | |- spend_tapleaf _ _ _ _ = true => eassumption end); eauto.
    all: try (subst h; apply Hrip).
Qed.

Lemma C05_funding_spend_accepts_proof :
  forall (sha256 ripemd160 : bytes -> bytes) (sigcheck : bytes -> bytes -> sigres),
  let h := hash160_of sha256 ripemd160 in
  (forall x, hash20 (ripemd160 x)) ->
  (* funding multisig *)
  (forall ctx (greater : bool) pa pb siga sigb ws,
     key33 pa -> key33 pb -> elem_ok siga -> elem_ok sigb ->
     parse_script ws = Some (gen_multi_sig_script_of sha256 ripemd160 greater pa pb) ->
     verify sigcheck pa siga = true -> verify sigcheck pb sigb = true ->
     spend_p2wsh h sigcheck ctx (spend_multi_sig greater sigb siga ws) = true).
Proof.
  intros sha256 ripemd160 sigcheck h Hrip.
  unfold hash160_of in h.
  repeat split.
  - (* funding multisig *)
    intros ctx greater; destruct greater; intros; unfold spend_multi_sig; [eapply (funding_multisig h sigcheck) with (pa := pb) (pb := pa) | eapply (funding_multisig h sigcheck) with (pa := pa) (pb := pb)]; eauto.
    all: try (subst h; apply Hrip).
Qed.

(* the order of the symbolic witness items the positional theorems rely on *)
Lemma witness_roles :
  spend_multi_sig_params = ["sig_b"%string; "sig_a"%string; "witness_script"%string]
  /\ sender_htlc_spend_revoke_with_key_params = ["sweep_sig"%string; "revoke_key"%string; "witness_script"%string]
  /\ sender_htlc_spend_redeem_params = ["sweep_sig"%string; "payment_preimage"%string; "witness_script"%string]
  /\ sender_htlc_spend_timeout_params = ["receiver_sig"%string; "sweep_sig"%string; "witness_script"%string]
  /\ sender_htlc_script_taproot_redeem_params = ["sweep_sig"%string; "preimage"%string; "witness_script"%string; "ctrl_block"%string]
  /\ sender_htlc_script_taproot_timeout_params = ["receiver_sig"%string; "sweep_sig"%string; "witness_script"%string; "ctrl_block_bytes"%string]
  /\ sender_htlc_script_taproot_revoke_params = ["sweep_sig"%string]
  /\ receiver_htlc_spend_redeem_params = ["sender_sig"%string; "sweep_sig"%string; "payment_preimage"%string; "witness_script"%string]
  /\ receiver_htlc_spend_revoke_with_key_params = ["sweep_sig"%string; "revoke_key"%string; "witness_script"%string]
  /\ receiver_htlc_spend_timeout_params = ["sweep_sig"%string; "witness_script"%string]
  /\ receiver_htlc_script_taproot_redeem_params = ["sender_sig"%string; "sweep_sig"%string; "payment_preimage"%string; "witness_script"%string; "ctrl_block"%string]
  /\ receiver_htlc_script_taproot_timeout_params = ["sweep_sig"%string; "witness_script"%string; "ctrl_block"%string]
  /\ receiver_htlc_script_taproot_revoke_params = ["sweep_sig"%string]
  /\ taproot_htlc_spend_revoke_params = ["sweep_sig"%string]
  /\ taproot_htlc_spend_success_params = ["sweep_sig"%string; "witness_script"%string; "ctrl_block"%string]
  /\ htlc_spend_success_params = ["sweep_sig"%string; "witness_script"%string]
  /\ htlc_spend_revoke_params = ["sweep_sig"%string; "witness_script"%string]
  /\ htlc_second_level_spend_params = ["sweep_sig"%string; "witness_script"%string]
  /\ taproot_commit_spend_success_params = ["sweep_sig"%string; "witness_script"%string; "ctrl_block_bytes"%string]
  /\ taproot_commit_spend_revoke_params = ["revoke_sig"%string; "witness_script"%string; "ctrl_block_bytes"%string]
  /\ commit_spend_timeout_params = ["sweep_sig"%string; "witness_script"%string]
  /\ commit_spend_revoke_params = ["sweep_sig"%string; "witness_script"%string]
  /\ commit_spend_no_delay_params = ["sweep_sig"%string; "key_desc_pub_key"%string; "tweak_pub_key_with_tweak"%string]
  /\ taproot_commit_remote_spend_params = ["sweep_sig"%string; "witness_script"%string; "ctrl_block_bytes"%string]
  /\ commit_spend_to_remote_confirmed_params = ["sweep_sig"%string; "witness_script"%string]
  /\ taproot_anchor_spend_params = ["sweep_sig"%string]
  /\ taproot_anchor_spend_any_params = ["sweep_leaf_script"%string; "sweep_control_block"%string]
  /\ commit_spend_anchor_params = ["sweep_sig"%string; "witness_script"%string]
  /\ commit_spend_anchor_anyone_params = ["script"%string].
Proof. repeat split; reflexivity. Qed.
