(* Spending a P2WSH / P2WKH / taproot script-path output with a complete
   witness stack, as txscript's verifyWitnessProgram does it, on top of the
   interpreter.  ABSTRACTED (decided by the real engine in the harness only):
   the commitment checks  sha256(witness script) = witness program,
   hash160(pubkey) = P2WKH program is kept (it is the script's own check), and
   the taproot control-block / merkle commitment of the leaf.
   Executable definitions only. *)
From Coq Require Import List NArith ZArith Bool.
From LV Require Import Script.Interp Script.Parse Script.Witness Gen.GenScripts.
Import ListNotations.
Local Open Scope N_scope.

Definition split_last (l : list bytes) : option (list bytes * bytes) :=
  match rev l with
  | [] => None
  | x :: r => Some (rev r, x)
  end.

(* wire.TxWitness.SerializeSize *)
Definition varint_size (n : N) : N :=
  if n <? 253 then 1 else if n <=? 65535 then 3 else if n <=? 4294967295 then 5 else 9.

Definition wit_size (w : list bytes) : N :=
  varint_size (N.of_nat (length w)) +
  fold_right (fun x acc => varint_size (blen x) + blen x + acc) 0 w.

(* tapscript signature-operations budget (taprootExecutionCtx): 50 + witness size *)
Definition tap_budget (w : list bytes) : Z := (50 + Z.of_N (wit_size w))%Z.

(* OP_HASH160 / address.Hash160 *)
Definition hash160_of (sha256 ripemd160 : bytes -> bytes) : bytes -> bytes :=
  fun x => ripemd160 (sha256 x).

Section Spend.
  Variable hash160 : bytes -> bytes.
  Variable sigcheck : bytes -> bytes -> sigres.
  Variable ctx : txctx.

  (* witness = stack items ++ [witness script] *)
  Definition spend_p2wsh (w : list data) : bool :=
    match split_last w with
    | Some (stk, ws) =>
      match parse_script ws with
      | Some is => accepts hash160 sigcheck SegV0 ctx is stk 0
      | None => false
      end
    | None => false
    end.

  (* witness = [sig; pubkey]; the program is the 20-byte hash *)
  Definition spend_p2wkh (pkh : data) (w : list data) : bool :=
    match w with
    | [_; _] => accepts hash160 sigcheck SegV0 ctx (generate_p2pkh pkh) w 0
    | _ => false
    end.

  (* witness = stack items ++ [leaf script; control block] (no annex) *)
  Definition spend_tapleaf (w : list data) : bool :=
    match split_last w with
    | Some (w1, _cb) =>
      match split_last w1 with
      | Some (stk, ls) =>
        match parse_script ls with
        | Some is => accepts hash160 sigcheck Tapscript ctx is stk (tap_budget w)
        | None => false
        end
      | None => false
      end
    | None => false
    end.
End Spend.

(* ---- well-formedness side conditions used by the theorem statements ---- *)
Definition key33 (k : bytes) : Prop := blen k = 33.      (* compressed pubkey *)
Definition xonly (k : bytes) : Prop := blen k = 32.      (* BIP-340 x-only pubkey *)
Definition hash20 (d : bytes) : Prop := blen d = 20.
Definition u32 (n : N) : Prop := n < 4294967296.         (* int64(uint32 x) template numbers *)
Definition elem_ok (s : bytes) : Prop := blen s <= 520.  (* any witness item the engine admits *)
