(* Witness-stack shapes and the few hand-written helpers of the script layer.

   The witness stacks themselves are REGENERATED (Gen/GenScripts.v: one function
   `<spend_fn> args : list data` per *Spend* function of input/script_utils.go,
   plus `<spend_fn>_shape`, the same stack as a list of [witem]s, and a
   generated Example that the two coincide).  This file only holds the generic
   shape machinery and

     lock_time_to_sequence   -- input.LockTimeToSequence, "modelled, not
                                regenerated"; tied to the Go function by samples
                                in the correspondence run (Exec.v code 6).

   Executable definitions only. *)
From Coq Require Import List NArith ZArith Bool.
From LV Require Import Script.Interp.
Import ListNotations.
Local Open Scope N_scope.

(* element of a witness stack as written by a *Spend* function *)
Inductive witem :=
| WParam (i : nat)        (* i-th symbolic item (signature, key, preimage, script, control block) *)
| WConst (b : bytes).     (* nil or []byte{1} *)

Definition inst_item (args : list bytes) (w : witem) : bytes :=
  match w with
  | WParam i => nth i args []
  | WConst b => b
  end.

Definition inst_shape (sh : list witem) (args : list bytes) : list bytes :=
  map (inst_item args) sh.

(* does the concrete stack w instantiate the shape (consistently per index)? *)
Fixpoint bind_shape (sh : list witem) (w : list bytes) (env : list (nat * bytes)) : bool :=
  match sh, w with
  | [], [] => true
  | WConst b :: sr, x :: wr => bytes_eqb b x && bind_shape sr wr env
  | WParam i :: sr, x :: wr =>
    match find (fun p => Nat.eqb (fst p) i) env with
    | Some (_, y) => bytes_eqb x y && bind_shape sr wr env
    | None => bind_shape sr wr ((i, x) :: env)
    end
  | _, _ => false
  end.

Definition match_shape (sh : list witem) (w : list bytes) : bool := bind_shape sh w [].

(* input.LockTimeToSequence (uint32 arithmetic; locktime < 2^32):
     if !isSeconds { return locktime }
     return SequenceLockTimeSeconds | (locktime >> 9)          (1<<22) *)
Definition lock_time_to_sequence (is_seconds : bool) (locktime : N) : N :=
  if is_seconds then N.lor seq_type_flag (N.shiftr locktime 9) else locktime.

(* all but the last n elements (the witness script / control block) *)
Definition drop_last (n : nat) (l : list bytes) : list bytes :=
  firstn (length l - n) l.
