(* Trace checker for the script-layer correspondence run (C04/C05 layer 4).
   One [scase] per (script, witness, tx context) the Go harness pushed through
   the REAL txscript engine.  [check_case] returns the list of disagreement
   codes:
     1  real script bytes do not parse / do not equal the regenerated template
        (Gen/GenScripts.v) instantiated with the same parameters   [T1 cross-check]
     2  interpreter verdict differs from the engine verdict
     3  interpreter left its modelled subset (Unsupported / oracle gap)
     4  real witness stack does not match the regenerated witness shape
     5  tx fields set by the real *Spend* function differ from the regenerated *_tx function
     6  LockTimeToSequence sample differs from the model
     7  tapscript sig-ops budget 50 + wire.TxWitness.SerializeSize differs from Spend.tap_budget
   Key-path taproot spends carry no script: only checks 4/5 apply ([c_run] = false).
   Executable definitions only. *)
From Coq Require Import List NArith ZArith Bool.
From LV Require Import Script.Interp Script.Parse Script.Witness Script.Spend.
Import ListNotations.
Local Open Scope N_scope.

Record scase := mkCase {
  c_run : bool;                           (* false: key-path spend, nothing to interpret *)
  c_ver : sver;
  c_script : bytes;                       (* executed script, raw bytes *)
  c_tmpl : option (list instr);           (* template instantiation it must equal *)
  c_stack : list bytes;                   (* witness items below the script, bottom first *)
  c_ctx : txctx;
  c_budget : Z;                           (* tapscript sig-ops budget: 50 + witness size *)
  c_atoms : list bytes;                   (* byte strings the oracles are indexed by *)
  c_h160 : list bytes;                    (* hash160 of each atom *)
  c_oracle : list (N * N * sigres);       (* (pk atom, sig atom, class) *)
  c_engine_ok : bool;
  c_wit : option (list witem * list bytes);   (* regenerated shape, real full witness *)
  c_txfx : option (txctx * txctx);        (* regenerated tx effect applied to the input ctx, observed ctx *)
  c_lts : list (bool * N * N)             (* LockTimeToSequence samples (isSeconds, in, out) *)
}.

Fixpoint index_of (x : bytes) (l : list bytes) (i : N) : option N :=
  match l with
  | [] => None
  | y :: r => if bytes_eqb x y then Some i else index_of x r (i + 1)
  end.

Definition hash160_of (atoms h : list bytes) (x : bytes) : bytes :=
  match index_of x atoms 0 with
  | Some i => nth (N.to_nat i) h []
  | None => []          (* never equals a 20-byte hash; harness lists every stack item and push *)
  end.

Fixpoint lookup_pair (i j : N) (t : list (N * N * sigres)) : sigres :=
  match t with
  | [] => SigUnknown
  | (a, b, r) :: rest => if (a =? i) && (b =? j) then r else lookup_pair i j rest
  end.

Definition sigcheck_of (atoms : list bytes) (t : list (N * N * sigres)) (pk sg : bytes) : sigres :=
  match index_of pk atoms 0, index_of sg atoms 0 with
  | Some i, Some j => lookup_pair i j t
  | _, _ => SigUnknown
  end.

Definition ctx_eqb (a b : txctx) : bool :=
  (tx_version a =? tx_version b) && (tx_locktime a =? tx_locktime b) &&
  (in_sequence a =? in_sequence b).

Definition case_verdict (c : scase) (is : list instr) : verdict :=
  eval (hash160_of (c_atoms c) (c_h160 c)) (sigcheck_of (c_atoms c) (c_oracle c))
       (c_ver c) (c_ctx c) is (c_stack c) (c_budget c).

Definition check_case (c : scase) : list N :=
  let parsed := parse_script (c_script c) in
  let e1 :=
    match parsed, c_tmpl c with
    | None, Some _ => [1]
    | Some p, Some t => if instrs_eqb p t then [] else [1]
    | _, None => []
    end in
  let e23 :=
    if negb (c_run c) then [] else
    match parsed with
    | None => if c_engine_ok c then [2] else []      (* unparsable script: engine must reject *)
    | Some p =>
      match case_verdict c p with
      | Accept => if c_engine_ok c then [] else [2]
      | Reject => if c_engine_ok c then [2] else []
      | Unsupported => [3]
      end
    end in
  let e4 :=
    match c_wit c with
    | Some (sh, w) => if match_shape sh w then [] else [4]
    | None => []
    end in
  let e5 :=
    match c_txfx c with
    | Some (a, b) => if ctx_eqb a b then [] else [5]
    | None => []
    end in
  let e6 :=
    if forallb (fun t => let '(s, i, o) := t in lock_time_to_sequence s i =? o) (c_lts c)
    then [] else [6] in
  let e7 :=
    match c_ver c, c_wit c with
    | Tapscript, Some (_, w) => if c_run c && negb (tap_budget w =? c_budget c)%Z then [7] else []
    | _, _ => []
    end in
  e1 ++ e23 ++ e4 ++ e5 ++ e6 ++ e7.

Fixpoint mismatches (cases : list scase) (i : N) : list (N * list N) :=
  match cases with
  | [] => []
  | c :: r =>
    match check_case c with
    | [] => mismatches r (i + 1)
    | bad => (i, bad) :: mismatches r (i + 1)
    end
  end.
