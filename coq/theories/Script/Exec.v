(* Trace checker for the script-layer correspondence run (C04/C05 layer 4).
   One [scase] per (script, witness, tx context) the Go harness pushed through
   the REAL txscript engine.  [check_case] returns the list of disagreement
   codes:
     1  real script bytes do not parse / do not equal the regenerated template
        (Gen/GenScripts.v) instantiated with the same parameters   [T1 cross-check]
     2  interpreter verdict differs from the engine verdict
     3  interpreter left its modelled subset (Unsupported / oracle gap)
     4  real witness stack does not match the regenerated witness shape
     5  tx fields set by the real *Spend* function differ from the regenerated *_tx function
     6  LockTimeToSequence sample differs from the model
     7  tapscript sig-ops budget 50 + wire.TxWitness.SerializeSize differs from Spend.tap_budget
   Key-path taproot spends carry no script: only checks 4/5 apply ([c_run] = false).
   Executable definitions only. *)
From Coq Require Import List NArith ZArith Bool.
From LV Require Import Script.Interp Script.Parse Script.Witness Script.Spend.
Import ListNotations.
Local Open Scope N_scope.

(* byte constants for the generated case files: `[x76;xa9]` elaborates ~3x faster than
   `[118;169]%N` (no numeral interpretation per element) *)
Definition x00 : N := 0.
Definition x01 : N := 1.
Definition x02 : N := 2.
Definition x03 : N := 3.
Definition x04 : N := 4.
Definition x05 : N := 5.
Definition x06 : N := 6.
Definition x07 : N := 7.
Definition x08 : N := 8.
Definition x09 : N := 9.
Definition x0a : N := 10.
Definition x0b : N := 11.
Definition x0c : N := 12.
Definition x0d : N := 13.
Definition x0e : N := 14.
Definition x0f : N := 15.
Definition x10 : N := 16.
Definition x11 : N := 17.
Definition x12 : N := 18.
Definition x13 : N := 19.
Definition x14 : N := 20.
Definition x15 : N := 21.
Definition x16 : N := 22.
Definition x17 : N := 23.
Definition x18 : N := 24.
Definition x19 : N := 25.
Definition x1a : N := 26.
Definition x1b : N := 27.
Definition x1c : N := 28.
Definition x1d : N := 29.
Definition x1e : N := 30.
Definition x1f : N := 31.
Definition x20 : N := 32.
Definition x21 : N := 33.
Definition x22 : N := 34.
Definition x23 : N := 35.
Definition x24 : N := 36.
Definition x25 : N := 37.
Definition x26 : N := 38.
Definition x27 : N := 39.
Definition x28 : N := 40.
Definition x29 : N := 41.
Definition x2a : N := 42.
Definition x2b : N := 43.
Definition x2c : N := 44.
Definition x2d : N := 45.
Definition x2e : N := 46.
Definition x2f : N := 47.
Definition x30 : N := 48.
Definition x31 : N := 49.
Definition x32 : N := 50.
Definition x33 : N := 51.
Definition x34 : N := 52.
Definition x35 : N := 53.
Definition x36 : N := 54.
Definition x37 : N := 55.
Definition x38 : N := 56.
Definition x39 : N := 57.
Definition x3a : N := 58.
Definition x3b : N := 59.
Definition x3c : N := 60.
Definition x3d : N := 61.
Definition x3e : N := 62.
Definition x3f : N := 63.
Definition x40 : N := 64.
Definition x41 : N := 65.
Definition x42 : N := 66.
Definition x43 : N := 67.
Definition x44 : N := 68.
Definition x45 : N := 69.
Definition x46 : N := 70.
Definition x47 : N := 71.
Definition x48 : N := 72.
Definition x49 : N := 73.
Definition x4a : N := 74.
Definition x4b : N := 75.
Definition x4c : N := 76.
Definition x4d : N := 77.
Definition x4e : N := 78.
Definition x4f : N := 79.
Definition x50 : N := 80.
Definition x51 : N := 81.
Definition x52 : N := 82.
Definition x53 : N := 83.
Definition x54 : N := 84.
Definition x55 : N := 85.
Definition x56 : N := 86.
Definition x57 : N := 87.
Definition x58 : N := 88.
Definition x59 : N := 89.
Definition x5a : N := 90.
Definition x5b : N := 91.
Definition x5c : N := 92.
Definition x5d : N := 93.
Definition x5e : N := 94.
Definition x5f : N := 95.
Definition x60 : N := 96.
Definition x61 : N := 97.
Definition x62 : N := 98.
Definition x63 : N := 99.
Definition x64 : N := 100.
Definition x65 : N := 101.
Definition x66 : N := 102.
Definition x67 : N := 103.
Definition x68 : N := 104.
Definition x69 : N := 105.
Definition x6a : N := 106.
Definition x6b : N := 107.
Definition x6c : N := 108.
Definition x6d : N := 109.
Definition x6e : N := 110.
Definition x6f : N := 111.
Definition x70 : N := 112.
Definition x71 : N := 113.
Definition x72 : N := 114.
Definition x73 : N := 115.
Definition x74 : N := 116.
Definition x75 : N := 117.
Definition x76 : N := 118.
Definition x77 : N := 119.
Definition x78 : N := 120.
Definition x79 : N := 121.
Definition x7a : N := 122.
Definition x7b : N := 123.
Definition x7c : N := 124.
Definition x7d : N := 125.
Definition x7e : N := 126.
Definition x7f : N := 127.
Definition x80 : N := 128.
Definition x81 : N := 129.
Definition x82 : N := 130.
Definition x83 : N := 131.
Definition x84 : N := 132.
Definition x85 : N := 133.
Definition x86 : N := 134.
Definition x87 : N := 135.
Definition x88 : N := 136.
Definition x89 : N := 137.
Definition x8a : N := 138.
Definition x8b : N := 139.
Definition x8c : N := 140.
Definition x8d : N := 141.
Definition x8e : N := 142.
Definition x8f : N := 143.
Definition x90 : N := 144.
Definition x91 : N := 145.
Definition x92 : N := 146.
Definition x93 : N := 147.
Definition x94 : N := 148.
Definition x95 : N := 149.
Definition x96 : N := 150.
Definition x97 : N := 151.
Definition x98 : N := 152.
Definition x99 : N := 153.
Definition x9a : N := 154.
Definition x9b : N := 155.
Definition x9c : N := 156.
Definition x9d : N := 157.
Definition x9e : N := 158.
Definition x9f : N := 159.
Definition xa0 : N := 160.
Definition xa1 : N := 161.
Definition xa2 : N := 162.
Definition xa3 : N := 163.
Definition xa4 : N := 164.
Definition xa5 : N := 165.
Definition xa6 : N := 166.
Definition xa7 : N := 167.
Definition xa8 : N := 168.
Definition xa9 : N := 169.
Definition xaa : N := 170.
Definition xab : N := 171.
Definition xac : N := 172.
Definition xad : N := 173.
Definition xae : N := 174.
Definition xaf : N := 175.
Definition xb0 : N := 176.
Definition xb1 : N := 177.
Definition xb2 : N := 178.
Definition xb3 : N := 179.
Definition xb4 : N := 180.
Definition xb5 : N := 181.
Definition xb6 : N := 182.
Definition xb7 : N := 183.
Definition xb8 : N := 184.
Definition xb9 : N := 185.
Definition xba : N := 186.
Definition xbb : N := 187.
Definition xbc : N := 188.
Definition xbd : N := 189.
Definition xbe : N := 190.
Definition xbf : N := 191.
Definition xc0 : N := 192.
Definition xc1 : N := 193.
Definition xc2 : N := 194.
Definition xc3 : N := 195.
Definition xc4 : N := 196.
Definition xc5 : N := 197.
Definition xc6 : N := 198.
Definition xc7 : N := 199.
Definition xc8 : N := 200.
Definition xc9 : N := 201.
Definition xca : N := 202.
Definition xcb : N := 203.
Definition xcc : N := 204.
Definition xcd : N := 205.
Definition xce : N := 206.
Definition xcf : N := 207.
Definition xd0 : N := 208.
Definition xd1 : N := 209.
Definition xd2 : N := 210.
Definition xd3 : N := 211.
Definition xd4 : N := 212.
Definition xd5 : N := 213.
Definition xd6 : N := 214.
Definition xd7 : N := 215.
Definition xd8 : N := 216.
Definition xd9 : N := 217.
Definition xda : N := 218.
Definition xdb : N := 219.
Definition xdc : N := 220.
Definition xdd : N := 221.
Definition xde : N := 222.
Definition xdf : N := 223.
Definition xe0 : N := 224.
Definition xe1 : N := 225.
Definition xe2 : N := 226.
Definition xe3 : N := 227.
Definition xe4 : N := 228.
Definition xe5 : N := 229.
Definition xe6 : N := 230.
Definition xe7 : N := 231.
Definition xe8 : N := 232.
Definition xe9 : N := 233.
Definition xea : N := 234.
Definition xeb : N := 235.
Definition xec : N := 236.
Definition xed : N := 237.
Definition xee : N := 238.
Definition xef : N := 239.
Definition xf0 : N := 240.
Definition xf1 : N := 241.
Definition xf2 : N := 242.
Definition xf3 : N := 243.
Definition xf4 : N := 244.
Definition xf5 : N := 245.
Definition xf6 : N := 246.
Definition xf7 : N := 247.
Definition xf8 : N := 248.
Definition xf9 : N := 249.
Definition xfa : N := 250.
Definition xfb : N := 251.
Definition xfc : N := 252.
Definition xfd : N := 253.
Definition xfe : N := 254.
Definition xff : N := 255.

(* atom reference inside a case: `A a i` = i-th byte string of the case's atom table *)
Definition A (a : list bytes) (i : nat) : bytes := nth i a [].

Record scase := mkCase {
  c_run : bool;                           (* false: key-path spend, nothing to interpret *)
  c_ver : sver;
  c_script : bytes;                       (* executed script, raw bytes *)
  c_tmpl : option (list instr);           (* template instantiation it must equal *)
  c_stack : list bytes;                   (* witness items below the script, bottom first *)
  c_ctx : txctx;
  c_budget : Z;                           (* tapscript sig-ops budget: 50 + witness size *)
  c_atoms : list bytes;                   (* byte strings the oracles are indexed by *)
  c_h160 : list bytes;                    (* hash160 of each atom *)
  c_oracle : list (N * N * sigres);       (* (pk atom, sig atom, class) *)
  c_engine_ok : bool;
  c_wit : option (list witem * list bytes);   (* regenerated shape, real full witness *)
  c_txfx : option (txctx * txctx);        (* regenerated tx effect applied to the input ctx, observed ctx *)
  c_lts : list (bool * N * N)             (* LockTimeToSequence samples (isSeconds, in, out) *)
}.

Fixpoint index_of (x : bytes) (l : list bytes) (i : N) : option N :=
  match l with
  | [] => None
  | y :: r => if bytes_eqb x y then Some i else index_of x r (i + 1)
  end.

Definition hash160_of (atoms h : list bytes) (x : bytes) : bytes :=
  match index_of x atoms 0 with
  | Some i => nth (N.to_nat i) h []
  | None => []          (* never equals a 20-byte hash; harness lists every stack item and push *)
  end.

Fixpoint lookup_pair (i j : N) (t : list (N * N * sigres)) : sigres :=
  match t with
  | [] => SigUnknown
  | (a, b, r) :: rest => if (a =? i) && (b =? j) then r else lookup_pair i j rest
  end.

Definition sigcheck_of (atoms : list bytes) (t : list (N * N * sigres)) (pk sg : bytes) : sigres :=
  match index_of pk atoms 0, index_of sg atoms 0 with
  | Some i, Some j => lookup_pair i j t
  | _, _ => SigUnknown
  end.

Definition ctx_eqb (a b : txctx) : bool :=
  (tx_version a =? tx_version b) && (tx_locktime a =? tx_locktime b) &&
  (in_sequence a =? in_sequence b).

Definition case_verdict (c : scase) (is : list instr) : verdict :=
  eval (hash160_of (c_atoms c) (c_h160 c)) (sigcheck_of (c_atoms c) (c_oracle c))
       (c_ver c) (c_ctx c) is (c_stack c) (c_budget c).

Definition check_case (c : scase) : list N :=
  let parsed := parse_script (c_script c) in
  let e1 :=
    match parsed, c_tmpl c with
    | None, Some _ => [1]
    | Some p, Some t => if instrs_eqb p t then [] else [1]
    | _, None => []
    end in
  let e23 :=
    if negb (c_run c) then [] else
    match parsed with
    | None => if c_engine_ok c then [2] else []      (* unparsable script: engine must reject *)
    | Some p =>
      match case_verdict c p with
      | Accept => if c_engine_ok c then [] else [2]
      | Reject => if c_engine_ok c then [2] else []
      | Unsupported => [3]
      end
    end in
  let e4 :=
    match c_wit c with
    | Some (sh, w) => if match_shape sh w then [] else [4]
    | None => []
    end in
  let e5 :=
    match c_txfx c with
    | Some (a, b) => if ctx_eqb a b then [] else [5]
    | None => []
    end in
  let e6 :=
    if forallb (fun t => let '(s, i, o) := t in lock_time_to_sequence s i =? o) (c_lts c)
    then [] else [6] in
  let e7 :=
    match c_ver c, c_wit c with
    | Tapscript, Some (_, w) => if c_run c && negb (tap_budget w =? c_budget c)%Z then [7] else []
    | _, _ => []
    end in
  e1 ++ e23 ++ e4 ++ e5 ++ e6 ++ e7.

Fixpoint mismatches (cases : list scase) (i : N) : list (N * list N) :=
  match cases with
  | [] => []
  | c :: r =>
    match check_case c with
    | [] => mismatches r (i + 1)
    | bad => (i, bad) :: mismatches r (i + 1)
    end
  end.
