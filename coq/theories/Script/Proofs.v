From Coq Require Import List NArith ZArith Bool Lia.
From Coq Require Import ZifyBool ZifyN ZifyNat.
From LV Require Import Script.Interp Script.Parse Script.Witness Gen.GenScripts Script.Spend.
Import ListNotations.
Local Open Scope N_scope.

Lemma bytes_eqb_refl : forall a, bytes_eqb a a = true.
Proof. induction a as [|x a IH]; cbn; [reflexivity|]. now rewrite N.eqb_refl, IH. Qed.

Lemma bytes_eqb_eq : forall a b, bytes_eqb a b = true <-> a = b.
Proof.
  induction a as [|x a IH]; destruct b as [|y b]; cbn; split; intro H; try easy.
  - apply andb_true_iff in H as [H1 H2]. apply N.eqb_eq in H1. apply IH in H2. now subst.
  - inversion H; subst. now rewrite N.eqb_refl, (proj2 (IH b) eq_refl).
Qed.

Lemma bytes_eqb_neq : forall a b, a <> b -> bytes_eqb a b = false.
Proof. intros a b H. destruct (bytes_eqb a b) eqn:E; [|reflexivity]. apply bytes_eqb_eq in E. contradiction. Qed.

(* ---- script numbers ---- *)
Lemma sn_enc_spec : forall f n, 0 < n -> n < 256 ^ N.of_nat f ->
  le_val (sn_enc f n) = n /\ last (sn_enc f n) 0 < 128 /\
  minimal_num (sn_enc f n) = true /\ sn_enc f n <> [].
Proof.
  induction f as [|f IH]; intros n Hpos Hlt.
  - cbn in Hlt. lia.
  - cbn [sn_enc].
    destruct (N.eqb_spec n 0) as [->|Hn0]; [lia|].
    destruct (N.ltb_spec n 128) as [H128|H128].
    { cbn. repeat split; try lia; try easy.
      all: rewrite N.mod_small by lia; destruct (N.eqb_spec n 0); [lia|reflexivity]. }
    destruct (N.ltb_spec n 256) as [H256|H256].
    { cbn. repeat split; try lia; try easy.
      all: destruct (N.leb_spec 128 n); [reflexivity|lia]. }
    assert (Hq : 0 < n / 256) by (apply N.div_str_pos; lia).
    assert (Hq2 : n / 256 < 256 ^ N.of_nat f).
    { apply N.div_lt_upper_bound; [lia|].
      replace (N.of_nat (S f)) with (N.succ (N.of_nat f)) in Hlt by lia.
      rewrite N.pow_succ_r' in Hlt. exact Hlt. }
    destruct (IH _ Hq Hq2) as (Hv & Hl & Hm & Hne).
    destruct (sn_enc f (n / 256)) as [|a [|b r]] eqn:E; [congruence| |].
    + cbn [le_val last minimal_num] in *. pose proof (N.div_mod' n 256) as Hdm.
      repeat split; try easy; try lia.
      destruct (a mod 128 =? 0); [discriminate|reflexivity].
    + repeat split; try easy.
      * change (le_val (n mod 256 :: a :: b :: r)) with (n mod 256 + 256 * le_val (a :: b :: r)).
        rewrite Hv. pose proof (N.div_mod' n 256). lia.
Qed.

Lemma sn_enc_len : forall f k n, n < 256 ^ N.of_nat k -> (length (sn_enc f n) <= S k)%nat.
Proof.
  induction f as [|f IH]; intros k n Hlt; cbn [sn_enc]; [cbn; lia|].
  destruct (N.eqb_spec n 0); [cbn; lia|].
  destruct (N.ltb_spec n 128); [cbn; lia|].
  destruct k as [|k]; [cbn in Hlt; lia|].
  destruct (N.ltb_spec n 256); [cbn; lia|].
  cbn [length]. apply le_n_S. apply IH.
  apply N.div_lt_upper_bound; [lia|].
  replace (N.of_nat (S k)) with (N.succ (N.of_nat k)) in Hlt by lia.
  rewrite N.pow_succ_r' in Hlt. exact Hlt.
Qed.

Lemma scriptnum_dec_enc : forall n, n < 4294967296 ->
  scriptnum_dec 5 (scriptnum_enc n) = Some (Z.of_N n).
Proof.
  intros n Hn. unfold scriptnum_enc, scriptnum_dec.
  destruct (N.eq_dec n 0) as [->|Hn0]; [reflexivity|].
  assert (Hlen : (length (sn_enc 9 n) <= 5)%nat) by (apply (sn_enc_len 9 4 n); exact Hn).
  destruct (sn_enc_spec 9 n) as (Hv & Hl & Hm & _); [lia| |].
  { eapply N.lt_trans; [exact Hn|]. reflexivity. }
  destruct (Nat.ltb_spec 5 (length (sn_enc 9 n))); [lia|].
  rewrite Hm. cbn [negb].
  destruct (N.leb_spec 128 (last (sn_enc 9 n) 0)); [lia|].
  now rewrite Hv.
Qed.

Lemma sn_enc_S : forall f n, sn_enc (S f) n =
  if n =? 0 then [] else if n <? 128 then [n] else if n <? 256 then [n; 0]
  else (n mod 256) :: sn_enc f (n / 256).
Proof. reflexivity. Qed.

Lemma sn_enc_len_fuel : forall f n, (length (sn_enc f n) <= S f)%nat.
Proof.
  induction f as [|f IH]; intro n; cbn [sn_enc]; [cbn; lia|].
  destruct (n =? 0); [cbn; lia|]. destruct (n <? 128); [cbn; lia|].
  destruct (n <? 256); [cbn; lia|]. cbn [length]. specialize (IH (n / 256)). lia.
Qed.

Lemma le_val_sn_enc : forall f n, n < 256 ^ N.of_nat f -> le_val (sn_enc f n) = n.
Proof.
  intros f n H. destruct (N.eq_dec n 0) as [->|Hn].
  - destruct f; reflexivity.
  - apply sn_enc_spec; [lia|exact H].
Qed.

Lemma scriptnum_enc_inj : forall n m, n < 4294967296 -> m < 4294967296 ->
  scriptnum_enc n = scriptnum_enc m -> n = m.
Proof.
  intros n m Hn Hm E. unfold scriptnum_enc in E.
  rewrite <- (le_val_sn_enc 9 n), <- (le_val_sn_enc 9 m), E; [reflexivity| |].
  all: eapply N.lt_trans; [eassumption|reflexivity].
Qed.

Lemma as_bool_pos : forall bs, last bs 0 < 128 -> 0 < le_val bs -> as_bool bs = true.
Proof.
  induction bs as [|x r IH]; intros Hl Hv; [cbn in Hv; lia|].
  destruct r as [|y r'].
  - cbn in *. destruct (N.eqb_spec x 0); [lia|]. destruct (N.eqb_spec x 128); [lia|reflexivity].
  - change (as_bool (x :: y :: r')) with (negb (x =? 0) || as_bool (y :: r')).
    destruct (N.eqb_spec x 0) as [->|]; [|reflexivity]. cbn [negb orb].
    apply IH; [exact Hl|]. change (le_val (0 :: y :: r')) with (0 + 256 * le_val (y :: r')) in Hv. lia.
Qed.

Lemma as_bool_scriptnum_enc : forall n, 0 < n -> n < 4294967296 -> as_bool (scriptnum_enc n) = true.
Proof.
  intros n H0 H. destruct (sn_enc_spec 9 n H0) as (Hv & Hl & _).
  { eapply N.lt_trans; [exact H|reflexivity]. }
  apply as_bool_pos; [exact Hl|]. unfold scriptnum_enc. rewrite Hv. exact H0.
Qed.

Lemma blen_scriptnum_enc : forall n, blen (scriptnum_enc n) <= 520.
Proof. intro n. unfold blen, scriptnum_enc. pose proof (sn_enc_len_fuel 9 n). lia. Qed.

Lemma scriptnum_enc_small : forall n, 0 < n -> n < 128 -> scriptnum_enc n = [n].
Proof.
  intros n H0 H. unfold scriptnum_enc. rewrite (sn_enc_S 8).
  destruct (N.eqb_spec n 0); [lia|]. destruct (N.ltb_spec n 128); [reflexivity|lia].
Qed.

Lemma minimal_push_scriptnum_enc : forall n, 16 < n -> n < 4294967296 ->
  minimal_push (scriptnum_enc n) = true.
Proof.
  intros n H16 H. unfold scriptnum_enc. rewrite (sn_enc_S 8).
  destruct (N.eqb_spec n 0); [lia|].
  destruct (N.ltb_spec n 128).
  { cbn. destruct (N.leb_spec 1 n); destruct (N.leb_spec n 16); destruct (N.eqb_spec n 129); try lia; reflexivity. }
  destruct (N.ltb_spec n 256); [reflexivity|].
  destruct (sn_enc_spec 8 (n / 256)) as (_ & _ & _ & Hne).
  { apply N.div_str_pos; lia. }
  { apply N.div_lt_upper_bound; [lia|]. eapply N.lt_trans; [exact H|reflexivity]. }
  destruct (sn_enc 8 (n / 256)); [congruence|reflexivity].
Qed.

(* ---- single steps ---- *)
Section Steps.
  Variable h : bytes -> bytes.
  Variable sc : bytes -> bytes -> sigres.
  Variable ver : sver.
  Variable ctx : txctx.

  Lemma step_push_data : forall d st c b,
    executing (mkSt st c b) = true -> blen d <= 520 ->
    step h sc ver ctx (push_data d) (mkSt st c b) = Ok (mkSt (d :: st) c b).
  Proof.
    intros d st c b He Hl.
    assert (Hsz : max_elem <? blen d = false) by (unfold max_elem; destruct (N.ltb_spec 520 (blen d)); [lia|reflexivity]).
    destruct d as [|x [|y r]].
    - cbn [push_data step]. rewrite He. reflexivity.
    - cbn [push_data].
      destruct ((1 <=? x) && (x <=? 16)) eqn:E1.
      { cbn [step]. rewrite He. cbn [exec push set_stk stk cnd budget].
        rewrite scriptnum_enc_small by lia. reflexivity. }
      destruct (N.eqb_spec x 129) as [->|E2].
      { cbn [step]. rewrite He. reflexivity. }
      cbn [step]. rewrite Hsz, He. cbn [exec minimal_push]. rewrite E1.
      destruct (N.eqb_spec x 129); [contradiction|]. reflexivity.
    - cbn [push_data step]. rewrite Hsz, He. reflexivity.
  Qed.

  Lemma step_push_data_skip : forall d s,
    executing s = false -> blen d <= 520 ->
    step h sc ver ctx (push_data d) s = Ok s.
  Proof.
    intros d s He Hl.
    assert (Hsz : max_elem <? blen d = false) by (unfold max_elem; destruct (N.ltb_spec 520 (blen d)); [lia|reflexivity]).
    destruct d as [|x [|y r]]; cbn [push_data].
    - cbn [step]. rewrite He. reflexivity.
    - destruct ((1 <=? x) && (x <=? 16)); [cbn [step]; rewrite He; reflexivity|].
      destruct (x =? 129); cbn [step]; [rewrite He; reflexivity|]. rewrite Hsz, He. reflexivity.
    - cbn [step]. rewrite Hsz, He. reflexivity.
  Qed.

  Lemma step_push_num : forall n st c b,
    executing (mkSt st c b) = true -> n < 4294967296 ->
    step h sc ver ctx (push_num n) (mkSt st c b) = Ok (mkSt (scriptnum_enc n :: st) c b).
  Proof.
    intros n st c b He Hn. unfold push_num.
    destruct (N.leb_spec n 16).
    - cbn [step]. rewrite He. reflexivity.
    - cbn [step].
      assert (Hsz : max_elem <? blen (scriptnum_enc n) = false).
      { pose proof (blen_scriptnum_enc n). unfold max_elem. destruct (N.ltb_spec 520 (blen (scriptnum_enc n))); [lia|reflexivity]. }
      rewrite Hsz, He. cbn [exec]. rewrite minimal_push_scriptnum_enc by lia. reflexivity.
  Qed.

  Lemma step_push_num_skip : forall n s,
    executing s = false -> step h sc ver ctx (push_num n) s = Ok s.
  Proof.
    intros n s He. unfold push_num. destruct (n <=? 16); cbn [step].
    - rewrite He. reflexivity.
    - assert (Hsz : max_elem <? blen (scriptnum_enc n) = false).
      { pose proof (blen_scriptnum_enc n). unfold max_elem. destruct (N.ltb_spec 520 (blen (scriptnum_enc n))); [lia|reflexivity]. }
      rewrite Hsz, He. reflexivity.
  Qed.

  Lemma exec_csv_enc : forall n, n < 4294967296 ->
    exec_csv ctx (scriptnum_enc n) = csv_sat ctx n.
  Proof.
    intros n H. unfold exec_csv. rewrite scriptnum_dec_enc by exact H.
    destruct (Z.ltb_spec (Z.of_N n) 0); [lia|]. now rewrite N2Z.id.
  Qed.

  Lemma exec_cltv_enc : forall n, n < 4294967296 ->
    exec_cltv ctx (scriptnum_enc n) = cltv_sat ctx n.
  Proof.
    intros n H. unfold exec_cltv. rewrite scriptnum_dec_enc by exact H.
    destruct (Z.ltb_spec (Z.of_N n) 0); [lia|]. now rewrite N2Z.id.
  Qed.

  Lemma verify_nonempty : forall k s, verify sc k s = true -> is_nil s = false.
  Proof. intros k s H. unfold verify in H. destruct (is_nil s); [discriminate|reflexivity]. Qed.

  Lemma verify_valid : forall k s, verify sc k s = true -> sc k s = SigValid.
  Proof. intros k s H. unfold verify in H. destruct (is_nil s); [discriminate|]. destruct (sc k s); try discriminate; reflexivity. Qed.

  Lemma checksig_v0_valid : forall k s b, verify sc k s = true ->
    checksig sc SegV0 k s b = CsPush true b.
  Proof. intros k s b H. unfold checksig. now rewrite (verify_nonempty _ _ H), (verify_valid _ _ H). Qed.

  Lemma checksig_v0_true_inv : forall k s b b',
    checksig sc SegV0 k s b = CsPush true b' -> verify sc k s = true.
  Proof.
    intros k s b b' H. unfold checksig in H. unfold verify.
    destruct (is_nil s); [destruct (compressed_pk k); discriminate|].
    destruct (sc k s); try discriminate; reflexivity.
  Qed.

  Lemma checksig_tap_true_inv : forall k s b b',
    checksig sc Tapscript k s b = CsPush true b' -> verify sc k s = true.
  Proof.
    intros k s b b' H. unfold checksig in H. unfold verify.
    destruct (is_nil k); [discriminate|]. destruct (is_nil s); [discriminate|].
    destruct (b - 50 <? 0)%Z; [discriminate|].
    destruct (sc k s); try discriminate; reflexivity.
  Qed.

  Lemma checksig_tap_valid : forall k s b, verify sc k s = true -> is_nil k = false -> (50 <= b)%Z ->
    checksig sc Tapscript k s b = CsPush true (b - 50).
  Proof.
    clear h ver ctx. intros k s b H Hk Hb. unfold checksig. rewrite Hk, (verify_nonempty _ _ H), (verify_valid _ _ H).
    destruct (Z.ltb_spec (b - 50) 0); [lia|reflexivity].
  Qed.

  Lemma checkmultisig_2of2 : forall (k1 k2 s1 s2 : bytes) (rest : list bytes),
    verify sc k1 s1 = true -> verify sc k2 s2 = true ->
    checkmultisig sc SegV0
      (@cons bytes [2] (k2 :: k1 :: @cons bytes [2] (s2 :: s1 :: @cons bytes [] rest)))
    = Some (MsOk true, rest).
  Proof.
    intros k1 k2 s1 s2 rest H1 H2. unfold checkmultisig, pop_int.
    change (scriptnum_dec 4 [2]) with (Some 2%Z). simpl.
    rewrite (verify_nonempty _ _ H2), (verify_valid _ _ H2).
    rewrite (verify_nonempty _ _ H1), (verify_valid _ _ H1). reflexivity.
  Qed.
End Steps.

Lemma csv_sat_exact : forall ctx n, 2 <= tx_version ctx -> in_sequence ctx = n -> csv_sat ctx n = true.
Proof.
  intros ctx n Hv Hs. unfold csv_sat. rewrite Hs.
  destruct (seq_disabled n); [reflexivity|].
  destruct (N.ltb_spec (tx_version ctx) 2); [lia|].
  unfold verify_locktime.
  destruct (N.ltb_spec (seq_masked n) seq_type_flag); destruct (N.leb_spec seq_type_flag (seq_masked n)); try lia;
  destruct (N.leb_spec (seq_masked n) (seq_masked n)); try lia; reflexivity.
Qed.

Lemma cltv_sat_exact : forall ctx n, tx_locktime ctx = n -> in_sequence ctx <> max_sequence -> cltv_sat ctx n = true.
Proof.
  intros ctx n Hl Hs. unfold cltv_sat, verify_locktime. rewrite Hl.
  destruct (N.eqb_spec (in_sequence ctx) max_sequence); [contradiction|].
  destruct (N.ltb_spec n locktime_threshold); destruct (N.leb_spec locktime_threshold n); try lia;
  destruct (N.leb_spec n n); try lia; reflexivity.
Qed.

(* ---- symbolic execution of a script, one instruction at a time ---- *)
Lemma run_cons_ok : forall h sc ver ctx i r s s',
  step h sc ver ctx i s = Ok s' -> run h sc ver ctx (i :: r) s = run h sc ver ctx r s'.
Proof. intros. cbn [run]. now rewrite H. Qed.

Lemma run_cons_fail : forall h sc ver ctx i r s,
  step h sc ver ctx i s = Fail -> run h sc ver ctx (i :: r) s = Fail.
Proof. intros. cbn [run]. now rewrite H. Qed.

Lemma run_cons_unsupp : forall h sc ver ctx i r s,
  step h sc ver ctx i s = Unsupp -> run h sc ver ctx (i :: r) s = Unsupp.
Proof. intros. cbn [run]. now rewrite H. Qed.

Lemma accepts_eq : forall h sc ver ctx is w bud,
  Forall (fun x => blen x <= 520) w ->
  accepts h sc ver ctx is w bud =
  match run h sc ver ctx is (mkSt (rev w) [] bud) with
  | Ok s => match cnd s with
            | [] => match stk s with [x] => as_bool x | _ => false end
            | _ => false
            end
  | _ => false
  end.
Proof.
  intros h sc ver ctx is w bud Hw. unfold accepts, eval.
  assert (E : existsb (fun x => max_elem <? blen x) w = false).
  { induction Hw as [|x l Hx _ IH]; [reflexivity|]. cbn [existsb]. rewrite IH.
    unfold max_elem. destruct (N.ltb_spec 520 (blen x)); [lia|reflexivity]. }
  rewrite E. destruct (run h sc ver ctx is _) as [s| |]; try reflexivity.
  destruct (cnd s); [|reflexivity]. destruct (stk s) as [|x [|y r]]; try reflexivity.
  destruct (as_bool x); reflexivity.
Qed.

Lemma enc_0 : scriptnum_enc 0 = []. Proof. reflexivity. Qed.
Lemma enc_1 : scriptnum_enc 1 = [1]. Proof. reflexivity. Qed.
Lemma enc_2 : scriptnum_enc 2 = [2]. Proof. reflexivity. Qed.
Lemma enc_16 : scriptnum_enc 16 = [16]. Proof. reflexivity. Qed.
Lemma enc_32 : scriptnum_enc 32 = [32]. Proof. reflexivity. Qed.
Lemma blen_nil : blen [] = 0. Proof. reflexivity. Qed.

Lemma exec_csv_1 : forall ctx, exec_csv ctx [1] = csv_sat ctx 1.
Proof. intro. rewrite <- enc_1. apply exec_csv_enc. reflexivity. Qed.
Lemma exec_csv_16 : forall ctx, exec_csv ctx [16] = csv_sat ctx 16.
Proof. intro. rewrite <- enc_16. apply exec_csv_enc. reflexivity. Qed.

Ltac len_ok := first [ assumption | lia | (cbn [blen length]; lia) |
  match goal with H : blen ?k = _ |- blen ?k <= _ => rewrite H; lia end ].

Ltac bud_ok := unfold tap_budget, wit_size; cbn [fold_right]; lia.
Ltac nonnil := match goal with H : blen ?k = _ |- is_nil ?k = false =>
  destruct k; [cbn in H; lia | reflexivity] end.

Ltac wit_ok := repeat (apply Forall_cons; [cbn beta; first [len_ok | (vm_compute; discriminate)]|]); apply Forall_nil.

Ltac scbn :=
  cbn [step exec skip executing push set_stk stk cnd budget verify_top of_bool
       pop_if_bool N.eqb Pos.eqb is_nil negb andb orb as_bool];
  unfold set_stk, push;
  cbn [stk cnd budget].

Ltac srw :=
  repeat first
   [ rewrite bytes_eqb_refl
   | match goal with |- context [bytes_eqb ?a ?b] =>
       let v := eval vm_compute in (bytes_eqb a b) in
       match v with
       | true => change (bytes_eqb a b) with true
       | false => change (bytes_eqb a b) with false
       end
     end
   | rewrite exec_csv_1
   | rewrite exec_csv_16
   | rewrite exec_csv_enc by assumption
   | rewrite exec_cltv_enc by assumption
   | progress rewrite ?enc_0, ?enc_1, ?enc_2, ?enc_16, ?enc_32, ?blen_nil
   | match goal with
     | H : verify ?sc ?k ?s = true |- context [checksig ?sc SegV0 ?k ?s ?b] =>
       rewrite (checksig_v0_valid sc k s b H)
     | H : verify ?sc ?k ?s = true |- context [checksig ?sc Tapscript ?k ?s ?b] =>
       rewrite (checksig_tap_valid sc k s b H) by (first [assumption | lia | bud_ok | nonnil])
     | H1 : verify ?sc ?k1 ?s1 = true, H2 : verify ?sc ?k2 ?s2 = true
       |- context [checkmultisig ?sc SegV0 ([2] :: ?k2 :: ?k1 :: [2] :: ?s2 :: ?s1 :: [] :: ?rest)] =>
       rewrite (checkmultisig_2of2 sc k1 k2 s1 s2 rest H1 H2)
     | H : checksig ?sc ?v ?k ?s ?b = _ |- context [checksig ?sc ?v ?k ?s ?b] => rewrite H
     | H : blen ?p = _ |- context [blen ?p] => rewrite H
     | H : ?x = true |- context [?x] => rewrite H
     | H : ?x = false |- context [?x] => rewrite H
     end ].

Ltac solve_step :=
  first
  [ apply step_push_data; [reflexivity | len_ok]
  | apply step_push_data_skip; [reflexivity | len_ok]
  | apply step_push_num; [reflexivity | assumption]
  | apply step_push_num_skip; reflexivity
  | repeat (scbn; srw); reflexivity ].

Ltac solve_fail := repeat (scbn; srw); reflexivity.

Ltac run_step1 :=
  first [ erewrite run_cons_ok; [ | solve_step ]
        | rewrite run_cons_fail; [ | solve_fail ]
        | rewrite run_cons_unsupp; [ | solve_fail ] ];
  rewrite ?enc_0, ?enc_1, ?enc_2, ?enc_16, ?enc_32.

(* runs the script as far as the hypotheses decide; stops (leaving `run` on the
   remaining instructions) at the first step they do not decide *)
Ltac run_steps :=
  repeat run_step1;
  lazymatch goal with
  | |- context [run _ _ _ _ (_ :: _) _] => idtac
  | |- _ => cbn [run]
  end.

