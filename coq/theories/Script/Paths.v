(* One lemma per (script template, spend path): the witness stack built by the
   regenerated *Spend* function, evaluated against the regenerated script
   template, is accepted (resp. rejected).  Stated on the raw templates with the
   hash relations as explicit hypotheses; Props.v instantiates them through the
   regenerated `_of` wrappers. *)
From Coq Require Import List NArith ZArith Bool Lia.
From LV Require Import Script.Interp Script.Parse Script.Witness Gen.GenScripts Script.Spend Script.Proofs.
Import ListNotations.
Local Open Scope N_scope.

Ltac p2wsh_go Hp :=
  unfold spend_p2wsh; cbn [split_last rev app]; rewrite Hp;
  rewrite accepts_eq by wit_ok; cbn [rev app].

Ltac tap_go Hp :=
  unfold spend_tapleaf; cbn [split_last rev app]; rewrite Hp;
  rewrite accepts_eq by wit_ok; cbn [rev app].

Ltac fin := scbn; first [reflexivity | assumption | (srw; reflexivity)].

Section Paths.
  Variable h : bytes -> bytes.
  Variable sc : bytes -> bytes -> sigres.

  (* ================= to_local (CommitScriptToSelf) ================= *)
  Lemma to_local_revoke : forall ctx csv selfkey revkey sig ws,
    key33 revkey -> key33 selfkey -> u32 csv -> elem_ok sig ->
    parse_script ws = Some (commit_script_to_self revkey csv selfkey) ->
    verify sc revkey sig = true ->
    spend_p2wsh h sc ctx (commit_spend_revoke sig ws) = true.
  Proof.
    unfold key33, u32, elem_ok. intros ctx csv selfkey revkey sig ws Hr Hs Hc Hsig Hp Hv.
    unfold commit_spend_revoke. p2wsh_go Hp. unfold commit_script_to_self. run_steps. fin.
  Qed.

  Lemma to_local_timeout : forall ctx csv selfkey revkey sig ws,
    key33 revkey -> key33 selfkey -> u32 csv -> elem_ok sig ->
    parse_script ws = Some (commit_script_to_self revkey csv selfkey) ->
    verify sc selfkey sig = true -> csv_sat ctx csv = true ->
    spend_p2wsh h sc ctx (commit_spend_timeout sig ws) = true.
  Proof.
    unfold key33, u32, elem_ok. intros ctx csv selfkey revkey sig ws Hr Hs Hc Hsig Hp Hv Hcsv.
    unfold commit_spend_timeout. p2wsh_go Hp. unfold commit_script_to_self. run_steps. fin.
  Qed.

  Lemma to_local_revoke_needs_key : forall ctx csv selfkey revkey sig ws,
    key33 revkey -> key33 selfkey -> u32 csv -> elem_ok sig ->
    parse_script ws = Some (commit_script_to_self revkey csv selfkey) ->
    spend_p2wsh h sc ctx (commit_spend_revoke sig ws) = true ->
    verify sc revkey sig = true.
  Proof.
    unfold key33, u32, elem_ok. intros ctx csv selfkey revkey sig ws Hr Hs Hc Hsig Hp.
    unfold commit_spend_revoke. p2wsh_go Hp. unfold commit_script_to_self.
    destruct (checksig sc SegV0 revkey sig 0) as [[|] bud| |] eqn:E; run_steps; scbn; try discriminate.
    intros _. eapply checksig_v0_true_inv; exact E.
  Qed.

  (* ================= lease to_local ================= *)
  Lemma lease_to_local_revoke : forall ctx csv lease selfkey revkey sig ws,
    key33 revkey -> key33 selfkey -> u32 csv -> u32 lease -> elem_ok sig ->
    parse_script ws = Some (lease_commit_script_to_self revkey lease csv selfkey) ->
    verify sc revkey sig = true ->
    spend_p2wsh h sc ctx (commit_spend_revoke sig ws) = true.
  Proof.
    unfold key33, u32, elem_ok. intros ctx csv lease selfkey revkey sig ws Hr Hs Hc Hl Hsig Hp Hv.
    unfold commit_spend_revoke. p2wsh_go Hp. unfold lease_commit_script_to_self. run_steps. fin.
  Qed.

  Lemma lease_to_local_timeout : forall ctx csv lease selfkey revkey sig ws,
    key33 revkey -> key33 selfkey -> u32 csv -> u32 lease -> elem_ok sig ->
    parse_script ws = Some (lease_commit_script_to_self revkey lease csv selfkey) ->
    verify sc selfkey sig = true -> csv_sat ctx csv = true -> cltv_sat ctx lease = true ->
    spend_p2wsh h sc ctx (commit_spend_timeout sig ws) = true.
  Proof.
    unfold key33, u32, elem_ok. intros ctx csv lease selfkey revkey sig ws Hr Hs Hc Hl Hsig Hp Hv Hcsv Hcltv.
    unfold commit_spend_timeout. p2wsh_go Hp. unfold lease_commit_script_to_self. run_steps. fin.
  Qed.

  Lemma lease_to_local_revoke_needs_key : forall ctx csv lease selfkey revkey sig ws,
    key33 revkey -> key33 selfkey -> u32 csv -> u32 lease -> elem_ok sig ->
    parse_script ws = Some (lease_commit_script_to_self revkey lease csv selfkey) ->
    spend_p2wsh h sc ctx (commit_spend_revoke sig ws) = true ->
    verify sc revkey sig = true.
  Proof.
    unfold key33, u32, elem_ok. intros ctx csv lease selfkey revkey sig ws Hr Hs Hc Hl Hsig Hp.
    unfold commit_spend_revoke. p2wsh_go Hp. unfold lease_commit_script_to_self.
    destruct (checksig sc SegV0 revkey sig 0) as [[|] bud| |] eqn:E; run_steps; scbn; try discriminate.
    intros _. eapply checksig_v0_true_inv; exact E.
  Qed.

  (* ================= second-level HTLC output ================= *)
  Lemma second_level_revoke : forall ctx csv delaykey revkey sig ws,
    key33 revkey -> key33 delaykey -> u32 csv -> elem_ok sig ->
    parse_script ws = Some (second_level_htlc_script revkey csv delaykey) ->
    verify sc revkey sig = true ->
    spend_p2wsh h sc ctx (htlc_spend_revoke sig ws) = true.
  Proof.
    unfold key33, u32, elem_ok. intros ctx csv delaykey revkey sig ws Hr Hs Hc Hsig Hp Hv.
    unfold htlc_spend_revoke. p2wsh_go Hp. unfold second_level_htlc_script. run_steps. fin.
  Qed.

  Lemma second_level_revoke_needs_key : forall ctx csv delaykey revkey sig ws,
    key33 revkey -> key33 delaykey -> u32 csv -> elem_ok sig ->
    parse_script ws = Some (second_level_htlc_script revkey csv delaykey) ->
    spend_p2wsh h sc ctx (htlc_spend_revoke sig ws) = true ->
    verify sc revkey sig = true.
  Proof.
    unfold key33, u32, elem_ok. intros ctx csv delaykey revkey sig ws Hr Hs Hc Hsig Hp.
    unfold htlc_spend_revoke. p2wsh_go Hp. unfold second_level_htlc_script.
    destruct (checksig sc SegV0 revkey sig 0) as [[|] bud| |] eqn:E; run_steps; scbn; try discriminate.
    intros _. eapply checksig_v0_true_inv; exact E.
  Qed.

  (* sweep after the CSV delay; HtlcSpendSuccess and HtlcSecondLevelSpend build the same stack *)
  Lemma second_level_delay : forall ctx csv delaykey revkey sig ws,
    key33 revkey -> key33 delaykey -> u32 csv -> elem_ok sig ->
    parse_script ws = Some (second_level_htlc_script revkey csv delaykey) ->
    verify sc delaykey sig = true -> csv_sat ctx csv = true ->
    spend_p2wsh h sc ctx (htlc_spend_success sig ws) = true /\
    spend_p2wsh h sc ctx (htlc_second_level_spend sig ws) = true.
  Proof.
    unfold key33, u32, elem_ok. intros ctx csv delaykey revkey sig ws Hr Hs Hc Hsig Hp Hv Hcsv.
    unfold htlc_spend_success, htlc_second_level_spend.
    assert (G : spend_p2wsh h sc ctx [sig; []; ws] = true).
    { p2wsh_go Hp. unfold second_level_htlc_script. run_steps. fin. }
    split; exact G.
  Qed.

  Lemma lease_second_level_revoke : forall ctx csv cltv delaykey revkey sig ws,
    key33 revkey -> key33 delaykey -> u32 csv -> u32 cltv -> elem_ok sig ->
    parse_script ws = Some (lease_second_level_htlc_script revkey cltv csv delaykey) ->
    verify sc revkey sig = true ->
    spend_p2wsh h sc ctx (htlc_spend_revoke sig ws) = true.
  Proof.
    unfold key33, u32, elem_ok. intros ctx csv cltv delaykey revkey sig ws Hr Hs Hc Hl Hsig Hp Hv.
    unfold htlc_spend_revoke. p2wsh_go Hp. unfold lease_second_level_htlc_script. run_steps. fin.
  Qed.

  Lemma lease_second_level_delay : forall ctx csv cltv delaykey revkey sig ws,
    key33 revkey -> key33 delaykey -> u32 csv -> u32 cltv -> elem_ok sig ->
    parse_script ws = Some (lease_second_level_htlc_script revkey cltv csv delaykey) ->
    verify sc delaykey sig = true -> csv_sat ctx csv = true -> cltv_sat ctx cltv = true ->
    spend_p2wsh h sc ctx (htlc_spend_success sig ws) = true /\
    spend_p2wsh h sc ctx (htlc_second_level_spend sig ws) = true.
  Proof.
    unfold key33, u32, elem_ok. intros ctx csv cltv delaykey revkey sig ws Hr Hs Hc Hl Hsig Hp Hv Hcsv Hcltv.
    unfold htlc_spend_success, htlc_second_level_spend.
    assert (G : spend_p2wsh h sc ctx [sig; []; ws] = true).
    { p2wsh_go Hp. unfold lease_second_level_htlc_script. run_steps. fin. }
    split; exact G.
  Qed.

  (* ================= offered HTLC (SenderHTLCScript) ================= *)
  Lemma offered_revoke : forall ctx confirmed rk sk ph revkey sig ws,
    key33 revkey -> key33 rk -> key33 sk -> hash20 ph -> hash20 (h revkey) -> elem_ok sig ->
    parse_script ws = Some (sender_htlc_script confirmed (h revkey) rk sk ph) ->
    verify sc revkey sig = true ->
    spend_p2wsh h sc ctx (sender_htlc_spend_revoke_with_key sig revkey ws) = true.
  Proof.
    unfold key33, hash20, elem_ok. intros ctx confirmed rk sk ph revkey sig ws L0 L1 L2 L3 L4 L5 Hp Hv.
    unfold sender_htlc_spend_revoke_with_key. p2wsh_go Hp. unfold sender_htlc_script.
    destruct confirmed; cbn [app]; run_steps; fin.
  Qed.

  (* any key k presented on the revocation branch must have signed *)
  Lemma offered_revoke_needs_key : forall ctx confirmed revhash rk sk ph k sig ws,
    key33 k -> key33 rk -> key33 sk -> hash20 ph -> hash20 revhash -> elem_ok sig ->
    parse_script ws = Some (sender_htlc_script confirmed revhash rk sk ph) ->
    h k = revhash ->
    spend_p2wsh h sc ctx (sender_htlc_spend_revoke_with_key sig k ws) = true ->
    verify sc k sig = true.
  Proof.
    unfold key33, hash20, elem_ok. intros ctx confirmed revhash rk sk ph k sig ws L0 L1 L2 L3 L4 L5 Hp Hh.
    subst revhash. unfold sender_htlc_spend_revoke_with_key. p2wsh_go Hp. unfold sender_htlc_script.
    destruct (checksig sc SegV0 k sig 0) as [[|] bud| |] eqn:E;
      destruct confirmed; cbn [app]; run_steps; scbn; try discriminate;
      intros _; eapply checksig_v0_true_inv; exact E.
  Qed.

  Lemma offered_timeout : forall ctx confirmed revhash rk sk ph rsig ssig ws,
    hash20 revhash -> key33 rk -> key33 sk -> hash20 ph -> elem_ok rsig -> elem_ok ssig ->
    parse_script ws = Some (sender_htlc_script confirmed revhash rk sk ph) ->
    revhash <> h [] ->
    verify sc rk rsig = true -> verify sc sk ssig = true ->
    (confirmed = true -> csv_sat ctx 1 = true) ->
    spend_p2wsh h sc ctx (sender_htlc_spend_timeout rsig ssig ws) = true.
  Proof.
    unfold key33, hash20, elem_ok.
    intros ctx confirmed revhash rk sk ph rsig ssig ws L1 L2 L3 L4 L5 L6 Hp Hne V1 V2 Hc.
    apply bytes_eqb_neq in Hne.
    unfold sender_htlc_spend_timeout. p2wsh_go Hp. unfold sender_htlc_script.
    destruct confirmed; [specialize (Hc eq_refl)|clear Hc]; cbn [app]; run_steps; fin.
  Qed.

  Lemma offered_redeem : forall ctx confirmed revhash rk sk p sig ws,
    hash20 revhash -> key33 rk -> key33 sk -> hash20 (h p) -> elem_ok sig -> blen p = 32 ->
    parse_script ws = Some (sender_htlc_script confirmed revhash rk sk (h p)) ->
    revhash <> h p ->
    verify sc rk sig = true ->
    (confirmed = true -> csv_sat ctx 1 = true) ->
    spend_p2wsh h sc ctx (sender_htlc_spend_redeem sig p ws) = true.
  Proof.
    unfold key33, hash20, elem_ok.
    intros ctx confirmed revhash rk sk p sig ws L1 L2 L3 L4 L5 L6 Hp Hne V1 Hc.
    apply bytes_eqb_neq in Hne.
    unfold sender_htlc_spend_redeem. p2wsh_go Hp. unfold sender_htlc_script.
    destruct confirmed; [specialize (Hc eq_refl)|clear Hc]; cbn [app]; run_steps; fin.
  Qed.

  Lemma checkmultisig_short : forall (k1 k2 s : bytes),
    checkmultisig sc SegV0 (@cons bytes [2] (k2 :: k1 :: @cons bytes [2] [s])) = None.
  Proof. intros. unfold checkmultisig, pop_int. change (scriptnum_dec 4 [2]) with (Some 2%Z). reflexivity. Qed.

  (* the success branch rejects a preimage whose hash differs *)
  Lemma offered_redeem_needs_preimage : forall ctx confirmed revhash rk sk ph p sig ws,
    hash20 revhash -> key33 rk -> key33 sk -> hash20 ph -> elem_ok sig -> elem_ok p ->
    parse_script ws = Some (sender_htlc_script confirmed revhash rk sk ph) ->
    revhash <> h p -> ph <> h p ->
    spend_p2wsh h sc ctx (sender_htlc_spend_redeem sig p ws) = false.
  Proof.
    unfold key33, hash20, elem_ok.
    intros ctx confirmed revhash rk sk ph p sig ws L1 L2 L3 L4 L5 L6 Hp Hne Hne2.
    apply bytes_eqb_neq in Hne. apply bytes_eqb_neq in Hne2.
    unfold sender_htlc_spend_redeem. p2wsh_go Hp. unfold sender_htlc_script.
    destruct (bytes_eqb [32] (scriptnum_enc (blen p))) eqn:Esz;
      destruct confirmed; cbn [app]; run_steps; try reflexivity.
    all: rewrite run_cons_fail; [reflexivity|]; scbn; rewrite checkmultisig_short; reflexivity.
  Qed.

  (* ================= received HTLC (ReceiverHTLCScript) ================= *)
  Lemma received_revoke : forall ctx confirmed sk ph rk cltv revkey sig ws,
    key33 revkey -> key33 rk -> key33 sk -> hash20 ph -> hash20 (h revkey) -> u32 cltv -> elem_ok sig ->
    parse_script ws = Some (receiver_htlc_script confirmed (h revkey) sk ph rk cltv) ->
    verify sc revkey sig = true ->
    spend_p2wsh h sc ctx (receiver_htlc_spend_revoke_with_key sig revkey ws) = true.
  Proof.
    unfold key33, hash20, u32, elem_ok. intros ctx confirmed sk ph rk cltv revkey sig ws L0 L1 L2 L3 L4 L5 L6 Hp Hv.
    unfold receiver_htlc_spend_revoke_with_key. p2wsh_go Hp. unfold receiver_htlc_script.
    destruct confirmed; cbn [app]; run_steps; fin.
  Qed.

  Lemma received_revoke_needs_key : forall ctx confirmed revhash sk ph rk cltv k sig ws,
    key33 k -> key33 rk -> key33 sk -> hash20 ph -> hash20 revhash -> u32 cltv -> elem_ok sig ->
    parse_script ws = Some (receiver_htlc_script confirmed revhash sk ph rk cltv) ->
    h k = revhash ->
    spend_p2wsh h sc ctx (receiver_htlc_spend_revoke_with_key sig k ws) = true ->
    verify sc k sig = true.
  Proof.
    unfold key33, hash20, u32, elem_ok. intros ctx confirmed revhash sk ph rk cltv k sig ws L0 L1 L2 L3 L4 L5 L6 Hp Hh.
    subst revhash. unfold receiver_htlc_spend_revoke_with_key. p2wsh_go Hp. unfold receiver_htlc_script.
    destruct (checksig sc SegV0 k sig 0) as [[|] bud| |] eqn:E;
      destruct confirmed; cbn [app]; run_steps; scbn; try discriminate;
      intros _; eapply checksig_v0_true_inv; exact E.
  Qed.

  (* HTLC-success input: both signatures and the preimage *)
  Lemma received_redeem : forall ctx confirmed revhash sk rk cltv p ssig rsig ws,
    hash20 revhash -> key33 rk -> key33 sk -> hash20 (h p) -> u32 cltv ->
    elem_ok ssig -> elem_ok rsig -> blen p = 32 ->
    parse_script ws = Some (receiver_htlc_script confirmed revhash sk (h p) rk cltv) ->
    revhash <> h p ->
    verify sc sk ssig = true -> verify sc rk rsig = true ->
    (confirmed = true -> csv_sat ctx 1 = true) ->
    spend_p2wsh h sc ctx (receiver_htlc_spend_redeem ssig rsig p ws) = true.
  Proof.
    unfold key33, hash20, u32, elem_ok.
    intros ctx confirmed revhash sk rk cltv p ssig rsig ws L1 L2 L3 L4 L5 L6 L7 L8 Hp Hne V1 V2 Hc.
    apply bytes_eqb_neq in Hne.
    unfold receiver_htlc_spend_redeem. p2wsh_go Hp. unfold receiver_htlc_script.
    destruct confirmed; [specialize (Hc eq_refl)|clear Hc]; cbn [app]; run_steps; fin.
  Qed.

  Lemma received_timeout : forall ctx confirmed revhash sk ph rk cltv sig ws,
    hash20 revhash -> key33 rk -> key33 sk -> hash20 ph -> u32 cltv -> elem_ok sig ->
    parse_script ws = Some (receiver_htlc_script confirmed revhash sk ph rk cltv) ->
    revhash <> h [] ->
    verify sc sk sig = true -> cltv_sat ctx cltv = true ->
    (confirmed = true -> csv_sat ctx 1 = true) ->
    spend_p2wsh h sc ctx (receiver_htlc_spend_timeout sig ws) = true.
  Proof.
    unfold key33, hash20, u32, elem_ok.
    intros ctx confirmed revhash sk ph rk cltv sig ws L1 L2 L3 L4 L5 L6 Hp Hne V1 Hl Hc.
    apply bytes_eqb_neq in Hne.
    unfold receiver_htlc_spend_timeout. p2wsh_go Hp. unfold receiver_htlc_script.
    destruct confirmed; [specialize (Hc eq_refl)|clear Hc]; cbn [app]; run_steps; fin.
  Qed.

  Lemma cltv_sat_early : forall ctx n, tx_locktime ctx < n -> cltv_sat ctx n = false.
  Proof.
    intros ctx n H. unfold cltv_sat, verify_locktime.
    destruct (N.leb_spec n (tx_locktime ctx)); [lia|]. now rewrite andb_false_r.
  Qed.

  (* the timeout branch rejects while nLockTime < expiry *)
  Lemma received_timeout_needs_locktime : forall ctx confirmed revhash sk ph rk cltv sig ws,
    hash20 revhash -> key33 rk -> key33 sk -> hash20 ph -> u32 cltv -> elem_ok sig ->
    parse_script ws = Some (receiver_htlc_script confirmed revhash sk ph rk cltv) ->
    revhash <> h [] ->
    tx_locktime ctx < cltv ->
    spend_p2wsh h sc ctx (receiver_htlc_spend_timeout sig ws) = false.
  Proof.
    unfold key33, hash20, u32, elem_ok.
    intros ctx confirmed revhash sk ph rk cltv sig ws L1 L2 L3 L4 L5 L6 Hp Hne Hl.
    apply bytes_eqb_neq in Hne. apply cltv_sat_early in Hl.
    unfold receiver_htlc_spend_timeout. p2wsh_go Hp. unfold receiver_htlc_script.
    destruct confirmed; cbn [app]; run_steps; reflexivity.
  Qed.

  (* HTLC-success needs the preimage *)
  Lemma received_redeem_needs_preimage : forall ctx confirmed revhash sk ph rk cltv p ssig rsig ws,
    hash20 revhash -> key33 rk -> key33 sk -> hash20 ph -> u32 cltv ->
    elem_ok ssig -> elem_ok rsig -> blen p = 32 ->
    parse_script ws = Some (receiver_htlc_script confirmed revhash sk ph rk cltv) ->
    revhash <> h p -> ph <> h p ->
    spend_p2wsh h sc ctx (receiver_htlc_spend_redeem ssig rsig p ws) = false.
  Proof.
    unfold key33, hash20, u32, elem_ok.
    intros ctx confirmed revhash sk ph rk cltv p ssig rsig ws L1 L2 L3 L4 L5 L6 L7 L8 Hp Hne Hne2.
    apply bytes_eqb_neq in Hne. apply bytes_eqb_neq in Hne2.
    unfold receiver_htlc_spend_redeem. p2wsh_go Hp. unfold receiver_htlc_script.
    destruct confirmed; cbn [app]; run_steps; reflexivity.
  Qed.

  (* ================= to_remote ================= *)
  Lemma to_remote_confirmed : forall ctx key sig ws,
    key33 key -> elem_ok sig ->
    parse_script ws = Some (commit_script_to_remote_confirmed key) ->
    verify sc key sig = true -> csv_sat ctx 1 = true ->
    spend_p2wsh h sc ctx (commit_spend_to_remote_confirmed sig ws) = true.
  Proof.
    unfold key33, elem_ok. intros ctx key sig ws L1 L2 Hp Hv Hc.
    unfold commit_spend_to_remote_confirmed. p2wsh_go Hp. unfold commit_script_to_remote_confirmed.
    run_steps. fin.
  Qed.

  Lemma lease_to_remote_confirmed : forall ctx key lease sig ws,
    key33 key -> u32 lease -> elem_ok sig ->
    parse_script ws = Some (lease_commit_script_to_remote_confirmed key lease) ->
    verify sc key sig = true -> csv_sat ctx 1 = true -> cltv_sat ctx lease = true ->
    spend_p2wsh h sc ctx (commit_spend_to_remote_confirmed sig ws) = true.
  Proof.
    unfold key33, u32, elem_ok. intros ctx key lease sig ws L1 L2 L3 Hp Hv Hc Hl.
    unfold commit_spend_to_remote_confirmed. p2wsh_go Hp. unfold lease_commit_script_to_remote_confirmed.
    run_steps. fin.
  Qed.

  (* to_remote of non-anchor channels: P2WKH *)
  Lemma to_remote_p2wkh : forall ctx (tweakless : bool) key tweaked sig,
    key33 key -> key33 tweaked -> hash20 (h (if tweakless then key else tweaked)) -> elem_ok sig ->
    verify sc (if tweakless then key else tweaked) sig = true ->
    spend_p2wkh h sc ctx (h (if tweakless then key else tweaked))
      (commit_spend_no_delay tweakless sig key tweaked) = true.
  Proof.
    unfold key33, hash20, elem_ok. intros ctx tweakless key tweaked sig L1 L2 L3 L4 Hv.
    unfold commit_spend_no_delay, spend_p2wkh.
    destruct tweakless; (rewrite accepts_eq by wit_ok); cbn [rev app]; unfold generate_p2pkh; run_steps; fin.
  Qed.

  (* ================= anchors ================= *)
  Lemma anchor_owner : forall ctx key sig ws,
    key33 key -> elem_ok sig ->
    parse_script ws = Some (commit_script_anchor key) ->
    verify sc key sig = true ->
    spend_p2wsh h sc ctx (commit_spend_anchor sig ws) = true.
  Proof.
    unfold key33, elem_ok. intros ctx key sig ws L1 L2 Hp Hv.
    unfold commit_spend_anchor. p2wsh_go Hp. unfold commit_script_anchor. run_steps. fin.
  Qed.

  Lemma checksig_v0_empty : forall k b, compressed_pk k = true ->
    checksig sc SegV0 k [] b = CsPush false b.
  Proof. intros k b H. unfold checksig. cbn [is_nil]. now rewrite H. Qed.

  Lemma anchor_anyone : forall ctx key ws,
    key33 key -> compressed_pk key = true ->
    parse_script ws = Some (commit_script_anchor key) ->
    csv_sat ctx 16 = true ->
    spend_p2wsh h sc ctx (commit_spend_anchor_anyone ws) = true.
  Proof.
    unfold key33. intros ctx key ws L1 Hk Hp Hc.
    unfold commit_spend_anchor_anyone. p2wsh_go Hp. unfold commit_script_anchor.
    pose proof (checksig_v0_empty key 0 Hk) as Hcs. run_steps. fin.
  Qed.

  (* ================= funding 2-of-2 ================= *)
  Lemma funding_multisig : forall ctx pa pb siga sigb ws,
    key33 pa -> key33 pb -> elem_ok siga -> elem_ok sigb ->
    parse_script ws = Some (gen_multi_sig_script pa pb) ->
    verify sc pa siga = true -> verify sc pb sigb = true ->
    spend_p2wsh h sc ctx [[]; siga; sigb; ws] = true.
  Proof.
    unfold key33, elem_ok. intros ctx pa pb siga sigb ws L1 L2 L3 L4 Hp V1 V2.
    p2wsh_go Hp. unfold gen_multi_sig_script. run_steps. fin.
  Qed.

  (* ================= taproot script-path leaves ================= *)
  (* Schnorr signatures are 64 or 65 bytes; only the lower bound matters for
     the sig-ops budget of the two-signature leaves *)
  Definition schnorr_len (s : bytes) : Prop := 64 <= blen s /\ blen s <= 65.

  Lemma tap_to_local_revoke : forall ctx selfkey revkey sig ls cb,
    xonly selfkey -> xonly revkey -> elem_ok sig -> elem_ok cb -> elem_ok ls ->
    parse_script ls = Some (taproot_local_commit_revoke_script selfkey revkey) ->
    verify sc revkey sig = true ->
    spend_tapleaf h sc ctx (taproot_commit_spend_revoke sig ls cb) = true.
  Proof.
    unfold xonly, elem_ok. intros ctx selfkey revkey sig ls cb L1 L2 L3 L4 L5 Hp Hv.
    unfold taproot_commit_spend_revoke. tap_go Hp. unfold taproot_local_commit_revoke_script.
    run_steps. fin.
  Qed.

  Lemma tap_to_local_revoke_needs_key : forall ctx selfkey revkey sig ls cb,
    xonly selfkey -> xonly revkey -> elem_ok sig -> elem_ok cb -> elem_ok ls ->
    parse_script ls = Some (taproot_local_commit_revoke_script selfkey revkey) ->
    spend_tapleaf h sc ctx (taproot_commit_spend_revoke sig ls cb) = true ->
    verify sc revkey sig = true.
  Proof.
    unfold xonly, elem_ok. intros ctx selfkey revkey sig ls cb L1 L2 L3 L4 L5 Hp.
    unfold taproot_commit_spend_revoke. tap_go Hp. unfold taproot_local_commit_revoke_script.
    match goal with |- context [mkSt _ _ ?b] =>
      destruct (checksig sc Tapscript revkey sig b) as [[|] bud| |] eqn:E end;
      run_steps; scbn; try discriminate.
    intros _. eapply checksig_tap_true_inv; exact E.
  Qed.

  Lemma as_bool_enc : forall n, 0 < n -> u32 n -> as_bool (scriptnum_enc n) = true.
  Proof. intros. now apply as_bool_scriptnum_enc. Qed.

  Lemma tap_to_local_delay : forall ctx (prod : bool) selfkey csv sig ls cb,
    xonly selfkey -> u32 csv -> elem_ok sig -> elem_ok cb -> elem_ok ls ->
    parse_script ls = Some (taproot_local_commit_delay_script prod selfkey csv) ->
    verify sc selfkey sig = true -> csv_sat ctx csv = true ->
    (prod = true -> 0 < csv) ->
    spend_tapleaf h sc ctx (taproot_commit_spend_success sig ls cb) = true.
  Proof.
    unfold xonly, elem_ok. intros ctx prod selfkey csv sig ls cb L1 L2 L3 L4 L5 Hp Hv Hc Hpos.
    unfold taproot_commit_spend_success. tap_go Hp. unfold taproot_local_commit_delay_script.
    destruct prod; run_steps; scbn; [apply as_bool_enc; auto|reflexivity].
  Qed.

  Lemma tap_second_level_delay : forall ctx (prod : bool) delaykey csv sig ls cb,
    xonly delaykey -> u32 csv -> elem_ok sig -> elem_ok cb -> elem_ok ls ->
    parse_script ls = Some (taproot_second_level_tap_leaf prod delaykey csv) ->
    verify sc delaykey sig = true -> csv_sat ctx csv = true ->
    (prod = true -> 0 < csv) ->
    spend_tapleaf h sc ctx (taproot_htlc_spend_success sig ls cb) = true.
  Proof.
    unfold xonly, elem_ok. intros ctx prod delaykey csv sig ls cb L1 L2 L3 L4 L5 Hp Hv Hc Hpos.
    unfold taproot_htlc_spend_success. tap_go Hp. unfold taproot_second_level_tap_leaf.
    destruct prod; run_steps; scbn; [apply as_bool_enc; auto|reflexivity].
  Qed.

  Lemma tap_to_remote : forall ctx (prod : bool) remotekey sig ls cb,
    xonly remotekey -> elem_ok sig -> elem_ok cb -> elem_ok ls ->
    parse_script ls = Some (new_remote_commit_script_tree prod remotekey) ->
    verify sc remotekey sig = true -> csv_sat ctx 1 = true ->
    spend_tapleaf h sc ctx (taproot_commit_remote_spend sig ls cb) = true.
  Proof.
    unfold xonly, elem_ok. intros ctx prod remotekey sig ls cb L1 L3 L4 L5 Hp Hv Hc.
    unfold taproot_commit_remote_spend. tap_go Hp. unfold new_remote_commit_script_tree.
    destruct prod; run_steps; fin.
  Qed.

  Lemma tap_anchor_anyone : forall ctx ls cb,
    elem_ok cb -> elem_ok ls ->
    parse_script ls = Some new_anchor_script_tree ->
    csv_sat ctx 16 = true ->
    spend_tapleaf h sc ctx (taproot_anchor_spend_any ls cb) = true.
  Proof.
    unfold elem_ok. intros ctx ls cb L4 L5 Hp Hc.
    unfold taproot_anchor_spend_any. tap_go Hp. unfold new_anchor_script_tree.
    run_steps. fin.
  Qed.

  Lemma tap_offered_timeout : forall ctx sk rk rsig ssig ls cb,
    xonly sk -> xonly rk -> schnorr_len rsig -> schnorr_len ssig -> elem_ok cb -> elem_ok ls ->
    parse_script ls = Some (sender_htlc_tap_leaf_timeout sk rk) ->
    verify sc rk rsig = true -> verify sc sk ssig = true ->
    spend_tapleaf h sc ctx (sender_htlc_script_taproot_timeout rsig ssig ls cb) = true.
  Proof.
    unfold xonly, elem_ok, schnorr_len. intros ctx sk rk rsig ssig ls cb L1 L2 [La Lb] [Lc Ld] L4 L5 Hp V1 V2.
    unfold sender_htlc_script_taproot_timeout. tap_go Hp. unfold sender_htlc_tap_leaf_timeout.
    run_steps. fin.
  Qed.

  Lemma tap_offered_redeem : forall ctx (prod : bool) rk p sig ls cb,
    xonly rk -> hash20 (h p) -> blen p = 32 -> elem_ok sig -> elem_ok cb -> elem_ok ls ->
    parse_script ls = Some (sender_htlc_tap_leaf_success prod (h p) rk) ->
    verify sc rk sig = true -> csv_sat ctx 1 = true ->
    spend_tapleaf h sc ctx (sender_htlc_script_taproot_redeem sig p ls cb) = true.
  Proof.
    unfold xonly, hash20, elem_ok. intros ctx prod rk p sig ls cb L1 L2 L3 L4 L5 L6 Hp Hv Hc.
    unfold sender_htlc_script_taproot_redeem. tap_go Hp. unfold sender_htlc_tap_leaf_success.
    destruct prod; run_steps; fin.
  Qed.

  Lemma tap_offered_redeem_needs_preimage : forall ctx (prod : bool) rk ph p sig ls cb,
    xonly rk -> hash20 ph -> elem_ok p -> elem_ok sig -> elem_ok cb -> elem_ok ls ->
    parse_script ls = Some (sender_htlc_tap_leaf_success prod ph rk) ->
    ph <> h p ->
    spend_tapleaf h sc ctx (sender_htlc_script_taproot_redeem sig p ls cb) = false.
  Proof.
    unfold xonly, hash20, elem_ok. intros ctx prod rk ph p sig ls cb L1 L2 L3 L4 L5 L6 Hp Hne.
    apply bytes_eqb_neq in Hne.
    unfold sender_htlc_script_taproot_redeem. tap_go Hp. unfold sender_htlc_tap_leaf_success.
    destruct (bytes_eqb [32] (scriptnum_enc (blen p))) eqn:Esz; destruct prod; run_steps; reflexivity.
  Qed.

  Lemma tap_received_timeout : forall ctx (prod : bool) sk cltv sig ls cb,
    xonly sk -> u32 cltv -> elem_ok sig -> elem_ok cb -> elem_ok ls ->
    parse_script ls = Some (receiver_htlc_tap_leaf_timeout prod sk cltv) ->
    verify sc sk sig = true -> csv_sat ctx 1 = true -> cltv_sat ctx cltv = true ->
    (prod = true -> 0 < cltv) ->
    spend_tapleaf h sc ctx (receiver_htlc_script_taproot_timeout sig ls cb) = true.
  Proof.
    unfold xonly, elem_ok. intros ctx prod sk cltv sig ls cb L1 L2 L3 L4 L5 Hp Hv Hc Hl Hpos.
    unfold receiver_htlc_script_taproot_timeout. tap_go Hp. unfold receiver_htlc_tap_leaf_timeout.
    destruct prod; run_steps; scbn; [apply as_bool_enc; auto|reflexivity].
  Qed.

  Lemma tap_received_redeem : forall ctx rk sk p ssig rsig ls cb,
    xonly sk -> xonly rk -> hash20 (h p) -> blen p = 32 ->
    schnorr_len ssig -> schnorr_len rsig -> elem_ok cb -> elem_ok ls ->
    parse_script ls = Some (receiver_htlc_tap_leaf_success (h p) rk sk) ->
    verify sc sk ssig = true -> verify sc rk rsig = true ->
    spend_tapleaf h sc ctx (receiver_htlc_script_taproot_redeem ssig rsig p ls cb) = true.
  Proof.
    unfold xonly, hash20, elem_ok, schnorr_len.
    intros ctx rk sk p ssig rsig ls cb L1 L2 L3 L3' [La Lb] [Lc Ld] L4 L5 Hp V1 V2.
    unfold receiver_htlc_script_taproot_redeem. tap_go Hp. unfold receiver_htlc_tap_leaf_success.
    run_steps. fin.
  Qed.

  (* ================= the relative delay is enforced ================= *)
  Ltac need_csv E := destruct E; [reflexivity|exfalso].

  Lemma to_local_timeout_needs_csv : forall ctx csv selfkey revkey sig ws,
    key33 revkey -> key33 selfkey -> u32 csv -> elem_ok sig ->
    parse_script ws = Some (commit_script_to_self revkey csv selfkey) ->
    spend_p2wsh h sc ctx (commit_spend_timeout sig ws) = true -> csv_sat ctx csv = true.
  Proof.
    unfold key33, u32, elem_ok. intros ctx csv selfkey revkey sig ws Hr Hs Hc Hsig Hp.
    destruct (csv_sat ctx csv) eqn:E; [reflexivity|].
    unfold commit_spend_timeout. p2wsh_go Hp. unfold commit_script_to_self. run_steps. discriminate.
  Qed.

  Lemma lease_to_local_timeout_needs_csv : forall ctx csv lease selfkey revkey sig ws,
    key33 revkey -> key33 selfkey -> u32 csv -> u32 lease -> elem_ok sig ->
    parse_script ws = Some (lease_commit_script_to_self revkey lease csv selfkey) ->
    spend_p2wsh h sc ctx (commit_spend_timeout sig ws) = true ->
    csv_sat ctx csv = true /\ cltv_sat ctx lease = true.
  Proof.
    unfold key33, u32, elem_ok. intros ctx csv lease selfkey revkey sig ws Hr Hs Hc Hl Hsig Hp.
    destruct (cltv_sat ctx lease) eqn:E2; destruct (csv_sat ctx csv) eqn:E; [split; reflexivity| | |];
      unfold commit_spend_timeout; p2wsh_go Hp; unfold lease_commit_script_to_self; run_steps; discriminate.
  Qed.

  Lemma second_level_delay_needs_csv : forall ctx csv delaykey revkey sig ws,
    key33 revkey -> key33 delaykey -> u32 csv -> elem_ok sig ->
    parse_script ws = Some (second_level_htlc_script revkey csv delaykey) ->
    spend_p2wsh h sc ctx (htlc_second_level_spend sig ws) = true -> csv_sat ctx csv = true.
  Proof.
    unfold key33, u32, elem_ok. intros ctx csv delaykey revkey sig ws Hr Hs Hc Hsig Hp.
    destruct (csv_sat ctx csv) eqn:E; [reflexivity|].
    unfold htlc_second_level_spend. p2wsh_go Hp. unfold second_level_htlc_script. run_steps. discriminate.
  Qed.

  Lemma to_remote_confirmed_needs_csv : forall ctx key sig ws,
    key33 key -> elem_ok sig ->
    parse_script ws = Some (commit_script_to_remote_confirmed key) ->
    spend_p2wsh h sc ctx (commit_spend_to_remote_confirmed sig ws) = true -> csv_sat ctx 1 = true.
  Proof.
    unfold key33, elem_ok. intros ctx key sig ws L1 L2 Hp.
    destruct (csv_sat ctx 1) eqn:E; [reflexivity|].
    unfold commit_spend_to_remote_confirmed. p2wsh_go Hp. unfold commit_script_to_remote_confirmed.
    destruct (checksig sc SegV0 key sig 0) as [[|] bud| |] eqn:Ec; run_steps; discriminate.
  Qed.

  (* confirmedSpend = true: the 1-block CSV guards every non-revocation path of the HTLC scripts *)
  Lemma offered_redeem_confirmed_needs_csv : forall ctx revhash rk sk p sig ws,
    hash20 revhash -> key33 rk -> key33 sk -> hash20 (h p) -> elem_ok sig -> blen p = 32 ->
    parse_script ws = Some (sender_htlc_script true revhash rk sk (h p)) ->
    revhash <> h p ->
    spend_p2wsh h sc ctx (sender_htlc_spend_redeem sig p ws) = true -> csv_sat ctx 1 = true.
  Proof.
    unfold key33, hash20, elem_ok. intros ctx revhash rk sk p sig ws L1 L2 L3 L4 L5 L6 Hp Hne.
    apply bytes_eqb_neq in Hne. destruct (csv_sat ctx 1) eqn:E; [reflexivity|].
    unfold sender_htlc_spend_redeem. p2wsh_go Hp. unfold sender_htlc_script. cbn [app].
    destruct (checksig sc SegV0 rk sig 0) as [[|] bud| |] eqn:Ec; run_steps; discriminate.
  Qed.

  Lemma received_timeout_confirmed_needs_csv : forall ctx revhash sk ph rk cltv sig ws,
    hash20 revhash -> key33 rk -> key33 sk -> hash20 ph -> u32 cltv -> elem_ok sig ->
    parse_script ws = Some (receiver_htlc_script true revhash sk ph rk cltv) ->
    revhash <> h [] ->
    spend_p2wsh h sc ctx (receiver_htlc_spend_timeout sig ws) = true -> csv_sat ctx 1 = true.
  Proof.
    unfold key33, hash20, u32, elem_ok. intros ctx revhash sk ph rk cltv sig ws L1 L2 L3 L4 L5 L6 Hp Hne.
    apply bytes_eqb_neq in Hne. destruct (csv_sat ctx 1) eqn:E; [reflexivity|].
    unfold receiver_htlc_spend_timeout. p2wsh_go Hp. unfold receiver_htlc_script. cbn [app].
    destruct (cltv_sat ctx cltv) eqn:El;
      destruct (checksig sc SegV0 sk sig 0) as [[|] bud| |] eqn:Ec; run_steps; discriminate.
  Qed.

  Lemma tap_to_local_delay_needs_csv : forall ctx (prod : bool) selfkey csv sig ls cb,
    xonly selfkey -> u32 csv -> elem_ok sig -> elem_ok cb -> elem_ok ls ->
    parse_script ls = Some (taproot_local_commit_delay_script prod selfkey csv) ->
    spend_tapleaf h sc ctx (taproot_commit_spend_success sig ls cb) = true -> csv_sat ctx csv = true.
  Proof.
    unfold xonly, elem_ok. intros ctx prod selfkey csv sig ls cb L1 L2 L3 L4 L5 Hp.
    destruct (csv_sat ctx csv) eqn:E; [reflexivity|].
    unfold taproot_commit_spend_success. tap_go Hp. unfold taproot_local_commit_delay_script.
    match goal with |- context [mkSt _ _ ?b] =>
      destruct (checksig sc Tapscript selfkey sig b) as [[|] bud| |] eqn:Ec end;
      destruct prod; run_steps; discriminate.
  Qed.

  Lemma tap_second_level_delay_needs_csv : forall ctx (prod : bool) delaykey csv sig ls cb,
    xonly delaykey -> u32 csv -> elem_ok sig -> elem_ok cb -> elem_ok ls ->
    parse_script ls = Some (taproot_second_level_tap_leaf prod delaykey csv) ->
    spend_tapleaf h sc ctx (taproot_htlc_spend_success sig ls cb) = true -> csv_sat ctx csv = true.
  Proof.
    unfold xonly, elem_ok. intros ctx prod delaykey csv sig ls cb L1 L2 L3 L4 L5 Hp.
    destruct (csv_sat ctx csv) eqn:E; [reflexivity|].
    unfold taproot_htlc_spend_success. tap_go Hp. unfold taproot_second_level_tap_leaf.
    match goal with |- context [mkSt _ _ ?b] =>
      destruct (checksig sc Tapscript delaykey sig b) as [[|] bud| |] eqn:Ec end;
      destruct prod; run_steps; discriminate.
  Qed.
End Paths.
