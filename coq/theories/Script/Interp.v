(* Bitcoin script interpreter for the opcode subset used by the BOLT-3 scripts
   of lnd (input/script_utils.go), mirroring btcd txscript/v2 `Engine` run with
   txscript.StandardVerifyFlags on a witness-v0 (P2WSH / P2WKH) script or a
   tapscript leaf.  Executable definitions only (no proofs).

   What is mirrored (file/func of btcd txscript/v2@v2.0.0):
   - executeOpcode: push-size limit (520) checked even in non-executed branches,
     MINIMALDATA on executed pushes, conditional stack with Skip entries;
   - popIfBool: MINIMALIF (v0 with the flag, always in tapscript);
   - opcodeCheckSig: v0: empty sig -> pubkey-type check then push false;
     encoding errors abort; pubkey/DER *parse* failures push false (btcd quirk:
     no NULLFAIL there); invalid non-empty sig aborts (NULLFAIL);
     tapscript: empty pubkey aborts, empty sig pushes empty, sig-ops budget,
     anything but a valid signature aborts;
   - opcodeCheckMultiSig: general m-of-n loop, NULLDUMMY, NULLFAIL; disabled in
     tapscript;
   - opcodeCheckLockTimeVerify / opcodeCheckSequenceVerify / verifyLockTime:
     5-byte minimally encoded operand, type-flag comparison, disabled bit,
     tx version >= 2, final-sequence rule;
   - CheckErrorCondition: clean stack (exactly one element) and final true;
     Step: unbalanced conditional at the end of the script.
   Not modelled (resource limits that BOLT-3 scripts never approach): 201
   non-push opcodes, 10000-byte script size, 1000 stack elements.  Opcodes
   outside the subset parse to [IOther] and make the run [Unsupp] (never a
   silent accept/reject); the correspondence check reports that separately.

   Crypto is symbolic: [hash160] and [sigcheck] are Section variables.
   [sigcheck pk sig] classifies what the engine's signature machinery does with
   a NON-EMPTY signature [sig] against public key [pk] in the spending
   transaction context (sighash over the real tx is inside the oracle). *)
From Coq Require Import List NArith ZArith Bool.
Import ListNotations.
Local Open Scope N_scope.

Definition bytes := list N.
(* types of template parameters in Gen/GenScripts.v *)
Definition data := bytes.
Definition num := N.

Fixpoint bytes_eqb (a b : bytes) : bool :=
  match a, b with
  | [], [] => true
  | x :: a', y :: b' => N.eqb x y && bytes_eqb a' b'
  | _, _ => false
  end.

Definition is_nil (b : bytes) : bool := match b with [] => true | _ => false end.

Definition blen (b : bytes) : N := N.of_nat (length b).

(* ---- script numbers (scriptnum.go) ---- *)

(* scriptNum.Bytes() of a non-negative number: little endian, a 0x00 byte
   appended when the top bit of the last byte would read as a sign *)
Fixpoint sn_enc (fuel : nat) (n : N) : bytes :=
  match fuel with
  | O => []
  | S f =>
    if n =? 0 then []
    else if n <? 128 then [n]
    else if n <? 256 then [n; 0]
    else (n mod 256) :: sn_enc f (n / 256)
  end.

Definition scriptnum_enc (n : N) : bytes := sn_enc 9 n.

Fixpoint le_val (bs : bytes) : N :=
  match bs with [] => 0 | b :: r => b + 256 * le_val r end.

(* checkMinimalDataEncoding: the last byte may be 0x00/0x80 only if the byte
   before it has its top bit set *)
Fixpoint minimal_num (bs : bytes) : bool :=
  match bs with
  | [] => true
  | [l] => negb (l mod 128 =? 0)
  | [p; l] => if l mod 128 =? 0 then 128 <=? p else true
  | _ :: r => minimal_num r
  end.

(* MakeScriptNum(v, requireMinimal = true, maxlen) *)
Definition scriptnum_dec (maxlen : nat) (bs : bytes) : option Z :=
  if Nat.ltb maxlen (length bs) then None
  else if negb (minimal_num bs) then None
  else if 128 <=? last bs 0
       then Some (- Z.of_N (le_val bs - 128 * 256 ^ (blen bs - 1)))%Z
       else Some (Z.of_N (le_val bs)).

(* stack.go asBool *)
Fixpoint as_bool (b : bytes) : bool :=
  match b with
  | [] => false
  | [x] => negb (x =? 0) && negb (x =? 128)
  | x :: r => negb (x =? 0) || as_bool r
  end.

Definition of_bool (b : bool) : bytes := if b then [1] else [].

(* ---- instructions ---- *)

Inductive instr :=
| IPush (d : bytes)      (* OP_DATA_1..75 / OP_PUSHDATA1/2/4, minimally chosen for d *)
| INum (n : N)           (* OP_0 (n = 0) and OP_1 .. OP_16 *)
| I1Negate
| IDup | IDrop | ISwap | ISize | IIfDup
| IEqual | IEqualVerify | IVerify
| IIf | INotIf | IElse | IEndIf
| IHash160
| ICheckSig | ICheckSigVerify | ICheckMultiSig | ICheckMultiSigVerify
| ICLTV | ICSV
| IOther (opcode : N).   (* any other opcode byte: outside the modelled subset *)

(* checkMinimalDataPush for a direct data push of d *)
Definition minimal_push (d : bytes) : bool :=
  match d with
  | [] => false
  | [x] => negb ((1 <=? x) && (x <=? 16)) && negb (x =? 129)
  | _ => true
  end.

(* ScriptBuilder.AddData (canonical push of a byte string) *)
Definition push_data (d : data) : instr :=
  match d with
  | [] => INum 0
  | [x] => if (1 <=? x) && (x <=? 16) then INum x
           else if x =? 129 then I1Negate else IPush d
  | _ => IPush d
  end.

(* ScriptBuilder.AddInt64 of a non-negative number *)
Definition push_num (n : num) : instr :=
  if n <=? 16 then INum n else IPush (scriptnum_enc n).

(* ---- machine ---- *)

Inductive sver := SegV0 | Tapscript.

(* tx_version is uint32(tx.Version) *)
Record txctx := mkCtx { tx_version : N; tx_locktime : N; in_sequence : N }.

Inductive sigres :=
| SigValid      (* encodings fine and the signature verifies *)
| SigInvalid    (* well-formed, parses, does not verify *)
| SigSoft       (* passes the encoding checks but pubkey/sig fails to parse *)
| SigEncErr     (* hash type / DER / low-S / pubkey type error *)
| SigUnknown.   (* not classified by the oracle: makes the run Unsupp *)

Inductive cond := CTrue | CFalse | CSkip.

Record state := mkSt { stk : list bytes; cnd : list cond; budget : Z }.

Inductive outcome := Ok (s : state) | Fail | Unsupp.

Definition max_elem : N := 520.
Definition locktime_threshold : N := 500000000.
Definition max_sequence : N := 4294967295.
Definition seq_type_flag : N := 4194304.        (* wire.SequenceLockTimeIsSeconds, 1<<22 *)

(* x & (SequenceLockTimeIsSeconds | SequenceLockTimeMask), written arithmetically *)
Definition seq_masked (x : N) : N := x mod 65536 + seq_type_flag * ((x / seq_type_flag) mod 2).
(* x & SequenceLockTimeDisabled (1<<31) != 0 *)
Definition seq_disabled (x : N) : bool := (x / 2147483648) mod 2 =? 1.

(* verifyLockTime *)
Definition verify_locktime (txlt threshold lt : N) : bool :=
  (((txlt <? threshold) && (lt <? threshold)) || ((threshold <=? txlt) && (threshold <=? lt)))
  && (lt <=? txlt).

Definition compressed_pk (k : bytes) : bool :=
  match k with
  | h :: _ => Nat.eqb (length k) 33 && ((h =? 2) || (h =? 3))
  | [] => false
  end.

Section Interp.
  Variable hash160 : bytes -> bytes.
  Variable sigcheck : bytes -> bytes -> sigres.
  Variable ver : sver.
  Variable ctx : txctx.

  Definition executing (s : state) : bool :=
    match cnd s with [] => true | CTrue :: _ => true | _ => false end.

  Definition set_stk (s : state) (st : list bytes) : outcome := Ok (mkSt st (cnd s) (budget s)).
  Definition push (s : state) (b : bytes) : outcome := set_stk s (b :: stk s).

  (* BIP-65 rule on a decoded non-negative operand *)
  Definition cltv_sat (lt : N) : bool :=
    verify_locktime (tx_locktime ctx) locktime_threshold lt
    && negb (in_sequence ctx =? max_sequence).

  (* BIP-112 rule on a decoded non-negative operand *)
  Definition csv_sat (s : N) : bool :=
    if seq_disabled s then true
    else if tx_version ctx <? 2 then false
    else if seq_disabled (in_sequence ctx) then false
    else verify_locktime (seq_masked (in_sequence ctx)) seq_type_flag (seq_masked s).

  Definition exec_cltv (top : bytes) : bool :=
    match scriptnum_dec 5 top with
    | None => false
    | Some z => if (z <? 0)%Z then false else cltv_sat (Z.to_N z)
    end.

  Definition exec_csv (top : bytes) : bool :=
    match scriptnum_dec 5 top with
    | None => false
    | Some z => if (z <? 0)%Z then false else csv_sat (Z.to_N z)
    end.

  (* result of OP_CHECKSIG on (pk, sig): Some (Some b) = push b (as of_bool,
     or the empty vector), Some None = abort, None = oracle gap *)
  Inductive csres := CsPush (b : bool) (bud : Z) | CsFail | CsUnsupp.

  Definition checksig (pk sg : bytes) (bud : Z) : csres :=
    match ver with
    | SegV0 =>
      if is_nil sg then (if compressed_pk pk then CsPush false bud else CsFail)
      else match sigcheck pk sg with
           | SigValid => CsPush true bud
           | SigSoft => CsPush false bud
           | SigUnknown => CsUnsupp
           | _ => CsFail
           end
    | Tapscript =>
      if is_nil pk then CsFail
      else if is_nil sg then CsPush false bud
      else
        let bud' := (bud - 50)%Z in
        if (bud' <? 0)%Z then CsFail
        else match sigcheck pk sg with
             | SigValid => CsPush true bud'
             | SigUnknown => CsUnsupp
             | _ => CsFail
             end
    end.

  (* the signature/pubkey matching loop of opcodeCheckMultiSig; lists are in
     pop order (top of stack first).  None = abort, Some b = success flag *)
  Inductive msres := MsOk (b : bool) | MsFail | MsUnsupp.

  Fixpoint msig_loop (pks sigs : list bytes) : msres :=
    match sigs with
    | [] => MsOk true
    | sg :: sr =>
      match pks with
      | [] => MsOk false
      | k :: kr =>
        if Nat.ltb (length pks) (length sigs) then MsOk false
        else if is_nil sg then msig_loop kr sigs
        else match sigcheck k sg with
             | SigValid => msig_loop kr sr
             | SigEncErr => MsFail
             | SigUnknown => MsUnsupp
             | _ => msig_loop kr sigs
             end
      end
    end.

  Fixpoint take (n : nat) (l : list bytes) : option (list bytes * list bytes) :=
    match n with
    | O => Some ([], l)
    | S p => match l with
             | [] => None
             | x :: r => match take p r with
                         | Some (a, b) => Some (x :: a, b)
                         | None => None
                         end
             end
    end.

  (* PopInt: 4-byte minimally encoded number *)
  Definition pop_int (l : list bytes) : option (Z * list bytes) :=
    match l with
    | [] => None
    | x :: r => match scriptnum_dec 4 x with Some z => Some (z, r) | None => None end
    end.

  Definition checkmultisig (st : list bytes) : option (msres * list bytes) :=
    match ver with
    | Tapscript => None
    | SegV0 =>
      match pop_int st with
      | None => None
      | Some (nk, st1) =>
        if ((nk <? 0) || (20 <? nk))%Z then None else
        match take (Z.to_nat nk) st1 with
        | None => None
        | Some (pks, st2) =>
          match pop_int st2 with
          | None => None
          | Some (ns, st3) =>
            if ((ns <? 0) || (nk <? ns))%Z then None else
            match take (Z.to_nat ns) st3 with
            | None => None
            | Some (sigs, st4) =>
              match st4 with
              | [] => None
              | dummy :: st5 =>
                if negb (is_nil dummy) then None
                else
                  match msig_loop pks sigs with
                  | MsOk true => Some (MsOk true, st5)
                  | MsOk false =>
                    if forallb is_nil sigs then Some (MsOk false, st5) else None
                  | r => Some (r, st5)
                  end
              end
            end
          end
        end
      end
    end.

  (* MINIMALIF: v0 (flag set in StandardVerifyFlags) and tapscript alike *)
  Definition pop_if_bool (b : bytes) : option bool :=
    match b with
    | [] => Some false
    | [x] => if x =? 1 then Some true else None
    | _ => None
    end.

  Definition verify_top (s : state) (st : list bytes) : outcome :=
    match st with
    | [] => Fail
    | x :: r => if as_bool x then set_stk s r else Fail
    end.

  Definition exec (i : instr) (s : state) : outcome :=
    let st := stk s in
    match i with
    | IPush d => if minimal_push d then push s d else Fail
    | INum n => push s (scriptnum_enc n)
    | I1Negate => push s [129]
    | IDup => match st with x :: _ => push s x | [] => Fail end
    | IDrop => match st with _ :: r => set_stk s r | [] => Fail end
    | ISwap => match st with a :: b :: r => set_stk s (b :: a :: r) | _ => Fail end
    | ISize => match st with x :: _ => push s (scriptnum_enc (blen x)) | [] => Fail end
    | IIfDup => match st with x :: _ => if as_bool x then push s x else Ok s | [] => Fail end
    | IEqual => match st with a :: b :: r => set_stk s (of_bool (bytes_eqb a b) :: r) | _ => Fail end
    | IEqualVerify => match st with a :: b :: r => if bytes_eqb a b then set_stk s r else Fail | _ => Fail end
    | IVerify => verify_top s st
    | IHash160 => match st with x :: r => set_stk s (hash160 x :: r) | [] => Fail end
    | ICheckSig =>
      match st with
      | pk :: sg :: r =>
        match checksig pk sg (budget s) with
        | CsPush b bud => Ok (mkSt (of_bool b :: r) (cnd s) bud)
        | CsFail => Fail
        | CsUnsupp => Unsupp
        end
      | _ => Fail
      end
    | ICheckSigVerify =>
      match st with
      | pk :: sg :: r =>
        match checksig pk sg (budget s) with
        | CsPush true bud => Ok (mkSt r (cnd s) bud)
        | CsPush false _ => Fail
        | CsFail => Fail
        | CsUnsupp => Unsupp
        end
      | _ => Fail
      end
    | ICheckMultiSig =>
      match checkmultisig st with
      | Some (MsOk b, r) => set_stk s (of_bool b :: r)
      | Some (MsUnsupp, _) => Unsupp
      | _ => Fail
      end
    | ICheckMultiSigVerify =>
      match checkmultisig st with
      | Some (MsOk true, r) => set_stk s r
      | Some (MsUnsupp, _) => Unsupp
      | _ => Fail
      end
    | ICLTV => match st with x :: _ => if exec_cltv x then Ok s else Fail | [] => Fail end
    | ICSV => match st with x :: _ => if exec_csv x then Ok s else Fail | [] => Fail end
    | IIf =>
      match st with
      | x :: r => match pop_if_bool x with
                  | Some b => Ok (mkSt r ((if b then CTrue else CFalse) :: cnd s) (budget s))
                  | None => Fail
                  end
      | [] => Fail
      end
    | INotIf =>
      match st with
      | x :: r => match pop_if_bool x with
                  | Some b => Ok (mkSt r ((if b then CFalse else CTrue) :: cnd s) (budget s))
                  | None => Fail
                  end
      | [] => Fail
      end
    | IElse =>
      match cnd s with
      | [] => Fail
      | c :: cr => Ok (mkSt st ((match c with CTrue => CFalse | CFalse => CTrue | CSkip => CSkip end) :: cr) (budget s))
      end
    | IEndIf =>
      match cnd s with
      | [] => Fail
      | _ :: cr => Ok (mkSt st cr (budget s))
      end
    | IOther _ => Unsupp
    end.

  (* an instruction met in a non-executing branch *)
  Definition skip (i : instr) (s : state) : outcome :=
    match i with
    | IIf | INotIf => Ok (mkSt (stk s) (CSkip :: cnd s) (budget s))
    | IElse | IEndIf => exec i s
    | IOther _ => Unsupp
    | _ => Ok s
    end.

  Definition step (i : instr) (s : state) : outcome :=
    match i with
    | IPush d => if max_elem <? blen d then Fail
                 else if executing s then exec i s else Ok s
    | _ => if executing s then exec i s else skip i s
    end.

  Fixpoint run (is : list instr) (s : state) : outcome :=
    match is with
    | [] => Ok s
    | i :: r => match step i s with
                | Ok s' => run r s'
                | o => o
                end
    end.

  Inductive verdict := Accept | Reject | Unsupported.

  (* witness stack given bottom first, as in wire.TxWitness minus the script
     (and the control block for tapscript) *)
  Definition eval (script : list instr) (wstack : list bytes) (bud : Z) : verdict :=
    if existsb (fun w => max_elem <? blen w) wstack then Reject
    else
      match run script (mkSt (rev wstack) [] bud) with
      | Ok s =>
        match cnd s with
        | _ :: _ => Reject
        | [] => match stk s with
                | [x] => if as_bool x then Accept else Reject
                | _ => Reject
                end
        end
      | Fail => Reject
      | Unsupp => Unsupported
      end.

  Definition accepts (script : list instr) (wstack : list bytes) (bud : Z) : bool :=
    match eval script wstack bud with Accept => true | _ => false end.

End Interp.

(* "sg is a valid signature by pk": non-empty (the engine never consults the
   signature machinery for an empty one) and classified SigValid *)
Definition verify (sigcheck : bytes -> bytes -> sigres) (pk sg : bytes) : bool :=
  negb (is_nil sg) && match sigcheck pk sg with SigValid => true | _ => false end.

(* ---- tx context helpers used by the generated *_tx functions ---- *)
Definition set_tx_version (v : N) (c : txctx) : txctx := mkCtx v (tx_locktime c) (in_sequence c).
Definition set_tx_locktime (l : N) (c : txctx) : txctx := mkCtx (tx_version c) l (in_sequence c).
Definition set_in_sequence (q : N) (c : txctx) : txctx := mkCtx (tx_version c) (tx_locktime c) q.
