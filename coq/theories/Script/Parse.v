(* Decoder from raw script bytes to [list instr] (the tokenizer of btcd
   txscript restricted to minimally-encoded pushes), its inverse [serialize],
   and decidable equality on instructions.  Executable definitions only. *)
From Coq Require Import List NArith ZArith Bool.
From LV Require Import Script.Interp.
Import ListNotations.
Local Open Scope N_scope.

Definition instr_eqb (a b : instr) : bool :=
  match a, b with
  | IPush x, IPush y => bytes_eqb x y
  | INum x, INum y => x =? y
  | I1Negate, I1Negate | IDup, IDup | IDrop, IDrop | ISwap, ISwap | ISize, ISize
  | IIfDup, IIfDup | IEqual, IEqual | IEqualVerify, IEqualVerify | IVerify, IVerify
  | IIf, IIf | INotIf, INotIf | IElse, IElse | IEndIf, IEndIf | IHash160, IHash160
  | ICheckSig, ICheckSig | ICheckSigVerify, ICheckSigVerify
  | ICheckMultiSig, ICheckMultiSig | ICheckMultiSigVerify, ICheckMultiSigVerify
  | ICLTV, ICLTV | ICSV, ICSV => true
  | IOther x, IOther y => x =? y
  | _, _ => false
  end.

Fixpoint instrs_eqb (a b : list instr) : bool :=
  match a, b with
  | [], [] => true
  | x :: a', y :: b' => instr_eqb x y && instrs_eqb a' b'
  | _, _ => false
  end.

Definition op_of_byte (b : N) : instr :=
  if b =? 79 then I1Negate           (* 0x4f *)
  else if b =? 99 then IIf           (* 0x63 *)
  else if b =? 100 then INotIf       (* 0x64 *)
  else if b =? 103 then IElse        (* 0x67 *)
  else if b =? 104 then IEndIf       (* 0x68 *)
  else if b =? 105 then IVerify      (* 0x69 *)
  else if b =? 115 then IIfDup       (* 0x73 *)
  else if b =? 117 then IDrop        (* 0x75 *)
  else if b =? 118 then IDup         (* 0x76 *)
  else if b =? 124 then ISwap        (* 0x7c *)
  else if b =? 130 then ISize        (* 0x82 *)
  else if b =? 135 then IEqual       (* 0x87 *)
  else if b =? 136 then IEqualVerify (* 0x88 *)
  else if b =? 169 then IHash160     (* 0xa9 *)
  else if b =? 172 then ICheckSig    (* 0xac *)
  else if b =? 173 then ICheckSigVerify
  else if b =? 174 then ICheckMultiSig
  else if b =? 175 then ICheckMultiSigVerify
  else if b =? 177 then ICLTV        (* 0xb1 *)
  else if b =? 178 then ICSV         (* 0xb2 *)
  else IOther b.

(* a direct push of [d] read with opcode [op]: accepted only in the minimal
   form that ScriptBuilder.AddData emits *)
Definition push_ok (op : N) (d : bytes) : bool :=
  let n := blen d in
  minimal_push d &&
  (if n <=? 75 then op =? n
   else if n <=? 255 then op =? 76
   else if n <=? 65535 then op =? 77
   else false).

Definition split_at (n : nat) (l : bytes) : option (bytes * bytes) :=
  if Nat.ltb (length l) n then None else Some (firstn n l, skipn n l).

Fixpoint parse_fuel (fuel : nat) (bs : bytes) : option (list instr) :=
  match fuel with
  | O => match bs with [] => Some [] | _ => None end
  | S f =>
    match bs with
    | [] => Some []
    | op :: r =>
      if op =? 0 then option_map (cons (INum 0)) (parse_fuel f r)
      else if (81 <=? op) && (op <=? 96) then option_map (cons (INum (op - 80))) (parse_fuel f r)
      else if op <=? 75 then
        match split_at (N.to_nat op) r with
        | Some (d, r') => if push_ok op d then option_map (cons (IPush d)) (parse_fuel f r') else None
        | None => None
        end
      else if op =? 76 then
        match r with
        | l1 :: r1 =>
          match split_at (N.to_nat l1) r1 with
          | Some (d, r') => if push_ok op d then option_map (cons (IPush d)) (parse_fuel f r') else None
          | None => None
          end
        | [] => None
        end
      else if op =? 77 then
        match r with
        | l1 :: l2 :: r1 =>
          match split_at (N.to_nat (l1 + 256 * l2)) r1 with
          | Some (d, r') => if push_ok op d then option_map (cons (IPush d)) (parse_fuel f r') else None
          | None => None
          end
        | _ => None
        end
      else if op =? 78 then None    (* OP_PUSHDATA4 is never minimal below 2^16 and > 520 anyway *)
      else option_map (cons (op_of_byte op)) (parse_fuel f r)
    end
  end.

Definition parse_script (bs : bytes) : option (list instr) := parse_fuel (length bs) bs.

(* ---- serializer (ScriptBuilder output) ---- *)
Definition byte_of_instr (i : instr) : N :=
  match i with
  | I1Negate => 79 | IIf => 99 | INotIf => 100 | IElse => 103 | IEndIf => 104
  | IVerify => 105 | IIfDup => 115 | IDrop => 117 | IDup => 118 | ISwap => 124
  | ISize => 130 | IEqual => 135 | IEqualVerify => 136 | IHash160 => 169
  | ICheckSig => 172 | ICheckSigVerify => 173 | ICheckMultiSig => 174
  | ICheckMultiSigVerify => 175 | ICLTV => 177 | ICSV => 178
  | IOther b => b
  | INum n => if n =? 0 then 0 else 80 + n
  | IPush _ => 0
  end.

Definition ser_instr (i : instr) : bytes :=
  match i with
  | IPush d =>
    let n := blen d in
    if n <=? 75 then n :: d
    else if n <=? 255 then 76 :: n :: d
    else 77 :: (n mod 256) :: (n / 256) :: d
  | _ => [byte_of_instr i]
  end.

Definition serialize (is : list instr) : bytes := flat_map ser_instr is.
