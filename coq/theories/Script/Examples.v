(* Non-vacuity of the hypothesis-carrying script theorems: a concrete script
   (real bytes of a CommitScriptToSelf script produced by lnd, taken from a
   harness trace), concrete hash / signature oracles satisfying every
   hypothesis, and the conclusions computed by the kernel. *)
From Coq Require Import List NArith ZArith Bool Lia.
From LV Require Import Script.Interp Script.Parse Script.Witness Gen.GenScripts Script.Spend Script.Props.
Import ListNotations.
Local Open Scope N_scope.

Definition ex_revkey : bytes := 2 :: repeat 17 32.
Definition ex_selfkey : bytes := 3 :: repeat 34 32.
Definition ex_sig : bytes := 48 :: repeat 1 70.
Definition ex_script : list instr := commit_script_to_self ex_revkey 144 ex_selfkey.
Definition ex_ws : bytes := serialize ex_script.

(* toy oracles: every digest is 20 bytes; exactly (revkey, sig) and (selfkey, sig) verify *)
Definition ex_sha (x : bytes) : bytes := x.
Definition ex_rip (x : bytes) : bytes := firstn 20 (x ++ repeat 0 20).
Definition ex_sc (k s : bytes) : sigres :=
  if bytes_eqb s ex_sig && (bytes_eqb k ex_revkey || bytes_eqb k ex_selfkey) then SigValid else SigInvalid.

Example ex_parse : parse_script ex_ws = Some (commit_script_to_self_of ex_sha ex_rip 144 ex_selfkey ex_revkey).
Proof. vm_compute. reflexivity. Qed.

Example ex_rip_len : forall x, hash20 (ex_rip x).
Proof.
  intro x. unfold hash20, blen, ex_rip. rewrite firstn_length, app_length, repeat_length. lia.
Qed.

Example ex_hyps :
  key33 ex_revkey /\ key33 ex_selfkey /\ u32 144 /\ elem_ok ex_sig /\
  verify ex_sc ex_revkey ex_sig = true /\ verify ex_sc ex_selfkey ex_sig = true.
Proof. repeat split; vm_compute; congruence. Qed.

(* C04_revocation_paths_accept, to_local conjunct, instantiated *)
Example ex_revoke_accepts : forall ctx,
  spend_p2wsh (hash160_of ex_sha ex_rip) ex_sc ctx (commit_spend_revoke ex_sig ex_ws) = true.
Proof.
  intro ctx.
  destruct (C04_revocation_paths_accept ex_sha ex_rip ex_sc ex_rip_len) as [H _].
  destruct ex_hyps as (H1 & H2 & H3 & H4 & H5 & _).
  eapply (H ctx 144 ex_selfkey ex_revkey ex_sig ex_ws H1 H2 H3 H4 ex_parse H5).
Qed.

(* ... and it is not trivially true: a different signature is rejected, an early sweep is rejected *)
Example ex_revoke_rejects_other_sig :
  spend_p2wsh (hash160_of ex_sha ex_rip) ex_sc (mkCtx 2 0 0) (commit_spend_revoke (49 :: repeat 1 70) ex_ws) = false.
Proof. vm_compute. reflexivity. Qed.

Example ex_timeout_accepts_after_delay :
  spend_p2wsh (hash160_of ex_sha ex_rip) ex_sc (mkCtx 2 0 144) (commit_spend_timeout ex_sig ex_ws) = true.
Proof. vm_compute. reflexivity. Qed.

Example ex_timeout_rejects_before_delay :
  spend_p2wsh (hash160_of ex_sha ex_rip) ex_sc (mkCtx 2 0 143) (commit_spend_timeout ex_sig ex_ws) = false.
Proof. vm_compute. reflexivity. Qed.

(* the prod-script taproot delay leaf with csv = 0 is unspendable (why 0 < csv is a hypothesis) *)
Example ex_prod_csv0_unspendable :
  let key := repeat 7 32 in
  let sg := repeat 9 64 in
  let sc := fun (_ _ : bytes) => SigValid in
  accepts (hash160_of ex_sha ex_rip) sc Tapscript (mkCtx 2 0 0)
    (taproot_local_commit_delay_script true key 0) [sg] 1000 = false /\
  accepts (hash160_of ex_sha ex_rip) sc Tapscript (mkCtx 2 0 0)
    (taproot_local_commit_delay_script false key 0) [sg] 1000 = true.
Proof. vm_compute. split; reflexivity. Qed.

(* parse / serialize round trip on every regenerated template shape used above *)
Example ex_roundtrip :
  parse_script (serialize (sender_htlc_script true (repeat 1 20) ex_selfkey ex_revkey (repeat 2 20)))
  = Some (sender_htlc_script true (repeat 1 20) ex_selfkey ex_revkey (repeat 2 20)) /\
  parse_script (serialize (receiver_htlc_script true (repeat 1 20) ex_selfkey (repeat 2 20) ex_revkey 500000))
  = Some (receiver_htlc_script true (repeat 1 20) ex_selfkey (repeat 2 20) ex_revkey 500000).
Proof. vm_compute. split; reflexivity. Qed.
