(* C09 volume path: I/O only.  Reads one case per line (24 tokens: booleans
   as 0/1, integers in BINARY msb-first with an optional leading '-'), builds
   the extracted Coq [case] with the extracted constructors (no OCaml
   arithmetic on values) and prints the extracted [verdict]:
     "<agree> <machine_eq_spec_in_D>"   as 0/1 each. *)
open Policy_model

let pos_of_bits (s : string) (from : int) : positive =
  let n = String.length s in
  if from >= n || s.[from] <> '1' then failwith ("bad number " ^ s);
  let rec go i acc =
    if i >= n then acc
    else go (i + 1) (match s.[i] with
                     | '1' -> XI acc
                     | '0' -> XO acc
                     | _ -> failwith ("bad digit in " ^ s)) in
  go (from + 1) XH

let z_of_tok (t : string) : z =
  if t = "0" then Z0
  else if t.[0] = '-' then Zneg (pos_of_bits t 1)
  else Zpos (pos_of_bits t 0)

let b_of_tok t = match t with "1" -> true | "0" -> false | _ -> failwith ("bad bool " ^ t)

let () =
  try
    while true do
      let line = input_line stdin in
      if String.length line > 0 then begin
        let a = Array.of_list (String.split_on_char ' ' line) in
        if Array.length a <> 23 then failwith ("bad line: " ^ line);
        let z i = z_of_tok a.(i) and b i = b_of_tok a.(i) in
        let cs = c (b 0) (z 1) (z 2) (z 3) (z 4) (z 5) (z 6) (z 7) (z 8)
                   (z 9) (z 10) (b 11) (b 12)
                   (z 13) (z 14) (z 15) (z 16) (z 17) (z 18) (z 19)
                   (z 20) (z 21) (z 22) in
        let (agree, deq) = verdict cs in
        print_string (if agree then "1 " else "0 ");
        print_string (if deq then "1\n" else "0\n")
      end
    done
  with End_of_file -> ()
