(* C16: linearisability of recorded concurrent payment-store histories against
   the Coq model.  The sequential specification is the EXTRACTED
   Payments/Model.v [step] (Payments_model.lin_step) and the answer comparison
   is the extracted Payments/Exec.v [resp_eqb]; this file only does I/O and the
   search (Wing & Gong / Lowe: depth-first over the operations that may be
   linearised next, memoised on (set of linearised operations, model state)).
   No arithmetic on model values happens here: numbers arrive in binary and
   are turned into the extracted [n] constructor by constructor.

   Input, one record per line, tokens separated by blanks:
     L <backend 0=KV 1=SQL> <n> { <inv> <ret> OP RESP }*n     concurrent history
     S <n> { OP RESP(kv) RESP(sql) }*n                        sequential history
   OP   : i h v | r h id amt hasmpp addr total blinded btotal | s h id | f h id
          | F h reason | D h | d h failedonly | g h | l
   RESP : err(0..22) hasp [PROJ] nl { h PROJ }*nl
   PROJ : status(1..4) val rem nif hs pf reason(- or number) na { id amt out(0..2) }*na
   numbers of the model are binary msb-first; inv/ret/counters are decimal.

   Output, one line per record:
     L: "Y <witness order: positions in the input>" or
        "N <longest linearisable prefix found>"         (+ " # states" on both)
     S: "M <indices as Exec.check_case gives them>"                          *)
open Payments_model

let pos_of_bits (s : string) : positive =
  let n = String.length s in
  if n = 0 || s.[0] <> '1' then failwith ("bad number " ^ s);
  let rec go i acc =
    if i >= n then acc
    else go (i + 1) (match s.[i] with
                     | '1' -> XI acc
                     | '0' -> XO acc
                     | _ -> failwith ("bad digit in " ^ s)) in
  go 1 XH

let n_of_tok (t : string) : n = if t = "0" then N0 else Npos (pos_of_bits t)

(* extracted [n] -> int, for printing mismatch indices only *)
let rec int_of_pos = function
  | XH -> 1 | XO p -> 2 * int_of_pos p | XI p -> 2 * int_of_pos p + 1
let int_of_n = function N0 -> 0 | Npos p -> int_of_pos p

let errs = [| EOk; EOther; EAlreadyPaid; EPaymentInFlight; EPaymentExists;
              ENotInitiated; EAlreadySucceeded; EAlreadyFailed; EAttSettled;
              EAttFailed; EValueMismatch; EValueExceeds; ENonMPP; EMPP;
              EMPPInBlinded; EBlindedTotalMismatch; EMixedBlinded;
              EBlindedMissingTotal; EMPPAddrMismatch; EMPPTotalMismatch;
              EPendingSettled; EPendingFailed; ESentExceedsTotal |]

type cur = { toks : string array; mutable pos : int }

let next c =
  if c.pos >= Array.length c.toks then failwith "truncated record";
  let t = c.toks.(c.pos) in c.pos <- c.pos + 1; t
let num c = n_of_tok (next c)
let int c = int_of_string (next c)
let bool c = match next c with "1" -> true | "0" -> false | t -> failwith ("bad bool " ^ t)

let rec times k f = if k <= 0 then [] else let x = f () in x :: times (k - 1) f

let parse_op c : op =
  match next c with
  | "i" -> let h = num c in let v = num c in OInit (h, v)
  | "r" ->
    let h = num c in let id = num c in let am = num c in
    let hasmpp = bool c in let addr = num c in let total = num c in
    let bl = bool c in let bt = num c in
    ORegister (h, { aid = id; amt = am;
                    mpp = (if hasmpp then Some (addr, total) else None);
                    blinded = bl; btotal = bt; out = Inflight })
  | "s" -> let h = num c in let id = num c in OSettle (h, id)
  | "f" -> let h = num c in let id = num c in OFailAttempt (h, id)
  | "F" -> let h = num c in let r = num c in OFail (h, r)
  | "D" -> ODeleteFailedAttempts (num c)
  | "d" -> let h = num c in let fo = bool c in ODeletePayment (h, fo)
  | "g" -> OFetch (num c)
  | "l" -> OFetchInFlight
  | t -> failwith ("bad op " ^ t)

let parse_proj c : proj =
  let st = match int c with
    | 1 -> StInitiated | 2 -> StInFlight | 3 -> StSucceeded | 4 -> StFailed
    | k -> failwith ("bad status " ^ string_of_int k) in
  let v = num c in let rem = num c in let nif = num c in
  let hs = bool c in let pf = bool c in
  let fr = (match next c with "-" -> None | t -> Some (n_of_tok t)) in
  let na = int c in
  let ats = times na (fun () ->
      let id = num c in let am = num c in
      let o = (match int c with 0 -> Inflight | 1 -> Settled | 2 -> Failed
                                | k -> failwith ("bad outcome " ^ string_of_int k)) in
      ((id, am), o)) in
  { pstatus = st; pvalue = v; premaining = rem; pnif = nif; phs = hs; ppf = pf;
    preason = fr; patts = ats }

let parse_resp c : resp =
  let e = errs.(int c) in
  let p = if bool c then Some (parse_proj c) else None in
  let nl = int c in
  let l = times nl (fun () -> let h = num c in let p = parse_proj c in (h, p)) in
  { rerr = e; rpay = p; rlist = l }

(* ---- WGL search --------------------------------------------------------- *)

type cop = { o : op; inv : int; ret : int; r : resp }

let linearise (b : backend) (h : cop array) : (bool * int list * int) =
  let n = Array.length h in
  if n > 60 then failwith "history too long for the bitmask";
  let full = (1 lsl n) - 1 in
  let seen : (int * store, unit) Hashtbl.t = Hashtbl.create 4096 in
  let best = ref [] and bestlen = ref (-1) and states = ref 0 in
  (* returns the witness in reverse order *)
  let rec go (mask : int) (s : store) (order : int list) (len : int) : int list option =
    if len > !bestlen then begin bestlen := len; best := order end;
    if mask = full then Some order
    else if Hashtbl.mem seen (mask, s) then None
    else begin
      Hashtbl.add seen (mask, s) ();
      incr states;
      (* an operation may come next iff it was invoked before every
         not-yet-linearised operation returned *)
      let minret = ref max_int in
      for i = 0 to n - 1 do
        if mask land (1 lsl i) = 0 && h.(i).ret < !minret then minret := h.(i).ret
      done;
      let res = ref None in
      let i = ref 0 in
      while !res = None && !i < n do
        let k = !i in
        if mask land (1 lsl k) = 0 && h.(k).inv < !minret then begin
          let (s', m) = lin_step b s h.(k).o in
          if lin_resp_eqb m h.(k).r then
            res := go (mask lor (1 lsl k)) s' (k :: order) (len + 1)
        end;
        incr i
      done;
      !res
    end in
  match go 0 lin_empty [] 0 with
  | Some w -> (true, List.rev w, !states)
  | None -> (false, List.rev !best, !states)

let () =
  try
    while true do
      let line = input_line stdin in
      let toks = Array.of_list (List.filter (fun t -> t <> "")
                                  (String.split_on_char ' ' line)) in
      if Array.length toks > 0 then begin
        let c = { toks; pos = 0 } in
        match next c with
        | "L" ->
          let b = (match int c with 0 -> KV | 1 -> SQL | _ -> failwith "bad backend") in
          let n = int c in
          let h = Array.of_list (times n (fun () ->
              let inv = int c in let ret = int c in
              let o = parse_op c in let r = parse_resp c in
              { o; inv; ret; r })) in
          if c.pos <> Array.length toks then failwith "trailing tokens";
          let (ok, w, st) = linearise b h in
          print_string (if ok then "Y" else "N");
          List.iter (fun i -> print_string (" " ^ string_of_int i)) w;
          print_string (" # " ^ string_of_int st ^ "\n")
        | "S" ->
          let n = int c in
          let steps = times n (fun () ->
              let o = parse_op c in
              let a = parse_resp c in let b = parse_resp c in ((o, a), b)) in
          if c.pos <> Array.length toks then failwith "trailing tokens";
          print_string "M";
          List.iter (fun i -> print_string (" " ^ string_of_int (int_of_n i)))
            (lin_check_case steps);
          print_string "\n"
        | t -> failwith ("bad record kind " ^ t)
      end
    done
  with End_of_file -> ()
