//go:build verif

package contractcourt

// C13, stage "nursery": the UTXO NURSERY as a restartable component.
//
// A REAL UtxoNursery runs on a REAL NurseryStore in a bbolt file behind a
// stop-the-world kvdb wrapper (n store transactions commit, then every further
// one fails; the node is discarded).  The chain is a deterministic world that
// survives restarts: a tip height, the heights at which the commitment /
// second-level transactions confirm, published timeout transactions (mined in
// the next block), sweeps (mined in the next block after they were offered).
// While the node is down the chain keeps moving.  After a restart the
// notifier dispatches historical confirmations at registration, like the real
// one; the sweeper has forgotten everything it was offered.
//
// Enumerated per scenario: a stop after EVERY committed nursery-store
// transaction x the number of blocks mined while the node is down (restart
// tip below / at / above every maturity and lastGradHeight) x the order in
// which a block's confirmation notifications and its block epoch reach the
// nursery.  After every committed store transaction the placement of every
// output (channel bucket state, height-index class) is decoded and recorded
// together with the operation and its arguments (conf height, lastGradHeight).

import (
	"bytes"
	"encoding/json"
	"errors"
	"fmt"
	"os"
	"path/filepath"
	"runtime"
	"sort"
	"strings"
	"sync"
	"sync/atomic"
	"testing"
	"time"

	"github.com/btcsuite/btcd/chainhash/v2"
	"github.com/btcsuite/btcd/wire/v2"
	"github.com/btcsuite/btcwallet/walletdb"
	"github.com/lightningnetwork/lnd/chainntnfs"
	"github.com/lightningnetwork/lnd/channeldb"
	"github.com/lightningnetwork/lnd/fn/v2"
	graphdb "github.com/lightningnetwork/lnd/graph/db"
	"github.com/lightningnetwork/lnd/input"
	"github.com/lightningnetwork/lnd/kvdb"
	"github.com/lightningnetwork/lnd/lnwallet"
	"github.com/lightningnetwork/lnd/sweep"
)

var errNuStop = errors.New("verif: nursery stop the world")

type nuStopDB struct {
	kvdb.Backend
	mu        sync.Mutex
	committed int
	limit     int
	stopped   atomic.Bool
	onCommit  func()
	lastAct   atomic.Int64
}

func (d *nuStopDB) touch() { d.lastAct.Store(time.Now().UnixNano()) }

func (d *nuStopDB) Update(f func(tx walletdb.ReadWriteTx) error, reset func()) error {
	d.mu.Lock()
	defer d.mu.Unlock()
	d.touch()
	if d.stopped.Load() || (d.limit >= 0 && d.committed >= d.limit) {
		d.stopped.Store(true)
		return errNuStop
	}
	err := d.Backend.Update(f, reset)
	if err == nil {
		d.committed++
		if d.onCommit != nil {
			d.onCommit()
		}
		if d.limit >= 0 && d.committed >= d.limit {
			d.stopped.Store(true)
		}
	}
	d.touch()
	return err
}

// ---------------------------------------------------------------------
// scenario / trace format

// nuOut: one output handed to the nursery.
type nuOut struct {
	ID   int64  `json:"id"`
	Kind string `json:"kind"` // kid_abs (offered htlc, remote commitment) | baby (offered htlc, our commitment) | kid_csv (received htlc, our commitment)
	// kid_abs: Expiry = absolute maturity, conf of the COMMITMENT at Conf.
	// baby: Expiry = CLTV class; timeout tx published then, mined next block; Csv.
	// kid_csv: success tx confirms at Conf; Csv.
	Expiry int64 `json:"expiry"`
	Conf   int64 `json:"conf"`
	Csv    int64 `json:"csv"`
}

type nuSpec struct {
	Name string  `json:"name"`
	H0   int64   `json:"h0"` // tip when IncubateOutputs is called
	Outs []nuOut `json:"outs"`
	End  int64   `json:"end"` // the run ends at this tip at the latest
}

type nuSnap struct {
	Outs [][]int64 `json:"outs"` // [id, state] state 1 crib 2 pscl 3 kndr 4 grad
	Idx  [][]int64 `json:"idx"`  // [height, state, id]
	Chan bool      `json:"chan"` // channel still listed
}

type nuItem struct {
	T    string  `json:"t"`            // tx | crash
	Op   []int64 `json:"op,omitempty"` // see nuStore
	Best int64   `json:"best"`         // nursery's bestHeight (lastGradHeight) at that moment
	Tip  int64   `json:"tip"`          // chain tip
	D    *nuSnap `json:"d,omitempty"`
}

type nuCase struct {
	ID        int       `json:"id"`
	Spec      nuSpec    `json:"spec"`
	Stop      int       `json:"stop"` // stop after this many committed store transactions (-1: never)
	// StopTip: (if > 0) stop once the block at this height has been fully
	// processed by the node (a stop that is not adjacent to a store
	// transaction, e.g. between publishing a timeout tx and its confirmation)
	StopTip   int64     `json:"stoptip"`
	Down      int       `json:"down"` // blocks mined while the node is down
	ConfFirst bool      `json:"conffirst"`
	Trace     []nuItem  `json:"trace"`
	Offers    [][]int64 `json:"offers"` // [id, tip, incarnation]
	Restart   int64     `json:"restart"` // tip at the restart (0: none)
	Swept     [][]int64 `json:"swept"`  // [id, height]
	End       nuSnap    `json:"end"`
	EndTip    int64     `json:"endtip"`
	NTx       int       `json:"ntx"`
	Incs      int       `json:"incs"`
	Err       string    `json:"err,omitempty"`
}

// ---------------------------------------------------------------------
// the world

type nuConfWait struct {
	txid chainhash.Hash
	ch   chan *chainntnfs.TxConfirmation
	done bool
}

type nuPend struct {
	op  wire.OutPoint
	ch  chan sweep.Result
	tip int32
}

type nuWorld struct {
	t     *testing.T
	c     *nuCase
	inner kvdb.Backend
	db    *nuStopDB
	store *NurseryStore
	cp    wire.OutPoint

	mu        sync.Mutex
	tip       int32
	inc       int
	conf      map[chainhash.Hash]int32 // txid -> height it confirms at (known to the chain)
	published map[chainhash.Hash]bool  // published, mined in the next block
	waits     []*nuConfWait            // volatile
	epochs    []chan *chainntnfs.BlockEpoch
	pend      []*nuPend // volatile
	swept     map[wire.OutPoint]int32
	ids       map[wire.OutPoint]int64
	offers    [][]int64
	trace     []nuItem
	curOp     []int64
	nursery   *UtxoNursery
}

func (w *nuWorld) idOf(op wire.OutPoint) int64 {
	if id, ok := w.ids[op]; ok {
		return id
	}
	return -1
}

// ---- notifier
type nuNotifier struct{ w *nuWorld }

func (n *nuNotifier) RegisterConfirmationsNtfn(txid *chainhash.Hash, _ []byte, _ uint32,
	_ uint32, _ ...chainntnfs.NotifierOption) (*chainntnfs.ConfirmationEvent, error) {

	w := n.w
	cw := &nuConfWait{txid: *txid, ch: make(chan *chainntnfs.TxConfirmation, 1)}
	w.mu.Lock()
	if h, ok := w.conf[*txid]; ok && h <= w.tip && !w.db.stopped.Load() {
		// historical dispatch
		cw.ch <- &chainntnfs.TxConfirmation{BlockHeight: uint32(h), Tx: &wire.MsgTx{}}
		cw.done = true
	}
	w.waits = append(w.waits, cw)
	w.mu.Unlock()
	w.db.touch()
	return &chainntnfs.ConfirmationEvent{Confirmed: cw.ch, Cancel: func() {}}, nil
}

func (n *nuNotifier) RegisterSpendNtfn(*wire.OutPoint, []byte, uint32) (*chainntnfs.SpendEvent, error) {
	return &chainntnfs.SpendEvent{Spend: make(chan *chainntnfs.SpendDetail), Cancel: func() {}}, nil
}

func (n *nuNotifier) RegisterBlockEpochNtfn(*chainntnfs.BlockEpoch) (*chainntnfs.BlockEpochEvent, error) {
	w := n.w
	ch := make(chan *chainntnfs.BlockEpoch, 64)
	w.mu.Lock()
	w.epochs = append(w.epochs, ch)
	w.mu.Unlock()
	return &chainntnfs.BlockEpochEvent{Epochs: ch, Cancel: func() {}}, nil
}
func (n *nuNotifier) Start() error  { return nil }
func (n *nuNotifier) Started() bool { return true }
func (n *nuNotifier) Stop() error   { return nil }

// ---- chain io
type nuChainIO struct{ w *nuWorld }

func (c *nuChainIO) GetBestBlock() (*chainhash.Hash, int32, error) {
	c.w.mu.Lock()
	defer c.w.mu.Unlock()
	return &chainhash.Hash{}, c.w.tip, nil
}
func (c *nuChainIO) GetUtxo(*wire.OutPoint, []byte, uint32, <-chan struct{}) (*wire.TxOut, error) {
	return nil, nil
}
func (c *nuChainIO) GetBlockHash(int64) (*chainhash.Hash, error) { return &chainhash.Hash{}, nil }
func (c *nuChainIO) GetBlock(*chainhash.Hash) (*wire.MsgBlock, error) {
	return nil, nil
}
func (c *nuChainIO) GetBlockHeader(*chainhash.Hash) (*wire.BlockHeader, error) {
	return nil, nil
}

// ---- sweeper
func (w *nuWorld) sweepInput(inp input.Input, _ sweep.Params) (chan sweep.Result, error) {
	w.db.touch()
	op := inp.OutPoint()
	ch := make(chan sweep.Result, 1)
	if w.db.stopped.Load() {
		return ch, nil
	}
	w.mu.Lock()
	w.offers = append(w.offers, []int64{w.idOf(op), int64(w.tip), int64(w.inc)})
	if _, ok := w.swept[op]; ok {
		ch <- sweep.Result{Tx: &wire.MsgTx{}}
	} else {
		w.pend = append(w.pend, &nuPend{op: op, ch: ch, tip: w.tip})
	}
	w.mu.Unlock()
	return ch, nil
}

// ---- store interceptor: names the operation of the next committed transaction
type nuStore struct {
	NurseryStorer
	w *nuWorld
}

func (s *nuStore) op(o ...int64) {
	s.w.mu.Lock()
	s.w.curOp = o
	s.w.mu.Unlock()
}

func (s *nuStore) Incubate(kids []kidOutput, babies []babyOutput) error {
	o := []int64{1}
	for i := range kids {
		o = append(o, s.w.idOf(kids[i].OutPoint()))
	}
	for i := range babies {
		o = append(o, s.w.idOf(babies[i].OutPoint()))
	}
	s.op(o...)
	return s.NurseryStorer.Incubate(kids, babies)
}

func (s *nuStore) CribToKinder(b *babyOutput) error {
	s.op(2, s.w.idOf(b.OutPoint()), int64(b.ConfHeight()), int64(b.BlocksToMaturity()))
	return s.NurseryStorer.CribToKinder(b)
}

func (s *nuStore) PreschoolToKinder(k *kidOutput, last uint32) error {
	s.op(3, s.w.idOf(k.OutPoint()), int64(k.absoluteMaturity), int64(k.ConfHeight()),
		int64(k.BlocksToMaturity()), int64(last))
	return s.NurseryStorer.PreschoolToKinder(k, last)
}

func (s *nuStore) GraduateKinder(h uint32, k *kidOutput) error {
	s.op(4, s.w.idOf(k.OutPoint()), int64(h))
	return s.NurseryStorer.GraduateKinder(h, k)
}

func (s *nuStore) RemoveChannel(cp *wire.OutPoint) error {
	s.op(5)
	return s.NurseryStorer.RemoveChannel(cp)
}

// ---- snapshot of the store
func nuState(k []byte) int64 {
	switch {
	case bytes.HasPrefix(k, cribPrefix):
		return 1
	case bytes.HasPrefix(k, psclPrefix):
		return 2
	case bytes.HasPrefix(k, kndrPrefix):
		return 3
	case bytes.HasPrefix(k, gradPrefix):
		return 4
	}
	return 0
}

func (w *nuWorld) keyID(k []byte) int64 {
	if len(k) < 4 {
		return -1
	}
	var op wire.OutPoint
	if err := graphdb.ReadOutpoint(bytes.NewReader(k[4:]), &op); err != nil {
		return -1
	}
	return w.idOf(op)
}

func (w *nuWorld) snapshot() *nuSnap {
	s := &nuSnap{Outs: [][]int64{}, Idx: [][]int64{}}
	err := w.inner.View(func(tx walletdb.ReadTx) error {
		root := tx.ReadBucket(w.store.pfxChainKey)
		if root == nil {
			return nil
		}
		if ci := root.NestedReadBucket(channelIndexKey); ci != nil {
			_ = ci.ForEach(func(ck, _ []byte) error {
				cb := ci.NestedReadBucket(ck)
				if cb == nil {
					return nil
				}
				s.Chan = true
				return cb.ForEach(func(k, _ []byte) error {
					s.Outs = append(s.Outs, []int64{w.keyID(k), nuState(k)})
					return nil
				})
			})
		}
		if hi := root.NestedReadBucket(heightIndexKey); hi != nil {
			_ = hi.ForEach(func(hk, _ []byte) error {
				hb := hi.NestedReadBucket(hk)
				if hb == nil || len(hk) != 4 {
					return nil
				}
				h := int64(byteOrder.Uint32(hk))
				return hb.ForEach(func(ck, _ []byte) error {
					cb := hb.NestedReadBucket(ck)
					if cb == nil {
						return nil
					}
					return cb.ForEach(func(k, _ []byte) error {
						s.Idx = append(s.Idx, []int64{h, nuState(k), w.keyID(k)})
						return nil
					})
				})
			})
		}
		return nil
	}, func() {})
	if err != nil {
		w.t.Fatalf("nursery snapshot: %v", err)
	}
	less := func(a, b []int64) bool {
		for i := range a {
			if a[i] != b[i] {
				return a[i] < b[i]
			}
		}
		return false
	}
	sort.Slice(s.Outs, func(i, j int) bool { return less(s.Outs[i], s.Outs[j]) })
	sort.Slice(s.Idx, func(i, j int) bool { return less(s.Idx[i], s.Idx[j]) })
	return s
}

// ---- quiescence
var nuStackBuf = make([]byte, 1<<20)

func nuAllBlocked() bool {
	buf := nuStackBuf
	n := runtime.Stack(buf, true)
	recs := strings.Split(string(buf[:n]), "\n\n")
	for i, r := range recs {
		if i == 0 {
			continue
		}
		a := strings.IndexByte(r, '[')
		b := strings.IndexByte(r, ']')
		if a < 0 || b < a {
			continue
		}
		st := r[a+1 : b]
		if k := strings.IndexByte(st, ','); k >= 0 {
			st = st[:k]
		}
		switch st {
		case "chan receive", "chan send", "select", "semacquire", "sync.Cond.Wait",
			"sync.Mutex.Lock", "sync.RWMutex.RLock", "sync.RWMutex.Lock",
			"chan receive (nil chan)", "chan send (nil chan)", "select (no cases)",
			"sync.WaitGroup.Wait", "IO wait", "finalizer wait":
		default:
			return false
		}
	}
	return true
}

// settle waits until nothing in the process can make progress without a new
// event: every other goroutine parked (a goroutine that was sent a message is
// runnable from the moment of the send), sampled twice, no store activity.
var nuSettleN, nuSettleNs atomic.Int64

func (w *nuWorld) settle() {
	t0 := time.Now()
	defer func() { nuSettleN.Add(1); nuSettleNs.Add(int64(time.Since(t0))) }()
	deadline := time.Now().Add(5 * time.Second)
	ok := 0
	for time.Now().Before(deadline) {
		last := w.db.lastAct.Load()
		if nuAllBlocked() && w.db.lastAct.Load() == last &&
			time.Since(time.Unix(0, last)) > 60*time.Microsecond {

			ok++
			if ok >= 2 {
				return
			}
		} else {
			ok = 0
		}
		// (time.Sleep rounds up to about a millisecond here)
		for t1 := time.Now(); time.Since(t1) < 30*time.Microsecond; {
			runtime.Gosched()
		}
	}
}

// ---- driving
func (w *nuWorld) boot() error {
	w.mu.Lock()
	w.inc++
	w.waits, w.epochs, w.pend = nil, nil, nil
	w.mu.Unlock()
	cfg := &NurseryConfig{
		ChainIO:   &nuChainIO{w: w},
		ConfDepth: 1,
		FetchClosedChannels: func(bool) ([]*channeldb.ChannelCloseSummary, error) {
			return []*channeldb.ChannelCloseSummary{{ChanPoint: w.cp, CloseHeight: uint32(w.c.Spec.H0)}}, nil
		},
		FetchClosedChannel: func(*wire.OutPoint) (*channeldb.ChannelCloseSummary, error) {
			return &channeldb.ChannelCloseSummary{ChanPoint: w.cp, CloseHeight: uint32(w.c.Spec.H0)}, nil
		},
		Notifier: &nuNotifier{w: w},
		PublishTransaction: func(tx *wire.MsgTx, _ string) error {
			if w.db.stopped.Load() {
				return nil
			}
			w.db.touch()
			w.mu.Lock()
			defer w.mu.Unlock()
			h := tx.TxHash()
			if _, ok := w.conf[h]; ok {
				return lnwallet.ErrDoubleSpend // already mined
			}
			w.published[h] = true
			return nil
		},
		Store:      &nuStore{NurseryStorer: w.store, w: w},
		SweepInput: w.sweepInput,
		Budget:     DefaultBudgetConfig(),
	}
	w.nursery = NewUtxoNursery(cfg)
	return w.nursery.Start()
}

// mine: one block.  live: the node is up and gets the notifications.
func (w *nuWorld) mine(live bool) {
	w.mu.Lock()
	w.tip++
	tip := w.tip
	for h := range w.published {
		w.conf[h] = tip
		delete(w.published, h)
	}
	var confs []*nuConfWait
	for _, cw := range w.waits {
		if h, ok := w.conf[cw.txid]; ok && h <= tip && !cw.done {
			confs = append(confs, cw)
		}
	}
	var done []*nuPend
	var rest []*nuPend
	for _, p := range w.pend {
		if p.tip < tip {
			w.swept[p.op] = tip
			done = append(done, p)
		} else {
			rest = append(rest, p)
		}
	}
	w.pend = rest
	epochs := append([]chan *chainntnfs.BlockEpoch{}, w.epochs...)
	w.mu.Unlock()
	if !live {
		// sweeps that were offered before the stop are in the mempool and
		// get mined; nobody is notified
		return
	}
	sendConfs := func() {
		for _, cw := range confs {
			w.mu.Lock()
			h := w.conf[cw.txid]
			cw.done = true
			w.mu.Unlock()
			cw.ch <- &chainntnfs.TxConfirmation{BlockHeight: uint32(h), Tx: &wire.MsgTx{}}
		}
		if len(confs) > 0 {
			w.db.touch()
			w.settle()
		}
	}
	sendEpoch := func() {
		for _, ch := range epochs {
			ch <- &chainntnfs.BlockEpoch{Height: tip}
		}
		w.db.touch()
		w.settle()
	}
	if w.c.ConfFirst {
		sendConfs()
		sendEpoch()
	} else {
		sendEpoch()
		sendConfs()
	}
	for _, p := range done {
		p.ch <- sweep.Result{Tx: &wire.MsgTx{}}
	}
	if len(done) > 0 {
		w.db.touch()
		w.settle()
	}
}

func (w *nuWorld) run() {
	c := w.c
	sp := &c.Spec
	w.tip = int32(sp.H0)
	commit := chainhash.Hash{0xc0, byte(c.ID), byte(c.ID >> 8)}
	var outRes []fn.Option[lnwallet.OutgoingHtlcResolution]
	var inRes []fn.Option[lnwallet.IncomingHtlcResolution]
	for _, o := range sp.Outs {
		sd := input.SignDescriptor{Output: &wire.TxOut{Value: 10000 + o.ID}}
		switch o.Kind {
		case "kid_abs":
			op := wire.OutPoint{Hash: commit, Index: uint32(o.ID)}
			w.ids[op] = o.ID
			w.conf[commit] = int32(o.Conf)
			outRes = append(outRes, fn.Some(lnwallet.OutgoingHtlcResolution{
				Expiry: uint32(o.Expiry), ClaimOutpoint: op, SweepSignDesc: sd,
			}))
			inRes = append(inRes, fn.None[lnwallet.IncomingHtlcResolution]())
		case "baby":
			ttx := &wire.MsgTx{Version: 2,
				TxIn:  []*wire.TxIn{{PreviousOutPoint: wire.OutPoint{Hash: commit, Index: uint32(o.ID)}, Witness: [][]byte{{}}}},
				TxOut: []*wire.TxOut{{Value: 9000 + o.ID}}}
			op := wire.OutPoint{Hash: ttx.TxHash(), Index: 0}
			w.ids[op] = o.ID
			outRes = append(outRes, fn.Some(lnwallet.OutgoingHtlcResolution{
				Expiry: uint32(o.Expiry), SignedTimeoutTx: ttx, CsvDelay: uint32(o.Csv),
				ClaimOutpoint: op, SweepSignDesc: sd,
			}))
			inRes = append(inRes, fn.None[lnwallet.IncomingHtlcResolution]())
		case "kid_csv":
			stx := chainhash.Hash{0x5c, byte(c.ID), byte(c.ID >> 8), byte(o.ID)}
			op := wire.OutPoint{Hash: stx, Index: 0}
			w.ids[op] = o.ID
			w.conf[stx] = int32(o.Conf)
			outRes = append(outRes, fn.None[lnwallet.OutgoingHtlcResolution]())
			inRes = append(inRes, fn.Some(lnwallet.IncomingHtlcResolution{
				ClaimOutpoint: op, CsvDelay: uint32(o.Csv), SweepSignDesc: sd,
			}))
		default:
			w.t.Fatalf("unknown output kind %q", o.Kind)
		}
	}
	w.db.limit = -1
	if c.Stop >= 0 {
		w.db.limit = c.Stop
	}
	if err := w.boot(); err != nil {
		c.Err = "start: " + err.Error()
		return
	}
	w.settle()
	incubated := false
	incubate := func() {
		for i := range outRes {
			err := w.nursery.IncubateOutputs(w.cp, outRes[i], inRes[i],
				uint32(sp.H0), fn.None[int32]())
			if err != nil && !errors.Is(err, errNuStop) {
				c.Err = "incubate: " + err.Error()
			}
			w.settle()
			if w.db.stopped.Load() {
				return
			}
		}
		incubated = true
	}
	removed := func() bool {
		chans, err := w.store.ListChannels()
		return err == nil && len(chans) == 0
	}
	restarted := false
	end := sp.End
	for step := 0; step < 400; step++ {
		if w.db.stopped.Load() && !restarted {
			// the node goes down; the chain moves on
			_ = w.nursery.Stop()
			w.mu.Lock()
			w.trace = append(w.trace, nuItem{T: "crash", Tip: int64(w.tip)})
			w.mu.Unlock()
			for i := 0; i < c.Down; i++ {
				w.mine(false)
			}
			restarted = true
			c.Restart = int64(w.tip)
			if int64(w.tip)+12 > end {
				// enough blocks after the restart for everything
				// that is due to be offered and swept
				end = int64(w.tip) + 12
			}
			w.db.stopped.Store(false)
			w.db.limit = -1
			if err := w.boot(); err != nil {
				c.Err = "restart: " + err.Error()
				return
			}
			w.settle()
			continue
		}
		if !incubated {
			// the contract court hands the outputs over (again after a
			// restart: the resolvers call IncubateOutputs on every launch)
			incubate()
			continue
		}
		if removed() || int64(w.tip) >= end {
			break
		}
		if c.StopTip > 0 && !restarted && int64(w.tip) >= c.StopTip {
			w.db.stopped.Store(true)
			continue
		}
		w.mine(true)
	}
	_ = w.nursery.Stop()
	c.End = *w.snapshot()
	c.EndTip = int64(w.tip)
	c.NTx = w.db.committed
	c.Incs = w.inc
	w.mu.Lock()
	c.Trace = w.trace
	c.Offers = w.offers
	if c.Offers == nil {
		c.Offers = [][]int64{}
	}
	c.Swept = [][]int64{}
	for op, h := range w.swept {
		c.Swept = append(c.Swept, []int64{w.idOf(op), int64(h)})
	}
	w.mu.Unlock()
	sort.Slice(c.Swept, func(i, j int) bool { return c.Swept[i][0] < c.Swept[j][0] })
}

func nuRunCase(t *testing.T, dir string, c *nuCase) {
	path := filepath.Join(dir, fmt.Sprintf("c13n_%d.db", c.ID))
	inner, err := kvdb.Create(kvdb.BoltBackendName, path, true, kvdb.DefaultDBTimeout, false)
	if err != nil {
		t.Fatal(err)
	}
	defer func() {
		inner.Close()
		os.Remove(path)
	}()
	w := &nuWorld{t: t, c: c, inner: inner,
		conf:      map[chainhash.Hash]int32{},
		published: map[chainhash.Hash]bool{},
		swept:     map[wire.OutPoint]int32{},
		ids:       map[wire.OutPoint]int64{},
	}
	w.cp = wire.OutPoint{Hash: chainhash.Hash{0x13, byte(c.ID), byte(c.ID >> 8)}, Index: 7}
	w.db = &nuStopDB{Backend: inner, limit: -1}
	store, err := NewNurseryStore(&chainhash.Hash{}, &channeldb.DB{Backend: w.db})
	if err != nil {
		t.Fatal(err)
	}
	w.store = store
	w.db.onCommit = func() {
		s := w.snapshot()
		best := int64(-1)
		if w.nursery != nil {
			best = int64(atomic.LoadUint32(&w.nursery.bestHeight))
		}
		w.mu.Lock()
		w.trace = append(w.trace, nuItem{T: "tx", Op: w.curOp, Best: best, Tip: int64(w.tip), D: s})
		w.curOp = nil
		w.mu.Unlock()
	}
	c.Trace, c.Offers, c.Swept, c.Err = nil, nil, nil, ""
	w.run()
}

func nuScenarios() []nuSpec {
	return []nuSpec{
		// offered htlc on the REMOTE commitment: preschool until the
		// commitment confirms, then kindergarten at its CLTV expiry
		{Name: "remote_htlc", H0: 100, End: 125,
			Outs: []nuOut{{ID: 1, Kind: "kid_abs", Expiry: 106, Conf: 102}}},
		// the commitment confirms exactly at / after the expiry
		{Name: "remote_htlc_lateconf", H0: 100, End: 125,
			Outs: []nuOut{{ID: 1, Kind: "kid_abs", Expiry: 103, Conf: 103}}},
		// offered htlc on OUR commitment, legacy channel: crib until the
		// CLTV expiry, timeout tx mined, CSV, kindergarten
		{Name: "local_htlc2", H0: 100, End: 130,
			Outs: []nuOut{{ID: 1, Kind: "baby", Expiry: 103, Csv: 3}}},
		// received htlc on OUR commitment: success tx confirms, CSV
		{Name: "local_success", H0: 100, End: 125,
			Outs: []nuOut{{ID: 1, Kind: "kid_csv", Conf: 102, Csv: 4}}},
		// all three in one channel
		{Name: "mixed", H0: 100, End: 135,
			Outs: []nuOut{{ID: 1, Kind: "kid_abs", Expiry: 105, Conf: 101},
				{ID: 2, Kind: "baby", Expiry: 104, Csv: 2},
				{ID: 3, Kind: "kid_csv", Conf: 103, Csv: 3}}},
	}
}

func TestVerifNursery(t *testing.T) {
	out := vOpenOut()
	defer out.close()
	defer func() {
		if os.Getenv("VERIF_C13N_DEBUG") != "" {
			fmt.Fprintf(os.Stderr, "settles %d total %v\n", nuSettleN.Load(), time.Duration(nuSettleNs.Load()))
		}
	}()
	dir := t.TempDir()
	id := 0
	run := func(sp nuSpec, stop int, stopTip int64, down int, cf bool) *nuCase {
		c := &nuCase{ID: id, Spec: sp, Stop: stop, StopTip: stopTip, Down: down, ConfFirst: cf}
		id++
		nuRunCase(t, dir, c)
		out.emit(c)
		return c
	}
	if p := vReplay(); p != "" {
		raw, err := os.ReadFile(p)
		if err != nil {
			t.Fatal(err)
		}
		var rp struct {
			Detail struct {
				Case nuCase `json:"case"`
			} `json:"detail"`
		}
		if err := json.Unmarshal(raw, &rp); err != nil {
			t.Fatal(err)
		}
		cs := rp.Detail.Case
		run(cs.Spec, -1, 0, 0, cs.ConfFirst)
		run(cs.Spec, cs.Stop, cs.StopTip, cs.Down, cs.ConfFirst)
		return
	}
	only := os.Getenv("VERIF_C13N_ONLY")
	thorough := vTier() == "thorough"
	master := vNewRng(vSeed())
	// directed case of every run (both tiers, every seed): known finding
	// C13-F4 -- baby output (expiry 103, csv 3), the node stops after block
	// 103 (timeout tx published, mined in 104) and sleeps through the CSV
	// delay: restart at tip 107 and 109
	if only == "" {
		f4 := nuSpec{Name: "f4_crib_late", H0: 100, End: 130,
			Outs: []nuOut{{ID: 1, Kind: "baby", Expiry: 103, Csv: 3}}}
		run(f4, -1, 0, 0, true)
		run(f4, -1, 0, 0, false)
		for _, cf := range []bool{true, false} {
			run(f4, -1, 103, 3, cf) // restart at 106: still in time
			run(f4, -1, 103, 4, cf)
			run(f4, -1, 103, 6, cf)
		}
	}
	for si, sp := range nuScenarios() {
		if only != "" && only != sp.Name {
			continue
		}
		r := master.fork(uint64(si))
		// heights at which something of the scenario matures / confirms
		crit := map[int64]bool{}
		for _, o := range sp.Outs {
			switch o.Kind {
			case "kid_abs":
				crit[o.Expiry], crit[o.Conf] = true, true
			case "baby":
				crit[o.Expiry], crit[o.Expiry+1], crit[o.Expiry+1+o.Csv] = true, true, true
			case "kid_csv":
				crit[o.Conf], crit[o.Conf+o.Csv] = true, true
			}
		}
		near := func(tip int64) bool {
			for h := range crit {
				if tip >= h-2 && tip <= h+2 {
					return true
				}
			}
			return false
		}
		for _, cf := range []bool{true, false} {
			base := run(sp, -1, 0, 0, cf)
			n := base.NTx
			maxDown := int(sp.End-sp.H0) - 6
			downs := func(stopTip int64) []int {
				var ds []int
				for d := 0; d <= maxDown; d++ {
					// quick: restart tips within 2 blocks of every
					// critical height (and lastGradHeight = stop
					// tip), plus a seeded few of the others
					if thorough || d <= 2 || near(stopTip+int64(d)) || r.intn(6) == 0 {
						ds = append(ds, d)
					}
				}
				return ds
			}
			// a stop after every committed store transaction
			for k := 0; k <= n; k++ {
				stopTip := sp.H0
				if k > 0 && k-1 < len(base.Trace) {
					stopTip = base.Trace[k-1].Tip
				}
				for _, d := range downs(stopTip) {
					run(sp, k, 0, d, cf)
				}
			}
			// a stop after every block
			for tip := sp.H0 + 1; tip < base.EndTip; tip++ {
				for _, d := range downs(tip) {
					if d > 0 {
						run(sp, -1, tip, d, cf)
					}
				}
			}
		}
	}
}
