//go:build verif

package contractcourt

// C13 correspondence harness: contract resolution survives restarts.
//
// A REAL ChannelArbitrator (goroutines started with Start) runs on a REAL
// boltArbitratorLog stored in a bbolt file.  The file is wrapped by a
// kvdb.Backend (vrStopDB) that lets exactly n read-write transactions commit
// and then fails every further one with a sentinel error ("stop the world").
// When the sentinel fires the harness stops and discards the arbitrator and
// all mocks and boots a fresh one on the same file, the way
// ChainArbitrator.Start does (loadOpenChannels / loadPendingCloseChannels):
// channel still open -> chain watcher re-delivers the close event, the user
// re-issues the force close; channel pending close -> IsPendingClose,
// CloseType, ClosingHeight come from the persisted close summary and there is
// no chain event source; channel fully closed -> no arbitrator at all.
//
// Everything the real node persists in the same database is persisted here in
// the same (wrapped) database, each in its own transaction like the real
// code: MarkCommitmentBroadcasted, MarkChannelClosed (close summary),
// MarkChanFullyClosed, resolver reports (inside the checkpoint transaction
// when a tx is handed in).  After every committed transaction the abstract
// content of the database is decoded (arbitrator state byte, resolutions /
// commit set present, every persisted resolver: type, incubating flag,
// resolved flag; reports; channel status) and appended to the trace.
//
// Received (incoming) htlcs: the witness beacon is a durable store with
// volatile subscribers; the scenario's environment script (chain height when
// WaitingFullResolution is durable, then blocks / "the preimage of htlc i
// reaches the beacon") advances only when the node is quiescent; the mock
// sweeper lets a claim of a received htlc confirm only if the sweep input
// carries the htlc's preimage; PutFinalHtlcOutcome is a transaction of the
// wrapped database like in channeldb.
//
// The chain is a UTXO model (C13d): spend / confirmation notifications fire
// only for the exact outpoint / txid AND pkScript registered and report the
// real spending tx and input index; our sweeper re-signs zero-fee second-level
// htlc txs with wallet inputs (txid != pre-signed txid, input index != 0) and
// aggregates; every real wait of a resolver is recorded (case.watch) and an
// outpoint a resolver is parked on at quiescence must exist on chain.
//
// The chain is a small deterministic environment that survives restarts:
// outputs become spent when "our" sweep of them has been offered to the
// sweeper (or from the start for a remote preimage claim), sweeps confirm,
// blocks arrive.  Like the real chain it is slow: nothing resolver-relevant
// is delivered before the arbitrator has committed StateWaitingFullResolution
// (unless the scenario is marked eager, used for resolvers that need no chain
// event).

import (
	"bytes"
	"crypto/sha256"
	"encoding/binary"
	"encoding/hex"
	"encoding/json"
	"errors"
	"fmt"
	"io"
	"os"
	"path/filepath"
	"runtime"
	"sort"
	"strings"
	"sync"
	"sync/atomic"
	"testing"
	"time"

	"github.com/btcsuite/btcd/btcec/v2"
	"github.com/btcsuite/btcd/chainhash/v2"
	"github.com/btcsuite/btcd/txscript/v2"
	"github.com/btcsuite/btclog/v2"
	"github.com/btcsuite/btcd/wire/v2"
	"github.com/btcsuite/btcwallet/walletdb"
	"github.com/lightningnetwork/lnd/chainntnfs"
	"github.com/lightningnetwork/lnd/channeldb"
	"github.com/lightningnetwork/lnd/chanstate"
	"github.com/lightningnetwork/lnd/clock"
	"github.com/lightningnetwork/lnd/fn/v2"
	"github.com/lightningnetwork/lnd/graph/db/models"
	"github.com/lightningnetwork/lnd/htlcswitch/hop"
	"github.com/lightningnetwork/lnd/input"
	"github.com/lightningnetwork/lnd/kvdb"
	"github.com/lightningnetwork/lnd/lntypes"
	"github.com/lightningnetwork/lnd/lnwallet"
	"github.com/lightningnetwork/lnd/lnwallet/chainfee"
	"github.com/lightningnetwork/lnd/lnwire"
	"github.com/lightningnetwork/lnd/sweep"
)

var errVrStop = errors.New("verif: stop the world")

// ---------------------------------------------------------------------
// stop-the-world kvdb backend

type vrStopDB struct {
	kvdb.Backend // the real bbolt backend (reads go straight through)

	mu        sync.Mutex
	committed int
	limit     int // -1: unlimited
	stopped   atomic.Bool
	onCommit  func()
	lastAct   atomic.Int64
}

func (d *vrStopDB) touch() { d.lastAct.Store(time.Now().UnixNano()) }

func (d *vrStopDB) Update(f func(tx walletdb.ReadWriteTx) error, reset func()) error {
	d.mu.Lock()
	defer d.mu.Unlock()
	d.touch()
	if d.stopped.Load() || (d.limit >= 0 && d.committed >= d.limit) {
		d.stopped.Store(true)
		return errVrStop
	}
	err := d.Backend.Update(f, reset)
	if err == nil {
		d.committed++
		if d.onCommit != nil {
			d.onCommit()
		}
		if d.limit >= 0 && d.committed >= d.limit {
			// the stop takes effect right after the n-th commit:
			// nothing that follows it (not even an upstream message
			// sent before the next transaction) is observable
			d.stopped.Store(true)
		}
	}
	d.touch()
	return err
}

// remaining: transactions left before the scheduled stop (0: none scheduled).
func (d *vrStopDB) remaining() int {
	d.mu.Lock()
	defer d.mu.Unlock()
	if d.limit < 0 || d.limit <= d.committed {
		return 0
	}
	return d.limit - d.committed
}

func (d *vrStopDB) BeginReadWriteTx() (walletdb.ReadWriteTx, error) {
	return nil, errors.New("verif: BeginReadWriteTx not expected")
}

// ---------------------------------------------------------------------
// scenario description (also the replay format)

// vrStage: one stage of a resolver: upstream outputs it produces and the
// report it writes in the checkpoint transaction that ends the stage.
type vrStage struct {
	Outs [][]int64 `json:"outs"` // [kind, idx(, settled)] kind 1 fail 2 settle 3 final
	Rep  [][]int64 `json:"rep"`  // reports of the checkpoint tx: [outpoint index, outcome]
}

type vrResolver struct {
	Key    int64            `json:"key"`    // outpoint index of the resolver key
	Kind   string           `json:"kind"`   // commit|breach|timeout_remote|contest_timeout|contest_claim|timeout_local2|in_claim_remote|in_expire_remote|in_claim_local2|in_expire_local2
	Idx    int64            `json:"idx"`    // htlc index
	Stages []vrStage        `json:"stages"` // model script
	// Pos: two-stage resolver on our commitment: input (= output) index of
	// its second-level tx inside the sweeper's transactions (never 0)
	Pos    int64            `json:"pos,omitempty"`
	// Watch: per stage, what the resolver goroutine is parked on while the
	// persisted progress is that stage: 0 an output of the commitment tx,
	// 1 the output of its second-level tx, 2 no spend notification
	Watch  []int64          `json:"watch"`
	PTab   map[string]int64 `json:"ptab"`   // "type,incubating,resolved[,preimage persisted]" -> stages completed
}

// vrEnvStep: one event of the environment, delivered when the node is
// quiescent (blocks are slow compared to everything the node does): a block
// at height H, or the preimage of received htlc Pre reaching the witness
// beacon (AddPreimages: durable + subscribers notified).
type vrEnvStep struct {
	Pre int64 `json:"pre,omitempty"`
	H   int64 `json:"h,omitempty"`
}

// vrCollide: an htlc that is NOT on the confirmed commitment but on another
// persisted commitment of the commit set, at an output index that a DIFFERENT
// htlc occupies on the confirmed commitment (output indexes are per
// commitment transaction).
type vrCollide struct {
	Set    string `json:"set"` // local | remote | pending
	Idx    int64  `json:"idx"`
	OutIdx int64  `json:"outidx"`
}

type vrSpec struct {
	Name         string       `json:"name"`
	Kind         string       `json:"kind"` // coop|local|remote|pending|breach
	UserFC       bool         `json:"userfc"`
	Empty        bool         `json:"empty"`
	Anchor       bool         `json:"anchor"`
	Eager        bool         `json:"eager"`
	CSActs       bool         `json:"csacts"` // persisted commit set yields actions on a chain trigger
	FailsDefault []int64      `json:"fails_default"`
	FailsClosed  []int64      `json:"fails_closed"`
	FinalsClosed []int64      `json:"finals_closed"`
	Resolvers    []vrResolver `json:"resolvers"`
	Collide      []vrCollide  `json:"collide,omitempty"`
	// H0: chain height once WaitingFullResolution is durable (0: 2000, the
	// height at which every htlc of the scenario has expired); Env: later
	// events; Known: received htlcs whose preimage is in the beacon at close.
	H0    int64       `json:"h0,omitempty"`
	Env   []vrEnvStep `json:"env,omitempty"`
	Known []int64     `json:"known,omitempty"`
	// FarExp: no htlc is within the broadcast delta at the closing height
	FarExp bool `json:"farexp,omitempty"`
	// Taproot: the two-stage htlcs of our commitment are taproot outputs
	// (v1 witness programs, control block in the pre-signed witness)
	Taproot bool `json:"taproot,omitempty"`
}

type vrSnap struct {
	St   int       `json:"st"`
	Res  bool      `json:"res"`
	CS   bool      `json:"cs"`
	BC   bool      `json:"bc"`
	CL   bool      `json:"cl"`
	Full bool      `json:"full"`
	Con  [][]int64 `json:"con"` // [key, type, incubating, resolved, preimage persisted]
	Rep  [][]int64 `json:"rep"` // [outpoint index, outcome]
}

type vrItem struct {
	T string  `json:"t"` // snap | crash
	D *vrSnap `json:"d,omitempty"`
}

type vrCase struct {
	ID      int       `json:"id"`
	Spec    vrSpec    `json:"spec"`
	Crashes []int     `json:"crashes"`
	// EnvCrash: the first preimage event of Env is written to the beacon
	// store WITHOUT reaching any subscriber and the node goes down right
	// after it (stop between the beacon's durable write and its
	// notification): the restarted node must find it by lookup.
	EnvCrash bool     `json:"envcrash"`
	Trace   []vrItem  `json:"trace"`
	Watch   [][]int64 `json:"watch"` // real waits: [key, type, incubating, resolved, preimage, level]
	Outs    [][]int64 `json:"outs"` // cumulative set of outputs
	NTx     int       `json:"ntx"`  // committed transactions in total
	End     vrSnap    `json:"end"`
	Done    bool      `json:"done"` // reached "fully closed + log wiped"
	Incs    int       `json:"incs"` // incarnations
	Err     string    `json:"err,omitempty"`
}

// arbitrator state codes shared with the model
func vrStateCode(s ArbitratorState) int {
	switch s {
	case StateDefault:
		return 0
	case StateBroadcastCommit:
		return 1
	case StateCommitmentBroadcasted:
		return 2
	case StateContractClosed:
		return 3
	case StateWaitingFullResolution:
		return 4
	case StateFullyResolved:
		return 5
	}
	return 9
}

// ---------------------------------------------------------------------
// the world that survives restarts: database + chain

var (
	vrChanBucket   = []byte("verif-chan")
	vrReportBucket = []byte("verif-reports")
	vrFinalBucket  = []byte("verif-finals")
)

type vrWorld struct {
	t     *testing.T
	c     *vrCase
	inner kvdb.Backend
	db    *vrStopDB
	cp    wire.OutPoint
	scope logScope
	keys  map[string]int64 // hex(resolver key) -> key id

	mu      sync.Mutex
	trace   []vrItem
	outs    map[string][]int64
	// the chain is a UTXO model: utxo holds every output that exists on
	// chain (spent or not) with its pkScript; spent the transaction that
	// spent it.  Spend notifications fire only for the exact outpoint AND
	// pkScript registered and report the actual spending tx / input index.
	utxo    map[wire.OutPoint]*vrOut
	spent   map[wire.OutPoint]*chainntnfs.SpendDetail
	onSweep map[wire.OutPoint]*chainntnfs.SpendDetail // spends by the REMOTE party
	remote  []wire.OutPoint                          // ... that happen once the gate opens
	pending []*vrPend                                // sweeps offered to our sweeper, not yet published
	waiters map[wire.OutPoint][]*vrWaiter
	witFor  map[wire.OutPoint]func(input.Input) wire.TxWitness
	twoPos  map[wire.OutPoint]int         // htlc output of a two-stage resolver -> its input/output index in sweeper txs
	stage2  map[wire.OutPoint]*wire.TxOut // ... -> the second-level output its spend creates
	presig  map[wire.OutPoint]int64       // pre-signed second-level outpoints (never on chain for zero-fee htlcs) -> resolver key
	walletSeq uint32
	csvOK   bool
	epochs  []*vrEpochSub
	height  int32 // chain height (meaningful once the gate is open)
	envPos  int   // next step of Spec.Env
	envCrashed bool
	known   map[lntypes.Hash]lntypes.Preimage // witness beacon store (durable)
	subs    []chan lntypes.Preimage           // beacon subscribers (volatile)
	needPre map[wire.OutPoint]lntypes.Hash    // htlc outputs only a preimage spend can claim
	inPre   map[int64]lntypes.Preimage        // received htlc index -> its preimage
	badSweeps int
	watch   [][]int64 // real waits: [resolver key, type, incubating, resolved, preimage, level]
	gateOK  bool
	gateCh  chan struct{} // closed when the gate opens
	bcastCh chan struct{} // closed when MarkCommitmentBroadcasted is durable
	bcastMu sync.Once

	commitHash chainhash.Hash
	closeTx    *wire.MsgTx
	htlcs      map[HtlcSetKey][]channeldb.HTLC
	preimage   lntypes.Preimage
}

type vrOut struct {
	pk    []byte
	val   int64
	owner int64 // key of the resolver the output belongs to (-1: nobody's)
	level int64 // 0: output of the commitment tx, 1: output of a second-level tx
}

type vrWaiter struct {
	ch    chan *chainntnfs.SpendDetail
	op    wire.OutPoint
	pk    []byte
	fired bool
}

type vrPend struct {
	inp input.Input
	res chan sweep.Result
}

type vrEpochSub struct {
	ch   chan *chainntnfs.BlockEpoch
	last int32
}

// emitCommitted records an output that IS a committed transaction of the
// wrapped database (the stop flag may already be set by that very commit).
func (w *vrWorld) emitCommitted(o ...int64) {
	w.db.touch()
	w.mu.Lock()
	w.outs[fmt.Sprint(o)] = o
	w.mu.Unlock()
}

func (w *vrWorld) emitOut(o ...int64) {
	if w.db.stopped.Load() {
		return // the world has stopped: nothing is observable any more
	}
	w.db.touch()
	w.mu.Lock()
	w.outs[fmt.Sprint(o)] = o
	w.mu.Unlock()
}

// snapshot decodes the abstract database content.
func (w *vrWorld) snapshot() *vrSnap {
	s := &vrSnap{Con: [][]int64{}, Rep: [][]int64{}}
	err := w.inner.View(func(tx walletdb.ReadTx) error {
		if b := tx.ReadBucket(vrChanBucket); b != nil {
			s.BC = b.Get([]byte("bcast")) != nil
			s.CL = b.Get([]byte("closed")) != nil
			s.Full = b.Get([]byte("full")) != nil
		}
		if b := tx.ReadBucket(vrReportBucket); b != nil {
			_ = b.ForEach(func(k, v []byte) error {
				s.Rep = append(s.Rep, []int64{
					int64(binary.BigEndian.Uint32(k[0:4])), int64(k[4]),
				})
				return nil
			})
		}
		sb := tx.ReadBucket(w.scope[:])
		if sb == nil {
			return nil
		}
		if st := sb.Get(stateKey); st != nil {
			s.St = vrStateCode(ArbitratorState(st[0]))
		}
		s.Res = sb.Get(resolutionsKey) != nil
		s.CS = sb.Get(commitSetKey) != nil
		cb := sb.NestedReadBucket(contractsBucketKey)
		if cb == nil {
			return nil
		}
		return cb.ForEach(func(k, v []byte) error {
			id, ok := w.keys[hex.EncodeToString(k)]
			if !ok {
				id = -1
			}
			typ := int64(v[0])
			rd := bytes.NewReader(v[1:])
			var inc, res, pre bool
			cfg := ResolverConfig{}
			switch resolverType(v[0]) {
			case resolverTimeout:
				r, err := newTimeoutResolverFromReader(rd, cfg)
				if err != nil {
					return err
				}
				inc, res = r.outputIncubating, r.IsResolved()
			case resolverOutgoingContest:
				r, err := newOutgoingContestResolverFromReader(rd, cfg)
				if err != nil {
					return err
				}
				inc, res = r.outputIncubating, r.IsResolved()
			case resolverSuccess:
				r, err := newSuccessResolverFromReader(rd, cfg)
				if err != nil {
					return err
				}
				inc, res = r.outputIncubating, r.IsResolved()
				pre = r.htlcResolution.Preimage != lntypes.Preimage{}
			case resolverIncomingContest:
				r, err := newIncomingContestResolverFromReader(rd, cfg)
				if err != nil {
					return err
				}
				inc, res = r.outputIncubating, r.IsResolved()
				pre = r.htlcResolution.Preimage != lntypes.Preimage{}
			case resolverUnilateralSweep:
				r, err := newCommitSweepResolverFromReader(rd, cfg)
				if err != nil {
					return err
				}
				res = r.IsResolved()
			case resolverBreach:
				r, err := newBreachResolverFromReader(rd, cfg)
				if err != nil {
					return err
				}
				res = r.IsResolved()
			}
			b2i := func(b bool) int64 {
				if b {
					return 1
				}
				return 0
			}
			s.Con = append(s.Con, []int64{id, typ, b2i(inc), b2i(res), b2i(pre)})
			return nil
		})
	}, func() {})
	if err != nil {
		w.t.Fatalf("snapshot: %v", err)
	}
	sort.Slice(s.Con, func(i, j int) bool { return s.Con[i][0] < s.Con[j][0] })
	sort.Slice(s.Rep, func(i, j int) bool {
		if s.Rep[i][0] != s.Rep[j][0] {
			return s.Rep[i][0] < s.Rep[j][0]
		}
		return s.Rep[i][1] < s.Rep[j][1]
	})
	return s
}

func (w *vrWorld) chanPut(key string, val []byte) error {
	return w.db.Update(func(tx walletdb.ReadWriteTx) error {
		b, err := tx.CreateTopLevelBucket(vrChanBucket)
		if err != nil {
			return err
		}
		return b.Put([]byte(key), val)
	}, func() {})
}

func (w *vrWorld) chanGet(key string) []byte {
	var out []byte
	_ = w.inner.View(func(tx walletdb.ReadTx) error {
		if b := tx.ReadBucket(vrChanBucket); b != nil {
			if v := b.Get([]byte(key)); v != nil {
				out = append([]byte{}, v...)
			}
		}
		return nil
	}, func() {})
	return out
}

func (w *vrWorld) putReport(tx kvdb.RwTx, r *channeldb.ResolverReport) error {
	// anchor reports are best effort in lnd (the anchor resolver is not
	// persisted and not awaited): not part of the compared outcome.
	if r.ResolverType == channeldb.ResolverTypeAnchor {
		if tx == nil {
			return w.db.Update(func(walletdb.ReadWriteTx) error { return nil }, func() {})
		}
		return nil
	}
	k := make([]byte, 5)
	binary.BigEndian.PutUint32(k[0:4], r.OutPoint.Index)
	k[4] = byte(r.ResolverOutcome)
	put := func(tx walletdb.ReadWriteTx) error {
		b, err := tx.CreateTopLevelBucket(vrReportBucket)
		if err != nil {
			return err
		}
		return b.Put(k, []byte{1})
	}
	if tx == nil {
		return w.db.Update(put, func() {})
	}
	return put(tx)
}

// ---- chain environment ----

func (w *vrWorld) markSpentLocked(op wire.OutPoint, d *chainntnfs.SpendDetail) {
	if _, ok := w.spent[op]; ok {
		return
	}
	w.spent[op] = d
	out := w.utxo[op]
	for _, wt := range w.waiters[op] {
		// a notifier matches spends by outpoint AND script
		if wt.fired || out == nil || !bytes.Equal(wt.pk, out.pk) {
			continue
		}
		select {
		case wt.ch <- d:
			wt.fired = true
		default:
		}
	}
}

func (w *vrWorld) walletIn() *wire.TxIn {
	w.walletSeq++
	var h chainhash.Hash
	binary.BigEndian.PutUint32(h[:4], w.walletSeq)
	binary.BigEndian.PutUint64(h[8:16], uint64(w.c.ID))
	h[31] = 0xaa
	return &wire.TxIn{PreviousOutPoint: wire.OutPoint{Hash: h}, Witness: wire.TxWitness{{7}}}
}

// publishLocked: our sweeper publishes ONE transaction for everything that
// is pending and spendable, and it confirms.  Like the real sweeper it adds
// wallet inputs (the txid of a zero-fee second-level htlc tx is therefore
// never the pre-signed one) and aggregates; a SINGLE|ANYONECANPAY
// second-level input sits at a non-zero index with its output at the same
// index.
func (w *vrWorld) publishLocked() {
	nRes := 1 + len(w.twoPos)
	var use []*vrPend
	var rest []*vrPend
	for _, pd := range w.pending {
		op := pd.inp.OutPoint()
		if d, ok := w.spent[op]; ok {
			// offered again after a restart: the sweeper finds it spent
			pd.res <- sweep.Result{Tx: d.SpendingTx}
			continue
		}
		out, ok := w.utxo[op]
		if !ok || (out.level == 1 && !w.csvOK) {
			// not (yet) on chain, or the CSV delay of a second-level
			// output has not passed (blocks are slow: it passes only
			// while the node is quiescent): the sweeper keeps it
			rest = append(rest, pd)
			continue
		}
		dup := false
		for _, u := range use {
			dup = dup || u.inp.OutPoint() == op
		}
		if dup {
			rest = append(rest, pd)
			continue
		}
		use = append(use, pd)
	}
	w.pending = rest
	if len(use) == 0 {
		return
	}
	tx := &wire.MsgTx{Version: 2}
	for i := 0; i < nRes; i++ {
		tx.TxIn = append(tx.TxIn, w.walletIn())
		tx.TxOut = append(tx.TxOut, &wire.TxOut{Value: 700 + int64(i), PkScript: []byte{0xa0, byte(i)}})
	}
	idx := map[wire.OutPoint]int{}
	for _, pd := range use {
		op := pd.inp.OutPoint()
		wit := wire.TxWitness{{1}, {2}}
		if f, ok := w.witFor[op]; ok {
			wit = f(pd.inp)
		}
		in := &wire.TxIn{PreviousOutPoint: op, Witness: wit}
		if pos, ok := w.twoPos[op]; ok {
			tx.TxIn[pos] = in
			o := *w.stage2[op]
			tx.TxOut[pos] = &o
			idx[op] = pos
			continue
		}
		idx[op] = len(tx.TxIn)
		tx.TxIn = append(tx.TxIn, in)
		tx.TxOut = append(tx.TxOut, &wire.TxOut{Value: 600, PkScript: []byte{0xa1, byte(len(tx.TxIn))}})
	}
	txid := tx.TxHash()
	for i, o := range tx.TxOut {
		// wallet / change outputs exist too (nobody's: level 2)
		w.utxo[wire.OutPoint{Hash: txid, Index: uint32(i)}] = &vrOut{
			pk: o.PkScript, val: o.Value, owner: -1, level: 2}
	}
	for _, pd := range use {
		op := pd.inp.OutPoint()
		i := idx[op]
		if _, ok := w.twoPos[op]; ok {
			w.utxo[wire.OutPoint{Hash: txid, Index: uint32(i)}] = &vrOut{
				pk: tx.TxOut[i].PkScript, val: tx.TxOut[i].Value,
				owner: w.utxo[op].owner, level: 1,
			}
		}
		opc, h := op, txid
		w.markSpentLocked(op, &chainntnfs.SpendDetail{
			SpentOutPoint: &opc, SpenderTxHash: &h, SpendingTx: tx,
			SpenderInputIndex: uint32(i), SpendingHeight: vrCloseHeight + 50,
		})
		pd.res <- sweep.Result{Tx: tx}
	}
}

// gate opens once the arbitrator has durably reached WaitingFullResolution
// (or at once for eager scenarios): from then on offered sweeps confirm,
// remote claims are visible and blocks arrive.
func (w *vrWorld) pump() {
	w.mu.Lock()
	defer w.mu.Unlock()
	if !w.gateOK || w.db.stopped.Load() {
		return
	}
	for _, op := range w.remote {
		if d, ok := w.onSweep[op]; ok {
			w.markSpentLocked(op, d)
		}
	}
	w.remote = nil
	w.publishLocked()
	for _, e := range w.epochs {
		if e.last == w.height {
			continue
		}
		select {
		case e.ch <- &chainntnfs.BlockEpoch{Height: w.height}:
			e.last = w.height
		default:
		}
	}
}

// openGate: WaitingFullResolution is durable (or the scenario is eager): the
// chain starts to move.
func (w *vrWorld) openGate() {
	w.mu.Lock()
	w.gateOK = true
	w.height = 2000
	if w.c.Spec.H0 != 0 {
		w.height = int32(w.c.Spec.H0)
	}
	close(w.gateCh)
	w.mu.Unlock()
	w.db.touch()
}

// addPreimage: the witness beacon learns a preimage (durable), subscribers
// are notified unless quiet.
func (w *vrWorld) addPreimage(p lntypes.Preimage, quiet bool) {
	w.mu.Lock()
	defer w.mu.Unlock()
	w.known[p.Hash()] = p
	if quiet {
		return
	}
	for _, ch := range w.subs {
		select {
		case ch <- p:
		default:
		}
	}
}

func (w *vrWorld) envLeft() bool {
	w.mu.Lock()
	defer w.mu.Unlock()
	return w.gateOK && (w.envPos < len(w.c.Spec.Env) || w.csvWaitingLocked())
}

func (w *vrWorld) csvWaitingLocked() bool {
	for _, pd := range w.pending {
		if out, ok := w.utxo[pd.inp.OutPoint()]; ok && out.level == 1 {
			if _, sp := w.spent[pd.inp.OutPoint()]; !sp {
				return true
			}
		}
	}
	return false
}

// envStep delivers the next environment event; false if there is none.
// crash = the event was a quiet preimage write followed by a node stop.
func (w *vrWorld) envStep() (ok bool, crash bool) {
	w.mu.Lock()
	if w.gateOK && w.csvWaitingLocked() {
		// the CSV delay of the pending second-level outputs passes
		w.csvOK = true
		w.mu.Unlock()
		w.db.touch()
		w.pump()
		w.mu.Lock()
		w.csvOK = false
		w.mu.Unlock()
		return true, false
	}
	if !w.gateOK || w.envPos >= len(w.c.Spec.Env) {
		w.mu.Unlock()
		return false, false
	}
	st := w.c.Spec.Env[w.envPos]
	w.envPos++
	if st.H != 0 {
		w.height = int32(st.H)
	}
	w.mu.Unlock()
	w.db.touch()
	if st.Pre != 0 {
		quiet := w.c.EnvCrash && !w.envCrashed
		w.addPreimage(w.inPre[st.Pre], quiet)
		if quiet {
			w.envCrashed = true
			return true, true
		}
	}
	w.pump()
	return true, false
}

type vrNotifier struct{ w *vrWorld }

func (n *vrNotifier) RegisterConfirmationsNtfn(txid *chainhash.Hash, pk []byte, _ uint32, _ uint32,
	_ ...chainntnfs.NotifierOption) (*chainntnfs.ConfirmationEvent, error) {

	// confirms only for a transaction that is on chain and has an output
	// with the registered script
	w := n.w
	ch := make(chan *chainntnfs.TxConfirmation, 1)
	w.mu.Lock()
	for op, o := range w.utxo {
		if txid != nil && op.Hash == *txid && bytes.Equal(o.pk, pk) {
			ch <- &chainntnfs.TxConfirmation{Tx: &wire.MsgTx{}}
			break
		}
	}
	w.mu.Unlock()
	return &chainntnfs.ConfirmationEvent{Confirmed: ch, Cancel: func() {}}, nil
}

func (n *vrNotifier) RegisterSpendNtfn(op *wire.OutPoint, pk []byte,
	_ uint32) (*chainntnfs.SpendEvent, error) {

	w := n.w
	wt := &vrWaiter{ch: make(chan *chainntnfs.SpendDetail, 1), op: *op,
		pk: append([]byte{}, pk...)}
	w.mu.Lock()
	out := w.utxo[*op]
	owner, level := int64(-1), int64(9) // 9: the outpoint does not exist on chain
	switch {
	case out != nil && bytes.Equal(out.pk, pk):
		owner, level = out.owner, out.level
	case out != nil:
		owner, level = out.owner, 8 // exists, but registered with another script
	default:
		if k, ok := w.presig[*op]; ok {
			owner = k
		}
	}
	if d, ok := w.spent[*op]; ok && level < 8 {
		wt.ch <- d
		wt.fired = true
	}
	w.waiters[*op] = append(w.waiters[*op], wt)
	w.mu.Unlock()
	if !wt.fired && !w.db.stopped.Load() {
		// a real wait: record what the resolver is parked on together
		// with the persisted state of its contract at this moment
		row := []int64{owner, -1, 0, 0, 0, level}
		for _, cn := range w.snapshot().Con {
			if cn[0] == owner {
				row = []int64{owner, cn[1], cn[2], cn[3], cn[4], level}
			}
		}
		w.mu.Lock()
		w.watch = append(w.watch, row)
		w.mu.Unlock()
	}
	return &chainntnfs.SpendEvent{Spend: wt.ch, Cancel: func() {}}, nil
}

// badWaits: at quiescence every outpoint a resolver is still parked on must
// exist on chain with the registered script; anything else can never fire.
func (w *vrWorld) badWaits() {
	w.mu.Lock()
	var bad [][]int64
	for op, l := range w.waiters {
		for _, wt := range l {
			if wt.fired {
				continue
			}
			out := w.utxo[op]
			owner := int64(-1)
			if k, ok := w.presig[op]; ok {
				owner = k
			}
			switch {
			case out == nil:
				bad = append(bad, []int64{8, 1, owner})
			case !bytes.Equal(out.pk, wt.pk):
				bad = append(bad, []int64{8, 2, out.owner})
			}
		}
	}
	w.mu.Unlock()
	for _, b := range bad {
		w.emitOut(b...)
	}
}

func (n *vrNotifier) RegisterBlockEpochNtfn(*chainntnfs.BlockEpoch) (
	*chainntnfs.BlockEpochEvent, error) {

	w := n.w
	ch := make(chan *chainntnfs.BlockEpoch, 1)
	w.mu.Lock()
	w.epochs = append(w.epochs, &vrEpochSub{ch: ch, last: -1})
	w.mu.Unlock()
	w.pump()
	return &chainntnfs.BlockEpochEvent{Epochs: ch, Cancel: func() {}}, nil
}
func (n *vrNotifier) Start() error  { return nil }
func (n *vrNotifier) Started() bool { return true }
func (n *vrNotifier) Stop() error   { return nil }

type vrSweeper struct{ w *vrWorld }

func (s *vrSweeper) SweepInput(inp input.Input, _ sweep.Params) (chan sweep.Result, error) {
	w := s.w
	w.db.touch()
	op := inp.OutPoint()
	ch := make(chan sweep.Result, 2)
	if w.db.stopped.Load() {
		// the world has stopped: nothing reaches the sweeper any more
		return ch, nil
	}
	w.mu.Lock()
	if hsh, ok := w.needPre[op]; ok {
		// only a witness with the htlc's preimage can spend this output:
		// a sweep built with another (or no) preimage never confirms
		p := inp.Preimage().UnwrapOr(lntypes.Preimage{})
		if !p.Matches(hsh) {
			w.badSweeps++
			w.mu.Unlock()
			return ch, nil
		}
	}
	w.pending = append(w.pending, &vrPend{inp: inp, res: ch})
	w.mu.Unlock()
	w.pump()
	return ch, nil
}
func (s *vrSweeper) RelayFeePerKW() chainfee.SatPerKWeight { return 253 }
func (s *vrSweeper) UpdateParams(wire.OutPoint, sweep.Params) (chan sweep.Result, error) {
	return make(chan sweep.Result, 1), nil
}

type vrBeacon struct{ w *vrWorld }

func (m *vrBeacon) SubscribeUpdates(lnwire.ShortChannelID, *channeldb.HTLC,
	*hop.Payload, []byte) (*WitnessSubscription, error) {

	ch := make(chan lntypes.Preimage, 8)
	m.w.mu.Lock()
	m.w.subs = append(m.w.subs, ch)
	m.w.mu.Unlock()
	return &WitnessSubscription{
		WitnessUpdates:     ch,
		CancelSubscription: func() {},
	}, nil
}
func (m *vrBeacon) LookupPreimage(h lntypes.Hash) (lntypes.Preimage, bool) {
	m.w.mu.Lock()
	defer m.w.mu.Unlock()
	p, ok := m.w.known[h]
	return p, ok
}
func (m *vrBeacon) AddPreimages(ps ...lntypes.Preimage) error {
	if m.w.db.stopped.Load() {
		return nil
	}
	for _, p := range ps {
		m.w.addPreimage(p, false)
	}
	return nil
}

// vrOnion: every received htlc of the scenarios is a forwarded one (we are
// not the exit hop): its preimage can only come from the witness beacon.
type vrOnion struct{}

func (vrOnion) ReconstructHopIterator(r io.Reader, _ []byte,
	_ hop.ReconstructBlindingInfo) (hop.Iterator, error) {

	if _, err := io.ReadAll(r); err != nil {
		return nil, err
	}
	return &mockHopIterator{}, nil
}

type vrChannel struct{ w *vrWorld }

func (m *vrChannel) NewAnchorResolutions() (*lnwallet.AnchorResolutions, error) {
	return &lnwallet.AnchorResolutions{}, nil
}
func (m *vrChannel) ForceCloseChan() (*wire.MsgTx, error) {
	m.w.emitOut(4)
	return m.w.closeTx, nil
}

// ---------------------------------------------------------------------
// scenario construction

const (
	vrCloseHeight = 500
	vrStartHeight = 100
)

// inPreimage: the preimage of received htlc idx (the htlc's RHash is its hash).
func (w *vrWorld) inPreimage(idx int64) lntypes.Preimage {
	if p, ok := w.inPre[idx]; ok {
		return p
	}
	p := lntypes.Preimage{0x43, byte(w.c.ID), byte(w.c.ID >> 8), byte(idx)}
	w.inPre[idx] = p
	return p
}

func vrSignDesc() input.SignDescriptor {
	return input.SignDescriptor{Output: &wire.TxOut{Value: 10000}, WitnessScript: []byte{0}}
}

func vrHash(id int64) (h [32]byte) {
	binary.BigEndian.PutUint64(h[:8], uint64(id))
	h[31] = 0xc3
	return h
}

// ourTimeoutWitness: <sig> 0 <script> -- not a preimage spend on any path.
func vrSpendBy(op wire.OutPoint, wit wire.TxWitness, tag byte) *chainntnfs.SpendDetail {
	tx := &wire.MsgTx{
		Version: 2,
		TxIn:    []*wire.TxIn{{PreviousOutPoint: op, Witness: wit}},
		TxOut:   []*wire.TxOut{{Value: 9000, PkScript: []byte{tag}}},
	}
	h := tx.TxHash()
	opc := op
	return &chainntnfs.SpendDetail{
		SpentOutPoint: &opc, SpenderTxHash: &h, SpendingTx: tx,
		SpenderInputIndex: 0, SpendingHeight: vrCloseHeight + 50,
	}
}

type vrEvent struct {
	coop   *CooperativeCloseInfo
	local  *LocalUnilateralCloseInfo
	remote *RemoteUnilateralCloseInfo
	breach *BreachCloseInfo
}

// vrBuild fills the world (htlc sets, chain behaviour, resolver keys) from
// the spec and returns the close event the chain watcher would deliver.
func (w *vrWorld) build() vrEvent {
	sp := &w.c.Spec
	w.htlcs = map[HtlcSetKey][]channeldb.HTLC{LocalHtlcSet: nil, RemoteHtlcSet: nil}
	w.closeTx = &wire.MsgTx{Version: 2, TxIn: []*wire.TxIn{{
		PreviousOutPoint: w.cp, Witness: [][]byte{{0x1}, {byte(w.c.ID)}, {byte(w.c.ID >> 8)}},
	}}, TxOut: []*wire.TxOut{{Value: 1}}}
	local := sp.Kind == "local"
	if local {
		w.commitHash = w.closeTx.TxHash()
	} else {
		binary.BigEndian.PutUint64(w.commitHash[:8], uint64(w.c.ID)+99)
		w.commitHash[31] = 0x77
	}
	confKey := LocalHtlcSet
	switch sp.Kind {
	case "remote", "breach":
		confKey = RemoteHtlcSet
	case "pending":
		confKey = RemotePendingHtlcSet
	}
	addHtlc := func(key HtlcSetKey, h channeldb.HTLC) {
		w.htlcs[key] = append(w.htlcs[key], h)
	}
	mk := func(idx int64, incoming bool, oi int32, expiry uint32, hash [32]byte) channeldb.HTLC {
		return channeldb.HTLC{
			HtlcIndex: uint64(idx), Incoming: incoming, OutputIndex: oi,
			RefundTimeout: expiry, RHash: hash, Amt: lnwire.MilliSatoshi(5000000 + idx),
		}
	}
	hr := &lnwallet.HtlcResolutions{}
	regKey := func(op wire.OutPoint, id int64) {
		k := newResolverID(op)
		w.keys[hex.EncodeToString(k[:])] = id
	}
	w.preimage = lntypes.Preimage{0x42, byte(w.c.ID)}
	preHash := sha256.Sum256(w.preimage[:])

	// dust / dangling / final htlcs
	for _, i := range sp.FailsDefault {
		// offered dust on the confirmed commitment (and on ours)
		addHtlc(confKey, mk(i, false, -1, 900, vrHash(i)))
		if confKey != LocalHtlcSet {
			addHtlc(LocalHtlcSet, mk(i, false, -1, 900, vrHash(i)))
		}
	}
	for _, i := range sp.FinalsClosed {
		addHtlc(confKey, mk(i, true, -1, 900, vrHash(i)))
	}
	if sp.Kind == "pending" {
		// dangling: offered htlc on the remote commitment that is not on
		// the confirmed pending one
		for _, i := range sp.FailsClosed {
			addHtlc(RemoteHtlcSet, mk(i, false, int32(40+i), 900, vrHash(i)))
		}
	}
	if sp.Kind == "breach" {
		for _, i := range sp.FailsClosed {
			addHtlc(RemoteHtlcSet, mk(i, false, int32(40+i), 900, vrHash(i)))
		}
	}

	for _, cl := range sp.Collide {
		key := LocalHtlcSet
		switch cl.Set {
		case "remote":
			key = RemoteHtlcSet
		case "pending":
			key = RemotePendingHtlcSet
		}
		if key == confKey {
			w.t.Fatalf("collider must not be on the confirmed commitment")
		}
		// offered, non-dust, far from expiry, own hash and amount
		addHtlc(key, mk(cl.Idx, false, int32(cl.OutIdx), 900, vrHash(cl.Idx)))
	}

	// scripts: every output has its own pkScript
	pkOf := func(tag byte, key int64) []byte {
		return []byte{0x00, 0x20, tag, byte(key), byte(key >> 8), byte(w.c.ID), byte(w.c.ID >> 8)}
	}
	sdOf := func(pk []byte, val int64) input.SignDescriptor {
		return input.SignDescriptor{Output: &wire.TxOut{Value: val, PkScript: pk},
			WitnessScript: []byte{0}}
	}
	// taproot: a v1 witness program for second-level outputs, and the htlc
	// output key derived from (internal key, tapleaf) the way
	// chainDetailsToWatch re-derives it from the pre-signed witness
	_, tapPub := btcec.PrivKeyFromBytes([]byte{0x13, byte(w.c.ID), 0x07, 0x01})
	tapCtrl := txscript.ControlBlock{
		InternalKey: tapPub, LeafVersion: txscript.BaseLeafVersion,
	}
	tapCtrlBytes, err := tapCtrl.ToBytes()
	if err != nil {
		w.t.Fatal(err)
	}
	tapPk := func(ws []byte) []byte {
		root := tapCtrl.RootHash(ws)
		pk, err := txscript.PayToTaprootScript(
			txscript.ComputeTaprootOutputKey(tapCtrl.InternalKey, root))
		if err != nil {
			w.t.Fatal(err)
		}
		return pk
	}
	p2tr := func(tag byte, key int64) []byte {
		pk := make([]byte, 34)
		pk[0], pk[1] = txscript.OP_1, txscript.OP_DATA_32
		pk[2], pk[3], pk[4], pk[5], pk[6] = tag, byte(key), byte(key>>8), byte(w.c.ID), byte(w.c.ID>>8)
		return pk
	}
	onChain := func(op wire.OutPoint, pk []byte, key int64) {
		w.utxo[op] = &vrOut{pk: pk, val: 10000, owner: key, level: 0}
	}
	var commitRes *lnwallet.CommitOutputResolution
	for _, r := range sp.Resolvers {
		op := wire.OutPoint{Hash: w.commitHash, Index: uint32(r.Key)}
		switch r.Kind {
		case "commit":
			pk := pkOf(1, r.Key)
			commitRes = &lnwallet.CommitOutputResolution{
				SelfOutPoint: op, SelfOutputSignDesc: sdOf(pk, 10000), MaturityDelay: 144,
			}
			onChain(op, pk, r.Key)
			regKey(op, r.Key)
		case "breach":
			regKey(w.cp, r.Key)
		case "timeout_remote", "contest_timeout":
			// timeout_remote: expiry within the broadcast delta at the close height
			exp := uint32(vrCloseHeight + 5)
			if r.Kind == "contest_timeout" {
				exp = 1500
			}
			pk := pkOf(2, r.Key)
			addHtlc(confKey, mk(r.Idx, false, int32(r.Key), exp, vrHash(r.Idx)))
			hr.OutgoingHTLCs = append(hr.OutgoingHTLCs, lnwallet.OutgoingHtlcResolution{
				Expiry: exp, ClaimOutpoint: op, SweepSignDesc: sdOf(pk, 10000),
			})
			onChain(op, pk, r.Key)
			// <sig> 0 <script>: not a preimage spend
			w.witFor[op] = func(input.Input) wire.TxWitness { return wire.TxWitness{{1}, {}, {2}} }
			regKey(op, r.Key)
		case "contest_claim":
			// the remote party claims with the preimage as soon as the
			// commitment is confirmed
			pk := pkOf(2, r.Key)
			addHtlc(confKey, mk(r.Idx, false, int32(r.Key), 1500, preHash))
			hr.OutgoingHTLCs = append(hr.OutgoingHTLCs, lnwallet.OutgoingHtlcResolution{
				Expiry: 1500, ClaimOutpoint: op, SweepSignDesc: sdOf(pk, 10000),
			})
			onChain(op, pk, r.Key)
			w.onSweep[op] = vrSpendBy(op, wire.TxWitness{{}, {1}, {2}, w.preimage[:], {3}}, 2)
			w.remote = append(w.remote, op) // visible once the gate opens
			regKey(op, r.Key)
		case "timeout_local2", "contest_timeout_local2":
			// our commitment, zero-fee htlc (anchor) channel: second-level
			// timeout tx, signed SINGLE|ANYONECANPAY: the sweeper re-signs
			// it with a wallet input, so its txid is NOT the pre-signed one.
			// contest_: the htlc is far from its expiry at the close
			// (outgoing contest resolver first)
			exp := uint32(vrCloseHeight + 5)
			if r.Kind == "contest_timeout_local2" {
				exp = 1500
			}
			addHtlc(confKey, mk(r.Idx, false, int32(r.Key), exp, vrHash(r.Idx)))
			pk2 := pkOf(3, r.Key)
			ws := []byte{0x51, byte(r.Key)}
			// <0> <sender sig> <recvr sig> <0> <witness script>
			twit := wire.TxWitness{{}, {1}, {2}, {}, ws}
			if sp.Taproot {
				// <recvr sig> <sender sig> <timeout script> <control block>
				pk2 = p2tr(3, r.Key)
				twit = wire.TxWitness{{1}, {2}, ws, tapCtrlBytes}
			}
			ttx := &wire.MsgTx{
				Version: 2,
				TxIn:    []*wire.TxIn{{PreviousOutPoint: op, Witness: twit}},
				TxOut:   []*wire.TxOut{{Value: 9000, PkScript: pk2}},
			}
			pre := wire.OutPoint{Hash: ttx.TxHash(), Index: 0}
			hr.OutgoingHTLCs = append(hr.OutgoingHTLCs, lnwallet.OutgoingHtlcResolution{
				Expiry: exp, SignedTimeoutTx: ttx, CsvDelay: 4,
				ClaimOutpoint: pre,
				SweepSignDesc: sdOf(pk2, 9000),
				SignDetails: &input.SignDetails{
					SignDesc: testSignDesc, SigHashType: 0x83, PeerSig: testSig,
				},
			})
			// the htlc output pays to the script hash of the witness script
			pk, err := input.WitnessScriptHash(ws)
			if err != nil {
				w.t.Fatal(err)
			}
			if sp.Taproot {
				pk = tapPk(ws)
			}
			onChain(op, pk, r.Key)
			w.twoPos[op] = int(r.Pos)
			w.stage2[op] = ttx.TxOut[0]
			w.presig[pre] = r.Key
			wit := ttx.TxIn[0].Witness
			w.witFor[op] = func(input.Input) wire.TxWitness { return wit }
			regKey(op, r.Key)
		case "in_claim_remote", "in_expire_remote":
			// received htlc on the remote commitment: claimable with the
			// preimage by a direct spend; expiry 1500
			pre := w.inPreimage(r.Idx)
			pk := pkOf(4, r.Key)
			addHtlc(confKey, mk(r.Idx, true, int32(r.Key), 1500, pre.Hash()))
			hr.IncomingHTLCs = append(hr.IncomingHTLCs, lnwallet.IncomingHtlcResolution{
				ClaimOutpoint: op, SweepSignDesc: sdOf(pk, 10000), CsvDelay: 4,
			})
			onChain(op, pk, r.Key)
			w.needPre[op] = pre.Hash()
			// <sig> <preimage> <witness script>
			w.witFor[op] = func(inp input.Input) wire.TxWitness {
				p := inp.Preimage().UnwrapOr(lntypes.Preimage{})
				return wire.TxWitness{{1}, p[:], {0}}
			}
			regKey(op, r.Key)
		case "in_claim_local2", "in_expire_local2":
			// received htlc on OUR commitment, zero-fee htlc channel:
			// second-level success tx (needs the preimage; re-signed by the
			// sweeper like the timeout tx), then its CSV-locked output
			pre := w.inPreimage(r.Idx)
			addHtlc(confKey, mk(r.Idx, true, int32(r.Key), 1500, pre.Hash()))
			pk2 := pkOf(5, r.Key)
			// <0> <sender sig> <recvr sig> <preimage> <witness script>
			swit, preAt := wire.TxWitness{{}, {1}, {2}, {}, {0x52}}, 3
			if sp.Taproot {
				// <sender sig> <recvr sig> <preimage> <success script> <control block>
				pk2 = p2tr(5, r.Key)
				swit, preAt = wire.TxWitness{{1}, {2}, {}, {0x52}, tapCtrlBytes}, 2
			}
			stx := &wire.MsgTx{
				Version: 2,
				TxIn:    []*wire.TxIn{{PreviousOutPoint: op, Witness: swit}},
				TxOut:   []*wire.TxOut{{Value: 10000, PkScript: pk2}},
			}
			sh := stx.TxHash()
			op2 := wire.OutPoint{Hash: sh, Index: 0}
			if r.Kind == "in_expire_local2" {
				// never spent by us; the Timeout report of the contest
				// resolver names the (pre-signed) ClaimOutpoint: give it
				// an index no other report of the scenario uses
				op2.Index = 77
			}
			sd := testSignDesc
			sd.Output = &wire.TxOut{Value: 10000, PkScript: pkOf(6, r.Key)}
			hr.IncomingHTLCs = append(hr.IncomingHTLCs, lnwallet.IncomingHtlcResolution{
				SignedSuccessTx: stx, CsvDelay: 4, ClaimOutpoint: op2,
				SweepSignDesc: sdOf(pk2, 10000),
				SignDetails: &input.SignDetails{
					SignDesc: sd, SigHashType: 0x83, PeerSig: testSig,
				},
			})
			onChain(op, sd.Output.PkScript, r.Key)
			w.needPre[op] = pre.Hash()
			w.twoPos[op] = int(r.Pos)
			w.stage2[op] = stx.TxOut[0]
			w.presig[op2] = r.Key
			w.witFor[op] = func(inp input.Input) wire.TxWitness {
				p := inp.Preimage().UnwrapOr(lntypes.Preimage{})
				wit := append(wire.TxWitness{}, swit...)
				wit[preAt] = p[:]
				return wit
			}
			regKey(op, r.Key)
		default:
			w.t.Fatalf("unknown resolver kind %q", r.Kind)
		}
	}
	for _, i := range sp.Known {
		w.addPreimage(w.inPreimage(i), true)
	}
	hcopy := func() map[HtlcSetKey][]channeldb.HTLC {
		m := map[HtlcSetKey][]channeldb.HTLC{}
		for k, v := range w.htlcs {
			m[k] = append([]channeldb.HTLC{}, v...)
		}
		if sp.Kind == "pending" {
			if _, ok := m[RemotePendingHtlcSet]; !ok {
				m[RemotePendingHtlcSet] = []channeldb.HTLC{}
			}
		}
		return m
	}
	cs := CommitSet{ConfCommitKey: fn.Some(confKey), HtlcSets: hcopy()}
	var anchor *lnwallet.AnchorResolution
	if sp.Anchor {
		anchor = &lnwallet.AnchorResolution{
			AnchorSignDescriptor: vrSignDesc(),
			CommitAnchor:         wire.OutPoint{Hash: w.commitHash, Index: 901},
		}
	}
	summary := channeldb.ChannelCloseSummary{ChanPoint: w.cp, CloseHeight: vrCloseHeight}
	switch sp.Kind {
	case "coop":
		summary.CloseType = channeldb.CooperativeClose
		return vrEvent{coop: &CooperativeCloseInfo{ChannelCloseSummary: &summary}}
	case "local":
		summary.CloseType = channeldb.LocalForceClose
		cr := lnwallet.ContractResolutions{
			CommitResolution: commitRes, HtlcResolutions: hr, AnchorResolution: anchor,
		}
		return vrEvent{local: &LocalUnilateralCloseInfo{
			SpendDetail: &chainntnfs.SpendDetail{SpendingHeight: vrCloseHeight},
			LocalForceCloseSummary: &lnwallet.LocalForceCloseSummary{
				CloseTx: w.closeTx, ContractResolutions: fn.Some(cr),
			},
			ChannelCloseSummary: &summary,
			CommitSet:           cs,
		}}
	case "remote", "pending":
		summary.CloseType = channeldb.RemoteForceClose
		ch := w.commitHash
		us := &lnwallet.UnilateralCloseSummary{
			SpendDetail: &chainntnfs.SpendDetail{
				SpenderTxHash: &ch, SpendingHeight: vrCloseHeight,
			},
			ChannelCloseSummary: summary,
			HtlcResolutions:     hr,
			CommitResolution:    commitRes,
			AnchorResolution:    anchor,
		}
		return vrEvent{remote: &RemoteUnilateralCloseInfo{
			UnilateralCloseSummary: us, CommitSet: cs,
		}}
	case "breach":
		summary.CloseType = channeldb.BreachClose
		return vrEvent{breach: &BreachCloseInfo{
			BreachResolution: &BreachResolution{FundingOutPoint: w.cp},
			AnchorResolution: anchor,
			CommitHash:       w.commitHash,
			CommitSet:        cs,
			CloseSummary:     summary,
		}}
	}
	w.t.Fatalf("unknown close kind %q", sp.Kind)
	return vrEvent{}
}

// ---------------------------------------------------------------------
// one incarnation

type vrInc struct {
	arb     *ChannelArbitrator
	log     *boltArbitratorLog
	finOnce sync.Once
	finDone chan struct{}
	finRun  atomic.Bool
}

func (w *vrWorld) boot(ev vrEvent) *vrInc {
	sp := &w.c.Spec
	inc := &vrInc{finDone: make(chan struct{})}
	closedRaw := w.chanGet("closed")
	pendingClose := closedRaw != nil

	clk := clock.NewTestClock(time.Unix(1700000000, 0))
	chainArbCfg := ChainArbitratorConfig{
		ChainIO: &mockChainIO{},
		PublishTx: func(*wire.MsgTx, string) error {
			w.emitOut(5)
			return nil
		},
		DeliverResolutionMsg: func(msgs ...ResolutionMsg) error {
			for _, m := range msgs {
				switch {
				case m.Failure != nil:
					w.emitOut(1, int64(m.HtlcIndex))
				case m.PreImage != nil:
					w.emitOut(2, int64(m.HtlcIndex))
				default:
					w.emitOut(9, int64(m.HtlcIndex))
				}
			}
			return nil
		},
		OutgoingBroadcastDelta: 10,
		IncomingBroadcastDelta: 10,
		Notifier:               &vrNotifier{w: w},
		IncubateOutputs: func(wire.OutPoint,
			fn.Option[lnwallet.OutgoingHtlcResolution],
			fn.Option[lnwallet.IncomingHtlcResolution],
			uint32, fn.Option[int32], ...IncubateOption) error {

			return nil
		},
		OnionProcessor:  vrOnion{},
		IsForwardedHTLC: func(lnwire.ShortChannelID, uint64) bool { return true },
		SubscribeBreachComplete: func(*wire.OutPoint, chan struct{}) (bool, error) {
			// the breach arbitrator has already swept everything
			return true, nil
		},
		Clock:        clk,
		Sweeper:      &vrSweeper{w: w},
		HtlcNotifier: &mockHTLCNotifier{},
		PutFinalHtlcOutcome: func(_ lnwire.ShortChannelID, id uint64, settled bool) error {
			// channeldb.PutOnchainFinalHtlcOutcome: its own transaction
			s := int64(0)
			if settled {
				s = 1
			}
			err := w.db.Update(func(tx walletdb.ReadWriteTx) error {
				b, err := tx.CreateTopLevelBucket(vrFinalBucket)
				if err != nil {
					return err
				}
				k := make([]byte, 9)
				binary.BigEndian.PutUint64(k[0:8], id)
				k[8] = byte(s)
				return b.Put(k, []byte{1})
			}, func() {})
			if err == nil {
				w.emitCommitted(3, int64(id), s)
			}
			return err
		},
		Budget:     *DefaultBudgetConfig(),
		PreimageDB: &vrBeacon{w: w},
		Registry:   &mockRegistry{},
		QueryIncomingCircuit: func(models.CircuitKey) *models.CircuitKey {
			return nil
		},
		PaymentsExpirationGracePeriod: time.Hour,
	}
	arbCfg := ChannelArbitratorConfig{
		ChanPoint:             w.cp,
		ShortChanID:           lnwire.NewShortChanIDFromInt(uint64(w.c.ID) + 7),
		ChainArbitratorConfig: chainArbCfg,
		PutResolverReport:     w.putReport,
		FetchHistoricalChannel: func() (*chanstate.OpenChannel, error) {
			return &chanstate.OpenChannel{}, nil
		},
		FindOutgoingHTLCDeadline: func(channeldb.HTLC) fn.Option[int32] {
			return fn.None[int32]()
		},
	}
	arbCfg.NotifyChannelResolved = func() {
		w.emitOut(6)
		// ChainArbitrator.resolveContracts -> ResolveContract, on its
		// own goroutine.
		inc.finOnce.Do(func() {
			inc.finRun.Store(true)
			go func() {
				defer close(inc.finDone)
				if err := w.chanPut("full", []byte{1}); err != nil {
					return
				}
				_ = inc.arb.Stop()
				_ = inc.log.WipeHistory()
			}()
		})
	}
	var sets map[HtlcSetKey]htlcSet
	if pendingClose {
		// loadPendingCloseChannels
		arbCfg.IsPendingClose = true
		arbCfg.CloseType = channeldb.ClosureType(closedRaw[0])
		arbCfg.ClosingHeight = binary.BigEndian.Uint32(closedRaw[1:5])
		arbCfg.ChainEvents = &ChainEventSubscription{}
		sets = make(map[HtlcSetKey]htlcSet)
	} else {
		// newActiveChannelArbitrator
		arbCfg.Channel = &vrChannel{w: w}
		arbCfg.MarkCommitmentBroadcasted = func(*wire.MsgTx, lntypes.ChannelParty) error {
			err := w.chanPut("bcast", []byte{1})
			if err == nil {
				w.bcastMu.Do(func() { close(w.bcastCh) })
			}
			return err
		}
		arbCfg.MarkChannelClosed = func(s *channeldb.ChannelCloseSummary,
			_ ...channeldb.ChannelStatus) error {

			v := make([]byte, 5)
			v[0] = byte(s.CloseType)
			binary.BigEndian.PutUint32(v[1:5], s.CloseHeight)
			return w.chanPut("closed", v)
		}
		arbCfg.ChainEvents = &ChainEventSubscription{
			RemoteUnilateralClosure: make(chan *RemoteUnilateralCloseInfo, 1),
			LocalUnilateralClosure:  make(chan *LocalUnilateralCloseInfo, 1),
			CooperativeClosure:      make(chan *CooperativeCloseInfo, 1),
			ContractBreach:          make(chan *BreachCloseInfo, 1),
		}
		sets = map[HtlcSetKey]htlcSet{
			LocalHtlcSet:  newHtlcSet(w.htlcs[LocalHtlcSet]),
			RemoteHtlcSet: newHtlcSet(w.htlcs[RemoteHtlcSet]),
		}
		if _, ok := w.htlcs[RemotePendingHtlcSet]; ok || sp.Kind == "pending" {
			sets[RemotePendingHtlcSet] = newHtlcSet(w.htlcs[RemotePendingHtlcSet])
		}
	}
	lg, err := newBoltArbitratorLog(w.db, arbCfg, chainhash.Hash{}, w.cp)
	if err != nil {
		w.t.Fatal(err)
	}
	inc.log = lg
	inc.arb = NewChannelArbitrator(arbCfg, sets, lg)
	return inc
}

// deliver hands the close event to the (open channel) arbitrator.
func (inc *vrInc) deliver(ev vrEvent) {
	ce := inc.arb.cfg.ChainEvents
	switch {
	case ev.coop != nil:
		ce.CooperativeClosure <- ev.coop
	case ev.local != nil:
		ce.LocalUnilateralClosure <- ev.local
	case ev.remote != nil:
		ce.RemoteUnilateralClosure <- ev.remote
	case ev.breach != nil:
		ce.ContractBreach <- ev.breach
	}
}

func (w *vrWorld) diskState() int {
	return w.snapshot().St
}

// run executes the case: incarnations until the crash schedule is exhausted
// and the last incarnation is quiescent.
func (w *vrWorld) run() {
	c := w.c
	ev := w.build()
	sched := append([]int{}, c.Crashes...)
	// quiescence: no transaction / output / sweep request for `idle` AND every
	// other goroutine of the process blocked on a channel (checked twice);
	// maxWait is only a fallback.
	idle := time.Duration(vEnvInt("VERIF_C13_IDLE_MS", 40)) * time.Millisecond
	maxWait := time.Duration(vEnvInt("VERIF_C13_MAXWAIT_MS", 20000)) * time.Millisecond
	envIdle := time.Duration(vEnvInt("VERIF_C13_ENVIDLE_MS", 8)) * time.Millisecond
	for {
		c.Incs++
		if w.chanGet("full") != nil {
			// fully closed channels are not loaded any more
			break
		}
		w.db.stopped.Store(false)
		w.db.limit = -1
		if len(sched) > 0 {
			w.db.limit = w.db.committed + sched[0]
			sched = sched[1:]
		}
		inc := w.boot(ev)
		w.db.touch()
		if err := inc.arb.Start(nil, newBeatFromHeight(vrStartHeight)); err != nil {
			c.Err = "start: " + err.Error()
			return
		}
		open := w.chanGet("closed") == nil
		envDone := make(chan struct{})
		quitEnv := make(chan struct{})
		go func() {
			defer close(envDone)
			if !open {
				return
			}
			if c.Spec.UserFC {
				// user force close request (lncli closechannel
				// --force), re-issued after every restart while the
				// channel is open
				req := &forceCloseReq{
					errResp: make(chan error, 1),
					closeTx: make(chan *wire.MsgTx, 1),
				}
				select {
				case inc.arb.forceCloseReqs <- req:
				case <-quitEnv:
					return
				}
				select {
				case <-req.closeTx:
				case <-quitEnv:
					return
				}
				select {
				case <-req.errResp:
				case <-quitEnv:
					return
				}
				// our commitment confirms only once it has been
				// broadcast
				if w.chanGet("bcast") == nil {
					select {
					case <-w.bcastCh:
					case <-quitEnv:
						return
					}
				}
			}
			inc.deliver(ev)
		}()
		// driver: open the gate when WaitingFullResolution is durable,
		// wait for termination, sentinel, or quiescence.
		outcome := ""
		for outcome == "" {
			select {
			case <-inc.finDone:
				outcome = "fin"
				continue
			default:
			}
			if w.db.stopped.Load() {
				outcome = "stop"
				continue
			}
			w.mu.Lock()
			gate := w.gateOK
			w.mu.Unlock()
			if !gate && (c.Spec.Eager || w.diskState() >= 4) {
				w.openGate()
			}
			w.pump()
			since := time.Since(time.Unix(0, w.db.lastAct.Load()))
			// while the environment still has events the decisive test is
			// "every goroutine is parked" (sampled 4 times), the idle time
			// is only a margin
			idle, gap := idle, 5*time.Millisecond
			if w.envLeft() {
				idle, gap = envIdle, 2*time.Millisecond
			}
			if since > idle && (since > maxWait || (vrAllBlocked() && func() bool {
				for i := 0; i < 3; i++ {
					time.Sleep(gap)
					if !vrAllBlocked() ||
						time.Since(time.Unix(0, w.db.lastAct.Load())) <= idle {
						return false
					}
				}
				return true
			}())) {
				if os.Getenv("VERIF_C13_DEBUG") != "" {
					buf := make([]byte, 4<<20)
					n := runtime.Stack(buf, true)
					fmt.Fprintf(os.Stderr, "IDLE case %d crashes %v inc %d\n%s\n",
						c.ID, c.Crashes, c.Incs, buf[:n])
				}
				// quiescent: the environment moves on (next block / the
				// preimage reaches the beacon), if it has anything left
				if ok, crash := w.envStep(); ok {
					if crash {
						// quiet preimage write, then the node goes down
						if left := w.db.remaining(); left > 0 {
							sched = append([]int{left}, sched...)
						}
						w.db.stopped.Store(true)
						outcome = "stop"
					}
					continue
				}
				w.badWaits()
				outcome = "idle"
				continue
			}
			time.Sleep(300 * time.Microsecond)
		}
		close(quitEnv)
		if outcome == "stop" {
			time.Sleep(time.Millisecond)
		}
		_ = inc.arb.Stop()
		<-envDone
		if inc.finRun.Load() {
			// nothing of a dead incarnation may touch the database later
			<-inc.finDone
		}
		if w.db.stopped.Load() {
			w.mu.Lock()
			w.trace = append(w.trace, vrItem{T: "crash"})
			// the chain keeps what was confirmed; volatile
			// registrations die with the process
			w.waiters = map[wire.OutPoint][]*vrWaiter{}
			w.pending = nil // the sweeper forgets what it was offered
			w.epochs = nil
			w.subs = nil
			w.mu.Unlock()
			continue
		}
		if len(sched) > 0 && outcome != "idle" {
			// terminated before the next scheduled crash: schedule is
			// longer than the run; ignore the rest
			sched = nil
		}
		if outcome == "idle" && len(sched) > 0 {
			// quiescent without terminating and crashes left: crash now
			w.mu.Lock()
			w.trace = append(w.trace, vrItem{T: "crash"})
			w.waiters = map[wire.OutPoint][]*vrWaiter{}
			w.pending = nil // the sweeper forgets what it was offered
			w.epochs = nil
			w.subs = nil
			w.mu.Unlock()
			sched = sched[1:]
			continue
		}
		break
	}
	end := w.snapshot()
	c.End = *end
	c.Done = end.Full && end.St == 0 && !end.Res && !end.CS && len(end.Con) == 0
	c.NTx = w.db.committed
	w.mu.Lock()
	c.Trace = w.trace
	c.Watch = w.watch
	if c.Watch == nil {
		c.Watch = [][]int64{}
	}
	keys := make([]string, 0, len(w.outs))
	for k := range w.outs {
		keys = append(keys, k)
	}
	sort.Strings(keys)
	c.Outs = [][]int64{}
	for _, k := range keys {
		c.Outs = append(c.Outs, w.outs[k])
	}
	w.mu.Unlock()
}

// vrAllBlocked reports whether every goroutine except the caller is parked
// on a channel / select / mutex, i.e. nothing in the process can make
// progress without an external event.
func vrAllBlocked() bool {
	buf := make([]byte, 4<<20)
	n := runtime.Stack(buf, true)
	recs := strings.Split(string(buf[:n]), "\n\n")
	for i, r := range recs {
		if i == 0 {
			continue // the caller
		}
		a := strings.IndexByte(r, '[')
		b := strings.IndexByte(r, ']')
		if a < 0 || b < a {
			continue
		}
		st := r[a+1 : b]
		if k := strings.IndexByte(st, ','); k >= 0 {
			st = st[:k]
		}
		switch st {
		case "chan receive", "chan send", "select", "semacquire", "sync.Cond.Wait",
			"sync.Mutex.Lock", "sync.RWMutex.RLock", "sync.RWMutex.Lock",
			"chan receive (nil chan)", "chan send (nil chan)", "select (no cases)",
			"sync.WaitGroup.Wait", "IO wait", "finalizer wait":
		default:
			return false
		}
	}
	return true
}

func vrRunCase(t *testing.T, dir string, c *vrCase) {
	path := filepath.Join(dir, fmt.Sprintf("c13_%d.db", c.ID))
	inner, err := kvdb.Create(kvdb.BoltBackendName, path, true, kvdb.DefaultDBTimeout, false)
	if err != nil {
		t.Fatal(err)
	}
	defer func() {
		inner.Close()
		os.Remove(path)
	}()
	w := &vrWorld{
		t: t, c: c, inner: inner,
		keys:    map[string]int64{},
		outs:    map[string][]int64{},
		spent:   map[wire.OutPoint]*chainntnfs.SpendDetail{},
		onSweep: map[wire.OutPoint]*chainntnfs.SpendDetail{},
		waiters: map[wire.OutPoint][]*vrWaiter{},
		utxo:    map[wire.OutPoint]*vrOut{},
		witFor:  map[wire.OutPoint]func(input.Input) wire.TxWitness{},
		twoPos:  map[wire.OutPoint]int{},
		stage2:  map[wire.OutPoint]*wire.TxOut{},
		presig:  map[wire.OutPoint]int64{},
		known:   map[lntypes.Hash]lntypes.Preimage{},
		needPre: map[wire.OutPoint]lntypes.Hash{},
		inPre:   map[int64]lntypes.Preimage{},
		gateCh:  make(chan struct{}),
		bcastCh: make(chan struct{}),
	}
	binary.BigEndian.PutUint64(w.cp.Hash[:8], uint64(c.ID)+1)
	w.cp.Hash[31] = 0x13
	w.cp.Index = 999
	sc, err := newLogScope(chainhash.Hash{}, w.cp)
	if err != nil {
		t.Fatal(err)
	}
	w.scope = *sc
	w.db = &vrStopDB{Backend: inner, limit: -1}
	w.db.onCommit = func() {
		s := w.snapshot()
		w.mu.Lock()
		w.trace = append(w.trace, vrItem{T: "snap", D: s})
		w.mu.Unlock()
	}
	c.Trace, c.Outs, c.Incs, c.Err = nil, nil, 0, ""
	w.run()
}

// ---------------------------------------------------------------------
// scenarios

func vrFail(i int64) []int64   { return []int64{1, i} }
func vrSettle(i int64) []int64 { return []int64{2, i} }

func vrResCommit() vrResolver {
	return vrResolver{Key: 900, Kind: "commit",
		Stages: []vrStage{{Outs: [][]int64{}, Rep: [][]int64{{900, 0}}}},
		Watch:  []int64{2}, // waits for the sweeper's result only
		PTab:   map[string]int64{"4,0,0": 0, "4,0,1": 1}}
}
func vrResBreach() vrResolver {
	return vrResolver{Key: 999, Kind: "breach",
		Stages: []vrStage{{Outs: [][]int64{}, Rep: [][]int64{}}},
		Watch:  []int64{2},
		PTab:   map[string]int64{"5,0,0": 0, "5,0,1": 1}}
}
func vrResTimeoutRemote(key, idx int64) vrResolver {
	return vrResolver{Key: key, Kind: "timeout_remote", Idx: idx,
		Stages: []vrStage{{Outs: [][]int64{vrFail(idx)}, Rep: [][]int64{{key, 3}}}},
		Watch:  []int64{0},
		PTab:   map[string]int64{"0,0,0": 0, "0,0,1": 1}}
}
func vrResContestTimeout(key, idx int64) vrResolver {
	return vrResolver{Key: key, Kind: "contest_timeout", Idx: idx,
		Stages: []vrStage{
			{Outs: [][]int64{}, Rep: [][]int64{}},
			{Outs: [][]int64{vrFail(idx)}, Rep: [][]int64{{key, 3}}},
		},
		Watch: []int64{0, 0},
		PTab:  map[string]int64{"2,0,0": 0, "0,0,0": 1, "0,0,1": 2}}
}
func vrResContestClaim(key, idx int64) vrResolver {
	return vrResolver{Key: key, Kind: "contest_claim", Idx: idx,
		Stages: []vrStage{{Outs: [][]int64{vrSettle(idx)}, Rep: [][]int64{{key, 0}}}},
		Watch:  []int64{0},
		PTab:   map[string]int64{"2,0,0": 0, "0,0,1": 1}}
}
func vrResTimeoutLocal2(key, idx int64) vrResolver {
	return vrResolver{Key: key, Kind: "timeout_local2", Idx: idx,
		Stages: []vrStage{
			{Outs: [][]int64{vrFail(idx)}, Rep: [][]int64{{key, 4}}},
			{Outs: [][]int64{}, Rep: [][]int64{{-1, 3}}},
		},
		Watch: []int64{0, 1},
		PTab:  map[string]int64{"0,0,0": 0, "0,1,0": 1, "0,1,1": 2}}
}

// ---- received (incoming) htlcs, non-dust.  lnd creates an
// htlcIncomingContestResolver for every one of them (HtlcIncomingWatchAction;
// HtlcClaimAction is never produced by checkCommitChainActions): a preimage
// known at close is found by Launch/Resolve of the contest resolver. ----
func vrFinal(i int64, settled int64) []int64 { return []int64{3, i, settled} }

// preimage known (at close or later), remote commitment: SwapContract to the
// success resolver (preimage persisted inside it); direct preimage spend
// confirms -> PutFinalHtlcOutcome(settled), Checkpoint(resolved) + Claimed.
func vrResInClaimRemote(key, idx int64) vrResolver {
	return vrResolver{Key: key, Kind: "in_claim_remote", Idx: idx,
		Stages: []vrStage{
			{Outs: [][]int64{}, Rep: [][]int64{}},
			{Outs: [][]int64{vrFinal(idx, 1)}, Rep: [][]int64{{key, 0}}},
		},
		Watch: []int64{2, 0},
		PTab:  map[string]int64{"3,0,0,0": 0, "1,0,0,1": 1, "1,0,1,1": 2}}
}

// our commitment (anchor channel): swap; second-level success tx confirms ->
// Checkpoint(outputIncubating); its output is swept ->
// PutFinalHtlcOutcome(settled), Checkpoint(resolved) + Claimed + FirstStage.
func vrResInClaimLocal2(key, idx int64) vrResolver {
	return vrResolver{Key: key, Kind: "in_claim_local2", Idx: idx,
		Stages: []vrStage{
			{Outs: [][]int64{}, Rep: [][]int64{}},
			{Outs: [][]int64{}, Rep: [][]int64{}},
			{Outs: [][]int64{vrFinal(idx, 1)}, Rep: [][]int64{{-1, 0}, {key, 4}}},
		},
		Watch: []int64{2, 0, 1},
		PTab:  map[string]int64{"3,0,0,0": 0, "1,0,0,1": 1, "1,1,0,1": 2, "1,1,1,1": 3}}
}

// preimage never learned: at the expiry height the contest resolver gives up:
// PutFinalHtlcOutcome(not settled), Checkpoint(resolved) + Timeout report.
// NOTHING goes to the switch (the htlc's upstream is the closed channel's
// peer, who takes the output back on chain).
func vrResInExpire(key, idx int64, local bool) vrResolver {
	kind := "in_expire_remote"
	if local {
		kind = "in_expire_local2"
	}
	rk := key // the report names htlcResolution.ClaimOutpoint
	if local {
		rk = 77
	}
	return vrResolver{Key: key, Kind: kind, Idx: idx,
		Stages: []vrStage{{Outs: [][]int64{vrFinal(idx, 0)}, Rep: [][]int64{{rk, 3}}}},
		Watch:  []int64{2},
		PTab:   map[string]int64{"3,0,0,0": 0, "3,0,1,0": 1}}
}

// offered htlc far from its expiry on OUR commitment: outgoing contest
// resolver, swapped for the two-stage timeout resolver at the expiry height
func vrResContestTimeoutLocal2(key, idx int64) vrResolver {
	return vrResolver{Key: key, Kind: "contest_timeout_local2", Idx: idx,
		Stages: []vrStage{
			{Outs: [][]int64{}, Rep: [][]int64{}},
			{Outs: [][]int64{vrFail(idx)}, Rep: [][]int64{{key, 4}}},
			{Outs: [][]int64{}, Rep: [][]int64{{-1, 3}}},
		},
		Watch: []int64{0, 0, 1},
		PTab:  map[string]int64{"2,0,0": 0, "0,0,0": 1, "0,1,0": 2, "0,1,1": 3}}
}

// vrScenarios: the scenario list with the sweeper positions of the two-stage
// resolvers on our commitment filled in (1 + rank of the key: never 0) and
// the reports that name a second-level outpoint patched accordingly.
func vrScenarios() []vrSpec {
	specs := vrScenarios0()
	for si := range specs {
		sp := &specs[si]
		var keys []int64
		for _, r := range sp.Resolvers {
			if strings.HasSuffix(r.Kind, "_local2") {
				keys = append(keys, r.Key)
			}
		}
		sort.Slice(keys, func(i, j int) bool { return keys[i] < keys[j] })
		for ri := range sp.Resolvers {
			r := &sp.Resolvers[ri]
			for i, k := range keys {
				if k == r.Key && strings.HasSuffix(r.Kind, "_local2") {
					r.Pos = int64(i + 1)
				}
			}
			for _, st := range r.Stages {
				for _, rp := range st.Rep {
					if rp[0] == -1 {
						rp[0] = r.Pos
					}
				}
			}
		}
	}
	return specs
}

func vrScenarios0() []vrSpec {
	e := []int64{}
	return []vrSpec{
		{Name: "coop", Kind: "coop", FailsDefault: e, FailsClosed: e, FinalsClosed: e,
			Resolvers: []vrResolver{}},
		{Name: "remote_empty", Kind: "remote", Empty: true, FailsDefault: e, FailsClosed: e,
			FinalsClosed: e, Resolvers: []vrResolver{}},
		{Name: "local_commit", Kind: "local", UserFC: true, FailsDefault: e, FailsClosed: e,
			FinalsClosed: e, Resolvers: []vrResolver{vrResCommit()}},
		{Name: "local_commit_anchor", Kind: "local", UserFC: true, Anchor: true,
			FailsDefault: e, FailsClosed: e, FinalsClosed: e,
			Resolvers: []vrResolver{vrResCommit()}},
		{Name: "remote_commit", Kind: "remote", FailsDefault: e, FailsClosed: e,
			FinalsClosed: e, Resolvers: []vrResolver{vrResCommit()}},
		{Name: "remote_commit_eager", Kind: "remote", Eager: true, FailsDefault: e,
			FailsClosed: e, FinalsClosed: e, Resolvers: []vrResolver{vrResCommit()}},
		{Name: "remote_userfc", Kind: "remote", UserFC: true, FailsDefault: e,
			FailsClosed: e, FinalsClosed: e, Resolvers: []vrResolver{vrResCommit()}},
		{Name: "remote_htlcs", Kind: "remote", FailsDefault: []int64{2},
			FailsClosed: e, FinalsClosed: []int64{3},
			Resolvers: []vrResolver{vrResCommit(), vrResTimeoutRemote(21, 1),
				vrResContestTimeout(24, 4), vrResContestClaim(25, 5)}},
		{Name: "pending_dangling", Kind: "pending", CSActs: true, FailsDefault: e,
			FailsClosed: []int64{6}, FinalsClosed: e,
			Resolvers: []vrResolver{vrResCommit(), vrResTimeoutRemote(21, 1)}},
		{Name: "pending_dangling_dust", Kind: "pending", CSActs: true,
			FailsDefault: []int64{2}, FailsClosed: []int64{6}, FinalsClosed: e,
			Resolvers: []vrResolver{vrResCommit()}},
		{Name: "breach", Kind: "breach", Anchor: true, Eager: true, FailsDefault: e,
			FailsClosed: []int64{6, 8}, FinalsClosed: e,
			Resolvers: []vrResolver{vrResBreach()}},
		{Name: "local_htlc2", Kind: "local", UserFC: true, FailsDefault: []int64{2},
			FailsClosed: e, FinalsClosed: e,
			Resolvers: []vrResolver{vrResCommit(), vrResTimeoutLocal2(22, 1)}},
		// colliding output indexes across the commitments of the persisted
		// commit set: a restored resolver must be re-supplied with the htlc
		// of the CONFIRMED commitment.
		// our commitment confirms with htlc 1 at output 22; the unrevoked
		// remote pending commitment holds the newer htlc 99 at ITS output 22
		// (dangling: failed back in StateContractClosed).
		{Name: "local_htlc2_collide", Kind: "local", UserFC: true, CSActs: true,
			FailsDefault: []int64{2}, FailsClosed: []int64{99}, FinalsClosed: e,
			Resolvers: []vrResolver{vrResCommit(), vrResTimeoutLocal2(22, 1)},
			Collide:   []vrCollide{{Set: "pending", Idx: 99, OutIdx: 22}}},
		// the remote commitment confirms with htlcs 1, 4, 5 at outputs 21,
		// 24, 25; our own commitment holds other htlcs at the same indexes
		// (nobody resolves those here: any upstream message about 96..98
		// is a wrong one).
		{Name: "remote_htlcs_collide", Kind: "remote", FailsDefault: e, FailsClosed: e,
			FinalsClosed: e,
			Resolvers: []vrResolver{vrResCommit(), vrResTimeoutRemote(21, 1),
				vrResContestTimeout(24, 4), vrResContestClaim(25, 5)},
			Collide: []vrCollide{{Set: "local", Idx: 98, OutIdx: 21},
				{Set: "local", Idx: 97, OutIdx: 24}, {Set: "local", Idx: 96, OutIdx: 25}}},
		// ---- received htlcs ----
		// Every scenario but the last contains an offered htlc that is
		// within the broadcast delta at the closing height (like all
		// scenarios above): constructChainActions then yields the same
		// actions for a chain trigger (restart in StateContractClosed) as
		// for the close trigger -- see f3_remote_in_far.
		// (a) preimage known at close, remote commitment
		{Name: "remote_in_known", Kind: "remote", FailsDefault: e, FailsClosed: e,
			FinalsClosed: e, H0: 600, Known: []int64{7},
			Resolvers: []vrResolver{vrResCommit(), vrResTimeoutRemote(21, 1),
				vrResInClaimRemote(27, 7)}},
		// (b) htlc 7: preimage learned two blocks after the close (possibly
		// after a restart); (c) htlc 8: never learned, expires; mixed with
		// offered htlcs, an offered dust htlc and a received dust htlc
		{Name: "remote_in_mixed", Kind: "remote", FailsDefault: []int64{2}, FailsClosed: e,
			FinalsClosed: []int64{3}, H0: 600,
			Env: []vrEnvStep{{H: 700}, {Pre: 7}, {H: 2000}},
			Resolvers: []vrResolver{vrResCommit(), vrResTimeoutRemote(21, 1),
				vrResContestTimeout(24, 4), vrResInClaimRemote(27, 7),
				vrResInExpire(28, 8, false)}},
		// (c) alone
		{Name: "remote_in_expire", Kind: "remote", FailsDefault: e, FailsClosed: e,
			FinalsClosed: e, H0: 600, Env: []vrEnvStep{{H: 1499}, {H: 1500}},
			Resolvers: []vrResolver{vrResCommit(), vrResTimeoutRemote(21, 1),
				vrResInExpire(28, 8, false)}},
		// our commitment: (a) two-stage success with the preimage known at
		// close, next to a two-stage timeout of an offered htlc
		{Name: "local_in_known2", Kind: "local", UserFC: true, FailsDefault: e, FailsClosed: e,
			FinalsClosed: e, H0: 600, Known: []int64{7},
			Resolvers: []vrResolver{vrResCommit(), vrResTimeoutLocal2(22, 1),
				vrResInClaimLocal2(27, 7)}},
		// (b) + (c) on our commitment
		{Name: "local_in_mixed2", Kind: "local", UserFC: true, FailsDefault: e, FailsClosed: e,
			FinalsClosed: []int64{3}, H0: 600, Env: []vrEnvStep{{Pre: 7}, {H: 2000}},
			Resolvers: []vrResolver{vrResCommit(), vrResTimeoutLocal2(22, 1),
				vrResInClaimLocal2(27, 7), vrResInExpire(28, 8, true)}},
		// ---- NO htlc within the broadcast delta at the closing height
		// (regression of finding C13-F3, repaired by 276b5b1: a restart in
		// StateContractClosed used chainTrigger, for which
		// checkCommitChainActions returns no actions at all: no htlc
		// resolver, no dust fail-back / final) ----
		{Name: "f3_remote_in_far", Kind: "remote", FailsDefault: e, FailsClosed: e,
			FinalsClosed: e, H0: 600, Known: []int64{7}, FarExp: true,
			Resolvers: []vrResolver{vrResCommit(), vrResInClaimRemote(27, 7)}},
		// remote close: offered htlc far from expiry (contest -> timeout),
		// received htlc that expires, offered dust, received dust
		{Name: "remote_far", Kind: "remote", FailsDefault: []int64{2}, FailsClosed: e,
			FinalsClosed: []int64{3}, H0: 600, Env: []vrEnvStep{{H: 2000}}, FarExp: true,
			Resolvers: []vrResolver{vrResCommit(), vrResContestTimeout(24, 4),
				vrResInExpire(28, 8, false)}},
		// our force close: offered htlc far from expiry (contest -> two-stage
		// timeout), received htlc with the preimage known (two-stage claim),
		// received dust
		{Name: "local_far2", Kind: "local", UserFC: true, FailsDefault: e, FailsClosed: e,
			FinalsClosed: []int64{3}, H0: 600, Known: []int64{7},
			Env: []vrEnvStep{{H: 2000}}, FarExp: true,
			Resolvers: []vrResolver{vrResCommit(), vrResContestTimeoutLocal2(22, 1),
				vrResInClaimLocal2(27, 7)}},
		// ---- taproot two-stage htlcs on our commitment: offered (timeout
		// now), offered far from expiry (contest first), received with the
		// preimage known (success path); three second-level inputs share
		// the sweeper's transactions (input indexes 1..3) ----
		{Name: "local_taproot2", Kind: "local", UserFC: true, Taproot: true, FailsDefault: e,
			FailsClosed: e, FinalsClosed: e, H0: 600, Known: []int64{7},
			Env: []vrEnvStep{{H: 2000}},
			Resolvers: []vrResolver{vrResCommit(), vrResTimeoutLocal2(22, 1),
				vrResContestTimeoutLocal2(23, 4), vrResInClaimLocal2(27, 7)}},
	}
}

func TestVerifRestart(t *testing.T) {
	if os.Getenv("VERIF_C13_LOG") != "" {
		lg := btclog.NewSLogger(btclog.NewDefaultHandler(os.Stderr))
		lg.SetLevel(btclog.LevelDebug)
		UseLogger(lg)
	}
	out := vOpenOut()
	defer out.close()
	dir := t.TempDir()
	id := 0
	envCrash := false
	run := func(sp vrSpec, crashes []int) *vrCase {
		c := &vrCase{ID: id, Spec: sp, Crashes: crashes, EnvCrash: envCrash}
		id++
		vrRunCase(t, dir, c)
		out.emit(c)
		return c
	}
	if p := vReplay(); p != "" {
		raw, err := os.ReadFile(p)
		if err != nil {
			t.Fatal(err)
		}
		var rp struct {
			Detail struct {
				Case vrCase `json:"case"`
			} `json:"detail"`
		}
		if err := json.Unmarshal(raw, &rp); err != nil {
			t.Fatal(err)
		}
		// the uninterrupted run of the scenario (the reference the predicate
		// compares with), then the recorded stop schedule
		run(rp.Detail.Case.Spec, []int{})
		envCrash = rp.Detail.Case.EnvCrash
		if len(rp.Detail.Case.Crashes) > 0 || envCrash {
			run(rp.Detail.Case.Spec, rp.Detail.Case.Crashes)
		}
		return
	}
	only := os.Getenv("VERIF_C13_ONLY")
	master := vNewRng(vSeed())
	thorough := vTier() == "thorough"
	for si, sp := range vrScenarios() {
		if only != "" && only != sp.Name {
			continue
		}
		base := run(sp, []int{})
		n := base.NTx
		// every single stop point
		for k := 0; k < n; k++ {
			run(sp, []int{k})
		}
		// repeated stops: seeded pairs / triples (all pairs in thorough)
		r := master.fork(uint64(si))
		if thorough {
			for a := 0; a < n; a++ {
				for b := 0; b <= n-a; b++ {
					run(sp, []int{a, b})
				}
			}
			for i := 0; i < 3*n; i++ {
				cr := []int{}
				for j := 0; j < 3+r.intn(3); j++ {
					cr = append(cr, r.intn(4))
				}
				run(sp, cr)
			}
		} else {
			for i := 0; i < vCases(3, 0); i++ {
				a := r.intn(n)
				run(sp, []int{a, r.intn(n - a + 1)})
			}
			cr := []int{}
			for j := 0; j < 4; j++ {
				cr = append(cr, 1+r.intn(3))
			}
			run(sp, cr)
		}
		// the preimage reaches the beacon's store but no subscriber, and the
		// node goes down (stop between AddPreimages' write and its
		// notification), alone and combined with stops after transactions
		hasPre := false
		for _, st := range sp.Env {
			hasPre = hasPre || st.Pre != 0
		}
		if hasPre {
			envCrash = true
			run(sp, []int{})
			for k := 0; k < n; k++ {
				if thorough || r.intn(4) == 0 {
					run(sp, []int{k})
				}
			}
			envCrash = false
		}
	}
}
