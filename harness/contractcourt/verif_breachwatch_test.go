//go:build verif

package contractcourt

// C04 stage "breachwatch": the state of a broadcast commitment must be
// recognised by the CHAIN WATCHER from what is persisted — the watcher owns
// its own OpenChannel instance, loaded from the database at some early point
// (as the daemon does), not the live channel object.
//
// Two REAL LightningChannels (lnwallet.CreateTestChannels) are advanced by
// several commitment dances with HTLCs in both directions; every commitment a
// party is about to revoke is recorded.  For each side a real chainWatcher is
// built over a SEPARATE OpenChannel fetched from that side's database at a
// seeded early state (and, in half of the schedules, a second one fetched
// later).  At the end every recorded revoked commitment of the counterparty is
// handed to the watchers as a spend of the funding outpoint through
// handleCommitSpend (the entry point closeObserver uses) and must be
// classified as a breach with a BreachRetribution that matches the
// transaction; the real newRetributionInfo + BreachArbitrator.createJusticeTx
// then build the justice transaction, every input of which is run through the
// real script engine against the revoked transaction's outputs.  The current
// and the pending remote commitment must be classified as remote unilateral
// closes with the right commit set.
//
// Every identifier defined here is prefixed vbw.

import (
	"context"
	"crypto/sha256"
	"encoding/binary"
	"errors"
	"fmt"
	"testing"

	"github.com/btcsuite/btcd/txscript/v2"
	"github.com/btcsuite/btcd/wire/v2"
	"github.com/lightningnetwork/lnd/chainntnfs"
	"github.com/lightningnetwork/lnd/channeldb"
	"github.com/lightningnetwork/lnd/fn/v2"
	lnmock "github.com/lightningnetwork/lnd/lntest/mock"
	"github.com/lightningnetwork/lnd/lnwallet"
	"github.com/lightningnetwork/lnd/lnwallet/chainfee"
	"github.com/lightningnetwork/lnd/lnwire"
)

type vbwType struct {
	name string
	ct   channeldb.ChannelType
}

var vbwTypes = []vbwType{
	{"legacy", channeldb.SingleFunderBit},
	{"tweakless", channeldb.SingleFunderTweaklessBit},
	{"anchors", channeldb.SingleFunderTweaklessBit |
		channeldb.AnchorOutputsBit},
	{"zerofee", channeldb.SingleFunderTweaklessBit |
		channeldb.AnchorOutputsBit | channeldb.ZeroHtlcTxFeeBit},
	{"lease", channeldb.SingleFunderTweaklessBit |
		channeldb.AnchorOutputsBit | channeldb.ZeroHtlcTxFeeBit |
		channeldb.LeaseExpirationBit},
	{"taproot", channeldb.SingleFunderTweaklessBit |
		channeldb.AnchorOutputsBit | channeldb.ZeroHtlcTxFeeBit |
		channeldb.SimpleTaprootFeatureBit},
	{"taproot_final", channeldb.SingleFunderTweaklessBit |
		channeldb.AnchorOutputsBit | channeldb.ZeroHtlcTxFeeBit |
		channeldb.SimpleTaprootFeatureBit | channeldb.TaprootFinalBit},
}

var vbwNames = [2]string{"a", "b"}

const vbwSpendHeight = 500

func vbwSafe(f func() error) (res string) {
	defer func() {
		if p := recover(); p != nil {
			s := fmt.Sprint(p)
			if len(s) > 160 {
				s = s[:160]
			}
			res = "panic:" + s
		}
	}()
	if err := f(); err != nil {
		return vbwErrText(err)
	}
	return ""
}

// vbwErrText is never empty for a non-nil error.  (btcd reports an invalid
// taproot key-spend signature as txscript.Error{ErrTaprootSigInvalid, ""},
// whose Error() text is EMPTY: taken as a string it would read "accepted".)
func vbwErrText(err error) string {
	s := err.Error()
	var se txscript.Error
	if errors.As(err, &se) {
		s = se.ErrorCode.String() + ": " + se.Description
	}
	if s == "" {
		s = fmt.Sprintf("error of type %T with an empty message", err)
	}
	if len(s) > 200 {
		s = s[:200]
	}
	return s
}

func vbwPreimage(ci int, n uint64) (pre [32]byte, hash [32]byte) {
	var b [24]byte
	copy(b[:], "vbw-pre")
	binary.LittleEndian.PutUint64(b[8:], uint64(ci))
	binary.LittleEndian.PutUint64(b[16:], n)
	pre = sha256.Sum256(b[:])
	hash = sha256.Sum256(pre[:])
	return
}

// vbwHeld is a commitment a party held as its broadcastable local tail.
type vbwHeld struct {
	h      uint64
	tx     *wire.MsgTx
	commit channeldb.ChannelCommitment
}

func vbwCommitDump(c *channeldb.ChannelCommitment) map[string]any {
	hs := [][]int64{}
	for _, h := range c.Htlcs {
		inc := int64(0)
		if h.Incoming {
			inc = 1
		}
		hs = append(hs, []int64{inc, int64(h.Amt), int64(h.HtlcIndex),
			int64(h.RefundTimeout), int64(h.OutputIndex)})
	}
	return map[string]any{"h": c.CommitHeight,
		"local_bal": uint64(c.LocalBalance), "remote_bal": uint64(c.RemoteBalance),
		"fee": int64(c.CommitFee), "fee_per_kw": int64(c.FeePerKw), "htlcs": hs}
}

func vbwOuts(tx *wire.MsgTx) []int64 {
	o := make([]int64, len(tx.TxOut))
	for i, x := range tx.TxOut {
		o[i] = x.Value
	}
	return o
}

type vbwWatcher struct {
	label       string
	victim      int
	snapRemoteH uint64 // remote commitment height of the snapshot when it was loaded
	snapRound   int
	w           *chainWatcher
	sub         *ChainEventSubscription
	breaches    []*lnwallet.BreachRetribution
}

// vbwNewWatcher builds a chain watcher the way the ChainArbitrator does, over
// an OpenChannel instance freshly decoded from the victim's database.
func vbwNewWatcher(victim *lnwallet.LightningChannel, p int, label string,
	round int) (*vbwWatcher, error) {

	live := victim.State()
	chans, err := live.Db.FetchOpenChannels(live.IdentityPub)
	if err != nil {
		return nil, err
	}
	if len(chans) != 1 {
		return nil, fmt.Errorf("vbw: %d channels in db", len(chans))
	}
	snap := chans[0]
	vw := &vbwWatcher{label: label, victim: p, snapRound: round,
		snapRemoteH: snap.RemoteCommitment.CommitHeight}
	notifier := &lnmock.ChainNotifier{
		SpendChan: make(chan *chainntnfs.SpendDetail, 1),
		EpochChan: make(chan *chainntnfs.BlockEpoch),
		ConfChan:  make(chan *chainntnfs.TxConfirmation, 1),
	}
	w, err := newChainWatcher(chainWatcherConfig{
		chanState: snap,
		notifier:  notifier,
		signer:    victim.Signer,
		contractBreach: func(r *lnwallet.BreachRetribution) error {
			vw.breaches = append(vw.breaches, r)
			return nil
		},
		extractStateNumHint: lnwallet.GetStateNumHint,
		auxLeafStore:        fn.Some[lnwallet.AuxLeafStore](&lnwallet.MockAuxLeafStore{}),
		chanCloseConfs:      fn.Some(uint32(1)),
	})
	if err != nil {
		return nil, err
	}
	vw.w = w
	vw.sub = w.SubscribeChannelEvents()
	return vw, nil
}

func vbwEngine(pk []byte, amt int64, tx *wire.MsgTx, idx int,
	fetcher txscript.PrevOutputFetcher) string {

	return vbwSafe(func() error {
		hc := txscript.NewTxSigHashes(tx, fetcher)
		vm, err := txscript.NewEngine(
			pk, tx, idx, txscript.StandardVerifyFlags, nil, hc, amt,
			fetcher,
		)
		if err != nil {
			return fmt.Errorf("engine: %w", err)
		}
		return vm.Execute()
	})
}

// vbwRetribution describes a BreachRetribution against the transaction it is
// about and runs the REAL justice path (newRetributionInfo, createJusticeTx)
// under the real script engine.
func vbwRetribution(victim *lnwallet.LightningChannel, r *lnwallet.BreachRetribution,
	tx *wire.MsgTx) map[string]any {

	txid := tx.TxHash()
	d := map[string]any{"txid_ok": r.BreachTxHash == txid,
		"state_num": r.RevokedStateNum, "height": r.BreachHeight}
	one := func(op wire.OutPoint, out *wire.TxOut) map[string]any {
		e := map[string]any{"idx": op.Index, "amt": out.Value}
		if op.Hash != txid || int(op.Index) >= len(tx.TxOut) {
			e["ok"] = "bad_outpoint"
			return e
		}
		real := tx.TxOut[op.Index]
		e["tx_amt"] = real.Value
		e["ok"] = ""
		if string(real.PkScript) != string(out.PkScript) {
			e["ok"] = "pkscript_mismatch"
		}
		return e
	}
	d["to_remote"], d["to_local"] = nil, nil
	if sd := r.LocalOutputSignDesc; sd != nil {
		d["to_remote"] = one(r.LocalOutpoint, sd.Output)
	}
	if sd := r.RemoteOutputSignDesc; sd != nil {
		d["to_local"] = one(r.RemoteOutpoint, sd.Output)
	}
	hs := []map[string]any{}
	for i := range r.HtlcRetributions {
		hr := &r.HtlcRetributions[i]
		e := one(hr.OutPoint, hr.SignDesc.Output)
		e["inc"] = 0
		if hr.IsIncoming {
			e["inc"] = 1
		}
		hs = append(hs, e)
	}
	d["htlcs"] = hs

	// the real justice transaction
	just := []map[string]any{}
	e := vbwSafe(func() error {
		chanPoint := victim.State().FundingOutpoint
		ri := newRetributionInfo(&chanPoint, r)
		brar := NewBreachArbitrator(&BreachConfig{
			Signer:    victim.Signer,
			Estimator: chainfee.NewStaticEstimator(253, 0),
			GenSweepScript: func() fn.Result[lnwallet.AddrWithKey] {
				pk := append([]byte{txscript.OP_1, 32}, make([]byte, 32)...)
				pk[5] = 9
				return fn.Ok(lnwallet.AddrWithKey{DeliveryAddress: pk})
			},
		})
		txs, err := brar.createJusticeTx(ri.breachedOutputs)
		if err != nil {
			return err
		}
		if txs.spendAll == nil {
			return fmt.Errorf("no justice transaction")
		}
		jtx := txs.spendAll.justiceTx
		fetcher := txscript.NewMultiPrevOutFetcher(nil)
		for _, in := range jtx.TxIn {
			op := in.PreviousOutPoint
			if op.Hash == txid && int(op.Index) < len(tx.TxOut) {
				fetcher.AddPrevOut(op, tx.TxOut[op.Index])
			} else {
				fetcher.AddPrevOut(op, &wire.TxOut{})
			}
		}
		for i, in := range jtx.TxIn {
			op := in.PreviousOutPoint
			x := map[string]any{"idx": op.Index,
				"wt": ri.breachedOutputs[i].witnessType.String(),
				"amt": int64(ri.breachedOutputs[i].amt)}
			if op.Hash != txid || int(op.Index) >= len(tx.TxOut) {
				x["ok"] = "bad_outpoint"
			} else {
				out := tx.TxOut[op.Index]
				x["ok"] = vbwEngine(out.PkScript, out.Value, jtx, i, fetcher)
			}
			just = append(just, x)
		}
		return nil
	})
	d["justice_err"] = e
	d["justice"] = just
	return d
}

// vbwFeed hands tx to the watcher as a spend of the funding outpoint and
// reports what the watcher made of it.
func vbwFeed(vw *vbwWatcher, victim *lnwallet.LightningChannel, tx *wire.MsgTx,
	expect string, h uint64) map[string]any {

	txid := tx.TxHash()
	rep := map[string]any{"watcher": vw.label, "victim": vbwNames[vw.victim],
		"expect": expect, "h": h, "snap_remote_h": vw.snapRemoteH,
		"snap_round": vw.snapRound, "outs": vbwOuts(tx)}
	nb := len(vw.breaches)
	rep["err"] = vbwSafe(func() error {
		return vw.w.handleCommitSpend(&chainntnfs.SpendDetail{
			SpentOutPoint:  &vw.w.cfg.chanState.FundingOutpoint,
			SpenderTxHash:  &txid,
			SpendingTx:     tx,
			SpendingHeight: vbwSpendHeight,
		})
	})
	events := []string{}
	for more := true; more; {
		select {
		case b := <-vw.sub.ContractBreach:
			events = append(events, "breach")
			rep["breach_commit_hash_ok"] = b.CommitHash == txid
			rep["close_type_breach"] = b.CloseSummary.CloseType == channeldb.BreachClose
		case u := <-vw.sub.RemoteUnilateralClosure:
			events = append(events, "remote_close")
			key := "none"
			u.CommitSet.ConfCommitKey.WhenSome(func(k HtlcSetKey) {
				key = k.String()
			})
			rep["conf_commit_key"] = key
			rep["remote_commit_h"] = u.RemoteCommit.CommitHeight
			rep["commit_resolution"] = nil
			if cr := u.CommitResolution; cr != nil {
				rep["commit_resolution"] = map[string]any{
					"idx": cr.SelfOutPoint.Index,
					"amt": cr.SelfOutputSignDesc.Output.Value,
					"hash_ok": cr.SelfOutPoint.Hash == txid}
			}
			if hr := u.HtlcResolutions; hr != nil {
				rep["n_in"], rep["n_out"] = len(hr.IncomingHTLCs), len(hr.OutgoingHTLCs)
			}
			n := 0
			for _, hh := range u.RemoteCommit.Htlcs {
				if hh.OutputIndex >= 0 {
					n++
				}
			}
			rep["n_ontx"] = n
		case <-vw.sub.LocalUnilateralClosure:
			events = append(events, "local_close")
		case <-vw.sub.CooperativeClosure:
			events = append(events, "coop_close")
		default:
			more = false
		}
	}
	rep["events"] = events
	rep["retribution"] = nil
	if len(vw.breaches) > nb {
		r := vw.breaches[len(vw.breaches)-1]
		rep["n_retributions"] = len(vw.breaches) - nb
		rep["retribution"] = vbwRetribution(victim, r, tx)
	}
	return rep
}

func TestVerifBreachWatch(t *testing.T) {
	out := vOpenOut()
	defer out.close()
	master := vNewRng(vSeed())
	ncases := vCases(14, 140)
	first := int(vEnvInt("VERIF_FIRST_CASE", 0))
	for ci := first; ci < first+ncases; ci++ {
		ci := ci
		t.Run(fmt.Sprintf("c%d", ci), func(t *testing.T) {
			r := master.fork(uint64(ci))
			ty := vbwTypes[ci%len(vbwTypes)]
			a, b, err := lnwallet.CreateTestChannels(t, ty.ct)
			if err != nil {
				t.Fatalf("CreateTestChannels(%s): %v", ty.name, err)
			}
			ch := [2]*lnwallet.LightningChannel{a, b}
			chanID := lnwire.NewChanIDFromOutPoint(a.State().FundingOutpoint)
			rounds := 5 + r.intn(4)
			snapRound := r.intn(3)                       // early
			reloadRound := -1                            // optional later snapshot
			if r.bool() {
				reloadRound = snapRound + 1 + r.intn(rounds-snapRound-1)
			}
			row := map[string]any{"case": ci, "seed": vSeed(), "chan_type": ty.name,
				"rounds": rounds, "snap_round": snapRound, "reload_round": reloadRound,
				"anchors": ty.ct.HasAnchors(),
				"dust": map[string]any{
					"a": int64(a.State().LocalChanCfg.DustLimit),
					"b": int64(b.State().LocalChanCfg.DustLimit)}}
			abort := ""
			ops := [][]any{}
			var held [2][]vbwHeld
			var watchers []*vbwWatcher
			var nAdd uint64
			type live struct {
				owner int // offerer
				idx   uint64
				n     uint64
				round int
			}
			var lives []live
			curRound := 0
			capture := func() {
				for p := 0; p < 2; p++ {
					lc := ch[p].State().LocalCommitment
					if n := len(held[p]); n > 0 && held[p][n-1].h == lc.CommitHeight {
						continue
					}
					held[p] = append(held[p], vbwHeld{h: lc.CommitHeight,
						tx: lc.CommitTx.Copy(), commit: lc})
				}
			}
			snapshot := func(label string, round int) {
				for p := 0; p < 2 && abort == ""; p++ {
					vw, err := vbwNewWatcher(ch[p], p, label, round)
					if err != nil {
						abort = "watcher:" + err.Error()
						return
					}
					watchers = append(watchers, vw)
				}
			}
			add := func(p int, amt lnwire.MilliSatoshi) {
				pre, hash := vbwPreimage(ci, nAdd)
				_ = pre
				htlc := &lnwire.UpdateAddHTLC{ChanID: chanID, Amount: amt,
					Expiry: uint32(100 + r.intn(8)), PaymentHash: hash}
				e := vbwSafe(func() error {
					idx, err := ch[p].AddHTLC(htlc, nil)
					if err != nil {
						return err
					}
					htlc.ID = idx
					_, err = ch[1-p].ReceiveHTLC(htlc)
					return err
				})
				ops = append(ops, []any{"add", vbwNames[p], uint64(amt), e})
				if e == "" {
					lives = append(lives, live{p, htlc.ID, nAdd, curRound})
				}
				nAdd++
			}
			pickAmt := func(p int) lnwire.MilliSatoshi {
				dust := int64(ch[r.intn(2)].State().LocalChanCfg.DustLimit)
				switch r.intn(6) {
				case 0:
					return lnwire.MilliSatoshi((dust-1)*1000 + r.rng(0, 999))
				case 1:
					return lnwire.MilliSatoshi(r.rng(1, 150_000))
				case 2:
					return lnwire.MilliSatoshi((dust+8000)*1000 + r.rng(0, 999))
				default:
					return lnwire.MilliSatoshi(r.rng(20_000_000, 900_000_000))
				}
			}
			for round := 0; round <= rounds && abort == ""; round++ {
				curRound = round
				capture()
				if round == snapRound {
					snapshot("early", round)
				}
				if round == reloadRound {
					snapshot("reload", round)
				}
				if round == rounds {
					break
				}
				// updates of this round: adds from either side, resolutions of
				// HTLCs locked in by an earlier round
				starter := r.intn(2)
				nadds := 1 + r.intn(2)
				for i := 0; i < nadds; i++ {
					p := (starter + i) % 2
					add(p, pickAmt(p))
				}
				// an HTLC is resolved only when it is locked in on both
				// sides: two complete dances after its add
				var old []int
				for k, lv := range lives {
					if round-lv.round >= 2 {
						old = append(old, k)
					}
				}
				if len(old) > 0 && r.intn(3) > 0 {
					k := old[r.intn(len(old))]
					lv := lives[k]
					lives = append(lives[:k], lives[k+1:]...)
					recv := 1 - lv.owner
					pre, _ := vbwPreimage(ci, lv.n)
					kind := "settle"
					e := vbwSafe(func() error {
						if r.intn(4) == 0 {
							kind = "fail"
							if err := ch[recv].FailHTLC(lv.idx, []byte("vbw"), nil, nil, nil); err != nil {
								return err
							}
							return ch[lv.owner].ReceiveFailHTLC(lv.idx, []byte("vbw"))
						}
						if err := ch[recv].SettleHTLC(pre, lv.idx, nil, nil, nil); err != nil {
							return err
						}
						return ch[lv.owner].ReceiveHTLCSettle(pre, lv.idx)
					})
					ops = append(ops, []any{kind, vbwNames[recv], lv.idx, e})
					if e != "" {
						abort = kind + ":" + e
						break
					}
				}
				e := vbwSafe(func() error {
					return lnwallet.ForceStateTransition(ch[starter], ch[1-starter])
				})
				ops = append(ops, []any{"dance", vbwNames[starter], e})
				if e != "" {
					abort = "dance:" + e
				}
			}
			// a last, unfinished dance: both sides hold a pending remote commitment
			pendingOK := false
			if abort == "" {
				add(0, pickAmt(0))
				add(1, pickAmt(1))
				e := vbwSafe(func() error {
					sa, err := ch[0].SignNextCommitment(context.Background())
					if err != nil {
						return err
					}
					sb, err := ch[1].SignNextCommitment(context.Background())
					if err != nil {
						return err
					}
					if err := ch[1].ReceiveNewCommitment(sa.CommitSigs); err != nil {
						return err
					}
					return ch[0].ReceiveNewCommitment(sb.CommitSigs)
				})
				ops = append(ops, []any{"half_dance", e})
				pendingOK = e == ""
			}
			feeds := []map[string]any{}
			heldDump := map[string]any{}
			if abort == "" {
				for _, vw := range watchers {
					p := vw.victim
					q := 1 - p
					victim := ch[p]
					st := victim.State()
					// non-breach paths first: current and pending remote commitment
					cur := ch[q].State().LocalCommitment
					feeds = append(feeds, vbwFeed(vw, victim, cur.CommitTx.Copy(),
						"current", cur.CommitHeight))
					if pendingOK {
						if diff, err := st.RemoteCommitChainTip(); err == nil {
							feeds = append(feeds, vbwFeed(vw, victim,
								diff.Commitment.CommitTx.Copy(), "pending",
								diff.Commitment.CommitHeight))
						} else {
							feeds = append(feeds, map[string]any{"watcher": vw.label,
								"victim": vbwNames[p], "expect": "pending",
								"err": "tip:" + err.Error()})
						}
					}
					// every revoked commitment of the counterparty
					acked := st.RemoteCommitment.CommitHeight
					for _, hd := range held[q] {
						if hd.h >= acked {
							continue
						}
						f := vbwFeed(vw, victim, hd.tx, "breach", hd.h)
						feeds = append(feeds, f)
					}
				}
				for q := 0; q < 2; q++ {
					l := []map[string]any{}
					for i := range held[q] {
						d := vbwCommitDump(&held[q][i].commit)
						d["outs"] = vbwOuts(held[q][i].tx)
						l = append(l, d)
					}
					heldDump[vbwNames[q]] = l
				}
			}
			row["ops"] = ops
			row["held"] = heldDump
			row["feeds"] = feeds
			row["aborted"] = nil
			if abort != "" {
				row["aborted"] = abort
			}
			out.emit(row)
		})
	}
}
