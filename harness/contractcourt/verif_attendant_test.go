//go:build verif

package contractcourt

// C12 event-loop harness.  verif_actions_test.go calls the decision functions
// of the ChannelArbitrator directly; this file drives the SECOND entry point:
// the running arbitrator (Start(): real channelAttendant goroutine over the
// real bolt log) and everything that reaches it through its channels and
// public methods between two decisions:
//
//   start    Stop (if running) + NewChannelArbitrator(latest HTLC sets) +
//            Start(beat h) + the link's first UpdateContractSignals at the
//            same clock instant (what ChainArbitrator/link.Start do; it also
//            is the synchronisation point: when it returns
//            progressStateMachineAfterRestart has run)
//   signal   UpdateContractSignals (every link start / peer reconnect)
//   upd      notifyContractUpdate(key, htlcs) (the link's commitment updates)
//   tick     the test clock advances
//   block    ProcessBlock(beat h) through BlockbeatChan
//   user     a force close request through forceCloseReqs
//
// Every operation is synchronous (the attendant acknowledges each of them), so
// a history is deterministic.  Per operation the same observables as in the
// direct harness are recorded, plus the clock and the arbitrator's grace
// reference (startTimestamp) relative to the case's time origin.

import (
	"bufio"
	"encoding/json"
	"os"
	"path/filepath"
	"sync"
	"testing"
	"time"

	"github.com/btcsuite/btcd/wire/v2"
	"github.com/lightningnetwork/lnd/clock"
	"github.com/lightningnetwork/lnd/kvdb"
	"github.com/lightningnetwork/lnd/lnwire"
)

type vOpL struct {
	Op   string  `json:"op"`
	H    int64   `json:"h"`    // start, block: height
	Dt   int64   `json:"dt"`   // tick: seconds
	Scid int64   `json:"scid"` // signal: short channel id announced
	Key  string  `json:"key"`  // upd: l | r | p
	Hs   []vHtlc `json:"hs"`   // upd: the new HTLC set of that commitment
	// start: hand Start() the state read from the log beforehand (what
	// ChainArbitrator.Start does) instead of nil (Start looks it up itself)
	Pre bool `json:"pre"`
}

type vObsL struct {
	vObsA
	Now int64 `json:"now"` // clock, seconds since the time origin
	Ref int64 `json:"ref"` // startTimestamp, seconds since the time origin
}

type vCaseL struct {
	ID     int     `json:"id"`
	Loop   bool    `json:"loop"`
	Kind   string  `json:"kind"`
	Env    vEnvA   `json:"env"`
	Active vSets   `json:"active"`
	Ops    []vOpL  `json:"ops"`
	Obs    []vObsL `json:"obs"`
}

func vCopySets(s vSets) vSets {
	return vSets{
		L: append([]vHtlc{}, s.L...), R: append([]vHtlc{}, s.R...),
		P: append([]vHtlc{}, s.P...), HasP: s.HasP,
	}
}

func vScid(n int64) lnwire.ShortChannelID {
	return lnwire.NewShortChanIDFromInt(uint64(n))
}

func vRunLoop(t *testing.T, db kvdb.Backend, c *vCaseL) {
	clk := clock.NewTestClock(vT0)
	cur := vCopySets(c.Active)
	var (
		x       *vArbCtx
		scidMu  sync.Mutex
		curScid = vScid(int64(c.ID) + 7)
	)
	scidOK := func(s lnwire.ShortChannelID) bool {
		scidMu.Lock()
		defer scidMu.Unlock()
		return s == curScid
	}
	c.Obs = []vObsL{}
	for i, op := range c.Ops {
		errs := ""
		if x == nil && op.Op != "start" {
			t.Fatalf("loop case %d: op %d (%s) before start", c.ID, i, op.Op)
		}
		switch op.Op {
		case "start":
			if x != nil {
				if err := x.arb.Stop(); err != nil {
					errs = "stop:" + err.Error()
				}
			}
			// ChainArbitrator.Start: the sets are those of the channel's
			// current commitments, the scid that of the channel.
			sets := vCopySets(cur)
			x = vNewArbWith(t, db, c.ID, &c.Env, &sets, clk, scidOK)
			x.arb.cfg.ShortChanID = curScid
			var st *chanArbStartState
			if op.Pre {
				var err error
				if st, err = x.arb.getStartState(nil); err != nil {
					errs += "startstate:" + err.Error()
				}
			}
			if err := x.arb.Start(st, newBeatFromHeight(int32(op.H))); err != nil {
				errs += "start:" + err.Error()
			}
			// link.Start -> UpdateContractSignals; returns once the
			// attendant is in its select loop.
			x.arb.UpdateContractSignals(&ContractSignals{ShortChanID: curScid})

		case "signal":
			scidMu.Lock()
			curScid = vScid(op.Scid)
			s := curScid
			scidMu.Unlock()
			x.arb.UpdateContractSignals(&ContractSignals{ShortChanID: s})

		case "upd":
			key := LocalHtlcSet
			switch op.Key {
			case "l":
				cur.L = append([]vHtlc{}, op.Hs...)
			case "r":
				key = RemoteHtlcSet
				cur.R = append([]vHtlc{}, op.Hs...)
			case "p":
				key = RemotePendingHtlcSet
				cur.P = append([]vHtlc{}, op.Hs...)
				cur.HasP = true
			default:
				t.Fatalf("loop case %d: bad key %q", c.ID, op.Key)
			}
			x.arb.notifyContractUpdate(&ContractUpdate{
				HtlcKey: key, Htlcs: vToHTLCs(op.Hs),
			})

		case "tick":
			clk.SetTime(clk.Now().Add(time.Duration(op.Dt) * time.Second))

		case "block":
			if err := x.arb.ProcessBlock(newBeatFromHeight(int32(op.H))); err != nil {
				errs = "block:" + err.Error()
			}

		case "user":
			// ChainArbitrator.ForceCloseContract
			errChan := make(chan error, 1)
			respChan := make(chan *wire.MsgTx, 1)
			x.arb.forceCloseReqs <- &forceCloseReq{errResp: errChan, closeTx: respChan}
			<-respChan
			if err := <-errChan; err != nil && err != errAlreadyForceClosed {
				errs = "user:" + err.Error()
			}

		default:
			t.Fatalf("loop case %d: unknown op %q", c.ID, op.Op)
		}
		o := vObsL{vObsA: x.snapshot(errs)}
		o.Now = int64(clk.Now().Sub(vT0) / time.Second)
		o.Ref = int64(x.arb.startTimestamp.Sub(vT0) / time.Second)
		c.Obs = append(c.Obs, o)
	}
	if x != nil {
		x.arb.Stop()
	}
}

// ---- generator ----

// vLoopEnum enumerates the small universe completely: one HTLC whose cut-off
// (990) the critical block reaches, the grace period (20 s) measured against
// the time since START, and one disturbance in each of two slots: A early
// (5 s after start), B inside the last grace period before the critical
// block.
//
//	kind   own | fwd | recv-known | recv-unknown
//	init   HTLC in the start-up sets | delivered by the link's updates
//	A, B   none | signal | signal with a new scid | sets re-sent | another
//	       HTLC added to all sets | the HTLC removed from all sets | restart
//	start  Start(nil) | Start(state read from the log beforehand), alternating
//	dT     uptime at the critical block = grace, grace+1
//	dh     critical block at cut-off-1, cut-off
//
// followed by a block one grace period later (by then even a restarted
// arbitrator must act) and a user request.
func vLoopEnum(run func(*vCaseL), full bool) {
	const (
		grace  = 20
		expiry = 1000
		delta  = 10
	)
	kinds := []string{"own", "fwd", "recv-known", "recv-unknown"}
	dist := []string{"none", "signal", "scid", "resend", "other", "remove", "restart"}
	nth := 0
	for _, k := range kinds {
		for init := 0; init < 2; init++ {
			for _, da := range dist {
				for _, db := range dist {
					if !full && k != "own" && da != "none" && db != "none" {
						continue
					}
					for dT := int64(0); dT <= 1; dT++ {
						// (forwarded: at up-time == grace only forwarded-ness
						// makes the node act)
						if !full && k != "own" && k != "fwd" && dT == 0 {
							continue
						}
						for dh := int64(-1); dh <= 0; dh++ {
							nth++
							run(vLoopEnumCase(k, init == 1, da, db, grace, expiry,
								delta, dT, dh, nth))
						}
					}
				}
			}
		}
	}
}

func vLoopEnumCase(kind string, byUpd bool, da, db string, grace, expiry, delta, dT,
	dh int64, nth int) *vCaseL {

	inc := int64(0)
	if kind == "recv-known" || kind == "recv-unknown" {
		inc = 1
	}
	hl := vHtlc{3, inc, 0, expiry, 1}
	hr := vHtlc{3, inc, 20, expiry, 1}
	hp := vHtlc{3, inc, 40, expiry, 1}
	far := func(base int64) vHtlc { return vHtlc{5, 0, base + 1, expiry + 5000, 2} }
	c := &vCaseL{Loop: true, Kind: "loop-enum:" + kind,
		Env: vEnvA{InD: delta, OutD: delta, Fwd: []int64{5}, Grace: grace,
			Cache: []int64{}, Inv: [][2]int64{}},
		Active: vSets{L: []vHtlc{}, R: []vHtlc{}, P: []vHtlc{}, HasP: true}}
	if kind == "fwd" {
		c.Env.Fwd = append(c.Env.Fwd, 3)
	}
	if kind == "recv-known" {
		c.Env.Cache = []int64{1}
	}
	L, R, P := []vHtlc{hl}, []vHtlc{hr}, []vHtlc{hp}
	cutoff := expiry - delta
	c.Ops = append(c.Ops, vOpL{Op: "start", H: cutoff - 5, Pre: nth%2 == 0})
	send := func() {
		c.Ops = append(c.Ops,
			vOpL{Op: "upd", Key: "p", Hs: append([]vHtlc{}, P...)},
			vOpL{Op: "upd", Key: "r", Hs: append([]vHtlc{}, R...)},
			vOpL{Op: "upd", Key: "l", Hs: append([]vHtlc{}, L...)})
	}
	if byUpd {
		send()
	} else {
		c.Active = vSets{L: L, R: R, P: P, HasP: true}
	}
	scid := int64(1000)
	disturb := func(d string) {
		switch d {
		case "signal":
			// same scid as before (0 = the channel's own: set below)
			c.Ops = append(c.Ops, vOpL{Op: "signal", Scid: -1})
		case "scid":
			scid++
			c.Ops = append(c.Ops, vOpL{Op: "signal", Scid: scid})
		case "resend":
			send()
		case "other":
			L, R, P = append(L, far(0)), append(R, far(20)), append(P, far(40))
			send()
		case "remove":
			// the HTLC is settled/failed off chain: it leaves all commitments
			drop := func(l []vHtlc) []vHtlc {
				o := []vHtlc{}
				for _, h := range l {
					if h[0] != 3 {
						o = append(o, h)
					}
				}
				return o
			}
			L, R, P = drop(L), drop(R), drop(P)
			c.Ops = append(c.Ops,
				vOpL{Op: "upd", Key: "l", Hs: append([]vHtlc{}, L...)},
				vOpL{Op: "upd", Key: "p", Hs: append([]vHtlc{}, P...)},
				vOpL{Op: "upd", Key: "r", Hs: append([]vHtlc{}, R...)})
		case "restart":
			nth++
			c.Ops = append(c.Ops, vOpL{Op: "start", H: cutoff - 3, Pre: nth%2 == 0})
		}
	}
	c.Ops = append(c.Ops, vOpL{Op: "tick", Dt: 5})
	disturb(da)
	c.Ops = append(c.Ops, vOpL{Op: "block", H: cutoff - 2})
	// B happens 3 s before the critical block: inside the last grace period
	c.Ops = append(c.Ops, vOpL{Op: "tick", Dt: grace + dT - 5 - 3})
	disturb(db)
	c.Ops = append(c.Ops, vOpL{Op: "tick", Dt: 3})
	c.Ops = append(c.Ops, vOpL{Op: "block", H: cutoff + dh})
	c.Ops = append(c.Ops, vOpL{Op: "tick", Dt: grace + 1})
	c.Ops = append(c.Ops, vOpL{Op: "block", H: cutoff + 1})
	c.Ops = append(c.Ops, vOpL{Op: "user"})
	return c
}

// vLoopGen: seeded histories over the HTLC universe of vGenCase.
func vLoopGen(r *vrng) *vCaseL {
	g := vGenCase(r.fork(77), 0)
	for try := uint64(0); try < 4 && len(g.Active.L)+len(g.Active.R) == 0; try++ {
		g = vGenCase(r.fork(78+try), 0)
	}
	c := &vCaseL{Loop: true, Kind: "loop-rand", Env: g.Env, Active: vCopySets(g.Active)}
	c.Env.Uptime = 0
	graces := []int64{0, 10, 10, 14400}
	c.Env.Grace = graces[r.intn(len(graces))]
	cur := vCopySets(c.Active)
	var cutoffs []int64
	collect := func() {
		cutoffs = cutoffs[:0]
		for _, l := range [][]vHtlc{cur.L, cur.R, cur.P} {
			for _, h := range l {
				d := c.Env.OutD
				if h[1] != 0 {
					d = c.Env.InD
				}
				if h[3] >= d {
					cutoffs = append(cutoffs, h[3]-d)
				}
			}
		}
	}
	collect()
	height := int64(500)
	if len(cutoffs) > 0 {
		height = cutoffs[r.intn(len(cutoffs))] - r.rng(0, 4)
		if height < 0 {
			height = 0
		}
	}
	c.Ops = append(c.Ops, vOpL{Op: "start", H: height, Pre: r.bool()})
	fresh := int64(200)
	scid := int64(5000)
	ticks := func() int64 {
		g := c.Env.Grace
		switch r.intn(6) {
		case 0:
			return 0
		case 1:
			return 1
		case 2:
			return g
		case 3:
			return g + 1
		case 4:
			if g > 1 {
				return g - 1
			}
			return 2
		}
		return r.rng(0, 2*g+3)
	}
	n := 3 + r.intn(10)
	for k := 0; k < n; k++ {
		switch w := r.intn(20); {
		case w < 5:
			c.Ops = append(c.Ops, vOpL{Op: "tick", Dt: ticks()})
		case w < 8:
			if r.intn(3) == 0 {
				scid++
				c.Ops = append(c.Ops, vOpL{Op: "signal", Scid: scid})
			} else {
				c.Ops = append(c.Ops, vOpL{Op: "signal", Scid: -1})
			}
		case w < 11:
			// one commitment changes
			keys := []string{"l", "r", "p"}
			key := keys[r.intn(3)]
			get := func(k string) []vHtlc {
				switch k {
				case "l":
					return cur.L
				case "r":
					return cur.R
				}
				return cur.P
			}
			l := append([]vHtlc{}, get(key)...)
			has := func(l []vHtlc, h vHtlc) bool {
				for _, o := range l {
					if o[0] == h[0] && o[1] == h[1] {
						return true
					}
				}
				return false
			}
			switch r.intn(4) {
			case 0: // an HTLC leaves this commitment
				if len(l) > 0 {
					j := r.intn(len(l))
					l = append(l[:j], l[j+1:]...)
				}
			case 1: // an HTLC of a commitment that is ahead arrives
				from := "r"
				if key == "r" || (key == "l" && r.bool()) {
					from = "p"
				}
				src := get(from)
				if len(src) > 0 {
					h := src[r.intn(len(src))]
					if !has(l, h) {
						l = append(l, h)
					}
				}
			case 2: // a fresh HTLC (only here so far)
				fresh++
				d := c.Env.OutD
				inc := int64(0)
				if r.intn(3) == 0 {
					inc, d = 1, c.Env.InD
				}
				out := int64(60) + fresh
				if r.intn(4) == 0 {
					out = -1
				}
				exp := height + d + r.rng(-1, 3)
				if exp < 0 {
					exp = 0 // RefundTimeout is a uint32
				}
				l = append(l, vHtlc{fresh, inc, out, exp, 50 + fresh})
				if r.bool() {
					c.Env.Fwd = append(c.Env.Fwd, fresh)
				}
				// ... unchanged re-send otherwise
			}
			switch key {
			case "l":
				cur.L = l
			case "r":
				cur.R = l
			default:
				cur.P, cur.HasP = l, true
			}
			c.Ops = append(c.Ops, vOpL{Op: "upd", Key: key, Hs: l})
			collect()
		case w < 18:
			if len(cutoffs) > 0 && r.intn(3) != 0 {
				h := cutoffs[r.intn(len(cutoffs))] + r.rng(-1, 1)
				if h > height {
					height = h
				} else {
					height += r.rng(0, 1)
				}
			} else {
				height += r.rng(0, 2)
			}
			c.Ops = append(c.Ops, vOpL{Op: "block", H: height})
		case w < 19:
			c.Ops = append(c.Ops, vOpL{Op: "start", H: height, Pre: r.bool()})
		default:
			if r.intn(3) == 0 {
				c.Ops = append(c.Ops, vOpL{Op: "user"})
			} else {
				c.Ops = append(c.Ops, vOpL{Op: "tick", Dt: ticks()})
			}
		}
	}
	// always end on a decision
	c.Ops = append(c.Ops, vOpL{Op: "tick", Dt: ticks()}, vOpL{Op: "block", H: height + r.rng(0, 2)})
	return c
}

func TestVerifAttendant(t *testing.T) {
	t.Parallel()
	p := os.Getenv("VERIF_OUT_ATT")
	if p == "" {
		p = os.DevNull
	}
	f, err := os.Create(p)
	if err != nil {
		t.Fatal(err)
	}
	out := &vWriter{f: f, w: bufio.NewWriterSize(f, 1<<20)}
	defer out.close()

	db, err := kvdb.Create(
		kvdb.BoltBackendName, filepath.Join(t.TempDir(), "verifdb"), true,
		kvdb.DefaultDBTimeout, false,
	)
	if err != nil {
		t.Fatal(err)
	}
	defer db.Close()

	id := 0
	run := func(c *vCaseL) {
		c.ID = id
		id++
		// "the scid the channel already has"
		for i := range c.Ops {
			if c.Ops[i].Op == "signal" && c.Ops[i].Scid < 0 {
				c.Ops[i].Scid = vLastScid(c, i)
			}
		}
		vRunLoop(t, db, c)
		out.emit(c)
	}

	if p := os.Getenv("VERIF_REPLAY_ATT"); p != "" {
		raw, err := os.ReadFile(p)
		if err != nil {
			t.Fatal(err)
		}
		var many struct {
			Cases []*vCaseL `json:"cases"`
		}
		if err := json.Unmarshal(raw, &many); err != nil {
			t.Fatal(err)
		}
		for _, c := range many.Cases {
			run(c)
		}
		return
	}
	if vReplay() != "" {
		return // a replay of a direct-call case
	}

	full := vTier() == "thorough" || vEnvInt("VERIF_EXHAUSTIVE", 0) != 0
	vLoopEnum(run, full)
	master := vNewRng(vSeed() ^ 0xa77e17da17)
	n := vCases(200, 4000)
	for i := 0; i < n; i++ {
		run(vLoopGen(master.fork(uint64(i))))
	}
}

// vLastScid: the short channel id in force before op i (the channel's own one
// until a signal announced another).
func vLastScid(c *vCaseL, i int) int64 {
	for j := i - 1; j >= 0; j-- {
		if c.Ops[j].Op == "signal" {
			return c.Ops[j].Scid
		}
	}
	return int64(c.ID) + 7
}
