//go:build verif

package contractcourt

// C12 correspondence harness.  Drives the REAL ChannelArbitrator (stateStep /
// advanceState / handleBlockbeat / handle*CloseEvent, the chain-action
// classifiers and prepContractResolutions) on seeded scenarios: three HTLC
// sets x direction x dust x preimage knowledge x heights around every
// broadcast cut-off x forwarded/own x trigger, and records per operation the
// projected observables named by the property:
//   - ForceCloseChan invocations,
//   - ResolutionMsgs handed to DeliverResolutionMsg (upstream fail-backs),
//   - PutFinalHtlcOutcome calls (received dust closed out),
//   - resolvers passed to InsertUnresolvedContracts (kind, htlc index),
//   - the arbitrator state after the operation.
// The arbitrator goroutine is not started: the harness calls the same
// handlers channelAttendant calls, one event at a time, so that every case is
// deterministic.  Before a close event the arbitrator's quit channel is
// closed so that the launched resolver goroutines return at once (resolver
// progress belongs to C13, not to this property).

import (
	"context"
	"encoding/binary"
	"encoding/json"
	"os"
	"path/filepath"
	"sort"
	"sync"
	"testing"
	"time"

	"github.com/btcsuite/btcd/chainhash/v2"
	"github.com/btcsuite/btcd/wire/v2"
	"github.com/lightningnetwork/lnd/chainntnfs"
	"github.com/lightningnetwork/lnd/channeldb"
	"github.com/lightningnetwork/lnd/chanstate"
	"github.com/lightningnetwork/lnd/clock"
	"github.com/lightningnetwork/lnd/fn/v2"
	"github.com/lightningnetwork/lnd/graph/db/models"
	"github.com/lightningnetwork/lnd/htlcswitch/hop"
	"github.com/lightningnetwork/lnd/input"
	"github.com/lightningnetwork/lnd/invoices"
	"github.com/lightningnetwork/lnd/kvdb"
	"github.com/lightningnetwork/lnd/lntest/mock"
	"github.com/lightningnetwork/lnd/lntypes"
	"github.com/lightningnetwork/lnd/lnwallet"
	"github.com/lightningnetwork/lnd/lnwallet/chainfee"
	"github.com/lightningnetwork/lnd/lnwire"
	"github.com/lightningnetwork/lnd/sweep"
)

// ---- case description (also the replay format) ----

// vHtlc = [idx, incoming(0/1), outputIndex, expiry, hashID]
type vHtlc [5]int64

type vSets struct {
	L []vHtlc `json:"l"`
	R []vHtlc `json:"r"`
	P []vHtlc `json:"p"`
	// HasP: whether a RemotePendingHtlcSet entry exists at all.
	HasP bool `json:"hasp"`
}

type vRes struct {
	In     []int64 `json:"in"`  // output indexes with an incoming resolution
	Out    []int64 `json:"out"` // output indexes with an outgoing resolution
	Commit bool    `json:"commit"`
	Anchor bool    `json:"anchor"`
}

type vOpA struct {
	Op   string `json:"op"`   // block | user | close
	H    int64  `json:"h"`    // height
	Kind string `json:"kind"` // close: local|remote|pending|breach|coop
	CS   *vSets `json:"cs,omitempty"`
	Res  *vRes  `json:"res,omitempty"`
}

type vEnvA struct {
	InD    int64      `json:"ind"`
	OutD   int64      `json:"outd"`
	Fwd    []int64    `json:"fwd"`
	Uptime int64      `json:"uptime"` // seconds
	Grace  int64      `json:"grace"`  // seconds
	Cache  []int64    `json:"cache"`  // hash ids with a preimage in the witness cache
	Inv    [][2]int64 `json:"inv"`    // [hash id, 1 if the invoice carries its preimage]
}

type vObsA struct {
	State     int        `json:"state"`
	FC        int        `json:"fc"`
	Fail      []int64    `json:"fail"`
	FailCalls int        `json:"failcalls"`
	Final     []int64    `json:"final"`
	Resolvers [][2]int64 `json:"resolvers"` // [kind, idx]
	Resolved  int        `json:"resolved"`
	Err       string     `json:"err,omitempty"`
}

type vCaseA struct {
	ID     int     `json:"id"`
	Kind   string  `json:"kind"`
	Env    vEnvA   `json:"env"`
	Active vSets   `json:"active"`
	Ops    []vOpA  `json:"ops"`
	Obs    []vObsA `json:"obs"`
}

// resolver kinds (must match ActionsModel.v)
const (
	vRTimeout    = 1
	vRSuccess    = 2
	vRInContest  = 3
	vROutContest = 4
	vRAnchor     = 5
	vRBreach     = 6
	vRCommit     = 7
)

// ---- mocks (goroutine safe, never block) ----

type vSweeper struct{}

func (s *vSweeper) SweepInput(input.Input, sweep.Params) (chan sweep.Result, error) {
	return make(chan sweep.Result, 1), nil
}
func (s *vSweeper) RelayFeePerKW() chainfee.SatPerKWeight { return 253 }
func (s *vSweeper) UpdateParams(wire.OutPoint, sweep.Params) (chan sweep.Result, error) {
	return make(chan sweep.Result, 1), nil
}

type vBeacon struct{ known map[lntypes.Hash]bool }

func (m *vBeacon) SubscribeUpdates(lnwire.ShortChannelID, *channeldb.HTLC,
	*hop.Payload, []byte) (*WitnessSubscription, error) {

	return &WitnessSubscription{
		WitnessUpdates:     make(chan lntypes.Preimage),
		CancelSubscription: func() {},
	}, nil
}
func (m *vBeacon) LookupPreimage(h lntypes.Hash) (lntypes.Preimage, bool) {
	if m.known[h] {
		return lntypes.Preimage{1}, true
	}
	return lntypes.Preimage{}, false
}
func (m *vBeacon) AddPreimages(...lntypes.Preimage) error { return nil }

type vRegistry struct{ inv map[lntypes.Hash]bool }

func (r *vRegistry) LookupInvoice(_ context.Context, h lntypes.Hash) (invoices.Invoice, error) {
	withPre, ok := r.inv[h]
	if !ok {
		return invoices.Invoice{}, invoices.ErrInvoiceNotFound
	}
	var i invoices.Invoice
	if withPre {
		p := lntypes.Preimage{2}
		i.Terms.PaymentPreimage = &p
	}
	return i, nil
}
func (r *vRegistry) NotifyExitHopHtlc(lntypes.Hash, lnwire.MilliSatoshi, uint32, int32,
	models.CircuitKey, chan<- interface{}, lnwire.CustomRecords,
	invoices.Payload) (invoices.HtlcResolution, error) {

	return nil, nil
}
func (r *vRegistry) HodlUnsubscribeAll(chan<- interface{}) {}

type vChannel struct {
	mu sync.Mutex
	fc int
}

func (m *vChannel) NewAnchorResolutions() (*lnwallet.AnchorResolutions, error) {
	return &lnwallet.AnchorResolutions{}, nil
}
func (m *vChannel) ForceCloseChan() (*wire.MsgTx, error) {
	m.mu.Lock()
	m.fc++
	m.mu.Unlock()
	return &wire.MsgTx{}, nil
}

// vLog wraps the real bolt-backed log and records the resolvers handed to
// InsertUnresolvedContracts by StateContractClosed (reports == nil).
type vLog struct {
	ArbitratorLog
	mu        sync.Mutex
	resolvers [][2]int64
}

func vResolverID(r ContractResolver) [2]int64 {
	switch x := r.(type) {
	case *htlcOutgoingContestResolver:
		return [2]int64{vROutContest, int64(x.htlc.HtlcIndex)}
	case *htlcTimeoutResolver:
		return [2]int64{vRTimeout, int64(x.htlc.HtlcIndex)}
	case *htlcIncomingContestResolver:
		return [2]int64{vRInContest, int64(x.htlc.HtlcIndex)}
	case *htlcSuccessResolver:
		return [2]int64{vRSuccess, int64(x.htlc.HtlcIndex)}
	case *anchorResolver:
		return [2]int64{vRAnchor, 0}
	case *breachResolver:
		return [2]int64{vRBreach, 0}
	case *commitSweepResolver:
		return [2]int64{vRCommit, 0}
	}
	return [2]int64{99, 0}
}

func (l *vLog) InsertUnresolvedContracts(reports []*channeldb.ResolverReport,
	resolvers ...ContractResolver) error {

	if reports == nil {
		l.mu.Lock()
		for _, r := range resolvers {
			l.resolvers = append(l.resolvers, vResolverID(r))
		}
		l.mu.Unlock()
	}
	return l.ArbitratorLog.InsertUnresolvedContracts(reports, resolvers...)
}

// ---- conversion ----

func vHash(id int64) (h [32]byte) {
	binary.BigEndian.PutUint64(h[:8], uint64(id))
	h[31] = 0xc1
	return h
}

func vToHTLCs(l []vHtlc) []channeldb.HTLC {
	out := make([]channeldb.HTLC, 0, len(l))
	for _, v := range l {
		out = append(out, channeldb.HTLC{
			HtlcIndex:     uint64(v[0]),
			Incoming:      v[1] != 0,
			OutputIndex:   int32(v[2]),
			RefundTimeout: uint32(v[3]),
			RHash:         vHash(v[4]),
			Amt:           lnwire.MilliSatoshi(1000000 + v[0]),
		})
	}
	return out
}

func vCommitSet(s *vSets, key HtlcSetKey) CommitSet {
	cs := CommitSet{
		ConfCommitKey: fn.Some(key),
		HtlcSets: map[HtlcSetKey][]channeldb.HTLC{
			LocalHtlcSet:  vToHTLCs(s.L),
			RemoteHtlcSet: vToHTLCs(s.R),
		},
	}
	if s.HasP {
		cs.HtlcSets[RemotePendingHtlcSet] = vToHTLCs(s.P)
	}
	return cs
}

func vSignDesc() input.SignDescriptor {
	return input.SignDescriptor{Output: &wire.TxOut{Value: 1000}, WitnessScript: []byte{0}}
}

func vHtlcResolutions(commit chainhash.Hash, res *vRes, local bool) *lnwallet.HtlcResolutions {
	hr := &lnwallet.HtlcResolutions{}
	for _, oi := range res.Out {
		op := wire.OutPoint{Hash: commit, Index: uint32(oi)}
		r := lnwallet.OutgoingHtlcResolution{Expiry: 10, SweepSignDesc: vSignDesc()}
		if local {
			r.SignedTimeoutTx = &wire.MsgTx{
				TxIn:  []*wire.TxIn{{PreviousOutPoint: op, Witness: [][]byte{{}}}},
				TxOut: []*wire.TxOut{{}},
			}
		} else {
			r.ClaimOutpoint = op
		}
		hr.OutgoingHTLCs = append(hr.OutgoingHTLCs, r)
	}
	for _, oi := range res.In {
		op := wire.OutPoint{Hash: commit, Index: uint32(oi)}
		r := lnwallet.IncomingHtlcResolution{SweepSignDesc: vSignDesc()}
		if local {
			r.SignedSuccessTx = &wire.MsgTx{
				TxIn:  []*wire.TxIn{{PreviousOutPoint: op, Witness: [][]byte{{}, {}, {}, {}, {}}}},
				TxOut: []*wire.TxOut{{}},
			}
		} else {
			r.ClaimOutpoint = op
		}
		hr.IncomingHTLCs = append(hr.IncomingHTLCs, r)
	}
	return hr
}

// ---- one case on the real arbitrator ----

type vArbCtx struct {
	arb    *ChannelArbitrator
	ch     *vChannel
	log    *vLog
	mu     sync.Mutex
	fails  []int64
	calls  int
	finals []int64
	resolv int
	quitCl bool
}

// vT0 is the instant every case's test clock starts at.
var vT0 = time.Unix(1700000000, 0)

// vNewArb builds the arbitrator of a direct-call case (TestVerifActions): what
// Start() does, minus the goroutine.
func vNewArb(t *testing.T, db kvdb.Backend, c *vCaseA) *vArbCtx {
	clk := clock.NewTestClock(vT0)
	ctx := vNewArbWith(t, db, c.ID, &c.Env, &c.Active, clk, nil)
	ctx.arb.startTimestamp = clk.Now()
	ctx.arb.state = StateDefault
	clk.SetTime(vT0.Add(time.Duration(c.Env.Uptime) * time.Second))
	return ctx
}

// vNewArbWith builds a real ChannelArbitrator (not started) over the bolt log
// of channel `id` in db.  scidOK (optional) restricts IsForwardedHTLC to the
// short channel id the link announced last (event-loop harness).
func vNewArbWith(t *testing.T, db kvdb.Backend, id int, env *vEnvA, active *vSets,
	clk clock.Clock, scidOK func(lnwire.ShortChannelID) bool) *vArbCtx {

	c := &struct {
		ID     int
		Env    *vEnvA
		Active *vSets
	}{id, env, active}
	ctx := &vArbCtx{ch: &vChannel{}}
	var cp wire.OutPoint
	binary.BigEndian.PutUint64(cp.Hash[:8], uint64(c.ID)+1)
	cp.Hash[31] = 0x12

	fwd := map[uint64]bool{}
	for _, i := range c.Env.Fwd {
		fwd[uint64(i)] = true
	}
	beacon := &vBeacon{known: map[lntypes.Hash]bool{}}
	for _, h := range c.Env.Cache {
		beacon.known[vHash(h)] = true
	}
	reg := &vRegistry{inv: map[lntypes.Hash]bool{}}
	for _, e := range c.Env.Inv {
		reg.inv[vHash(e[0])] = e[1] != 0
	}

	chainArbCfg := ChainArbitratorConfig{
		ChainIO:   &mockChainIO{},
		PublishTx: func(*wire.MsgTx, string) error { return nil },
		DeliverResolutionMsg: func(msgs ...ResolutionMsg) error {
			ctx.mu.Lock()
			defer ctx.mu.Unlock()
			ctx.calls++
			for _, m := range msgs {
				if m.Failure == nil {
					// not an upstream fail-back
					ctx.fails = append(ctx.fails, -1-int64(m.HtlcIndex))
					continue
				}
				ctx.fails = append(ctx.fails, int64(m.HtlcIndex))
			}
			return nil
		},
		OutgoingBroadcastDelta: uint32(c.Env.OutD),
		IncomingBroadcastDelta: uint32(c.Env.InD),
		Notifier: &mock.ChainNotifier{
			EpochChan: make(chan *chainntnfs.BlockEpoch),
			SpendChan: make(chan *chainntnfs.SpendDetail),
			ConfChan:  make(chan *chainntnfs.TxConfirmation),
		},
		IncubateOutputs: func(wire.OutPoint,
			fn.Option[lnwallet.OutgoingHtlcResolution],
			fn.Option[lnwallet.IncomingHtlcResolution],
			uint32, fn.Option[int32], ...IncubateOption) error {

			return nil
		},
		OnionProcessor: &mockOnionProcessor{},
		IsForwardedHTLC: func(scid lnwire.ShortChannelID, idx uint64) bool {
			if scidOK != nil && !scidOK(scid) {
				return false
			}
			return fwd[idx]
		},
		SubscribeBreachComplete: func(*wire.OutPoint, chan struct{}) (bool, error) {
			return false, nil
		},
		Clock:        clk,
		Sweeper:      &vSweeper{},
		HtlcNotifier: &mockHTLCNotifier{},
		PutFinalHtlcOutcome: func(_ lnwire.ShortChannelID, id uint64, settled bool) error {
			ctx.mu.Lock()
			defer ctx.mu.Unlock()
			v := int64(id)
			if settled {
				v = -1 - v
			}
			ctx.finals = append(ctx.finals, v)
			return nil
		},
		Budget:     *DefaultBudgetConfig(),
		PreimageDB: beacon,
		Registry:   reg,
		QueryIncomingCircuit: func(models.CircuitKey) *models.CircuitKey {
			return nil
		},
		PaymentsExpirationGracePeriod: time.Duration(c.Env.Grace) * time.Second,
	}
	arbCfg := ChannelArbitratorConfig{
		ChanPoint:   cp,
		ShortChanID: lnwire.NewShortChanIDFromInt(uint64(c.ID) + 7),
		NotifyChannelResolved: func() {
			ctx.mu.Lock()
			ctx.resolv++
			ctx.mu.Unlock()
		},
		MarkCommitmentBroadcasted: func(*wire.MsgTx, lntypes.ChannelParty) error { return nil },
		MarkChannelClosed: func(*channeldb.ChannelCloseSummary,
			...channeldb.ChannelStatus) error {

			return nil
		},
		ChainArbitratorConfig: chainArbCfg,
		ChainEvents: &ChainEventSubscription{
			RemoteUnilateralClosure: make(chan *RemoteUnilateralCloseInfo, 1),
			LocalUnilateralClosure:  make(chan *LocalUnilateralCloseInfo, 1),
			CooperativeClosure:      make(chan *CooperativeCloseInfo, 1),
			ContractBreach:          make(chan *BreachCloseInfo, 1),
		},
		PutResolverReport: func(kvdb.RwTx, *channeldb.ResolverReport) error { return nil },
		FetchHistoricalChannel: func() (*chanstate.OpenChannel, error) {
			return &chanstate.OpenChannel{}, nil
		},
		FindOutgoingHTLCDeadline: func(channeldb.HTLC) fn.Option[int32] {
			return fn.None[int32]()
		},
		Channel: ctx.ch,
	}
	backing, err := newBoltArbitratorLog(db, arbCfg, chainhash.Hash{}, cp)
	if err != nil {
		t.Fatal(err)
	}
	ctx.log = &vLog{ArbitratorLog: backing}

	sets := map[HtlcSetKey]htlcSet{
		LocalHtlcSet:  newHtlcSet(vToHTLCs(c.Active.L)),
		RemoteHtlcSet: newHtlcSet(vToHTLCs(c.Active.R)),
	}
	if c.Active.HasP {
		sets[RemotePendingHtlcSet] = newHtlcSet(vToHTLCs(c.Active.P))
	}
	ctx.arb = NewChannelArbitrator(arbCfg, sets, ctx.log)
	return ctx
}

func (x *vArbCtx) snapshot(errs string) vObsA {
	x.mu.Lock()
	defer x.mu.Unlock()
	x.log.mu.Lock()
	defer x.log.mu.Unlock()
	x.ch.mu.Lock()
	defer x.ch.mu.Unlock()
	o := vObsA{
		State: int(x.arb.state), FC: x.ch.fc, FailCalls: x.calls,
		Resolved: x.resolv, Err: errs,
		Fail: append([]int64{}, x.fails...), Final: append([]int64{}, x.finals...),
		Resolvers: append([][2]int64{}, x.log.resolvers...),
	}
	sort.Slice(o.Fail, func(i, j int) bool { return o.Fail[i] < o.Fail[j] })
	sort.Slice(o.Final, func(i, j int) bool { return o.Final[i] < o.Final[j] })
	sort.Slice(o.Resolvers, func(i, j int) bool {
		if o.Resolvers[i][0] != o.Resolvers[j][0] {
			return o.Resolvers[i][0] < o.Resolvers[j][0]
		}
		return o.Resolvers[i][1] < o.Resolvers[j][1]
	})
	// observables are per operation: reset the accumulators
	x.fails, x.finals, x.calls, x.resolv = nil, nil, 0, 0
	x.log.resolvers = nil
	x.ch.fc = 0
	return o
}

func (x *vArbCtx) closeQuit() {
	if !x.quitCl {
		close(x.arb.quit)
		x.quitCl = true
	}
}

func vRunCase(t *testing.T, db kvdb.Backend, c *vCaseA) {
	x := vNewArb(t, db, c)
	arb := x.arb
	c.Obs = []vObsA{}
	for _, op := range c.Ops {
		errs := ""
		switch op.Op {
		case "block":
			// BlockbeatDispatcher -> ProcessBlock -> channelAttendant
			// -> handleBlockbeat.
			beat := newBeatFromHeight(int32(op.H))
			done := make(chan error, 1)
			go func() { done <- arb.ProcessBlock(beat) }()
			b := <-arb.BlockbeatChan
			if err := arb.handleBlockbeat(b); err != nil {
				errs = "block:" + err.Error()
			}
			<-done

		case "user":
			// channelAttendant, case closeReq := <-c.forceCloseReqs
			if arb.state == StateDefault {
				_, _, err := arb.advanceState(uint32(op.H), userTrigger, nil)
				if err != nil {
					errs = "user:" + err.Error()
				}
			}

		case "close":
			x.closeQuit()
			var err error
			var spender chainhash.Hash
			binary.BigEndian.PutUint64(spender[:8], uint64(c.ID)+99)
			switch op.Kind {
			case "coop":
				err = arb.handleCoopCloseEvent(&CooperativeCloseInfo{
					ChannelCloseSummary: &channeldb.ChannelCloseSummary{
						CloseHeight: uint32(op.H),
					},
				})
			case "local":
				closeTx := &wire.MsgTx{TxIn: []*wire.TxIn{{
					Witness: [][]byte{{0x1}, {byte(c.ID)}, {byte(c.ID >> 8)}},
				}}}
				cr := lnwallet.ContractResolutions{
					HtlcResolutions: vHtlcResolutions(closeTx.TxHash(), op.Res, true),
				}
				if op.Res.Commit {
					cr.CommitResolution = &lnwallet.CommitOutputResolution{
						SelfOutPoint:       wire.OutPoint{Hash: closeTx.TxHash(), Index: 900},
						SelfOutputSignDesc: vSignDesc(), MaturityDelay: 144,
					}
				}
				if op.Res.Anchor {
					cr.AnchorResolution = &lnwallet.AnchorResolution{
						AnchorSignDescriptor: vSignDesc(),
						CommitAnchor:         wire.OutPoint{Hash: closeTx.TxHash(), Index: 901},
					}
				}
				err = arb.handleLocalForceCloseEvent(&LocalUnilateralCloseInfo{
					SpendDetail: &chainntnfs.SpendDetail{SpendingHeight: int32(op.H)},
					LocalForceCloseSummary: &lnwallet.LocalForceCloseSummary{
						CloseTx:             closeTx,
						ContractResolutions: fn.Some(cr),
					},
					ChannelCloseSummary: &channeldb.ChannelCloseSummary{},
					CommitSet:           vCommitSet(op.CS, LocalHtlcSet),
				})
			case "remote", "pending":
				key := RemoteHtlcSet
				if op.Kind == "pending" {
					key = RemotePendingHtlcSet
				}
				us := &lnwallet.UnilateralCloseSummary{
					SpendDetail: &chainntnfs.SpendDetail{
						SpenderTxHash:  &spender,
						SpendingHeight: int32(op.H),
					},
					HtlcResolutions: vHtlcResolutions(spender, op.Res, false),
				}
				if op.Res.Commit {
					us.CommitResolution = &lnwallet.CommitOutputResolution{
						SelfOutPoint:       wire.OutPoint{Hash: spender, Index: 900},
						SelfOutputSignDesc: vSignDesc(),
					}
				}
				if op.Res.Anchor {
					us.AnchorResolution = &lnwallet.AnchorResolution{
						AnchorSignDescriptor: vSignDesc(),
						CommitAnchor:         wire.OutPoint{Hash: spender, Index: 901},
					}
				}
				err = arb.handleRemoteForceCloseEvent(&RemoteUnilateralCloseInfo{
					UnilateralCloseSummary: us,
					CommitSet:              vCommitSet(op.CS, key),
				})
			case "breach":
				bi := &BreachCloseInfo{
					BreachResolution: &BreachResolution{FundingOutPoint: arb.cfg.ChanPoint},
					CommitHash:       spender,
					// chain_watcher sets RemoteHtlcSet for a breach.
					CommitSet:    vCommitSet(op.CS, RemoteHtlcSet),
					CloseSummary: channeldb.ChannelCloseSummary{CloseHeight: uint32(op.H)},
				}
				if op.Res.Anchor {
					bi.AnchorResolution = &lnwallet.AnchorResolution{
						AnchorSignDescriptor: vSignDesc(),
						CommitAnchor:         wire.OutPoint{Hash: spender, Index: 901},
					}
				}
				err = arb.handleContractBreach(bi)
			}
			if err != nil {
				errs = "close:" + err.Error()
			}
		}
		c.Obs = append(c.Obs, x.snapshot(errs))
	}
	// Let the (already signalled) resolver goroutines drain.
	x.closeQuit()
	arb.wg.Wait()
}

// ---- generator ----

type vIdent struct {
	idx      int64
	incoming bool
	expiry   int64
	hash     int64
	onL      bool
	onR      bool
	onP      bool
	dustL    bool
	dustR    bool // shared by remote and remote-pending (see notes/C12.md)
}

func vBuildSets(ids []vIdent, hasP bool) vSets {
	s := vSets{HasP: hasP, L: []vHtlc{}, R: []vHtlc{}, P: []vHtlc{}}
	for k, id := range ids {
		inc := int64(0)
		if id.incoming {
			inc = 1
		}
		mk := func(dust bool, base int64) vHtlc {
			oi := base + int64(k)
			if dust {
				oi = -1
			}
			return vHtlc{id.idx, inc, oi, id.expiry, id.hash}
		}
		if id.onL {
			s.L = append(s.L, mk(id.dustL, 0))
		}
		if id.onR {
			s.R = append(s.R, mk(id.dustR, 20))
		}
		if id.onP && hasP {
			s.P = append(s.P, mk(id.dustR, 40))
		}
	}
	return s
}

func vCompleteRes(l []vHtlc) *vRes {
	r := &vRes{In: []int64{}, Out: []int64{}}
	for _, h := range l {
		if h[2] < 0 {
			continue
		}
		if h[1] != 0 {
			r.In = append(r.In, h[2])
		} else {
			r.Out = append(r.Out, h[2])
		}
	}
	return r
}

func vGenCase(r *vrng, id int) *vCaseA {
	c := &vCaseA{ID: id, Ops: []vOpA{}}
	deltas := []int64{0, 1, 3, 5, 10, 40}
	c.Env.InD = deltas[r.intn(len(deltas))]
	c.Env.OutD = deltas[r.intn(len(deltas))]
	graces := []int64{0, 10, 14400}
	c.Env.Grace = graces[r.intn(len(graces))]
	c.Env.Uptime = c.Env.Grace + r.rng(-1, 1)
	if c.Env.Uptime < 0 || r.intn(6) == 0 {
		c.Env.Uptime = 0
	}
	c.Env.Fwd, c.Env.Cache, c.Env.Inv = []int64{}, []int64{}, [][2]int64{}

	base := r.rng(100, 100000)
	n := r.intn(5)
	if r.intn(10) == 0 {
		n = 5 + r.intn(4)
	}
	hasP := r.intn(3) != 0
	malformed := r.intn(6) == 0 // ignore the protocol shape
	var ids []vIdent
	var cutoffs []int64
	for k := 0; k < n; k++ {
		v := vIdent{idx: int64(k) + int64(r.intn(3))*10, hash: int64(k + 1)}
		// avoid duplicate idx within a direction
		for _, o := range ids {
			if o.idx == v.idx {
				v.idx += 100 + int64(k)
			}
		}
		v.incoming = r.intn(3) == 0
		d := c.Env.OutD
		if v.incoming {
			d = c.Env.InD
		}
		switch r.intn(8) {
		case 0:
			v.expiry = base + d + 1000 // far away
		case 1:
			// RefundTimeout below the delta: uint32 underflow of the cut-off
			v.expiry = r.rng(0, d)
		default:
			v.expiry = base + d + r.rng(-2, 3)
		}
		cutoffs = append(cutoffs, v.expiry-d)
		v.dustL = r.intn(3) == 0
		v.dustR = r.intn(3) == 0
		if r.intn(3) != 0 {
			v.dustR = v.dustL
		}
		if malformed {
			v.onL, v.onR, v.onP = r.bool(), r.bool(), r.bool()
		} else if !v.incoming {
			// offered: pending gets it first, then remote, then local;
			// removal: local first, then pending, then remote.
			switch r.intn(6) {
			case 0:
				v.onP = true // just signed
				if !hasP {
					v.onR = true
				}
			case 1:
				v.onP, v.onR = true, true // remote revoked, not yet on ours
			case 2:
				v.onR = true // removed from local and pending
			default:
				v.onL, v.onR, v.onP = true, true, true
			}
		} else {
			// received: local first, then pending, then remote; removal:
			// pending first, then remote, then local.
			switch r.intn(6) {
			case 0:
				v.onL = true
			case 1:
				v.onL, v.onP = true, true
				if !hasP {
					v.onR = true
				}
			case 2:
				v.onL, v.onR = true, true
			default:
				v.onL, v.onR, v.onP = true, true, true
			}
		}
		if r.intn(2) == 0 {
			c.Env.Fwd = append(c.Env.Fwd, v.idx)
		}
		switch r.intn(5) {
		case 0:
			c.Env.Cache = append(c.Env.Cache, v.hash)
		case 1:
			c.Env.Inv = append(c.Env.Inv, [2]int64{v.hash, 1})
		case 2:
			c.Env.Inv = append(c.Env.Inv, [2]int64{v.hash, 0})
		}
		ids = append(ids, v)
	}
	c.Active = vBuildSets(ids, hasP)

	// pre-close operations
	pick := func() int64 {
		if len(cutoffs) > 0 && r.intn(5) != 0 {
			h := cutoffs[r.intn(len(cutoffs))] + r.rng(-1, 1)
			if h < 0 {
				h = 0
			}
			return h
		}
		return base + r.rng(-3, 3)
	}
	h := pick()
	path := r.intn(10)
	switch {
	case path < 3: // straight to the close event
		c.Kind = "direct"
	case path < 6:
		c.Kind = "user"
		if r.bool() {
			c.Ops = append(c.Ops, vOpA{Op: "block", H: h})
			h += r.rng(0, 2)
		}
		c.Ops = append(c.Ops, vOpA{Op: "user", H: h})
	default:
		c.Kind = "chain"
		nb := 1 + r.intn(3)
		for k := 0; k < nb; k++ {
			c.Ops = append(c.Ops, vOpA{Op: "block", H: h})
			h += r.rng(0, 2)
		}
		if r.intn(4) == 0 {
			c.Ops = append(c.Ops, vOpA{Op: "user", H: h})
		}
	}
	if r.intn(8) == 0 {
		if len(c.Ops) == 0 {
			c.Ops = append(c.Ops, vOpA{Op: "block", H: h})
		}
		return c // no close event
	}
	kinds := []string{"local", "remote", "remote", "pending", "breach", "coop"}
	k := kinds[r.intn(len(kinds))]
	if k == "pending" && !hasP {
		k = "remote"
	}
	if k == "local" && c.Kind == "direct" && r.intn(3) != 0 {
		k = "remote" // local confirmation without a broadcast is the odd case
	}
	cs := c.Active
	if r.intn(8) == 0 {
		// commit set differs from the link's last view
		for i := range ids {
			if r.intn(3) == 0 {
				ids[i].onP = !ids[i].onP
			}
		}
		cs = vBuildSets(ids, hasP)
	}
	op := vOpA{Op: "close", Kind: k, H: h + r.rng(0, 3), CS: &cs}
	if k != "coop" {
		var conf []vHtlc
		switch k {
		case "local":
			conf = cs.L
		case "remote":
			conf = cs.R
		case "pending":
			conf = cs.P
		}
		res := vCompleteRes(conf)
		if r.intn(10) == 0 && len(res.Out) > 0 {
			res.Out = res.Out[1:] // a missing resolution
		}
		if r.intn(10) == 0 && len(res.In) > 0 {
			res.In = res.In[1:]
		}
		res.Commit = r.intn(3) != 0
		res.Anchor = r.intn(3) == 0
		if r.intn(12) == 0 {
			res.Commit, res.Anchor = false, false
		}
		op.Res = res
	}
	c.Kind += "+" + k
	c.Ops = append(c.Ops, op)
	return c
}

// vWitnessCase is DESIGN §7-a: offered HTLC, output on ours, dust on theirs;
// we broadcast, their commitment confirms.
func vWitnessCase(id int) *vCaseA {
	s := vSets{
		L: []vHtlc{{7, 0, 0, 500, 1}}, R: []vHtlc{{7, 0, -1, 500, 1}},
		P: []vHtlc{}, HasP: false,
	}
	return &vCaseA{
		ID: id, Kind: "witness",
		Env: vEnvA{InD: 10, OutD: 10, Fwd: []int64{7}, Uptime: 0, Grace: 14400,
			Cache: []int64{}, Inv: [][2]int64{}},
		Active: s,
		Ops: []vOpA{
			{Op: "user", H: 100},
			{Op: "close", Kind: "remote", H: 101, CS: &s,
				Res: &vRes{In: []int64{}, Out: []int64{}, Commit: true}},
		},
	}
}

func TestVerifActions(t *testing.T) {
	t.Parallel() // overlaps with TestVerifAttendant (both are fsync bound)
	out := vOpenOut()
	defer out.close()

	db, err := kvdb.Create(
		kvdb.BoltBackendName, filepath.Join(t.TempDir(), "verifdb"), true,
		kvdb.DefaultDBTimeout, false,
	)
	if err != nil {
		t.Fatal(err)
	}
	defer db.Close()

	id := 0
	run := func(c *vCaseA) {
		c.ID = id
		id++
		vRunCase(t, db, c)
		out.emit(c)
	}

	// replay: VERIF_REPLAY names a JSON file holding {"cases":[...]} or one case
	if p := vReplay(); p != "" {
		raw, err := os.ReadFile(p)
		if err != nil {
			t.Fatal(err)
		}
		var many struct {
			Cases []*vCaseA `json:"cases"`
		}
		if json.Unmarshal(raw, &many) == nil && len(many.Cases) > 0 {
			for _, c := range many.Cases {
				run(c)
			}
			return
		}
		var one vCaseA
		if err := json.Unmarshal(raw, &one); err != nil {
			t.Fatal(err)
		}
		run(&one)
		return
	}

	run(vWitnessCase(0))
	master := vNewRng(vSeed())
	n := vCases(400, 6000)
	for i := 0; i < n; i++ {
		run(vGenCase(master.fork(uint64(i)), 0))
	}
	if vEnvInt("VERIF_EXHAUSTIVE", 0) != 0 || vTier() == "thorough" {
		vExhaustive(run)
	}
}

// vExhaustive enumerates a small universe completely: two HTLC identities,
// every presence/dust/direction/preimage combination that keeps idx unique,
// every close kind and both paths, heights at the cut-off and one below.
func vExhaustive(run func(*vCaseA)) {
	type half struct {
		incoming, onL, onR, onP, dustL, dustR, pre bool
	}
	var halves []half
	for m := 0; m < 128; m++ {
		h := half{m&1 != 0, m&2 != 0, m&4 != 0, m&8 != 0, m&16 != 0, m&32 != 0, m&64 != 0}
		if !h.onL && !h.onR && !h.onP {
			continue
		}
		if !h.onL && h.dustL {
			continue
		}
		if !h.onR && !h.onP && h.dustR {
			continue
		}
		halves = append(halves, h)
	}
	kinds := []string{"local", "remote", "pending", "breach", "coop"}
	for _, a := range halves {
		// second identity: a fixed offered, fully locked-in, far-away HTLC or none
		for second := 0; second < 2; second++ {
			for _, k := range kinds {
				for path := 0; path < 3; path++ {
					for dh := int64(-1); dh <= 0; dh++ {
						ids := []vIdent{{idx: 3, incoming: a.incoming, expiry: 1000,
							hash: 1, onL: a.onL, onR: a.onR, onP: a.onP,
							dustL: a.dustL, dustR: a.dustR}}
						if second == 1 {
							ids = append(ids, vIdent{idx: 5, expiry: 5000, hash: 2,
								onL: true, onR: true, onP: true})
						}
						s := vBuildSets(ids, true)
						c := &vCaseA{Kind: "exh",
							Env: vEnvA{InD: 10, OutD: 10, Fwd: []int64{3, 5},
								Grace: 10, Uptime: 0, Cache: []int64{}, Inv: [][2]int64{}},
							Active: s}
						if a.pre {
							c.Env.Cache = []int64{1}
						}
						h := 990 + dh
						switch path {
						case 1:
							c.Ops = append(c.Ops, vOpA{Op: "user", H: h})
						case 2:
							c.Ops = append(c.Ops, vOpA{Op: "block", H: h})
						}
						op := vOpA{Op: "close", Kind: k, H: h + 1, CS: &s}
						if k != "coop" {
							conf := s.L
							if k == "remote" {
								conf = s.R
							} else if k == "pending" {
								conf = s.P
							}
							op.Res = vCompleteRes(conf)
							op.Res.Commit = true
						}
						c.Ops = append(c.Ops, op)
						run(c)
					}
				}
			}
		}
	}
}
