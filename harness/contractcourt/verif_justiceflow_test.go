//go:build verif

package contractcourt

// C04 stage "brarflow": the BREACH ARBITER's multi-step retribution flow.
//
// "Every revoked commitment can be punished" does not end with the first
// justice transaction: exactRetribution builds its justice transactions
// (spend-all, commit-outputs-only, HTLC-outputs-only, one per second-level
// output), then watches the breached outputs; whenever one is spent - by the
// cheater's genuine HTLC-success / HTLC-timeout transaction, by one of our own
// (partial) justice transactions, by the cheater sweeping a matured
// second-level output - updateBreachInfo / convertToSecondLevelRevoke mutate
// the retribution IN PLACE (witness type, outpoint, amount, script, slice
// compaction) and every variant is REBUILT.  After a restart the whole thing
// starts again from the retribution store.
//
// This harness drives that flow on real data: two real LightningChannels (all
// seven channel types) carry 1-4 HTLCs of different sizes / directions; the
// commitment one side holds is captured together with its own, fully signed
// second-level transactions (engine-validated against the commitment), then
// revoked.  The victim's retribution comes from NewBreachRetribution over an
// OpenChannel re-read from its database, goes through the real
// newRetributionInfo and the real RetributionStore.  Two drivers:
//
//   - "mirror": the steps of exactRetribution are executed in its order
//     (createJusticeTx; collect the spends of tracked outpoints that are on
//     "chain"; updateBreachInfo; createJusticeTx; ...) with the batch
//     composition waitForSpendEvent may produce chosen by the harness (all
//     at once / one at a time / a subset), over seeded walks of chain events
//     (cheater advances a subset of HTLCs; one of OUR justice variants confirms; the cheater sweeps a
//     second-level output; restart from the store).
//   - "live": the real BreachArbitrator goroutines (Start, contract breach
//     handoff, exactRetribution, waitForSpendEvent) over a mock notifier; every
//     transaction handed to PublishTransaction is captured; block epochs
//     trigger the split publication; Stop + a new arbiter over the same store =
//     restart.
//
// After EVERY (re)build every input of every variant is executed by the btcd
// script engine - StandardVerifyFlags and consensus-only flags - against the
// output that ACTUALLY exists on the simulated chain (never lnd's own sign
// descriptor).  The python side (props/brarflow.py) checks: no engine
// rejection, inputs exist, at quiescence spend-all covers exactly the breached
// outputs still unspent (first level or second level), variants partition
// spend-all, amounts conserved.
//
// Identifiers defined here are prefixed vbf; vbwTypes / vbwSafe / vbwPreimage
// come from verif_breachwatch_test.go (always injected together).

import (
	"bufio"
	"fmt"
	"os"
	"sort"
	"testing"
	"time"

	"github.com/btcsuite/btcd/txscript/v2"
	"github.com/btcsuite/btcd/wire/v2"
	"github.com/lightningnetwork/lnd/chainntnfs"
	"github.com/lightningnetwork/lnd/channeldb"
	"github.com/lightningnetwork/lnd/fn/v2"
	lnmock "github.com/lightningnetwork/lnd/lntest/mock"
	"github.com/lightningnetwork/lnd/lnwallet"
	"github.com/lightningnetwork/lnd/lnwallet/chainfee"
	"github.com/lightningnetwork/lnd/lnwire"
)

// consensus-only script flags (no relay policy)
const vbfConsensusFlags = txscript.ScriptBip16 |
	txscript.ScriptVerifyDERSignatures |
	txscript.ScriptStrictMultiSig |
	txscript.ScriptVerifyCheckLockTimeVerify |
	txscript.ScriptVerifyCheckSequenceVerify |
	txscript.ScriptVerifyWitness |
	txscript.ScriptVerifyTaproot

const vbfBreachHeight = 500

// ---------------------------------------------------------------------------
// simulated chain

type vbfChain struct {
	outs  map[wire.OutPoint]*wire.TxOut
	spent map[wire.OutPoint]*chainntnfs.SpendDetail
	ids   map[wire.OutPoint]string
	byID  map[string]wire.OutPoint
	h     int32
}

func vbfNewChain() *vbfChain {
	return &vbfChain{outs: map[wire.OutPoint]*wire.TxOut{},
		spent: map[wire.OutPoint]*chainntnfs.SpendDetail{},
		ids:   map[wire.OutPoint]string{}, byID: map[string]wire.OutPoint{},
		h:     vbfBreachHeight}
}

func (c *vbfChain) id(op wire.OutPoint) string {
	if s, ok := c.ids[op]; ok {
		return s
	}
	return "?" + op.String()
}

// confirm puts tx on the chain: its outputs exist (named by label), its
// inputs are spent.
func (c *vbfChain) confirm(tx *wire.MsgTx, label func(i int) string) {
	c.h++
	txid := tx.TxHash()
	for i, o := range tx.TxOut {
		op := wire.OutPoint{Hash: txid, Index: uint32(i)}
		c.outs[op] = o
		if label != nil {
			if l := label(i); l != "" {
				c.ids[op] = l
				c.byID[l] = op
			}
		}
	}
	for i, in := range tx.TxIn {
		op := in.PreviousOutPoint
		if _, dup := c.spent[op]; dup {
			continue
		}
		opc := op
		c.spent[op] = &chainntnfs.SpendDetail{
			SpentOutPoint:     &opc,
			SpenderTxHash:     &txid,
			SpendingTx:        tx,
			SpenderInputIndex: uint32(i),
			SpendingHeight:    c.h,
		}
	}
}

// engine runs input i of tx against the output that exists on the chain.
func (c *vbfChain) engine(tx *wire.MsgTx, i int, flags txscript.ScriptFlags) string {
	prev, ok := c.outs[tx.TxIn[i].PreviousOutPoint]
	if !ok {
		return "no_such_output"
	}
	fetcher := txscript.NewMultiPrevOutFetcher(nil)
	for _, in := range tx.TxIn {
		if o, ok := c.outs[in.PreviousOutPoint]; ok {
			fetcher.AddPrevOut(in.PreviousOutPoint, o)
		} else {
			fetcher.AddPrevOut(in.PreviousOutPoint, &wire.TxOut{})
		}
	}
	return vbwSafe(func() error {
		hc := txscript.NewTxSigHashes(tx, fetcher)
		vm, err := txscript.NewEngine(prev.PkScript, tx, i, flags, nil, hc,
			prev.Value, fetcher)
		if err != nil {
			return fmt.Errorf("engine: %w", err)
		}
		return vm.Execute()
	})
}

// engine2 = (verdict under StandardVerifyFlags, verdict under the
// consensus-only flags).  The standard flags are a superset of the consensus
// flags and script flags only ever ADD failure conditions, so an input that
// passes the standard run passes the consensus run: the second run is made
// only to classify a rejection (policy-only = would not relay / consensus-
// invalid).
func (c *vbfChain) engine2(tx *wire.MsgTx, i int) (string, string) {
	std := c.engine(tx, i, txscript.StandardVerifyFlags)
	if std == "" {
		return "", ""
	}
	return std, c.engine(tx, i, vbfConsensusFlags)
}

// ---------------------------------------------------------------------------
// setup: a revoked commitment with HTLCs and the cheater's second-level txs

type vbfHtlc struct {
	outIdx   uint32
	incoming bool // from the cheater's point of view (HTLC-success)
	amt      int64
	second   *wire.MsgTx
	secondOK string
}

type vbfBreach struct {
	cheater   int
	height    uint64
	tx        *wire.MsgTx
	htlcs     []*vbfHtlc
	closeErr  string
	anchors   bool
}

func vbfCapture(lc *lnwallet.LightningChannel, ci int, hashes map[[32]byte]uint64,
	ty vbwType) (*vbfBreach, error) {

	st := lc.State()
	sum, err := lc.ForceClose(lnwallet.WithSkipContractResolutions())
	if err != nil {
		return nil, fmt.Errorf("signed commit: %w", err)
	}
	tx := sum.CloseTx
	h := st.LocalCommitment.CommitHeight
	full, err := lnwallet.NewLocalForceCloseSummary(
		st, lc.Signer, tx, vbfBreachHeight, h,
		fn.Some[lnwallet.AuxLeafStore](&lnwallet.MockAuxLeafStore{}),
		fn.None[lnwallet.AuxContractResolver](),
	)
	if err != nil {
		return nil, fmt.Errorf("close summary: %w", err)
	}
	b := &vbfBreach{height: h, tx: tx, anchors: ty.ct.HasAnchors()}
	res, ok := full.ContractResolutions.UnwrapOr(lnwallet.ContractResolutions{}),
		full.ContractResolutions.IsSome()
	if !ok || res.HtlcResolutions == nil {
		return b, nil
	}
	txid := tx.TxHash()
	chain := vbfNewChain()
	chain.confirm(tx, nil)
	one := func(stx *wire.MsgTx, incoming bool) {
		if stx == nil {
			return
		}
		stx = stx.Copy()
		prev := stx.TxIn[0].PreviousOutPoint
		hh := &vbfHtlc{outIdx: prev.Index, incoming: incoming, second: stx}
		if prev.Hash != txid || int(prev.Index) >= len(tx.TxOut) {
			hh.secondOK = "bad_outpoint"
			b.htlcs = append(b.htlcs, hh)
			return
		}
		hh.amt = tx.TxOut[prev.Index].Value
		if incoming {
			// the contract resolver supplies the preimage
			for _, x := range st.LocalCommitment.Htlcs {
				if x.Incoming && x.OutputIndex >= 0 &&
					uint32(x.OutputIndex) == prev.Index {

					if n, ok := hashes[x.RHash]; ok {
						pre, _ := vbwPreimage(ci, n)
						slot := 3
						if ty.ct.IsTaproot() {
							slot = 2
						}
						if len(stx.TxIn[0].Witness) > slot {
							stx.TxIn[0].Witness[slot] = pre[:]
						}
					}
				}
			}
		}
		hh.secondOK = chain.engine(stx, 0, txscript.StandardVerifyFlags)
		b.htlcs = append(b.htlcs, hh)
	}
	for i := range res.HtlcResolutions.OutgoingHTLCs {
		one(res.HtlcResolutions.OutgoingHTLCs[i].SignedTimeoutTx, false)
	}
	for i := range res.HtlcResolutions.IncomingHTLCs {
		one(res.HtlcResolutions.IncomingHTLCs[i].SignedSuccessTx, true)
	}
	sort.Slice(b.htlcs, func(i, j int) bool { return b.htlcs[i].outIdx < b.htlcs[j].outIdx })
	return b, nil
}

// ---------------------------------------------------------------------------
// one walk

type vbfRun struct {
	ty      vbwType
	victim  *lnwallet.LightningChannel
	br      *vbfBreach
	chain   *vbfChain
	brar    *BreachArbitrator
	store   *RetributionStore
	ret     *retributionInfo
	last    *justiceTxVariants
	lastQ   bool
	steps   []map[string]any
	nBuilds int
	nInputs int
}

func vbfWitnessLens(w wire.TxWitness) []int {
	l := make([]int, len(w))
	for i := range w {
		l[i] = len(w[i])
	}
	return l
}

func (r *vbfRun) describe(name string, v *justiceTxCtx) map[string]any {
	d := map[string]any{"name": name}
	if v == nil || v.justiceTx == nil {
		d["nil"] = true
		return d
	}
	tx := v.justiceTx
	ins := []map[string]any{}
	for i, in := range tx.TxIn {
		op := in.PreviousOutPoint
		e := map[string]any{"id": r.chain.id(op), "seq": in.Sequence,
			"wlens": vbfWitnessLens(in.Witness)}
		if o, ok := r.chain.outs[op]; ok {
			e["amt"] = o.Value
		}
		_, e["spent"] = r.chain.spent[op]
		if i < len(v.inputs) {
			e["wt"] = v.inputs[i].WitnessType().String()
			e["sd_amt"] = v.inputs[i].SignDesc().Output.Value
			e["sd_op_ok"] = v.inputs[i].OutPoint() == op
		}
		e["std"], e["cons"] = r.chain.engine2(tx, i)
		r.nInputs++
		ins = append(ins, e)
	}
	d["ins"] = ins
	outs := []int64{}
	for _, o := range tx.TxOut {
		outs = append(outs, o.Value)
	}
	d["outs"] = outs
	d["fee"] = int64(v.fee)
	d["version"] = tx.Version
	d["locktime"] = tx.LockTime
	return d
}

func (r *vbfRun) tracked() []map[string]any {
	l := []map[string]any{}
	for i := range r.ret.breachedOutputs {
		bo := &r.ret.breachedOutputs[i]
		_, sp := r.chain.spent[bo.outpoint]
		l = append(l, map[string]any{"id": r.chain.id(bo.outpoint),
			"wt": bo.witnessType.String(), "amt": int64(bo.amt), "spent": sp})
	}
	return l
}

func (r *vbfRun) quiescent() bool {
	for i := range r.ret.breachedOutputs {
		if _, sp := r.chain.spent[r.ret.breachedOutputs[i].outpoint]; sp {
			return false
		}
	}
	return true
}

// build = the justiceTxBroadcast label of exactRetribution.
func (r *vbfRun) build(why string) map[string]any {
	b := map[string]any{"why": why, "quiescent": r.quiescent(), "tracked": r.tracked()}
	var txs *justiceTxVariants
	b["err"] = vbwSafe(func() error {
		var err error
		txs, err = r.brar.createJusticeTx(r.ret.breachedOutputs)
		return err
	})
	r.nBuilds++
	r.last, r.lastQ = txs, b["quiescent"].(bool)
	vs := []map[string]any{}
	if txs != nil {
		vs = append(vs, r.describe("all", txs.spendAll))
		vs = append(vs, r.describe("commit", txs.spendCommitOuts))
		vs = append(vs, r.describe("htlc", txs.spendHTLCs))
		for _, s := range txs.spendSecondLevelHTLCs {
			vs = append(vs, r.describe("second", s))
		}
	}
	b["variants"] = vs
	return b
}

// sync = waitForSpendEvent + updateBreachInfo + rebuild until no tracked
// outpoint is spent on the chain.  policy: 0 all available spends in one
// batch, 1 one at a time, 2 a random non-empty subset.
func (r *vbfRun) sync(rng *vrng, policy int) []map[string]any {
	builds := []map[string]any{}
	for guard := 0; guard < 64; guard++ {
		var avail []int
		for i := range r.ret.breachedOutputs {
			if _, sp := r.chain.spent[r.ret.breachedOutputs[i].outpoint]; sp {
				avail = append(avail, i)
			}
		}
		if len(avail) == 0 {
			break
		}
		var pick []int
		switch policy {
		case 0:
			pick = avail
		case 1:
			pick = []int{avail[rng.intn(len(avail))]}
		default:
			for _, i := range avail {
				if rng.bool() {
					pick = append(pick, i)
				}
			}
			if len(pick) == 0 {
				pick = []int{avail[rng.intn(len(avail))]}
			}
		}
		// the goroutines of waitForSpendEvent deliver in any order
		for i := len(pick) - 1; i > 0; i-- {
			j := rng.intn(i + 1)
			pick[i], pick[j] = pick[j], pick[i]
		}
		var spends []spend
		batch := []string{}
		for _, i := range pick {
			op := r.ret.breachedOutputs[i].outpoint
			spends = append(spends, spend{index: i, detail: r.chain.spent[op]})
			batch = append(batch, fmt.Sprintf("%d:%s", i, r.chain.id(op)))
		}
		var total, revoked int64
		e := vbwSafe(func() error {
			t, rv := updateBreachInfo(r.ret, spends)
			total, revoked = int64(t), int64(rv)
			return nil
		})
		if e != "" {
			builds = append(builds, map[string]any{"why": "update", "err": e,
				"batch": batch, "variants": []any{}, "tracked": []any{}})
			break
		}
		if len(r.ret.breachedOutputs) == 0 {
			builds = append(builds, map[string]any{"why": "resolved", "batch": batch,
				"err": "", "quiescent": true, "tracked": []any{}, "variants": []any{},
				"total": total, "revoked": revoked})
			r.last = nil
			break
		}
		b := r.build("update")
		b["batch"] = batch
		b["total"], b["revoked"] = total, revoked
		builds = append(builds, b)
	}
	return builds
}

func (r *vbfRun) restart() string {
	return vbwSafe(func() error {
		var got *retributionInfo
		err := r.store.ForAll(func(ri *retributionInfo) error {
			if ri.chanPoint == r.ret.chanPoint {
				cp := *ri
				got = &cp
			}
			return nil
		}, func() { got = nil })
		if err != nil {
			return err
		}
		if got == nil {
			return fmt.Errorf("retribution not in the store")
		}
		r.ret = got
		r.last = nil
		return nil
	})
}

func vbfUnspent(c *vbfChain, v *justiceTxCtx) bool {
	if v == nil || v.justiceTx == nil {
		return false
	}
	for _, in := range v.justiceTx.TxIn {
		if _, sp := c.spent[in.PreviousOutPoint]; sp {
			return false
		}
		if _, ok := c.outs[in.PreviousOutPoint]; !ok {
			return false
		}
	}
	return true
}

func vbfTxIDs(c *vbfChain, tx *wire.MsgTx) []string {
	l := []string{}
	for _, in := range tx.TxIn {
		l = append(l, c.id(in.PreviousOutPoint))
	}
	return l
}

// advance: the cheater confirms the second-level transactions of hs.  (They
// are not merged into one transaction: the owner's own signature is
// SIGHASH_ALL, merging would need the cheater to re-sign.)
func vbfAdvance(c *vbfChain, hs []*vbfHtlc) []string {
	ids := []string{}
	for _, h := range hs {
		h := h
		c.confirm(h.second, func(i int) string {
			if i == 0 {
				return fmt.Sprintf("S%d", h.outIdx)
			}
			return ""
		})
		ids = append(ids, fmt.Sprintf("L%d", h.outIdx))
	}
	return ids
}

func vbfNewArbiter(victim *lnwallet.LightningChannel, store RetributionStorer,
	notifier chainntnfs.ChainNotifier, breaches chan *ContractBreachEvent,
	publish func(*wire.MsgTx, string) error) *BreachArbitrator {

	cdb, _ := victim.State().Db.(*channeldb.ChannelStateDB)
	return NewBreachArbitrator(&BreachConfig{
		CloseLink: func(_ *wire.OutPoint, _ ChannelCloseType) {},
		DB:        cdb,
		Signer:    victim.Signer,
		Estimator: chainfee.NewStaticEstimator(253, 0),
		GenSweepScript: func() fn.Result[lnwallet.AddrWithKey] {
			pk := append([]byte{txscript.OP_1, 32}, make([]byte, 32)...)
			pk[5] = 9
			return fn.Ok(lnwallet.AddrWithKey{DeliveryAddress: pk})
		},
		ContractBreaches:   breaches,
		Notifier:           notifier,
		PublishTransaction: publish,
		Store:              store,
	})
}

func vbfRetribution(victim *lnwallet.LightningChannel, br *vbfBreach) (
	*lnwallet.BreachRetribution, error) {

	live := victim.State()
	chans, err := live.Db.FetchOpenChannels(live.IdentityPub)
	if err != nil {
		return nil, err
	}
	if len(chans) != 1 {
		return nil, fmt.Errorf("vbf: %d channels in db", len(chans))
	}
	return lnwallet.NewBreachRetribution(
		chans[0], br.height, vbfBreachHeight, br.tx,
		fn.Some[lnwallet.AuxLeafStore](&lnwallet.MockAuxLeafStore{}),
		fn.None[lnwallet.AuxContractResolver](),
	)
}

func vbfBaseChain(br *vbfBreach) *vbfChain {
	c := vbfNewChain()
	c.confirm(br.tx, func(i int) string { return fmt.Sprintf("L%d", i) })
	// the funding outpoint is not an output of interest
	for op := range c.spent {
		delete(c.spent, op)
	}
	return c
}

func vbfRowBase(ci, wi int, ty vbwType, p int, br *vbfBreach, k int, mode string) map[string]any {
	hs := []map[string]any{}
	for _, h := range br.htlcs {
		inc := 0
		if h.incoming {
			inc = 1
		}
		hs = append(hs, map[string]any{"idx": h.outIdx, "inc": inc, "amt": h.amt,
			"second_ok": h.secondOK, "second_amt": h.second.TxOut[0].Value})
	}
	outs := []int64{}
	for _, o := range br.tx.TxOut {
		outs = append(outs, o.Value)
	}
	return map[string]any{"stage": "brarflow", "mode": mode, "case": ci, "walk": wi,
		"seed": vSeed(), "chan_type": ty.name, "victim": vbwNames[p],
		"h": br.height, "k": k, "htlcs": hs, "outs": outs, "anchors": br.anchors,
		"taproot": ty.ct.IsTaproot()}
}

// vbfWalk runs one seeded walk of chain events in mirror mode.
func vbfWalk(rng *vrng, ci, wi int, ty vbwType, victim *lnwallet.LightningChannel,
	p int, br *vbfBreach, k int) map[string]any {

	row := vbfRowBase(ci, wi, ty, p, br, k, "mirror")
	retr, err := vbfRetribution(victim, br)
	if err != nil {
		row["aborted"] = "NewBreachRetribution: " + err.Error()
		return row
	}
	cdb, ok := victim.State().Db.(*channeldb.ChannelStateDB)
	if !ok {
		row["aborted"] = "no ChannelStateDB"
		return row
	}
	chanPoint := victim.State().FundingOutpoint
	r := &vbfRun{ty: ty, victim: victim, br: br, chain: vbfBaseChain(br)}
	r.store = NewRetributionStore(cdb.GetParentDB())
	r.brar = vbfNewArbiter(victim, r.store, nil, nil, nil)
	if e := vbwSafe(func() error {
		r.ret = newRetributionInfo(&chanPoint, retr)
		return r.store.Add(r.ret)
	}); e != "" {
		row["aborted"] = "newRetributionInfo/Add: " + e
		return row
	}
	defer r.store.Remove(&chanPoint)

	steps := []map[string]any{}
	steps = append(steps, map[string]any{"ev": "breach",
		"builds": []map[string]any{r.build("initial")}})

	advanced := map[uint32]bool{}
	maxEv := 10 + rng.intn(5)
	for ev := 0; ev < maxEv && len(r.ret.breachedOutputs) > 0; ev++ {
		// enabled events
		var canAdv []*vbfHtlc
		for _, h := range br.htlcs {
			op := wire.OutPoint{Hash: br.tx.TxHash(), Index: h.outIdx}
			if _, sp := r.chain.spent[op]; !sp && h.secondOK == "" {
				canAdv = append(canAdv, h)
			}
		}
		var canLose []uint32
		for idx := range advanced {
			op, ok := r.chain.byID[fmt.Sprintf("S%d", idx)]
			if _, sp := r.chain.spent[op]; ok && !sp {
				canLose = append(canLose, idx)
			}
		}
		sort.Slice(canLose, func(i, j int) bool { return canLose[i] < canLose[j] })
		type cand struct {
			kind string
			w    int
			v    *justiceTxCtx
		}
		var cands []cand
		first := ev == 0
		directed := wi < 2
		if len(canAdv) > 0 {
			w := 35
			if first {
				w = 70
			}
			cands = append(cands, cand{"adv", w, nil})
		}
		if r.last != nil && r.lastQ {
			if vbfUnspent(r.chain, r.last.spendCommitOuts) {
				cands = append(cands, cand{"jcommit", 18, r.last.spendCommitOuts})
			}
			if vbfUnspent(r.chain, r.last.spendHTLCs) {
				cands = append(cands, cand{"jhtlc", 10, r.last.spendHTLCs})
			}
			if vbfUnspent(r.chain, r.last.spendAll) {
				cands = append(cands, cand{"jall", 6, r.last.spendAll})
			}
			for _, s := range r.last.spendSecondLevelHTLCs {
				if vbfUnspent(r.chain, s) {
					cands = append(cands, cand{"jsec", 8, s})
				}
			}
		}
		if len(canLose) > 0 {
			cands = append(cands, cand{"lose", 5, nil})
		}
		cands = append(cands, cand{"restart", 12, nil})
		var pick cand
		if directed && ev == 0 && len(canAdv) > 0 {
			pick = cand{"adv", 0, nil}
		} else if directed && ev == 1 && r.last != nil && r.lastQ &&
			vbfUnspent(r.chain, r.last.spendCommitOuts) {

			pick = cand{"jcommit", 0, r.last.spendCommitOuts}
		} else {
			tot := 0
			for _, c := range cands {
				tot += c.w
			}
			x := rng.intn(tot)
			for _, c := range cands {
				if x < c.w {
					pick = c
					break
				}
				x -= c.w
			}
		}
		policy := rng.intn(3)
		st := map[string]any{"ev": pick.kind, "policy": policy}
		switch pick.kind {
		case "adv":
			var hs []*vbfHtlc
			if directed && ev == 0 {
				hs = canAdv // the cheater advances everything
				if wi == 1 {
					policy = 1
					st["policy"] = 1
				}
			} else {
				for _, h := range canAdv {
					if rng.bool() {
						hs = append(hs, h)
					}
				}
				if len(hs) == 0 {
					hs = []*vbfHtlc{canAdv[rng.intn(len(canAdv))]}
				}
			}
			ids := vbfAdvance(r.chain, hs)
			for _, h := range hs {
				advanced[h.outIdx] = true
			}
			st["spent"] = ids
		case "jcommit", "jhtlc", "jall", "jsec":
			tx := pick.v.justiceTx
			st["spent"] = vbfTxIDs(r.chain, tx)
			r.chain.confirm(tx, nil)
		case "lose":
			idx := canLose[rng.intn(len(canLose))]
			op := r.chain.byID[fmt.Sprintf("S%d", idx)]
			tx := wire.NewMsgTx(2)
			tx.AddTxIn(&wire.TxIn{PreviousOutPoint: op, Sequence: 144,
				Witness: wire.TxWitness{{0x30}, {}, {0x51}}})
			tx.AddTxOut(&wire.TxOut{Value: r.chain.outs[op].Value - 500,
				PkScript: []byte{0, 20, 1, 2, 3, 4, 5, 6, 7, 8, 9, 10, 11, 12, 13, 14,
					15, 16, 17, 18, 19, 20}})
			st["spent"] = []string{r.chain.id(op)}
			r.chain.confirm(tx, nil)
		case "restart":
			st["err"] = r.restart()
			st["builds"] = []map[string]any{r.build("restart")}
		}
		if pick.kind == "restart" {
			st["builds"] = append(st["builds"].([]map[string]any), r.sync(rng, policy)...)
		} else {
			st["builds"] = r.sync(rng, policy)
		}
		steps = append(steps, st)
	}
	row["steps"] = steps
	row["n_builds"], row["n_inputs"] = r.nBuilds, r.nInputs
	row["aborted"] = nil
	return row
}

// ---------------------------------------------------------------------------
// live mode: the real BreachArbitrator goroutines

func vbfDescribeTx(c *vbfChain, tx *wire.MsgTx) map[string]any {
	d := map[string]any{"name": "published"}
	ins := []map[string]any{}
	for i, in := range tx.TxIn {
		op := in.PreviousOutPoint
		e := map[string]any{"id": c.id(op), "seq": in.Sequence,
			"wlens": vbfWitnessLens(in.Witness)}
		if o, ok := c.outs[op]; ok {
			e["amt"] = o.Value
		}
		_, e["spent"] = c.spent[op]
		e["std"], e["cons"] = c.engine2(tx, i)
		ins = append(ins, e)
	}
	d["ins"] = ins
	outs := []int64{}
	for _, o := range tx.TxOut {
		outs = append(outs, o.Value)
	}
	d["outs"] = outs
	return d
}

// vbfLiveWalk drives the real arbiter: handoff, confirmation, then single
// spend events, each followed by the (re)published spend-all transaction; a
// block epoch past the split height makes it publish the split variants.
func vbfLiveWalk(t *testing.T, rng *vrng, ci int, ty vbwType,
	victim *lnwallet.LightningChannel, p int, br *vbfBreach, k int) map[string]any {

	row := vbfRowBase(ci, -1, ty, p, br, k, "live")
	retr, err := vbfRetribution(victim, br)
	if err != nil {
		row["aborted"] = "NewBreachRetribution: " + err.Error()
		return row
	}
	cdb, ok := victim.State().Db.(*channeldb.ChannelStateDB)
	if !ok {
		row["aborted"] = "no ChannelStateDB"
		return row
	}
	chain := vbfBaseChain(br)
	chanPoint := victim.State().FundingOutpoint
	store := NewRetributionStore(cdb.GetParentDB())
	publ := make(chan *wire.MsgTx, 64)
	publish := func(tx *wire.MsgTx, _ string) error {
		publ <- tx.Copy()
		return nil
	}
	const wait = 30 * time.Second
	var (
		brar     *BreachArbitrator
		notifier *lnmock.SpendNotifier
		breaches chan *ContractBreachEvent
	)
	history := []*chainntnfs.SpendDetail{}
	start := func() string {
		notifier = lnmock.MakeMockSpendNotifier()
		for _, d := range history {
			notifier.Spend(d.SpentOutPoint, d.SpendingHeight, d.SpendingTx)
		}
		breaches = make(chan *ContractBreachEvent)
		brar = vbfNewArbiter(victim, store, notifier, breaches, publish)
		return vbwSafe(brar.Start)
	}
	stopped := false
	stop := func() {
		if brar != nil && !stopped {
			_ = brar.Stop()
		}
	}
	defer stop()
	if e := start(); e != "" {
		row["aborted"] = "start: " + e
		return row
	}
	next := func() *wire.MsgTx {
		select {
		case tx := <-publ:
			return tx
		case <-time.After(wait):
			return nil
		}
	}
	drain := func(d time.Duration) []*wire.MsgTx {
		var l []*wire.MsgTx
		for {
			select {
			case tx := <-publ:
				l = append(l, tx)
			case <-time.After(d):
				return l
			}
		}
	}
	steps := []map[string]any{}
	stall := func(what string) map[string]any {
		row["steps"] = steps
		row["stalled"] = what
		row["aborted"] = nil
		return row
	}

	// handoff
	ack := make(chan error, 1)
	select {
	case breaches <- &ContractBreachEvent{ChanPoint: chanPoint,
		ProcessACK:        func(e error) { ack <- e },
		BreachRetribution: retr}:
	case <-time.After(wait):
		row["aborted"] = "handoff not accepted"
		return row
	}
	select {
	case e := <-ack:
		if e != nil {
			row["aborted"] = "handoff: " + e.Error()
			return row
		}
	case <-time.After(wait):
		row["aborted"] = "no ack"
		return row
	}
	st := victim.State()
	if e := vbwSafe(func() error {
		return st.CloseChannel(&channeldb.ChannelCloseSummary{
			ChanPoint: st.FundingOutpoint, ChainHash: st.ChainHash,
			RemotePub: st.IdentityPub, CloseType: channeldb.BreachClose,
			Capacity: st.Capacity, IsPending: true, ShortChanID: st.ShortChanID(),
			RemoteCurrentRevocation: st.RemoteCurrentRevocation,
			RemoteNextRevocation:    st.RemoteNextRevocation,
			LocalChanConfig:         st.LocalChanCfg,
		})
	}); e != "" {
		row["aborted"] = "CloseChannel: " + e
		return row
	}
	conf := func() bool {
		select {
		case notifier.ConfChan <- &chainntnfs.TxConfirmation{}:
			return true
		case <-time.After(wait):
			return false
		}
	}
	if !conf() {
		return stall("confirmation not consumed")
	}
	tx := next()
	if tx == nil {
		return stall("no justice transaction after the confirmation")
	}
	steps = append(steps, map[string]any{"ev": "breach",
		"published": []map[string]any{vbfDescribeTx(chain, tx)}})
	lastAll := tx

	// the outputs the arbiter is expected to still go after, by id
	pending := map[string]wire.OutPoint{}
	for _, in := range tx.TxIn {
		pending[chain.id(in.PreviousOutPoint)] = in.PreviousOutPoint
	}
	deliver := func(op wire.OutPoint) {
		d := chain.spent[op]
		history = append(history, d)
		notifier.Spend(d.SpentOutPoint, d.SpendingHeight, d.SpendingTx)
	}
	isHtlc := map[string]bool{}
	for _, h := range br.htlcs {
		isHtlc[fmt.Sprintf("L%d", h.outIdx)] = true
	}
	var split []*wire.MsgTx
	maxEv := 8 + rng.intn(4)
	for ev := 0; ev < maxEv && len(pending) > 0; ev++ {
		var canAdv []*vbfHtlc
		for _, h := range br.htlcs {
			op := wire.OutPoint{Hash: br.tx.TxHash(), Index: h.outIdx}
			if _, sp := chain.spent[op]; !sp && h.secondOK == "" {
				canAdv = append(canAdv, h)
			}
		}
		kinds := []string{}
		if len(canAdv) > 0 {
			kinds = append(kinds, "adv", "adv", "adv")
		}
		kinds = append(kinds, "epoch", "restart")
		var splitOK []*wire.MsgTx
		for _, s := range split {
			ok := true
			for _, in := range s.TxIn {
				if _, sp := chain.spent[in.PreviousOutPoint]; sp {
					ok = false
				}
			}
			if ok {
				splitOK = append(splitOK, s)
			}
		}
		if len(splitOK) > 0 {
			kinds = append(kinds, "jsplit", "jsplit")
		}
		if ev >= maxEv-2 {
			kinds = []string{"jall"}
		}
		kind := kinds[rng.intn(len(kinds))]
		if ev == 0 && len(canAdv) > 0 {
			kind = "adv"
		}
		stp := map[string]any{"ev": kind}
		pl := []string{}
		for pid := range pending {
			pl = append(pl, pid)
		}
		sort.Strings(pl)
		stp["pending_before"] = pl
		pubs := []map[string]any{}
		// confirmOne: one transaction confirms; its spends are delivered
		// ONE AT A TIME, each followed by exactly one republication (or
		// the resolution of the breach).
		confirmOne := func(ctx *wire.MsgTx, label func(int) string) string {
			chain.confirm(ctx, label)
			for _, in := range ctx.TxIn {
				op := in.PreviousOutPoint
				id := chain.id(op)
				if _, ok := pending[id]; !ok {
					continue
				}
				delete(pending, id)
				if len(id) > 1 && id[0] == 'L' && label != nil {
					// advanced: the second-level output is now pending
					if o, ok := chain.byID["S"+id[1:]]; ok {
						pending["S"+id[1:]] = o
					}
				}
				deliver(op)
				if len(pending) == 0 {
					return ""
				}
				ntx := next()
				if ntx == nil {
					return "no republication after the spend of " + id
				}
				lastAll = ntx
				split = nil
				d := vbfDescribeTx(chain, ntx)
				d["after"] = id
				want := []string{}
				for pid := range pending {
					want = append(want, pid)
				}
				sort.Strings(want)
				d["pending"] = want
				pubs = append(pubs, d)
			}
			return ""
		}
		switch kind {
		case "adv":
			h := canAdv[rng.intn(len(canAdv))]
			stp["spent"] = []string{fmt.Sprintf("L%d", h.outIdx)}
			if e := confirmOne(h.second, func(i int) string {
				if i == 0 {
					return fmt.Sprintf("S%d", h.outIdx)
				}
				return ""
			}); e != "" {
				stp["published"] = pubs
				steps = append(steps, stp)
				return stall(e)
			}
		case "epoch":
			select {
			case notifier.EpochChan <- &chainntnfs.BlockEpoch{
				Height: vbfBreachHeight + blocksPassedSplitPublish + int32(ev)}:
			case <-time.After(wait):
				steps = append(steps, stp)
				return stall("block epoch not consumed")
			}
			// the arbiter publishes, synchronously: the commit-outputs
			// variant, the HTLC-outputs variant, one per second-level
			// output - as far as they exist
			nc, nh, ns := 0, 0, 0
			for pid := range pending {
				switch {
				case pid[0] == 'S':
					ns++
				case isHtlc[pid]:
					nh = 1
				default:
					nc = 1
				}
			}
			split = nil
			for i := 0; i < nc+nh+ns; i++ {
				s := next()
				if s == nil {
					for _, got := range split {
						d := vbfDescribeTx(chain, got)
						d["name"] = "split"
						pubs = append(pubs, d)
					}
					stp["published"] = pubs
					steps = append(steps, stp)
					return stall(fmt.Sprintf("block epoch past the split height: %d of "+
						"%d split justice transactions published", i, nc+nh+ns))
				}
				split = append(split, s)
			}
			split = append(split, drain(20*time.Millisecond)...)
			for _, s := range split {
				d := vbfDescribeTx(chain, s)
				d["name"] = "split"
				pubs = append(pubs, d)
			}
		case "jsplit":
			s := splitOK[rng.intn(len(splitOK))]
			stp["spent"] = vbfTxIDs(chain, s)
			if e := confirmOne(s, nil); e != "" {
				stp["published"] = pubs
				steps = append(steps, stp)
				return stall(e)
			}
		case "jall":
			ok := true
			for _, in := range lastAll.TxIn {
				if _, sp := chain.spent[in.PreviousOutPoint]; sp {
					ok = false
				}
			}
			if !ok {
				stp["skipped"] = true
				break
			}
			stp["spent"] = vbfTxIDs(chain, lastAll)
			if e := confirmOne(lastAll, nil); e != "" {
				stp["published"] = pubs
				steps = append(steps, stp)
				return stall(e)
			}
		case "restart":
			_ = brar.Stop()
			split = nil
			if e := start(); e != "" {
				stp["err"] = e
				steps = append(steps, stp)
				return stall("restart: " + e)
			}
			if !conf() {
				steps = append(steps, stp)
				return stall("confirmation not consumed after restart")
			}
			// the arbiter replays the history from the store: the
			// first-level transaction first, then one republication per
			// consumed batch; wait until it has caught up with the
			// pending set
			want := map[string]bool{}
			for pid := range pending {
				want[pid] = true
			}
			caught := false
			deadline := time.Now().Add(wait)
			for !caught && time.Now().Before(deadline) {
				ntx := next()
				if ntx == nil {
					break
				}
				d := vbfDescribeTx(chain, ntx)
				d["name"] = "replay"
				pubs = append(pubs, d)
				got := map[string]bool{}
				for _, in := range ntx.TxIn {
					got[chain.id(in.PreviousOutPoint)] = true
				}
				caught = len(got) == len(want)
				for pid := range want {
					if !got[pid] {
						caught = false
					}
				}
				if caught {
					lastAll = ntx
					pl := []string{}
					for pid := range want {
						pl = append(pl, pid)
					}
					sort.Strings(pl)
					d["pending"] = pl
					d["name"] = "published"
				}
			}
			if !caught {
				stp["published"] = pubs
				steps = append(steps, stp)
				return stall("the restarted arbiter never republished a transaction " +
					"over exactly the pending outputs")
			}
		}
		stp["published"] = pubs
		steps = append(steps, stp)
	}
	row["steps"] = steps
	row["resolved"] = len(pending) == 0
	if len(pending) == 0 {
		// cleanupBreach removes the retribution from the store
		deadline := time.Now().Add(wait)
		for time.Now().Before(deadline) {
			if b, err := store.IsBreached(&chanPoint); err == nil && !b {
				row["store_cleaned"] = true
				break
			}
			time.Sleep(5 * time.Millisecond)
		}
	}
	row["aborted"] = nil
	_ = t
	return row
}

// ---------------------------------------------------------------------------

var vbfAmounts = []int64{20_000, 31_000, 45_000, 72_000, 23_500, 58_000}

func TestVerifBrarFlow(t *testing.T) {
	path := os.Getenv("VERIF_OUT_BRARFLOW")
	if path == "" {
		path = os.DevNull
	}
	f, err := os.Create(path)
	if err != nil {
		t.Fatal(err)
	}
	out := &vWriter{f: f, w: bufio.NewWriterSize(f, 1<<20)}
	defer out.close()
	// every row is flushed: a panic inside one of the arbiter's own
	// goroutines (live mode) cannot be recovered and must not lose the rows
	// already produced
	emit := func(v any) {
		out.emit(v)
		out.mu.Lock()
		out.w.Flush()
		out.mu.Unlock()
	}
	liveStalls := 0
	master := vNewRng(vSeed() ^ 0xb7a7f10)
	ncases := int(vEnvInt("VERIF_BRAR_CASES", int64(vCases(14, 140))))
	walks := int(vEnvInt("VERIF_BRAR_WALKS", 5))
	first := int(vEnvInt("VERIF_BRAR_FIRST_CASE", 0))
	onlyWalk := int(vEnvInt("VERIF_BRAR_WALK", -2))
	for ci := first; ci < first+ncases; ci++ {
		ci := ci
		t.Run(fmt.Sprintf("c%d", ci), func(t *testing.T) {
			r := master.fork(uint64(ci))
			ty := vbwTypes[ci%len(vbwTypes)]
			a, b, err := lnwallet.CreateTestChannels(t, ty.ct)
			if err != nil {
				t.Fatalf("CreateTestChannels(%s): %v", ty.name, err)
			}
			ch := [2]*lnwallet.LightningChannel{a, b}
			chanID := lnwire.NewChanIDFromOutPoint(a.State().FundingOutpoint)
			// HTLC universe: k = 1..4 HTLCs, every direction pattern over
			// the cases, distinct amounts, optionally one dust HTLC
			// (first round over the types: 3-4 HTLCs - slice compaction past
			// a converted slot needs three; then 1..4 in rotation)
			round := ci / len(vbwTypes)
			k := 3 + ci%2
			if round > 0 {
				k = 1 + (ci+round)%4
			}
			dirs := r.intn(1 << k)
			hashes := map[[32]byte]uint64{}
			var nAdd uint64
			abort := ""
			add := func(p int, sat int64) {
				_, hash := vbwPreimage(ci, nAdd)
				hashes[hash] = nAdd
				htlc := &lnwire.UpdateAddHTLC{ChanID: chanID,
					Amount:      lnwire.MilliSatoshi(sat*1000 + r.rng(0, 999)),
					Expiry:      uint32(100 + r.intn(3)),
					PaymentHash: hash}
				nAdd++
				if e := vbwSafe(func() error {
					idx, err := ch[p].AddHTLC(htlc, nil)
					if err != nil {
						return err
					}
					htlc.ID = idx
					_, err = ch[1-p].ReceiveHTLC(htlc)
					return err
				}); e != "" && abort == "" {
					abort = "add: " + e
				}
			}
			perm := []int{0, 1, 2, 3, 4, 5}
			for i := len(perm) - 1; i > 0; i-- {
				j := r.intn(i + 1)
				perm[i], perm[j] = perm[j], perm[i]
			}
			for i := 0; i < k; i++ {
				add((dirs>>i)&1, vbfAmounts[perm[i]])
			}
			if r.intn(3) == 0 {
				add(r.intn(2), 200) // dust: never on the transaction
			}
			dance := func(s int) {
				if abort != "" {
					return
				}
				if e := vbwSafe(func() error {
					return lnwallet.ForceStateTransition(ch[s], ch[1-s])
				}); e != "" {
					abort = "dance: " + e
				}
			}
			s0 := r.intn(2)
			dance(s0)
			dance(1 - s0)
			var brs [2]*vbfBreach
			for q := 0; q < 2 && abort == ""; q++ {
				br, err := vbfCapture(ch[q], ci, hashes, ty)
				if err != nil {
					abort = "capture: " + err.Error()
					break
				}
				br.cheater = q
				brs[q] = br
			}
			// revoke both captured commitments
			if abort == "" {
				add(r.intn(2), 26_000)
				dance(r.intn(2))
				dance(r.intn(2))
			}
			for q := 0; q < 2 && abort == ""; q++ {
				if ch[1-q].State().RemoteCommitment.CommitHeight <= brs[q].height {
					abort = fmt.Sprintf("commitment %d of %s not revoked", brs[q].height, vbwNames[q])
				}
			}
			if abort != "" {
				emit(map[string]any{"stage": "brarflow", "case": ci, "seed": vSeed(),
					"chan_type": ty.name, "aborted": abort})
				return
			}
			for q := 0; q < 2; q++ {
				p := 1 - q // the victim
				for wi := 0; wi < walks; wi++ {
					if onlyWalk >= -1 && wi != onlyWalk {
						continue
					}
					wr := r.fork(uint64(1000 + 100*q + wi))
					emit(vbfWalk(wr, ci, wi, ty, ch[p], p, brs[q], k))
				}
			}
			// the real arbiter goroutines: one victim per channel (the
			// channel is closed in its database afterwards)
			if os.Getenv("VERIF_BRAR_NO_LIVE") == "" && (onlyWalk < -1 || onlyWalk == -1) {
				q := ci / len(vbwTypes) % 2
				if liveStalls >= 2 && onlyWalk < -1 {
					// a stalled arbiter costs a full wait: two are enough
					// evidence, the remaining live walks are skipped
					emit(map[string]any{"stage": "brarflow", "mode": "live", "case": ci,
						"seed": vSeed(), "chan_type": ty.name,
						"aborted": "skipped: two live walks stalled before"})
					return
				}
				wr := r.fork(uint64(5000 + q))
				row := vbfLiveWalk(t, wr, ci, ty, ch[1-q], 1-q, brs[q], k)
				if row["stalled"] != nil {
					liveStalls++
				}
				emit(row)
			}
		})
	}
}
