//go:build verif

package shachain

// C06 correspondence harness: drives the real RevocationStore /
// RevocationProducer on seeded operation sequences and writes every
// observable to VERIF_OUT as JSONL.  The Coq model (Shachain/Exec.v) re-runs
// the same operations and must agree byte for byte.

import (
	"bytes"
	"crypto/sha256"
	"encoding/binary"
	"encoding/hex"
	"encoding/json"
	"os"
	"strconv"
	"testing"

	"github.com/btcsuite/btcd/chainhash/v2"
)

type vOp []any

func hx(b []byte) string { return hex.EncodeToString(b) }

// vSynthStore builds the serialized store a node would hold after receiving
// the first k secrets of producer p, without performing k insertions: bucket
// b holds the most recently inserted index with exactly b trailing zeros.
func vSynthStore(p *RevocationProducer, k uint64) ([]byte, error) {
	var buf bytes.Buffer
	type be struct {
		idx  uint64
		hash chainhash.Hash
	}
	var bks []be
	var n uint8
	for b := uint8(0); b < maxHeight; b++ {
		// Largest v < k such that ctz(start - v) == b, i.e. smallest
		// index >= start-k+1 with exactly b trailing zeros.
		lo := uint64(startIndex) - k + 1
		step := uint64(1) << b
		cand := (lo + step - 1) &^ (step - 1) // round up to multiple of 2^b
		if (cand>>b)&1 == 0 {
			cand += step
		}
		if cand > uint64(startIndex) {
			// no such index yet
			bks = append(bks, be{})
			continue
		}
		h, err := p.AtIndex(uint64(startIndex) - cand)
		if err != nil {
			return nil, err
		}
		bks = append(bks, be{idx: cand, hash: *h})
		n = b + 1
	}
	buf.WriteByte(n)
	for i := uint8(0); i < n; i++ {
		var ib [8]byte
		binary.BigEndian.PutUint64(ib[:], bks[i].idx)
		buf.Write(ib[:])
		buf.Write(bks[i].hash[:])
	}
	var ib [8]byte
	binary.BigEndian.PutUint64(ib[:], uint64(startIndex)-k)
	buf.Write(ib[:])
	return buf.Bytes(), nil
}

// vReplayCase re-executes the inputs of a recorded case (replay file written
// by the check) on the real code and emits what the implementation answers
// now.
func vReplayCase(t *testing.T, out *vWriter, path string) {
	raw, err := os.ReadFile(path)
	if err != nil {
		t.Fatalf("replay: %v", err)
	}
	var rep struct {
		Detail struct {
			Case struct {
				Case int     `json:"case"`
				Kind string  `json:"kind"`
				Ops  [][]any `json:"ops"`
			} `json:"case"`
		} `json:"detail"`
	}
	dec := json.NewDecoder(bytes.NewReader(raw))
	dec.UseNumber()
	if err := dec.Decode(&rep); err != nil {
		t.Fatalf("replay: %v", err)
	}
	u64 := func(x any) uint64 {
		n, _ := strconv.ParseUint(string(x.(json.Number)), 10, 64)
		return n
	}
	hash := func(x any) chainhash.Hash {
		var h chainhash.Hash
		b, _ := hex.DecodeString(x.(string))
		copy(h[:], b)
		return h
	}
	store := NewRevocationStore()
	var ops []vOp
	var k uint64
	for _, o := range rep.Detail.Case.Ops {
		switch o[0].(string) {
		case "load":
			enc, _ := hex.DecodeString(o[1].(string))
			s2, err := NewRevocationStoreFromBytes(bytes.NewReader(enc))
			ops = append(ops, vOp{"load", o[1], err == nil})
			if err == nil {
				store = s2
				k = uint64(startIndex) - uint64(s2.index)
			}
		case "add":
			h := hash(o[1])
			err := store.AddNextEntry(&h)
			ops = append(ops, vOp{"add", o[1], err == nil})
			if err == nil {
				k++
			}
		case "lookup":
			v := u64(o[1])
			res, err := store.LookUp(v)
			if err != nil {
				ops = append(ops, vOp{"lookup", v, nil})
			} else {
				ops = append(ops, vOp{"lookup", v, hx(res[:])})
			}
		case "encdec":
			var b bytes.Buffer
			if err := store.Encode(&b); err != nil {
				t.Fatalf("encode: %v", err)
			}
			s2, err := NewRevocationStoreFromBytes(bytes.NewReader(b.Bytes()))
			if err != nil {
				ops = append(ops, vOp{"load", hx(b.Bytes()), false})
				continue
			}
			store = s2
			ops = append(ops, vOp{"encdec", hx(b.Bytes())})
		case "prod":
			root := hash(o[1])
			v := u64(o[2])
			h, err := NewRevocationProducer(root).AtIndex(v)
			if err != nil {
				ops = append(ops, vOp{"prod", o[1], v, nil})
			} else {
				ops = append(ops, vOp{"prod", o[1], v, hx(h[:])})
			}
		case "sha":
			m, _ := hex.DecodeString(o[1].(string))
			d := sha256.Sum256(m)
			ops = append(ops, vOp{"sha", o[1], hx(d[:])})
		}
	}
	out.emit(map[string]any{
		"case": rep.Detail.Case.Case, "kind": rep.Detail.Case.Kind, "k": k,
		"nbuckets": store.lenBuckets, "ops": ops, "aborted": "",
	})
}

func TestVerifShachain(t *testing.T) {
	out := vOpenOut()
	defer out.close()
	if p := vReplay(); p != "" {
		vReplayCase(t, out, p)
		return
	}
	master := vNewRng(vSeed())
	ncases := vCases(120, 2000)

	for ci := 0; ci < ncases; ci++ {
		r := master.fork(uint64(ci))
		var ops []vOp
		var root chainhash.Hash
		copy(root[:], r.bytes(32))
		prod := NewRevocationProducer(root)
		store := NewRevocationStore()
		kind := "seq"
		aborted := ""
		var k uint64
	caseBody:
		for once := true; once; once = false {

			// Starting position: usually 0; sometimes a structured far
			// position reached through the codec (bit patterns 2^j, 2^j±1,
			// long runs of ones, random 48-bit values — i.e. also the upper
			// half of the index space where all 48 buckets are in use).
			switch r.intn(6) {
			case 0:
				kind = "far"
				j := uint(r.intn(48))
				switch r.intn(4) {
				case 0:
					k = uint64(1) << j
				case 1:
					k = (uint64(1) << j) + 1
				case 2:
					k = (uint64(1) << j) - 1
				default:
					k = r.u64() & ((1 << 48) - 1)
				}
				// keep clear of the very end of the index space (the
				// 2^48-th insert is outside the property's guard)
				if k > (1<<48)-4096 {
					k -= 4096
				}
				if k == 0 {
					k = 1
				}
				enc, err := vSynthStore(prod, k)
				if err != nil {
					ops = append(ops, vOp{"prod", hx(root[:]), k, nil})
					aborted = "producer"
					k = 0
					break caseBody
				}
				// Directed test of every single bucket comparison of
				// AddNextEntry: start right before an index with j
				// trailing zeros (k = 2^j-1: buckets 0..j-1 are all
				// compared) and damage exactly one bucket of the loaded
				// store; the correct next secret must then be refused.
				// (A wrong *secret* can never single out a higher
				// bucket: it already fails at bucket 0.)
				if r.intn(3) == 0 {
					j = 1 + uint(r.intn(46))
					k = (uint64(1) << j) - 1
					enc, err = vSynthStore(prod, k)
					if err == nil && int(enc[0]) >= int(j) {
						kind = "tamper"
						off := 1 + 40*r.intn(int(j))
						if r.intn(4) == 0 {
							// wrong index in the bucket
							enc[off+7] ^= 1 << uint(r.intn(3))
						} else {
							bit := r.intn(256)
							enc[off+8+bit/8] ^= 1 << (bit % 8)
						}
					}
				}
				s2, err := NewRevocationStoreFromBytes(bytes.NewReader(enc))
				ops = append(ops, vOp{"load", hx(enc), err == nil})
				if err != nil {
					aborted = "load"
					k = 0
					break caseBody
				}
				store = s2
			}

			nadd := 1 + r.intn(40)
			if r.intn(8) == 0 {
				nadd = 64 + r.intn(200)
			}
			if kind == "tamper" {
				nadd = 2
			}
			var last []byte
			// 60% of the cases are clean runs; the others make 1-3 corruption
			// attempts at seeded positions (Cedar's lesson: do not let the
			// error path dominate).
			corruptAt := map[int]bool{}
			if r.intn(10) < 4 {
				for c := 1 + r.intn(3); c > 0; c-- {
					corruptAt[r.intn(nadd)] = true
				}
			}
			poisoned := 0
			for a := 0; a < nadd && poisoned < 6; a++ {
				if poisoned > 0 {
					poisoned++
				}
				h, err := prod.AtIndex(k)
				if err != nil {
					ops = append(ops, vOp{"prod", hx(root[:]), k, nil})
					aborted = "producer"
					break caseBody
				}
				// The producer derivation costs ~47 hashes in the model; tie
				// it on a sample of the positions only.
				if a < 2 || r.intn(16) == 0 {
					ops = append(ops, vOp{"prod", hx(root[:]), k, hx(h[:])})
				}

				// Occasionally offer a wrong secret first.
				if corruptAt[a] {
					var bad chainhash.Hash
					switch r.intn(4) {
					case 0:
						copy(bad[:], r.bytes(32))
					case 1:
						bad = *h
						bit := r.intn(256)
						bad[bit/8] ^= 1 << (bit % 8)
					case 2:
						if last != nil {
							copy(bad[:], last)
						} else {
							copy(bad[:], r.bytes(32))
						}
					default:
						o, _ := prod.AtIndex(k + 1 + uint64(r.intn(3)))
						bad = *o
					}
					// a damaged loaded store stays "tamper": its buckets are
					// not a state reachable by inserts
					if kind != "tamper" {
						kind = "corrupt"
					}
					err := store.AddNextEntry(&bad)
					ops = append(ops, vOp{"add", hx(bad[:]), err == nil})
					if err == nil {
						// The store accepted it (no lower bucket to
						// check against); the chain is now poisoned —
						// keep going, the model must track it too.
						k++
						last = bad[:]
						poisoned = 1
						continue
					}
				}
				err = store.AddNextEntry(h)
				ops = append(ops, vOp{"add", hx(h[:]), err == nil})
				if err == nil {
					k++
					last = h[:]
				}

				if r.intn(10) == 0 {
					var b bytes.Buffer
					if err := store.Encode(&b); err != nil {
						t.Fatalf("encode: %v", err)
					}
					s2, err := NewRevocationStoreFromBytes(bytes.NewReader(b.Bytes()))
					if err != nil {
						ops = append(ops, vOp{"load", hx(b.Bytes()), false})
						aborted = "decode"
						break caseBody
					}
					store = s2
					ops = append(ops, vOp{"encdec", hx(b.Bytes())})
				}
				if r.intn(3) == 0 {
					v := uint64(0)
					switch r.intn(4) {
					case 0:
						v = k - 1
					case 1:
						v = k + uint64(r.intn(3))
					default:
						if k > 0 {
							v = r.u64() % k
						}
					}
					res, err := store.LookUp(v)
					if err != nil {
						ops = append(ops, vOp{"lookup", v, nil})
					} else {
						ops = append(ops, vOp{"lookup", v, hx(res[:])})
					}
				}
			}
			// Boundary lookups: power-of-two neighbours of k (bucket hand-over
			// points) and indices at / beyond the 48-bit index space, where
			// newIndex wraps on uint64.
			if r.intn(2) == 0 {
				var vs []uint64
				for j := uint(0); j < 48; j++ {
					p := uint64(1) << j
					if p <= k && r.intn(6) == 0 {
						vs = append(vs, k-p)
						if p > 1 {
							vs = append(vs, k-p+1)
						}
						if k > p {
							vs = append(vs, k-p-1)
						}
					}
				}
				switch r.intn(4) {
				case 0:
					vs = append(vs, uint64(startIndex)-1, uint64(startIndex),
						uint64(startIndex)+1)
				case 1:
					vs = append(vs, 1<<63, ^uint64(0), uint64(startIndex)+1+k)
				}
				for _, v := range vs {
					res, err := store.LookUp(v)
					if err != nil {
						ops = append(ops, vOp{"lookup", v, nil})
					} else {
						ops = append(ops, vOp{"lookup", v, hx(res[:])})
					}
				}
				if r.intn(8) == 0 {
					pv := []uint64{uint64(startIndex), uint64(startIndex) + 1,
						^uint64(0)}[r.intn(3)]
					ph, err := prod.AtIndex(pv)
					if err != nil {
						ops = append(ops, vOp{"prod", hx(root[:]), pv, nil})
					} else {
						ops = append(ops, vOp{"prod", hx(root[:]), pv, hx(ph[:])})
					}
				}
			}
			// Final sweep of lookups over recent indices.
			for j := 0; j < 8; j++ {
				var v uint64
				if k > 0 {
					v = r.u64() % k
				}
				if j < 3 && k > uint64(j) {
					v = k - 1 - uint64(j)
				}
				res, err := store.LookUp(v)
				if err != nil {
					ops = append(ops, vOp{"lookup", v, nil})
				} else {
					ops = append(ops, vOp{"lookup", v, hx(res[:])})
				}
			}
		}
		// One SHA-256 sample to tie the model's hash to crypto/sha256.
		m := r.bytes(r.intn(130))
		d := sha256.Sum256(m)
		ops = append(ops, vOp{"sha", hx(m), hx(d[:])})

		out.emit(map[string]any{
			"case": ci, "kind": kind, "k": k, "nbuckets": store.lenBuckets,
			"ops": ops, "aborted": aborted,
		})
	}

	vTamperSweep(out, master)
	if vTier() == "thorough" {
		vExhaustive(t, out, master)
	}
}

// vTamperSweep singles out every one of the 47 bucket comparisons of
// AddNextEntry: the store a node holds after 2^47-1 secrets (next index has
// 47 trailing zeros, so buckets 0..46 are all compared) is loaded with exactly
// one damaged bucket tb; the correct next secret must be refused.  tb = 47 is
// the undamaged control, which must be accepted.
func vTamperSweep(out *vWriter, master *vrng) {
	const j = 47
	for tb := 0; tb <= j; tb++ {
		r := master.fork(uint64(2000000 + tb))
		var root chainhash.Hash
		copy(root[:], r.bytes(32))
		prod := NewRevocationProducer(root)
		k := (uint64(1) << j) - 1
		var ops []vOp
		kind := "tamper"
		enc, err := vSynthStore(prod, k)
		if err != nil {
			ops = append(ops, vOp{"prod", hx(root[:]), k, nil})
			out.emit(map[string]any{"case": 2000000 + tb, "kind": kind,
				"k": 0, "nbuckets": 0, "ops": ops, "aborted": "producer"})
			continue
		}
		if tb < j {
			off := 1 + 40*tb
			if r.intn(4) == 0 {
				enc[off+7] ^= 1 << uint(r.intn(3))
			} else {
				bit := r.intn(256)
				enc[off+8+bit/8] ^= 1 << (bit % 8)
			}
		} else {
			kind = "far"
		}
		store, err := NewRevocationStoreFromBytes(bytes.NewReader(enc))
		ops = append(ops, vOp{"load", hx(enc), err == nil})
		if err != nil {
			out.emit(map[string]any{"case": 2000000 + tb, "kind": kind,
				"k": 0, "nbuckets": 0, "ops": ops, "aborted": "load"})
			continue
		}
		h, err := prod.AtIndex(k)
		if err != nil {
			ops = append(ops, vOp{"prod", hx(root[:]), k, nil})
		} else {
			err = store.AddNextEntry(h)
			ops = append(ops, vOp{"add", hx(h[:]), err == nil})
			if err == nil {
				k++
			}
			for _, v := range []uint64{k - 1, k, (uint64(1) << j) - 2} {
				res, err := store.LookUp(v)
				if err != nil {
					ops = append(ops, vOp{"lookup", v, nil})
				} else {
					ops = append(ops, vOp{"lookup", v, hx(res[:])})
				}
			}
		}
		out.emit(map[string]any{
			"case": 2000000 + tb, "kind": kind, "k": k,
			"nbuckets": store.lenBuckets, "ops": ops, "aborted": "",
		})
	}
}

// vExhaustive: for a few roots, insert the first N producer secrets one by
// one and after EVERY insert compare the lookup of EVERY v < k with the
// producer (implementation-side check, all k < N).  The trace handed to the
// model contains all inserts, complete lookup sweeps at the power-of-two
// neighbourhoods and a reload through the codec.
func vExhaustive(t *testing.T, out *vWriter, master *vrng) {
	n := uint64(vEnvInt("VERIF_EXH_N", 1024))
	nroots := int(vEnvInt("VERIF_EXH_ROOTS", 3))
	for ri := 0; ri < nroots; ri++ {
		r := master.fork(uint64(1000000 + ri))
		var root chainhash.Hash
		copy(root[:], r.bytes(32))
		prod := NewRevocationProducer(root)
		store := NewRevocationStore()
		secrets := make([]chainhash.Hash, 0, n)
		var ops []vOp
		var bad [][]uint64
		checked := uint64(0)
		maxb := uint8(0)
		for k := uint64(0); k < n; k++ {
			h, err := prod.AtIndex(k)
			if err != nil {
				ops = append(ops, vOp{"prod", hx(root[:]), k, nil})
				bad = append(bad, []uint64{k, k})
				break
			}
			secrets = append(secrets, *h)
			err = store.AddNextEntry(h)
			ops = append(ops, vOp{"add", hx(h[:]), err == nil})
			if err != nil {
				bad = append(bad, []uint64{k, k})
				break
			}
			if store.lenBuckets > maxb {
				maxb = store.lenBuckets
			}
			kk := k + 1
			sweep := kk <= 9 || (kk+1)&kk == 0 || kk&(kk-1) == 0 ||
				(kk-1)&(kk-2) == 0
			if kk == n/2+3 {
				var b bytes.Buffer
				if err := store.Encode(&b); err != nil {
					t.Fatalf("encode: %v", err)
				}
				s2, err := NewRevocationStoreFromBytes(bytes.NewReader(b.Bytes()))
				if err != nil {
					ops = append(ops, vOp{"load", hx(b.Bytes()), false})
					bad = append(bad, []uint64{kk, kk})
					break
				}
				store = s2
				ops = append(ops, vOp{"encdec", hx(b.Bytes())})
			}
			for v := uint64(0); v < kk; v++ {
				res, err := store.LookUp(v)
				checked++
				if err != nil || *res != secrets[v] {
					if len(bad) < 5 {
						bad = append(bad, []uint64{kk, v})
					}
				}
				if sweep {
					if err != nil {
						ops = append(ops, vOp{"lookup", v, nil})
					} else {
						ops = append(ops, vOp{"lookup", v, hx(res[:])})
					}
				}
			}
			// the next index must not be answered yet
			if res, err := store.LookUp(kk); err == nil {
				bad = append(bad, []uint64{kk, kk})
				ops = append(ops, vOp{"lookup", kk, hx(res[:])})
			}
		}
		if uint64(len(secrets)) == n {
			ops = append(ops, vOp{"prod", hx(root[:]), uint64(0), hx(secrets[0][:])})
			ops = append(ops, vOp{"prod", hx(root[:]), n - 1, hx(secrets[n-1][:])})
		}
		out.emit(map[string]any{
			"case": 1000000 + ri, "kind": "exh", "k": uint64(len(secrets)),
			"nbuckets": maxb, "ops": ops, "exh_checked": checked,
			"exh_bad": bad,
		})
	}
}
