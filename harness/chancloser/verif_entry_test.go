//go:build verif

package chancloser

// C17 — ENTRY orderings of the legacy (closing_signed) negotiation.
//
// Every maximal interleaving of {user asks to close (either / both sides),
// Shutdown delivery, link flush report = BeginNegotiation (either side), arrival
// of the opener's first closing_signed (before or after the responder's flush
// report: cachedClosingSigned)} is ENUMERATED (not sampled) on an abstract copy
// of the enabledness rules, and each one is run on two REAL ChanClosers over a
// real channel pair; after the entry the remaining messages are delivered FIFO
// until nothing is in flight.  Recorded per closer: every call, what it
// returned, and the closer's fields afterwards.  Extra (not honest) streams:
// duplicated Shutdown / duplicated first closing_signed.

import (
	"fmt"
	"testing"

	"github.com/btcsuite/btcd/chaincfg/v2"
	"github.com/btcsuite/btcd/wire/v2"
	"github.com/lightningnetwork/lnd/channeldb"
	"github.com/lightningnetwork/lnd/lntypes"
	"github.com/lightningnetwork/lnd/lnwallet"
	"github.com/lightningnetwork/lnd/lnwallet/chainfee"
	"github.com/lightningnetwork/lnd/lnwire"
)

// abstract entry state: enough to decide which actions are enabled
type vEntAbs struct {
	phase   [2]int    // 0 idle 1 shutdownInitiated 2 awaitingFlush 3 negotiating; index 0 = opener
	flushed [2]bool
	queue   [2][]byte // messages in flight TO the node: 'S' / 'C'
}

// actions: "so"/"sr" user shutdown, "fo"/"fr" flush, "do"/"dr" deliver to
func (a vEntAbs) enabled() []string {
	out := []string{}
	nm := []string{"o", "r"}
	for i := 0; i < 2; i++ {
		if a.phase[i] == 0 {
			out = append(out, "s"+nm[i])
		}
	}
	for i := 0; i < 2; i++ {
		if !a.flushed[i] && a.phase[i] == 2 {
			out = append(out, "f"+nm[i])
		}
	}
	for i := 0; i < 2; i++ {
		if len(a.queue[i]) > 0 {
			out = append(out, "d"+nm[i])
		}
	}
	return out
}

func (a vEntAbs) apply(act string) vEntAbs {
	b := a
	b.queue[0] = append([]byte{}, a.queue[0]...)
	b.queue[1] = append([]byte{}, a.queue[1]...)
	i := 0
	if act[1] == 'r' {
		i = 1
	}
	switch act[0] {
	case 's':
		b.phase[i] = 1
		b.queue[1-i] = append(b.queue[1-i], 'S')
	case 'f':
		b.phase[i] = 3
		b.flushed[i] = true
		if i == 0 {
			b.queue[1] = append(b.queue[1], 'C')
		}
	case 'd':
		m := b.queue[i][0]
		b.queue[i] = b.queue[i][1:]
		if m == 'S' {
			if b.phase[i] == 0 {
				b.queue[1-i] = append(b.queue[1-i], 'S')
			}
			b.phase[i] = 2
		}
	}
	return b
}

// vEntryOrderings: every maximal action sequence up to "both flushed".
func vEntryOrderings() [][]string {
	var res [][]string
	var dfs func(a vEntAbs, pre []string)
	dfs = func(a vEntAbs, pre []string) {
		if a.flushed[0] && a.flushed[1] {
			res = append(res, append([]string{}, pre...))
			return
		}
		acts := a.enabled()
		if len(acts) == 0 || len(pre) > 14 {
			res = append(res, append([]string{}, pre...))
			return
		}
		for _, act := range acts {
			dfs(a.apply(act), append(pre, act))
		}
	}
	for _, first := range []string{"so", "sr"} {
		dfs(vEntAbs{}.apply(first), []string{first})
	}
	return res
}

type vEntNode struct {
	c     *ChanCloser
	inbox []lnwire.Message
	calls []vJ
	dead  bool
}

func vEntErr(err error) int {
	if err == nil {
		return 0
	}
	if err == ErrChanAlreadyClosing {
		return 5
	}
	return vNegErr(err)
}

func (n *vEntNode) record(ev vJ, err error, outs []int64) {
	cache := any(nil)
	n.c.cachedClosingSigned.WhenSome(func(cs lnwire.ClosingSigned) {
		cache = int64(cs.FeeSatoshis)
	})
	msg := ""
	if err != nil {
		msg = err.Error()
		n.dead = true
	}
	n.calls = append(n.calls, vJ{"ev": ev, "err": vEntErr(err), "msg": msg,
		"phase": int(n.c.state), "cache": cache,
		"last": int64(n.c.lastFeeProposal), "prior": vKeys(n.c.priorFeeOffers),
		"outs": outs})
}

type vEntCase struct {
	name           string
	ct             channeldb.ChannelType
	order          []string
	idealO, idealR int64
	dup            string // "", "S" duplicated Shutdown, "C" duplicated first closing_signed
}

func vRunEntry(t *testing.T, out *vWriter, r *vrng, ec vEntCase) {
	a, b, err := lnwallet.CreateTestChannels(t, ec.ct)
	if err != nil {
		t.Fatalf("CreateTestChannels: %v", err)
	}
	credit := int64(a.State().LocalCommitment.CommitFee)
	if ec.ct.HasAnchors() {
		credit += 2 * int64(lnwallet.AnchorSize)
	}
	afford := int64(a.State().LocalCommitment.LocalBalance.ToSatoshis()) + credit
	var broadcasts [2]int
	mk := func(i int, lc *lnwallet.LightningChannel, ideal int64) *ChanCloser {
		cfg := ChanCloseCfg{
			Channel:      lc,
			MusigSession: &vMusigCloser{channel: lc},
			BroadcastTx: func(tx *wire.MsgTx, _ string) error {
				broadcasts[i]++
				return nil
			},
			DisableChannel: func(wire.OutPoint) error { return nil },
			Disconnect:     func() error { return nil },
			ChainParams:    &chaincfg.RegressionNetParams,
			Quit:           make(chan struct{}),
			FeeEstimator:   vIdentityEstimator{},
		}
		// the "closer" role only labels who asked first; set when known
		return NewChanCloser(cfg, DeliveryAddrWithKey{DeliveryAddress: vP2WKH(r)},
			chainfee.SatPerKWeight(ideal), 1000, nil, lntypes.Local)
	}
	nodes := [2]*vEntNode{
		{c: mk(0, a, ec.idealO)}, {c: mk(1, b, ec.idealR)},
	}
	sent, delivered := 0, 0
	send := func(from int, m lnwire.Message) {
		nodes[1-from].inbox = append(nodes[1-from].inbox, m)
		sent++
	}
	dupS, dupC := ec.dup == "S", ec.dup == "C"
	deliver := func(i int) {
		n := nodes[i]
		m := n.inbox[0]
		n.inbox = n.inbox[1:]
		delivered++
		switch mm := m.(type) {
		case *lnwire.Shutdown:
			if dupS {
				dupS = false
				n.inbox = append([]lnwire.Message{mm}, n.inbox...)
				sent++
			}
			resp, err := n.c.ReceiveShutdown(*mm)
			outs := []int64{}
			if err == nil && resp.IsSome() {
				sh := resp.UnwrapOr(lnwire.Shutdown{})
				send(i, &sh)
				outs = append(outs, -1)
			}
			n.record(vJ{"e": "ReceiveShutdown"}, err, outs)
		case *lnwire.ClosingSigned:
			if dupC {
				dupC = false
				n.inbox = append([]lnwire.Message{mm}, n.inbox...)
				sent++
			}
			resp, err := n.c.ReceiveClosingSigned(*mm)
			outs := []int64{}
			if err == nil && resp.IsSome() {
				cs := resp.UnwrapOr(lnwire.ClosingSigned{})
				send(i, &cs)
				outs = append(outs, int64(cs.FeeSatoshis))
			}
			n.record(vJ{"e": "ReceiveCs", "fee": int64(mm.FeeSatoshis)}, err, outs)
		}
	}
	stuck := ""
	for _, act := range ec.order {
		i := 0
		if act[1] == 'r' {
			i = 1
		}
		n := nodes[i]
		if nodes[0].dead || nodes[1].dead {
			break
		}
		switch act[0] {
		case 's':
			sh, err := n.c.ShutdownChan()
			outs := []int64{}
			if err == nil {
				send(i, sh)
				outs = append(outs, -1)
			}
			n.record(vJ{"e": "ShutdownChan"}, err, outs)
		case 'f':
			resp, err := n.c.BeginNegotiation()
			outs := []int64{}
			if err == nil && resp.IsSome() {
				cs := resp.UnwrapOr(lnwire.ClosingSigned{})
				send(i, &cs)
				outs = append(outs, int64(cs.FeeSatoshis))
			}
			n.record(vJ{"e": "BeginNegotiation"}, err, outs)
		case 'd':
			if len(n.inbox) == 0 {
				stuck = "ordering expects a message for " + act
				break
			}
			deliver(i)
		}
	}
	// the rest of the negotiation: FIFO, alternating
	for step := 0; step < 400 && !nodes[0].dead && !nodes[1].dead; step++ {
		switch {
		case len(nodes[1].inbox) > 0 && (step%2 == 0 || len(nodes[0].inbox) == 0):
			deliver(1)
		case len(nodes[0].inbox) > 0:
			deliver(0)
		default:
			step = 400
		}
	}
	o, rr := nodes[0].c, nodes[1].c
	row := vJ{"k": "entry", "name": ec.name, "order": ec.order, "dup": ec.dup,
		"tap": ec.ct.IsTaproot(), "anchors": ec.ct.HasAnchors(),
		"io": ec.idealO, "ir": ec.idealR, "afford": afford, "stuck": stuck,
		"callsO": nodes[0].calls, "callsR": nodes[1].calls,
		"finO": o.state == closeFinished, "finR": rr.state == closeFinished,
		"stateO": int(o.state), "stateR": int(rr.state),
		"priorO": vKeys(o.priorFeeOffers), "priorR": vKeys(rr.priorFeeOffers),
		"txO": vRawTx(o.closingTx), "txR": vRawTx(rr.closingTx),
		"inflight": len(nodes[0].inbox) + len(nodes[1].inbox),
		"sent": sent, "delivered": delivered,
		"nBroadcastO": broadcasts[0], "nBroadcastR": broadcasts[1],
		"maxO": int64(o.maxFee), "engine": false}
	if o.closingTx != nil {
		prev := a.FundingTxOut()
		row["engine"] = vEngineOK(o.closingTx, prev)
		var sum int64
		for _, txo := range o.closingTx.TxOut {
			sum += txo.Value
		}
		row["txFee"] = prev.Value - sum
		row["nOuts"] = len(o.closingTx.TxOut)
	}
	out.emit(row)
}

func vEntryCases(t *testing.T, out *vWriter, master *vrng) {
	orders := vEntryOrderings()
	plain := channeldb.SingleFunderTweaklessBit
	anch := plain | channeldb.AnchorOutputsBit | channeldb.ZeroHtlcTxFeeBit
	tap := anch | channeldb.SimpleTaprootFeatureBit
	cts := []channeldb.ChannelType{plain, anch, tap}
	fees := [][2]int64{{1000, 1000}, {1000, 1250}, {1300, 1000}, {400, 5000},
		{20000, 700}, {100, 130}, {131, 100}}
	thorough := vTier() == "thorough"
	k := 0
	for oi, ord := range orders {
		for ci, ct := range cts {
			for fi, fp := range fees {
				// quick: every ordering on every channel type, the fee
				// pair rotating; thorough: the full product
				if !thorough && fi != (oi+ci)%len(fees) {
					continue
				}
				k++
				vRunEntry(t, out, master.fork(uint64(12_000_000+k)), vEntCase{
					name: fmt.Sprintf("ord%d/ct%d/fee%d", oi, ci, fi), ct: ct,
					order: ord, idealO: fp[0], idealR: fp[1]})
			}
		}
	}
	// duplicates (a peer that repeats itself): correspondence only
	for oi, ord := range orders {
		for di, dup := range []string{"S", "C"} {
			if !thorough && (oi+di)%4 != 0 {
				continue
			}
			k++
			vRunEntry(t, out, master.fork(uint64(12_500_000+k)), vEntCase{
				name: fmt.Sprintf("ord%d/dup%s", oi, dup), ct: cts[(oi+di)%3],
				order: ord, idealO: 1000, idealR: 1250, dup: dup})
		}
	}
	out.emit(vJ{"k": "entry_orders", "n": len(orders)})
}
