//go:build verif

package chancloser

// C17 correspondence harness (chancloser side).
//
//   range/ratchet/compromise   the unexported fee functions on boundary grids;
//   neg   two REAL ChanClosers wired back to back over a REAL channel pair
//         (lnwallet.CreateTestChannels): real Shutdown exchange, real
//         BeginNegotiation, every ClosingSigned delivered to the other side's
//         ReceiveClosingSigned (real CreateCloseProposal /
//         CompleteCooperativeClose, ECDSA or MuSig2 signatures) until no
//         message is in flight, an error occurs or the fuel runs out.
//         Observed: the fee of every delivered message, the outcome, both
//         closing transactions, the keys of both priorFeeOffers maps and a
//         txscript engine run of the broadcast transaction.

import (
	"bytes"
	"encoding/hex"
	"errors"
	"fmt"
	"io"
	"math"
	"sort"
	"strings"
	"testing"

	"github.com/btcsuite/btcd/btcec/v2/schnorr/musig2"
	"github.com/btcsuite/btcd/btcutil/v2"
	"github.com/btcsuite/btcd/chaincfg/v2"
	"github.com/btcsuite/btcd/txscript/v2"
	"github.com/btcsuite/btcd/wire/v2"
	"github.com/lightningnetwork/lnd/channeldb"
	"github.com/lightningnetwork/lnd/fn/v2"
	"github.com/lightningnetwork/lnd/input"
	"github.com/lightningnetwork/lnd/lntypes"
	"github.com/lightningnetwork/lnd/lnwallet"
	"github.com/lightningnetwork/lnd/lnwallet/chainfee"
	"github.com/lightningnetwork/lnd/lnwire"
)

// vIdentityEstimator makes the "fee rate" handed to NewChanCloser / MaxFee
// the absolute fee in satoshis, so that ideal fee and cap are chosen exactly.
type vIdentityEstimator struct{}

func (vIdentityEstimator) EstimateFee(_ channeldb.ChannelType, _, _ *wire.TxOut,
	rate chainfee.SatPerKWeight) btcutil.Amount {

	return btcutil.Amount(rate)
}

// vMusigCloser is peer.MusigChanCloser (which this package cannot import).
type vMusigCloser struct {
	channel      *lnwallet.LightningChannel
	musigSession *lnwallet.MusigSession
	localNonce   *musig2.Nonces
	remoteNonce  *musig2.Nonces
}

func (m *vMusigCloser) ProposalClosingOpts() ([]lnwallet.ChanCloseOpt, error) {
	switch {
	case m.localNonce == nil:
		return nil, fmt.Errorf("local nonce not generated")
	case m.remoteNonce == nil:
		return nil, fmt.Errorf("remote nonce not generated")
	}
	localKey, remoteKey := m.channel.MultiSigKeys()
	tweak := fn.MapOption(lnwallet.TapscriptRootToTweak)(
		m.channel.State().TapscriptRoot,
	)
	m.musigSession = lnwallet.NewPartialMusigSession(
		*m.remoteNonce, localKey, remoteKey, m.channel.Signer,
		m.channel.FundingTxOut(), lnwallet.RemoteMusigCommit, tweak,
		fn.None[io.Reader](),
	)
	if err := m.musigSession.FinalizeSession(*m.localNonce); err != nil {
		return nil, err
	}
	return []lnwallet.ChanCloseOpt{
		lnwallet.WithCoopCloseMusigSession(m.musigSession),
	}, nil
}

func (m *vMusigCloser) CombineClosingOpts(localSig, remoteSig lnwire.PartialSig,
) (input.Signature, input.Signature, []lnwallet.ChanCloseOpt, error) {

	if m.musigSession == nil {
		return nil, nil, nil, fmt.Errorf("musig session not created")
	}
	l := new(lnwallet.MusigPartialSig).FromWireSig(&lnwire.PartialSigWithNonce{
		PartialSig: localSig, Nonce: m.localNonce.PubNonce,
	})
	r := new(lnwallet.MusigPartialSig).FromWireSig(&lnwire.PartialSigWithNonce{
		PartialSig: remoteSig, Nonce: m.remoteNonce.PubNonce,
	})
	return l, r, []lnwallet.ChanCloseOpt{
		lnwallet.WithCoopCloseMusigSession(m.musigSession),
	}, nil
}

func (m *vMusigCloser) ClosingNonce() (*musig2.Nonces, error) {
	localKey, _ := m.channel.MultiSigKeys()
	nonce, err := musig2.GenNonces(musig2.WithPublicKey(localKey.PubKey))
	if err != nil {
		return nil, err
	}
	m.localNonce = nonce
	return nonce, nil
}

func (m *vMusigCloser) InitRemoteNonce(nonce *musig2.Nonces) { m.remoteNonce = nonce }
func (m *vMusigCloser) InvalidateNonce()                      { m.localNonce, m.musigSession = nil, nil }

func vPick(r *vrng, vs ...int64) int64 { return vs[r.intn(len(vs))] }

func vNegErr(err error) int {
	switch {
	case err == nil:
		return 0
	case errors.Is(err, ErrProposalExceedsMaxFee):
		return 1
	case strings.Contains(err.Error(), "taproot channels was not accepted"):
		return 2
	case strings.Contains(err.Error(), "unable to sign new co op close offer"):
		return 3
	case errors.Is(err, ErrInvalidState):
		return 4
	}
	return 9
}

func vKeys(m map[btcutil.Amount]*lnwire.ClosingSigned) []int64 {
	ks := []int64{}
	for k := range m {
		ks = append(ks, int64(k))
	}
	sort.Slice(ks, func(i, j int) bool { return ks[i] < ks[j] })
	return ks
}

func vRawTx(tx *wire.MsgTx) string {
	if tx == nil {
		return ""
	}
	var b bytes.Buffer
	_ = tx.Serialize(&b)
	return hex.EncodeToString(b.Bytes())
}

func vEngineOK(tx *wire.MsgTx, prev *wire.TxOut) bool {
	f := txscript.NewCannedPrevOutputFetcher(prev.PkScript, prev.Value)
	hc := txscript.NewTxSigHashes(tx, f)
	vm, err := txscript.NewEngine(prev.PkScript, tx, 0,
		txscript.StandardVerifyFlags, nil, hc, prev.Value, f)
	if err != nil {
		return false
	}
	return vm.Execute() == nil
}

func vPureFeeCases(out *vWriter, master *vrng, n int) {
	big := []int64{math.MaxInt64, math.MaxInt64 / 3, math.MaxInt64/3 + 1,
		math.MaxInt64 / 10, 1 << 62, -1, -10, -100, math.MinInt64}
	val := func(r *vrng) int64 {
		switch r.intn(12) {
		case 0:
			return big[r.intn(len(big))]
		case 1, 2:
			return r.rng(0, 30)
		case 3:
			return r.rng(90, 140)
		case 4:
			return r.rng(0, 1e9)
		}
		return r.rng(0, 20000)
	}
	near := func(r *vrng, l int64) int64 {
		// boundaries of the 30% window and of the 10% step of l
		up := l + l*3/10
		dn := l - l*3/10
		return vPick(r, up-1, up, up+1, dn-1, dn, dn+1, l-1, l, l+1,
			l+l/10, l-l/10, 0)
	}
	for i := 0; i < n; i++ {
		r := master.fork(uint64(5_000_000 + i))
		l := val(r)
		rem := val(r)
		if r.intn(3) > 0 && l > -1e15 && l < 1e15 {
			rem = near(r, l)
		}
		out.emit(map[string]any{"k": "range", "l": l, "r": rem,
			"res": feeInAcceptableRange(btcutil.Amount(l), btcutil.Amount(rem))})
		up := r.bool()
		out.emit(map[string]any{"k": "ratchet", "fee": l, "up": up,
			"res": int64(ratchetFee(btcutil.Amount(l), up))})
		ideal := vPick(r, l, rem, val(r), val(r))
		last := vPick(r, l, l, l, 0)
		out.emit(map[string]any{"k": "compromise", "ideal": ideal, "last": last,
			"remote": rem, "res": int64(calcCompromiseFee(wire.OutPoint{},
				btcutil.Amount(ideal), btcutil.Amount(last),
				btcutil.Amount(rem)))})
	}
}

type vNegCase struct {
	witness        string
	taproot        bool
	idealO, idealR int64
	capO, capR     int64 // cfg.MaxFee, 0 = default 3x
	openerSat      int64 // opener's commitment balance (sat); -1 = leave
	openerShuts    bool  // who sends the first Shutdown
	fuel           int
}

func vP2WKH(r *vrng) []byte { return append([]byte{0x00, 0x14}, r.bytes(20)...) }

func vRunNeg(t *testing.T, out *vWriter, r *vrng, nc vNegCase) {
	ct := channeldb.SingleFunderTweaklessBit
	if r.bool() {
		ct |= channeldb.AnchorOutputsBit
	}
	if nc.taproot {
		ct = channeldb.SingleFunderTweaklessBit | channeldb.AnchorOutputsBit |
			channeldb.ZeroHtlcTxFeeBit | channeldb.SimpleTaprootFeatureBit
	}
	a, b, err := lnwallet.CreateTestChannels(t, ct)
	if err != nil {
		t.Fatalf("CreateTestChannels: %v", err)
	}
	if nc.openerSat >= 0 {
		// move the balance to the other side, on both views
		sa, sb := a.State(), b.State()
		delta := sa.LocalCommitment.LocalBalance -
			lnwire.NewMSatFromSatoshis(btcutil.Amount(nc.openerSat))
		sa.LocalCommitment.LocalBalance -= delta
		sa.LocalCommitment.RemoteBalance += delta
		sb.LocalCommitment.RemoteBalance -= delta
		sb.LocalCommitment.LocalBalance += delta
	}
	credit := int64(a.State().LocalCommitment.CommitFee)
	if ct.HasAnchors() {
		credit += 2 * int64(lnwallet.AnchorSize)
	}
	afford := int64(a.State().LocalCommitment.LocalBalance.ToSatoshis()) + credit

	var broadcasts [2][]*wire.MsgTx
	mk := func(i int, lc *lnwallet.LightningChannel, ideal, capFee int64,
		closer lntypes.ChannelParty) *ChanCloser {

		cfg := ChanCloseCfg{
			Channel:      lc,
			MusigSession: &vMusigCloser{channel: lc},
			BroadcastTx: func(tx *wire.MsgTx, _ string) error {
				broadcasts[i] = append(broadcasts[i], tx)
				return nil
			},
			DisableChannel: func(wire.OutPoint) error { return nil },
			Disconnect:     func() error { return nil },
			MaxFee:         chainfee.SatPerKWeight(capFee),
			ChainParams:    &chaincfg.RegressionNetParams,
			Quit:           make(chan struct{}),
			FeeEstimator:   vIdentityEstimator{},
		}
		return NewChanCloser(cfg, DeliveryAddrWithKey{
			DeliveryAddress: vP2WKH(r),
		}, chainfee.SatPerKWeight(ideal), 1000, nil, closer)
	}
	closerO, closerR := lntypes.Local, lntypes.Remote
	if !nc.openerShuts {
		closerO, closerR = lntypes.Remote, lntypes.Local
	}
	o := mk(0, a, nc.idealO, nc.capO, closerO)
	rr := mk(1, b, nc.idealR, nc.capR, closerR)

	// real Shutdown exchange
	first, second := o, rr
	if !nc.openerShuts {
		first, second = rr, o
	}
	sh, err := first.ShutdownChan()
	if err != nil {
		t.Fatalf("ShutdownChan: %v", err)
	}
	resp, err := second.ReceiveShutdown(*sh)
	if err != nil {
		t.Fatalf("ReceiveShutdown: %v", err)
	}
	if resp.IsNone() {
		t.Fatal("no shutdown reply")
	}
	sh2 := resp.UnwrapOr(lnwire.Shutdown{})
	if _, err := first.ReceiveShutdown(sh2); err != nil {
		t.Fatalf("ReceiveShutdown: %v", err)
	}

	row := map[string]any{"k": "neg", "tap": nc.taproot, "io": nc.idealO,
		"ir": nc.idealR, "co": nc.capO, "cr": nc.capR, "afford": afford,
		"fuel": nc.fuel, "openerShuts": nc.openerShuts,
		"anchors": ct.HasAnchors(), "witness": nc.witness}

	trace := []int64{}
	errClass := 0
	errMsg := ""
	var inflight *lnwire.ClosingSigned
	toOpener := false

	if _, err := rr.BeginNegotiation(); err != nil {
		errClass, errMsg = vNegErr(err), err.Error()
	}
	if errClass == 0 {
		m, err := o.BeginNegotiation()
		if err != nil {
			errClass, errMsg = vNegErr(err), err.Error()
		} else if m.IsSome() {
			cs := m.UnwrapOr(lnwire.ClosingSigned{})
			inflight = &cs
		}
	}
	row["maxO"] = int64(o.maxFee)
	row["maxR"] = int64(rr.maxFee)
	for step := 0; step < nc.fuel && errClass == 0 && inflight != nil; step++ {
		dst := rr
		if toOpener {
			dst = o
		}
		trace = append(trace, int64(inflight.FeeSatoshis))
		reply, err := dst.ReceiveClosingSigned(*inflight)
		if err != nil {
			errClass, errMsg = vNegErr(err), err.Error()
			inflight = nil
			break
		}
		if reply.IsSome() {
			cs := reply.UnwrapOr(lnwire.ClosingSigned{})
			inflight = &cs
			toOpener = !toOpener
		} else {
			inflight = nil
		}
	}
	row["trace"] = trace
	row["err"] = errClass
	row["msg"] = errMsg
	row["open"] = inflight != nil
	row["stateO"] = int(o.state)
	row["stateR"] = int(rr.state)
	row["finO"] = o.state == closeFinished
	row["finR"] = rr.state == closeFinished
	row["priorO"] = vKeys(o.priorFeeOffers)
	row["priorR"] = vKeys(rr.priorFeeOffers)
	row["txO"] = vRawTx(o.closingTx)
	row["txR"] = vRawTx(rr.closingTx)
	row["nBroadcastO"] = len(broadcasts[0])
	row["nBroadcastR"] = len(broadcasts[1])
	if o.closingTx != nil {
		prev := a.FundingTxOut()
		row["engine"] = vEngineOK(o.closingTx, prev)
		var sum int64
		for _, txo := range o.closingTx.TxOut {
			sum += txo.Value
		}
		row["txFee"] = prev.Value - sum
		row["nOuts"] = len(o.closingTx.TxOut)
	}
	out.emit(row)
}

func TestVerifNegotiate(t *testing.T) {
	out := vOpenOut()
	defer out.close()
	master := vNewRng(vSeed())

	vPureFeeCases(out, master, vCases(1200, 15000))

	if vTier() == "thorough" {
		// exhaustive small universes for the fee functions
		for l := int64(0); l <= 120; l++ {
			for rem := int64(0); rem <= 120; rem++ {
				out.emit(map[string]any{"k": "range", "l": l, "r": rem,
					"res": feeInAcceptableRange(btcutil.Amount(l),
						btcutil.Amount(rem))})
			}
		}
		for f := int64(0); f <= 3000; f++ {
			for _, up := range []bool{true, false} {
				out.emit(map[string]any{"k": "ratchet", "fee": f, "up": up,
					"res": int64(ratchetFee(btcutil.Amount(f), up))})
			}
		}
		for ideal := int64(0); ideal <= 24; ideal++ {
			for last := int64(0); last <= 24; last++ {
				for rem := int64(0); rem <= 24; rem++ {
					out.emit(map[string]any{"k": "compromise",
						"ideal": ideal, "last": last, "remote": rem,
						"res": int64(calcCompromiseFee(wire.OutPoint{},
							btcutil.Amount(ideal), btcutil.Amount(last),
							btcutil.Amount(rem)))})
				}
			}
		}
		// every pair of ideal fees in [100, 135]^2 on real ChanClosers
		for a := int64(100); a <= 135; a++ {
			for b := int64(100); b <= 135; b++ {
				vRunNeg(t, out, master.fork(uint64(7_000_000+a*1000+b)),
					vNegCase{idealO: a, idealR: b, openerSat: -1,
						openerShuts: (a+b)%2 == 0, fuel: 400})
			}
		}
	}

	grid := []int64{100, 101, 109, 110, 111, 129, 130, 131, 143, 144, 200,
		253, 1000, 1299, 1300, 1301, 2000, 5000, 12345, 100000, 3000000}
	small := []int64{0, 1, 2, 5, 9, 10, 11, 19, 20, 50, 99}
	// the witness of C17_ratchet_stuck_refuted, replayed on the real code:
	// ideal fees 1 and 5 sat, cap 1000 sat.
	vRunNeg(t, out, master.fork(5_999_999), vNegCase{witness: "stuck",
		idealO: 1, idealR: 5, capO: 1000, capR: 1000, openerSat: -1,
		openerShuts: true, fuel: 60})

	n := vCases(110, 2000)
	for i := 0; i < n; i++ {
		r := master.fork(uint64(6_000_000 + i))
		nc := vNegCase{openerSat: -1, openerShuts: r.bool(), fuel: 400}
		nc.taproot = r.intn(6) == 0
		nc.idealO = grid[r.intn(len(grid))]
		nc.idealR = grid[r.intn(len(grid))]
		switch r.intn(10) {
		case 0, 1: // seeded realistic
			nc.idealO = r.rng(100, 50000)
			nc.idealR = r.rng(100, 50000)
		case 2: // close together: around the 30% / 10% boundaries
			nc.idealR = vPick(r, nc.idealO+nc.idealO*3/10-1,
				nc.idealO+nc.idealO*3/10, nc.idealO+nc.idealO*3/10+1,
				nc.idealO-nc.idealO*3/10-1, nc.idealO-nc.idealO*3/10,
				nc.idealO-nc.idealO*3/10+1, nc.idealO)
			if nc.idealR < 0 {
				nc.idealR = 0
			}
		case 3: // below the 100 sat guard: ratchetFee may be stuck
			nc.idealO = small[r.intn(len(small))]
			nc.idealR = small[r.intn(len(small))]
			nc.fuel = 60
		case 4:
			nc.idealO = small[r.intn(len(small))]
			nc.fuel = 60
		}
		// the opener's cap: default (3x), explicit generous, or at/below
		// the other side's ideal fee
		switch r.intn(6) {
		case 0:
			hi := nc.idealO
			if nc.idealR > hi {
				hi = nc.idealR
			}
			nc.capO = vPick(r, hi, hi+1, hi-1, hi*2, nc.idealO)
			if nc.capO < 0 {
				nc.capO = 0
			}
		case 1:
			nc.capO = 1 << 40
		case 2, 3:
			nc.capO = 1 << 40
			nc.capR = vPick(r, 0, 1, nc.idealR)
		}
		// sometimes the opener can barely afford the fees
		if r.intn(8) == 0 {
			hi := nc.idealO
			if nc.idealR > hi {
				hi = nc.idealR
			}
			nc.openerSat = vPick(r, hi, hi-1, hi/2, nc.idealO, 0, hi+5000)
			if nc.openerSat < 0 {
				nc.openerSat = 0
			}
		}
		vRunNeg(t, out, r, nc)
	}
}
