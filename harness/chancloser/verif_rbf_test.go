//go:build verif

package chancloser

// C17 correspondence harness for the RBF cooperative close state machine
// (rbf_coop_transitions.go / rbf_coop_states.go / rbf_coop_msg_mapper.go).
//
//   rdust/ropret/rest   lnwallet.DustLimitForSize, input.ScriptIsOpReturn and
//                       SimpleCoopFeeEstimator.EstimateFee on grids;
//   rbf   two REAL state machines (the ProcessEvent methods of every state,
//         driven by a synchronous copy of protofsm's applyEvents loop) wired
//         back to back over a REAL lnwallet channel pair: real Environment,
//         real LightningChannel as CloseSigner, real SimpleCoopFeeEstimator,
//         real RbfMsgMapper, real MuSig2 sessions for taproot channels, every
//         message encoded and decoded with lnwire.  A seeded scheduler picks
//         among the enabled actions (user events, post-send events, message
//         deliveries) until nothing is enabled.  Recorded per node: every
//         event fed, the full state after it, every daemon event / observer
//         call; per run: every wallet call, every broadcast transaction with a
//         txscript engine verdict against the funding output.

import (
	"bytes"
	"encoding/hex"
	"errors"
	"fmt"
	"strings"
	"testing"

	"github.com/btcsuite/btcd/blockchain"
	"github.com/btcsuite/btcd/btcec/v2"
	"github.com/btcsuite/btcd/btcutil/v2"
	"github.com/btcsuite/btcd/chaincfg/v2"
	"github.com/btcsuite/btcd/wire/v2"
	"github.com/lightningnetwork/lnd/channeldb"
	"github.com/lightningnetwork/lnd/fn/v2"
	"github.com/lightningnetwork/lnd/input"
	"github.com/lightningnetwork/lnd/lntypes"
	"github.com/lightningnetwork/lnd/lnwallet"
	"github.com/lightningnetwork/lnd/lnwallet/chainfee"
	"github.com/lightningnetwork/lnd/lnwire"
	"github.com/lightningnetwork/lnd/msgmux"
	"github.com/lightningnetwork/lnd/protofsm"
	"github.com/lightningnetwork/lnd/tlv"
)

type vJ = map[string]any

func vHex(b []byte) string { return hex.EncodeToString(b) }

func vDescJ(tx *wire.MsgTx) vJ {
	outs := [][]any{}
	for _, o := range tx.TxOut {
		outs = append(outs, []any{o.Value, vHex(o.PkScript)})
	}
	var seq uint32
	if len(tx.TxIn) == 1 {
		seq = tx.TxIn[0].Sequence
	}
	return vJ{"ver": tx.Version, "seq": seq, "lt": tx.LockTime, "outs": outs}
}

// a descriptor no transaction has: what an unknown signature "signs"
var vNoDesc = vJ{"ver": 0, "seq": 0, "lt": 0, "outs": [][]any{}}

// vRbfRun is the state shared by the two nodes of one run.
type vRbfRun struct {
	t     *testing.T
	sigs  map[string]vJ // signature bytes -> descriptor of the signed tx
	calls []vJ          // every wallet call
	prev  *wire.TxOut

	// A MuSig2 partial signature only exists within its signing session: the
	// closee's partial signature answers ONE closing_complete (it is made with
	// that message's JIT closer nonce).  session: partial sig -> closer nonce of
	// the closing_complete it answers.  While a closing_sig is converted for
	// its receiver, a partial signature of another session than the receiver's
	// latest closing_complete is a signature on nothing (vNoDesc).
	session    map[string]string
	checkFresh bool
	freshFor   string
}

// vCCNonce is the JIT closer nonce of a taproot closing_complete ("" otherwise).
func vCCNonce(m *lnwire.ClosingComplete) string {
	nonce := ""
	for _, o := range []fn.Option[lnwire.PartialSigWithNonce]{
		m.TaprootClosingSigs.CloserNoClosee.ValOpt(),
		m.TaprootClosingSigs.NoCloserClosee.ValOpt(),
		m.TaprootClosingSigs.CloserAndClosee.ValOpt()} {
		o.WhenSome(func(p lnwire.PartialSigWithNonce) { nonce = vHex(p.Nonce[:]) })
	}
	return nonce
}

func vSigKey(sig input.Signature) string {
	if ms, ok := sig.(*lnwallet.MusigPartialSig); ok {
		b := ms.ToWireSig().PartialSig.Sig.Bytes()
		return vHex(b[:])
	}
	ws, err := lnwire.NewSigFromSignature(sig)
	if err != nil {
		return "?"
	}
	return vHex(ws.RawBytes())
}

func vProposalErr(err error) int {
	var re blockchain.RuleError
	switch {
	case err == nil:
		return 0
	case errors.Is(err, lnwallet.ErrChanClosing):
		return 1
	case strings.Contains(err.Error(), "cannot afford"):
		return 2
	case errors.As(err, &re):
		return 3
	}
	return 9
}

// vSigner wraps the real channel and records what was signed.
type vSigner struct {
	run  *vRbfRun
	who  string
	lc   *lnwallet.LightningChannel
	last int // class of the last CreateCloseProposal error

	// closer nonce of the closing_complete being answered ("" if none)
	session string
}

func (s *vSigner) CreateCloseProposal(fee btcutil.Amount, ls, rs []byte,
	opts ...lnwallet.ChanCloseOpt) (input.Signature, *wire.MsgTx,
	btcutil.Amount, error) {

	sig, tx, bal, err := s.lc.CreateCloseProposal(fee, ls, rs, opts...)
	c := vJ{"who": s.who, "fn": "create", "fee": int64(fee), "ls": vHex(ls),
		"rs": vHex(rs), "err": vProposalErr(err)}
	s.last = vProposalErr(err)
	if err == nil {
		c["d"] = vDescJ(tx)
		c["bal"] = int64(bal)
		s.run.sigs[vSigKey(sig)] = vDescJ(tx)
		if _, ok := sig.(*lnwallet.MusigPartialSig); ok {
			s.run.session[vSigKey(sig)] = s.session
		}
	}
	s.run.calls = append(s.run.calls, c)
	return sig, tx, bal, err
}

func (s *vSigner) CompleteCooperativeClose(lsig, rsig input.Signature, ls,
	rs []byte, fee btcutil.Amount, opts ...lnwallet.ChanCloseOpt) (*wire.MsgTx,
	btcutil.Amount, error) {

	tx, bal, err := s.lc.CompleteCooperativeClose(lsig, rsig, ls, rs, fee, opts...)
	c := vJ{"who": s.who, "fn": "complete", "fee": int64(fee), "ls": vHex(ls),
		"rs": vHex(rs), "ok": err == nil}
	if err == nil {
		c["d"] = vDescJ(tx)
		c["bal"] = int64(bal)
	}
	s.run.calls = append(s.run.calls, c)
	return tx, bal, err
}

// vObserver is the ChanStateObserver of one node.
type vObserver struct {
	node  *vRbfNode
	final fn.Option[ShutdownBalances]
}

func (o *vObserver) NoDanglingUpdates() bool    { return true }
func (o *vObserver) DisableIncomingAdds() error { return nil }
func (o *vObserver) DisableOutgoingAdds() error { return nil }
func (o *vObserver) DisableChannel() error      { return nil }
func (o *vObserver) MarkCoopBroadcasted(tx *wire.MsgTx, local bool) error {
	o.node.outs = append(o.node.outs, vJ{"o": "MarkCoop", "d": vDescJ(tx),
		"local": local})
	return nil
}
func (o *vObserver) MarkShutdownSent(addr []byte, ini bool) error {
	o.node.outs = append(o.node.outs, vJ{"o": "MarkShutdown", "scr": vHex(addr),
		"ini": ini})
	return nil
}
func (o *vObserver) FinalBalances() fn.Option[ShutdownBalances] { return o.final }

type vRbfNode struct {
	run    *vRbfRun
	name   string
	env    *Environment
	envJ   vJ
	state  RbfState
	dead   bool
	mapper *RbfMsgMapper
	pub    btcec.PublicKey // our identity as seen by the peer's mapper
	peer   *vRbfNode
	inbox  []lnwire.Message
	posts  []ProtocolEvent
	outs   []vJ // daemon events / observer calls of the event being processed
	steps  []vJ
	bcasts []vJ
	user   []ProtocolEvent // user events still to be injected, in order

	lastCCNonce string // JIT nonce of our latest taproot closing_complete
}

func vValidScript(s []byte) bool {
	return lnwallet.ValidateUpfrontShutdown(s, &chaincfg.RegressionNetParams)
}

func (r *vRbfRun) sigDesc(key string) vJ {
	if d, ok := r.sigs[key]; ok {
		return d
	}
	return vNoDesc
}

func (r *vRbfRun) sigsJ(reg [3]fn.Option[lnwire.Sig],
	tap [3]fn.Option[lnwire.PartialSig]) vJ {

	names := []string{"cnc", "ncc", "cac"}
	out := vJ{}
	for i, n := range names {
		out[n] = nil
		// "the taproot takes precedence if present"
		tap[i].WhenSome(func(p lnwire.PartialSig) {
			b := p.Sig.Bytes()
			out[n] = r.sigDesc(vHex(b[:]))
			if r.checkFresh && r.session[vHex(b[:])] != r.freshFor {
				out[n] = vNoDesc
			}
		})
		if out[n] == nil {
			reg[i].WhenSome(func(s lnwire.Sig) {
				out[n] = r.sigDesc(vHex(s.RawBytes()))
			})
		}
	}
	return out
}

func vPS(o fn.Option[lnwire.PartialSigWithNonce]) fn.Option[lnwire.PartialSig] {
	return fn.MapOption(func(p lnwire.PartialSigWithNonce) lnwire.PartialSig {
		return p.PartialSig
	})(o)
}

func (r *vRbfRun) ccJ(m *lnwire.ClosingComplete) vJ {
	return vJ{"closer": vHex(m.CloserScript), "closee": vHex(m.CloseeScript),
		"fee": int64(m.FeeSatoshis), "lt": m.LockTime,
		"sigs": r.sigsJ([3]fn.Option[lnwire.Sig]{
			m.ClosingSigs.CloserNoClosee.ValOpt(),
			m.ClosingSigs.NoCloserClosee.ValOpt(),
			m.ClosingSigs.CloserAndClosee.ValOpt()},
			[3]fn.Option[lnwire.PartialSig]{
				vPS(m.TaprootClosingSigs.CloserNoClosee.ValOpt()),
				vPS(m.TaprootClosingSigs.NoCloserClosee.ValOpt()),
				vPS(m.TaprootClosingSigs.CloserAndClosee.ValOpt())})}
}

func (r *vRbfRun) csJ(m *lnwire.ClosingSig) vJ {
	return vJ{"closer": vHex(m.CloserScript), "closee": vHex(m.CloseeScript),
		"fee": int64(m.FeeSatoshis), "lt": m.LockTime,
		"sigs": r.sigsJ([3]fn.Option[lnwire.Sig]{
			m.ClosingSigs.CloserNoClosee.ValOpt(),
			m.ClosingSigs.NoCloserClosee.ValOpt(),
			m.ClosingSigs.CloserAndClosee.ValOpt()},
			[3]fn.Option[lnwire.PartialSig]{
				m.TaprootPartialSigs.CloserNoClosee.ValOpt(),
				m.TaprootPartialSigs.NoCloserClosee.ValOpt(),
				m.TaprootPartialSigs.CloserAndClosee.ValOpt()})}
}

func (r *vRbfRun) eventJ(ev ProtocolEvent) vJ {
	switch e := ev.(type) {
	case *SendShutdown:
		var addr any
		e.DeliveryAddr.WhenSome(func(a lnwire.DeliveryAddress) { addr = vHex(a) })
		return vJ{"e": "SendShutdown", "addr": addr, "rate": int64(e.IdealFeeRate)}
	case *ShutdownReceived:
		return vJ{"e": "ShutdownReceived", "scr": vHex(e.ShutdownScript),
			"h": e.BlockHeight, "valid": vValidScript(e.ShutdownScript)}
	case *ShutdownComplete:
		return vJ{"e": "ShutdownComplete"}
	case *ChannelFlushed:
		return vJ{"e": "ChannelFlushed", "l": uint64(e.LocalBalance),
			"r": uint64(e.RemoteBalance)}
	case *SendOfferEvent:
		return vJ{"e": "SendOffer", "rate": int64(e.TargetFeeRate)}
	case *OfferReceivedEvent:
		return vJ{"e": "OfferReceived", "m": r.ccJ(&e.SigMsg),
			"valid": vValidScript(e.SigMsg.CloserScript)}
	case *LocalSigReceived:
		return vJ{"e": "LocalSigReceived", "m": r.csJ(&e.SigMsg)}
	case *SpendEvent:
		return vJ{"e": "Spend"}
	}
	r.t.Fatalf("unknown event %T", ev)
	return nil
}

func vOptRate(o fn.Option[chainfee.SatPerVByte]) any {
	var v any
	o.WhenSome(func(x chainfee.SatPerVByte) { v = int64(x) })
	return v
}

func (r *vRbfRun) earlyJ(o fn.Option[OfferReceivedEvent]) any {
	var v any
	o.WhenSome(func(e OfferReceivedEvent) {
		v = vJ{"m": r.ccJ(&e.SigMsg), "valid": vValidScript(e.SigMsg.CloserScript)}
	})
	return v
}

func vErrClassRbf(err error, lastProposal int) (int, int) {
	s := err.Error()
	switch {
	case errors.Is(err, ErrInvalidStateTransition):
		return 1, 0
	case errors.Is(err, ErrThawHeightNotReached):
		return 2, 0
	case errors.Is(err, ErrInvalidShutdownScript):
		return 3, 0
	case errors.Is(err, ErrUpfrontShutdownScriptMismatch):
		return 4, 0
	case errors.Is(err, ErrWrongLocalScript):
		return 5, 0
	case errors.Is(err, ErrRemoteCannotPay):
		return 6, 0
	case errors.Is(err, ErrCloserNoClosee):
		return 8, 0
	case errors.Is(err, ErrCloserAndClosee):
		return 9, 0
	case errors.Is(err, ErrTooManySigs):
		return 10, 0
	case errors.Is(err, ErrNoSig):
		return 7, 0
	case strings.Contains(s, "create close proposal") ||
		strings.Contains(s, "create closee sig"):
		return 11, lastProposal
	case strings.Contains(s, "complete coop close"):
		return 12, 0
	}
	return 99, 0
}

func (n *vRbfNode) stateJ() vJ {
	r := n.run
	switch s := n.state.(type) {
	case *ChannelActive:
		return vJ{"s": "Active"}
	case *ShutdownPending:
		return vJ{"s": "ShutdownPending", "ideal": vOptRate(s.IdealFeeRate),
			"ls": vHex(s.LocalDeliveryScript), "rs": vHex(s.RemoteDeliveryScript),
			"early": r.earlyJ(s.EarlyRemoteOffer)}
	case *ChannelFlushing:
		return vJ{"s": "Flushing", "ideal": vOptRate(s.IdealFeeRate),
			"ls": vHex(s.LocalDeliveryScript), "rs": vHex(s.RemoteDeliveryScript),
			"early": r.earlyJ(s.EarlyRemoteOffer)}
	case *ClosingNegotiation:
		t := s.CloseChannelTerms
		out := vJ{"s": "Negotiation", "t": vJ{"ls": vHex(t.LocalDeliveryScript),
			"rs": vHex(t.RemoteDeliveryScript), "lb": uint64(t.LocalBalance),
			"rb": uint64(t.RemoteBalance)}}
		switch l := s.PeerState.GetForParty(lntypes.Local).(type) {
		case *LocalCloseStart:
			out["l"] = vJ{"k": "Start"}
		case *LocalOfferSent:
			var key string
			if l.LocalMusigSig.IsSome() {
				ms := l.LocalMusigSig.UnwrapOr(lnwallet.MusigPartialSig{})
				key = vSigKey(&ms)
			} else {
				key = vHex(l.LocalSig.RawBytes())
			}
			out["l"] = vJ{"k": "OfferSent", "fee": int64(l.ProposedFee),
				"d": r.sigDesc(key)}
		case *ClosePending:
			out["l"] = vJ{"k": "Pending", "d": vDescJ(l.CloseTx)}
			if l.Party != lntypes.Local {
				out["l"] = vJ{"k": "Bad", "type": "ClosePending of the wrong party"}
			}
		case *CloseErr:
			out["l"] = vJ{"k": "Err"}
		default:
			// a shape the model does not have: reported as a mismatch
			out["l"] = vJ{"k": "Bad", "type": fmt.Sprintf("%T", l)}
		}
		switch rs := s.PeerState.GetForParty(lntypes.Remote).(type) {
		case *RemoteCloseStart:
			out["r"] = vJ{"k": "Start"}
		case *ClosePending:
			out["r"] = vJ{"k": "Pending", "d": vDescJ(rs.CloseTx)}
			if rs.Party != lntypes.Remote {
				out["r"] = vJ{"k": "Bad", "type": "ClosePending of the wrong party"}
			}
		default:
			out["r"] = vJ{"k": "Bad", "type": fmt.Sprintf("%T", rs)}
		}
		return out
	case *CloseFin:
		return vJ{"s": "Fin"}
	}
	r.t.Fatalf("unknown state %T", n.state)
	return nil
}

// vRoundTrip encodes and decodes a message like the wire does.
func vRoundTrip(t *testing.T, m lnwire.Message) lnwire.Message {
	var b bytes.Buffer
	if _, err := lnwire.WriteMessage(&b, m, 0); err != nil {
		t.Fatalf("WriteMessage(%T): %v", m, err)
	}
	out, err := lnwire.ReadMessage(&b, 0)
	if err != nil {
		t.Fatalf("ReadMessage(%T): %v", m, err)
	}
	return out
}

// feed is protofsm.StateMachine.applyEvents, synchronously: the event, then
// every emitted internal event in FIFO order; daemon events are executed as
// they are emitted; the first error stops the machine.
func (n *vRbfNode) feed(ev ProtocolEvent) {
	r := n.run
	if _, ok := ev.(*LocalSigReceived); ok {
		r.checkFresh, r.freshFor = true, n.lastCCNonce
	}
	evJ := r.eventJ(ev)
	r.checkFresh = false
	n.outs = nil
	var deadJ vJ
	queue := []ProtocolEvent{ev}
	for len(queue) > 0 && !n.dead {
		e := queue[0]
		queue = queue[1:]
		signer := n.env.CloseSigner.(*vSigner)
		signer.last = 0
		signer.session = ""
		if oe, ok := e.(*OfferReceivedEvent); ok {
			signer.session = vCCNonce(&oe.SigMsg)
		}
		tr, err := n.state.ProcessEvent(e, n.env)
		if err != nil {
			n.dead = true
			c, sub := vErrClassRbf(err, signer.last)
			deadJ = vJ{"s": "Dead", "err": c, "perr": sub, "msg": err.Error()}
			break
		}
		tr.NewEvents.WhenSome(func(em RbfEvent) {
			for _, d := range em.ExternalEvents {
				switch de := d.(type) {
				case *protofsm.SendMsgEvent[ProtocolEvent]:
					ok := true
					de.SendWhen.WhenSome(func(p protofsm.SendPredicate) {
						ok = p()
					})
					if !ok {
						r.t.Fatalf("SendWhen false")
					}
					for _, m := range de.Msgs {
						m = vRoundTrip(r.t, m)
						n.peer.inbox = append(n.peer.inbox, m)
						switch mm := m.(type) {
						case *lnwire.Shutdown:
							n.outs = append(n.outs, vJ{"o": "Shutdown",
								"scr": vHex(mm.Address)})
						case *lnwire.ClosingComplete:
							n.lastCCNonce = vCCNonce(mm)
							n.outs = append(n.outs, vJ{
								"o": "ClosingComplete", "m": r.ccJ(mm)})
						case *lnwire.ClosingSig:
							n.outs = append(n.outs, vJ{
								"o": "ClosingSig", "m": r.csJ(mm)})
						default:
							r.t.Fatalf("sent %T", m)
						}
					}
					de.PostSendEvent.WhenSome(func(pe ProtocolEvent) {
						n.posts = append(n.posts, pe)
						n.outs = append(n.outs, vJ{"o": "Post",
							"ev": r.eventJ(pe)})
					})
				case *protofsm.BroadcastTxn:
					n.outs = append(n.outs, vJ{"o": "Broadcast",
						"d": vDescJ(de.Tx)})
					n.bcasts = append(n.bcasts, vJ{"raw": vRawNoWit(de.Tx),
						"full": vRawTx(de.Tx), "d": vDescJ(de.Tx),
						"engine": vEngineOK(de.Tx, r.prev),
						"step": len(n.steps) + 1})
				default:
					r.t.Fatalf("daemon event %T", d)
				}
			}
			queue = append(queue, em.InternalEvent...)
		})
		n.state = tr.NextState
	}
	st := deadJ
	if st == nil {
		st = n.stateJ()
	}
	outs := n.outs
	if outs == nil {
		outs = []vJ{}
	}
	n.steps = append(n.steps, vJ{"ev": evJ, "st": st, "outs": outs})
}

func vRawNoWit(tx *wire.MsgTx) string {
	var b bytes.Buffer
	_ = tx.SerializeNoWitness(&b)
	return vHex(b.Bytes())
}

type vRbfCase struct {
	name      string
	ct        channeldb.ChannelType
	bobSat    int64 // non-opener's commitment balance; -1 = leave
	bobMsat   int64 // extra msat on bob's side (sub-satoshi remainder)
	dustA     int64 // channel dust limits; 0 = leave (200 / 1300)
	dustB     int64
	scrA      []byte
	scrB      []byte
	addrA     bool // pass scrA as SendShutdown.DeliveryAddr (else NewDeliveryScript)
	upA, upB  bool // the script is the party's upfront shutdown script
	badUp     bool // B believes A's upfront script is something else
	thaw      int64
	heightB   uint32 // best height at the receiver
	envHeight uint32 // Environment.BlockHeight (0 in peer/brontide.go)
	shutA     bool
	shutB     bool
	ratesA    []int64 // first = ideal fee rate of SendShutdown, then RBF bumps
	ratesB    []int64
	finalKnown bool // FinalBalances() is Some: flushing state skipped
	adversary int   // 0 none, else kind of malformed message injected
	hasty     bool  // inject a SendOffer while LocalOfferSent
	spend     bool
	script    []string // forced schedule prefix ("A:user", "B:deliver", "B:post", ...)
}

func vScript(r *vrng, kind int) []byte {
	switch kind {
	case 0:
		return append([]byte{0x00, 0x14}, r.bytes(20)...) // P2WPKH, 22
	case 1:
		return append([]byte{0x00, 0x20}, r.bytes(32)...) // P2WSH, 34
	case 2:
		return append([]byte{0x51, 0x20}, r.bytes(32)...) // P2TR, 34
	case 3:
		n := int(r.rng(2, 32)) // future witness version (wire max 34 bytes)
		return append([]byte{byte(0x52 + r.intn(15)), byte(n)}, r.bytes(n)...)
	case 4:
		return append([]byte{0x6a, 0x04}, r.bytes(4)...) // OP_RETURN: not accepted
	case 5:
		return append([]byte{0x76, 0xa9, 0x14}, append(r.bytes(20), 0x88, 0xac)...) // P2PKH
	}
	return []byte{}
}

func vRunRbf(t *testing.T, out *vWriter, r *vrng, c vRbfCase) {
	a, b, err := lnwallet.CreateTestChannels(t, c.ct)
	if err != nil {
		t.Fatalf("CreateTestChannels: %v", err)
	}
	sa, sb := a.State(), b.State()
	if c.bobSat >= 0 {
		total := sa.LocalCommitment.LocalBalance + sa.LocalCommitment.RemoteBalance
		bob := lnwire.NewMSatFromSatoshis(btcutil.Amount(c.bobSat)) +
			lnwire.MilliSatoshi(c.bobMsat)
		if bob > total {
			bob = total
		}
		sa.LocalCommitment.LocalBalance = total - bob
		sa.LocalCommitment.RemoteBalance = bob
		sb.LocalCommitment.LocalBalance = bob
		sb.LocalCommitment.RemoteBalance = total - bob
	}
	if c.dustA > 0 {
		sa.LocalChanCfg.DustLimit = btcutil.Amount(c.dustA)
		sb.RemoteChanCfg.DustLimit = btcutil.Amount(c.dustA)
	}
	if c.dustB > 0 {
		sb.LocalChanCfg.DustLimit = btcutil.Amount(c.dustB)
		sa.RemoteChanCfg.DustLimit = btcutil.Amount(c.dustB)
	}
	run := &vRbfRun{t: t, sigs: map[string]vJ{}, session: map[string]string{},
		prev: a.FundingTxOut(),
		calls: []vJ{}}

	privA, _ := btcec.PrivKeyFromBytes(bytes.Repeat([]byte{0x11}, 32))
	privB, _ := btcec.PrivKeyFromBytes(bytes.Repeat([]byte{0x22}, 32))
	taproot := c.ct.IsTaproot()

	mk := func(name string, lc *lnwallet.LightningChannel, own, peer *btcec.PublicKey,
		scr []byte, useNew bool, upOwn bool, upPeer []byte) *vRbfNode {

		n := &vRbfNode{run: run, name: name, state: &ChannelActive{}, pub: *own,
			steps: []vJ{}, bcasts: []vJ{}}
		st := lc.State()
		obs := &vObserver{node: n}
		if c.finalKnown {
			obs.final = fn.Some(ShutdownBalances{
				LocalBalance:  st.LocalCommitment.LocalBalance,
				RemoteBalance: st.LocalCommitment.RemoteBalance,
			})
		}
		env := &Environment{
			ChainParams:    chaincfg.RegressionNetParams,
			ChanPeer:       *peer,
			ChanPoint:      lc.ChannelPoint(),
			ChanID:         lnwire.NewChanIDFromOutPoint(lc.ChannelPoint()),
			Scid:           lc.ShortChanID(),
			ChanType:       lc.ChanType(),
			BlockHeight:    c.envHeight,
			DefaultFeeRate: chainfee.SatPerVByte(r.rng(1, 30)),
			NewDeliveryScript: func() (lnwire.DeliveryAddress, error) {
				return scr, nil
			},
			FeeEstimator: &SimpleCoopFeeEstimator{},
			ChanObserver: obs,
			CloseSigner:  &vSigner{run: run, who: name, lc: lc},
		}
		envJ := vJ{"height": c.envHeight, "rate": int64(env.DefaultFeeRate),
			"thaw": nil, "lup": nil, "rup": nil, "new": vHex(scr), "final": nil}
		if c.finalKnown {
			envJ["final"] = []uint64{uint64(st.LocalCommitment.LocalBalance),
				uint64(st.LocalCommitment.RemoteBalance)}
		}
		if c.thaw > 0 {
			env.ThawHeight = fn.Some(uint32(c.thaw))
			envJ["thaw"] = c.thaw
		}
		if upOwn {
			env.LocalUpfrontShutdown = fn.Some(lnwire.DeliveryAddress(scr))
			envJ["lup"] = vHex(scr)
		}
		if upPeer != nil {
			env.RemoteUpfrontShutdown = fn.Some(lnwire.DeliveryAddress(upPeer))
			envJ["rup"] = vHex(upPeer)
		}
		if taproot {
			env.LocalMusigSession = &vMusigCloser{channel: lc}
			env.RemoteMusigSession = &vMusigCloser{channel: lc}
		}
		envJ["view"] = vJ{"an": st.ChanType.HasAnchors(), "tap": st.ChanType.IsTaproot(),
			"ini": st.IsInitiator, "lm": uint64(st.LocalCommitment.LocalBalance),
			"rm": uint64(st.LocalCommitment.RemoteBalance),
			"cf": int64(st.LocalCommitment.CommitFee),
			"ld": int64(st.LocalChanCfg.DustLimit),
			"rd": int64(st.RemoteChanCfg.DustLimit), "closed": false}
		n.env, n.envJ = env, envJ
		n.mapper = NewRbfMsgMapper(func() uint32 { return c.heightB },
			env.ChanID, *peer)
		return n
	}
	var upForB, upForA []byte
	if c.upA {
		upForB = c.scrA
		if c.badUp {
			upForB = vScript(r, 0)
		}
	}
	if c.upB {
		upForA = c.scrB
	}
	na := mk("A", a, privA.PubKey(), privB.PubKey(), c.scrA, !c.addrA, c.upA, upForA)
	nb := mk("B", b, privB.PubKey(), privA.PubKey(), c.scrB, true, c.upB, upForB)
	na.peer, nb.peer = nb, na

	// user events, in the order they will be offered to the scheduler
	mkUser := func(n *vRbfNode, shut bool, rates []int64, addr []byte) {
		if shut && len(rates) > 0 {
			ev := &SendShutdown{IdealFeeRate: chainfee.SatPerVByte(rates[0])}
			if addr != nil {
				ev.DeliveryAddr = fn.Some(lnwire.DeliveryAddress(addr))
			}
			n.user = append(n.user, ev)
			rates = rates[1:]
		}
		if !c.finalKnown {
			st := n.env.CloseSigner.(*vSigner).lc.State()
			n.user = append(n.user, &ChannelFlushed{ShutdownBalances: ShutdownBalances{
				LocalBalance:  st.LocalCommitment.LocalBalance,
				RemoteBalance: st.LocalCommitment.RemoteBalance,
			}})
		}
		for _, rt := range rates {
			n.user = append(n.user, &SendOfferEvent{
				TargetFeeRate: chainfee.SatPerVByte(rt)})
		}
		if c.spend {
			n.user = append(n.user, &SpendEvent{Tx: wire.NewMsgTx(2)})
		}
	}
	var addrA []byte
	if c.addrA {
		addrA = c.scrA
	}
	mkUser(na, c.shutA, c.ratesA, addrA)
	mkUser(nb, c.shutB, c.ratesB, nil)

	// is the next user event of n enabled?  (what peer/brontide.go waits for)
	userEnabled := func(n *vRbfNode) bool {
		if n.dead || len(n.user) == 0 {
			return false
		}
		// a local close request is moot once the peer's Shutdown arrived
		if _, ok := n.user[0].(*SendShutdown); ok {
			if _, active := n.state.(*ChannelActive); !active {
				n.user = n.user[1:]
				if len(n.user) == 0 {
					return false
				}
			}
		}
		switch n.user[0].(type) {
		case *SendShutdown:
			return true
		case *ChannelFlushed:
			// chanFlushEventSentinel waits for ChannelFlushing
			_, ok := n.state.(*ChannelFlushing)
			return ok
		case *SendOfferEvent:
			neg, ok := n.state.(*ClosingNegotiation)
			if !ok {
				return false
			}
			_, sent := neg.PeerState.GetForParty(lntypes.Local).(*LocalOfferSent)
			if sent {
				return c.hasty
			}
			return true
		case *SpendEvent:
			// only once everything else is done
			return len(n.inbox) == 0 && len(n.posts) == 0 &&
				len(n.peer.inbox) == 0 && len(n.peer.posts) == 0 &&
				(len(n.peer.user) == 0 || !n.peer.dead &&
					func() bool {
						_, ok := n.peer.user[0].(*SpendEvent)
						return ok
					}())
		}
		return false
	}

	sched := []string{}
	injected := false
	for iter := 0; iter < 400; iter++ {
		type actT struct {
			n    *vRbfNode
			kind int
		}
		acts := []actT{}
		for _, n := range []*vRbfNode{na, nb} {
			if n.dead {
				continue
			}
			if userEnabled(n) {
				acts = append(acts, actT{n, 0})
			}
			if len(n.posts) > 0 {
				acts = append(acts, actT{n, 1})
			}
			if len(n.inbox) > 0 {
				acts = append(acts, actT{n, 2})
			}
		}
		if len(acts) == 0 {
			break
		}
		ac := acts[r.intn(len(acts))]
		if len(c.script) > 0 {
			// the forced prefix: take the scripted action if it is enabled
			kinds := []string{":user", ":post", ":deliver"}
			for _, cand := range acts {
				if cand.n.name+kinds[cand.kind] == c.script[0] {
					ac = cand
					c.script = c.script[1:]
					break
				}
			}
		}
		n := ac.n
		switch ac.kind {
		case 0:
			ev := n.user[0]
			n.user = n.user[1:]
			sched = append(sched, n.name+":user")
			n.feed(ev)
		case 1:
			ev := n.posts[0]
			n.posts = n.posts[1:]
			sched = append(sched, n.name+":post")
			n.feed(ev)
		case 2:
			m := n.inbox[0]
			n.inbox = n.inbox[1:]
			if c.adversary != 0 && !injected {
				if mm, ok := vTamper(r, c.adversary, m, n); ok {
					m = mm
					injected = true
					sched = append(sched, n.name+":tamper")
				}
			}
			evo := n.mapper.MapMsg(msgmux.PeerMsg{Message: m, PeerPub: n.peer.pub})
			if evo.IsNone() {
				t.Fatalf("message %T not mapped", m)
			}
			sched = append(sched, n.name+":deliver")
			evo.WhenSome(func(ev ProtocolEvent) { n.feed(ev) })
		}
	}

	nodeJ := func(n *vRbfNode) vJ {
		return vJ{"env": n.envJ, "steps": n.steps, "bcast": n.bcasts,
			"dead": n.dead, "inbox": len(n.inbox), "posts": len(n.posts),
			"userLeft": len(n.user)}
	}
	out.emit(vJ{"k": "rbf", "name": c.name, "ct": fmt.Sprintf("%d", uint64(c.ct)),
		"tap": taproot, "capacity": int64(sa.Capacity),
		"fundingValue": run.prev.Value, "A": nodeJ(na), "B": nodeJ(nb),
		"calls": run.calls, "sched": sched, "adversary": c.adversary,
		"tampered": injected, "hasty": c.hasty, "envHeight": c.envHeight,
		"badUp": c.badUp, "thaw": c.thaw, "heightB": c.heightB,
		"finalKnown": c.finalKnown, "spend": c.spend})
}

// vTamper rewrites one message in flight (the peer is then not honest).
// kinds: 1 second sig field set, 2 sig moved to another field, 3 wrong closee
// script, 4 fee raised above what was signed, 5 ClosingSig replayed as a
// duplicate, 6 closer script changed (new valid address), 7 sigs removed,
// 8/9 fee set to the closer's balance +1 / +0.
func vTamper(r *vrng, kind int, m lnwire.Message, n *vRbfNode) (lnwire.Message, bool) {
	switch mm := m.(type) {
	case *lnwire.ClosingComplete:
		c := *mm
		tap := c.TaprootClosingSigs.CloserNoClosee.IsSome() ||
			c.TaprootClosingSigs.NoCloserClosee.IsSome() ||
			c.TaprootClosingSigs.CloserAndClosee.IsSome()
		var sig lnwire.Sig
		for _, o := range []fn.Option[lnwire.Sig]{
			c.ClosingSigs.CloserNoClosee.ValOpt(),
			c.ClosingSigs.NoCloserClosee.ValOpt(),
			c.ClosingSigs.CloserAndClosee.ValOpt()} {
			o.WhenSome(func(s lnwire.Sig) { sig = s })
		}
		switch kind {
		case 1:
			if tap {
				return nil, false
			}
			if c.ClosingSigs.CloserAndClosee.IsSome() {
				c.ClosingSigs.CloserNoClosee = newSigTlv[tlv.TlvType1](sig)
			} else {
				c.ClosingSigs.CloserAndClosee = newSigTlv[tlv.TlvType3](sig)
			}
			return &c, true
		case 2:
			if tap {
				return nil, false
			}
			was := 0
			switch {
			case c.ClosingSigs.CloserNoClosee.IsSome():
				was = 1
			case c.ClosingSigs.NoCloserClosee.IsSome():
				was = 2
			default:
				was = 3
			}
			c.ClosingSigs = lnwire.ClosingSigs{}
			switch (was + int(r.rng(0, 1))) % 3 {
			case 0:
				c.ClosingSigs.CloserNoClosee = newSigTlv[tlv.TlvType1](sig)
			case 1:
				c.ClosingSigs.NoCloserClosee = newSigTlv[tlv.TlvType2](sig)
			case 2:
				c.ClosingSigs.CloserAndClosee = newSigTlv[tlv.TlvType3](sig)
			}
			return &c, true
		case 3:
			c.CloseeScript = vScript(r, 0)
			return &c, true
		case 4:
			c.FeeSatoshis += btcutil.Amount(vPick(r, 1, 1000, 1<<40))
			return &c, true
		case 6:
			c.CloserScript = vScript(r, int(r.rng(0, 5)))
			return &c, true
		case 8, 9:
			// the announced fee exactly at (9) / one above (8) the closer's
			// commitment balance: RemoteCanPayFees boundary
			st := n.env.CloseSigner.(*vSigner).lc.State()
			bal := st.LocalCommitment.RemoteBalance.ToSatoshis()
			if kind == 8 {
				bal++
			}
			c.FeeSatoshis = bal
			return &c, true
		case 7:
			if tap {
				return nil, false
			}
			c.ClosingSigs = lnwire.ClosingSigs{}
			return &c, true
		}
	case *lnwire.ClosingSig:
		c := *mm
		switch kind {
		case 5:
			// deliver the ClosingSig twice
			n.inbox = append([]lnwire.Message{&c}, n.inbox...)
			return mm, true
		case 3:
			c.CloserScript = vScript(r, 0)
			return &c, true
		case 1:
			if c.ClosingSigs.CloserAndClosee.IsSome() {
				c.ClosingSigs.CloserNoClosee = newSigTlv[tlv.TlvType1](
					c.ClosingSigs.CloserAndClosee.ValOpt().UnwrapOr(lnwire.Sig{}))
				return &c, true
			}
		}
	}
	return nil, false
}

func vRbfPure(out *vWriter, master *vrng) {
	for n := 0; n <= 80; n++ {
		out.emit(vJ{"k": "rdust", "n": n, "res": int64(lnwallet.DustLimitForSize(n))})
	}
	est := &SimpleCoopFeeEstimator{}
	for i := 0; i < vCases(300, 5000); i++ {
		r := master.fork(uint64(8_000_000 + i))
		s := vScript(r, int(r.rng(0, 6)))
		switch r.intn(8) {
		case 0:
			s = r.bytes(int(r.rng(0, 6)))
		case 1:
			// OP_RETURN + one opcode + data of (nearly) the right length
			op := byte(vPick(r, 0, 1, 2, 40, 74, 75, 0x4f, 0x50, 0x51, 0x60, 0x61,
				0x6a, 0xac))
			n := int64(0)
			if op >= 1 && op <= 75 {
				n = int64(op)
			}
			n += vPick(r, 0, 0, 0, 1, -1)
			if n < 0 {
				n = 0
			}
			s = append([]byte{0x6a, op}, r.bytes(int(n))...)
		case 2:
			// OP_PUSHDATA1/2/4 with lengths around MaxDataCarrierSize
			l := vPick(r, 0, 1, 75, 79, 80, 81, 82, 255)
			dl := l + vPick(r, 0, 0, 0, 1, -1)
			if dl < 0 {
				dl = 0
			}
			d := r.bytes(int(dl))
			switch r.intn(3) {
			case 0:
				s = append([]byte{0x6a, 0x4c, byte(l)}, d...)
			case 1:
				s = append([]byte{0x6a, 0x4d, byte(l), byte(r.intn(2) / 1 * r.intn(2))}, d...)
			default:
				s = append([]byte{0x6a, 0x4e, byte(l), 0, byte(r.intn(4) / 3), 0}, d...)
			}
		case 3:
			s = []byte{0x6a}
		}
		out.emit(vJ{"k": "ropret", "s": vHex(s), "res": input.ScriptIsOpReturn(s)})

		ct := channeldb.SingleFunderTweaklessBit
		tap := r.intn(3) == 0
		if tap {
			ct |= channeldb.AnchorOutputsBit | channeldb.ZeroHtlcTxFeeBit |
				channeldb.SimpleTaprootFeatureBit
		}
		mkOut := func() ([]byte, *wire.TxOut) {
			if r.intn(4) == 0 {
				return nil, nil
			}
			sc := vScript(r, int(r.rng(0, 5)))
			if r.intn(12) == 0 {
				sc = r.bytes(int(vPick(r, 252, 253, 254, 300)))
			}
			return sc, &wire.TxOut{PkScript: sc, Value: r.rng(0, 1e6)}
		}
		ls, lo := mkOut()
		rs, ro := mkOut()
		rate := r.rng(0, 500)
		switch r.intn(8) {
		case 0:
			rate = vPick(r, 1<<40, 1<<53, 1<<60, 9223372036854775, 9223372036854776,
				-1, -7, 1<<62)
		case 1:
			rate = r.rng(0, 1e9)
		}
		fee := est.EstimateFee(ct, lo, ro, chainfee.SatPerVByte(rate).FeePerKWeight())
		row := vJ{"k": "rest", "tap": tap, "lo": nil, "ro": nil, "rate": rate,
			"res": int64(fee)}
		if lo != nil {
			row["lo"] = vHex(ls)
		}
		if ro != nil {
			row["ro"] = vHex(rs)
		}
		out.emit(row)
	}
}

func vRbfChanType(r *vrng) channeldb.ChannelType {
	switch r.intn(6) {
	case 0:
		return channeldb.SingleFunderTweaklessBit
	case 1, 2:
		return channeldb.SingleFunderTweaklessBit | channeldb.AnchorOutputsBit |
			channeldb.ZeroHtlcTxFeeBit
	case 3:
		return channeldb.SingleFunderTweaklessBit | channeldb.AnchorOutputsBit
	}
	return channeldb.SingleFunderTweaklessBit | channeldb.AnchorOutputsBit |
		channeldb.ZeroHtlcTxFeeBit | channeldb.SimpleTaprootFeatureBit
}

func vRbfRandomCase(r *vrng, i int) vRbfCase {
	c := vRbfCase{name: fmt.Sprintf("rand%d", i), ct: vRbfChanType(r), bobSat: -1}
	kinds := []int{0, 0, 1, 2, 2, 3}
	c.scrA = vScript(r, kinds[r.intn(len(kinds))])
	c.scrB = vScript(r, kinds[r.intn(len(kinds))])
	c.addrA = r.bool()
	c.upA = r.intn(5) == 0
	c.upB = r.intn(5) == 0
	if c.upA {
		c.addrA = false
	}
	// channel dust limits: lnd's default (354 both), the test fixture's
	// (200/1300), or the delivery scripts' own
	switch r.intn(4) {
	case 0:
		c.dustA, c.dustB = 354, 354
	case 1:
		c.dustA = int64(lnwallet.DustLimitForSize(len(c.scrA)))
		c.dustB = int64(lnwallet.DustLimitForSize(len(c.scrB)))
	case 2:
		c.dustA, c.dustB = vPick(r, 294, 330, 354, 546), vPick(r, 294, 330, 354, 546)
	}
	// balances: the non-opener (B) small / at the dust boundaries / most of
	// the channel (then the opener A is small)
	edge := []int64{0, 1, 199, 200, 201, 293, 294, 295, 329, 330, 331, 353, 354,
		355, 545, 546, 547, 1299, 1300, 1301}
	total := int64(1_000_000_000) // capacity in sat (10 BTC)
	switch r.intn(8) {
	case 0, 1:
		c.bobSat = edge[r.intn(len(edge))]
	case 2:
		c.bobSat = r.rng(0, 3000)
	case 3:
		// opener small: bob takes almost everything (the opener keeps
		// total - commit fee - bob)
		c.bobSat = total - r.rng(0, 12000) - 9050
		if c.bobSat < 0 {
			c.bobSat = 0
		}
	case 4:
		c.bobSat = r.rng(0, total)
	case 5:
		// exactly at / around the dust limit of B's delivery script
		c.bobSat = int64(lnwallet.DustLimitForSize(len(c.scrB))) + r.rng(-1, 1)
	}
	if c.bobSat >= 0 && r.bool() {
		c.bobMsat = r.rng(0, 999)
	}
	rate := func() int64 {
		switch r.intn(6) {
		case 0:
			return vPick(r, 0, 1, 2, 3)
		case 1:
			return r.rng(1, 2000)
		}
		return r.rng(1, 60)
	}
	nA, nB := int(r.rng(0, 3)), int(r.rng(0, 3))
	switch r.intn(4) {
	case 0:
		c.shutA = true
	case 1:
		c.shutB = true
	default:
		c.shutA, c.shutB = true, true
	}
	if c.shutA {
		nA++
	}
	if c.shutB {
		nB++
	}
	for j := 0; j < nA; j++ {
		c.ratesA = append(c.ratesA, rate())
	}
	for j := 0; j < nB; j++ {
		c.ratesB = append(c.ratesB, rate())
	}
	if r.intn(3) == 0 {
		// increasing fee rates on every bump
		for j := 1; j < len(c.ratesA); j++ {
			c.ratesA[j] = c.ratesA[j-1] + r.rng(1, 20)
		}
	}
	if r.intn(7) == 0 {
		// B's balance exactly at / around the fee of its own first offer
		// (LocalCanPayFees / RemoteCanPayFees boundary)
		rt := r.rng(2, 12)
		lo := &wire.TxOut{PkScript: c.scrB, Value: 1000}
		ro := &wire.TxOut{PkScript: c.scrA, Value: 1000}
		fee := (&SimpleCoopFeeEstimator{}).EstimateFee(c.ct, lo, ro,
			chainfee.SatPerVByte(rt).FeePerKWeight())
		c.bobSat = int64(fee) + r.rng(-1, 1)
		c.bobMsat = vPick(r, 0, 0, 999)
		c.shutB = true
		c.ratesB = []int64{rt, rt}
	}
	c.finalKnown = r.intn(8) == 0
	if r.intn(10) == 0 {
		c.thaw = r.rng(1, 100)
		c.heightB = uint32(vPick(r, c.thaw-1, c.thaw, c.thaw+1, 1000))
	}
	c.spend = r.intn(6) == 0
	return c
}

func TestVerifRbf(t *testing.T) {
	out := vOpenOut()
	defer out.close()
	master := vNewRng(vSeed())

	vRbfPure(out, master)

	// legacy flow: every ordering of the entry events (verif_entry_test.go)
	vEntryCases(t, out, master)

	plain := channeldb.SingleFunderTweaklessBit | channeldb.AnchorOutputsBit |
		channeldb.ZeroHtlcTxFeeBit
	tapCT := plain | channeldb.SimpleTaprootFeatureBit
	fixed := master.fork(8_900_000)
	p2wkh := func() []byte { return vScript(fixed, 0) }

	// ---- named witnesses of theorems / observations (replayed every run)
	// (1) fee NOT monotone: second offer with a lower rate is accepted
	vRunRbf(t, out, fixed.fork(1), vRbfCase{name: "w_fee_decrease", ct: plain,
		bobSat: -1, dustA: 354, dustB: 354, scrA: p2wkh(), scrB: p2wkh(), addrA: true,
		shutA: true, ratesA: []int64{20, 5, 1}})
	// (2) sig field vs outputs: closee balance 300 sat, P2WPKH script (dust
	// 294) but channel dust limit 354: closer_and_closee is announced for a
	// transaction without the closee output
	vRunRbf(t, out, fixed.fork(2), vRbfCase{name: "w_field_mismatch", ct: plain,
		bobSat: 300, dustA: 354, dustB: 354, scrA: p2wkh(), scrB: p2wkh(), addrA: true,
		shutA: true, ratesA: []int64{2}})
	// (3) Environment.BlockHeight != 0: the closer signs locktime 0 but
	// announces BlockHeight; the closee signs the announced locktime
	vRunRbf(t, out, fixed.fork(3), vRbfCase{name: "w_locktime", ct: plain,
		bobSat: -1, dustA: 354, dustB: 354, scrA: p2wkh(), scrB: p2wkh(), addrA: true,
		shutA: true, ratesA: []int64{2}, envHeight: 7})
	// (4) both offer, taproot, three bumps each
	vRunRbf(t, out, fixed.fork(4), vRbfCase{name: "w_taproot_both", ct: tapCT,
		bobSat: -1, scrA: vScript(fixed, 2), scrB: vScript(fixed, 2),
		shutA: true, shutB: true, ratesA: []int64{3, 6, 9}, ratesB: []int64{4, 8, 12}})

	// (4b) EARLY-EVENT orderings, listed (not sampled): the closer's
	// closing_complete reaches the closee before the closee's flush event /
	// before its ShutdownComplete post-send event / with the flush skipped
	// (FinalBalances known) / after simultaneous shutdowns; either role.
	early := [][]string{
		{"A:user", "B:deliver", "B:post", "A:deliver", "A:user", "B:deliver", "B:user"},
		{"A:user", "B:deliver", "A:deliver", "A:user", "B:deliver", "B:post", "B:user"},
		{"A:user", "B:user", "A:deliver", "A:user", "B:deliver", "B:deliver", "B:user"},
		{"B:user", "A:deliver", "A:post", "B:deliver", "B:user", "A:deliver", "A:user"},
		{"B:user", "A:deliver", "B:deliver", "B:user", "A:deliver", "A:post", "A:user"},
		{"A:user", "B:deliver", "B:post", "B:user", "A:deliver", "A:user", "B:deliver"},
	}
	for k, sc := range early {
		for j, ct := range []channeldb.ChannelType{plain, tapCT, plain} {
			vRunRbf(t, out, fixed.fork(uint64(40+10*k+j)), vRbfCase{
				name: fmt.Sprintf("w_early_%d_%d", k, j), ct: ct, bobSat: -1,
				dustA: 354, dustB: 354, scrA: vScript(fixed, 2*(j%2)),
				scrB: vScript(fixed, 2*(j%2)), addrA: true,
				shutA: true, shutB: true, ratesA: []int64{3, 5}, ratesB: []int64{4},
				finalKnown: j == 2, script: append([]string{}, sc...)})
		}
	}

	// (5) RemoteCanPayFees boundary: a closing_complete announcing a fee one
	// above / exactly at the closer's balance
	for k, adv := range []int{8, 9, 8, 9} {
		ct := plain
		if k >= 2 {
			ct = channeldb.SingleFunderTweaklessBit
		}
		vRunRbf(t, out, fixed.fork(uint64(10+k)), vRbfCase{
			name: fmt.Sprintf("w_cannot_pay_%d_%d", adv, k), ct: ct,
			bobSat: int64(2000 + 1000*k), dustA: 354, dustB: 354,
			scrA: p2wkh(), scrB: p2wkh(), addrA: true, shutA: k%2 == 0,
			shutB: true, ratesA: []int64{2}, ratesB: []int64{3}, adversary: adv})
	}

	// (6) every kind of tampered message at least twice (first message of
	// the matching type in flight is rewritten)
	for adv := 1; adv <= 9; adv++ {
		for k := 0; k < 2; k++ {
			vRunRbf(t, out, fixed.fork(uint64(100+10*adv+k)), vRbfCase{
				name: fmt.Sprintf("w_tamper_%d_%d", adv, k), ct: plain,
				bobSat: -1, dustA: 354, dustB: 354,
				scrA: p2wkh(), scrB: vScript(fixed, 1+k), addrA: true,
				shutA: true, shutB: k == 1, ratesA: []int64{2, 4},
				ratesB: []int64{3}, adversary: adv})
		}
	}

	n := vCases(90, 2500)
	for i := 0; i < n; i++ {
		r := master.fork(uint64(9_000_000 + i))
		c := vRbfRandomCase(r, i)
		switch r.intn(12) {
		case 0, 1:
			c.adversary = int(r.rng(1, 9))
		case 2:
			c.hasty = true
		case 3:
			c.badUp = c.upA
		case 4:
			if r.bool() {
				c.scrA = vScript(r, int(r.rng(4, 6)))
				c.addrA, c.upA = true, false
			} else {
				c.scrB = vScript(r, int(r.rng(4, 6)))
				c.upB = false
			}
		}
		vRunRbf(t, out, r, c)
	}
}
