//go:build verif

package peer

// C06 stage "points", peer level: the channel_ready that
// peer.(*Brontide).loadActiveChannels RE-SENDS on (re)connect for an
// ESTABLISHED channel (option-scid-alias negotiated with the peer after the
// channel was opened) and the channel_reestablish it queues itself for a
// channel that cannot be loaded normally, at channel heights 0, 1, k reached by
// real commitment dances on the persisted channel.  Rows have the format of
// harness/lnwallet/verif_points_test.go and are judged by props/c06_points.py.

import (
	"bytes"
	"context"
	"encoding/hex"
	"fmt"
	"testing"

	"github.com/btcsuite/btcd/btcec/v2"
	"github.com/lightningnetwork/lnd/aliasmgr"
	"github.com/lightningnetwork/lnd/channeldb"
	"github.com/lightningnetwork/lnd/chanstate"
	"github.com/lightningnetwork/lnd/input"
	"github.com/lightningnetwork/lnd/lntest/channels"
	"github.com/lightningnetwork/lnd/lnwallet"
	"github.com/lightningnetwork/lnd/lnwire"
)

type vppEvent struct {
	Step       int    `json:"step"`
	Party      string `json:"party"`
	Slot       string `json:"slot"`
	Src        string `json:"src"`
	Sent       bool   `json:"sent"`
	DiskH      uint64 `json:"disk_h"`
	Point      string `json:"point,omitempty"`
	Secret     string `json:"secret,omitempty"`
	NextLocal  uint64 `json:"next_local,omitempty"`
	RemoteTail uint64 `json:"remote_tail,omitempty"`
	PeerSecret string `json:"peer_secret,omitempty"`
	Err        string `json:"err,omitempty"`
}

type vppRow struct {
	Stage    string     `json:"stage"`
	Case     int        `json:"case"`
	Seed     uint64     `json:"seed"`
	Kind     string     `json:"kind"`
	ChanType string     `json:"chan_type"`
	Roots    [2]string  `json:"roots"`
	Ops      []string   `json:"ops"`
	Events   []vppEvent `json:"events"`
	FinalH   [2]uint64  `json:"final_h"`
	// number of channel_ready messages loadActiveChannels must queue for
	// this variant, and how many it did
	WantReady int    `json:"want_ready"`
	GotReady  int    `json:"got_ready"`
	Abort     string `json:"abort,omitempty"`
}

func vppSafe(f func() error) (err error) {
	defer func() {
		if p := recover(); p != nil {
			err = fmt.Errorf("panic: %v", p)
		}
	}()
	return f()
}

func vppRoot(cs *chanstate.OpenChannel) string {
	var b bytes.Buffer
	if err := cs.RevocationProducer.Encode(&b); err != nil {
		return "err:" + err.Error()
	}
	return hex.EncodeToString(b.Bytes())
}

func vppHex(p *btcec.PublicKey) string {
	if p == nil {
		return ""
	}
	return hex.EncodeToString(p.SerializeCompressed())
}

// halfDance: s signs, r receives and revokes, s receives the revocation; r's
// local height and s's remote height advance by one.  Returns r's revocation.
func vppHalfDance(s, r *lnwallet.LightningChannel) (*lnwire.RevokeAndAck,
	error) {

	st, err := s.SignNextCommitment(context.Background())
	if err != nil {
		return nil, err
	}
	if err := r.ReceiveNewCommitment(st.CommitSigs); err != nil {
		return nil, err
	}
	rev, _, _, err := r.RevokeCurrentCommitment()
	if err != nil {
		return nil, err
	}
	if _, _, err := s.ReceiveRevocation(rev); err != nil {
		return rev, err
	}
	return rev, nil
}

func vppCase(t *testing.T, r *vrng, ci int, kind string, dances []int) *vppRow {
	row := &vppRow{Stage: "peer", Case: ci, Seed: vSeed(), Kind: kind,
		ChanType: "tweakless", Ops: []string{}, Events: []vppEvent{}}

	// (the peer test harness does not account for the commitment fee)
	payCommitFee := func(a, b *chanstate.OpenChannel) {
		fee := lnwire.NewMSatFromSatoshis(a.LocalCommitment.CommitFee)
		a.LocalCommitment.LocalBalance -= fee
		a.RemoteCommitment.LocalBalance -= fee
		b.LocalCommitment.RemoteBalance -= fee
		b.RemoteCommitment.RemoteBalance -= fee
	}
	var ctx *peerTestCtx
	err := vppSafe(func() error {
		var err error
		ctx, err = createTestPeerWithChannel(t, payCommitFee)
		return err
	})
	if err != nil {
		row.Abort = "create:" + err.Error()
		return row
	}
	alicePeer := ctx.peer
	chanID := lnwire.NewChanIDFromOutPoint(ctx.channel.ChannelPoint())
	aliceLoaded, ok := alicePeer.activeChannels.Load(chanID)
	if !ok {
		row.Abort = "no active channel"
		return row
	}
	aliceKeyPriv, _ := btcec.PrivKeyFromBytes(channels.AlicesPrivKey)
	bobKeyPriv, _ := btcec.PrivKeyFromBytes(channels.BobsPrivKey)
	newChan := func(key *btcec.PrivateKey,
		old *lnwallet.LightningChannel) (*lnwallet.LightningChannel,
		error) {

		signer := input.NewMockSigner([]*btcec.PrivateKey{key}, nil)
		sigPool := lnwallet.NewSigPool(1, signer)
		if err := sigPool.Start(); err != nil {
			return nil, err
		}
		t.Cleanup(func() { _ = sigPool.Stop() })
		return lnwallet.NewLightningChannel(signer, old.State(), sigPool)
	}
	aliceChan, err := newChan(aliceKeyPriv, aliceLoaded)
	if err != nil {
		row.Abort = "newchan a:" + err.Error()
		return row
	}
	bobChan, err := newChan(bobKeyPriv, ctx.channel)
	if err != nil {
		row.Abort = "newchan b:" + err.Error()
		return row
	}
	row.Roots = [2]string{vppRoot(aliceChan.State()), vppRoot(bobChan.State())}
	ch := [2]*lnwallet.LightningChannel{aliceChan, bobChan}
	names := [2]string{"a", "b"}

	// channel_ready exchange (funding.sendChannelReady: NextRevocationKey
	// at height 0)
	for p := 0; p < 2; p++ {
		pt, err := ch[p].NextRevocationKey()
		e := vppEvent{Party: names[p], Slot: "channel_ready",
			Src: "funding_next_rev_key", Sent: true, Point: vppHex(pt)}
		if err != nil {
			e.Err = err.Error()
		} else if err := ch[1-p].InitNextRevocation(pt); err != nil {
			row.Abort = "initnext:" + err.Error()
			return row
		}
		row.Events = append(row.Events, e)
	}
	step := 0
	for _, s := range dances {
		step++
		row.Ops = append(row.Ops, "halfdance signer="+names[s])
		var rev *lnwire.RevokeAndAck
		err := vppSafe(func() error {
			var err error
			rev, err = vppHalfDance(ch[s], ch[1-s])
			return err
		})
		if rev != nil {
			row.Events = append(row.Events, vppEvent{Step: step,
				Party: names[1-s], Slot: "revoke_and_ack",
				Src: "fresh", Sent: true,
				DiskH: ch[1-s].State().LocalCommitment.CommitHeight,
				Secret: hex.EncodeToString(rev.Revocation[:]),
				Point:  vppHex(rev.NextRevocationKey)})
		}
		if err != nil {
			row.Abort = "dance:" + err.Error()
			return row
		}
	}
	step++

	// The peer (re)connects.
	aliasFeatures := func() *lnwire.FeatureVector {
		return lnwire.NewFeatureVector(
			lnwire.NewRawFeatureVector(lnwire.ScidAliasOptional),
			lnwire.Features,
		)
	}
	if kind != "not_negotiated" {
		alicePeer.remoteFeatures = aliasFeatures()
		alicePeer.cfg.Features = aliasFeatures()
	}
	alias := lnwire.NewShortChanIDFromInt(16_000_000<<40 | uint64(ci+1))
	alicePeer.cfg.RequestAlias = func() (lnwire.ShortChannelID, error) {
		return alias, nil
	}
	alicePeer.cfg.AddLocalAlias = func(_, _ lnwire.ShortChannelID, _,
		_ bool, _ ...aliasmgr.AddLocalAliasOption) error {

		return nil
	}
	fetch := func() (*chanstate.OpenChannel, error) {
		dbChans, err := alicePeer.cfg.ChannelDB.FetchOpenChannels(
			aliceLoaded.State().IdentityPub,
		)
		if err != nil {
			return nil, err
		}
		if len(dbChans) != 1 {
			return nil, fmt.Errorf("%d channels", len(dbChans))
		}
		return dbChans[0], nil
	}
	if kind == "has_feature" {
		// the channel already carries the feature bit (alias
		// negotiated at open / on an earlier connection)
		c0, err := fetch()
		if err == nil {
			err = c0.MarkScidAliasNegotiated()
		}
		if err != nil {
			row.Abort = "markscid:" + err.Error()
			return row
		}
		row.Ops = append(row.Ops, "mark_scid_alias")
	}
	dbChan, err := fetch()
	if err != nil {
		row.Abort = "fetch:" + err.Error()
		return row
	}
	row.FinalH = [2]uint64{dbChan.LocalCommitment.CommitHeight,
		bobChan.State().LocalCommitment.CommitHeight}
	if kind == "alias_upgrade" &&
		(dbChan.ChanType.HasScidAliasFeature() || dbChan.IsPending ||
			!alicePeer.hasNegotiatedScidAlias()) {

		row.Abort = "precondition of the alias upgrade path not met"
		return row
	}
	if kind == "alias_upgrade" {
		row.WantReady = 1
	}
	// The unit-test peer has no graph / chain arbitrator to attach a link
	// to: flag the channel so that loadActiveChannels, AFTER it has queued
	// the channel_ready, only queues a channel_reestablish for it.
	if err := dbChan.ApplyChanStatus(channeldb.ChanStatusBorked); err != nil {
		row.Abort = "borked:" + err.Error()
		return row
	}
	row.Ops = append(row.Ops, "connect "+kind)
	var msgs []lnwire.Message
	err = vppSafe(func() error {
		var err error
		msgs, err = alicePeer.loadActiveChannels(
			[]*chanstate.OpenChannel{dbChan},
		)
		return err
	})
	if err != nil {
		row.Abort = "loadActiveChannels:" + err.Error()
		return row
	}
	diskH := row.FinalH[0]
	for _, m := range msgs {
		switch msg := m.(type) {
		case *lnwire.ChannelReady:
			row.GotReady++
			e := vppEvent{Step: step, Party: "a", Slot: "channel_ready",
				Src: "peer_loadActiveChannels", Sent: true,
				DiskH: diskH,
				Point: vppHex(msg.NextPerCommitmentPoint)}
			if msg.ChanID != chanID {
				e.Err = "wrong channel id"
			}
			row.Events = append(row.Events, e)
		case *lnwire.ChannelReestablish:
			row.Events = append(row.Events, vppEvent{Step: step,
				Party: "a", Slot: "reestablish",
				Src: "peer_loadActiveChannels", Sent: true,
				DiskH: diskH,
				Point: vppHex(msg.LocalUnrevokedCommitPoint),
				NextLocal:  msg.NextLocalCommitHeight,
				RemoteTail: msg.RemoteCommitTailHeight,
				PeerSecret: hex.EncodeToString(
					msg.LastRemoteCommitSecret[:],
				)})
		}
	}
	return row
}

func TestVerifPeerPoints(t *testing.T) {
	out := vOpenOut()
	defer out.close()
	root := vNewRng(vSeed())
	n := vCases(26, 300)
	first := int(vEnvInt("VERIF_FIRST_CASE", 0))
	// enumerated part: alias upgrade at every pair (alice height, bob
	// height) in {0,1,2,3}x{0,1}, then random longer histories and the
	// negative variants
	type spec struct {
		kind   string
		dances []int
	}
	var specs []spec
	for ha := 0; ha <= 3; ha++ {
		for hb := 0; hb <= 1; hb++ {
			var d []int
			for i := 0; i < hb; i++ {
				d = append(d, 0) // a signs: b's height +1
			}
			for i := 0; i < ha; i++ {
				d = append(d, 1) // b signs: a's height +1
			}
			specs = append(specs, spec{"alias_upgrade", d})
		}
	}
	for ci := 0; ci < first+n; ci++ {
		r := root.fork(uint64(ci))
		var sp spec
		if ci < len(specs) {
			sp = specs[ci]
		} else {
			k := r.intn(14)
			if r.intn(5) == 0 {
				k = 20 + r.intn(30)
			}
			d := make([]int, k)
			for i := range d {
				d[i] = r.intn(2)
			}
			kind := "alias_upgrade"
			switch r.intn(6) {
			case 0:
				kind = "has_feature"
			case 1:
				kind = "not_negotiated"
			}
			sp = spec{kind, d}
		}
		if ci < first {
			continue
		}
		out.emit(vppCase(t, r, ci, sp.kind, sp.dances))
	}
}
