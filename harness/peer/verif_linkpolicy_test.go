//go:build verif

package peer

// C09 "policy provenance", link creation: the ForwardingPolicy a link is
// CREATED with (peer start-up / reconnect: Brontide.loadActiveChannels ->
// addLink -> Switch.CreateAndAddLink) must be, field by field, our own
// advertised edge policy of that channel in the graph (whichever side of the
// edge we are), and the configured default only if we have not advertised one.
//
// The REAL Brontide.loadActiveChannels runs over lnd's peer test fixture (real
// channel state in a real channel db) with a REAL graph db holding the
// channel edge and both directed policies (ours and, with different values,
// the remote's).  The switch is a capturing messageSwitch: the
// ChannelLinkConfig handed to CreateAndAddLink is recorded, and a real
// htlcswitch link is built from exactly that config to run boundary HTLCs
// through CheckHtlcForward (recorded against the ADVERTISED policy).
//
// Scaffolding (trusted): the chain arbitrator is an empty
// contractcourt.ChainArbitrator whose watcher table gets one blank watcher for
// the channel (by reflection), so that SubscribeChannelEvents succeeds; it
// plays no role in the policy.

import (
	"bufio"
	"bytes"
	"context"
	"fmt"
	"math/big"
	"os"
	"reflect"
	"testing"
	"time"
	"unsafe"

	"github.com/btcsuite/btcd/btcec/v2"
	"github.com/btcsuite/btcd/chaincfg/v2"
	"github.com/lightningnetwork/lnd/chanstate"
	"github.com/lightningnetwork/lnd/contractcourt"
	"github.com/lightningnetwork/lnd/fn/v2"
	graphdb "github.com/lightningnetwork/lnd/graph/db"
	"github.com/lightningnetwork/lnd/graph/db/models"
	"github.com/lightningnetwork/lnd/htlcswitch"
	"github.com/lightningnetwork/lnd/lnwallet"
	"github.com/lightningnetwork/lnd/lnwire"
	"github.com/lightningnetwork/lnd/routing/route"
)

type vLPPol struct {
	Min   uint64 `json:"min"`
	Max   uint64 `json:"max"`
	Base  uint64 `json:"base"`
	Rate  uint64 `json:"rate"`
	Delta uint32 `json:"delta"`
	HasIn bool   `json:"has_inbound"`
	IBase int32  `json:"ibase"`
	IRate int32  `json:"irate"`
}

type vLPRow struct {
	Kind      string  `json:"kind"` // linkcreate
	Scenario  string  `json:"scenario"`
	WeAreNode int     `json:"we_are_node"` // 1 or 2
	HaveOwn   bool    `json:"have_own_policy"`
	Own       *vLPPol `json:"own"`    // our advertised policy (nil: none)
	Remote    *vLPPol `json:"remote"` // the peer's advertised policy
	Default   vLPPol  `json:"default"`
	Created   vLPPol  `json:"created"` // FwrdingPolicy of the config handed to the switch
	Links     int     `json:"links"`
	Err       string  `json:"err"`
}

// vLPCase is the row format of harness/htlcswitch/verif_policy_test.go.
type vLPCase struct {
	Case    int    `json:"case"`
	Kind    string `json:"kind"`
	Cls     string `json:"cls"`
	Min     uint64 `json:"min"`
	Max     uint64 `json:"max"`
	Base    uint64 `json:"base"`
	Rate    uint64 `json:"rate"`
	Delta   uint32 `json:"delta"`
	Rej     uint32 `json:"rej"`
	MaxCltv uint32 `json:"maxcltv"`
	ChanBw  uint64 `json:"chanbw"`
	Aux     int    `json:"aux"`
	AuxBw   uint64 `json:"auxbw"`
	Custom  bool   `json:"custom"`
	UpdOk   bool   `json:"updok"`
	In      uint64 `json:"in"`
	Out     uint64 `json:"out"`
	InExp   uint32 `json:"inexp"`
	OutExp  uint32 `json:"outexp"`
	IBase   int32  `json:"ibase"`
	IRate   int32  `json:"irate"`
	Height  uint32 `json:"height"`
	Code    int    `json:"code"`
	Detail  int    `json:"detail"`
	Name    string `json:"name"`
	Arg     uint64 `json:"arg"`

	Prov  string `json:"prov"`
	Probe string `json:"probe"`
}

func vLPClassify(le *htlcswitch.LinkError) (int, int, string, uint64) {
	if le == nil {
		return 0, 0, "nil", 0
	}
	msg := le.WireMessage()
	name := fmt.Sprintf("%T", msg)
	detail := 9
	switch le.FailureDetail {
	case nil:
		detail = 0
	case htlcswitch.OutgoingFailureHTLCExceedsMax:
		detail, name = 1, name+"/ExceedsMax"
	case htlcswitch.OutgoingFailureInsufficientBalance:
		detail, name = 2, name+"/InsufficientBalance"
	default:
		name += fmt.Sprintf("/%v", le.FailureDetail)
	}
	switch m := msg.(type) {
	case *lnwire.FailFeeInsufficient:
		return 1, detail, name, uint64(m.HtlcMsat)
	case *lnwire.FailAmountBelowMinimum:
		return 2, detail, name, uint64(m.HtlcMsat)
	case *lnwire.FailTemporaryChannelFailure:
		return 3, detail, name, 0
	case *lnwire.FailExpiryTooSoon:
		return 4, detail, name, 0
	case *lnwire.FailExpiryTooFar:
		return 5, detail, name, 0
	case *lnwire.FailIncorrectCltvExpiry:
		return 6, detail, name, uint64(m.CltvExpiry)
	case *lnwire.FailTemporaryNodeFailure:
		return 7, detail, name, 0
	}

	return 8, detail, name, 0
}

func vLPOfFwd(f models.ForwardingPolicy) vLPPol {
	return vLPPol{
		Min: uint64(f.MinHTLCOut), Max: uint64(f.MaxHTLC), Base: uint64(f.BaseFee),
		Rate: uint64(f.FeeRate), Delta: f.TimeLockDelta,
		HasIn: f.InboundFee != models.InboundFee{}, IBase: f.InboundFee.Base,
		IRate: f.InboundFee.Rate,
	}
}

// vLPSwitch captures what the peer hands to the switch.
type vLPSwitch struct {
	mockMessageSwitch
	cfgs  []htlcswitch.ChannelLinkConfig
	chans []*lnwallet.LightningChannel
}

func (s *vLPSwitch) CreateAndAddLink(cfg htlcswitch.ChannelLinkConfig,
	lnChan *lnwallet.LightningChannel) error {

	s.cfgs = append(s.cfgs, cfg)
	s.chans = append(s.chans, lnChan)

	return nil
}

// vLPArb: an empty chain arbitrator that "watches" chanPoint.
func vLPArb(t *testing.T, cp any, dbChan *chanstate.OpenChannel) *contractcourt.ChainArbitrator {
	arb := contractcourt.NewChainArbitrator(contractcourt.ChainArbitratorConfig{}, nil)
	f := reflect.ValueOf(arb).Elem().FieldByName("activeWatchers")
	if !f.IsValid() {
		t.Fatalf("ChainArbitrator.activeWatchers not found")
	}
	f = reflect.NewAt(f.Type(), unsafe.Pointer(f.UnsafeAddr())).Elem()
	if f.IsNil() {
		f.Set(reflect.MakeMap(f.Type()))
	}
	w := reflect.New(f.Type().Elem().Elem())
	subs := w.Elem().FieldByName("clientSubscriptions")
	if subs.IsValid() {
		subs = reflect.NewAt(subs.Type(), unsafe.Pointer(subs.UnsafeAddr())).Elem()
		subs.Set(reflect.MakeMap(subs.Type()))
	}
	cs := w.Elem().FieldByName("cfg").FieldByName("chanState")
	if !cs.IsValid() {
		t.Fatalf("chainWatcher.cfg.chanState not found")
	}
	cs = reflect.NewAt(cs.Type(), unsafe.Pointer(cs.UnsafeAddr())).Elem()
	cs.Set(reflect.ValueOf(dbChan))
	f.SetMapIndex(reflect.ValueOf(cp), w)

	return arb
}

type vLPSpec struct {
	name    string
	node    int  // which node of the edge we are
	haveOwn bool // our policy is in the graph
	own     vLPPol
	remote  vLPPol
}

func vLPEdgePolicy(chanID uint64, dir uint8, to [33]byte, p vLPPol,
	ts time.Time) *models.ChannelEdgePolicy {

	e := &models.ChannelEdgePolicy{
		Version:                   lnwire.GossipVersion1,
		SigBytes:                  bytes.Repeat([]byte{1}, 64),
		ChannelID:                 chanID,
		LastUpdate:                ts,
		MessageFlags:              lnwire.ChanUpdateRequiredMaxHtlc,
		ChannelFlags:              lnwire.ChanUpdateChanFlags(dir),
		TimeLockDelta:             uint16(p.Delta),
		MinHTLC:                   lnwire.MilliSatoshi(p.Min),
		MaxHTLC:                   lnwire.MilliSatoshi(p.Max),
		FeeBaseMSat:               lnwire.MilliSatoshi(p.Base),
		FeeProportionalMillionths: lnwire.MilliSatoshi(p.Rate),
		ToNode:                    to,
	}
	if p.HasIn {
		fee := lnwire.Fee{BaseFee: p.IBase, FeeRate: p.IRate}
		e.InboundFee = fn.Some(fee)
		if err := e.ExtraOpaqueData.PackRecords(&fee); err != nil {
			panic(err)
		}
	}

	return e
}

var vLPMillion = big.NewInt(1000000)

func vLPIn(c *vLPCase, d int64) {
	out := new(big.Int).SetUint64(c.Out)
	f := new(big.Int).Mul(out, new(big.Int).SetUint64(c.Rate))
	f.Div(f, vLPMillion)
	f.Add(f, new(big.Int).SetUint64(c.Base))
	a := new(big.Int).Add(out, f)
	p := new(big.Int).Mul(big.NewInt(int64(c.IRate)), a)
	p.Quo(p, vLPMillion)
	p.Add(p, big.NewInt(int64(c.IBase)))
	p.Add(p, f)
	if p.Sign() < 0 {
		p.SetInt64(0)
	}
	p.Add(p, out)
	p.Add(p, big.NewInt(d))
	if p.Sign() < 0 {
		p.SetInt64(0)
	}
	c.In = p.Uint64()
}

func vLPRun(t *testing.T, out *vWriter, caseNo *int, sp vLPSpec, def models.ForwardingPolicy) {
	row := vLPRow{Kind: "linkcreate", Scenario: sp.name, WeAreNode: sp.node,
		HaveOwn: sp.haveOwn, Default: vLPOfFwd(def)}
	rem := sp.remote
	row.Remote = &rem
	if sp.haveOwn {
		own := sp.own
		row.Own = &own
	}
	emit := func(f string, a ...any) {
		row.Err = fmt.Sprintf(f, a...)
		out.emit(row)
	}
	// The fixture draws the channel reserve at random (bandwidth 0): give the
	// channel a usable balance so that the boundary HTLCs are decided by the
	// policy and not by InsufficientBalance.
	ctx, err := createTestPeerWithChannel(t, func(a, b *chanstate.OpenChannel) {
		for _, st := range []*chanstate.OpenChannel{a, b} {
			st.LocalChanCfg.ChanReserve = 1000
			st.RemoteChanCfg.ChanReserve = 1000
			st.LocalChanCfg.MaxAcceptedHtlcs = 100
			st.RemoteChanCfg.MaxAcceptedHtlcs = 100
		}
	})
	if err != nil {
		emit("fixture: %v", err)
		return
	}
	p := ctx.peer
	p.remoteFeatures = lnwire.EmptyFeatureVector()
	graph := graphdb.MakeTestGraph(t)
	if err := graph.Start(); err != nil {
		emit("graph: %v", err)
		return
	}
	defer func() { _ = graph.Stop() }()
	sw := &vLPSwitch{}
	p.cfg.ChannelGraph = graph
	p.cfg.Switch = sw
	p.cfg.RoutingPolicy = def
	p.cfg.OutgoingCltvRejectDelta = 3
	p.cfg.MaxOutgoingCltvExpiry = 2016

	// our key and the peer's key, ordered as the scenario wants
	var us, them [33]byte
	copy(them[:], p.IdentityKey().SerializeCompressed())
	for i := 1; ; i++ {
		priv, _ := btcec.PrivKeyFromBytes(bytes.Repeat([]byte{byte(i)}, 32))
		copy(us[:], priv.PubKey().SerializeCompressed())
		if (bytes.Compare(us[:], them[:]) < 0) == (sp.node == 1) {
			break
		}
	}
	p.cfg.ServerPubKey = us
	n1, n2 := us, them
	if sp.node == 2 {
		n1, n2 = them, us
	}

	lnChan := ctx.channel // replaced below by our side of the channel
	var dbChan *chanstate.OpenChannel
	p.activeChannels.Range(func(_ lnwire.ChannelID, c *lnwallet.LightningChannel) bool {
		lnChan, dbChan = c, c.State()
		return false
	})
	if dbChan == nil {
		emit("no active channel in fixture")
		return
	}
	cp := dbChan.FundingOutpoint
	p.cfg.ChainArb = vLPArb(t, cp, dbChan)
	chanID := dbChan.ShortChanID().ToUint64()
	info, err := models.NewV1Channel(chanID, *chaincfg.MainNetParams.GenesisHash,
		route.Vertex(n1), route.Vertex(n2),
		&models.ChannelV1Fields{BitcoinKey1Bytes: route.Vertex(n1), BitcoinKey2Bytes: route.Vertex(n2)},
		models.WithChannelPoint(cp), models.WithCapacity(dbChan.Capacity))
	if err != nil {
		emit("edge info: %v", err)
		return
	}
	bg := context.Background()
	if err := graph.AddChannelEdge(bg, info); err != nil {
		emit("add edge: %v", err)
		return
	}
	ts := time.Unix(1700000000, 0)
	// direction 0 = node1's policy, direction 1 = node2's policy
	ownDir, remDir, ownTo, remTo := uint8(0), uint8(1), n2, n1
	if sp.node == 2 {
		ownDir, remDir, ownTo, remTo = 1, 0, n1, n2
	}
	if err := graph.UpdateEdgePolicy(bg, vLPEdgePolicy(chanID, remDir, remTo, sp.remote, ts)); err != nil {
		emit("remote policy: %v", err)
		return
	}
	if sp.haveOwn {
		err := graph.UpdateEdgePolicy(bg, vLPEdgePolicy(chanID, ownDir, ownTo, sp.own, ts.Add(time.Second)))
		if err != nil {
			emit("own policy: %v", err)
			return
		}
	}

	_, err = p.loadActiveChannels([]*chanstate.OpenChannel{dbChan})
	if err != nil {
		emit("loadActiveChannels: %v", err)
		return
	}
	row.Links = len(sw.cfgs)
	if len(sw.cfgs) != 1 {
		emit("expected one link, got %d", len(sw.cfgs))
		return
	}
	cfg := sw.cfgs[0]
	row.Created = vLPOfFwd(cfg.FwrdingPolicy)
	out.emit(row)

	// ---- boundary HTLCs on a real link built from exactly that config,
	// recorded against the policy that is ADVERTISED (ours, or the default)
	adv := row.Default
	if sp.haveOwn {
		adv = sp.own
	}
	cfg.FailAliasUpdate = func(lnwire.ShortChannelID, bool) *lnwire.ChannelUpdate1 { return nil }
	cfg.FetchLastChannelUpdate = func(lnwire.ShortChannelID) (*lnwire.ChannelUpdate1, error) {
		return &lnwire.ChannelUpdate1{}, nil
	}
	link := htlcswitch.NewChannelLink(cfg, lnChan)
	const height = uint32(800000)
	mid := uint64(1000000)
	if mid < adv.Min {
		mid = adv.Min
	}
	if adv.Max != 0 && mid > adv.Max {
		mid = adv.Max
	}
	type pr struct {
		label  string
		out    uint64
		fd, dd int64
	}
	ps := []pr{{"min", adv.Min, 0, 0}, {"max", adv.Max, 0, 0}, {"max+1", adv.Max + 1, 0, 0},
		{"fee-1", mid, -1, 0}, {"fee", mid, 0, 0}, {"delta-1", mid, 0, -1},
		{"remote-min", sp.remote.Min, 0, 0}, {"remote-max+1", sp.remote.Max + 1, 0, 0}}
	if adv.Min > 1 {
		ps = append(ps, pr{"min-1", adv.Min - 1, 0, 0})
	}
	for _, q := range ps {
		if q.out == 0 {
			continue
		}
		*caseNo++
		k := &vLPCase{Case: *caseNo, Kind: "fwd", Cls: "linkcreate:" + q.label,
			Min: adv.Min, Max: adv.Max, Base: adv.Base, Rate: adv.Rate, Delta: adv.Delta,
			Rej: 3, MaxCltv: 2016, ChanBw: uint64(link.Bandwidth()), UpdOk: true,
			Out: q.out, OutExp: height + 100, IBase: -321, IRate: 77, Height: height,
			Prov: sp.name, Probe: q.label}
		k.InExp = uint32(int64(k.OutExp) + int64(adv.Delta) + q.dd)
		vLPIn(k, q.fd)
		le := link.CheckHtlcForward([32]byte{1}, lnwire.MilliSatoshi(k.In),
			lnwire.MilliSatoshi(k.Out), k.InExp, k.OutExp,
			models.InboundFee{Base: k.IBase, Rate: k.IRate}, height,
			lnwire.ShortChannelID{}, nil)
		k.Code, k.Detail, k.Name, k.Arg = vLPClassify(le)
		out.emit(k)
	}
}

func TestVerifLinkPolicyFromGraph(t *testing.T) {
	p := os.Getenv("VERIF_OUT")
	if p == "" {
		p = os.DevNull
	}
	f, err := os.Create(p)
	if err != nil {
		t.Fatal(err)
	}
	out := &vWriter{f: f, w: bufio.NewWriterSize(f, 1<<16)}
	defer out.close()

	r := vNewRng(vSeed()).fork(707)
	def := models.ForwardingPolicy{MinHTLCOut: 1000, MaxHTLC: 0, BaseFee: 1000, FeeRate: 1,
		TimeLockDelta: 80}
	pol := func(i int) vLPPol {
		q := vLPPol{
			Min:   []uint64{2000, 1, 5000, 7777}[r.intn(4)] + uint64(i),
			Max:   []uint64{400000000, 100000000, 250000000}[r.intn(3)] + uint64(i),
			Base:  []uint64{0, 500, 1234}[r.intn(3)] + uint64(i),
			Rate:  []uint64{0, 10, 2500}[r.intn(3)] + uint64(i),
			Delta: []uint32{18, 40, 144}[r.intn(3)] + uint32(i),
		}

		return q
	}
	caseNo := 4000000
	i := 0
	for _, node := range []int{1, 2} {
		for _, haveOwn := range []bool{true, false} {
			for _, inb := range []int{0, 1, 2} {
				if !haveOwn && inb != 0 {
					continue
				}
				i++
				sp := vLPSpec{node: node, haveOwn: haveOwn, own: pol(i), remote: pol(100 + i)}
				switch inb {
				case 1:
					sp.own.HasIn, sp.own.IBase, sp.own.IRate = true, -500, -100
					sp.remote.HasIn, sp.remote.IBase, sp.remote.IRate = true, 900, 90
				case 2:
					sp.own.HasIn, sp.own.IBase, sp.own.IRate = true, 300, 25
				}
				sp.name = fmt.Sprintf("node%d/own=%v/inbound=%d", node, haveOwn, inb)
				vLPRun(t, out, &caseNo, sp, def)
			}
		}
	}
}
