//go:build verif

package tlv

// C10 correspondence harness for the tlv module: drives the real
// ReadVarInt/WriteVarInt and Stream.Decode/DecodeP2P/Encode on structure-aware
// byte strings (valid streams, non-minimal varints, out-of-order / duplicate
// types, truncations, oversize lengths, wrong lengths for known records, raw
// random bytes) and writes every observable to VERIF_OUT.  The Coq model
// (Wire/Exec.v) is evaluated on the same inputs.

import (
	"bytes"
	"encoding/hex"
	"errors"
	"io"
	"math"
	"os"
	"sort"
	"strconv"
	"sync"
	"testing"
)

func vhx(b []byte) string { return hex.EncodeToString(b) }

func vErrCode(err error) int {
	var te ErrTypeForDecoding
	switch {
	case err == nil:
		return 0
	case err == io.EOF:
		return 1
	case err == io.ErrUnexpectedEOF:
		return 2
	case errors.Is(err, ErrVarIntNotCanonical):
		return 3
	case errors.Is(err, ErrStreamNotCanonical):
		return 4
	case errors.Is(err, ErrRecordTooLarge):
		return 5
	case errors.As(err, &te):
		return 6
	case errors.Is(err, ErrTUintNotMinimal):
		return 7
	case err.Error() == "corrupted data":
		return 8
	}
	return 9
}

// ---- an independent encoder used only to BUILD inputs ----

// vPutVarint appends v using the width class w (0 = minimal, 1/3/5/9 = forced
// total width, possibly non-minimal).
func vPutVarint(dst []byte, v uint64, w int) []byte {
	if w == 0 {
		switch {
		case v < 0xfd:
			w = 1
		case v <= 0xffff:
			w = 3
		case v <= 0xffffffff:
			w = 5
		default:
			w = 9
		}
	}
	switch w {
	case 1:
		return append(dst, byte(v))
	case 3:
		return append(dst, 0xfd, byte(v>>8), byte(v))
	case 5:
		return append(dst, 0xfe, byte(v>>24), byte(v>>16), byte(v>>8), byte(v))
	default:
		return append(dst, 0xff, byte(v>>56), byte(v>>48), byte(v>>40), byte(v>>32),
			byte(v>>24), byte(v>>16), byte(v>>8), byte(v))
	}
}

type vRec struct {
	typ    uint64
	val    []byte
	tw, lw int    // forced widths of type / length varints (0 = minimal)
	claim  uint64 // claimed length if useClaim
	useCl  bool
}

func vSerialize(rs []vRec) []byte {
	var b []byte
	for _, r := range rs {
		b = vPutVarint(b, r.typ, r.tw)
		l := uint64(len(r.val))
		if r.useCl {
			l = r.claim
		}
		b = vPutVarint(b, l, r.lw)
		b = append(b, r.val...)
	}
	return b
}

// known record kinds of the fixed test stream.  kind: "F<k>" fixed, "T<k>"
// truncated, "V" var bytes, "B" bool, "S" BigSize.
type vKnown struct {
	typ  uint64
	kind string
	n    int
}

var vKnownAll = []vKnown{
	{2, "F", 8}, {4, "T", 8}, {6, "V", 0}, {8, "F", 32}, {10, "T", 4}, {12, "T", 2},
	{14, "B", 0}, {16, "F", 2}, {18, "S", 0}, {20, "F", 1}, {22, "F", 4}, {24, "F", 33},
}

type vVars struct {
	u64, tu64, bs    uint64
	vb               []byte
	b32              [32]byte
	b33              [33]byte
	tu32, u32        uint32
	tu16, u16        uint16
	bl               bool
	u8               uint8
}

func (v *vVars) record(k vKnown) Record {
	t := Type(k.typ)
	switch k.typ {
	case 2:
		return MakePrimitiveRecord(t, &v.u64)
	case 4:
		return MakeDynamicRecord(t, &v.tu64, func() uint64 { return SizeTUint64(v.tu64) },
			ETUint64, DTUint64)
	case 6:
		return MakePrimitiveRecord(t, &v.vb)
	case 8:
		return MakePrimitiveRecord(t, &v.b32)
	case 10:
		return MakeDynamicRecord(t, &v.tu32, func() uint64 { return SizeTUint32(v.tu32) },
			ETUint32, DTUint32)
	case 12:
		return MakeDynamicRecord(t, &v.tu16, func() uint64 { return SizeTUint16(v.tu16) },
			ETUint16, DTUint16)
	case 14:
		return MakePrimitiveRecord(t, &v.bl)
	case 16:
		return MakePrimitiveRecord(t, &v.u16)
	case 18:
		return MakeBigSizeRecord(t, &v.bs)
	case 20:
		return MakePrimitiveRecord(t, &v.u8)
	case 22:
		return MakePrimitiveRecord(t, &v.u32)
	case 24:
		return MakePrimitiveRecord(t, &v.b33)
	}
	panic("unknown known type")
}

var vTypePool = []uint64{0, 1, 2, 3, 4, 5, 6, 7, 8, 10, 12, 14, 16, 18, 20, 22, 24, 25,
	251, 252, 253, 254, 255, 256, 65534, 65535, 65536, 65537, 1<<32 - 1, 1 << 32, 1<<32 + 1,
	1<<63 - 1, 1 << 63, math.MaxUint64 - 1, math.MaxUint64}

// vValidValue returns a value valid for the known kind (or random bytes).
func vValidValue(r *vrng, k *vKnown) []byte {
	if k == nil {
		switch r.intn(10) {
		case 0:
			return nil
		case 1:
			return r.bytes(252 + r.intn(4)) // around the 1->3 byte length boundary
		default:
			return r.bytes(r.intn(12))
		}
	}
	switch k.kind {
	case "F":
		return r.bytes(k.n)
	case "T":
		n := r.intn(k.n + 1)
		b := r.bytes(n)
		if n > 0 && b[0] == 0 {
			b[0] = 1
		}
		return b
	case "V":
		return r.bytes(r.intn(20))
	case "B":
		return []byte{byte(r.intn(2))}
	case "S":
		vals := []uint64{0, 1, 252, 253, 65535, 65536, 1<<32 - 1, 1 << 32, math.MaxUint64}
		return vPutVarint(nil, vals[r.intn(len(vals))], 0)
	}
	return nil
}

type vStreamRow struct {
	K     string     `json:"k"`
	Known [][]any    `json:"known"`
	P2P   bool       `json:"p2p"`
	B     string     `json:"b"`
	Code  int        `json:"code"`
	Code2 int        `json:"code2"` // the other API variant (Decode vs DecodeWithParsedTypes)
	Full  bool       `json:"full"`
	Recs  [][]string `json:"recs"`
	Reenc string     `json:"reenc"`
	Mut   string     `json:"mut"`
	Panic string     `json:"panic,omitempty"`
}

func vKnownJSON(ks []vKnown) [][]any {
	out := make([][]any, 0, len(ks))
	for _, k := range ks {
		out = append(out, []any{strconv.FormatUint(k.typ, 10), k.kind, k.n})
	}
	return out
}

// vRunStream drives the real decoder on b.
func vRunStream(ks []vKnown, p2p bool, b []byte, mut string) (row vStreamRow) {
	row = vStreamRow{K: "stream", Known: vKnownJSON(ks), P2P: p2p, B: vhx(b), Mut: mut,
		Recs: [][]string{}}
	defer func() {
		if p := recover(); p != nil {
			row.Code = 100
			row.Panic = "panic"
		}
	}()
	mk := func() (*vVars, []Record, *Stream) {
		v := &vVars{}
		recs := make([]Record, 0, len(ks))
		for _, k := range ks {
			recs = append(recs, v.record(k))
		}
		return v, recs, MustNewStream(recs...)
	}
	if !p2p {
		_, _, s := mk()
		err := s.Decode(bytes.NewReader(b))
		row.Code = vErrCode(err)
		row.Code2 = row.Code
		return row
	}
	_, _, s1 := mk()
	row.Code2 = vErrCode(s1.DecodeP2P(bytes.NewReader(b)))
	vars, krecs, s := mk()
	tm, err := s.DecodeWithParsedTypesP2P(bytes.NewReader(b))
	row.Code = vErrCode(err)
	if err != nil {
		return row
	}
	row.Full = true
	types := make([]uint64, 0, len(tm))
	for t := range tm {
		types = append(types, uint64(t))
	}
	sort.Slice(types, func(i, j int) bool { return types[i] < types[j] })
	var out []Record
	keep := make([][]byte, len(types))
	for i, t := range types {
		raw := tm[Type(t)]
		if raw == nil {
			// known record: re-derive its value bytes from the decoded variable
			for j, k := range ks {
				if k.typ == t {
					var w bytes.Buffer
					if err := krecs[j].Encode(&w); err != nil {
						panic(err)
					}
					raw = w.Bytes()
					if raw == nil {
						raw = []byte{}
					}
					// records are re-made from the decoded variables, as
					// lnd does at encode time (MakeBigSizeRecord fixes the
					// size when the record is constructed)
					out = append(out, vars.record(k))
				}
			}
		} else {
			keep[i] = raw
			out = append(out, MakeStaticRecord(Type(t), &keep[i], uint64(len(raw)),
				EVarBytes, DVarBytes))
		}
		row.Recs = append(row.Recs, []string{strconv.FormatUint(t, 10), vhx(raw)})
	}
	es, err := NewStream(out...)
	if err != nil {
		row.Reenc = "ERR"
		return row
	}
	var w bytes.Buffer
	if err := es.Encode(&w); err != nil {
		row.Reenc = "ERR"
		return row
	}
	row.Reenc = vhx(w.Bytes())
	return row
}

func vKnownFor(ks []vKnown, t uint64) *vKnown {
	for i := range ks {
		if ks[i].typ == t {
			return &ks[i]
		}
	}
	return nil
}

// vGenStream builds one structure-aware input.
func vGenStream(r *vrng) (ks []vKnown, p2p bool, b []byte, mut string) {
	p2p = r.intn(4) != 0
	switch r.intn(4) {
	case 0:
		ks = nil
	case 1:
		for _, k := range vKnownAll {
			if r.bool() {
				ks = append(ks, k)
			}
		}
	default:
		ks = append(ks, vKnownAll...)
	}
	if !p2p {
		// DVarBytes allocates the claimed length before reading; off the
		// p2p path that is unbounded, so the non-p2p runs carry no var-bytes
		// record (a claimed 2^40 would kill the test process, not report).
		var f []vKnown
		for _, k := range ks {
			if k.kind != "V" {
				f = append(f, k)
			}
		}
		ks = f
	}

	// a valid, strictly increasing record list
	n := r.intn(6)
	tset := map[uint64]bool{}
	for i := 0; i < n; i++ {
		if r.intn(3) == 0 {
			tset[vTypePool[r.intn(len(vTypePool))]] = true
		} else {
			tset[uint64(r.intn(26))] = true
		}
	}
	var ts []uint64
	for t := range tset {
		ts = append(ts, t)
	}
	sort.Slice(ts, func(i, j int) bool { return ts[i] < ts[j] })
	var rs []vRec
	for _, t := range ts {
		rs = append(rs, vRec{typ: t, val: vValidValue(r, vKnownFor(ks, t))})
	}
	mut = "valid"
	if r.intn(10) < 4 || len(rs) == 0 {
		if len(rs) == 0 && r.bool() {
			mut = "empty"
		}
		if mut != "empty" && len(rs) == 0 {
			rs = append(rs, vRec{typ: uint64(r.intn(30)), val: r.bytes(r.intn(5))})
		}
		return ks, p2p, vSerialize(rs), mut
	}
	i := r.intn(len(rs))
	widths := []int{1, 3, 5, 9}
	switch r.intn(16) {
	case 0:
		mut = "nonminimal-type"
		rs[i].tw = widths[r.intn(4)]
	case 1:
		mut = "nonminimal-len"
		rs[i].lw = widths[r.intn(4)]
	case 2:
		mut = "swap"
		j := r.intn(len(rs))
		rs[i], rs[j] = rs[j], rs[i]
	case 3:
		mut = "duplicate"
		dup := append([]vRec{}, rs[:i+1]...)
		rs = append(dup, rs[i:]...)
	case 4:
		mut = "truncate"
		b = vSerialize(rs)
		if len(b) > 0 {
			b = b[:r.intn(len(b))]
		}
		return ks, p2p, b, mut
	case 5:
		mut = "len+1"
		rs[i].useCl, rs[i].claim = true, uint64(len(rs[i].val))+1
	case 6:
		mut = "len-1"
		if len(rs[i].val) > 0 {
			rs[i].useCl, rs[i].claim = true, uint64(len(rs[i].val))-1
		}
	case 7:
		mut = "oversize-claim"
		big := []uint64{65535, 65536, 65537, 1 << 20, 1<<32 - 1, 1 << 32, 1<<63 - 1, 1 << 63,
			1<<63 + 1, math.MaxUint64}
		rs[i].useCl, rs[i].claim = true, big[r.intn(len(big))]
		if r.intn(3) == 0 {
			rs = rs[:i+1] // claimed record is the last one
		}
	case 8:
		if r.intn(4) != 0 {
			mut = "len+1"
			rs[i].useCl, rs[i].claim = true, uint64(len(rs[i].val))+1
			break
		}
		mut = "oversize-real"
		// a record whose value really is 65535 / 65536 bytes long
		n := 65535 + r.intn(2)
		if r.intn(3) == 0 {
			n = 65534
		}
		rs[i].val = r.bytes(n)
		if k := vKnownFor(ks, rs[i].typ); k != nil && k.kind == "T" {
			rs[i].val[0] = 1
		}
	case 9:
		mut = "known-wrong-len"
		if len(ks) > 0 {
			k := ks[r.intn(len(ks))]
			v := r.bytes(r.intn(40))
			rs = []vRec{{typ: k.typ, val: v}}
		}
	case 10:
		mut = "trunc-leading-zero"
		for _, k := range ks {
			if k.kind == "T" {
				v := r.bytes(1 + r.intn(k.n))
				v[0] = 0
				rs = []vRec{{typ: k.typ, val: v}}
				if r.bool() {
					break
				}
			}
		}
	case 11:
		mut = "bool-byte"
		rs = []vRec{{typ: 14, val: []byte{byte(r.intn(4))}}}
	case 12:
		mut = "append-garbage"
		b = append(vSerialize(rs), r.bytes(1+r.intn(4))...)
		return ks, p2p, b, mut
	case 13:
		mut = "max-type-then-more"
		rs = append(rs, vRec{typ: math.MaxUint64, val: r.bytes(r.intn(3))})
		if r.bool() {
			rs = append(rs, vRec{typ: uint64(r.intn(3)), val: nil})
		}
		sort.SliceStable(rs[:len(rs)-1], func(a, c int) bool { return rs[a].typ < rs[c].typ })
	case 14:
		mut = "bigsize-record-len"
		// record 18 is decoded by DBigSize, which ignores the length
		v := vPutVarint(nil, []uint64{1, 253, 65536, 1 << 32}[r.intn(4)], 0)
		cl := uint64(len(v)) + uint64(r.intn(3))
		rs = []vRec{{typ: 18, val: append(v, r.bytes(int(cl)-len(v))...), useCl: true, claim: cl}}
		if r.bool() {
			rs = append(rs, vRec{typ: 30, val: r.bytes(2)})
		}
	default:
		mut = "random"
		b = r.bytes(r.intn(24))
		if r.bool() {
			// bias towards small type/len bytes so that parsing goes deep
			for j := range b {
				if r.intn(3) != 0 {
					b[j] = byte(r.intn(6))
				}
			}
		}
		return ks, p2p, b, mut
	}
	return ks, p2p, vSerialize(rs), mut
}

func TestVerifTlv(t *testing.T) {
	out := vOpenOut()
	defer out.close()
	master := vNewRng(vSeed())
	if os.Getenv("VERIF_RETAIN_ONLY") != "" {
		vRetainStreams(out, master.fork(1<<41)) // the -race run of the thorough tier
		return
	}

	// ---- BigSize: boundaries, every width, non-minimal, truncated ----
	edge := []uint64{0, 1, 0xfc, 0xfd, 0xfe, 0xff, 0x100, 0xfffe, 0xffff, 0x10000, 0x10001,
		0xfffffffe, 0xffffffff, 0x100000000, 0x100000001, 1<<63 - 1, 1 << 63,
		math.MaxUint64 - 1, math.MaxUint64}
	var vals []uint64
	vals = append(vals, edge...)
	r0 := master.fork(1 << 40)
	for i := 0; i < vCases(40, 2000); i++ {
		v := r0.u64() >> uint(r0.intn(64))
		vals = append(vals, v)
	}
	var buf [8]byte
	for _, v := range vals {
		var w bytes.Buffer
		if err := WriteVarInt(&w, v, &buf); err != nil {
			t.Fatal(err)
		}
		out.emit(map[string]any{"k": "varwrite", "v": strconv.FormatUint(v, 10),
			"out": vhx(w.Bytes()), "size": VarIntSize(v)})
	}
	readOne := func(b []byte, mut string) {
		rd := bytes.NewReader(b)
		v, err := ReadVarInt(rd, &buf)
		out.emit(map[string]any{"k": "varread", "b": vhx(b), "code": vErrCode(err),
			"v": strconv.FormatUint(v, 10), "left": rd.Len(), "mut": mut})
	}
	for _, v := range vals {
		for _, w := range []int{0, 1, 3, 5, 9} {
			if w == 1 && v > 0xff || w == 3 && v > 0xffff || w == 5 && v > 0xffffffff {
				continue
			}
			b := vPutVarint(nil, v, w)
			mut := "minimal"
			if w != 0 {
				mut = "width" + strconv.Itoa(w)
			}
			readOne(append(b, r0.bytes(r0.intn(3))...), mut)
			if len(b) > 1 {
				readOne(b[:1+r0.intn(len(b)-1)], "truncated")
			}
		}
	}
	readOne(nil, "empty")
	for i := 0; i < vCases(60, 3000); i++ {
		readOne(r0.bytes(r0.intn(11)), "random")
	}

	// ---- streams ----
	ncases := vCases(700, 30000)
	for ci := 0; ci < ncases; ci++ {
		r := master.fork(uint64(ci))
		ks, p2p, b, mut := vGenStream(r)
		out.emit(vRunStream(ks, p2p, b, mut))
	}

	vRetainStreams(out, master.fork(1<<41))

	// fixed witnesses (the non-p2p CopyN quirk and the DBigSize length quirk)
	out.emit(vRunStream(nil, false, []byte{1, 0xff, 0x80, 0, 0, 0, 0, 0, 0, 0}, "witness-copyn"))
	out.emit(vRunStream(nil, true, []byte{1, 0xff, 0x80, 0, 0, 0, 0, 0, 0, 0}, "witness-copyn"))
	out.emit(vRunStream(vKnownAll, true, []byte{18, 3, 5, 30, 0}, "witness-bigsize"))

	// ---- thorough: exhaustive small universe ----
	if vTier() == "thorough" {
		alpha := []byte{0, 1, 2, 3, 14, 18, 253, 255}
		var rec func(pre []byte, d int)
		rec = func(pre []byte, d int) {
			readOne(pre, "exh")
			out.emit(vRunStream(vKnownAll, true, pre, "exh"))
			out.emit(vRunStream(nil, false, pre, "exh"))
			if d == 0 {
				return
			}
			for _, a := range alpha {
				rec(append(append([]byte{}, pre...), a), d-1)
			}
		}
		rec(nil, 4)
	}
}

// ---- retention: what a stream decode returned stays what it was ----
//
// Windows of 128 accepted P2P streams (all known kinds, var-bytes values of shrinking then
// growing sizes, unknown records): the decoded variables and the parsed-type map (raw
// bytes of the unknown records) are kept, the input is overwritten right after decode, and
// after the whole window (and after 8 goroutines did the same concurrently) every kept
// value must equal its snapshot.
type vKeptStream struct {
	b    []byte
	vars *vVars
	tm   TypeMap
	snap string
}

func vSnap(v *vVars, tm TypeMap) string {
	var sb bytes.Buffer
	sb.WriteString(strconv.FormatUint(v.u64, 10) + "," + strconv.FormatUint(v.tu64, 10) + "," +
		strconv.FormatUint(v.bs, 10) + "," + vhx(v.vb) + "," + vhx(v.b32[:]) + "," + vhx(v.b33[:]) + "," +
		strconv.FormatUint(uint64(v.tu32), 10) + "," + strconv.FormatUint(uint64(v.u32), 10) + "," +
		strconv.FormatUint(uint64(v.tu16), 10) + "," + strconv.FormatUint(uint64(v.u16), 10) + "," +
		strconv.FormatBool(v.bl) + "," + strconv.FormatUint(uint64(v.u8), 10) + ";")
	types := make([]uint64, 0, len(tm))
	for t := range tm {
		types = append(types, uint64(t))
	}
	sort.Slice(types, func(i, j int) bool { return types[i] < types[j] })
	for _, t := range types {
		raw := tm[Type(t)]
		sb.WriteString(strconv.FormatUint(t, 10) + "=")
		if raw == nil {
			sb.WriteString("known;")
		} else {
			sb.WriteString(vhx(raw) + ";")
		}
	}
	return sb.String()
}

func vRetainWindow(cases [][]byte) (kept []*vKeptStream, aliased []*vKeptStream) {
	for _, c := range cases {
		in := append([]byte{}, c...)
		v := &vVars{}
		recs := make([]Record, 0, len(vKnownAll))
		for _, k := range vKnownAll {
			recs = append(recs, v.record(k))
		}
		tm, err := func() (tm TypeMap, err error) {
			defer func() {
				if p := recover(); p != nil {
					err = io.ErrUnexpectedEOF
				}
			}()
			return MustNewStream(recs...).DecodeWithParsedTypesP2P(bytes.NewReader(in))
		}()
		if err != nil {
			continue
		}
		k := &vKeptStream{b: c, vars: v, tm: tm, snap: vSnap(v, tm)}
		for j := range in {
			in[j] ^= 0xa5
		}
		if vSnap(v, tm) != k.snap {
			aliased = append(aliased, k)
			continue
		}
		kept = append(kept, k)
	}
	return kept, aliased
}

func vRetainStreams(out *vWriter, r *vrng) {
	var cases [][]byte
	sizes := []int{5000, 3000, 1500, 700, 701, 300, 100, 30, 5, 0, 6, 90, 400, 2000, 5001}
	for rep := 0; rep < 6; rep++ {
		for _, n := range sizes {
			// known var-bytes record 6 of n bytes, an unknown odd record of n/2+1 bytes, some fixed ones
			rs := []vRec{{typ: 2, val: r.bytes(8)}, {typ: 6, val: r.bytes(n)}, {typ: 8, val: r.bytes(32)},
				{typ: 25, val: r.bytes(n/2 + 1)}, {typ: 65537, val: r.bytes(r.intn(40))}}
			cases = append(cases, vSerialize(rs))
		}
	}
	for i := 0; i < 200; i++ {
		_, p2p, b, _ := vGenStream(r.fork(uint64(i)))
		if p2p {
			cases = append(cases, b)
		}
	}
	bad := 0
	report := func(kind, stream string, k *vKeptStream, culprits [][]byte) {
		bad++
		if bad > 6 {
			return
		}
		var cs []string
		for _, c := range culprits {
			if len(cs) < 16 {
				cs = append(cs, vhx(c))
			}
		}
		out.emit(map[string]any{"k": "retain", "ok": false, "kind": kind, "stream": stream, "b": vhx(k.b),
			"culprits": cs, "detail": ""})
	}
	nkept := 0
	for lo := 0; lo < len(cases); lo += 128 {
		hi := lo + 128
		if hi > len(cases) {
			hi = len(cases)
		}
		kept, aliased := vRetainWindow(cases[lo:hi])
		for _, k := range aliased {
			report("decoded value aliases its input bytes", "window", k, nil)
		}
		nkept += len(kept)
		for _, k := range kept {
			if vSnap(k.vars, k.tm) != k.snap {
				report("retained value changed after later decodes", "window", k, cases[lo:hi])
			}
		}
	}
	const G = 8
	res := make([][]*vKeptStream, G)
	var wg sync.WaitGroup
	for g := 0; g < G; g++ {
		wg.Add(1)
		go func(g int) {
			defer wg.Done()
			var part [][]byte
			for i := g; i < len(cases); i += G {
				part = append(part, cases[i])
			}
			res[g], _ = vRetainWindow(part)
		}(g)
	}
	wg.Wait()
	for g := 0; g < G; g++ {
		nkept += len(res[g])
		for _, k := range res[g] {
			if vSnap(k.vars, k.tm) != k.snap {
				report("retained value changed after later decodes", "concurrent", k, nil)
			}
		}
	}
	out.emit(map[string]any{"k": "retain_sum", "cases": 2 * len(cases), "kept": nkept, "bad": bad})
}
