//go:build verif

package discovery

// C20 correspondence harness: drives the REAL AuthenticatedGossiper wired to
// the REAL, started graph.Builder on a real graph database (bbolt; sqlite with
// -tags test_db_sqlite) and a programmable chain backend / chain view.  Every
// message is a really signed lnwire message (or a field-/byte-level corruption
// of one) and goes through ProcessRemoteAnnouncement; "history" cases interleave
// them with graph maintenance events on the real Builder and store (blocks
// connected / re-orged out through the chain view, DeleteChannelEdges with and
// without zombie marking, PruneGraphNodes, restarts).  After each message the harness
// records the error from the returned future, the graph contents and (at the
// end of the case) the exact multiset of messages handed to cfg.Broadcast.
//
// Independently of the gossiper the harness recomputes, with btcec over the
// real DataToSign digests, the signature-verification oracle table, and from
// its own chain tables the funding oracle; the Coq model (Gossip/Exec.v) is
// evaluated on those tables.

import (
	"bytes"
	"context"
	"crypto/sha256"
	"encoding/hex"
	"errors"
	"fmt"
	"sort"
	"strings"
	"sync"
	"sync/atomic"
	"testing"
	"time"

	"github.com/btcsuite/btcd/btcec/v2"
	"github.com/btcsuite/btcd/btcec/v2/ecdsa"
	"github.com/btcsuite/btcd/chaincfg/v2"
	"github.com/btcsuite/btcd/chainhash/v2"
	"github.com/btcsuite/btcd/wire/v2"
	"github.com/lightningnetwork/lnd/channeldb"
	"github.com/lightningnetwork/lnd/fn/v2"
	"github.com/lightningnetwork/lnd/graph"
	graphdb "github.com/lightningnetwork/lnd/graph/db"
	"github.com/lightningnetwork/lnd/graph/db/models"
	"github.com/lightningnetwork/lnd/input"
	"github.com/lightningnetwork/lnd/keychain"
	"github.com/lightningnetwork/lnd/lnpeer"
	"github.com/lightningnetwork/lnd/lntest/mock"
	"github.com/lightningnetwork/lnd/lnwallet/btcwallet"
	"github.com/lightningnetwork/lnd/lnwire"
	"github.com/lightningnetwork/lnd/netann"
	"github.com/lightningnetwork/lnd/routing/chainview"
	"github.com/lightningnetwork/lnd/routing/route"
	"github.com/lightningnetwork/lnd/ticker"
)

// ---------------------------------------------------------------------------
// programmable chain backend

const (
	vBlkPresent  = 0
	vBlkOOR      = 1 // GetBlockHash: "... out of range"
	vBlkRPCErr   = 2 // GetBlockHash: unrelated RPC failure
	vBlkNotFound = 3 // GetBlock: "block not found"

	vUtxoUnspent = 0
	vUtxoSpent   = 1
	vUtxoErr     = 2
)

type vBlock struct {
	kind  int
	hash  chainhash.Hash
	block *wire.MsgBlock
}

type vChain struct {
	mu     sync.Mutex
	best   int32
	blocks map[int64]*vBlock
	utxo   map[wire.OutPoint]int
	// funding blocks disconnected by a re-org (may be mined again)
	orphans map[int64]*vBlock
	// what the chain view reports for a block (spends of watched outputs)
	filtered map[chainhash.Hash]*chainview.FilteredBlock
	gen      int
}

// GetBestBlock: the real, moving tip.
func (c *vChain) GetBestBlock() (*chainhash.Hash, int32, error) {
	c.mu.Lock()
	defer c.mu.Unlock()
	h := vBlockHash(int64(c.best))
	if b, ok := c.blocks[int64(c.best)]; ok {
		h = b.hash
	}
	return &h, c.best, nil
}

// vBlockHash: hash of the original (never re-orged) block of a height; the
// same whether or not the harness has put transactions into that block yet.
func vBlockHash(h int64) chainhash.Hash {
	var hh chainhash.Hash
	hh[0] = byte(h)
	hh[1] = byte(h >> 8)
	hh[31] = 0x77
	return hh
}

func (c *vChain) GetBlockHash(h int64) (*chainhash.Hash, error) {
	c.mu.Lock()
	defer c.mu.Unlock()
	b, ok := c.blocks[h]
	if !ok || b.kind == vBlkOOR {
		return nil, errors.New("-1: Block number out of range")
	}
	if b.kind == vBlkRPCErr {
		return nil, errors.New("rpc: connection refused")
	}
	hh := b.hash
	return &hh, nil
}

func (c *vChain) GetBlock(hash *chainhash.Hash) (*wire.MsgBlock, error) {
	c.mu.Lock()
	defer c.mu.Unlock()
	for _, b := range c.blocks {
		if b.hash == *hash {
			if b.kind == vBlkNotFound {
				return nil, errors.New("-5: Block not found")
			}
			return b.block, nil
		}
	}
	return nil, errors.New("-5: Block not found")
}

func (c *vChain) GetBlockHeader(*chainhash.Hash) (*wire.BlockHeader, error) {
	return nil, errors.New("not implemented")
}

func (c *vChain) GetUtxo(op *wire.OutPoint, _ []byte, _ uint32,
	_ <-chan struct{}) (*wire.TxOut, error) {

	c.mu.Lock()
	defer c.mu.Unlock()
	st, ok := c.utxo[*op]
	if !ok {
		return nil, errors.New("utxo unknown to harness chain")
	}
	switch st {
	case vUtxoSpent:
		return nil, btcwallet.ErrOutputSpent
	case vUtxoErr:
		return nil, errors.New("rpc: timeout")
	}
	for _, b := range c.blocks {
		if b.block == nil {
			continue
		}
		for _, tx := range b.block.Transactions {
			if tx.TxHash() == op.Hash && int(op.Index) < len(tx.TxOut) {
				return tx.TxOut[op.Index], nil
			}
		}
	}
	return nil, errors.New("utxo unknown to harness chain")
}

// vChainView hands connected / disconnected blocks to the Builder's
// networkHandler, exactly as a chainview.FilteredChainView would.
type vChainView struct {
	chain  *vChain
	newB   chan *chainview.FilteredBlock
	staleB chan *chainview.FilteredBlock
}

func newVChainView(c *vChain) *vChainView {
	return &vChainView{chain: c, newB: make(chan *chainview.FilteredBlock),
		staleB: make(chan *chainview.FilteredBlock)}
}

func (v *vChainView) FilteredBlocks() <-chan *chainview.FilteredBlock     { return v.newB }
func (v *vChainView) DisconnectedBlocks() <-chan *chainview.FilteredBlock { return v.staleB }
func (v *vChainView) UpdateFilter([]graphdb.EdgePoint, uint32) error      { return nil }
func (v *vChainView) FilterBlock(h *chainhash.Hash) (*chainview.FilteredBlock, error) {
	v.chain.mu.Lock()
	defer v.chain.mu.Unlock()
	if fb, ok := v.chain.filtered[*h]; ok {
		return fb, nil
	}
	return nil, errors.New("block unknown to harness chain view")
}
func (v *vChainView) Start() error { return nil }
func (v *vChainView) Stop() error  { return nil }

// ---------------------------------------------------------------------------
// id registry (keys, signatures, digests, scripts, opaque blobs -> small ints)

type vIDs struct {
	m    map[string]int
	next map[string]int
}

func newVIDs() *vIDs {
	return &vIDs{m: map[string]int{}, next: map[string]int{}}
}

// id returns a stable positive integer for (class, bytes); all-zero / empty
// byte strings map to 0.
func (v *vIDs) id(class string, b []byte) int {
	zero := true
	for _, x := range b {
		if x != 0 {
			zero = false
			break
		}
	}
	if zero {
		return 0
	}
	k := class + ":" + string(b)
	if i, ok := v.m[k]; ok {
		return i
	}
	v.next[class]++
	v.m[k] = v.next[class]
	return v.next[class]
}

// ---------------------------------------------------------------------------
// fixture

const (
	vBestHeight     = 1000
	vSentinelHeight = 50
	vAliasStart     = 16_000_000
	vRebroadcast    = 24 * time.Hour
	vPruneExpiry    = graph.DefaultChannelPruneExpiry
)

type vFix struct {
	t        *testing.T
	g        *AuthenticatedGossiper
	db       *graphdb.ChannelGraph
	vg       *graphdb.VersionedGraph
	builder  *graph.Builder
	hs       *vHookStore // pass-through wrapper around the graph store (write log, commit hook)
	view     *vChainView
	chain    *vChain
	closer   *mockScidCloser
	selfPriv *btcec.PrivateKey

	bmu   sync.Mutex
	bcast []string // hex sha256 of every message handed to Broadcast

	sentPriv [4]*btcec.PrivateKey // sentinel node keys (2) + bitcoin keys (2)
	sentPeer *mockPeer
	sentTs   uint32
	sentHash map[string]bool
	skipNode map[[33]byte]bool

	// persistent across restarts
	backend   *vStoreBackend
	storeOpts []graphdb.StoreOptionModifier
	wps       *channeldb.WaitingProofStore
	restarts  int
}

func vMsgHash(m lnwire.Message) string {
	var b bytes.Buffer
	if _, err := lnwire.WriteMessage(&b, m, 0); err != nil {
		return "unserialisable:" + err.Error()
	}
	h := sha256.Sum256(b.Bytes())
	return hex.EncodeToString(h[:8])
}

func vPub33(p *btcec.PrivateKey) [33]byte {
	var o [33]byte
	copy(o[:], p.PubKey().SerializeCompressed())
	return o
}

func vSign(priv *btcec.PrivateKey, m lnwire.Message) lnwire.Sig {
	signer := mock.SingleSigner{Privkey: priv}
	sig, err := netann.SignAnnouncement(
		&signer, keychain.KeyLocator{Family: keychain.KeyFamilyNodeKey}, m,
	)
	if err != nil {
		panic(err)
	}
	s, err := lnwire.NewSigFromSignature(sig)
	if err != nil {
		panic(err)
	}
	return s
}

func vIsAlias(s lnwire.ShortChannelID) bool { return s.BlockHeight >= vAliasStart }

// start builds store object, ChannelGraph, Builder and gossiper on the
// (persistent) backend.
func (f *vFix) start(first bool) {
	t := f.t
	// A fresh store object over the same backend: all of the store's
	// in-memory caches (reject cache, channel cache) start cold.
	store := f.backend.open(t, f.storeOpts...)
	if f.hs == nil {
		f.hs = &vHookStore{}
	}
	f.hs.Store = store
	var err error
	f.db, err = graphdb.NewChannelGraph(f.hs, graphdb.WithSyncGraphCachePopulation())
	if err != nil {
		t.Fatalf("channel graph: %v", err)
	}
	if err := f.db.Start(); err != nil {
		t.Fatalf("channel graph start: %v", err)
	}
	f.vg = graphdb.NewVersionedGraph(f.db, lnwire.GossipVersion1)
	ctx := context.Background()
	selfPub := vPub33(f.selfPriv)
	if first {
		if err := f.db.SetSourceNode(ctx, models.NewV1ShellNode(selfPub)); err != nil {
			t.Fatalf("set source: %v", err)
		}
	}

	notifier := newMockNotifier()
	f.view = newVChainView(f.chain)
	f.builder, err = graph.NewBuilder(&graph.Config{
		SelfNode:            selfPub,
		Graph:               f.db,
		Chain:               f.chain,
		ChainView:           f.view,
		Notifier:            notifier,
		ChannelPruneExpiry:  vPruneExpiry,
		GraphPruneInterval:  time.Hour * 1000,
		FirstTimePruneDelay: time.Hour * 1000,
		IsAlias:             vIsAlias,
	})
	if err != nil {
		t.Fatalf("builder: %v", err)
	}
	// The Builder runs for real: Start syncs the graph with the chain tip and
	// sweeps unconnected nodes (PruneGraphNodes), its networkHandler prunes the
	// graph on every connected / disconnected block.
	if err := f.builder.Start(); err != nil {
		t.Fatalf("builder start: %v", err)
	}

	f.g = New(Config{
		ChanSeries: newMockChannelGraphTimeSeries(
			lnwire.ShortChannelID{BlockHeight: vBestHeight},
		),
		ChainIO:     f.chain,
		ChainParams: &chaincfg.MainNetParams,
		Notifier:    notifier,
		Broadcast: func(_ map[route.Vertex]struct{},
			msgs ...lnwire.Message) error {

			f.bmu.Lock()
			for _, m := range msgs {
				f.bcast = append(f.bcast, vMsgHash(m))
			}
			f.bmu.Unlock()
			return nil
		},
		NotifyWhenOnline: func(target [33]byte, peerChan chan<- lnpeer.Peer) {
			pk, _ := btcec.ParsePubKey(target[:])
			peerChan <- &mockPeer{pk, nil, nil, atomic.Bool{}}
		},
		NotifyWhenOffline: func(_ [33]byte) <-chan struct{} {
			return make(chan struct{})
		},
		FetchSelfAnnouncement: func() lnwire.NodeAnnouncement1 {
			return lnwire.NodeAnnouncement1{Timestamp: 1}
		},
		UpdateSelfAnnouncement: func() (lnwire.NodeAnnouncement1, error) {
			return lnwire.NodeAnnouncement1{Timestamp: 1}, nil
		},
		Graph:                 f.builder,
		TrickleDelay:          3 * time.Millisecond,
		RetransmitTicker:      ticker.NewForce(time.Hour * 1000),
		RebroadcastInterval:   vRebroadcast,
		ProofMatureDelta:      0,
		WaitingProofStore:     f.wps,
		MessageStore:          newMockMessageStore(),
		RotateTicker:          ticker.NewForce(DefaultSyncerRotationInterval),
		HistoricalSyncTicker:  ticker.NewForce(DefaultHistoricalSyncInterval),
		NumActiveSyncers:      3,
		AnnSigner:             &mock.SingleSigner{Privkey: f.selfPriv},
		SubBatchDelay:         time.Millisecond,
		MinimumBatchSize:      10,
		MaxChannelUpdateBurst: DefaultMaxChannelUpdateBurst,
		ChannelUpdateInterval: time.Hour * 1000,
		IsAlias:               vIsAlias,
		SignAliasUpdate: func(*lnwire.ChannelUpdate1) (*ecdsa.Signature, error) {
			return nil, nil
		},
		FindBaseByAlias: func(lnwire.ShortChannelID) (lnwire.ShortChannelID, error) {
			return lnwire.ShortChannelID{}, fmt.Errorf("no base scid")
		},
		GetAlias: func(lnwire.ChannelID) (lnwire.ShortChannelID, error) {
			return lnwire.ShortChannelID{}, fmt.Errorf("no peer alias")
		},
		FindChannel:  mockFindChannel,
		ScidCloser:   f.closer,
		BanThreshold: DefaultBanThreshold,
	}, &keychain.KeyDescriptor{
		PubKey:     f.selfPriv.PubKey(),
		KeyLocator: keychain.KeyLocator{Family: keychain.KeyFamilyNodeKey},
	})
	if err := f.g.Start(); err != nil {
		t.Fatalf("gossiper start: %v", err)
	}
	f.g.syncMgr.markGraphSynced()
}

func vNewFix(t *testing.T, r *vrng) *vFix {
	f := &vFix{t: t, skipNode: map[[33]byte]bool{}, sentHash: map[string]bool{}}
	f.selfPriv, _ = btcec.PrivKeyFromBytes(r.bytes(32))
	for i := range f.sentPriv {
		f.sentPriv[i], _ = btcec.PrivKeyFromBytes(r.bytes(32))
	}
	f.chain = &vChain{
		best:     vBestHeight,
		blocks:   map[int64]*vBlock{},
		utxo:     map[wire.OutPoint]int{},
		orphans:  map[int64]*vBlock{},
		filtered: map[chainhash.Hash]*chainview.FilteredBlock{},
	}
	f.backend = vNewBackend(t)
	// small store caches in most cases: evictions then happen without restarts
	switch r.intn(4) {
	case 0:
	case 1:
		f.storeOpts = []graphdb.StoreOptionModifier{
			graphdb.WithRejectCacheSize(1), graphdb.WithChannelCacheSize(1),
		}
	default:
		f.storeOpts = []graphdb.StoreOptionModifier{
			graphdb.WithRejectCacheSize(2), graphdb.WithChannelCacheSize(2),
		}
	}
	cdb := channeldb.OpenForTesting(t, t.TempDir())
	var err error
	f.wps, err = channeldb.NewWaitingProofStore(cdb)
	if err != nil {
		t.Fatalf("wps: %v", err)
	}
	f.closer = newMockScidCloser(false)
	f.start(true)
	t.Cleanup(func() {
		f.g.Stop()
		_ = f.builder.Stop()
		_ = f.db.Stop()
	})
	ctx := context.Background()

	// sentinel channel + nodes: harness plumbing used to flush the trickle
	// batch deterministically; excluded from every snapshot.
	f.sentPeer = &mockPeer{f.sentPriv[0].PubKey(), nil, nil, atomic.Bool{}}
	sscid := lnwire.ShortChannelID{BlockHeight: vSentinelHeight, TxIndex: 1}
	_, out, err := input.GenFundingPkScript(
		f.sentPriv[2].PubKey().SerializeCompressed(),
		f.sentPriv[3].PubKey().SerializeCompressed(), 5000,
	)
	if err != nil {
		t.Fatal(err)
	}
	f.addBlock(vSentinelHeight, vBlkPresent, [][]*wire.TxOut{{out}}, nil)
	ca := vMakeCA(sscid, f.sentPriv[0], f.sentPriv[1], f.sentPriv[2], f.sentPriv[3])
	f.sentHash[vMsgHash(ca)] = true
	fut := f.g.ProcessRemoteAnnouncement(ctx, ca, f.sentPeer)
	if v := f.await(fut, nil); v != "ok" {
		t.Fatalf("sentinel channel rejected: %v", v)
	}
	f.skipNode[vPub33(f.sentPriv[0])] = true
	f.skipNode[vPub33(f.sentPriv[1])] = true
	f.sentTs = 1_000_000
	f.flush()
	return f
}

// addBlock installs a block at the given height: one dummy first transaction
// followed by one transaction per entry of outs.  utxoSt[i][j] gives the utxo
// status of output j of transaction i+1 (default unspent).
func (f *vFix) addBlock(h int64, kind int, outs [][]*wire.TxOut, utxoSt map[[2]int]int) {
	blk := &wire.MsgBlock{}
	dummy := wire.NewMsgTx(2)
	dummy.LockTime = uint32(h)
	dummy.TxOut = append(dummy.TxOut, &wire.TxOut{Value: 1, PkScript: []byte{0x51}})
	blk.Transactions = append(blk.Transactions, dummy)
	for i, os := range outs {
		tx := wire.NewMsgTx(2)
		tx.LockTime = uint32(h)*16 + uint32(i)
		tx.TxOut = append(tx.TxOut, os...)
		blk.Transactions = append(blk.Transactions, tx)
		for j := range os {
			st := vUtxoUnspent
			if s, ok := utxoSt[[2]int{i + 1, j}]; ok {
				st = s
			}
			f.chain.utxo[wire.OutPoint{Hash: tx.TxHash(), Index: uint32(j)}] = st
		}
	}
	hh := vBlockHash(h)
	f.chain.mu.Lock()
	f.chain.blocks[h] = &vBlock{kind: kind, hash: hh, block: blk}
	f.chain.mu.Unlock()
}

// idle reports whether no validation job is active.
func (f *vFix) idle() bool {
	return len(f.g.vb.validationSemaphore) == cap(f.g.vb.validationSemaphore)
}

func vClassify(err error) string {
	if err == nil {
		return "ok"
	}
	s := err.Error()
	switch {
	case errors.Is(err, ErrNoFundingTransaction):
		return "err:nofund"
	case errors.Is(err, ErrInvalidFundingOutput):
		return "err:badout"
	case errors.Is(err, ErrChannelSpent):
		return "err:spent"
	case graph.IsError(err, graph.ErrOutdated):
		return "err:outdated"
	case graph.IsError(err, graph.ErrIgnored):
		return "err:ignored"
	case strings.Contains(s, "for own channel"):
		return "err:own"
	case strings.Contains(s, "recently rejected"):
		return "err:rejected"
	case strings.Contains(s, "from chain="):
		return "err:chain"
	case strings.Contains(s, "remote alias"):
		return "err:alias"
	case strings.Contains(s, "ignoring closed channel"):
		return "err:closed"
	case strings.Contains(s, "unable to validate announcement"):
		return "err:ca_invalid"
	case strings.Contains(s, "zero timestamp"):
		return "err:zerots"
	case strings.Contains(s, "skewed timestamp"):
		return "err:skew"
	case strings.Contains(s, "incorrect pubkey to resurrect"):
		return "err:zombie_key"
	case strings.Contains(s, "unable to verify channel update signature"):
		return "err:zombie_sig"
	case strings.Contains(s, "unable to validate channel update announcement"):
		return "err:cu_invalid"
	case strings.Contains(s, "unable to validate node announcement"):
		return "err:na_invalid"
	}
	if len(s) > 60 {
		s = s[:60]
	}
	return "err:other:" + s
}

type vFuture interface {
	Await(ctx context.Context) fn.Result[error]
}

// await waits until the future resolves, or — if inCache is non-nil — until
// the message is observed in the premature-update cache with no job active
// ("pending": lnd deliberately answers nothing until the channel shows up).
func (f *vFix) await(fut vFuture, inCache func() bool) string {
	done := make(chan error, 1)
	go func() {
		ctx, cancel := context.WithTimeout(context.Background(), 30*time.Second)
		defer cancel()
		res := fut.Await(ctx)
		v, err := res.Unpack()
		if err != nil {
			done <- fmt.Errorf("await-failed: %w", err)
			return
		}
		done <- v
	}()
	deadline := time.Now().Add(20 * time.Second)
	for {
		select {
		case err := <-done:
			if err != nil && strings.HasPrefix(err.Error(), "await-failed") {
				return "timeout"
			}
			f.waitIdle()
			return vClassify(err)
		case <-time.After(300 * time.Microsecond):
		}
		if inCache != nil && inCache() {
			f.waitIdle()
			return "pending"
		}
		if time.Now().After(deadline) {
			return "timeout"
		}
	}
}

func (f *vFix) waitIdle() {
	deadline := time.Now().Add(20 * time.Second)
	for !f.idle() {
		if time.Now().After(deadline) {
			f.t.Fatalf("validation jobs never finished")
		}
		time.Sleep(200 * time.Microsecond)
	}
}

// flush pushes a sentinel node announcement through the gossiper and waits
// until it reaches Broadcast: every announcement accepted before the call has
// then been emitted from the de-duplication batch.
func (f *vFix) flush() {
	f.waitIdle()
	f.sentTs++
	na := vMakeNA(f.sentPriv[0], f.sentTs, 0)
	h := vMsgHash(na)
	f.sentHash[h] = true
	fut := f.g.ProcessRemoteAnnouncement(context.Background(), na, f.sentPeer)
	if v := f.await(fut, nil); v != "ok" {
		f.t.Fatalf("sentinel node announcement rejected: %v", v)
	}
	deadline := time.Now().Add(20 * time.Second)
	for {
		f.bmu.Lock()
		seen := false
		for _, x := range f.bcast {
			if x == h {
				seen = true
				break
			}
		}
		f.bmu.Unlock()
		if seen {
			return
		}
		if time.Now().After(deadline) {
			f.t.Fatalf("sentinel never broadcast")
		}
		time.Sleep(300 * time.Microsecond)
	}
}

// restart stops the gossiper and the graph, reopens the graph store on the
// same backend (cold caches) and starts a fresh Builder and gossiper on it.
// Everything the gossiper kept in memory (reject cache, premature updates,
// rate limiters, ban scores) is gone; the graph is whatever was persisted.
func (f *vFix) restart() {
	f.flush()
	f.g.Stop()
	if err := f.builder.Stop(); err != nil {
		f.t.Fatalf("builder stop: %v", err)
	}
	if err := f.db.Stop(); err != nil {
		f.t.Fatalf("graph stop: %v", err)
	}
	f.restarts++
	f.start(false)
	f.flush()
}

// ---------------------------------------------------------------------------
// graph maintenance events (no gossip message involved): blocks connected to /
// disconnected from the Builder's chain view, explicit channel deletions (what
// abandonchannel, a local channel close and Builder.pruneZombieChans do) and
// the unconnected-node sweep.

// barrier returns once the Builder's networkHandler has finished the event
// handed to it before: the handler is a single goroutine reading unbuffered
// channels, so it can only accept this (ignored, already-processed height)
// block after the previous event was fully applied.
func (f *vFix) barrier() {
	select {
	case f.view.newB <- &chainview.FilteredBlock{Height: 0}:
	case <-time.After(30 * time.Second):
		f.t.Fatalf("builder network handler stuck")
	}
}

// connectBlock mines the block at tip+1.  spent: outpoints spent by it (as the
// filtered chain view reports them); remine: if the funding block that a
// re-org removed from this height exists, the new block carries the same
// transactions again.
func (f *vFix) connectBlock(spent []wire.OutPoint, remine bool) (int64, bool) {
	ch := f.chain
	ch.mu.Lock()
	h := int64(ch.best) + 1
	ch.gen++
	var hash chainhash.Hash
	hash[0], hash[1] = byte(h), byte(h>>8)
	hash[29], hash[30], hash[31] = byte(ch.gen>>8), byte(ch.gen), 0x78
	remined := false
	if ob, ok := ch.orphans[h]; ok && remine {
		ob.hash = hash
		ch.blocks[h] = ob
		delete(ch.orphans, h)
		remined = true
	} else {
		blk := &wire.MsgBlock{}
		dummy := wire.NewMsgTx(2)
		dummy.LockTime = uint32(h)<<8 + uint32(ch.gen)
		dummy.TxOut = append(dummy.TxOut, &wire.TxOut{Value: 1, PkScript: []byte{0x51}})
		blk.Transactions = append(blk.Transactions, dummy)
		ch.blocks[h] = &vBlock{kind: vBlkPresent, hash: hash, block: blk}
	}
	fb := &chainview.FilteredBlock{Hash: hash, Height: uint32(h)}
	if len(spent) > 0 {
		tx := wire.NewMsgTx(2)
		for i := range spent {
			ch.utxo[spent[i]] = vUtxoSpent
			tx.AddTxIn(wire.NewTxIn(&spent[i], nil, nil))
		}
		fb.Transactions = []*wire.MsgTx{tx}
	}
	ch.filtered[hash] = fb
	ch.best = int32(h)
	ch.mu.Unlock()
	select {
	case f.view.newB <- fb:
	case <-time.After(30 * time.Second):
		f.t.Fatalf("builder network handler stuck")
	}
	f.barrier()
	return h, remined
}

// disconnectTip re-orgs the tip block out of the chain.
func (f *vFix) disconnectTip() int64 {
	ch := f.chain
	ch.mu.Lock()
	h := int64(ch.best)
	if b, ok := ch.blocks[h]; ok {
		if len(b.block.Transactions) > 1 {
			ch.orphans[h] = b
		}
		delete(ch.blocks, h)
	}
	ch.best = int32(h - 1)
	ch.mu.Unlock()
	select {
	case f.view.staleB <- &chainview.FilteredBlock{Height: uint32(h)}:
	case <-time.After(30 * time.Second):
		f.t.Fatalf("builder network handler stuck")
	}
	f.barrier()
	return h
}

// ---------------------------------------------------------------------------
// message construction

func vMakeCA(scid lnwire.ShortChannelID, n1, n2, b1, b2 *btcec.PrivateKey) *lnwire.ChannelAnnouncement1 {
	a := &lnwire.ChannelAnnouncement1{
		ChainHash:      *chaincfg.MainNetParams.GenesisHash,
		ShortChannelID: scid,
		Features:       lnwire.NewRawFeatureVector(),
		NodeID1:        vPub33(n1),
		NodeID2:        vPub33(n2),
		BitcoinKey1:    vPub33(b1),
		BitcoinKey2:    vPub33(b2),
	}
	vSignCA(a, n1, n2, b1, b2)
	return a
}

func vSignCA(a *lnwire.ChannelAnnouncement1, n1, n2, b1, b2 *btcec.PrivateKey) {
	if n1 != nil {
		a.NodeSig1 = vSign(n1, a)
	}
	if n2 != nil {
		a.NodeSig2 = vSign(n2, a)
	}
	if b1 != nil {
		a.BitcoinSig1 = vSign(b1, a)
	}
	if b2 != nil {
		a.BitcoinSig2 = vSign(b2, a)
	}
}

func vMakeCU(scid lnwire.ShortChannelID, signer *btcec.PrivateKey, dir uint8,
	ts uint32, variant uint32) *lnwire.ChannelUpdate1 {

	u := &lnwire.ChannelUpdate1{
		ChainHash:       *chaincfg.MainNetParams.GenesisHash,
		ShortChannelID:  scid,
		Timestamp:       ts,
		MessageFlags:    lnwire.ChanUpdateRequiredMaxHtlc,
		ChannelFlags:    lnwire.ChanUpdateChanFlags(dir),
		TimeLockDelta:   uint16(40 + variant%7),
		HtlcMinimumMsat: 1000,
		HtlcMaximumMsat: 500_000,
		BaseFee:         1000 + variant,
		FeeRate:         1 + variant%100,
	}
	u.Signature = vSign(signer, u)
	return u
}

func vMakeNA(priv *btcec.PrivateKey, ts uint32, variant int) *lnwire.NodeAnnouncement1 {
	alias, _ := lnwire.NewNodeAlias(fmt.Sprintf("n%d", variant))
	a := &lnwire.NodeAnnouncement1{
		Timestamp: ts,
		Alias:     alias,
		Features:  lnwire.NewRawFeatureVector(),
		NodeID:    vPub33(priv),
	}
	a.RGBColor.R = uint8(variant)
	a.Signature = vSign(priv, a)
	return a
}

// vClone sends a message through the wire codec: what the gossiper is handed
// is always something a peer could really have delivered.
func vClone(m lnwire.Message) lnwire.Message {
	var b bytes.Buffer
	if _, err := lnwire.WriteMessage(&b, m, 0); err != nil {
		return nil
	}
	c, err := lnwire.ReadMessage(bytes.NewReader(b.Bytes()), 0)
	if err != nil {
		return nil
	}
	return c
}

// vExtra is a well-formed TLV record of an unknown odd type.
func vExtra(r *vrng) []byte {
	v := r.bytes(1 + r.intn(8))
	return append([]byte{byte(101 + 2*r.intn(40)), byte(len(v))}, v...)
}

// ---------------------------------------------------------------------------
// independent oracle evaluation

func vVerify(key [33]byte, digest []byte, sig lnwire.Sig) bool {
	pk, err := btcec.ParsePubKey(key[:])
	if err != nil {
		return false
	}
	s, err := sig.ToSignature()
	if err != nil {
		return false
	}
	return s.Verify(digest, pk)
}

type vCase struct {
	f    *vFix
	ids  *vIDs
	keys map[[33]byte]bool // every node key seen so far in the case
	// funding environment as set up by the generator, per block height
	scids map[uint64]bool
}

func (c *vCase) kid(k [33]byte) int { return c.ids.id("key", k[:]) }
func (c *vCase) sid(s lnwire.Sig) int {
	return c.ids.id("sig", s.RawBytes())
}

func vTaproot(fv *lnwire.RawFeatureVector) bool {
	if fv == nil || fv.IsEmpty() {
		return false
	}
	return lnwire.NewFeatureVector(fv, lnwire.Features).HasFeature(
		lnwire.SimpleTaprootChannelsOptionalStaging,
	)
}

// expectedScript: the pkScript a genuine funding output for these bitcoin
// keys must carry (nil if the keys cannot form one).
func vExpectedScript(b1, b2 [33]byte, taproot bool) []byte {
	if !taproot {
		_, out, err := input.GenFundingPkScript(b1[:], b2[:], 1)
		if err != nil {
			return nil
		}
		return out.PkScript
	}
	p1, err := btcec.ParsePubKey(b1[:])
	if err != nil {
		return nil
	}
	p2, err := btcec.ParsePubKey(b2[:])
	if err != nil {
		return nil
	}
	s, _, err := input.GenTaprootFundingScript(p1, p2, 0, fn.None[chainhash.Hash]())
	if err != nil {
		return nil
	}
	return s
}

// fundingOracle answers, from the harness' own chain tables, what the chain
// says about the output referenced by scid.
func (c *vCase) fundingOracle(scid lnwire.ShortChannelID) map[string]any {
	ch := c.f.chain
	ch.mu.Lock()
	defer ch.mu.Unlock()
	b, ok := ch.blocks[int64(scid.BlockHeight)]
	if !ok || b.kind == vBlkOOR || b.kind == vBlkNotFound {
		return map[string]any{"k": "notfound"}
	}
	if b.kind == vBlkRPCErr {
		return map[string]any{"k": "rpcerr"}
	}
	if int(scid.TxIndex) >= len(b.block.Transactions) {
		return map[string]any{"k": "notfound"} // "... out of range"
	}
	tx := b.block.Transactions[scid.TxIndex]
	if int(scid.TxPosition) >= len(tx.TxOut) {
		return map[string]any{"k": "tx", "script": nil}
	}
	out := tx.TxOut[scid.TxPosition]
	st := ch.utxo[wire.OutPoint{Hash: tx.TxHash(), Index: uint32(scid.TxPosition)}]
	_, known := ch.utxo[wire.OutPoint{Hash: tx.TxHash(), Index: uint32(scid.TxPosition)}]
	if !known {
		st = vUtxoErr
	}
	return map[string]any{
		"k": "tx", "script": c.ids.id("script", out.PkScript),
		"value": out.Value, "utxo": st,
	}
}

func (c *vCase) chainID(h chainhash.Hash) int {
	if h == *chaincfg.MainNetParams.GenesisHash {
		return 1
	}
	return 1 + c.ids.id("chain", append([]byte{1}, h[:]...))
}

// describe renders the abstract view of a message handed to the model plus
// the oracle entries it needs.
func (c *vCase) describe(m lnwire.Message) (map[string]any, map[string]any) {
	orc := map[string]any{}
	var ver [][3]int
	switch a := m.(type) {
	case *lnwire.ChannelAnnouncement1:
		data, err := a.DataToSign()
		if err != nil {
			panic(err)
		}
		dg := chainhash.DoubleHashB(data)
		did := c.ids.id("dig", dg)
		pairs := []struct {
			k [33]byte
			s lnwire.Sig
		}{{a.BitcoinKey1, a.BitcoinSig1}, {a.BitcoinKey2, a.BitcoinSig2},
			{a.NodeID1, a.NodeSig1}, {a.NodeID2, a.NodeSig2}}
		for _, p := range pairs {
			if vVerify(p.k, dg, p.s) {
				ver = append(ver, [3]int{c.kid(p.k), did, c.sid(p.s)})
			}
		}
		c.keys[a.NodeID1] = true
		c.keys[a.NodeID2] = true
		tap := vTaproot(a.Features)
		es := vExpectedScript(a.BitcoinKey1, a.BitcoinKey2, tap)
		if es == nil {
			orc["script"] = nil
		} else {
			orc["script"] = c.ids.id("script", es)
		}
		orc["fund"] = c.fundingOracle(a.ShortChannelID)
		orc["ver"] = ver
		c.scids[a.ShortChannelID.ToUint64()] = true
		return map[string]any{
			"t": "ca", "chain": c.chainID(a.ChainHash),
			"scid": a.ShortChannelID.ToUint64(),
			"n1":   c.kid(a.NodeID1), "n2": c.kid(a.NodeID2),
			"b1": c.kid(a.BitcoinKey1), "b2": c.kid(a.BitcoinKey2),
			"ns1": c.sid(a.NodeSig1), "ns2": c.sid(a.NodeSig2),
			"bs1": c.sid(a.BitcoinSig1), "bs2": c.sid(a.BitcoinSig2),
			"dg": did, "tap": tap, "alias": vIsAlias(a.ShortChannelID),
		}, orc

	case *lnwire.ChannelUpdate1:
		data, err := a.DataToSign()
		if err != nil {
			panic(err)
		}
		dg := chainhash.DoubleHashB(data)
		did := c.ids.id("dig", dg)
		for k := range c.keys {
			if vVerify(k, dg, a.Signature) {
				ver = append(ver, [3]int{c.kid(k), did, c.sid(a.Signature)})
			}
		}
		sort.Slice(ver, func(i, j int) bool { return ver[i][0] < ver[j][0] })
		orc["ver"] = ver
		c.scids[a.ShortChannelID.ToUint64()] = true
		return map[string]any{
			"t": "cu", "chain": c.chainID(a.ChainHash),
			"scid": a.ShortChannelID.ToUint64(), "ts": a.Timestamp,
			"mf": uint8(a.MessageFlags), "cf": uint8(a.ChannelFlags),
			"tld": a.TimeLockDelta, "min": uint64(a.HtlcMinimumMsat),
			"max": uint64(a.HtlcMaximumMsat), "base": a.BaseFee,
			"rate": a.FeeRate, "extra": c.ids.id("extra", a.ExtraOpaqueData),
			"sig": c.sid(a.Signature), "dg": did,
			"alias": vIsAlias(a.ShortChannelID),
		}, orc

	case *lnwire.NodeAnnouncement1:
		data, err := a.DataToSign()
		if err != nil {
			panic(err)
		}
		dg := chainhash.DoubleHashB(data)
		did := c.ids.id("dig", dg)
		if vVerify(a.NodeID, dg, a.Signature) {
			ver = append(ver, [3]int{c.kid(a.NodeID), did, c.sid(a.Signature)})
		}
		orc["ver"] = ver
		return map[string]any{
			"t": "na", "node": c.kid(a.NodeID), "ts": a.Timestamp,
			"sig": c.sid(a.Signature), "dg": did,
			"fields_ok": netann.ValidateNodeAnnFields(a) == nil,
		}, orc
	}
	panic("unexpected message type")
}

// ---------------------------------------------------------------------------
// graph snapshot (projected, canonical)

func (c *vCase) sigIDFromDER(der []byte) int {
	if len(der) == 0 {
		return 0
	}
	s, err := lnwire.NewSigFromECDSARawSignature(der)
	if err != nil {
		return 1 << 30
	}
	return c.sid(s)
}

func (c *vCase) pol(p *models.ChannelEdgePolicy) any {
	if p == nil {
		return nil
	}
	return []any{
		p.LastUpdate.Unix(), uint8(p.MessageFlags), uint8(p.ChannelFlags),
		p.TimeLockDelta, uint64(p.MinHTLC), uint64(p.MaxHTLC),
		uint64(p.FeeBaseMSat), uint64(p.FeeProportionalMillionths),
		c.ids.id("extra", p.ExtraOpaqueData), c.sigIDFromDER(p.SigBytes),
	}
}

func (c *vCase) snapshot() map[string]any {
	f := c.f
	ctx := context.Background()
	var chans [][]any
	err := f.db.ForEachChannel(ctx, lnwire.GossipVersion1, func(
		info *models.ChannelEdgeInfo, p1, p2 *models.ChannelEdgePolicy) error {

		if info.ChannelID>>40 == vSentinelHeight {
			return nil
		}
		var b1, b2 [33]byte
		info.BitcoinKey1Bytes.WhenSome(func(v route.Vertex) { b1 = v })
		info.BitcoinKey2Bytes.WhenSome(func(v route.Vertex) { b2 = v })
		chans = append(chans, []any{
			info.ChannelID, c.kid(info.NodeKey1Bytes), c.kid(info.NodeKey2Bytes),
			c.kid(b1), c.kid(b2), int64(info.Capacity), info.AuthProof != nil,
			c.pol(p1), c.pol(p2),
		})
		return nil
	}, func() { chans = nil })
	if err != nil {
		f.t.Fatalf("ForEachChannel: %v", err)
	}
	sort.Slice(chans, func(i, j int) bool {
		return chans[i][0].(uint64) < chans[j][0].(uint64)
	})
	var nodes [][]any
	err = f.vg.ForEachNode(ctx, func(n *models.Node) error {
		if f.skipNode[n.PubKeyBytes] {
			return nil
		}
		ts := n.LastUpdate.Unix()
		if n.LastUpdate.IsZero() || ts < 0 {
			ts = 0
		}
		nodes = append(nodes, []any{c.kid(n.PubKeyBytes), ts, c.sigIDFromDER(n.AuthSigBytes)})
		return nil
	}, func() { nodes = nil })
	if err != nil {
		f.t.Fatalf("ForEachNode: %v", err)
	}
	sort.Slice(nodes, func(i, j int) bool { return nodes[i][0].(int) < nodes[j][0].(int) })
	// zombie index entries with the node keys stored for them: [scid, key1, key2]
	var zombies [][]any
	var closed []uint64
	for s := range c.scids {
		z, k1, k2, err := f.vg.IsZombieEdge(ctx, s)
		if err != nil {
			f.t.Fatalf("IsZombieEdge: %v", err)
		}
		if z {
			zombies = append(zombies, []any{s, c.kid(k1), c.kid(k2)})
		}
		cl, _ := f.closer.IsClosedScid(ctx, lnwire.NewShortChanIDFromInt(s))
		if cl {
			closed = append(closed, s)
		}
	}
	sort.Slice(zombies, func(i, j int) bool { return zombies[i][0].(uint64) < zombies[j][0].(uint64) })
	sort.Slice(closed, func(i, j int) bool { return closed[i] < closed[j] })
	if chans == nil {
		chans = [][]any{}
	}
	if nodes == nil {
		nodes = [][]any{}
	}
	if zombies == nil {
		zombies = [][]any{}
	}
	if closed == nil {
		closed = []uint64{}
	}
	return map[string]any{"chans": chans, "nodes": nodes, "zombies": zombies, "closed": closed}
}

// gossipBest: the best block height the gossiper currently works with (read
// from the Builder's chain at start-up; block epochs are not delivered to the
// gossiper in this harness, so it only moves at a restart).
func (f *vFix) gossipBest() uint32 {
	f.g.Lock()
	defer f.g.Unlock()
	return f.g.bestHeight
}

func (f *vFix) banScore(pk [33]byte) uint64 {
	bi, err := f.g.banman.peerBanIndex.Get(pk)
	if err != nil {
		return 0
	}
	return bi.score
}

// ---------------------------------------------------------------------------
// generator

type vChanDef struct {
	scid    lnwire.ShortChannelID
	n       [2]int // node key indices (n[0] has the smaller pubkey)
	b       [2]int
	envKind string
	value   int64
}

// vOp is a graph maintenance event (see applyOp).
type vOp struct {
	kind         string // connect | disconnect | delete | prune_nodes
	spend        []int  // connect: channels whose funding output the block spends
	spendUnknown bool   // connect: the block also spends an output that is no known channel
	remine       bool   // connect: re-mine the funding block a re-org removed from this height
	ch           int    // delete: channel index
	zombie       bool   // delete: markZombie
	strict       bool   // delete: strictZombiePruning
	missing      bool   // delete: a channel id that is not in the graph
}

// vEvent: either a gossip message or a graph maintenance event.
type vEvent struct {
	m        lnwire.Message
	tag      string
	op       *vOp
	scripted bool // part of a scripted set-up: always through the gossiper
}

type vGen struct {
	kind string
	// script: events to run first (setup phase of the "restart" and "history" kinds)
	script []func() vEvent
	// tail: after the script of a "history" case: random graph events mixed
	// with messages aimed at the channels / nodes they touched
	tail bool
	// postLeft > 0: the gossiper was just restarted on a cold store; bias
	// towards re-gossiped / duplicate / superseded messages
	postLeft int
	// stepNow: wall clock (unix seconds) recorded for the step being generated
	stepNow uint32
	r       *vrng
	c       *vCase
	nk      []*btcec.PrivateKey
	bk      []*btcec.PrivateKey
	chans   []vChanDef
	now     uint32
	base    uint32
	// last timestamp generated per (chan, dir) and per node, and the variant
	// used for the last properly signed update (for keep-alives)
	cuTs  map[[2]int]uint32
	cuVar map[[2]int]uint32
	naTs  map[int]uint32
	sent  []lnwire.Message
	// pending[scid][dir]: the distinct updates waiting in the premature-update
	// cache for that direction
	pending map[uint64]map[uint8][]vParked
	// wrongTs: clock of the updates signed by the wrong channel party (always
	// ahead of the owners' clocks, see mayPark)
	wrongTs uint32
}

type vParked struct {
	hash   string
	signer int
	ts     uint32
}

func (g *vGen) sortedPair(a, b int) [2]int {
	pa, pb := vPub33(g.nk[a]), vPub33(g.nk[b])
	if bytes.Compare(pa[:], pb[:]) < 0 {
		return [2]int{a, b}
	}
	return [2]int{b, a}
}

var vEnvKinds = []string{"good", "good", "good", "good", "good", "spent", "utxoerr",
	"wrongscript", "oor", "rpcerr", "blocknotfound", "txidx", "pos"}

func (g *vGen) setup() {
	r := g.r
	for i := 0; i < 4; i++ {
		k, _ := btcec.PrivKeyFromBytes(r.bytes(32))
		g.nk = append(g.nk, k)
		k2, _ := btcec.PrivKeyFromBytes(r.bytes(32))
		g.bk = append(g.bk, k2)
	}
	nch := 2 + r.intn(2)
	for i := 0; i < nch; i++ {
		a := r.intn(4)
		b := (a + 1 + r.intn(3)) % 4
		d := vChanDef{n: g.sortedPair(a, b), b: [2]int{r.intn(4), r.intn(4)}}
		d.envKind = vEnvKinds[r.intn(len(vEnvKinds))]
		if (i == 0 && (r.intn(4) != 0 || g.kind == "burst" || g.kind == "restart" || g.kind == "interleave")) ||
			(g.kind == "restart" && r.intn(2) == 0) {
			d.envKind = "good"
		}
		// funding output value (= channel capacity): around the fixed 500000 msat
		// max-htlc of plain updates, tiny, zero and the whole money supply
		d.value = []int64{1000, 500, 499, 501, 100000, 1000, 500, 1, 0,
			2_100_000_000_000_000}[r.intn(10)]
		h := int64(100 + i)
		if g.kind == "history" {
			// funding blocks at the chain tip: a re-org of 1-3 blocks removes
			// them.  Channel 0 connects nodes 0 and 1 and is always genuine.
			h = int64(vBestHeight - i)
			if i == 0 {
				d.n = g.sortedPair(0, 1)
			} else {
				// node 0 has no other channel: it always loses its last
				// channel when channel 0 goes
				a := 1 + r.intn(3)
				d.n = g.sortedPair(a, 1+(a+r.intn(2))%3)
			}
			if i == 0 || r.intn(5) != 0 {
				d.envKind = "good"
			}
		}
		d.scid = lnwire.ShortChannelID{BlockHeight: uint32(h), TxIndex: 1, TxPosition: 0}
		_, good, _ := input.GenFundingPkScript(
			g.bk[d.b[0]].PubKey().SerializeCompressed(),
			g.bk[d.b[1]].PubKey().SerializeCompressed(), 1,
		)
		_, other, _ := input.GenFundingPkScript(
			g.bk[(d.b[0]+1)%4].PubKey().SerializeCompressed(),
			g.bk[(d.b[1]+2)%4].PubKey().SerializeCompressed(), 1,
		)
		good.Value, other.Value = d.value, d.value
		outs := [][]*wire.TxOut{{good, other}}
		st := map[[2]int]int{}
		kind := vBlkPresent
		switch d.envKind {
		case "spent":
			st[[2]int{1, 0}] = vUtxoSpent
		case "utxoerr":
			st[[2]int{1, 0}] = vUtxoErr
		case "wrongscript":
			outs = [][]*wire.TxOut{{other, good}}
		case "oor":
			kind = vBlkOOR
		case "rpcerr":
			kind = vBlkRPCErr
		case "blocknotfound":
			kind = vBlkNotFound
		case "txidx":
			d.scid.TxIndex = 5
		case "pos":
			d.scid.TxPosition = 7
		}
		// sometimes the sibling output is spent: announcing it must fail too
		if r.intn(3) == 0 {
			st[[2]int{1, 1}] = vUtxoSpent
		}
		g.c.f.addBlock(h, kind, outs, st)
		g.chans = append(g.chans, d)
	}
	g.now = uint32(time.Now().Unix())
	g.base = g.now - 3*86400
	g.cuTs = map[[2]int]uint32{}
	g.cuVar = map[[2]int]uint32{}
	g.naTs = map[int]uint32{}
	g.pending = map[uint64]map[uint8][]vParked{}
}

func (g *vGen) validCA(i int) *lnwire.ChannelAnnouncement1 {
	d := g.chans[i]
	return vMakeCA(d.scid, g.nk[d.n[0]], g.nk[d.n[1]], g.bk[d.b[0]], g.bk[d.b[1]])
}

// nextTs picks a timestamp relative to the last one generated for the slot:
// stale, equal, +1, or comfortably newer.
func (g *vGen) pickTs(last uint32) (uint32, string) {
	if last == 0 {
		return g.base + uint32(g.r.intn(1000)), "first"
	}
	switch g.r.intn(8) {
	case 0:
		return last - 1, "stale"
	case 1:
		return last, "equal"
	case 2:
		return last + 1, "plus1"
	default:
		return last + 10 + uint32(g.r.intn(500)), "newer"
	}
}

func (g *vGen) validCU(i int, dir uint8) (*lnwire.ChannelUpdate1, string) {
	d := g.chans[i]
	slot := [2]int{i, int(dir)}
	ts, tag := g.pickTs(g.cuTs[slot])
	v := uint32(g.r.intn(1000))
	if ts > g.cuTs[slot] {
		g.cuTs[slot] = ts
		g.cuVar[slot] = v
	}
	return vMakeCU(d.scid, g.nk[d.n[dir]], dir, ts, v), "cu_" + tag
}

func (g *vGen) validNA(n int) (*lnwire.NodeAnnouncement1, string) {
	ts, tag := g.pickTs(g.naTs[n])
	if ts > g.naTs[n] {
		g.naTs[n] = ts
	}
	return vMakeNA(g.nk[n], ts, g.r.intn(200)), "na_" + tag
}

func (g *vGen) randSig() lnwire.Sig {
	s, err := lnwire.NewSigFromWireECDSA(g.r.bytes(64))
	if err != nil {
		panic(err)
	}
	return s
}

// corruptCA: one field of a valid announcement changed; resign=true means the
// attacker owns the (new) keys and signs again, false means plain tampering.
func (g *vGen) corruptCA(i int) (*lnwire.ChannelAnnouncement1, string) {
	r := g.r
	d := g.chans[i]
	a := g.validCA(i)
	n1, n2, b1, b2 := g.nk[d.n[0]], g.nk[d.n[1]], g.bk[d.b[0]], g.bk[d.b[1]]
	resign := r.bool()
	tag := ""
	switch r.intn(13) {
	case 0: // one signature replaced by random bytes
		w := r.intn(4)
		*[]*lnwire.Sig{&a.NodeSig1, &a.NodeSig2, &a.BitcoinSig1, &a.BitcoinSig2}[w] = g.randSig()
		return a, fmt.Sprintf("ca_sig%d_random", w)
	case 1: // one signature made by another key over the right digest
		w := r.intn(4)
		other := g.nk[r.intn(4)]
		if w >= 2 {
			other = g.bk[(d.b[w-2]+1+r.intn(3))%4]
		} else {
			other = g.nk[(d.n[w]+1+r.intn(3))%4]
		}
		*[]*lnwire.Sig{&a.NodeSig1, &a.NodeSig2, &a.BitcoinSig1, &a.BitcoinSig2}[w] = vSign(other, a)
		return a, fmt.Sprintf("ca_sig%d_wrongsigner", w)
	case 2: // signatures swapped
		if r.bool() {
			a.NodeSig1, a.NodeSig2 = a.NodeSig2, a.NodeSig1
			return a, "ca_nodesigs_swapped"
		}
		a.BitcoinSig1, a.NodeSig1 = a.NodeSig1, a.BitcoinSig1
		return a, "ca_btc_node_sig_swapped"
	case 3: // node key replaced
		w := r.intn(2)
		nk := g.nk[(d.n[w]+1+r.intn(3))%4]
		if w == 0 {
			a.NodeID1 = vPub33(nk)
			n1 = nk
		} else {
			a.NodeID2 = vPub33(nk)
			n2 = nk
		}
		tag = fmt.Sprintf("ca_nodekey%d", w+1)
	case 4: // bitcoin key replaced
		w := r.intn(2)
		bk := g.bk[(d.b[w]+1+r.intn(3))%4]
		if w == 0 {
			a.BitcoinKey1 = vPub33(bk)
			b1 = bk
		} else {
			a.BitcoinKey2 = vPub33(bk)
			b2 = bk
		}
		tag = fmt.Sprintf("ca_btckey%d", w+1)
	case 5: // bitcoin keys swapped (same 2-of-2 script)
		a.BitcoinKey1, a.BitcoinKey2 = a.BitcoinKey2, a.BitcoinKey1
		b1, b2 = b2, b1
		tag = "ca_btckeys_swapped"
	case 6: // scid changed
		switch r.intn(5) {
		case 0:
			a.ShortChannelID.TxPosition ^= 1
		case 1:
			a.ShortChannelID.TxIndex = uint32(r.intn(4))
		case 2:
			a.ShortChannelID.BlockHeight = uint32(100 + r.intn(8))
		case 3:
			a.ShortChannelID.BlockHeight = vBestHeight + uint32(r.intn(3))
		default:
			a.ShortChannelID.BlockHeight = vAliasStart + uint32(r.intn(2)) - 1
		}
		tag = "ca_scid"
	case 7: // chain hash
		a.ChainHash[r.intn(32)] ^= 1 << uint(r.intn(8))
		tag = "ca_chain"
	case 8: // feature bit added
		bit := lnwire.FeatureBit([]int{0, 5, 180, 181, 1000, 23}[r.intn(6)])
		a.Features.Set(bit)
		tag = fmt.Sprintf("ca_feature%d", bit)
	case 9: // extra opaque data
		a.ExtraOpaqueData = append(a.ExtraOpaqueData, vExtra(r)...)
		tag = "ca_extra"
	case 10: // a key corrupted into (very likely) not-a-point
		w := r.intn(4)
		k := []*[33]byte{&a.NodeID1, &a.NodeID2, &a.BitcoinKey1, &a.BitcoinKey2}[w]
		k[1+r.intn(32)] ^= 1 << uint(r.intn(8))
		return a, fmt.Sprintf("ca_key%d_bitflip", w)
	case 11: // own key as a node key
		a.NodeID2 = vPub33(g.c.f.selfPriv)
		n2 = g.c.f.selfPriv
		tag = "ca_ownkey"
	default: // node ids swapped
		a.NodeID1, a.NodeID2 = a.NodeID2, a.NodeID1
		n1, n2 = n2, n1
		tag = "ca_nodeids_swapped"
	}
	if resign {
		vSignCA(a, n1, n2, b1, b2)
		return a, tag + "_resigned"
	}
	return a, tag
}

func (g *vGen) corruptCU(i int) (*lnwire.ChannelUpdate1, string) {
	r := g.r
	d := g.chans[i]
	dir := uint8(r.intn(2))
	slot := [2]int{i, int(dir)}
	last := g.cuTs[slot]
	ts := last + 5 + uint32(r.intn(50))
	if last == 0 {
		ts = g.base + uint32(r.intn(1000))
	}
	u := vMakeCU(d.scid, g.nk[d.n[dir]], dir, ts, uint32(r.intn(1000)))
	signer := g.nk[d.n[dir]]
	resign := true
	tag := ""
	capMsat := uint64(d.value) * 1000
	switch r.intn(20) {
	case 0:
		u.Signature = g.randSig()
		return u, "cu_sig_random"
	case 1: // signed by the OTHER channel party (wrong direction)
		u.Signature = vSign(g.nk[d.n[1-dir]], u)
		return u, "cu_wrongdir_signer"
	case 2: // signed by a node that is not in the channel
		for _, k := range g.nk {
			if k != g.nk[d.n[0]] && k != g.nk[d.n[1]] {
				u.Signature = vSign(k, u)
			}
		}
		return u, "cu_stranger_signer"
	case 3: // direction bit flipped, same signer re-signs / or not
		u.ChannelFlags ^= 1
		resign = r.bool()
		tag = "cu_dirflip"
	case 4:
		u.ChannelFlags |= lnwire.ChanUpdateDisabled
		resign = r.bool()
		tag = "cu_disable"
	case 5: // max-htlc flag cleared
		u.MessageFlags = 0
		resign = r.intn(4) != 0
		tag = "cu_nomaxflag"
	case 6: // max htlc boundaries
		opts := []uint64{0, 999, 1000, 1001, capMsat - 1, capMsat, capMsat + 1, capMsat * 2}
		u.HtlcMaximumMsat = lnwire.MilliSatoshi(opts[r.intn(len(opts))])
		resign = r.intn(6) != 0
		tag = fmt.Sprintf("cu_max")
	case 7:
		u.HtlcMinimumMsat = lnwire.MilliSatoshi([]uint64{0, 499_999, 500_000, 500_001}[r.intn(4)])
		resign = r.intn(6) != 0
		tag = "cu_min"
	case 8: // timestamp specials
		switch r.intn(5) {
		case 0:
			u.Timestamp = 0
			tag = "cu_ts_zero"
		case 1:
			u.Timestamp = g.now + 14*86400 + 2000
			tag = "cu_ts_skew_over"
		case 2:
			u.Timestamp = g.now + 14*86400 - 2000
			tag = "cu_ts_skew_under"
		case 3:
			u.Timestamp = 1234567890
			tag = "cu_ts_ancient"
		default:
			u.Timestamp = 0xffffffff
			tag = "cu_ts_max"
		}
		resign = r.intn(6) != 0
	case 9, 16, 17, 18, 19: // keep-alive around the rebroadcast interval
		if last == 0 {
			return u, "cu_plain"
		}
		delta := []uint32{86399, 86400, 86401, 1, 3600}[r.intn(5)]
		u = vMakeCU(d.scid, signer, dir, last+delta, g.cuVar[slot])
		return u, fmt.Sprintf("cu_keepalive_%d", delta)
	case 10: // scid changed -> unknown channel / other channel
		switch r.intn(4) {
		case 0:
			u.ShortChannelID.TxPosition ^= 1
		case 1:
			u.ShortChannelID.BlockHeight = uint32(100 + r.intn(8))
		case 2:
			u.ShortChannelID.BlockHeight = vBestHeight + uint32(r.intn(3))
		default:
			u.ShortChannelID.BlockHeight = vAliasStart + uint32(r.intn(2)) - 1
		}
		resign = r.bool()
		tag = "cu_scid"
	case 11:
		u.ChainHash[r.intn(32)] ^= 1 << uint(r.intn(8))
		resign = r.bool()
		tag = "cu_chain"
	case 12:
		u.ExtraOpaqueData = append(u.ExtraOpaqueData, vExtra(r)...)
		resign = r.bool()
		tag = "cu_extra"
	case 13:
		u.BaseFee++
		resign = false
		tag = "cu_basefee"
	case 14:
		u.FeeRate ^= 1 << uint(r.intn(20))
		resign = false
		tag = "cu_feerate"
	default:
		u.TimeLockDelta++
		resign = false
		tag = "cu_tld"
	}
	if resign {
		u.Signature = vSign(signer, u)
		return u, tag + "_resigned"
	}
	return u, tag
}

func (g *vGen) corruptNA(n int) (*lnwire.NodeAnnouncement1, string) {
	r := g.r
	last := g.naTs[n]
	ts := last + 5 + uint32(r.intn(50))
	if last == 0 {
		ts = g.base + uint32(r.intn(1000))
	}
	a := vMakeNA(g.nk[n], ts, r.intn(200))
	resign := false
	tag := ""
	switch r.intn(9) {
	case 0:
		a.Signature = g.randSig()
		return a, "na_sig_random"
	case 1:
		a.Signature = vSign(g.nk[(n+1+r.intn(3))%4], a)
		return a, "na_wrongsigner"
	case 2: // node id replaced (other known node / unknown node)
		if r.bool() {
			a.NodeID = vPub33(g.nk[(n+1+r.intn(3))%4])
		} else {
			k, _ := btcec.PrivKeyFromBytes(r.bytes(32))
			a.NodeID = vPub33(k)
			if r.bool() {
				a.Signature = vSign(k, a)
				return a, "na_unknown_node_selfsigned"
			}
		}
		tag = "na_nodeid"
	case 3:
		a.Timestamp = 0
		resign = r.bool()
		tag = "na_ts_zero"
	case 4:
		a.Features.Set(lnwire.FeatureBit(r.intn(64)))
		resign = r.intn(3) == 0
		tag = "na_features"
	case 5:
		a.ExtraOpaqueData = append(a.ExtraOpaqueData, vExtra(r)...)
		resign = r.intn(3) == 0
		tag = "na_extra"
	case 6:
		a.RGBColor.G ^= 0x40
		tag = "na_color"
	case 7:
		a.Alias[0] ^= 0x01
		tag = "na_alias"
	default:
		a.NodeID[1+r.intn(32)] ^= 1 << uint(r.intn(8))
		tag = "na_key_bitflip"
	}
	if resign {
		a.Signature = vSign(g.nk[n], a)
		return a, tag + "_resigned"
	}
	return a, tag
}

// straddleCU builds a GENUINELY signed update for (channel i, dir) whose
// timestamp is chosen relative to BOTH stored policies of the channel: equal
// to / around its own direction's stored timestamp and, above all, strictly
// between the other direction's stored timestamp and its own (a superseded
// update that only a per-direction freshness check rejects).
func (g *vGen) straddleCU(i int, dir uint8) (*lnwire.ChannelUpdate1, string) {
	d := g.chans[i]
	_, p1, p2, err := g.c.f.builder.GetChannelByID(d.scid)
	if err != nil || p1 == nil || p2 == nil {
		return g.validCU(i, dir)
	}
	own, other := p1, p2
	if dir == 1 {
		own, other = p2, p1
	}
	tsOwn, tsOther := uint32(own.LastUpdate.Unix()), uint32(other.LastUpdate.Unix())
	cands := []uint32{tsOwn, tsOwn - 1, tsOwn + 1, tsOther, tsOther + 1, tsOther - 1}
	tag := "cu_straddle_edge"
	if tsOwn > tsOther+1 && g.r.intn(4) != 0 {
		span := tsOwn - tsOther - 1
		cands = []uint32{tsOther + 1 + uint32(g.r.intn(int(span))), tsOther + 1, tsOwn - 1,
			tsOther + 1 + span/2}
		tag = "cu_straddle_between"
	}
	ts := cands[g.r.intn(len(cands))]
	if ts == 0 {
		ts = 1
	}
	return vMakeCU(d.scid, g.nk[d.n[dir]], dir, ts, uint32(g.r.intn(1000))), tag
}

// postRestart picks a message for the steps right after a restart.
func (g *vGen) postRestart() (lnwire.Message, string) {
	r := g.r
	nch := len(g.chans)
	w := r.intn(100)
	switch {
	case w < 14:
		return g.validCA(r.intn(nch)), "ca_regossip"
	case w < 30:
		var cus []lnwire.Message
		for _, m := range g.sent {
			if _, ok := m.(*lnwire.ChannelUpdate1); ok {
				cus = append(cus, m)
			}
		}
		if len(cus) > 0 {
			return vClone(cus[r.intn(len(cus))]), "cu_duplicate"
		}
		return g.validCA(r.intn(nch)), "ca_regossip"
	case w < 70:
		return g.straddleCU(r.intn(nch), uint8(r.intn(2)))
	case w < 84:
		return g.boundaryCU(r.intn(nch), uint8(r.intn(2)))
	case w < 92:
		return g.validCU(r.intn(nch), uint8(r.intn(2)))
	default:
		return g.validNA(r.intn(4))
	}
}

// freshTs returns a timestamp strictly newer than everything generated so far
// for the slot (and records it).
func (g *vGen) freshTs(slot [2]int) uint32 {
	ts := g.cuTs[slot] + 1 + uint32(g.r.intn(20))
	if g.cuTs[slot] == 0 {
		ts = g.base + uint32(g.r.intn(1000))
	}
	g.cuTs[slot] = ts
	return ts
}

// boundaryCU: a properly signed update by the right node whose ONE interesting
// field sits at (or one off) a comparison of the update validation:
//
//	max_htlc vs capacity in MILLIsatoshi (cap-1, cap, cap+1, cap+500, cap+999,
//	cap+1000), max_htlc vs min_htlc (min-1, min, min+1), max_htlc = 0, the
//	message-flag bit gating max_htlc, channel-flag bits around the direction
//	bit, timestamp vs the STORED timestamp of its direction (-1, 0, +1),
//	timestamp vs now + prune expiry (future skew), zero timestamp.
func (g *vGen) boundaryCU(i int, dir uint8) (*lnwire.ChannelUpdate1, string) {
	r := g.r
	d := g.chans[i]
	slot := [2]int{i, int(dir)}
	signer := g.nk[d.n[dir]]
	capM := uint64(d.value) * 1000
	u := vMakeCU(d.scid, signer, dir, 1, uint32(r.intn(1000)))
	tag := ""
	w := r.intn(20)
	switch {
	case w < 8: // max_htlc against the capacity, in msat
		u.Timestamp = g.freshTs(slot)
		u.HtlcMinimumMsat = lnwire.MilliSatoshi(r.intn(2))
		var opts []uint64
		if capM == 0 {
			opts = []uint64{1, 2, 1000, 1 << 62, ^uint64(0)}
		} else {
			opts = []uint64{capM - 1, capM, capM + 1, capM + 500, capM + 999, capM + 1000,
				capM + 1, capM + 999, capM}
		}
		k := r.intn(len(opts))
		u.HtlcMaximumMsat = lnwire.MilliSatoshi(opts[k])
		tag = fmt.Sprintf("cu_b_maxcap%d", k)
	case w < 11: // max_htlc against min_htlc
		u.Timestamp = g.freshTs(slot)
		m := uint64(1000)
		if capM != 0 && capM < 1001 {
			m = 1
		}
		k := r.intn(4)
		u.HtlcMinimumMsat = lnwire.MilliSatoshi(m)
		u.HtlcMaximumMsat = lnwire.MilliSatoshi([]uint64{m - 1, m, m + 1, 0}[k])
		if k == 3 {
			u.HtlcMinimumMsat = 0
		}
		tag = fmt.Sprintf("cu_b_maxmin%d", k)
	case w < 13: // message flags: bit 0 gates max_htlc
		u.Timestamp = g.freshTs(slot)
		if capM != 0 && capM < uint64(u.HtlcMaximumMsat) {
			u.HtlcMinimumMsat, u.HtlcMaximumMsat = 0, lnwire.MilliSatoshi(capM)
		}
		mf := []uint8{0, 2, 3, 0xfe, 0xff, 1}[r.intn(6)]
		u.MessageFlags = lnwire.ChanUpdateMsgFlags(mf)
		tag = fmt.Sprintf("cu_b_msgflags%d", mf)
	case w < 15: // channel flags: other bits next to the direction bit
		u.Timestamp = g.freshTs(slot)
		if capM != 0 && capM < uint64(u.HtlcMaximumMsat) {
			u.HtlcMinimumMsat, u.HtlcMaximumMsat = 0, lnwire.MilliSatoshi(capM)
		}
		cf := []uint8{2, 4, 0x80, 0xfe, 6}[r.intn(5)] | dir
		u.ChannelFlags = lnwire.ChanUpdateChanFlags(cf)
		tag = fmt.Sprintf("cu_b_chanflags%d", cf)
	case w < 18: // timestamp against the stored one of this direction
		if capM != 0 && capM < uint64(u.HtlcMaximumMsat) {
			u.HtlcMinimumMsat, u.HtlcMaximumMsat = 0, lnwire.MilliSatoshi(capM)
		}
		_, p1, p2, err := g.c.f.builder.GetChannelByID(d.scid)
		own := p1
		if dir == 1 {
			own = p2
		}
		if err != nil || own == nil {
			u.Timestamp = []uint32{1, 2, g.freshTs(slot)}[r.intn(3)]
			tag = "cu_b_ts_first"
		} else {
			st := uint32(own.LastUpdate.Unix())
			k := r.intn(3)
			u.Timestamp = st - 1 + uint32(k)
			if u.Timestamp > g.cuTs[slot] {
				g.cuTs[slot] = u.Timestamp
			}
			tag = fmt.Sprintf("cu_b_ts_stored%+d", k-1)
		}
	case w < 19: // future skew: now + prune expiry
		if capM != 0 && capM < uint64(u.HtlcMaximumMsat) {
			u.HtlcMinimumMsat, u.HtlcMaximumMsat = 0, lnwire.MilliSatoshi(capM)
		}
		k := []int64{-1, 0, 45}[r.intn(3)]
		u.Timestamp = uint32(int64(g.stepNow) + int64(vPruneExpiry/time.Second) + k)
		if k <= 0 && u.Timestamp > g.cuTs[slot] {
			g.cuTs[slot] = u.Timestamp
		}
		tag = fmt.Sprintf("cu_b_skew%+d", k)
	default:
		u.Timestamp = 0
		tag = "cu_b_ts_zero"
	}
	u.Signature = vSign(signer, u)
	return u, tag
}

// boundaryNA: properly signed node announcement with the timestamp at the
// stored one -1 / 0 / +1 (a shell node stores 0, so 0, 1, 2).
func (g *vGen) boundaryNA(n int) (*lnwire.NodeAnnouncement1, string) {
	pub := vPub33(g.nk[n])
	last, exists, err := g.c.f.db.HasV1Node(context.Background(), pub)
	st := uint32(0)
	if err == nil && exists && last.Unix() > 0 {
		st = uint32(last.Unix())
	}
	k := g.r.intn(3)
	ts := st + uint32(k)
	if st > 0 {
		ts = st - 1 + uint32(k)
	}
	if ts > g.naTs[n] {
		g.naTs[n] = ts
	}
	return vMakeNA(g.nk[n], ts, g.r.intn(200)), fmt.Sprintf("na_b_ts_stored%d_%d", boolInt(st > 0), k)
}

func boolInt(b bool) int {
	if b {
		return 1
	}
	return 0
}

// boundaryCA: a fully re-signed announcement whose scid block height sits at
// the best-height (premature) boundary or at the alias-range boundary.
func (g *vGen) boundaryCA(i int) (*lnwire.ChannelAnnouncement1, string) {
	d := g.chans[i]
	a := g.validCA(i)
	hs := []uint32{vBestHeight - 1, vBestHeight, vBestHeight + 1, vAliasStart - 1, vAliasStart}
	k := g.r.intn(len(hs))
	a.ShortChannelID.BlockHeight = hs[k]
	vSignCA(a, g.nk[d.n[0]], g.nk[d.n[1]], g.bk[d.b[0]], g.bk[d.b[1]])
	return a, fmt.Sprintf("ca_b_height%d", k)
}

// byteCorrupt flips one bit of the serialised payload of a valid message; nil
// if the result no longer decodes.
func (g *vGen) byteCorrupt(m lnwire.Message) lnwire.Message {
	var b bytes.Buffer
	if _, err := lnwire.WriteMessage(&b, m, 0); err != nil {
		return nil
	}
	raw := b.Bytes()
	if len(raw) <= 2 {
		return nil
	}
	pos := 2 + g.r.intn(len(raw)-2)
	raw[pos] ^= 1 << uint(g.r.intn(8))
	c, err := lnwire.ReadMessage(bytes.NewReader(raw), 0)
	if err != nil {
		return nil
	}
	switch c.(type) {
	case *lnwire.ChannelAnnouncement1, *lnwire.ChannelUpdate1, *lnwire.NodeAnnouncement1:
		return c
	}
	return nil
}

// next produces the next message of the case (never nil) and a tag naming the
// generator's intent (used only for histograms).
func (g *vGen) next(step int, kind string) (lnwire.Message, string) {
	r := g.r
	nch := len(g.chans)
	for tries := 0; ; tries++ {
		var m lnwire.Message
		tag := ""
		w := r.intn(100)
		if tries > 40 {
			// the pending-update rule keeps refusing: send something harmless
			w = 30 + r.intn(10)
			kind = "mixed"
		}
		if g.postLeft > 0 && tries <= 40 && (kind == "restart" || r.intn(10) < 6) {
			m, tag = g.postRestart()
		} else if kind == "burst" && step == 0 {
			m, tag = g.validCA(0), "ca_valid"
		} else if kind == "burst" && step > 1 {
			// rate-limiter: a long run of distinct valid updates
			u, t := g.validCU(0, 0)
			if r.intn(6) == 0 {
				u, t = g.validCU(0, 1)
			}
			m, tag = u, t
		} else if kind == "ordered" && step < nch {
			m, tag = g.validCA(step), "ca_valid"
		} else {
			switch {
			case w < 12:
				m, tag = g.validCA(r.intn(nch)), "ca_valid"
			case w < 30:
				m, tag = g.validCU(r.intn(nch), uint8(r.intn(2)))
			case w < 40:
				m, tag = g.validNA(r.intn(4))
			case w < 46 && len(g.sent) > 0:
				m, tag = vClone(g.sent[r.intn(len(g.sent))]), "duplicate"
			case w < 62:
				m, tag = g.boundaryCU(r.intn(nch), uint8(r.intn(2)))
			case w < 67:
				m, tag = g.boundaryNA(r.intn(4))
			case w < 71:
				m, tag = g.boundaryCA(r.intn(nch))
			case w < 80:
				m, tag = g.corruptCA(r.intn(nch))
			case w < 90:
				m, tag = g.corruptCU(r.intn(nch))
			case w < 95:
				m, tag = g.corruptNA(r.intn(4))
			default:
				var src lnwire.Message
				switch r.intn(3) {
				case 0:
					src = g.validCA(r.intn(nch))
				case 1:
					src, _ = g.validCU(r.intn(nch), uint8(r.intn(2)))
				default:
					src, _ = g.validNA(r.intn(4))
				}
				c := g.byteCorrupt(src)
				if c == nil {
					continue
				}
				m, tag = c, "bytecorrupt_"+strings.ToLower(c.MsgType().String())
			}
		}
		if m == nil {
			continue
		}
		if m = vClone(m); m == nil {
			continue
		}
		// A channel whose two node keys are equal passes the gossiper's own
		// checks and is refused only inside the bbolt graph store ("cannot
		// write unknown policy ..."); that store-specific corner is outside
		// the model (see notes/C20.md) and is not generated.
		if a, ok := m.(*lnwire.ChannelAnnouncement1); ok && a.NodeID1 == a.NodeID2 {
			continue
		}
		// Replays of premature updates run concurrently inside lnd; keep
		// their outcome order-independent: per (scid, direction) the parked
		// updates are byte-identical copies of ONE update per signing key
		// (a direction has one owner key in whatever announcement arrives, so
		// at most one of them can pass validation; updates no key of the
		// case verifies are never valid).
		if u, ok := m.(*lnwire.ChannelUpdate1); ok && !g.mayPark(u) {
			continue
		}
		if a, ok := m.(*lnwire.ChannelAnnouncement1); ok && g.holdCA(a) {
			continue
		}
		return m, tag
	}
}

// signerOf: index of the key of the case (node keys, then our own key) under
// which the update's signature verifies, -1 if none.
func (g *vGen) signerOf(u *lnwire.ChannelUpdate1) int {
	data, err := u.DataToSign()
	if err != nil {
		return -1
	}
	dg := chainhash.DoubleHashB(data)
	for i, k := range g.nk {
		if vVerify(vPub33(k), dg, u.Signature) {
			return i
		}
	}
	if vVerify(vPub33(g.c.f.selfPriv), dg, u.Signature) {
		return len(g.nk)
	}
	return -1
}

// expectedOwner: index of the node key that owns direction dir of the channel
// the generator defined with this scid (-1: no such channel).
func (g *vGen) expectedOwner(scid uint64, dir uint8) int {
	for _, d := range g.chans {
		if d.scid.ToUint64() == scid {
			return d.n[dir]
		}
	}
	return -1
}

// mayPark: may this update be sent although its channel is unknown (so that it
// may end up in the premature-update cache)?  lnd replays the parked updates
// of a channel concurrently, and it checks staleness BEFORE the signature; the
// verdicts are independent of the replay order iff, per (scid, direction),
// at most one distinct update can be valid and every update that cannot be
// valid carries a timestamp newer than the valid one:
//   - a scid of a channel defined by the generator: one distinct update signed
//     by the owner of the direction, any number signed by other keys (or by no
//     key of the case at all) provided their timestamps are newer than the
//     owner's (announcements naming other
//     node keys for that scid are held back meanwhile, see holdCA);
//   - any other scid: byte-identical copies of ONE update.
func (g *vGen) mayPark(u *lnwire.ChannelUpdate1) bool {
	s := u.ShortChannelID.ToUint64()
	if g.c.chanKnown(s) {
		return true
	}
	sg := g.signerOf(u) // -1: no key of the case verifies it; still subject to the timestamp rule
	dir := uint8(u.ChannelFlags & 1)
	h := vMsgHash(u)
	exp := g.expectedOwner(s, dir)
	for _, p := range g.pending[s][dir] {
		if p.hash == h {
			continue
		}
		switch {
		case exp < 0:
			return false
		case sg == exp && p.signer == exp:
			return false
		case sg == exp && p.ts <= u.Timestamp:
			return false
		case sg != exp && p.signer == exp && u.Timestamp <= p.ts:
			return false
		}
	}
	return true
}

// holdCA: an announcement that names other node keys for the scid of a defined
// channel is held back while several distinct updates wait for that scid.
func (g *vGen) holdCA(a *lnwire.ChannelAnnouncement1) bool {
	s := a.ShortChannelID.ToUint64()
	multi := false
	for _, l := range g.pending[s] {
		if len(l) > 1 {
			multi = true
		}
	}
	if !multi {
		return false
	}
	for _, d := range g.chans {
		if d.scid.ToUint64() == s {
			return a.NodeID1 != vPub33(g.nk[d.n[0]]) || a.NodeID2 != vPub33(g.nk[d.n[1]])
		}
	}
	return false
}

// parked records that the update now waits in the premature-update cache.
func (g *vGen) parked(u *lnwire.ChannelUpdate1) {
	s := u.ShortChannelID.ToUint64()
	dir := uint8(u.ChannelFlags & 1)
	sg := g.signerOf(u)
	h := vMsgHash(u)
	if g.pending[s] == nil {
		g.pending[s] = map[uint8][]vParked{}
	}
	for _, p := range g.pending[s][dir] {
		if p.hash == h {
			return
		}
	}
	g.pending[s][dir] = append(g.pending[s][dir], vParked{h, sg, u.Timestamp})
}

func (c *vCase) chanKnown(scid uint64) bool {
	_, _, _, err := c.f.builder.GetChannelByID(lnwire.NewShortChanIDFromInt(scid))
	return err == nil
}

// ---------------------------------------------------------------------------
// histories of graph maintenance events ("history" kind)

const (
	vNumRemovals  = 5 // how channel 0 leaves the graph
	vNumSweeps    = 5 // what follows before the probes
	vNumTemplates = vNumRemovals * vNumSweeps
	vNumCUPattern = 6
	vAliasStartID = uint64(vAliasStart) << 40 // aliasmgr.StartingAlias
)

var vRemovalNames = []string{"reorg", "delete", "delete_zombie", "delete_zombie_strict", "spend"}
var vSweepNames = []string{"none", "block_empty", "block_closing_other", "prune_nodes", "restart"}

// fundingOutpoint of channel i as recorded on the harness chain (also when
// its block is currently re-orged out).
func (g *vGen) fundingOutpoint(i int) (wire.OutPoint, bool) {
	d := g.chans[i]
	ch := g.c.f.chain
	ch.mu.Lock()
	defer ch.mu.Unlock()
	b, ok := ch.blocks[int64(d.scid.BlockHeight)]
	if !ok {
		b, ok = ch.orphans[int64(d.scid.BlockHeight)]
	}
	if !ok || b.block == nil || int(d.scid.TxIndex) >= len(b.block.Transactions) {
		return wire.OutPoint{}, false
	}
	tx := b.block.Transactions[d.scid.TxIndex]
	if int(d.scid.TxPosition) >= len(tx.TxOut) {
		return wire.OutPoint{}, false
	}
	return wire.OutPoint{Hash: tx.TxHash(), Index: uint32(d.scid.TxPosition)}, true
}

// applyOp performs a graph maintenance event on the REAL Builder / graph
// store and returns its abstract description.
func (g *vGen) applyOp(o *vOp) map[string]any {
	f := g.c.f
	ctx := context.Background()
	switch o.kind {
	case "connect":
		var ops []wire.OutPoint
		scids := []uint64{}
		for _, i := range o.spend {
			if op, ok := g.fundingOutpoint(i); ok {
				ops = append(ops, op)
				scids = append(scids, g.chans[i].scid.ToUint64())
			}
		}
		if o.spendUnknown {
			var h chainhash.Hash
			h[0], h[5] = 0xee, byte(len(ops))
			ops = append(ops, wire.OutPoint{Hash: h, Index: 3})
		}
		h, remined := f.connectBlock(ops, o.remine)
		return map[string]any{"t": "op", "op": "connect", "h": h, "spent": scids,
			"remined": remined, "unknown_spend": o.spendUnknown}
	case "disconnect":
		h := f.disconnectTip()
		return map[string]any{"t": "op", "op": "disconnect", "h": h,
			"lo": uint64(h) << 40, "hi": vAliasStartID}
	case "delete":
		scid := g.chans[o.ch].scid.ToUint64()
		if o.missing {
			scid = (uint64(700+o.ch) << 40) | 1<<16
		}
		g.c.scids[scid] = true
		err := f.db.DeleteChannelEdges(ctx, lnwire.GossipVersion1, o.strict, o.zombie, scid)
		if err != nil && !errors.Is(err, graphdb.ErrEdgeNotFound) {
			f.t.Fatalf("DeleteChannelEdges: %v", err)
		}
		return map[string]any{"t": "op", "op": "delete", "scid": scid, "zombie": o.zombie,
			"strict": o.strict, "notfound": err != nil}
	case "prune_nodes":
		if err := f.db.PruneGraphNodes(ctx); err != nil {
			f.t.Fatalf("PruneGraphNodes: %v", err)
		}
		return map[string]any{"t": "op", "op": "prune_nodes"}
	}
	panic("unknown op " + o.kind)
}

// cuAt: update for (channel i, dir) signed by the node that owns direction
// signerDir of that channel, with the given timestamp.
func (g *vGen) cuAt(i int, dir, signerDir uint8, ts uint32) *lnwire.ChannelUpdate1 {
	d := g.chans[i]
	slot := [2]int{i, int(dir)}
	v := uint32(g.r.intn(1000))
	if dir == signerDir && ts > g.cuTs[slot] {
		g.cuTs[slot] = ts
		g.cuVar[slot] = v
	}
	u := vMakeCU(d.scid, g.nk[d.n[signerDir]], dir, ts, v)
	if cm := uint64(d.value) * 1000; cm != 0 && cm < uint64(u.HtlcMaximumMsat) {
		u.HtlcMinimumMsat, u.HtlcMaximumMsat = 0, lnwire.MilliSatoshi(cm)
		u.Signature = vSign(g.nk[d.n[signerDir]], u)
	}
	return u
}

// freshCU: strictly newer than everything generated for the slot; signed by
// the owner of the direction (right) or by the other channel party (wrong).
func (g *vGen) freshCU(i int, dir uint8, right bool) (*lnwire.ChannelUpdate1, string) {
	slot := [2]int{i, int(dir)}
	ts := g.cuTs[slot] + 1 + uint32(g.r.intn(20))
	if g.cuTs[slot] == 0 {
		ts = g.base + uint32(g.r.intn(1000))
	}
	if right {
		return g.cuAt(i, dir, dir, ts), fmt.Sprintf("cu_h_owner_dir%d", dir)
	}
	// updates signed by the wrong channel party run on their own clock, a day
	// ahead of everything the owners sign (see mayPark) and still in the past
	if g.wrongTs == 0 {
		g.wrongTs = g.base + 2*86400
	}
	g.wrongTs += 1 + uint32(g.r.intn(20))
	return g.cuAt(i, dir, 1-dir, g.wrongTs), fmt.Sprintf("cu_h_wrongdir_signer_dir%d", dir)
}

// freshNA: properly signed announcement of node n, strictly newer than
// anything generated or stored for it.
func (g *vGen) freshNA(n int) (*lnwire.NodeAnnouncement1, string) {
	last, exists, err := g.c.f.db.HasV1Node(context.Background(), vPub33(g.nk[n]))
	ts := g.naTs[n]
	if err == nil && exists && last.Unix() > int64(ts) {
		ts = uint32(last.Unix())
	}
	if ts == 0 {
		ts = g.base + uint32(g.r.intn(1000))
	}
	ts += 1 + uint32(g.r.intn(30))
	g.naTs[n] = ts
	return vMakeNA(g.nk[n], ts, g.r.intn(200)), "na_h_fresh"
}

func vMsgEv(m lnwire.Message, tag string) vEvent { return vEvent{m: m, tag: tag} }

// historyScript lays out one template:
//
//	setup (all channels announced, update pattern on channel 0, node
//	announcements of its endpoints) -> removal of channel 0 -> sweep event ->
//	probes (node announcements of both endpoints, updates for both directions
//	signed by the owner and by the other party, the announcement again, ...).
//
// Returns the index of the step before which lnd restarts (-1: none).
func (g *vGen) historyScript(tmpl, pattern int) int {
	r := g.r
	removal, sweep := tmpl%vNumRemovals, tmpl/vNumRemovals
	add := func(f func() vEvent) { g.script = append(g.script, f) }
	for i := range g.chans {
		i := i
		add(func() vEvent { return vMsgEv(g.validCA(i), "ca_valid") })
	}
	t0 := g.base + uint32(r.intn(1000))
	type pu struct {
		dir uint8
		dt  uint32
	}
	var pat []pu
	switch pattern {
	case 0: // no policy at all
	case 1: // edge 2 is the older side
		pat = []pu{{0, 50}, {1, 10}}
	case 2: // edge 2 missing
		pat = []pu{{0, 50}}
	case 3: // edge 1 missing
		pat = []pu{{1, 50}}
	case 4: // edge 1 is the older side
		pat = []pu{{0, 10}, {1, 50}}
	default: // same age
		pat = []pu{{1, 30}, {0, 30}}
	}
	for _, x := range pat {
		x := x
		add(func() vEvent {
			return vMsgEv(g.cuAt(0, x.dir, x.dir, t0+x.dt), fmt.Sprintf("cu_h_setup_dir%d", x.dir))
		})
	}
	ends := g.chans[0].n
	for _, n := range []int{ends[0], ends[1]} {
		n := n
		if r.intn(4) != 0 {
			add(func() vEvent { m, t := g.freshNA(n); return vMsgEv(m, t) })
		}
	}
	if len(g.chans) > 1 && r.bool() {
		add(func() vEvent { m, t := g.validCU(1, uint8(r.intn(2))); return vMsgEv(m, t) })
	}
	// removal of channel 0
	switch removal {
	case 0:
		add(func() vEvent { return vEvent{tag: "op_disconnect", op: &vOp{kind: "disconnect"}} })
	case 1, 2, 3:
		z, st := removal >= 2, removal == 3
		add(func() vEvent {
			return vEvent{tag: "op_delete", op: &vOp{kind: "delete", ch: 0, zombie: z, strict: st}}
		})
	default:
		add(func() vEvent {
			return vEvent{tag: "op_connect", op: &vOp{kind: "connect", spend: []int{0}}}
		})
	}
	// sweep event
	restartAt := -1
	remine := r.bool()
	switch sweep {
	case 0:
	case 1:
		add(func() vEvent {
			return vEvent{tag: "op_connect", op: &vOp{kind: "connect", remine: remine,
				spendUnknown: r.bool()}}
		})
	case 2:
		add(func() vEvent {
			o := &vOp{kind: "connect", remine: remine}
			if len(g.chans) > 1 {
				o.spend = []int{1 + r.intn(len(g.chans)-1)}
			}
			return vEvent{tag: "op_connect", op: o}
		})
	case 3:
		add(func() vEvent { return vEvent{tag: "op_prune_nodes", op: &vOp{kind: "prune_nodes"}} })
	default:
		restartAt = len(g.script)
	}
	// probes
	na := func(n int) func() vEvent {
		return func() vEvent { m, t := g.freshNA(n); return vMsgEv(m, t) }
	}
	cu := func(dir uint8, right bool) func() vEvent {
		return func() vEvent { m, t := g.freshCU(0, dir, right); return vMsgEv(m, t) }
	}
	add(na(ends[r.intn(2)]))
	first := r.bool() // owner first / other party first
	d0 := uint8(r.intn(2))
	add(cu(d0, first))
	add(cu(d0, !first))
	add(na(ends[0]))
	add(na(ends[1]))
	add(cu(1-d0, !first))
	add(cu(1-d0, first))
	add(func() vEvent { return vMsgEv(g.validCA(0), "ca_regossip") })
	add(na(ends[r.intn(2)]))
	add(cu(uint8(r.intn(2)), true))
	return restartAt
}

// randomOp: a random graph maintenance event for the tail of a history.
func (g *vGen) randomOp() vEvent {
	r := g.r
	nch := len(g.chans)
	f := g.c.f
	w := r.intn(100)
	f.chain.mu.Lock()
	best := f.chain.best
	f.chain.mu.Unlock()
	switch {
	case w < 40 || (w < 60 && best <= vBestHeight-3):
		o := &vOp{kind: "connect", remine: r.bool(), spendUnknown: r.intn(4) == 0}
		for i := 0; i < nch; i++ {
			if r.intn(4) == 0 {
				o.spend = append(o.spend, i)
			}
		}
		return vEvent{tag: "op_connect", op: o}
	case w < 60:
		return vEvent{tag: "op_disconnect", op: &vOp{kind: "disconnect"}}
	case w < 90:
		z := r.intn(3) != 0
		return vEvent{tag: "op_delete", op: &vOp{kind: "delete", ch: r.intn(nch), zombie: z,
			strict: z && r.bool(), missing: r.intn(8) == 0}}
	default:
		return vEvent{tag: "op_prune_nodes", op: &vOp{kind: "prune_nodes"}}
	}
}

// nextEvent: the next event of the case.
func (g *vGen) nextEvent(step int, kind string) vEvent {
	if len(g.script) > 0 {
		ev := g.script[0]()
		g.script = g.script[1:]
		ev.scripted = true
		if ev.op != nil {
			return ev
		}
		if m := vClone(ev.m); m != nil {
			ev.m = m
			return ev
		}
	}
	if g.tail {
		r := g.r
		nch := len(g.chans)
		w := r.intn(100)
		switch {
		case w < 35:
			return g.randomOp()
		case w < 75:
			var m lnwire.Message
			tag := ""
			switch r.intn(6) {
			case 0, 1:
				m, tag = g.freshNA(r.intn(4))
			case 2:
				m, tag = g.validCA(r.intn(nch)), "ca_regossip"
			case 3:
				m, tag = g.freshCU(r.intn(nch), uint8(r.intn(2)), false)
			default:
				m, tag = g.freshCU(r.intn(nch), uint8(r.intn(2)), true)
			}
			if u, ok := m.(*lnwire.ChannelUpdate1); !ok || g.mayPark(u) {
				if c := vClone(m); c != nil {
					return vEvent{m: c, tag: tag}
				}
			}
		}
		kind = "mixed"
	}
	m, tag := g.next(step, kind)
	return vEvent{m: m, tag: tag}
}

// ---------------------------------------------------------------------------
// the test

// case indices of the interleaving scenarios (independent of the case count)
const vInterleaveBase = 100000

type vPend struct {
	step int
	scid uint64
	done chan string
}

func TestVerifGossip(t *testing.T) {
	out := vOpenOut()
	defer out.close()
	master := vNewRng(vSeed())
	ncases := vCases(190, 3000)
	only := int(vEnvInt("VERIF_CASE_ONLY", -1))

	t.Run("cases", func(t *testing.T) {
		for ci := 0; ci < ncases; ci++ {
			if only >= 0 && ci != only {
				continue
			}
			ci := ci
			r := master.fork(uint64(ci))
			t.Run(fmt.Sprintf("case%d", ci), func(t *testing.T) {
				t.Parallel()
				row := vRunCase(t, r, ci)
				out.emit(row)
			})
		}
		// the interleaving scenarios of two updates for one channel direction
		// through the two entry points: all of them, in every run
		for sc := 0; sc < vNumInterleave; sc++ {
			ci := vInterleaveBase + sc
			if only >= 0 && ci != only {
				continue
			}
			sc := sc
			r := master.fork(uint64(ci))
			t.Run(fmt.Sprintf("interleave%d", sc), func(t *testing.T) {
				t.Parallel()
				out.emit(vRunInterleave(t, r, ci, sc))
			})
		}
	})
}

func vRunCase(t *testing.T, r *vrng, ci int) map[string]any {
	f := vNewFix(t, r)
	c := &vCase{f: f, ids: newVIDs(), keys: map[[33]byte]bool{}, scids: map[uint64]bool{}}
	kind := []string{"mixed", "mixed", "ordered", "ordered", "ordered", "burst",
		"restart", "restart", "restart", "restart"}[r.intn(10)]
	// every 4th case (2nd on sqlite) is a history of graph maintenance events; the templates
	// (removal kind x sweep kind) and the update patterns are enumerated
	tmpl, pattern := -1, -1
	every := 4
	if vBackendName == "sqlite" {
		every = 2 // the sqlite batch is small: half of it are histories
	}
	if ci%every == every-1 {
		kind = "history"
		k := ci/every + int(vSeed()%1000)*11
		tmpl, pattern = k%vNumTemplates, (ci/every)%vNumCUPattern
	}
	g := &vGen{r: r, c: c, kind: kind}
	g.setup()
	nsteps := 8 + r.intn(14)
	if kind == "burst" {
		nsteps = 16 + r.intn(6)
	}
	restartAt := map[int]bool{}
	if kind == "history" {
		if at := g.historyScript(tmpl, pattern); at >= 0 {
			restartAt[at] = true
		}
		nsteps = len(g.script) + 4 + r.intn(6)
	}
	if kind == "restart" {
		// setup: every channel announced, both directions get policies (and
		// a few newer ones), then restart(s) on the populated graph
		for i := range g.chans {
			i := i
			g.script = append(g.script, func() vEvent {
				return vMsgEv(g.validCA(i), "ca_valid")
			})
		}
		for rep := 0; rep < 1+r.intn(2); rep++ {
			for i := range g.chans {
				for _, d := range []uint8{uint8(r.intn(2)), 2} {
					i, d := i, d
					g.script = append(g.script, func() vEvent {
						if d == 2 {
							// the direction not yet served in this round
							if g.cuTs[[2]int{i, 0}] <= g.cuTs[[2]int{i, 1}] {
								return vMsgEv(g.validCU(i, 0))
							}
							return vMsgEv(g.validCU(i, 1))
						}
						return vMsgEv(g.validCU(i, d))
					})
				}
			}
		}
		first := len(g.script)
		nsteps = first + 8 + r.intn(8)
		restartAt[first] = true
		if r.intn(2) == 0 {
			restartAt[first+3+r.intn(4)] = true
		}
	}
	peers := []*mockPeer{
		{g.nk[0].PubKey(), nil, nil, atomic.Bool{}},
		{g.bk[0].PubKey(), nil, nil, atomic.Bool{}},
		{g.bk[1].PubKey(), nil, nil, atomic.Bool{}},
	}
	// register every node key of the universe for the update-signer oracle
	for _, k := range g.nk {
		c.keys[vPub33(k)] = true
	}
	c.keys[vPub33(f.selfPriv)] = true

	ctx := context.Background()
	var steps []map[string]any
	var pend []*vPend
	prev := c.snapshot()
	prevJSON := fmt.Sprint(prev)
	for si := 0; si < nsteps; si++ {
		restarted := false
		if restartAt[si] || (kind != "restart" && si >= 3 && r.intn(14) == 0) {
			// lnd restarts: cold store caches, empty gossiper memory; parked
			// updates are gone with the old gossiper
			f.restart()
			restarted = true
			pend = nil
			g.pending = map[uint64]map[uint8][]vParked{}
			if kind != "history" {
				g.postLeft = 6
			}
		}
		now := time.Now().Unix()
		g.stepNow = uint32(now)
		if kind == "history" && len(g.script) == 0 {
			g.tail = true
		}
		ev := g.nextEvent(si, kind)
		if g.postLeft > 0 {
			g.postLeft--
		}
		pi := r.intn(4)
		if pi > 2 {
			pi = 0
		}
		peer := peers[pi]
		if ev.op != nil {
			// a graph maintenance event: no message, no verdict
			f.hs.step.Store(int64(si))
			desc := g.applyOp(ev.op)
			desc["cid"] = fmt.Sprintf("op%d", si)
			f.flush()
			snap := c.snapshot()
			sj := fmt.Sprint(snap)
			st := map[string]any{
				"i": si, "restart": restarted, "tag": ev.tag, "peer": c.kid(vPub33FromPub(peer.pk)),
				"now": now, "m": desc, "orc": map[string]any{}, "res": "ok", "resolved": nil,
				"best": f.gossipBest(),
				"ban": []uint64{f.banScore(vPub33FromPub(peers[0].pk)), f.banScore(vPub33FromPub(peers[1].pk)),
					f.banScore(vPub33FromPub(peers[2].pk))},
			}
			if sj != prevJSON {
				st["g"] = snap
				prevJSON = sj
			}
			steps = append(steps, st)
			continue
		}
		m, tag := ev.m, ev.tag
		g.sent = append(g.sent, m)
		f.hs.step.Store(int64(si))
		// the second entry point: every 7th free-choice channel update arrives
		// as the payload of an onion failure (Builder.ApplyChannelUpdate)
		// instead of through the gossiper
		via := "gossip"
		if u, ok := m.(*lnwire.ChannelUpdate1); ok && !ev.scripted && r.intn(7) == 0 {
			via = "apply"
			desc, orc := c.describe(m)
			desc["cid"] = vMsgHash(m)
			gbest := f.gossipBest()
			verdict := f.sendVia("apply", u, peer)
			f.flush()
			snap := c.snapshot()
			sj := fmt.Sprint(snap)
			st := map[string]any{
				"i": si, "restart": restarted, "tag": tag, "via": via,
				"peer": c.kid(vPub33FromPub(peer.pk)), "now": now,
				"m": desc, "orc": orc, "res": verdict, "resolved": nil, "best": gbest,
				"ban": []uint64{f.banScore(vPub33FromPub(peers[0].pk)), f.banScore(vPub33FromPub(peers[1].pk)),
					f.banScore(vPub33FromPub(peers[2].pk))},
			}
			if sj != prevJSON {
				st["g"] = snap
				prevJSON = sj
			}
			steps = append(steps, st)
			continue
		}
		desc, orc := c.describe(m)
		desc["cid"] = vMsgHash(m)

		gbest := f.gossipBest()
		fut := f.g.ProcessRemoteAnnouncement(ctx, m, peer)
		var inCache func() bool
		var scid uint64
		if u, ok := m.(*lnwire.ChannelUpdate1); ok {
			scid = u.ShortChannelID.ToUint64()
			inCache = func() bool {
				e, err := f.g.prematureChannelUpdates.Get(scid)
				if err != nil {
					return false
				}
				for _, pm := range e.msgs {
					if pm.msg != nil && pm.msg.msg == lnwire.Message(u) {
						return true
					}
				}
				return false
			}
		}
		verdict := f.await(fut, inCache)
		if verdict == "pending" {
			g.parked(m.(*lnwire.ChannelUpdate1))
			p := &vPend{step: si, scid: scid, done: make(chan string, 1)}
			go func() {
				ctx2, cancel := context.WithTimeout(ctx, 60*time.Second)
				defer cancel()
				v, err := fut.Await(ctx2).Unpack()
				if err != nil {
					p.done <- "timeout"
					return
				}
				p.done <- vClassify(v)
			}()
			pend = append(pend, p)
		}
		// An accepted channel announcement makes lnd replay the updates
		// that were waiting for it: collect their verdicts.
		var resolved [][]any
		if ca, ok := m.(*lnwire.ChannelAnnouncement1); ok && verdict == "ok" {
			s := ca.ShortChannelID.ToUint64()
			if c.chanKnown(s) {
				var rest []*vPend
				for _, p := range pend {
					if p.scid != s {
						rest = append(rest, p)
						continue
					}
					select {
					case v := <-p.done:
						resolved = append(resolved, []any{p.step, v})
					case <-time.After(20 * time.Second):
						resolved = append(resolved, []any{p.step, "timeout"})
					}
				}
				pend = rest
				f.waitIdle()
				delete(g.pending, s)
			}
		}
		f.flush()
		snap := c.snapshot()
		sj := fmt.Sprint(snap)
		st := map[string]any{
			"i": si, "restart": restarted, "tag": tag, "peer": c.kid(vPub33FromPub(peer.pk)), "now": now,
			"m": desc, "orc": orc, "res": verdict, "resolved": resolved, "best": gbest,
			"ban": []uint64{f.banScore(vPub33FromPub(peers[0].pk)), f.banScore(vPub33FromPub(peers[1].pk)),
				f.banScore(vPub33FromPub(peers[2].pk))},
		}
		if sj != prevJSON {
			st["g"] = snap
			prevJSON = sj
		}
		steps = append(steps, st)
	}
	// final flush, then stop the gossiper: Stop waits for every broadcast
	// goroutine, so the Broadcast log below is complete.
	f.flush()
	f.g.Stop()
	f.bmu.Lock()
	bc := map[string]int{}
	for _, h := range f.bcast {
		if !f.sentHash[h] {
			bc[h]++
		}
	}
	f.bmu.Unlock()
	var left []int
	for _, p := range pend {
		left = append(left, p.step)
	}
	return map[string]any{
		"case": ci, "kind": kind, "own": c.kid(vPub33(f.selfPriv)),
		"peers": []int{c.kid(vPub33FromPub(peers[0].pk)), c.kid(vPub33FromPub(peers[1].pk)),
			c.kid(vPub33FromPub(peers[2].pk))},
		"best": vBestHeight, "alias_start": vAliasStart,
		"rebroadcast": int64(vRebroadcast / time.Second),
		"prune":       int64(vPruneExpiry / time.Second),
		"burst":       DefaultMaxChannelUpdateBurst, "backend": vBackendName, "restarts": f.restarts,
		"template": tmpl, "pattern": pattern, "writes": f.hs.takeWrites(),
		"steps": steps, "bcast": bc, "still_pending": left,
	}
}

func vPub33FromPub(p *btcec.PublicKey) [33]byte {
	var o [33]byte
	copy(o[:], p.SerializeCompressed())
	return o
}
