//go:build verif && test_db_sqlite && !test_db_postgres

package discovery

// C20 harness: graph store backend (sqlite).  See the bbolt variant.

import (
	"database/sql"
	"testing"

	"github.com/btcsuite/btcd/chaincfg/v2"
	graphdb "github.com/lightningnetwork/lnd/graph/db"
	"github.com/lightningnetwork/lnd/sqldb"
)

const vBackendName = "sqlite"

type vStoreBackend struct {
	db *sqldb.BaseDB
}

func vNewBackend(t *testing.T) *vStoreBackend {
	return &vStoreBackend{db: sqldb.NewTestSqliteDB(t).BaseDB}
}

func (b *vStoreBackend) open(t *testing.T,
	opts ...graphdb.StoreOptionModifier) graphdb.Store {

	ex := sqldb.NewTransactionExecutor(
		b.db, func(tx *sql.Tx) graphdb.SQLQueries {
			return b.db.WithTx(tx)
		},
	)
	s, err := graphdb.NewSQLStore(&graphdb.SQLStoreConfig{
		ChainHash: *chaincfg.MainNetParams.GenesisHash,
		QueryCfg:  sqldb.DefaultSQLiteConfig(),
	}, ex, opts...)
	if err != nil {
		t.Fatalf("sql store: %v", err)
	}
	return s
}
