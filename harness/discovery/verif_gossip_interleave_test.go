//go:build verif

package discovery

// C20 harness, second entry point and interleavings.
//
// Channel updates reach the graph through TWO entry points: the gossiper
// (ProcessRemoteAnnouncement -> handleChanUpdate -> Builder.UpdateEdge with a
// lazy batch write) and Builder.ApplyChannelUpdate (updates carried in onion
// failure messages of payment attempts; non-lazy write).  Both end in
// Builder.updateEdge: "compare with the stored timestamp, then write".
//
// vHookStore is a pass-through wrapper around the real graph store.  It logs
// every policy write in the order in which the writes were performed, and it
// can HOLD a chosen update at the store boundary — after the Builder's
// freshness check has passed, before anything is written — which gives a
// deterministic enumeration of the interleavings of two updates for the same
// channel direction: 2 entry points x 2 entry points x {older, equal, newer}
// x {which one commits first if both get past their check}.

import (
	"context"
	"fmt"
	"sync"
	"sync/atomic"
	"testing"
	"time"

	"github.com/lightningnetwork/lnd/batch"
	graphdb "github.com/lightningnetwork/lnd/graph/db"
	"github.com/lightningnetwork/lnd/graph/db/models"
	"github.com/lightningnetwork/lnd/lnwire"
	"github.com/lightningnetwork/lnd/routing/route"
)

type vWrite struct {
	Step int    `json:"step"`
	Scid uint64 `json:"scid"`
	Dir  uint8  `json:"dir"`
	Ts   int64  `json:"ts"`
	Ok   bool   `json:"ok"`
}

// vHook holds updates (identified by their timestamp + fee rate) at the store
// boundary until released.
type vHook struct {
	mu      sync.Mutex
	ids     map[string]int // update key -> 0 / 1
	arrived [2]chan struct{}
	release [2]chan struct{}
}

func vUpdKey(ts int64, base, rate uint64) string { return fmt.Sprintf("%d/%d/%d", ts, base, rate) }

func newVHook(k0, k1 string) *vHook {
	h := &vHook{ids: map[string]int{k0: 0, k1: 1}}
	for i := range h.arrived {
		h.arrived[i] = make(chan struct{})
		h.release[i] = make(chan struct{})
	}
	return h
}

type vHookStore struct {
	graphdb.Store

	hook atomic.Pointer[vHook]
	step atomic.Int64

	mu     sync.Mutex
	writes []vWrite
}

func (s *vHookStore) UpdateEdgePolicy(ctx context.Context,
	edge *models.ChannelEdgePolicy,
	op ...batch.SchedulerOption) (route.Vertex, route.Vertex, error) {

	if h := s.hook.Load(); h != nil {
		k := vUpdKey(edge.LastUpdate.Unix(), uint64(edge.FeeBaseMSat),
			uint64(edge.FeeProportionalMillionths))
		if i, ok := h.ids[k]; ok {
			h.mu.Lock()
			select {
			case <-h.arrived[i]:
			default:
				close(h.arrived[i])
			}
			h.mu.Unlock()
			<-h.release[i]
		}
	}
	from, to, err := s.Store.UpdateEdgePolicy(ctx, edge, op...)
	s.mu.Lock()
	s.writes = append(s.writes, vWrite{
		Step: int(s.step.Load()), Scid: edge.ChannelID,
		Dir: uint8(edge.ChannelFlags & lnwire.ChanUpdateDirection),
		Ts:  edge.LastUpdate.Unix(), Ok: err == nil,
	})
	s.mu.Unlock()
	return from, to, err
}

func (s *vHookStore) takeWrites() []vWrite {
	s.mu.Lock()
	defer s.mu.Unlock()
	w := s.writes
	s.writes = nil
	if w == nil {
		w = []vWrite{}
	}
	return w
}

// ---------------------------------------------------------------------------
// entry points

// sendVia delivers a channel update through one of the two entry points and
// returns the verdict class.
func (f *vFix) sendVia(via string, u *lnwire.ChannelUpdate1, peer *mockPeer) string {
	if via == "apply" {
		if f.builder.ApplyChannelUpdate(u) {
			return "ok"
		}
		return "err:apply_false"
	}
	fut := f.g.ProcessRemoteAnnouncement(context.Background(), u, peer)
	return f.await(fut, nil)
}

// views: the three places that answer "which policy timestamps does the graph
// hold for this channel": the channel iteration (snapshot), the by-id lookup
// and HasV1ChannelEdge (reject cache).
func (c *vCase) policyViews(scid uint64) map[string]any {
	f := c.f
	out := map[string]any{}
	_, p1, p2, err := f.builder.GetChannelByID(lnwire.NewShortChanIDFromInt(scid))
	ts := func(p *models.ChannelEdgePolicy) int64 {
		if p == nil {
			return -1
		}
		return p.LastUpdate.Unix()
	}
	if err == nil {
		out["byid"] = []int64{ts(p1), ts(p2)}
	}
	t1, t2, exists, _, err := f.db.HasV1ChannelEdge(context.Background(), scid)
	if err == nil && exists {
		norm := func(t time.Time) int64 {
			if t.IsZero() || t.Unix() < 0 {
				return -1
			}
			return t.Unix()
		}
		out["has"] = []int64{norm(t1), norm(t2)}
	}
	return out
}

// ---------------------------------------------------------------------------
// the interleaving scenarios

const vNumInterleave = 24 // 2 x 2 entry points x 3 timestamp relations x 2 commit orders

var vViaNames = []string{"gossip", "apply"}
var vRelNames = []string{"older", "equal", "newer"}

// vRunInterleave: channel 0 announced, (usually) a base policy, then update 1
// is sent and HELD at the store boundary (its freshness check has passed,
// nothing written yet); update 2 for the same direction is sent through its
// entry point.  If update 2 also gets past its check while update 1 is held
// (possible only if check+write is not atomic per channel), the scenario's
// commit order decides which of the two is written first.  Then everything is
// released, the batches flush, and the final graph (all views, and the
// on-disk state after a restart) is recorded.
func vRunInterleave(t *testing.T, r *vrng, ci, sc int) map[string]any {
	f := vNewFix(t, r)
	c := &vCase{f: f, ids: newVIDs(), keys: map[[33]byte]bool{}, scids: map[uint64]bool{}}
	g := &vGen{r: r, c: c, kind: "interleave"}
	g.setup()
	via1, via2 := vViaNames[sc%2], vViaNames[(sc/2)%2]
	rel := (sc / 4) % 3
	secondFirst := (sc/12)%2 == 1
	dir := uint8(r.intn(2))
	peers := []*mockPeer{
		{g.nk[0].PubKey(), nil, nil, atomic.Bool{}},
		{g.bk[0].PubKey(), nil, nil, atomic.Bool{}},
		{g.bk[1].PubKey(), nil, nil, atomic.Bool{}},
	}
	for _, k := range g.nk {
		c.keys[vPub33(k)] = true
	}
	c.keys[vPub33(f.selfPriv)] = true

	var steps []map[string]any
	prevJSON := fmt.Sprint(c.snapshot())
	record := func(m lnwire.Message, tag, via, verdict string, desc, orc map[string]any,
		now int64, gbest uint32, restarted, nosnap bool, pi int) {

		si := len(steps)
		st := map[string]any{
			"i": si, "restart": restarted, "tag": tag, "via": via, "nosnap": nosnap,
			"peer": c.kid(vPub33FromPub(peers[pi].pk)), "now": now, "m": desc, "orc": orc,
			"res": verdict, "resolved": nil, "best": gbest,
			"ban": []uint64{f.banScore(vPub33FromPub(peers[0].pk)),
				f.banScore(vPub33FromPub(peers[1].pk)), f.banScore(vPub33FromPub(peers[2].pk))},
		}
		if !nosnap {
			snap := c.snapshot()
			if sj := fmt.Sprint(snap); sj != prevJSON {
				st["g"] = snap
				prevJSON = sj
			}
		}
		steps = append(steps, st)
	}
	plain := func(m lnwire.Message, tag, via string, restarted bool) string {
		m = vClone(m)
		f.hs.step.Store(int64(len(steps)))
		now := time.Now().Unix()
		gbest := f.gossipBest()
		desc, orc := c.describe(m)
		desc["cid"] = vMsgHash(m)
		var verdict string
		if u, ok := m.(*lnwire.ChannelUpdate1); ok {
			verdict = f.sendVia(via, u, peers[0])
		} else {
			verdict = f.await(f.g.ProcessRemoteAnnouncement(context.Background(), m, peers[0]), nil)
		}
		f.flush()
		record(m, tag, via, verdict, desc, orc, now, gbest, restarted, false, 0)
		return verdict
	}

	plain(g.validCA(0), "ca_valid", "gossip", false)
	t0 := g.base + uint32(r.intn(1000))
	hasBase := r.intn(4) != 0
	if hasBase {
		plain(g.cuAt(0, dir, dir, t0), "cu_i_base", vViaNames[r.intn(2)], false)
	}
	// the other direction gets a policy in half of the cases (its timestamp
	// must never leak into this direction's freshness check)
	if r.bool() {
		plain(g.cuAt(0, 1-dir, 1-dir, t0+uint32(r.intn(400))), "cu_i_other_dir", "gossip", false)
	}
	ts1 := t0 + 100 + uint32(r.intn(100))
	ts2 := ts1
	switch rel {
	case 0:
		ts2 = ts1 - 1 - uint32(r.intn(50))
	case 2:
		ts2 = ts1 + 1 + uint32(r.intn(50))
	}
	u1 := vClone(g.cuAt(0, dir, dir, ts1)).(*lnwire.ChannelUpdate1)
	u2 := vClone(g.cuAt(0, dir, dir, ts2)).(*lnwire.ChannelUpdate1)
	for u2.BaseFee == u1.BaseFee && u2.FeeRate == u1.FeeRate {
		u2 = vClone(g.cuAt(0, dir, dir, ts2)).(*lnwire.ChannelUpdate1)
	}
	ups := [2]*lnwire.ChannelUpdate1{u1, u2}
	vias := [2]string{via1, via2}
	var descs, orcs [2]map[string]any
	for i, u := range ups {
		descs[i], orcs[i] = c.describe(u)
		descs[i]["cid"] = vMsgHash(u)
	}
	now := time.Now().Unix()
	gbest := f.gossipBest()
	h := newVHook(vUpdKey(int64(ts1), uint64(u1.BaseFee), uint64(u1.FeeRate)),
		vUpdKey(int64(ts2), uint64(u2.BaseFee), uint64(u2.FeeRate)))
	f.hs.step.Store(int64(len(steps)))
	f.hs.hook.Store(h)
	var verdicts [2]string
	var done [2]chan struct{}
	start := func(i int) {
		done[i] = make(chan struct{})
		go func() {
			verdicts[i] = f.sendVia(vias[i], ups[i], peers[1+i])
			close(done[i])
		}()
	}
	wait := func(ch chan struct{}, d time.Duration) bool {
		select {
		case <-ch:
			return true
		case <-time.After(d):
			return false
		}
	}
	start(0)
	if !wait(h.arrived[0], 30*time.Second) {
		t.Fatalf("interleave %d: the first update never reached the store", sc)
	}
	start(1)
	// Does the second update get past its freshness check while the first one
	// sits between check and write?  With an atomic check+write per channel it
	// cannot: it waits for the first one (or is answered without a write).
	both := wait(h.arrived[1], 250*time.Millisecond)
	order := [2]int{0, 1}
	if both && secondFirst {
		order = [2]int{1, 0}
	}
	if both {
		close(h.release[order[0]])
		if !wait(done[order[0]], 30*time.Second) {
			t.Fatalf("interleave %d: released update never completed", sc)
		}
		close(h.release[order[1]])
	} else {
		close(h.release[0])
		close(h.release[1])
	}
	for i := range done {
		if !wait(done[i], 30*time.Second) {
			t.Fatalf("interleave %d: update %d never completed", sc, i)
		}
	}
	f.hs.hook.Store(nil)
	f.flush()
	// the pair is recorded in the order in which the implementation let the
	// two updates commit; no snapshot exists between them
	for n, i := range order {
		record(ups[i], fmt.Sprintf("cu_i_%d_%s", i+1, map[bool]string{true: "held", false: "second"}[i == 0]),
			vias[i], verdicts[i], descs[i], orcs[i], now, gbest, false, n == 0, 1+i)
	}
	scid := g.chans[0].scid.ToUint64()
	views := c.policyViews(scid)
	// restart: what is on disk?  (a duplicate of the first update follows, so
	// that there is a step carrying the snapshot)
	f.restart()
	plain(u1, "cu_i_duplicate_after_restart", "gossip", true)
	viewsCold := c.policyViews(scid)

	f.flush()
	f.g.Stop()
	f.bmu.Lock()
	bc := map[string]int{}
	for _, hh := range f.bcast {
		if !f.sentHash[hh] {
			bc[hh]++
		}
	}
	f.bmu.Unlock()
	return map[string]any{
		"case": ci, "kind": "interleave", "own": c.kid(vPub33(f.selfPriv)),
		"peers": []int{c.kid(vPub33FromPub(peers[0].pk)), c.kid(vPub33FromPub(peers[1].pk)),
			c.kid(vPub33FromPub(peers[2].pk))},
		"best": vBestHeight, "alias_start": vAliasStart,
		"rebroadcast": int64(vRebroadcast / time.Second),
		"prune":       int64(vPruneExpiry / time.Second),
		"burst":       DefaultMaxChannelUpdateBurst, "backend": vBackendName, "restarts": f.restarts,
		"template": -1, "pattern": -1,
		"steps": steps, "bcast": bc, "still_pending": []int{}, "writes": f.hs.takeWrites(),
		"interleave": map[string]any{
			"scenario": sc, "via1": via1, "via2": via2, "rel": vRelNames[rel],
			"second_first": secondFirst, "both_past_check": both, "dir": dir, "scid": scid,
			"ts1": ts1, "ts2": ts2, "has_base": hasBase, "views": views, "views_cold": viewsCold,
			"commit_order": order,
		},
	}
}
