//go:build verif && !test_db_sqlite && !test_db_postgres

package discovery

// C20 harness: graph store backend (bbolt).  The backend (the database file)
// lives for the whole case; open() creates a NEW graph store object on it, so
// every in-memory cache of the store starts cold — what a restart of lnd does.

import (
	"testing"

	graphdb "github.com/lightningnetwork/lnd/graph/db"
	"github.com/lightningnetwork/lnd/kvdb"
)

const vBackendName = "bbolt"

type vStoreBackend struct {
	backend kvdb.Backend
}

func vNewBackend(t *testing.T) *vStoreBackend {
	backend, cleanup, err := kvdb.GetTestBackend(t.TempDir(), "cgr")
	if err != nil {
		t.Fatalf("kvdb backend: %v", err)
	}
	t.Cleanup(cleanup)
	return &vStoreBackend{backend: backend}
}

func (b *vStoreBackend) open(t *testing.T,
	opts ...graphdb.StoreOptionModifier) graphdb.Store {

	s, err := graphdb.NewKVStore(b.backend, opts...)
	if err != nil {
		t.Fatalf("kv store: %v", err)
	}
	return s
}
