//go:build verif

package funding

// C06 stage "points", funding level: the values of the own per-commitment chain
// that the FUNDING MANAGER hands out — open_channel / accept_channel
// first_per_commitment_point (index 0, lnwallet/wallet.go), channel_ready
// next_per_commitment_point (index 1) built by sendChannelReady
// (NextRevocationKey), re-sent after a funding-manager restart, and the extra
// channel_ready of processChannelReady for an option-scid-alias channel without
// a stored alias (SecondCommitmentPoint).  Every message that one funding
// manager sends to the other is recorded at the transport; the producer roots
// are read from the two databases afterwards.  Rows have the format of
// harness/lnwallet/verif_points_test.go and are judged by props/c06_points.py.

import (
	"bytes"
	"encoding/hex"
	"fmt"
	"sync"
	"sync/atomic"
	"testing"

	"github.com/btcsuite/btcd/btcec/v2"
	"github.com/btcsuite/btcd/btcutil/v2"
	"github.com/lightningnetwork/lnd/aliasmgr"
	"github.com/lightningnetwork/lnd/chanstate"
	"github.com/lightningnetwork/lnd/lnpeer"
	"github.com/lightningnetwork/lnd/lnrpc"
	"github.com/lightningnetwork/lnd/lnwire"
	"github.com/stretchr/testify/require"
)

type vfpEvent struct {
	Step  int    `json:"step"`
	Party string `json:"party"`
	Slot  string `json:"slot"`
	Src   string `json:"src"`
	Sent  bool   `json:"sent"`
	DiskH uint64 `json:"disk_h"`
	Point string `json:"point,omitempty"`
	Err   string `json:"err,omitempty"`
}

type vfpRow struct {
	Stage     string     `json:"stage"`
	Case      int        `json:"case"`
	Seed      uint64     `json:"seed"`
	Kind      string     `json:"kind"`
	ChanType  string     `json:"chan_type"`
	Roots     [2]string  `json:"roots"`
	Ops       []string   `json:"ops"`
	Events    []vfpEvent `json:"events"`
	FinalH    [2]uint64  `json:"final_h"`
	WantReady int        `json:"want_ready"`
	GotReady  int        `json:"got_ready"`
	Abort     string     `json:"abort,omitempty"`
}

// vfpNoAliasMgr: an alias manager that has no alias stored for any channel (the
// "feature bit toggled on" upgrade situation of processChannelReady).
type vfpNoAliasMgr struct {
	mockAliasMgr
	forget atomic.Bool
}

func (m *vfpNoAliasMgr) GetAliases(
	scid lnwire.ShortChannelID) []lnwire.ShortChannelID {

	if m.forget.Load() {
		return nil
	}
	return m.mockAliasMgr.GetAliases(scid)
}

func (m *vfpNoAliasMgr) AddLocalAlias(lnwire.ShortChannelID,
	lnwire.ShortChannelID, bool, bool,
	...aliasmgr.AddLocalAliasOption) error {

	return nil
}

type vfpRec struct {
	mu  sync.Mutex
	row *vfpRow
	n   [2]int
}

func vfpHex(p *btcec.PublicKey) string {
	if p == nil {
		return ""
	}
	return hex.EncodeToString(p.SerializeCompressed())
}

// note records a message sent BY party p.
func (r *vfpRec) note(p int, m lnwire.Message) {
	r.mu.Lock()
	defer r.mu.Unlock()
	name := [2]string{"a", "b"}[p]
	switch msg := m.(type) {
	case *lnwire.OpenChannel:
		r.row.Events = append(r.row.Events, vfpEvent{Party: name,
			Slot: "open", Src: "open_channel", Sent: true,
			Point: vfpHex(msg.FirstCommitmentPoint)})
	case *lnwire.AcceptChannel:
		r.row.Events = append(r.row.Events, vfpEvent{Party: name,
			Slot: "open", Src: "accept_channel", Sent: true,
			Point: vfpHex(msg.FirstCommitmentPoint)})
	case *lnwire.ChannelReady:
		r.n[p]++
		r.row.GotReady++
		src := "funding_channel_ready_1st"
		if r.n[p] > 1 {
			src = "funding_channel_ready_again"
		}
		r.row.Events = append(r.row.Events, vfpEvent{Party: name,
			Slot: "channel_ready", Src: src, Sent: true,
			Point: vfpHex(msg.NextPerCommitmentPoint)})
	}
}

func vfpRoots(t *testing.T, rec *vfpRec, alice, bob *testNode) {
	rec.mu.Lock()
	defer rec.mu.Unlock()
	row := rec.row
	for p, n := range []*testNode{alice, bob} {
		chans, err := n.fundingMgr.cfg.ChannelDB.FetchAllChannels()
		if err != nil || len(chans) != 1 {
			row.Abort = fmt.Sprintf("fetch %d: %v (%d channels)", p, err,
				len(chans))
			return
		}
		var b bytes.Buffer
		if err := chans[0].RevocationProducer.Encode(&b); err != nil {
			row.Abort = "root: " + err.Error()
			return
		}
		row.Roots[p] = hex.EncodeToString(b.Bytes())
		row.FinalH[p] = chans[0].LocalCommitment.CommitHeight
		// what a (re)connecting peer / the funding manager would build
		// from this database instance
		e := vfpEvent{Step: 99, Party: [2]string{"a", "b"}[p],
			Slot: "channel_ready", Src: "second_point_db",
			DiskH: row.FinalH[p]}
		pt, err := chans[0].SecondCommitmentPoint()
		if err != nil {
			e.Err = err.Error()
		} else {
			e.Point = vfpHex(pt)
		}
		row.Events = append(row.Events, e)
	}
}

var _ = chanstate.ChanStatusDefault

func vfpCase(t *testing.T, ci int, kind string, row *vfpRow) {
	rec := &vfpRec{row: row}

	alice, bob := setupFundingManagers(t)
	t.Cleanup(func() { tearDownFundingManagers(t, alice, bob) })

	// transport taps: X.sendMessage carries what the OTHER side sends to X
	tap := func(n *testNode, sender int) {
		orig := n.sendMessage
		n.sendMessage = func(m lnwire.Message) error {
			rec.note(sender, m)
			return orig(m)
		}
	}
	tap(alice, 1)
	tap(bob, 0)

	var chanType *lnwire.ChannelType
	if kind == "zero_conf_alias" || kind == "anchors" {
		featureBits := []lnwire.FeatureBit{
			lnwire.ZeroConfOptional,
			lnwire.ScidAliasOptional,
			lnwire.ExplicitChannelTypeOptional,
			lnwire.StaticRemoteKeyOptional,
			lnwire.AnchorsZeroFeeHtlcTxOptional,
		}
		alice.localFeatures = featureBits
		alice.remoteFeatures = featureBits
		bob.localFeatures = featureBits
		bob.remoteFeatures = featureBits
		bits := []lnwire.FeatureBit{
			lnwire.StaticRemoteKeyRequired,
			lnwire.AnchorsZeroFeeHtlcTxRequired,
		}
		row.ChanType = "zerofee"
		if kind == "zero_conf_alias" {
			bits = append(bits, lnwire.ZeroConfRequired,
				lnwire.ScidAliasRequired)
			row.ChanType = "zerofee+zeroconf+scidalias"
		}
		ct := lnwire.ChannelType(*lnwire.NewRawFeatureVector(bits...))
		chanType = &ct
	}

	localAmt := btcutil.Amount(500000)
	updateChan := make(chan *lnrpc.OpenStatusUpdate)

	switch kind {
	case "normal", "anchors":
		row.WantReady = 2
		row.Ops = append(row.Ops, "open", "confirm", "channel_ready x2",
			"duplicate channel_ready")
		fundingOutPoint, fundingTx := openChannel(
			t, alice, bob, localAmt, 0, 1, updateChan, true, chanType,
		)
		chanID := lnwire.NewChanIDFromOutPoint(*fundingOutPoint)
		sendAndCheckFirstConfirmation(t, alice, chanID, fundingTx)
		sendAndCheckFirstConfirmation(t, bob, chanID, fundingTx)
		assertMarkedOpen(t, alice, bob, fundingOutPoint)
		crA := assertFundingMsgSent(
			t, alice.msgChan, "ChannelReady",
		).(*lnwire.ChannelReady)
		crB := assertFundingMsgSent(
			t, bob.msgChan, "ChannelReady",
		).(*lnwire.ChannelReady)
		assertChannelReadySent(t, alice, bob, fundingOutPoint)
		alice.fundingMgr.ProcessFundingMsg(crB, bob)
		bob.fundingMgr.ProcessFundingMsg(crA, alice)
		assertHandleChannelReady(t, alice, bob)
		assertChannelAnnouncements(
			t, alice, bob, localAmt, nil, nil, nil, nil,
		)
		assertAddedToGraph(t, alice, bob, fundingOutPoint)
		waitForOpenUpdate(t, updateChan)
		// a duplicate channel_ready must not make us send anything
		alice.fundingMgr.ProcessFundingMsg(crB, bob)
		assertErrorNotSent(t, alice.msgChan)

	case "restart_resend":
		row.WantReady = 2
		row.Ops = append(row.Ops, "open", "confirm",
			"alice channel_ready send fails", "restart alice",
			"channel_ready x2")
		fundingOutPoint, fundingTx := openChannel(
			t, alice, bob, localAmt, 0, 1, updateChan, true, nil,
		)
		chanID := lnwire.NewChanIDFromOutPoint(*fundingOutPoint)
		working := bob.sendMessage
		bob.sendMessage = func(msg lnwire.Message) error {
			return fmt.Errorf("intentional error in SendToPeer")
		}
		alice.fundingMgr.cfg.NotifyWhenOnline = func(peer [33]byte,
			con chan<- lnpeer.Peer) {
		}
		sendAndCheckFirstConfirmation(t, alice, chanID, fundingTx)
		sendAndCheckFirstConfirmation(t, bob, chanID, fundingTx)
		assertMarkedOpen(t, alice, bob, fundingOutPoint)
		crB := assertFundingMsgSent(
			t, bob.msgChan, "ChannelReady",
		).(*lnwire.ChannelReady)
		assertDatabaseState(t, alice, fundingOutPoint, markedOpen)
		assertDatabaseState(t, bob, fundingOutPoint, channelReadySent)
		require.NoError(t, alice.fundingMgr.Stop())
		bob.sendMessage = working
		recreateAliceFundingManager(t, alice)
		crA := assertFundingMsgSent(
			t, alice.msgChan, "ChannelReady",
		).(*lnwire.ChannelReady)
		assertDatabaseState(t, alice, fundingOutPoint, channelReadySent)
		alice.fundingMgr.ProcessFundingMsg(crB, bob)
		bob.fundingMgr.ProcessFundingMsg(crA, alice)
		assertHandleChannelReady(t, alice, bob)
		assertChannelAnnouncements(
			t, alice, bob, localAmt, nil, nil, nil, nil,
		)
		assertAddedToGraph(t, alice, bob, fundingOutPoint)

	case "zero_conf_alias":
		// alice has no alias stored when bob's channel_ready arrives:
		// processChannelReady sends a second channel_ready built from
		// OpenChannel.SecondCommitmentPoint
		row.WantReady = 3
		row.Ops = append(row.Ops, "open zero-conf", "channel_ready x2",
			"alice: alias upgrade channel_ready")
		am := &vfpNoAliasMgr{}
		alice.fundingMgr.cfg.AliasManager = am
		bob.fundingMgr.cfg.OpenChannelPredicate = &mockZeroConfAcceptor{}
		fundingTx := fundChannel(
			t, alice, bob, localAmt, 0, false, 0, 0, 1, updateChan,
			false, chanType,
		)
		_ = fundingTx
		crB := assertFundingMsgSent(
			t, bob.msgChan, "ChannelReady",
		).(*lnwire.ChannelReady)
		crA := assertFundingMsgSent(
			t, alice.msgChan, "ChannelReady",
		).(*lnwire.ChannelReady)
		require.NotNil(t, crB.AliasScid)
		am.forget.Store(true)
		alice.fundingMgr.ProcessFundingMsg(crB, bob)
		crA2 := assertFundingMsgSent(
			t, alice.msgChan, "ChannelReady",
		).(*lnwire.ChannelReady)
		require.NotNil(t, crA2.AliasScid)
		bob.fundingMgr.ProcessFundingMsg(crA, alice)
		assertHandleChannelReady(t, alice, bob)
	}
	vfpRoots(t, rec, alice, bob)
}

func TestVerifFundingPoints(t *testing.T) {
	out := vOpenOut()
	defer out.close()
	kinds := []string{"normal", "restart_resend", "zero_conf_alias",
		"anchors"}
	first := int(vEnvInt("VERIF_FIRST_CASE", 0))
	n := vCases(len(kinds), 3*len(kinds))
	for ci := first; ci < first+n; ci++ {
		kind := kinds[ci%len(kinds)]
		row := &vfpRow{Stage: "funding", Case: ci, Seed: vSeed(),
			Kind: kind, ChanType: "default", Ops: []string{},
			Events: []vfpEvent{}}
		ok := t.Run(fmt.Sprintf("%d_%s", ci, kind), func(t *testing.T) {
			vfpCase(t, ci, kind, row)
		})
		if !ok && row.Abort == "" {
			row.Abort = "funding flow did not complete (see test log)"
		}
		out.emit(row)
	}
}
