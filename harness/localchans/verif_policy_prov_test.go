//go:build verif

package localchans

// C09 "policy provenance" stage: the ForwardingPolicy a link ENFORCES after
// `lncli updatechanpolicy` must be, field by field, the policy that is
// ADVERTISED (handed to the gossiper, persisted in the graph).
//
// Drives the REAL localchans.Manager.UpdatePolicy over K channels.  The hooks
// are wired as in lnd:
//
//	ForAllOutgoingChannels  hands out a fresh COPY of every stored edge policy
//	                        (a graph-db read)
//	PropagateChanPolicyUpdate  the gossiper: persists the edges it is given -
//	                        this is what the network is told
//	UpdateForwardingPolicies  the switch: applies every entry of the map to
//	                        the REAL htlcswitch channelLink of that channel
//	                        (link.UpdateForwardingPolicy)
//	FetchChannel            the negotiated htlc limits of the channel
//
// Enumerated: which field changes (min_htlc, max_htlc, base fee, fee rate,
// time-lock delta, inbound base, inbound rate) x raise/lower x {one channel
// targeted, all channels}, "keep" semantics (min_htlc nil, max_htlc 0, inbound
// fee None), updates of everything at once, two-step histories (raise min,
// then a fee-only update that must keep it; set inbound fee, then a base-fee
// only update), invalid schemas (rejected: nothing may change).
//
// Emitted: one "prov" row per (scenario, step, channel): previous advertised
// policy, schema, what the gossiper got, what the switch got, negotiated
// limits; and "fwd" rows: boundary HTLCs (min-1/min, max/max+1, the OLD
// boundaries, fee boundary, delta boundary) through the real link's
// CheckHtlcForward, recorded against the ADVERTISED values, in the row format
// of the decision-function stage (python predicate + Coq model).

import (
	"bufio"
	"context"
	"encoding/json"
	"fmt"
	"math/big"
	"os"
	"testing"

	"github.com/btcsuite/btcd/wire/v2"
	"github.com/lightningnetwork/lnd/channeldb"
	"github.com/lightningnetwork/lnd/chanstate"
	"github.com/lightningnetwork/lnd/discovery"
	"github.com/lightningnetwork/lnd/fn/v2"
	"github.com/lightningnetwork/lnd/graph/db/models"
	"github.com/lightningnetwork/lnd/htlcswitch"
	"github.com/lightningnetwork/lnd/lnwallet"
	"github.com/lightningnetwork/lnd/lnwire"
	"github.com/lightningnetwork/lnd/routing"
)

// vPVPol is a policy in the small projection the property talks about.
type vPVPol struct {
	Min    uint64 `json:"min"`
	Max    uint64 `json:"max"`
	Base   uint64 `json:"base"`
	Rate   uint64 `json:"rate"`
	Delta  uint32 `json:"delta"`
	HasIn  bool   `json:"has_inbound"`
	IBase  int32  `json:"ibase"`
	IRate  int32  `json:"irate"`
	MaxFlg bool   `json:"max_flag"`
}

// vPVSchema is the operator's request (routing.ChannelPolicy).
type vPVSchema struct {
	Base    uint64  `json:"base"`
	Rate    uint32  `json:"rate"`
	Delta   uint32  `json:"delta"`
	Max     uint64  `json:"max"` // 0 = keep
	Min     *uint64 `json:"min"` // nil = keep
	HasIn   bool    `json:"has_inbound"`
	IBase   int32   `json:"ibase"`
	IRate   int32   `json:"irate"`
	Targets []int   `json:"targets"` // nil = all channels (no filter)
}

type vPVRow struct {
	Kind     string    `json:"kind"` // prov
	Scenario string    `json:"scenario"`
	Step     int       `json:"step"`
	Chan     int       `json:"chan"`
	Targeted bool      `json:"targeted"`
	Schema   vPVSchema `json:"schema"`
	AmtMin   uint64    `json:"amt_min"`
	AmtMax   uint64    `json:"amt_max"`
	Prev     vPVPol    `json:"prev_advertised"`
	Adv      vPVPol    `json:"advertised"` // stored in the graph after the step
	InEdges  bool      `json:"in_edges"`   // handed to the gossiper in this step
	InMap    bool      `json:"in_map"`     // handed to the switch in this step
	Handed   vPVPol    `json:"handed"`     // the entry of the switch map (if in_map)
	Enforced vPVPol    `json:"enforced"`   // last policy installed in the link
	Failed   string    `json:"failed"`     // FailedUpdate reason for this channel
	Err      string    `json:"err"`
}

// vPVCase is the row format of harness/htlcswitch/verif_policy_test.go.
type vPVCase struct {
	Case    int    `json:"case"`
	Kind    string `json:"kind"`
	Cls     string `json:"cls"`
	Min     uint64 `json:"min"`
	Max     uint64 `json:"max"`
	Base    uint64 `json:"base"`
	Rate    uint64 `json:"rate"`
	Delta   uint32 `json:"delta"`
	Rej     uint32 `json:"rej"`
	MaxCltv uint32 `json:"maxcltv"`
	ChanBw  uint64 `json:"chanbw"`
	Aux     int    `json:"aux"`
	AuxBw   uint64 `json:"auxbw"`
	Custom  bool   `json:"custom"`
	UpdOk   bool   `json:"updok"`
	In      uint64 `json:"in"`
	Out     uint64 `json:"out"`
	InExp   uint32 `json:"inexp"`
	OutExp  uint32 `json:"outexp"`
	IBase   int32  `json:"ibase"`
	IRate   int32  `json:"irate"`
	Height  uint32 `json:"height"`
	Code    int    `json:"code"`
	Detail  int    `json:"detail"`
	Name    string `json:"name"`
	Arg     uint64 `json:"arg"`

	// provenance of the case
	Prov     string `json:"prov"` // scenario
	Step     int    `json:"step"`
	Chan     int    `json:"chan"`
	InChan   int    `json:"in_chan"`
	Probe    string `json:"probe"`
	PassedIB int32  `json:"passed_ibase"` // inbound fee the switch would pass
	PassedIR int32  `json:"passed_irate"`
}

func vPVClassify(le *htlcswitch.LinkError) (int, int, string, uint64) {
	if le == nil {
		return 0, 0, "nil", 0
	}
	msg := le.WireMessage()
	name := fmt.Sprintf("%T", msg)
	detail := 9
	switch le.FailureDetail {
	case nil:
		detail = 0
	case htlcswitch.OutgoingFailureHTLCExceedsMax:
		detail = 1
	case htlcswitch.OutgoingFailureInsufficientBalance:
		detail = 2
	}
	switch detail {
	case 1:
		name += "/ExceedsMax"
	case 2:
		name += "/InsufficientBalance"
	case 9:
		name += fmt.Sprintf("/%v", le.FailureDetail)
	}
	switch m := msg.(type) {
	case *lnwire.FailFeeInsufficient:
		return 1, detail, name, uint64(m.HtlcMsat)
	case *lnwire.FailAmountBelowMinimum:
		return 2, detail, name, uint64(m.HtlcMsat)
	case *lnwire.FailTemporaryChannelFailure:
		return 3, detail, name, 0
	case *lnwire.FailExpiryTooSoon:
		return 4, detail, name, 0
	case *lnwire.FailExpiryTooFar:
		return 5, detail, name, 0
	case *lnwire.FailIncorrectCltvExpiry:
		return 6, detail, name, uint64(m.CltvExpiry)
	case *lnwire.FailTemporaryNodeFailure:
		return 7, detail, name, 0
	}

	return 8, detail, name, 0
}

func vPVOfEdge(e *models.ChannelEdgePolicy) vPVPol {
	p := vPVPol{
		Min: uint64(e.MinHTLC), Max: uint64(e.MaxHTLC),
		Base: uint64(e.FeeBaseMSat), Rate: uint64(e.FeeProportionalMillionths),
		Delta: uint32(e.TimeLockDelta), MaxFlg: e.MessageFlags.HasMaxHtlc(),
	}
	e.InboundFee.WhenSome(func(f lnwire.Fee) {
		p.HasIn, p.IBase, p.IRate = true, f.BaseFee, f.FeeRate
	})

	return p
}

func vPVOfFwd(f models.ForwardingPolicy) vPVPol {
	return vPVPol{
		Min: uint64(f.MinHTLCOut), Max: uint64(f.MaxHTLC), Base: uint64(f.BaseFee),
		Rate: uint64(f.FeeRate), Delta: f.TimeLockDelta,
		HasIn: f.InboundFee != models.InboundFee{}, IBase: f.InboundFee.Base,
		IRate: f.InboundFee.Rate,
	}
}

type vPVChan struct {
	cp       wire.OutPoint
	info     *models.ChannelEdgeInfo
	stored   *models.ChannelEdgePolicy // the graph
	amtMin   lnwire.MilliSatoshi
	amtMax   lnwire.MilliSatoshi
	link     htlcswitch.ChannelLink
	enforced models.ForwardingPolicy // last policy installed in the link
}

type vPVWorld struct {
	t     *testing.T
	lnch  *lnwallet.LightningChannel
	chans []*vPVChan
	mgr   *Manager

	// per step
	edges map[wire.OutPoint]bool
	pmap  map[wire.OutPoint]models.ForwardingPolicy
}

func vPVCopyEdge(e *models.ChannelEdgePolicy) *models.ChannelEdgePolicy {
	c := *e
	c.ExtraOpaqueData = append([]byte(nil), e.ExtraOpaqueData...)

	return &c
}

// vPVLinkPolicy is how peer.Brontide derives the link policy from our own
// edge policy when it creates the link.
func vPVLinkPolicy(e *models.ChannelEdgePolicy) models.ForwardingPolicy {
	f := models.ForwardingPolicy{
		MinHTLCOut: e.MinHTLC, MaxHTLC: e.MaxHTLC, BaseFee: e.FeeBaseMSat,
		FeeRate: e.FeeProportionalMillionths, TimeLockDelta: uint32(e.TimeLockDelta),
	}
	e.InboundFee.WhenSome(func(fee lnwire.Fee) {
		f.InboundFee = models.NewInboundFeeFromWire(fee)
	})

	return f
}

func vPVNewWorld(t *testing.T, lnch *lnwallet.LightningChannel, r *vrng, k int) *vPVWorld {
	w := &vPVWorld{t: t, lnch: lnch}
	for i := 0; i < k; i++ {
		c := &vPVChan{
			cp:     wire.OutPoint{Index: uint32(i + 1)},
			amtMin: lnwire.MilliSatoshi([]uint64{1, 1000, 1}[i%3]),
			amtMax: 5_000_000_000,
		}
		c.cp.Hash[0] = byte(i + 1)
		c.info = &models.ChannelEdgeInfo{Version: lnwire.GossipVersion1, ChannelPoint: c.cp}
		c.stored = &models.ChannelEdgePolicy{
			Version:                   lnwire.GossipVersion1,
			MessageFlags:              lnwire.ChanUpdateRequiredMaxHtlc,
			MinHTLC:                   lnwire.MilliSatoshi([]uint64{2000, 1000, 5000}[(i+r.intn(3))%3]),
			MaxHTLC:                   lnwire.MilliSatoshi([]uint64{1_000_000_000, 400_000_000}[r.intn(2)]),
			FeeBaseMSat:               lnwire.MilliSatoshi([]uint64{1000, 0, 777}[r.intn(3)]),
			FeeProportionalMillionths: lnwire.MilliSatoshi([]uint64{1, 250, 0}[r.intn(3)]),
			TimeLockDelta:             []uint16{40, 80, 18}[r.intn(3)],
		}
		switch r.intn(3) {
		case 0:
			c.stored.InboundFee = fn.Some(lnwire.Fee{BaseFee: -500, FeeRate: -100})
		case 1:
			c.stored.InboundFee = fn.Some(lnwire.Fee{BaseFee: 100, FeeRate: 50})
		}
		c.enforced = vPVLinkPolicy(c.stored)
		cc := c
		c.link = htlcswitch.NewChannelLink(htlcswitch.ChannelLinkConfig{
			FwrdingPolicy:           c.enforced,
			DisallowQuiescence:      true,
			MaxOutgoingCltvExpiry:   2016,
			OutgoingCltvRejectDelta: 3,
			FailAliasUpdate: func(lnwire.ShortChannelID, bool) *lnwire.ChannelUpdate1 {
				return nil
			},
			FetchLastChannelUpdate: func(lnwire.ShortChannelID) (
				*lnwire.ChannelUpdate1, error) {

				return &lnwire.ChannelUpdate1{
					HtlcMinimumMsat: cc.stored.MinHTLC,
					HtlcMaximumMsat: cc.stored.MaxHTLC,
					BaseFee:         uint32(cc.stored.FeeBaseMSat),
					FeeRate:         uint32(cc.stored.FeeProportionalMillionths),
					TimeLockDelta:   cc.stored.TimeLockDelta,
				}, nil
			},
		}, lnch)
		w.chans = append(w.chans, c)
	}
	byCP := func(cp wire.OutPoint) *vPVChan {
		for _, c := range w.chans {
			if c.cp == cp {
				return c
			}
		}

		return nil
	}
	w.mgr = &Manager{
		UpdateForwardingPolicies: func(pols map[wire.OutPoint]models.ForwardingPolicy) {
			// Switch.UpdateForwardingPolicies: every known link
			// named in the map gets its entry.
			for cp, pol := range pols {
				w.pmap[cp] = pol
				if c := byCP(cp); c != nil {
					c.link.UpdateForwardingPolicy(pol)
					c.enforced = pol
				}
			}
		},
		PropagateChanPolicyUpdate: func(edges []discovery.EdgeWithInfo) error {
			for _, e := range edges {
				w.edges[e.Info.ChannelPoint] = true
				if c := byCP(e.Info.ChannelPoint); c != nil {
					c.stored = vPVCopyEdge(e.Edge)
				}
			}

			return nil
		},
		ForAllOutgoingChannels: func(_ context.Context,
			cb func(*models.ChannelEdgeInfo, *models.ChannelEdgePolicy) error,
			_ func()) error {

			for _, c := range w.chans {
				if err := cb(c.info, vPVCopyEdge(c.stored)); err != nil {
					return err
				}
			}

			return nil
		},
		FetchChannel: func(cp wire.OutPoint) (*chanstate.OpenChannel, error) {
			c := byCP(cp)
			if c == nil {
				return nil, channeldb.ErrChannelNotFound
			}
			b := chanstate.ChannelStateBounds{
				MaxPendingAmount: c.amtMax, MinHTLC: c.amtMin,
			}

			return &chanstate.OpenChannel{
				FundingOutpoint: cp,
				LocalChanCfg:    chanstate.ChannelConfig{ChannelStateBounds: b},
				RemoteChanCfg:   chanstate.ChannelConfig{ChannelStateBounds: b},
			}, nil
		},
	}

	return w
}

// step applies one schema through the real Manager.UpdatePolicy.
func (w *vPVWorld) step(out *vWriter, scen string, stepNo int, sc vPVSchema) {
	prev := make([]vPVPol, len(w.chans))
	for i, c := range w.chans {
		prev[i] = vPVOfEdge(c.stored)
	}
	w.edges = map[wire.OutPoint]bool{}
	w.pmap = map[wire.OutPoint]models.ForwardingPolicy{}
	schema := routing.ChannelPolicy{
		FeeSchema: routing.FeeSchema{
			BaseFee: lnwire.MilliSatoshi(sc.Base), FeeRate: sc.Rate,
		},
		TimeLockDelta: sc.Delta,
		MaxHTLC:       lnwire.MilliSatoshi(sc.Max),
	}
	if sc.Min != nil {
		m := lnwire.MilliSatoshi(*sc.Min)
		schema.MinHTLC = &m
	}
	if sc.HasIn {
		schema.InboundFee = fn.Some(models.InboundFee{Base: sc.IBase, Rate: sc.IRate})
	}
	var cps []wire.OutPoint
	targeted := map[int]bool{}
	for _, i := range sc.Targets {
		cps = append(cps, w.chans[i].cp)
		targeted[i] = true
	}
	failed, err := w.mgr.UpdatePolicy(context.Background(), schema, false, cps...)
	for i, c := range w.chans {
		row := vPVRow{
			Kind: "prov", Scenario: scen, Step: stepNo, Chan: i,
			Targeted: sc.Targets == nil || targeted[i], Schema: sc,
			AmtMin: uint64(c.amtMin), AmtMax: uint64(c.amtMax),
			Prev: prev[i], Adv: vPVOfEdge(c.stored), InEdges: w.edges[c.cp],
			Enforced: vPVOfFwd(c.enforced),
		}
		if p, ok := w.pmap[c.cp]; ok {
			row.InMap, row.Handed = true, vPVOfFwd(p)
		}
		if err != nil {
			row.Err = err.Error()
		}
		for _, f := range failed {
			if f.Outpoint != nil && f.Outpoint.OutputIndex == c.cp.Index {
				row.Failed = f.Reason.String() + ": " + f.UpdateError
			}
		}
		out.emit(row)
	}
}

var vPVMillion = big.NewInt(1000000)

// vPVIn: smallest accepted incoming amount for the ADVERTISED policy + d.
func vPVIn(c *vPVCase, d int64) {
	out := new(big.Int).SetUint64(c.Out)
	f := new(big.Int).Mul(out, new(big.Int).SetUint64(c.Rate))
	f.Div(f, vPVMillion)
	f.Add(f, new(big.Int).SetUint64(c.Base))
	a := new(big.Int).Add(out, f)
	p := new(big.Int).Mul(big.NewInt(int64(c.IRate)), a)
	p.Quo(p, vPVMillion)
	p.Add(p, big.NewInt(int64(c.IBase)))
	p.Add(p, f)
	if p.Sign() < 0 {
		p.SetInt64(0)
	}
	p.Add(p, out)
	p.Add(p, big.NewInt(d))
	if p.Sign() < 0 {
		p.SetInt64(0)
	}
	c.In = p.Uint64()
}

// probes runs the boundary HTLCs of every channel against its link.
func (w *vPVWorld) probes(out *vWriter, caseNo *int, scen string, stepNo int, prev []vPVPol) {
	const height = uint32(800000)
	for i, c := range w.chans {
		adv := vPVOfEdge(c.stored)
		j := (i + 1) % len(w.chans)
		inAdv := vPVOfEdge(w.chans[j].stored)
		inEnf := w.chans[j].enforced.InboundFee
		mid := uint64(1000000)
		if mid < adv.Min {
			mid = adv.Min
		}
		if adv.Max != 0 && mid > adv.Max {
			mid = adv.Max
		}
		type pr struct {
			label  string
			out    uint64
			fd, dd int64
		}
		ps := []pr{
			{"min", adv.Min, 0, 0}, {"max", adv.Max, 0, 0}, {"max+1", adv.Max + 1, 0, 0},
			{"fee-1", mid, -1, 0}, {"fee", mid, 0, 0}, {"delta-1", mid, 0, -1},
			{"oldmin", prev[i].Min, 0, 0}, {"oldmax", prev[i].Max, 0, 0},
			{"oldmax+1", prev[i].Max + 1, 0, 0},
		}
		if adv.Min > 1 {
			ps = append(ps, pr{"min-1", adv.Min - 1, 0, 0})
		}
		if prev[i].Min > 1 {
			ps = append(ps, pr{"oldmin-1", prev[i].Min - 1, 0, 0})
		}
		for _, p := range ps {
			if p.out == 0 {
				continue
			}
			*caseNo++
			k := &vPVCase{
				Case: *caseNo, Kind: "fwd", Cls: "prov:" + p.label,
				Min: adv.Min, Max: adv.Max, Base: adv.Base, Rate: adv.Rate,
				Delta: adv.Delta, Rej: 3, MaxCltv: 2016,
				ChanBw: uint64(c.link.Bandwidth()), UpdOk: true,
				Out: p.out, OutExp: height + 100, IBase: inAdv.IBase, IRate: inAdv.IRate,
				Height: height, Prov: scen, Step: stepNo, Chan: i, InChan: j,
				Probe: p.label, PassedIB: inEnf.Base, PassedIR: inEnf.Rate,
			}
			k.InExp = uint32(int64(k.OutExp) + int64(adv.Delta) + p.dd)
			vPVIn(k, p.fd)
			le := c.link.CheckHtlcForward([32]byte{byte(i)}, lnwire.MilliSatoshi(k.In),
				lnwire.MilliSatoshi(k.Out), k.InExp, k.OutExp, inEnf, height,
				lnwire.ShortChannelID{}, nil)
			k.Code, k.Detail, k.Name, k.Arg = vPVClassify(le)
			out.emit(k)
		}
	}
}

type vPVScenario struct {
	name  string
	steps []vPVSchema
}

func u64p(v uint64) *uint64 { return &v }

// vPVScenarios enumerates field x direction x targeting on top of the state of
// channel `t` of world w (the operator re-supplies the current base fee, fee
// rate and time-lock delta, as lncli requires).
func vPVScenarios(w *vPVWorld, r *vrng) []vPVScenario {
	var all []vPVScenario
	t := r.intn(len(w.chans))
	cur := vPVOfEdge(w.chans[t].stored)
	keep := func() vPVSchema {
		return vPVSchema{Base: cur.Base, Rate: uint32(cur.Rate), Delta: cur.Delta}
	}
	for _, tgt := range [][]int{{t}, nil} {
		tn := "one"
		if tgt == nil {
			tn = "all"
		}
		for _, dir := range []string{"raise", "lower"} {
			up := dir == "raise"
			sel := func(a, b uint64) uint64 {
				if up {
					return a
				}

				return b
			}
			add := func(f string, s vPVSchema) {
				s.Targets = tgt
				all = append(all, vPVScenario{f + "/" + dir + "/" + tn, []vPVSchema{s}})
			}
			s := keep()
			s.Min = u64p(sel(cur.Min+3000, cur.Min-(cur.Min-1)/2))
			add("min", s)
			s = keep()
			s.Max = sel(cur.Max+1000000, cur.Max-1000000)
			add("max", s)
			s = keep()
			s.Base = sel(cur.Base+500, cur.Base/2)
			add("base", s)
			s = keep()
			s.Rate = uint32(sel(cur.Rate+100, cur.Rate/2))
			add("rate", s)
			s = keep()
			s.Delta = uint32(sel(uint64(cur.Delta+20), uint64(cur.Delta-4)))
			add("delta", s)
			s = keep()
			s.HasIn, s.IBase, s.IRate = true, cur.IBase+int32(sel(300, 0))-int32(sel(0, 300)), cur.IRate
			add("ibase", s)
			s = keep()
			s.HasIn, s.IBase, s.IRate = true, cur.IBase, cur.IRate+int32(sel(70, 0))-int32(sel(0, 70))
			add("irate", s)
		}
		// everything at once
		s := vPVSchema{Base: cur.Base + 11, Rate: uint32(cur.Rate) + 7, Delta: cur.Delta + 2,
			Max: cur.Max - 12345, Min: u64p(cur.Min + 1234), HasIn: true, IBase: -77, IRate: 33,
			Targets: tgt}
		all = append(all, vPVScenario{"all-fields/" + tn, []vPVSchema{s}})
		// histories: a min/max/inbound update followed by a fee-only update
		// that has to keep them
		s1 := keep()
		s1.Min, s1.Max, s1.Targets = u64p(cur.Min+2500), cur.Max-500000, tgt
		s1.HasIn, s1.IBase, s1.IRate = true, 250, -40
		s2 := keep()
		s2.Base, s2.Targets = cur.Base+321, tgt
		all = append(all, vPVScenario{"then-fee-only/" + tn, []vPVSchema{s1, s2}})
		// lower min, then raise it again with nothing else
		s3 := keep()
		s3.Min, s3.Targets = u64p(cur.Min-(cur.Min-1)/2), tgt
		s4 := keep()
		s4.Min, s4.Targets = u64p(cur.Min+4000), tgt
		all = append(all, vPVScenario{"min-down-up/" + tn, []vPVSchema{s3, s4}})
		// rejected schemas: nothing may change
		s5 := keep()
		s5.Min, s5.Targets = u64p(0), tgt // below the negotiated minimum (amtMin >= 1)
		all = append(all, vPVScenario{"invalid-min-low/" + tn, []vPVSchema{s5}})
		s6 := keep()
		s6.Max, s6.Base, s6.Targets = 5_000_000_001, cur.Base+9, tgt
		all = append(all, vPVScenario{"invalid-max-high/" + tn, []vPVSchema{s6}})
		s7 := keep()
		s7.Min, s7.Rate, s7.Targets = u64p(cur.Max+1), uint32(cur.Rate)+3, tgt
		all = append(all, vPVScenario{"invalid-min-gt-max/" + tn, []vPVSchema{s7}})
	}

	return all
}

func TestVerifPolicyProvenance(t *testing.T) {
	p := os.Getenv("VERIF_OUT")
	if p == "" {
		p = os.DevNull
	}
	f, err := os.Create(p)
	if err != nil {
		t.Fatal(err)
	}
	out := &vWriter{f: f, w: bufio.NewWriterSize(f, 1<<16)}
	defer out.close()

	lnch, _, err := lnwallet.CreateTestChannels(t, channeldb.SingleFunderTweaklessBit)
	if err != nil {
		t.Fatal(err)
	}
	root := vNewRng(vSeed()).fork(606)
	caseNo := 3000000
	run := func(wseed uint64, sc vPVScenario) {
		// the same initial world for every scenario of a family
		w := vPVNewWorld(t, lnch, root.fork(wseed), 3)
		for si, st := range sc.steps {
			prev := make([]vPVPol, len(w.chans))
			for i, c := range w.chans {
				prev[i] = vPVOfEdge(c.stored)
			}
			w.step(out, sc.name, si, st)
			w.probes(out, &caseNo, sc.name, si, prev)
		}
	}
	if s := os.Getenv("VERIF_PV_SCENARIO"); s != "" {
		var rp struct {
			World uint64      `json:"world"`
			Name  string      `json:"name"`
			Steps []vPVSchema `json:"steps"`
		}
		if err := json.Unmarshal([]byte(s), &rp); err != nil {
			t.Fatalf("VERIF_PV_SCENARIO: %v", err)
		}
		run(rp.World, vPVScenario{rp.Name, rp.Steps})

		return
	}
	worlds := 3
	if vTier() == "thorough" {
		worlds = 12
	}
	worlds = int(vEnvInt("VERIF_PV_WORLDS", int64(worlds)))
	for wi := 0; wi < worlds; wi++ {
		ws := uint64(wi + 1)
		w0 := vPVNewWorld(t, lnch, root.fork(ws), 3)
		for _, sc := range vPVScenarios(w0, root.fork(1000+ws)) {
			sc.name = fmt.Sprintf("w%d:%s", ws, sc.name)
			run(ws, sc)
		}
	}
}
