//go:build verif

package routing

// C19 correspondence harness.  Drives the REAL findPath + newRoute and the
// real edgeUnifier.getEdge on seeded small directed multigraphs (parallel
// channels, asymmetric / missing / disabled policies, zero and negative
// inbound fees, route hints, self-payments, tight amount / bandwidth / fee /
// cltv / payload limits, outgoing-channel, last-hop and ignore restrictions)
// and writes every returned route together with the graph it was found in to
// VERIF_OUT (JSONL).  /verif/props/c19.py evaluates the property predicate
// on each row and Route/Exec.v re-runs the model on it.

import (
	"context"
	"math"
	"sort"
	"sync"
	"testing"
	"time"

	"github.com/btcsuite/btcd/btcec/v2"
	"github.com/btcsuite/btcd/btcutil/v2"
	sphinx "github.com/lightningnetwork/lightning-onion"
	"github.com/lightningnetwork/lnd/fn/v2"
	graphdb "github.com/lightningnetwork/lnd/graph/db"
	"github.com/lightningnetwork/lnd/graph/db/models"
	"github.com/lightningnetwork/lnd/lnwire"
	"github.com/lightningnetwork/lnd/record"
	"github.com/lightningnetwork/lnd/routing/route"
)

// ---- graph ----------------------------------------------------------------

// vPol is one directed policy of a channel.
type vPol struct {
	Disabled bool
	Min, Max uint64
	HasMax   bool
	Base     uint64
	Rate     uint64
	Delta    uint16
}

// vChan is a channel between nodes A and B (indices).  AB is A's policy
// (direction A->B), BA is B's.  InA / InB are the inbound fees charged by A
// resp. B on this channel.  Hint channels are not in the graph but handed to
// findPath as additional (private) edges.
type vChan struct {
	ID     uint64
	A, B   int
	Cap    int64 // satoshi, 0 = unknown
	AB, BA *vPol
	InA    [2]int32 // base, rate charged by A for htlcs ARRIVING at A
	InB    [2]int32
	Hint   bool
}

type vEdgeJ struct {
	Chan     uint64 `json:"chan"`
	From     int    `json:"from"`
	To       int    `json:"to"`
	Disabled bool   `json:"dis"`
	Min      uint64 `json:"min"`
	Max      uint64 `json:"max"`
	HasMax   bool   `json:"hasmax"`
	Base     uint64 `json:"base"`
	Rate     uint64 `json:"rate"`
	Delta    uint32 `json:"delta"`
	IBase    int64  `json:"ibase"`
	IRate    int64  `json:"irate"`
	Cap      int64  `json:"cap"`
	Hint     bool   `json:"hint,omitempty"`
}

type vGraph struct {
	nodes []route.Vertex
	idx   map[route.Vertex]int
	chans []*vChan
}

func vPubkey(id int) route.Vertex {
	_, pub := btcec.PrivKeyFromBytes([]byte{byte(id + 1), 0x19})
	var v route.Vertex
	copy(v[:], pub.SerializeCompressed())
	return v
}

func vNewGraph(n int) *vGraph {
	g := &vGraph{idx: make(map[route.Vertex]int)}
	for i := 0; i < n; i++ {
		v := vPubkey(i)
		g.nodes = append(g.nodes, v)
		g.idx[v] = i
	}
	return g
}

func (g *vGraph) clone() *vGraph {
	c := &vGraph{nodes: g.nodes, idx: g.idx}
	for _, ch := range g.chans {
		cc := *ch
		if ch.AB != nil {
			p := *ch.AB
			cc.AB = &p
		}
		if ch.BA != nil {
			p := *ch.BA
			cc.BA = &p
		}
		c.chans = append(c.chans, &cc)
	}
	return c
}

func (g *vGraph) cached(ch *vChan, p *vPol, to route.Vertex) *models.CachedEdgePolicy {
	return &models.CachedEdgePolicy{
		ChannelID:                 ch.ID,
		HasMaxHTLC:                p.HasMax,
		IsDisabled:                p.Disabled,
		TimeLockDelta:             p.Delta,
		MinHTLC:                   lnwire.MilliSatoshi(p.Min),
		MaxHTLC:                   lnwire.MilliSatoshi(p.Max),
		FeeBaseMSat:               lnwire.MilliSatoshi(p.Base),
		FeeProportionalMillionths: lnwire.MilliSatoshi(p.Rate),
		ToNodePubKey:              func() route.Vertex { return to },
		ToNodeFeatures:            lnwire.EmptyFeatureVector(),
	}
}

// ForEachNodeDirectedChannel is part of the routing.Graph interface.
func (g *vGraph) ForEachNodeDirectedChannel(_ context.Context,
	nodePub route.Vertex, cb func(*graphdb.DirectedChannel) error,
	_ func()) error {

	n, ok := g.idx[nodePub]
	if !ok {
		return nil
	}
	for _, ch := range g.chans {
		if ch.Hint || (ch.A != n && ch.B != n) {
			continue
		}
		var (
			other   int
			in, out *vPol
			inb     [2]int32
		)
		if ch.A == n {
			other, in, out, inb = ch.B, ch.BA, ch.AB, ch.InA
		} else {
			other, in, out, inb = ch.A, ch.AB, ch.BA, ch.InB
		}
		dc := &graphdb.DirectedChannel{
			ChannelID:    ch.ID,
			IsNode1:      n < other,
			OtherNode:    g.nodes[other],
			Capacity:     btcutil.Amount(ch.Cap),
			OutPolicySet: out != nil,
			InboundFee:   lnwire.Fee{BaseFee: inb[0], FeeRate: inb[1]},
		}
		if in != nil {
			dc.InPolicy = g.cached(ch, in, nodePub)
		}
		if err := cb(dc); err != nil {
			return err
		}
	}
	return nil
}

// FetchNodeFeatures is part of the routing.Graph interface.
func (g *vGraph) FetchNodeFeatures(_ context.Context,
	_ route.Vertex) (*lnwire.FeatureVector, error) {

	return lnwire.EmptyFeatureVector(), nil
}

var _ Graph = (*vGraph)(nil)

// vRecGraph records every node whose channels findPath asks for: one call
// per expansion of a pivot (addGraphPolicies), i.e. the order in which nodes
// are popped from the heap, target first (plus the balance pre-check for
// self, which the caller strips).
type vRecGraph struct {
	*vGraph
	rec *vRec
}

// vRec collects the events of one findPath call.  It is locked because a
// non-terminating call is abandoned by the driver (see vCase.run).
type vRec struct {
	mu  sync.Mutex
	evs [][]uint64
}

func (r *vRec) add(e []uint64) {
	r.mu.Lock()
	defer r.mu.Unlock()
	if len(r.evs) > vMaxEvents {
		panic(vDiverged{})
	}
	r.evs = append(r.evs, e)
}

func (r *vRec) snapshot() [][]uint64 {
	r.mu.Lock()
	defer r.mu.Unlock()
	return append([][]uint64(nil), r.evs...)
}

func (g *vRecGraph) ForEachNodeDirectedChannel(ctx context.Context,
	nodePub route.Vertex, cb func(*graphdb.DirectedChannel) error,
	reset func()) error {

	g.rec.add([]uint64{0, uint64(g.idx[nodePub])})
	return g.vGraph.ForEachNodeDirectedChannel(ctx, nodePub, cb, reset)
}

var _ Graph = (*vRecGraph)(nil)

// vMaxEvents bounds the number of observed events of one findPath call,
// vMaxSearch its duration (a cyclic nextHop chain makes the unravelling loop
// at the end of findPath spin without any callback).
const (
	vMaxEvents = 20000
	vMaxSearch = 15 * time.Second
)

type vDiverged struct{}

// vAbort is set when a findPath call was abandoned; the driver stops.
var vAbort bool

// edges flattens the graph (incl. hint channels) into directed policies.
func (g *vGraph) edges() []vEdgeJ {
	var es []vEdgeJ
	add := func(ch *vChan, from, to int, p *vPol, inb [2]int32) {
		if p == nil {
			return
		}
		e := vEdgeJ{
			Chan: ch.ID, From: from, To: to, Disabled: p.Disabled,
			Min: p.Min, Max: p.Max, HasMax: p.HasMax, Base: p.Base,
			Rate: p.Rate, Delta: uint32(p.Delta),
			IBase: int64(inb[0]), IRate: int64(inb[1]), Cap: ch.Cap,
			Hint: ch.Hint,
		}
		if ch.Hint {
			// findPath assumes zero inbound fees and a fixed high
			// capacity for route hints.
			e.IBase, e.IRate = 0, 0
			e.Cap = int64(fakeHopHintCapacity)
		}
		es = append(es, e)
	}
	for _, ch := range g.chans {
		add(ch, ch.A, ch.B, ch.AB, ch.InB)
		add(ch, ch.B, ch.A, ch.BA, ch.InA)
	}
	return es
}

func (g *vGraph) additional(self int) map[route.Vertex][]AdditionalEdge {
	m := make(map[route.Vertex][]AdditionalEdge)
	for _, ch := range g.chans {
		if !ch.Hint {
			continue
		}
		if ch.AB != nil {
			m[g.nodes[ch.A]] = append(m[g.nodes[ch.A]], &PrivateEdge{
				policy: g.cached(ch, ch.AB, g.nodes[ch.B]),
			})
		}
		if ch.BA != nil {
			m[g.nodes[ch.B]] = append(m[g.nodes[ch.B]], &PrivateEdge{
				policy: g.cached(ch, ch.BA, g.nodes[ch.A]),
			})
		}
	}
	if len(m) == 0 {
		return nil
	}
	return m
}

// ---- bandwidth hints --------------------------------------------------------

type vHints struct{ m map[uint64]uint64 }

func (h *vHints) availableChanBandwidth(id uint64,
	_ lnwire.MilliSatoshi) (lnwire.MilliSatoshi, bool) {

	b, ok := h.m[id]
	return lnwire.MilliSatoshi(b), ok
}

func (h *vHints) isCustomHTLCPayment() bool { return false }

// ---- case ------------------------------------------------------------------

type vCase struct {
	g        *vGraph
	self     int
	src, dst int
	amt      uint64
	height   uint32
	finalD   uint16
	hints    map[uint64]uint64
	feeLimit uint64
	cltvLim  uint32
	outChans []uint64
	lastHop  int // -1 none
	ignNodes []int
	ignPairs [][2]int
	probs    map[[2]int]float64
	minProb  float64
	attempt  uint64
	metaLen  int // -1 none
	payAddr  bool
	custom   int // bytes of one custom record, -1 none
}

func (c *vCase) clone() *vCase {
	d := *c
	d.g = c.g.clone()
	d.hints = make(map[uint64]uint64)
	for k, v := range c.hints {
		d.hints[k] = v
	}
	d.outChans = append([]uint64(nil), c.outChans...)
	d.ignNodes = append([]int(nil), c.ignNodes...)
	d.ignPairs = append([][2]int(nil), c.ignPairs...)
	return &d
}

type vHopJ struct {
	Chan uint64 `json:"chan"`
	To   int    `json:"to"`
	Amt  uint64 `json:"amt"`
	TL   uint32 `json:"tl"`
}

type vRow struct {
	Kind     string      `json:"kind"` // route | noroute | getedge
	Case     int         `json:"case"`
	Variant  string      `json:"variant"`
	Edges    []vEdgeJ    `json:"edges,omitempty"`
	Self     int         `json:"self"`
	Src      int         `json:"src"`
	Dst      int         `json:"dst"`
	Amt      uint64      `json:"amt"`
	Height   uint32      `json:"height"`
	FinalD   uint32      `json:"finald"`
	Hints    [][2]uint64 `json:"hints"`
	FeeLimit uint64      `json:"feelimit"`
	CltvLim  uint32      `json:"cltvlimit"`
	OutChans []uint64    `json:"outchans"`
	LastHop  int         `json:"lasthop"`
	IgnNodes []int       `json:"ignnodes"`
	IgnPairs [][2]int    `json:"ignpairs"`
	Err      string      `json:"err,omitempty"`

	Path      []vEdgeJ `json:"path,omitempty"`
	Hops      []vHopJ  `json:"hops,omitempty"`
	TotalAmt  uint64   `json:"totalamt"`
	TotalTL   uint32   `json:"totaltl"`
	Sizes     []uint64 `json:"sizes,omitempty"`     // real onion payload bytes per hop
	HopSizes  []uint64 `json:"hopsizes,omitempty"`  // route.Hop.PayloadSize per hop
	LastSize  uint64   `json:"lastsize"`            // lastHopPayloadSize (findPath's own)
	OnionSize int      `json:"onionsize"`           // sphinx TotalPayloadSize
	SphinxOK  bool     `json:"sphinxok"`
	HopFees   []uint64 `json:"hopfees,omitempty"`
	TotFees   uint64   `json:"totfees"`
	Recv      uint64   `json:"recv"`
	Prob      float64  `json:"-"`
	final     *route.Hop

	// search trace (C19b): what can be observed of findPath's main loop from
	// inside the package.  Evs is the interleaved sequence of
	//   [0, v]                              pivot v is expanded (finalised)
	//   [1, from, to, amtToSend, cap, bits] processEdge asked the probability
	//                                       source; bits = Float64bits(answer)
	Evs         [][]uint64 `json:"evs,omitempty"`
	Attempt     uint64     `json:"attempt"`
	MinProbBits uint64     `json:"minprobbits"`
	HintChans   []uint64   `json:"hintchans,omitempty"`

	// getedge rows
	Local   bool     `json:"local,omitempty"`
	Net     uint64   `json:"net,omitempty"`
	NextOut uint64   `json:"nextout,omitempty"`
	Res     *vEdgeJ  `json:"res,omitempty"`
	Cands   []vEdgeJ `json:"cands,omitempty"`

	// blinded rows (kind broute | bnoroute), see verif_blinded_test.go
	Blinded   []*vBPay    `json:"blinded,omitempty"`   // the blinded payments as given
	Nums      int         `json:"nums,omitempty"`      // node index of the NUMS dummy target
	Total     uint64      `json:"total,omitempty"`     // finalHopParams.totalAmt
	SelfIntro bool        `json:"selfintro,omitempty"` // NewRouteRequest would answer ErrSelfIntro
	BSizes    [][3]uint64 `json:"bsizes,omitempty"`    // from, to, BlindedEdge.IntermediatePayloadSize
	HopEnc    [][3]int    `json:"hopenc,omitempty"`    // per hop: payment, hop index, len of EncryptedData (-1: none)
	HopBP     []int       `json:"hopbp,omitempty"`     // per hop: payment whose blinding point it carries (-1: none)
	HopTotal  []uint64    `json:"hoptotal,omitempty"`  // per hop: TotalAmtMsat
	HopMPP    []bool      `json:"hopmpp,omitempty"`    // per hop: MPP record present
	Session   bool        `json:"session,omitempty"`   // restrictions built like paymentSession.RequestRoute
	Stream    string      `json:"stream,omitempty"`    // "" base | hint | blinded | directed
	CustomLen int         `json:"customlen"`           // bytes of the destination custom record 70000, -1 none

	// session rows (verif_session_test.go): the user-level hop hints, the
	// additional edges lnd derived from them (aligned), their total number
	UserHints    [][]vHopHintJ `json:"userhints,omitempty"`
	ObsAdd       []vEdgeJ      `json:"obsadd,omitempty"`
	NObsAdd      int           `json:"nobsadd,omitempty"`
	SessBad      bool          `json:"sessbad,omitempty"`
	SearchFinalD uint32        `json:"searchfinald,omitempty"` // final delta findPath was given, if != finald
}

func (c *vCase) row(ci int, variant string) *vRow {
	r := &vRow{
		Case: ci, Variant: variant, Edges: c.g.edges(), Self: c.self,
		Src: c.src, Dst: c.dst, Amt: c.amt, Height: c.height,
		FinalD: uint32(c.finalD), FeeLimit: c.feeLimit,
		CltvLim: c.cltvLim, OutChans: append([]uint64{}, c.outChans...),
		LastHop: c.lastHop, IgnNodes: append([]int{}, c.ignNodes...),
		IgnPairs: append([][2]int{}, c.ignPairs...),
		Hints:    [][2]uint64{},
		CustomLen: c.custom,
	}
	var ids []uint64
	for id := range c.hints {
		ids = append(ids, id)
	}
	sort.Slice(ids, func(i, j int) bool { return ids[i] < ids[j] })
	for _, id := range ids {
		r.Hints = append(r.Hints, [2]uint64{id, c.hints[id]})
	}
	return r
}

func vFeatures(payAddr bool) *lnwire.FeatureVector {
	if !payAddr {
		return nil
	}
	return lnwire.NewFeatureVector(lnwire.NewRawFeatureVector(
		lnwire.TLVOnionPayloadOptional, lnwire.PaymentAddrOptional,
	), lnwire.Features)
}

// run executes the real findPath + newRoute for the case.
func (c *vCase) run(ci int, variant string) *vRow {
	row := c.row(ci, variant)
	g := c.g

	ignN := make(map[route.Vertex]struct{})
	for _, n := range c.ignNodes {
		ignN[g.nodes[n]] = struct{}{}
	}
	ignP := make(map[DirectedNodePair]struct{})
	for _, p := range c.ignPairs {
		ignP[DirectedNodePair{From: g.nodes[p[0]], To: g.nodes[p[1]]}] = struct{}{}
	}
	// Same shape as the probability source that routerrpc builds for
	// QueryRoutes (ignored nodes / pairs answer 0), mission control being
	// replaced by a seeded table.
	rec := &vRec{}
	probSrc0 := func(from, to route.Vertex) float64 {
		if _, ok := ignN[from]; ok {
			return 0
		}
		if _, ok := ignP[DirectedNodePair{From: from, To: to}]; ok {
			return 0
		}
		if p, ok := c.probs[[2]int{g.idx[from], g.idx[to]}]; ok {
			return p
		}
		return 1
	}
	probSrc := func(from, to route.Vertex, a lnwire.MilliSatoshi,
		capacity btcutil.Amount) float64 {

		p := probSrc0(from, to)
		// Watchdog (vRec.add): a search over <= 8 nodes that evaluates
		// vMaxEvents edges does not terminate (a broken heap order /
		// improvement test re-pushes popped nodes for ever).
		rec.add([]uint64{1, uint64(g.idx[from]),
			uint64(g.idx[to]), uint64(a), uint64(capacity),
			math.Float64bits(p)})
		return p
	}
	row.Attempt = c.attempt
	row.MinProbBits = math.Float64bits(c.minProb)
	for _, ch := range g.chans {
		if ch.Hint {
			row.HintChans = append(row.HintChans, ch.ID)
		}
	}

	restr := &RestrictParams{
		ProbabilitySource:  probSrc,
		FeeLimit:           lnwire.MilliSatoshi(c.feeLimit),
		OutgoingChannelIDs: c.outChans,
		CltvLimit:          c.cltvLim,
		DestFeatures:       vFeatures(c.payAddr),
	}
	fin := finalHopParams{
		amt:       lnwire.MilliSatoshi(c.amt),
		totalAmt:  lnwire.MilliSatoshi(c.amt),
		cltvDelta: c.finalD,
	}
	if c.lastHop >= 0 {
		v := g.nodes[c.lastHop]
		restr.LastHop = &v
	}
	if c.metaLen >= 0 {
		restr.Metadata = make([]byte, c.metaLen)
		fin.metadata = restr.Metadata
	}
	if c.payAddr {
		restr.PaymentAddr = fn.Some([32]byte{1, 2, 3})
		fin.paymentAddr = restr.PaymentAddr
	}
	if c.custom >= 0 {
		restr.DestCustomRecords = record.CustomSet{
			70000: make([]byte, c.custom),
		}
		fin.records = restr.DestCustomRecords
	}
	cfg := &PathFindingConfig{
		AttemptCost:    lnwire.MilliSatoshi(c.attempt),
		MinProbability: c.minProb,
	}
	finalExpiry := int32(c.height) + int32(c.finalD)
	ls, _ := lastHopPayloadSize(restr, finalExpiry, lnwire.MilliSatoshi(c.amt))
	row.LastSize = ls

	var (
		path     []*unifiedEdge
		prob     float64
		err      error
		diverged bool
	)
	done := make(chan bool, 1)
	go func() {
		defer func() {
			if x := recover(); x != nil {
				if _, ok := x.(vDiverged); !ok {
					panic(x)
				}
				done <- true
			}
		}()
		path, prob, err = findPath(
			&graphParams{
				graph:           &vRecGraph{vGraph: g, rec: rec},
				additionalEdges: g.additional(c.self),
				bandwidthHints:  &vHints{m: c.hints},
			},
			restr, cfg, g.nodes[c.self], g.nodes[c.src],
			g.nodes[c.dst], lnwire.MilliSatoshi(c.amt), 0,
			finalExpiry,
		)
		done <- false
	}()
	select {
	case diverged = <-done:
	case <-time.After(vMaxSearch):
		// abandoned: the goroutine keeps spinning until the test
		// binary exits, which the driver arranges right away
		diverged, vAbort = true, true
	}
	evs := rec.snapshot()
	if diverged {
		// keep a prefix of the trace: it already shows nodes being
		// expanded more than once
		if c.src == c.self && len(evs) > 0 && evs[0][0] == 0 {
			evs = evs[1:]
		}
		if len(evs) > 300 {
			evs = evs[:300]
		}
		row.Kind = "noroute"
		row.Err = "findPath does not terminate"
		row.Evs = evs
		return row
	}
	// The balance pre-check for self also walks self's channels; it is not
	// an expansion.
	if c.src == c.self && len(evs) > 0 && evs[0][0] == 0 {
		evs = evs[1:]
	}
	row.Evs = evs
	if err != nil {
		row.Kind = "noroute"
		row.Err = err.Error()
		if err != errNoPathFound || len(evs) == 0 {
			row.Edges = nil
			row.Evs = nil
		}
		return row
	}
	rt, err := newRoute(g.nodes[c.src], path, c.height, fin, nil)
	if err != nil {
		row.Kind = "noroute"
		row.Err = "newRoute: " + err.Error()
		row.Edges = nil
		return row
	}
	row.Kind = "route"
	row.Prob = prob

	prev := c.src
	for _, ue := range path {
		to := g.idx[ue.policy.ToNodePubKey()]
		p := ue.policy
		row.Path = append(row.Path, vEdgeJ{
			Chan: p.ChannelID, From: prev, To: to,
			Disabled: p.IsDisabled, Min: uint64(p.MinHTLC),
			Max: uint64(p.MaxHTLC), HasMax: p.HasMaxHTLC,
			Base: uint64(p.FeeBaseMSat),
			Rate: uint64(p.FeeProportionalMillionths),
			Delta: uint32(p.TimeLockDelta),
			IBase: int64(ue.inboundFees.Base),
			IRate: int64(ue.inboundFees.Rate),
			Cap:   int64(ue.capacity),
		})
		prev = to
	}
	for i, h := range rt.Hops {
		row.Hops = append(row.Hops, vHopJ{
			Chan: h.ChannelID, To: g.idx[h.PubKeyBytes],
			Amt: uint64(h.AmtToForward), TL: h.OutgoingTimeLock,
		})
		var next uint64
		if i < len(rt.Hops)-1 {
			next = rt.Hops[i+1].ChannelID
		}
		row.HopSizes = append(row.HopSizes, h.PayloadSize(next))
		row.HopFees = append(row.HopFees, uint64(rt.HopFee(i)))
	}
	row.final = rt.Hops[len(rt.Hops)-1]
	row.TotalAmt = uint64(rt.TotalAmount)
	row.TotalTL = rt.TotalTimeLock
	row.TotFees = uint64(rt.TotalFees())
	row.Recv = uint64(rt.ReceiverAmt())

	// The real onion construction input: payload bytes per hop.
	sp, err := rt.ToSphinxPath()
	if err == nil {
		row.SphinxOK = true
		row.OnionSize = sp.TotalPayloadSize()
		for i := range rt.Hops {
			row.Sizes = append(row.Sizes,
				uint64(sp[i].HopPayload.NumBytes()))
		}
	} else {
		row.Sizes = row.HopSizes
	}
	return row
}

// ---- generator ---------------------------------------------------------------

func vPos(x int64) uint64 {
	if x < 0 {
		return 0
	}
	return uint64(x)
}

func vGenPol(r *vrng, amt uint64, tight bool) *vPol {
	p := &vPol{}
	p.Disabled = r.intn(16) == 0
	switch r.intn(4) {
	case 0:
		p.Min = 0
	case 1:
		p.Min = 1000
	case 2:
		p.Min = uint64(r.rng(0, int64(amt)))
	default:
		p.Min = vPos(r.rng(int64(amt)-2, int64(amt)+40))
	}
	if !tight && r.intn(3) != 0 {
		p.Min = uint64(r.intn(1001))
	}
	p.HasMax = r.intn(5) != 0
	if p.HasMax {
		switch r.intn(4) {
		case 0:
			p.Max = amt * 100
		case 1:
			p.Max = amt + uint64(r.intn(2000))
		case 2:
			p.Max = amt * 2
		default:
			p.Max = vPos(r.rng(int64(amt)-2, int64(amt)+30))
		}
		if !tight && r.intn(3) != 0 {
			p.Max = amt * 1000
		}
	}
	switch r.intn(5) {
	case 0:
		p.Base = 0
	case 1:
		p.Base = 1000
	case 2:
		p.Base = uint64(r.intn(10))
	default:
		p.Base = uint64(r.intn(3000))
	}
	switch r.intn(5) {
	case 0:
		p.Rate = 0
	case 1:
		p.Rate = 1
	case 2:
		p.Rate = uint64(r.intn(100))
	case 3:
		p.Rate = uint64(r.intn(5000))
	default:
		p.Rate = uint64(r.intn(200000))
	}
	switch r.intn(4) {
	case 0:
		p.Delta = 0
	case 1:
		p.Delta = 40
	case 2:
		p.Delta = uint16(r.intn(200))
	default:
		p.Delta = uint16(r.intn(700))
	}
	return p
}

func vGenInbound(r *vrng) [2]int32 {
	switch r.intn(6) {
	case 0, 1:
		return [2]int32{0, 0}
	case 2:
		return [2]int32{int32(-r.intn(3000)), int32(-r.intn(100000))}
	case 3:
		return [2]int32{int32(r.intn(3000)), int32(r.intn(100000))}
	case 4:
		return [2]int32{int32(r.rng(-5000, 5000)), int32(r.rng(-300000, 300000))}
	default:
		// extreme rates exercise the +-maxFeeRate clamp
		return [2]int32{int32(r.rng(-100, 100)), int32(r.rng(-20000000, 20000000))}
	}
}

func vGenAmt(r *vrng) uint64 {
	switch r.intn(6) {
	case 0:
		return uint64(r.rng(1, 2000))
	case 1:
		return 1000000
	case 2:
		return uint64(r.rng(1000, 10000000))
	case 3:
		return uint64(r.rng(1000000, 5000000000))
	case 4:
		return 100000000
	default:
		return uint64(r.rng(1, 100000000000))
	}
}

func vGenCase(r *vrng) *vCase {
	n := int(r.rng(3, 7))
	g := vNewGraph(n)
	c := &vCase{g: g, lastHop: -1, metaLen: -1, custom: -1}
	c.amt = vGenAmt(r)
	c.src = 0
	c.self = 0
	c.dst = int(r.rng(1, int64(n-1)))
	switch r.intn(12) {
	case 0:
		c.dst = c.src // self-payment
	case 1:
		// source different from the node running the search
		c.self = int(r.rng(1, int64(n-1)))
	}
	tight := r.intn(3) == 0
	nch := int(r.rng(int64(n-1), int64(3*n)))
	id := uint64(100)
	addChan := func(a, b int) *vChan {
		id += uint64(r.rng(1, 3))
		ch := &vChan{ID: id, A: a, B: b}
		switch r.intn(5) {
		case 0:
			ch.Cap = 0
		case 1:
			ch.Cap = int64(c.amt/1000) + r.rng(-1, 2)
			if ch.Cap < 0 {
				ch.Cap = 0
			}
		default:
			ch.Cap = int64(c.amt/1000)*int64(r.rng(2, 50)) + r.rng(1, 100000)
		}
		if r.intn(10) != 0 {
			ch.AB = vGenPol(r, c.amt, tight)
		}
		if r.intn(10) != 0 {
			ch.BA = vGenPol(r, c.amt, tight)
		}
		// a node only announces an inbound fee together with a policy
		if ch.AB != nil {
			ch.InA = vGenInbound(r)
		}
		if ch.BA != nil {
			ch.InB = vGenInbound(r)
		}
		g.chans = append(g.chans, ch)
		return ch
	}
	// a backbone so that routes of several hops exist, then random extras
	// (incl. parallel channels)
	perm := make([]int, n)
	for i := range perm {
		perm[i] = i
	}
	for i := n - 1; i > 1; i-- {
		j := 1 + r.intn(i)
		perm[i], perm[j] = perm[j], perm[i]
	}
	for i := 0; i+1 < n; i++ {
		addChan(perm[i], perm[i+1])
	}
	for len(g.chans) < nch {
		a := r.intn(n)
		b := r.intn(n)
		if a == b {
			continue
		}
		if ((a == c.src && b == c.dst) || (a == c.dst && b == c.src)) &&
			r.intn(4) != 0 {

			continue
		}
		ch := addChan(a, b)
		if r.intn(3) == 0 {
			// parallel channel, often with the same distance
			p := addChan(a, b)
			if r.intn(2) == 0 && ch.AB != nil && p.AB != nil {
				*p.AB = *ch.AB
				p.AB.Delta = uint16(r.intn(300))
			}
		}
	}
	if c.dst != c.src && r.intn(5) == 0 {
		// route hint: private channel into the target
		from := r.intn(n)
		if from != c.dst {
			ch := addChan(from, c.dst)
			ch.Hint = true
			ch.BA = nil
			if ch.AB == nil {
				ch.AB = vGenPol(r, c.amt, false)
			}
			ch.AB.Disabled = false
		}
	}

	c.height = uint32(r.rng(100, 900000))
	c.finalD = uint16([]int{9, 18, 40, 144, 0}[r.intn(5)])
	c.hints = make(map[uint64]uint64)
	for _, ch := range g.chans {
		if ch.Hint || (ch.A != c.self && ch.B != c.self) {
			continue
		}
		switch r.intn(6) {
		case 0: // no hint: findPath assumes unlimited bandwidth
		case 1:
			c.hints[ch.ID] = 0
		case 2:
			c.hints[ch.ID] = c.amt + uint64(r.intn(5000))
		default:
			c.hints[ch.ID] = c.amt*uint64(r.rng(2, 20)) + 1000000
		}
	}
	c.feeLimit = []uint64{c.amt, c.amt / 10, 1 << 40, uint64(r.intn(5000)),
		c.amt / 100, c.amt * 3, 0}[r.intn(7)]
	if r.intn(2) == 0 {
		c.feeLimit = 1 << 40
	}
	c.cltvLim = []uint32{2016, 1008, 144, uint32(r.intn(400)), 4000000}[r.intn(5)]
	if r.intn(2) == 0 {
		c.cltvLim = 10000
	}
	if r.intn(6) == 0 {
		for _, ch := range g.chans {
			if (ch.A == c.self || ch.B == c.self) && r.intn(2) == 0 {
				c.outChans = append(c.outChans, ch.ID)
			}
		}
	}
	if r.intn(8) == 0 {
		c.lastHop = r.intn(n)
	}
	if r.intn(8) == 0 {
		c.ignNodes = append(c.ignNodes, int(r.rng(1, int64(n-1))))
	}
	if r.intn(8) == 0 {
		a, b := r.intn(n), r.intn(n)
		if a != b {
			c.ignPairs = append(c.ignPairs, [2]int{a, b})
		}
	}
	// probabilities: few distinct values so that equal distances with
	// different probabilities occur
	c.probs = make(map[[2]int]float64)
	pv := []float64{1, 1, 1, 0.5, 0.25, 0.9, 0.1, 0.02}
	if r.intn(2) == 0 {
		for a := 0; a < n; a++ {
			for b := 0; b < n; b++ {
				if a != b {
					c.probs[[2]int{a, b}] = pv[r.intn(len(pv))]
				}
			}
		}
	}
	c.minProb = []float64{0, 0.01, 0.3}[r.intn(3)]
	c.attempt = []uint64{0, 100, 1000, 100000}[r.intn(4)]
	switch r.intn(10) {
	case 0:
		c.metaLen = r.intn(400)
	case 1:
		c.payAddr = true
	case 2:
		c.custom = r.intn(300)
	}
	return c
}

// chanOf returns the channel and whether the hop uses direction A->B.
func (g *vGraph) chanOf(id uint64, from int) (*vChan, *vPol) {
	for _, ch := range g.chans {
		if ch.ID != id {
			continue
		}
		if ch.A == from {
			return ch, ch.AB
		}
		return ch, ch.BA
	}
	return nil, nil
}

// vTighten derives a variant of c in which one constraint sits exactly at,
// one below or one above the value the route rt needs, or in which one
// element of the route is forbidden.  Returns the variant name.
func vTighten(r *vrng, c *vCase, rt *vRow) string {
	nh := len(rt.Hops)
	i := r.intn(nh)
	carried := rt.TotalAmt
	from := c.src
	if i > 0 {
		carried = rt.Hops[i-1].Amt
		from = rt.Hops[i-1].To
	}
	d := uint64(r.intn(3)) // value - 1 + d
	ch, pol := c.g.chanOf(rt.Hops[i].Chan, from)
	k := r.intn(14)
	switch k {
	case 0:
		pol.HasMax = true
		pol.Max = carried + d - 1
		return "max"
	case 1:
		pol.Min = carried + d - 1
		return "min"
	case 2:
		ch.Cap = int64(carried/1000) + int64(d) - 1
		if ch.Cap < 0 {
			ch.Cap = 0
		}
		return "cap"
	case 3:
		fc := rt.Hops[0].Chan
		c.hints[fc] = rt.TotalAmt + d - 1
		return "bw"
	case 4:
		c.feeLimit = rt.TotalAmt - c.amt + d
		if c.feeLimit > 0 {
			c.feeLimit--
		}
		return "feelimit"
	case 5:
		need := rt.TotalTL - c.height - uint32(c.finalD)
		c.cltvLim = need + uint32(d)
		if c.cltvLim > 0 {
			c.cltvLim--
		}
		return "cltvlimit"
	case 6:
		// payload limit: choose the metadata length for which the
		// onion payload is exactly at the limit, one below or one
		// above (searched with the real size function).
		if c.custom >= 0 || c.payAddr {
			c.custom, c.payAddr = -1, false
			return "payload-reset"
		}
		others := rt.OnionSize - int(rt.Sizes[len(rt.Sizes)-1])
		want := int(sphinx.MaxRoutingPayloadSize) + int(d) - 1
		fh := *rt.final
		best := -1
		for l := 0; l < 1400; l++ {
			fh.Metadata = make([]byte, l)
			if others+int(fh.PayloadSize(0)) <= want {
				best = l
			}
		}
		if best < 0 {
			return "payload-skip"
		}
		c.metaLen = best
		return "payload"
	case 7:
		pol.Disabled = true
		return "disable"
	case 8:
		c.ignNodes = append(c.ignNodes, from)
		return "ignnode"
	case 9:
		c.ignPairs = append(c.ignPairs, [2]int{from, rt.Hops[i].To})
		return "ignpair"
	case 10:
		// forbid the first-hop channel used
		var out []uint64
		for _, x := range c.g.chans {
			if (x.A == c.self || x.B == c.self) &&
				x.ID != rt.Hops[0].Chan && !x.Hint {

				out = append(out, x.ID)
			}
		}
		if len(out) == 0 {
			out = []uint64{1}
		}
		c.outChans = out
		return "outchan"
	case 11:
		if nh >= 2 {
			c.lastHop = rt.Hops[nh-2].To
		} else {
			c.lastHop = c.src
		}
		if d == 0 {
			c.lastHop = r.intn(len(c.g.nodes))
		}
		return "lasthop"
	case 12:
		// make the fee schedule of this hop bite: bigger inbound
		// discount than the outbound fee (floor at zero per node)
		if ch.A == from {
			ch.InB = [2]int32{int32(-r.intn(100000)), int32(-r.intn(900000))}
		} else {
			ch.InA = [2]int32{int32(-r.intn(100000)), int32(-r.intn(900000))}
		}
		return "inbound"
	default:
		// equal-distance alternative: duplicate this channel
		nc := *ch
		nc.ID = ch.ID + 1000 + uint64(r.intn(5))
		if ch.AB != nil {
			p := *ch.AB
			nc.AB = &p
		}
		if ch.BA != nil {
			p := *ch.BA
			nc.BA = &p
		}
		if r.intn(2) == 0 && nc.AB != nil {
			nc.AB.Delta += uint16(r.intn(50))
		}
		if r.intn(2) == 0 && nc.BA != nil {
			nc.BA.Base += uint64(r.intn(3))
		}
		nc.Hint = false
		for _, x := range c.g.chans {
			if x.ID == nc.ID {
				return "dup-skip"
			}
		}
		c.g.chans = append(c.g.chans, &nc)
		if nc.A == c.self || nc.B == c.self {
			c.hints[nc.ID] = c.hints[ch.ID]
			if _, ok := c.hints[ch.ID]; !ok {
				delete(c.hints, nc.ID)
			}
		}
		return "dup"
	}
}

// ---- getEdge rows --------------------------------------------------------------

func vGetEdgeRow(r *vrng, ci int) *vRow {
	amt := vGenAmt(r)
	g := vNewGraph(2)
	local := r.intn(3) == 0
	n := int(r.rng(1, 4))
	hints := make(map[uint64]uint64)
	u := &edgeUnifier{localChan: local}
	row := &vRow{Kind: "getedge", Case: ci, Local: local, Self: 0, Hints: [][2]uint64{}}
	if !local {
		row.Self = 5
	}
	nextOut := uint64(r.intn(5000))
	if r.intn(3) == 0 {
		nextOut = 0
	}
	net := amt + nextOut
	for i := 0; i < n; i++ {
		p := vGenPol(r, net, r.intn(2) == 0)
		inb := vGenInbound(r)
		ch := &vChan{ID: uint64(200 + i), A: 0, B: 1, AB: p, InB: inb}
		switch r.intn(4) {
		case 0:
			ch.Cap = 0
		case 1:
			ch.Cap = int64(net/1000) + r.rng(-1, 1)
			if ch.Cap < 0 {
				ch.Cap = 0
			}
		default:
			ch.Cap = int64(net/1000)*r.rng(2, 9) + 1
		}
		g.chans = append(g.chans, ch)
		u.edges = append(u.edges, newUnifiedEdge(
			g.cached(ch, p, g.nodes[1]), btcutil.Amount(ch.Cap),
			models.InboundFee{Base: inb[0], Rate: inb[1]},
			defaultHopPayloadSize, nil,
		))
		if local && r.intn(4) != 0 {
			hints[ch.ID] = []uint64{0, net, net + uint64(r.intn(3000)),
				net * 3}[r.intn(4)]
		}
	}
	row.Cands = g.edges()
	row.Net, row.NextOut = net, nextOut
	var ids []uint64
	for id := range hints {
		ids = append(ids, id)
	}
	sort.Slice(ids, func(i, j int) bool { return ids[i] < ids[j] })
	for _, id := range ids {
		row.Hints = append(row.Hints, [2]uint64{id, hints[id]})
	}
	e := u.getEdge(lnwire.MilliSatoshi(net), &vHints{m: hints},
		lnwire.MilliSatoshi(nextOut))
	if e != nil {
		p := e.policy
		row.Res = &vEdgeJ{
			Chan: p.ChannelID, From: 0, To: 1, Disabled: p.IsDisabled,
			Min: uint64(p.MinHTLC), Max: uint64(p.MaxHTLC),
			HasMax: p.HasMaxHTLC, Base: uint64(p.FeeBaseMSat),
			Rate:  uint64(p.FeeProportionalMillionths),
			Delta: uint32(p.TimeLockDelta),
			IBase: int64(e.inboundFees.Base),
			IRate: int64(e.inboundFees.Rate), Cap: int64(e.capacity),
		}
	}
	return row
}

// ---- driver --------------------------------------------------------------------

func TestVerifRoute(t *testing.T) {
	out := vOpenOut()
	defer out.close()
	master := vNewRng(vSeed())
	ncases := vCases(700, 4000)
	rounds := int(vEnvInt("VERIF_ROUNDS", 5))

	// replay: VERIF_ONLY / VERIF_ONLY_GE restrict the run to one case
	only := int(vEnvInt("VERIF_ONLY", -1))
	onlyGE := int(vEnvInt("VERIF_ONLY_GE", -1))
	if onlyGE >= 0 && only < 0 {
		ncases = 0
	}
	if only >= 0 {
		ncases = only + 1
	}
	// replay of a case of the additional-edge streams only
	onlyAdd := vEnvInt("VERIF_ONLY_H", -1) >= 0 || vEnvInt("VERIF_ONLY_B", -1) >= 0 ||
		vEnvInt("VERIF_ONLY_D", -1) >= 0 || vEnvInt("VERIF_ONLY_S", -1) >= 0
	if onlyAdd {
		ncases = 0
	}

	for ci := 0; ci < ncases; ci++ {
		if only >= 0 && ci != only {
			continue
		}
		r := master.fork(uint64(ci))
		c := vGenCase(r)
		row := c.run(ci, "base")
		out.emit(row)
		if vAbort {
			return
		}
		// Boundary-directed variants: starting from a found route,
		// move one constraint to the exact value the route needs
		// (+-1) or forbid one of its elements, and search again.
		cur, last := c, row
		if row.Kind != "route" {
			// Unroutable as generated: lift the restrictions (the
			// graph stays) to obtain a route to tighten from.
			rc := c.clone()
			rc.feeLimit, rc.cltvLim = 1<<40, 1000000
			rc.ignNodes, rc.ignPairs, rc.outChans = nil, nil, nil
			rc.lastHop, rc.minProb = -1, 0
			for id, bw := range rc.hints {
				if bw < 4*rc.amt {
					delete(rc.hints, id)
				}
			}
			rrow := rc.run(ci, "relaxed")
			out.emit(rrow)
			if vAbort {
				return
			}
			cur, last = rc, rrow
		}
		for k := 0; k < rounds && last.Kind == "route"; k++ {
			next := cur.clone()
			name := vTighten(r, next, last)
			nrow := next.run(ci, name)
			out.emit(nrow)
			if vAbort {
				return
			}
			if nrow.Kind == "route" {
				cur, last = next, nrow
			} else if r.intn(2) == 0 {
				// keep exploring from the last routable state
				continue
			} else {
				break
			}
		}
	}
	ng := vCases(600, 8000)
	if only >= 0 && onlyGE < 0 {
		ng = 0
	}
	if onlyGE >= 0 {
		ng = onlyGE + 1
	}
	if onlyAdd {
		ng = 0
	}
	// additional edges: multi-hop / parallel route hints and blinded payment
	// paths (verif_blinded_test.go)
	if (only < 0 && onlyGE < 0 || onlyAdd) && !vAdditionalStream(out) {
		return
	}
	// real entry points: newPaymentSession / RequestRoute (verif_session_test.go)
	if (only < 0 && onlyGE < 0 || onlyAdd) && !vSessionStream(out) {
		return
	}
	gr := vNewRng(vSeed() ^ 0x6765746564676500)
	for i := 0; i < ng; i++ {
		if onlyGE >= 0 && i != onlyGE {
			continue
		}
		out.emit(vGetEdgeRow(gr.fork(uint64(i)), i))
	}
}
