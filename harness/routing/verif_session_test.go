//go:build verif

package routing

// C19d — the REAL ENTRY POINTS that turn user-level inputs into findPath
// arguments: newPaymentSession (RouteHintsToEdges for BOLT11 hop hints,
// BlindedPaymentPathSet.ToRouteHints for blinded paths) and
// paymentSession.RequestRoute (RestrictParams, final CLTV delta with block
// padding, bandwidth hints, newRoute).  The session's pathFinder is wrapped
// (it still is the real findPath) only to capture the unified edges, the
// RestrictParams and the additional edges the session built.
//
// Rows carry the USER-LEVEL inputs: the hop hints as given ("userhints") and
// the edges the harness derives from them itself (channel id, from = the hint's
// node, to = the next hint's node or the target, fee, delta); the python
// predicate judges the returned route against those, never against the edges
// lnd derived.

import (
	"context"
	"math"
	"time"

	"github.com/btcsuite/btcd/btcutil/v2"
	"github.com/lightningnetwork/lnd/fn/v2"
	graphdb "github.com/lightningnetwork/lnd/graph/db"
	"github.com/lightningnetwork/lnd/lntypes"
	"github.com/lightningnetwork/lnd/lnwire"
	paymentsdb "github.com/lightningnetwork/lnd/payments/db"
	"github.com/lightningnetwork/lnd/record"
	"github.com/lightningnetwork/lnd/routing/route"
	"github.com/lightningnetwork/lnd/zpay32"
)

// vHopHintJ is one zpay32.HopHint as handed to lnd.
type vHopHintJ struct {
	Node  int    `json:"node"`
	Chan  uint64 `json:"chan"`
	Base  uint32 `json:"base"`
	Rate  uint32 `json:"rate"`
	Delta uint16 `json:"delta"`
}

// vSCase: a payment described at user level; rhints lists, per route hint, the
// ids of the (Hint) channels of the graph that make up its chain.
type vSCase struct {
	*vCase
	rhints [][]uint64
}

func (s *vSCase) clone() *vSCase {
	return &vSCase{vCase: s.vCase.clone(), rhints: s.rhints}
}

type vFactory struct{ g Graph }

func (f *vFactory) GraphSession(_ context.Context,
	cb func(graph graphdb.NodeTraverser) error, _ func()) error {

	return cb(f.g)
}

type vMC struct {
	prob func(from, to route.Vertex, a lnwire.MilliSatoshi,
		capacity btcutil.Amount) float64
}

func (m *vMC) ReportPaymentFail(uint64, *route.Route, *int,
	lnwire.FailureMessage) (*paymentsdb.FailureReason, error) {

	return nil, nil
}

func (m *vMC) ReportPaymentSuccess(uint64, *route.Route) error { return nil }

func (m *vMC) GetProbability(from, to route.Vertex, a lnwire.MilliSatoshi,
	capacity btcutil.Amount) float64 {

	return m.prob(from, to, a, capacity)
}

// vSessCapture is what the wrapped pathFinder saw.
type vSessCapture struct {
	called bool
	path   []*unifiedEdge
	restr  *RestrictParams
	add    map[route.Vertex][]AdditionalEdge
	expiry int32
	target route.Vertex
	err    error
}

// vDriveSession runs newPaymentSession + RequestRoute of the real code.
func vDriveSession(c *vCase, pay *LightningPayment, rec *vRec) (*route.Route,
	*vSessCapture, error, bool) {

	g := c.g
	ignN := make(map[route.Vertex]struct{})
	for _, n := range c.ignNodes {
		ignN[g.nodes[n]] = struct{}{}
	}
	ignP := make(map[DirectedNodePair]struct{})
	for _, p := range c.ignPairs {
		ignP[DirectedNodePair{From: g.nodes[p[0]], To: g.nodes[p[1]]}] = struct{}{}
	}
	mc := &vMC{prob: func(from, to route.Vertex, a lnwire.MilliSatoshi,
		capacity btcutil.Amount) float64 {

		p := 1.0
		if _, ok := ignN[from]; ok {
			p = 0
		} else if _, ok := ignP[DirectedNodePair{From: from, To: to}]; ok {
			p = 0
		} else if q, ok := c.probs[[2]int{g.idx[from], g.idx[to]}]; ok {
			p = q
		}
		rec.add([]uint64{1, uint64(g.idx[from]), uint64(g.idx[to]),
			uint64(a), uint64(capacity), math.Float64bits(p)})
		return p
	}}
	capt := &vSessCapture{}
	var hash lntypes.Hash
	hash[0] = 0x19
	if err := pay.SetPaymentHash(hash); err != nil {
		return nil, capt, err, false
	}
	sess, err := newPaymentSession(
		pay, g.nodes[c.self],
		func(Graph) (bandwidthHints, error) {
			return &vHints{m: c.hints}, nil
		},
		&vFactory{g: &vRecGraph{vGraph: g, rec: rec}}, mc,
		PathFindingConfig{
			AttemptCost:    lnwire.MilliSatoshi(c.attempt),
			MinProbability: c.minProb,
		},
	)
	if err != nil {
		return nil, capt, err, false
	}
	capt.add = sess.additionalEdges
	sess.pathFinder = func(gp *graphParams, r *RestrictParams,
		cfg *PathFindingConfig, self, source, target route.Vertex,
		amt lnwire.MilliSatoshi, timePref float64,
		finalHtlcExpiry int32) ([]*unifiedEdge, float64, error) {

		path, prob, err := findPath(gp, r, cfg, self, source, target, amt,
			timePref, finalHtlcExpiry)
		capt.called = true
		capt.path, capt.restr, capt.expiry = path, r, finalHtlcExpiry
		capt.target, capt.err = target, err
		return path, prob, err
	}

	var (
		rt       *route.Route
		rerr     error
		diverged bool
	)
	done := make(chan bool, 1)
	go func() {
		defer func() {
			if x := recover(); x != nil {
				if _, ok := x.(vDiverged); !ok {
					panic(x)
				}
				done <- true
			}
		}()
		rt, rerr = sess.RequestRoute(
			lnwire.MilliSatoshi(c.amt), lnwire.MilliSatoshi(c.feeLimit),
			0, c.height, nil,
		)
		done <- false
	}()
	select {
	case diverged = <-done:
	case <-time.After(vMaxSearch):
		diverged, vAbort = true, true
	}
	return rt, capt, rerr, diverged
}

// hopHints builds the zpay32 route hints from the hint channels.
func (s *vSCase) hopHints() ([][]zpay32.HopHint, [][]vHopHintJ) {
	var (
		out [][]zpay32.HopHint
		js  [][]vHopHintJ
	)
	for _, chain := range s.rhints {
		var (
			rh []zpay32.HopHint
			rj []vHopHintJ
		)
		for _, id := range chain {
			for _, ch := range s.g.chans {
				if ch.ID != id || !ch.Hint {
					continue
				}
				rh = append(rh, zpay32.HopHint{
					NodeID:                    vNodePub(ch.A),
					ChannelID:                 ch.ID,
					FeeBaseMSat:               uint32(ch.AB.Base),
					FeeProportionalMillionths: uint32(ch.AB.Rate),
					CLTVExpiryDelta:           ch.AB.Delta,
				})
				rj = append(rj, vHopHintJ{Node: ch.A, Chan: ch.ID,
					Base: uint32(ch.AB.Base), Rate: uint32(ch.AB.Rate),
					Delta: ch.AB.Delta})
				break
			}
		}
		out = append(out, rh)
		js = append(js, rj)
	}
	return out, js
}

// run drives the payment session for a payment with BOLT11 route hints.
func (s *vSCase) run(ci int, variant string) *vRow {
	c := s.vCase
	g := c.g
	// a hop hint carries fee and delta only
	for _, ch := range g.chans {
		if ch.Hint {
			ch.AB.Min, ch.AB.Max, ch.AB.HasMax, ch.AB.Disabled = 0, 0, false, false
			ch.BA = nil
		}
	}
	row := c.row(ci, variant)
	row.Stream = "session"
	row.Session = true
	padded := c.finalD + BlockPadding
	row.FinalD = uint32(padded)
	hints, hj := s.hopHints()
	row.UserHints = hj
	row.Attempt = c.attempt
	row.MinProbBits = math.Float64bits(c.minProb)
	for _, ch := range g.chans {
		if ch.Hint {
			row.HintChans = append(row.HintChans, ch.ID)
		}
	}

	pay := &LightningPayment{
		Target:             g.nodes[c.dst],
		Amount:             lnwire.MilliSatoshi(c.amt),
		FeeLimit:           lnwire.MilliSatoshi(c.feeLimit),
		CltvLimit:          c.cltvLim + uint32(padded),
		FinalCLTVDelta:     c.finalD,
		RouteHints:         hints,
		OutgoingChannelIDs: c.outChans,
		DestFeatures:       vFeatures(c.payAddr),
		MaxParts:           1,
	}
	if c.lastHop >= 0 {
		v := g.nodes[c.lastHop]
		pay.LastHop = &v
	}
	if c.metaLen >= 0 {
		pay.Metadata = make([]byte, c.metaLen)
	}
	if c.payAddr {
		pay.PaymentAddr = fn.Some([32]byte{1, 2, 3})
	}
	if c.custom >= 0 {
		pay.DestCustomRecords = record.CustomSet{70000: make([]byte, c.custom)}
	}
	rec := &vRec{}
	rt, capt, err, diverged := vDriveSession(c, pay, rec)

	// the additional edges as lnd derived them, aligned with the user-level
	// hop hints (RouteHintsToEdges appends per start node in input order)
	used := make(map[route.Vertex]int)
	for _, rh := range hints {
		for _, hh := range rh {
			v := route.NewVertex(hh.NodeID)
			k := used[v]
			used[v]++
			if capt.add == nil || k >= len(capt.add[v]) {
				row.ObsAdd = append(row.ObsAdd, vEdgeJ{Chan: 0, From: -1, To: -1})
				continue
			}
			pol := capt.add[v][k].EdgePolicy()
			to, ok := g.idx[pol.ToNodePubKey()]
			if !ok {
				to = -1
			}
			row.ObsAdd = append(row.ObsAdd, vEdgeJ{
				Chan: pol.ChannelID, From: g.idx[v], To: to,
				Disabled: pol.IsDisabled, Min: uint64(pol.MinHTLC),
				Max: uint64(pol.MaxHTLC), HasMax: pol.HasMaxHTLC,
				Base: uint64(pol.FeeBaseMSat),
				Rate: uint64(pol.FeeProportionalMillionths),
				Delta: uint32(pol.TimeLockDelta),
				Cap:   int64(fakeHopHintCapacity), Hint: true,
			})
		}
	}
	nobs := 0
	for _, es := range capt.add {
		nobs += len(es)
	}
	row.NObsAdd = nobs

	evs := rec.snapshot()
	if len(evs) > 0 && evs[0][0] == 0 {
		evs = evs[1:] // balance pre-check of self
	}
	if diverged {
		if len(evs) > 300 {
			evs = evs[:300]
		}
		row.Kind, row.Err, row.Evs = "noroute", "findPath does not terminate", evs
		return row
	}
	if capt.called {
		ls, _ := lastHopPayloadSize(capt.restr, capt.expiry,
			lnwire.MilliSatoshi(c.amt))
		row.LastSize = ls
		if capt.expiry != int32(c.height)+int32(padded) ||
			capt.target != g.nodes[c.dst] ||
			uint32(capt.restr.CltvLimit) != c.cltvLim {

			row.Kind = "noroute"
			row.Err = "session handed findPath unexpected expiry / target / cltv limit"
			row.SessBad = true
			return row
		}
	}
	row.Evs = evs
	if err != nil || rt == nil {
		row.Kind = "noroute"
		if err != nil {
			row.Err = err.Error()
		}
		if err != errNoPathFound || len(evs) == 0 {
			row.Evs = nil
		}
		return row
	}
	row.Kind = "route"
	prev := c.src
	for _, ue := range capt.path {
		to, ok := g.idx[ue.policy.ToNodePubKey()]
		if !ok {
			to = -1
		}
		var e vEdgeJ
		vPolEdge(&e, prev, to, ue)
		row.Path = append(row.Path, e)
		prev = to
	}
	for i, h := range rt.Hops {
		to, ok := g.idx[h.PubKeyBytes]
		if !ok {
			to = -1
		}
		row.Hops = append(row.Hops, vHopJ{
			Chan: h.ChannelID, To: to,
			Amt: uint64(h.AmtToForward), TL: h.OutgoingTimeLock,
		})
		var next uint64
		if i < len(rt.Hops)-1 {
			next = rt.Hops[i+1].ChannelID
		}
		row.HopSizes = append(row.HopSizes, h.PayloadSize(next))
		row.HopFees = append(row.HopFees, uint64(rt.HopFee(i)))
	}
	row.final = rt.Hops[len(rt.Hops)-1]
	row.TotalAmt = uint64(rt.TotalAmount)
	row.TotalTL = rt.TotalTimeLock
	row.TotFees = uint64(rt.TotalFees())
	row.Recv = uint64(rt.ReceiverAmt())
	sp, err := rt.ToSphinxPath()
	if err == nil {
		row.SphinxOK = true
		row.OnionSize = sp.TotalPayloadSize()
		for i := range rt.Hops {
			row.Sizes = append(row.Sizes, uint64(sp[i].HopPayload.NumBytes()))
		}
	} else {
		row.Sizes = row.HopSizes
	}
	return row
}

// vGenSessCase: a payment as SendPayment sees it: source = self, BOLT11 route
// hints given as lists of hop hints (chains of 1-3, several hints, hints that
// share nodes / tails, hints that start at public nodes incl. self).
func vGenSessCase(r *vrng) *vSCase {
	c := vGenCase(r)
	var chans []*vChan
	for _, ch := range c.g.chans {
		if !ch.Hint {
			chans = append(chans, ch)
		}
	}
	c.g.chans = chans
	c.self, c.src = 0, 0
	n := len(c.g.nodes)
	if c.dst == c.src {
		c.dst = int(r.rng(1, int64(n-1)))
	}
	// self's bandwidth hints (the generator may have drawn them for another self)
	c.hints = make(map[uint64]uint64)
	for _, ch := range c.g.chans {
		if ch.A != 0 && ch.B != 0 {
			continue
		}
		switch r.intn(5) {
		case 0:
		case 1:
			c.hints[ch.ID] = c.amt + uint64(r.intn(5000))
		default:
			c.hints[ch.ID] = c.amt*uint64(r.rng(2, 20)) + 1000000
		}
	}
	s := &vSCase{vCase: c}
	if r.intn(2) == 0 {
		c.dst = c.g.vExtend(1) // private target: only the hints lead to it
	}
	if c.lastHop >= n {
		c.lastHop = -1
	}
	id := uint64(7000)
	hop := func(a, b int) *vChan {
		id += uint64(r.rng(1, 3))
		ch := &vChan{ID: id, A: a, B: b, Hint: true, AB: &vPol{
			Base:  []uint64{0, 1000, uint64(r.intn(3000)), 1}[r.intn(4)],
			Rate:  []uint64{0, 1, uint64(r.intn(5000)), uint64(r.intn(200000))}[r.intn(4)],
			Delta: []uint16{0, 40, 144, uint16(r.intn(300))}[r.intn(4)],
		}}
		c.g.chans = append(c.g.chans, ch)
		return ch
	}
	nrh := []int{0, 1, 1, 2, 2, 3}[r.intn(6)]
	for k := 0; k < nrh; k++ {
		hops := []int{1, 2, 2, 3, 3}[r.intn(5)]
		if k > 0 && len(s.rhints[0]) >= 2 && r.intn(3) == 0 {
			// a second hint that joins the first one's tail: new entry
			// channel into the first chain's second node, then the same
			// hop hints again
			first := s.rhints[0]
			var second *vChan
			for _, ch := range c.g.chans {
				if ch.ID == first[1] {
					second = ch
				}
			}
			entry := r.intn(n)
			if entry == c.dst || entry == second.A {
				entry = (entry + 1) % n
			}
			if entry == c.dst || entry == second.A {
				continue
			}
			e := hop(entry, second.A)
			s.rhints = append(s.rhints, append([]uint64{e.ID}, first[1:]...))
			continue
		}
		entry := r.intn(n)
		if entry == c.dst {
			entry = (entry + 1) % n
		}
		prev := entry
		var chain []uint64
		for h := 0; h < hops; h++ {
			var next int
			switch {
			case h == hops-1:
				next = c.dst
			case r.intn(3) == 0:
				next = r.intn(n)
				if next == c.dst || next == prev {
					next = c.g.vExtend(1)
				}
			default:
				next = c.g.vExtend(1)
			}
			chain = append(chain, hop(prev, next).ID)
			prev = next
		}
		s.rhints = append(s.rhints, chain)
	}
	return s
}

// vSessionStream emits the session stream; false = abandoned.
func vSessionStream(out *vWriter) bool {
	onlyS := int(vEnvInt("VERIF_ONLY_S", -1))
	replay := onlyS >= 0 || vEnvInt("VERIF_ONLY_H", -1) >= 0 ||
		vEnvInt("VERIF_ONLY_B", -1) >= 0 || vEnvInt("VERIF_ONLY_D", -1) >= 0
	rounds := int(vEnvInt("VERIF_ROUNDS", 5))
	if rounds > 3 {
		rounds = 3
	}
	ns := int(vEnvInt("VERIF_CASES_S", int64(vCases(110, 1100))))
	sr := vNewRng(vSeed() ^ 0x73657373696f6e00)
	for ci := 0; ci < ns; ci++ {
		if replay && onlyS != ci {
			continue
		}
		r := sr.fork(uint64(ci))
		s := vGenSessCase(r)
		row := s.run(ci, "session")
		out.emit(row)
		if vAbort {
			return false
		}
		cur, last := s, row
		if row.Kind != "route" {
			rs := s.clone()
			rc := rs.vCase
			rc.feeLimit, rc.cltvLim = 1<<40, 1000000
			rc.ignNodes, rc.ignPairs, rc.outChans = nil, nil, nil
			rc.lastHop, rc.minProb = -1, 0
			for id, bw := range rc.hints {
				if bw < 4*rc.amt {
					delete(rc.hints, id)
				}
			}
			rrow := rs.run(ci, "session-relaxed")
			out.emit(rrow)
			if vAbort {
				return false
			}
			cur, last = rs, rrow
		}
		for k := 0; k < rounds && last.Kind == "route"; k++ {
			next := cur.clone()
			name := vTighten(r, next.vCase, last)
			if name == "cltvlimit" && next.cltvLim >= uint32(BlockPadding) {
				// vTighten does not know about the block padding
				next.cltvLim -= uint32(BlockPadding)
			}
			nrow := next.run(ci, "session-"+name)
			out.emit(nrow)
			if vAbort {
				return false
			}
			if nrow.Kind == "route" {
				cur, last = next, nrow
			} else if r.intn(2) != 0 {
				break
			}
		}
	}
	return true
}
