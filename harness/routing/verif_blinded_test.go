//go:build verif

package routing

// C19c — additional edges: the target is reached through
//   (a) private route hints (chains of 1-3 hops, parallel hints, hints that
//       leave nodes which also have public channels, hints from self), and
//   (b) blinded payment paths: BlindedPayment.Validate,
//       NewBlindedPaymentPathSet (NUMS dummy hop, introduction-node-only
//       path), ToRouteHints (aggregated relay parameters on the first edge),
//       findPath towards the NUMS target and newRoute's dummy-hop removal and
//       blinded back-fill.
// Everything runs on the REAL code; rows go to the same JSONL trace as
// TestVerifRoute's (which calls vAdditionalStream).

import (
	"bytes"
	"fmt"
	"math"
	"sort"
	"time"

	"github.com/btcsuite/btcd/btcec/v2"
	"github.com/btcsuite/btcd/btcutil/v2"
	sphinx "github.com/lightningnetwork/lightning-onion"
	"github.com/lightningnetwork/lnd/lnwire"
	"github.com/lightningnetwork/lnd/record"
	"github.com/lightningnetwork/lnd/routing/route"
)

// vBPay describes one blinded payment path as handed to lnd.
type vBPay struct {
	Intro  int    `json:"intro"`  // introduction node (a node of the graph)
	Hops   []int  `json:"hops"`   // blinded nodes after the introduction node, recipient last
	Base   uint32 `json:"base"`   // aggregated relay parameters
	Rate   uint32 `json:"rate"`
	Delta  uint16 `json:"delta"`
	Min    uint64 `json:"min"`
	Max    uint64 `json:"max"`
	CtLens []int  `json:"ctlens"` // len of the encrypted data per hop (intro first)
	Feat   int    `json:"feat"`   // 0 nil, 1 empty, 2 tlv, 3 tlv+payaddr+mpp, 4 unknown required bit
}

type vBCase struct {
	*vCase
	pays    []*vBPay
	total   uint64
	nums    int
	session bool // restrictions as paymentSession.RequestRoute builds them
}

func (b *vBCase) clone() *vBCase {
	d := *b
	d.vCase = b.vCase.clone()
	d.pays = nil
	for _, p := range b.pays {
		q := *p
		q.Hops = append([]int(nil), p.Hops...)
		q.CtLens = append([]int(nil), p.CtLens...)
		d.pays = append(d.pays, &q)
	}
	return &d
}

func vPub(id int) *btcec.PublicKey {
	_, pub := btcec.PrivKeyFromBytes([]byte{byte(id>>8) + 1, byte(id), 0x19})
	return pub
}

// vNodePub returns the public key object of graph node i (same key as vPubkey).
func vNodePub(i int) *btcec.PublicKey {
	_, pub := btcec.PrivKeyFromBytes([]byte{byte(i + 1), 0x19})
	return pub
}

// vExtend adds k fresh nodes (no channels) and returns the index of the first.
func (g *vGraph) vExtend(k int) int {
	first := len(g.nodes)
	nodes := append([]route.Vertex(nil), g.nodes...)
	idx := make(map[route.Vertex]int)
	for v, i := range g.idx {
		idx[v] = i
	}
	for i := 0; i < k; i++ {
		v := vPubkey(first + i)
		nodes = append(nodes, v)
		idx[v] = first + i
	}
	g.nodes, g.idx = nodes, idx
	return first
}

func (g *vGraph) vAddNums() int {
	v := route.NewVertex(&BlindedPathNUMSKey)
	if i, ok := g.idx[v]; ok {
		return i
	}
	i := g.vExtend(1)
	delete(g.idx, g.nodes[i])
	g.nodes[i] = v
	g.idx[v] = i
	return i
}

func vFeat(k int) *lnwire.FeatureVector {
	switch k {
	case 0:
		return nil
	case 1:
		return lnwire.EmptyFeatureVector()
	case 2:
		return lnwire.NewFeatureVector(lnwire.NewRawFeatureVector(
			lnwire.TLVOnionPayloadOptional), lnwire.Features)
	case 3:
		return lnwire.NewFeatureVector(lnwire.NewRawFeatureVector(
			lnwire.TLVOnionPayloadOptional, lnwire.PaymentAddrOptional,
			lnwire.MPPOptional), lnwire.Features)
	default:
		return lnwire.NewFeatureVector(lnwire.NewRawFeatureVector(
			lnwire.FeatureBit(200)), lnwire.Features)
	}
}

func vCipher(pi, hi, n int) []byte {
	if n < 2 {
		n = 2
	}
	ct := bytes.Repeat([]byte{0xaa}, n)
	ct[0], ct[1] = byte(pi), byte(hi)
	return ct
}

func (b *vBCase) payment(pi int, p *vBPay) *BlindedPayment {
	bp := &BlindedPayment{
		BlindedPath: &sphinx.BlindedPath{
			IntroductionPoint: vNodePub(p.Intro),
			BlindingPoint:     vPub(2000 + pi),
		},
		BaseFee:             p.Base,
		ProportionalFeeRate: p.Rate,
		CltvExpiryDelta:     p.Delta,
		HtlcMinimum:         p.Min,
		HtlcMaximum:         p.Max,
		Features:            vFeat(p.Feat),
	}
	ctl := func(i int) int {
		if i < len(p.CtLens) {
			return p.CtLens[i]
		}
		return 10
	}
	bp.BlindedPath.BlindedHops = append(bp.BlindedPath.BlindedHops,
		&sphinx.BlindedHopInfo{
			BlindedNodePub: vPub(1000 + pi),
			CipherText:     vCipher(pi, 0, ctl(0)),
		})
	for i, h := range p.Hops {
		bp.BlindedPath.BlindedHops = append(bp.BlindedPath.BlindedHops,
			&sphinx.BlindedHopInfo{
				BlindedNodePub: vNodePub(h),
				CipherText:     vCipher(pi, i+1, ctl(i+1)),
			})
	}
	return bp
}

func vPolEdge(p *vEdgeJ, prev, to int, ue *unifiedEdge) {
	pol := ue.policy
	*p = vEdgeJ{
		Chan: pol.ChannelID, From: prev, To: to,
		Disabled: pol.IsDisabled, Min: uint64(pol.MinHTLC),
		Max: uint64(pol.MaxHTLC), HasMax: pol.HasMaxHTLC,
		Base: uint64(pol.FeeBaseMSat),
		Rate: uint64(pol.FeeProportionalMillionths),
		Delta: uint32(pol.TimeLockDelta),
		IBase: int64(ue.inboundFees.Base),
		IRate: int64(ue.inboundFees.Rate),
		Cap:   int64(ue.capacity),
	}
}

// run executes Validate, NewBlindedPaymentPathSet, ToRouteHints, findPath and
// newRoute of the real code for the blinded case.
func (b *vBCase) run(ci int, variant string) *vRow {
	c := b.vCase
	row := c.row(ci, variant)
	row.Kind = "bnoroute"
	row.Stream = "blinded"
	row.Blinded = b.pays
	row.Nums = b.nums
	row.Total = b.total
	row.Session = b.session
	row.Dst = -1
	g := c.g

	var bps []*BlindedPayment
	bpIdx := make(map[string]int)
	for pi, p := range b.pays {
		bp := b.payment(pi, p)
		if err := bp.Validate(); err != nil {
			row.Err = "validate: " + err.Error()
			return row
		}
		bps = append(bps, bp)
		bpIdx[string(bp.BlindedPath.BlindingPoint.SerializeCompressed())] = pi
	}
	// NewBlindedPaymentPathSet dereferences paths[i].Features without a nil
	// check when paths[0] has features (blinding.go:117): keep the run alive
	// and record it.
	ps, err := func() (ps *BlindedPaymentPathSet, err error) {
		defer func() {
			if x := recover(); x != nil {
				err = fmt.Errorf("PANIC %v", x)
			}
		}()
		return NewBlindedPaymentPathSet(bps)
	}()
	if err != nil {
		row.Err = "pathset: " + err.Error()
		return row
	}
	hints, err := ps.ToRouteHints()
	if err != nil {
		row.Err = "hints: " + err.Error()
		return row
	}
	target := route.NewVertex(ps.TargetPubKey())
	row.Dst = g.idx[target]
	finalCltv := ps.FinalCLTVDelta()
	row.FinalD = uint32(finalCltv)
	row.SelfIntro = ps.IsIntroNode(g.nodes[c.src])

	// the additional edges exactly as lnd built them
	type obs struct {
		e      vEdgeJ
		pi, hi int
		size   uint64
	}
	var add []obs
	for from, es := range hints {
		for _, ae := range es {
			be := ae.(*BlindedEdge)
			pol := be.policy
			o := obs{
				pi: bpIdx[string(be.blindedPayment.BlindedPath.
					BlindingPoint.SerializeCompressed())],
				hi:   be.hopIndex,
				size: ae.IntermediatePayloadSize(0, 0, 0),
			}
			o.e = vEdgeJ{
				Chan: pol.ChannelID, From: g.idx[from],
				To:       g.idx[pol.ToNodePubKey()],
				Disabled: pol.IsDisabled, Min: uint64(pol.MinHTLC),
				Max: uint64(pol.MaxHTLC), HasMax: pol.HasMaxHTLC,
				Base: uint64(pol.FeeBaseMSat),
				Rate: uint64(pol.FeeProportionalMillionths),
				Delta: uint32(pol.TimeLockDelta),
				Cap:   int64(fakeHopHintCapacity), Hint: true,
			}
			add = append(add, o)
		}
	}
	sort.Slice(add, func(i, j int) bool {
		if add[i].pi != add[j].pi {
			return add[i].pi < add[j].pi
		}
		return add[i].hi < add[j].hi
	})
	for _, o := range add {
		row.Edges = append(row.Edges, o.e)
		row.BSizes = append(row.BSizes, [3]uint64{uint64(o.e.From),
			uint64(o.e.To), o.size})
	}
	row.HintChans = []uint64{0}
	if row.SelfIntro && c.src != c.self {
		// A search from a foreign source only exists behind
		// NewRouteRequest (QueryRoutes), which refuses this up front; the
		// payment session (source = self) has no such check but findPath
		// skips the hints that leave self.
		row.Err = "NewRouteRequest: " + ErrSelfIntro.Error()
		return row
	}

	ignN := make(map[route.Vertex]struct{})
	for _, n := range c.ignNodes {
		ignN[g.nodes[n]] = struct{}{}
	}
	ignP := make(map[DirectedNodePair]struct{})
	for _, p := range c.ignPairs {
		ignP[DirectedNodePair{From: g.nodes[p[0]], To: g.nodes[p[1]]}] = struct{}{}
	}
	rec := &vRec{}
	probSrc := func(from, to route.Vertex, a lnwire.MilliSatoshi,
		capacity btcutil.Amount) float64 {

		p := 1.0
		if _, ok := ignN[from]; ok {
			p = 0
		} else if _, ok := ignP[DirectedNodePair{From: from, To: to}]; ok {
			p = 0
		} else if q, ok := c.probs[[2]int{g.idx[from], g.idx[to]}]; ok {
			p = q
		}
		rec.add([]uint64{1, uint64(g.idx[from]), uint64(g.idx[to]),
			uint64(a), uint64(capacity), math.Float64bits(p)})
		return p
	}
	row.Attempt = c.attempt
	row.MinProbBits = math.Float64bits(c.minProb)

	restr := &RestrictParams{
		ProbabilitySource:     probSrc,
		FeeLimit:              lnwire.MilliSatoshi(c.feeLimit),
		OutgoingChannelIDs:    c.outChans,
		CltvLimit:             c.cltvLim,
		DestFeatures:          ps.Features(),
		BlindedPaymentPathSet: ps,
	}
	fin := finalHopParams{
		amt:       lnwire.MilliSatoshi(c.amt),
		totalAmt:  lnwire.MilliSatoshi(b.total),
		cltvDelta: finalCltv,
	}
	if c.lastHop >= 0 {
		v := g.nodes[c.lastHop]
		restr.LastHop = &v
	}
	if c.custom >= 0 {
		restr.DestCustomRecords = record.CustomSet{
			70000: make([]byte, c.custom),
		}
		fin.records = restr.DestCustomRecords
	}
	cfg := &PathFindingConfig{
		AttemptCost:    lnwire.MilliSatoshi(c.attempt),
		MinProbability: c.minProb,
	}
	finalExpiry := int32(c.height) + int32(finalCltv)
	ls, _ := lastHopPayloadSize(restr, finalExpiry, lnwire.MilliSatoshi(c.amt))
	row.LastSize = ls

	var (
		path     []*unifiedEdge
		diverged bool
		sessRt   *route.Route
	)
	if b.session {
		// the REAL payment session: newPaymentSession (ToRouteHints) +
		// RequestRoute (its own RestrictParams, block padding, newRoute)
		pay := &LightningPayment{
			Target:             target,
			Amount:             lnwire.MilliSatoshi(b.total),
			FeeLimit:           lnwire.MilliSatoshi(c.feeLimit),
			CltvLimit:          c.cltvLim + uint32(finalCltv+BlockPadding),
			FinalCLTVDelta:     finalCltv,
			BlindedPathSet:     ps,
			OutgoingChannelIDs: c.outChans,
			LastHop:            restr.LastHop,
			DestCustomRecords:  restr.DestCustomRecords,
			MaxParts:           1,
		}
		if f := ps.Features(); f != nil && !f.IsEmpty() {
			pay.DestFeatures = f.Clone()
		}
		var capt *vSessCapture
		sessRt, capt, err, diverged = vDriveSession(c, pay, rec)
		path = capt.path
		row.SearchFinalD = uint32(finalCltv + BlockPadding)
		if capt.called {
			ls, _ := lastHopPayloadSize(capt.restr, capt.expiry,
				lnwire.MilliSatoshi(c.amt))
			row.LastSize = ls
		}
		if err == nil && sessRt == nil && !diverged {
			err = errNoPathFound
		}
	} else {
		done := make(chan bool, 1)
		go func() {
			defer func() {
				if x := recover(); x != nil {
					if _, ok := x.(vDiverged); !ok {
						panic(x)
					}
					done <- true
				}
			}()
			path, _, err = findPath(
				&graphParams{
					graph:           &vRecGraph{vGraph: g, rec: rec},
					additionalEdges: hints,
					bandwidthHints:  &vHints{m: c.hints},
				},
				restr, cfg, g.nodes[c.self], g.nodes[c.src], target,
				lnwire.MilliSatoshi(c.amt), 0, finalExpiry,
			)
			done <- false
		}()
		select {
		case diverged = <-done:
		case <-time.After(vMaxSearch):
			diverged, vAbort = true, true
		}
	}
	evs := rec.snapshot()
	if c.src == c.self && len(evs) > 0 && evs[0][0] == 0 {
		evs = evs[1:]
	}
	if diverged {
		if len(evs) > 300 {
			evs = evs[:300]
		}
		row.Err = "findPath does not terminate"
		row.Evs = evs
		return row
	}
	row.Evs = evs
	if err != nil {
		row.Err = err.Error()
		if err != errNoPathFound || len(evs) == 0 {
			row.Evs = nil
		}
		return row
	}
	prev := c.src
	for _, ue := range path {
		to := g.idx[ue.policy.ToNodePubKey()]
		var e vEdgeJ
		vPolEdge(&e, prev, to, ue)
		row.Path = append(row.Path, e)
		prev = to
	}
	rt := sessRt
	if !b.session {
		rt, err = newRoute(g.nodes[c.src], path, c.height, fin, ps)
		if err != nil {
			row.Err = "newRoute: " + err.Error()
			return row
		}
	}
	row.Kind = "broute"
	for i, h := range rt.Hops {
		row.Hops = append(row.Hops, vHopJ{
			Chan: h.ChannelID, To: g.idx[h.PubKeyBytes],
			Amt: uint64(h.AmtToForward), TL: h.OutgoingTimeLock,
		})
		var next uint64
		if i < len(rt.Hops)-1 {
			next = rt.Hops[i+1].ChannelID
		}
		row.HopSizes = append(row.HopSizes, h.PayloadSize(next))
		row.HopFees = append(row.HopFees, uint64(rt.HopFee(i)))
		enc := [3]int{-1, -1, -1}
		if h.EncryptedData != nil {
			enc = [3]int{-2, -2, len(h.EncryptedData)}
			if len(h.EncryptedData) >= 2 {
				enc[0], enc[1] = int(h.EncryptedData[0]), int(h.EncryptedData[1])
			}
		}
		row.HopEnc = append(row.HopEnc, enc)
		bpi := -1
		if h.BlindingPoint != nil {
			bpi = -2
			if pi, ok := bpIdx[string(h.BlindingPoint.SerializeCompressed())]; ok {
				bpi = pi
			}
		}
		row.HopBP = append(row.HopBP, bpi)
		row.HopTotal = append(row.HopTotal, uint64(h.TotalAmtMsat))
		row.HopMPP = append(row.HopMPP, h.MPP != nil || h.AMP != nil)
	}
	row.final = rt.Hops[len(rt.Hops)-1]
	row.TotalAmt = uint64(rt.TotalAmount)
	row.TotalTL = rt.TotalTimeLock
	row.TotFees = uint64(rt.TotalFees())
	row.Recv = uint64(rt.ReceiverAmt())
	sp, err := rt.ToSphinxPath()
	if err == nil {
		row.SphinxOK = true
		row.OnionSize = sp.TotalPayloadSize()
		for i := range rt.Hops {
			row.Sizes = append(row.Sizes, uint64(sp[i].HopPayload.NumBytes()))
		}
	} else {
		row.Sizes = row.HopSizes
		row.Err = "sphinx: " + err.Error()
	}
	return row
}

// ---- generator: blinded payments ----------------------------------------------

func vGenBPay(r *vrng, b *vBCase, n int, fresh *int) *vBPay {
	c := b.vCase
	p := &vBPay{}
	switch r.intn(8) {
	case 0:
		p.Intro = c.src // NewRouteRequest: ErrSelfIntro; findPath skips hints of self
	case 1, 2, 3:
		p.Intro = c.dst
	default:
		p.Intro = r.intn(n)
	}
	k := []int{0, 1, 1, 2, 2, 3, 1, 2}[r.intn(8)]
	for i := 0; i < k; i++ {
		p.Hops = append(p.Hops, *fresh)
		*fresh++
	}
	p.Base = []uint32{0, 1000, uint32(r.intn(5000)), 1}[r.intn(4)]
	p.Rate = []uint32{0, 1, 100, uint32(r.intn(20000)), uint32(r.intn(500000))}[r.intn(5)]
	p.Delta = []uint16{0, 40, 144, uint16(r.intn(700)), 18}[r.intn(5)]
	amt := c.amt
	switch r.intn(8) {
	case 0:
		p.Min = 0
	case 1:
		p.Min = 1000
	case 2:
		p.Min = vPos(int64(amt) - 1)
	case 3:
		p.Min = amt
	case 4:
		p.Min = amt + 1
	case 5:
		p.Min = amt * 10
	default:
		p.Min = uint64(r.rng(0, int64(amt)))
	}
	switch r.intn(8) {
	case 0:
		p.Max = vPos(int64(amt) - 1)
	case 1:
		p.Max = amt
	case 2:
		p.Max = amt + 1
	case 3:
		p.Max = amt / 2
	case 4:
		p.Max = math.MaxUint64
	default:
		p.Max = amt*uint64(r.rng(2, 100)) + uint64(r.intn(1000))
	}
	if p.Max < p.Min && r.intn(8) != 0 {
		// Validate demands min <= max; keep a few invalid ones
		if r.bool() {
			p.Min = p.Max
		} else {
			p.Max = p.Min
		}
	}
	for i := 0; i <= k; i++ {
		p.CtLens = append(p.CtLens, int(r.rng(2, 90)))
	}
	return p
}

func vGenBCase(r *vrng) *vBCase {
	c := vGenCase(r)
	// public graph only; blinded payments carry neither metadata nor a
	// payment address
	var chans []*vChan
	for _, ch := range c.g.chans {
		if !ch.Hint {
			chans = append(chans, ch)
		}
	}
	c.g.chans = chans
	c.metaLen, c.payAddr = -1, false
	if r.intn(4) != 0 {
		c.custom = -1
	}
	n := len(c.g.nodes)
	if c.dst == c.src && r.intn(3) != 0 {
		c.dst = int(r.rng(1, int64(n-1)))
	}
	b := &vBCase{vCase: c, total: c.amt}
	np := []int{1, 1, 1, 2, 2, 3}[r.intn(6)]
	fresh := c.g.vExtend(3 * np)
	b.nums = c.g.vAddNums()
	feat := r.intn(4)
	for i := 0; i < np; i++ {
		p := vGenBPay(r, b, n, &fresh)
		p.Feat = feat
		if r.intn(12) == 0 {
			p.Feat = r.intn(5)
		}
		b.pays = append(b.pays, p)
	}
	switch r.intn(5) {
	case 0:
		b.total = c.amt + uint64(r.rng(1, 1000000)) // one shard of an MPP payment
	case 1:
		b.total = c.amt * 4
	}
	// 1/5 of the cases go through the REAL payment session (source = self):
	// newPaymentSession + RequestRoute, which does not put the path set into
	// RestrictParams.
	b.session = r.intn(5) == 0 && c.src == c.self
	if c.lastHop < 0 && r.intn(6) == 0 {
		c.lastHop = 0
	}
	// last-hop restriction: the search ends at the NUMS target, so the
	// "last hop" of the search is the recipient's blinded key
	if c.lastHop >= 0 {
		p := b.pays[r.intn(len(b.pays))]
		switch r.intn(4) {
		case 0:
			c.lastHop = p.Intro
		case 1, 2:
			if len(p.Hops) > 0 {
				c.lastHop = p.Hops[len(p.Hops)-1]
			}
		}
	}
	if len(c.ignNodes) > 0 && r.intn(3) == 0 {
		p := b.pays[r.intn(len(b.pays))]
		if len(p.Hops) > 0 {
			c.ignNodes = append(c.ignNodes, p.Hops[r.intn(len(p.Hops))])
		} else {
			c.ignNodes = append(c.ignNodes, p.Intro)
		}
	}
	return b
}

// vChosen returns the payment whose path the route ends in and the index of
// the hop that arrives at its introduction node (-1: the source is the
// introduction node).
func (b *vBCase) vChosen(rt *vRow) (*vBPay, int) {
	last := rt.Hops[len(rt.Hops)-1].To
	for _, p := range b.pays {
		end := p.Intro
		if len(p.Hops) > 0 {
			end = p.Hops[len(p.Hops)-1]
		}
		if end != last {
			continue
		}
		ii := len(rt.Hops) - 1 - len(p.Hops)
		return p, ii
	}
	return nil, -1
}

// vBTighten derives a boundary variant of b from the found route rt.
func vBTighten(r *vrng, b *vBCase, rt *vRow) string {
	c := b.vCase
	p, ii := b.vChosen(rt)
	if p == nil {
		return "b-skip"
	}
	d := uint64(r.intn(3))
	fees := rt.TotalAmt - c.amt
	switch r.intn(12) {
	case 0, 1:
		p.Max = c.amt + d - 1
		if p.Min > p.Max {
			p.Min = p.Max
		}
		return "bmax"
	case 2:
		p.Min = c.amt + d - 1
		if p.Max < p.Min {
			p.Max = p.Min
		}
		return "bmin"
	case 3:
		c.feeLimit = fees + d
		if c.feeLimit > 0 {
			c.feeLimit--
		}
		return "bfeelimit"
	case 4:
		need := rt.TotalTL - c.height - rt.FinalD
		c.cltvLim = need + uint32(d)
		if c.cltvLim > 0 {
			c.cltvLim--
		}
		return "bcltvlimit"
	case 5:
		// payload limit: choose the length of the recipient's encrypted
		// data such that findPath's own estimate lands on the limit -1/0/+1
		// what findPath itself adds up for this route: final-hop estimate +
		// the payload of the from-node of every path edge but the first.
		// Only the final-hop estimate and the dummy edge depend on the
		// recipient's encrypted data; both are re-measured with the real
		// size functions for a candidate length (binary search, monotone).
		li := len(p.CtLens) - 1
		pidx := -1
		for i, q := range b.pays {
			if q == p {
				pidx = i
			}
		}
		estFor := func(nl int) int {
			nb := b.clone()
			nb.pays[pidx].CtLens[li] = nl
			var bps []*BlindedPayment
			for pi, q := range nb.pays {
				bps = append(bps, nb.payment(pi, q))
			}
			ps, err := NewBlindedPaymentPathSet(bps)
			if err != nil {
				return -1
			}
			hints, err := ps.ToRouteHints()
			if err != nil {
				return -1
			}
			ls, _ := lastHopPayloadSize(
				&RestrictParams{BlindedPaymentPathSet: ps},
				int32(c.height)+int32(ps.FinalCLTVDelta()),
				lnwire.MilliSatoshi(c.amt))
			est := int(ls)
			for i, e := range rt.Path {
				if i == 0 {
					continue
				}
				sz := -1
				for _, ae := range hints[c.g.nodes[e.From]] {
					if c.g.idx[ae.EdgePolicy().ToNodePubKey()] == e.To {
						sz = int(ae.IntermediatePayloadSize(0, 0, 0))
					}
				}
				if sz < 0 {
					sz = int(rt.Sizes[i-1])
				}
				est += sz
			}
			return est
		}
		want := int(sphinx.MaxRoutingPayloadSize) + int(d) - 1
		lo, hi := 2, 1300
		for lo < hi {
			mid := (lo + hi + 1) / 2
			if e := estFor(mid); e >= 0 && e <= want {
				lo = mid
			} else {
				hi = mid - 1
			}
		}
		nl := lo
		if pidx < 0 || estFor(nl) < 0 || b.session {
			return "bpayload-skip"
		}
		if nl < 2 || nl > 1300 {
			return "bpayload-skip"
		}
		p.CtLens[li] = nl
		return "bpayload"
	case 6:
		// relay parameters of the chosen path
		p.Base += uint32(r.intn(3000))
		p.Rate += uint32(r.intn(3000))
		p.Delta += uint16(r.intn(50))
		return "brelay"
	case 7:
		// an alternative path through the same introduction node
		q := *p
		q.Hops = nil
		first := c.g.vExtend(len(p.Hops))
		nums := c.g.idx[route.NewVertex(&BlindedPathNUMSKey)]
		_ = nums
		for i := range p.Hops {
			q.Hops = append(q.Hops, first+i)
		}
		q.CtLens = append([]int(nil), p.CtLens...)
		q.Base = uint32(vPos(int64(p.Base) + r.rng(-2, 2)))
		q.Delta = uint16(vPos(int64(p.Delta) + r.rng(-2, 2)))
		if len(b.pays) < 4 && len(q.Hops) > 0 {
			b.pays = append(b.pays, &q)
			return "bdup"
		}
		return "bdup-skip"
	case 8:
		if b.total == c.amt {
			b.total = c.amt + 1 + uint64(r.intn(100000))
		} else {
			b.total = c.amt
		}
		return "btotal"
	case 9:
		// inbound fee of the introduction node on the channel the route
		// arrives on: discount / surcharge
		if ii < 0 {
			return "binbound-skip"
		}
		from := c.src
		if ii > 0 {
			from = rt.Hops[ii-1].To
		}
		ch, _ := c.g.chanOf(rt.Hops[ii].Chan, from)
		if ch == nil {
			return "binbound-skip"
		}
		f := [2]int32{int32(r.rng(-3000, 1000)), int32(r.rng(-50000, 10000))}
		if ch.A == from {
			ch.InB = f
		} else {
			ch.InA = f
		}
		return "binbound"
	default:
		// tighten the public part like the base stream does
		if ii < 0 {
			return "bpub-skip"
		}
		pub := *rt
		pub.Hops = rt.Hops[:ii+1]
		name := vTighten(r, c, &pub)
		c.metaLen, c.payAddr = -1, false
		if name == "payload" || name == "payload-reset" || name == "payload-skip" {
			c.custom = -1
		}
		return "bpub-" + name
	}
}

// ---- generator: route hints -----------------------------------------------------

// vGenHintCase: the target is reachable through private hint chains.
func vGenHintCase(r *vrng) *vCase {
	c := vGenCase(r)
	var chans []*vChan
	for _, ch := range c.g.chans {
		if !ch.Hint {
			chans = append(chans, ch)
		}
	}
	c.g.chans = chans
	n := len(c.g.nodes)
	if c.dst == c.src {
		c.dst = int(r.rng(1, int64(n-1)))
	}
	id := uint64(5000)
	hint := func(a, bn int) *vChan {
		id += uint64(r.rng(1, 3))
		ch := &vChan{ID: id, A: a, B: bn, Hint: true}
		ch.AB = vGenPol(r, c.amt, r.intn(3) == 0)
		ch.AB.Disabled = r.intn(20) == 0
		c.g.chans = append(c.g.chans, ch)
		return ch
	}
	// often the target is a private node: only hints lead to it
	if r.intn(2) == 0 {
		c.dst = c.g.vExtend(1)
	}
	nch := []int{1, 1, 2, 2, 3}[r.intn(5)]
	for k := 0; k < nch; k++ {
		hops := []int{1, 1, 2, 2, 3}[r.intn(5)]
		// entry node: a public node (incl. self: findPath ignores hints
		// that leave self)
		entry := r.intn(n)
		if entry == c.dst {
			entry = (entry + 1) % n
		}
		prev := entry
		for h := 0; h < hops; h++ {
			var next int
			switch {
			case h == hops-1:
				next = c.dst
			case r.intn(3) == 0:
				next = r.intn(n) // a node that also has public channels
				if next == c.dst || next == prev {
					next = c.g.vExtend(1)
				}
			default:
				next = c.g.vExtend(1)
			}
			ch := hint(prev, next)
			if r.intn(4) == 0 {
				// parallel hint for the same pair
				p := hint(prev, next)
				if r.bool() {
					*p.AB = *ch.AB
					p.AB.Delta = uint16(r.intn(300))
				}
			}
			prev = next
		}
	}
	return c
}

// ---- directed cases (every run, independent of the seed) --------------------------

func vPlain(min, max uint64, base, rate uint64, delta uint16) *vPol {
	return &vPol{Min: min, Max: max, HasMax: true, Base: base, Rate: rate, Delta: delta}
}

// vDirected returns the directed blinded cases.
func vDirected() []struct {
	name string
	b    *vBCase
} {
	mk := func(amt uint64, pays ...*vBPay) *vBCase {
		g := vNewGraph(3)
		g.chans = []*vChan{
			{ID: 101, A: 0, B: 1, Cap: 10000000,
				AB: vPlain(0, 5000000000, 1000, 100, 40),
				BA: vPlain(0, 5000000000, 1000, 100, 40)},
			{ID: 102, A: 1, B: 2, Cap: 10000000,
				AB: vPlain(0, 5000000000, 2000, 500, 30),
				BA: vPlain(0, 5000000000, 2000, 500, 30)},
		}
		c := &vCase{g: g, lastHop: -1, metaLen: -1, custom: -1, amt: amt,
			height: 800000, hints: map[uint64]uint64{}, feeLimit: 1 << 40,
			cltvLim: 100000, probs: map[[2]int]float64{}}
		b := &vBCase{vCase: c, total: amt, pays: pays}
		fresh := g.vExtend(8)
		for _, p := range pays {
			for i := range p.Hops {
				p.Hops[i] = fresh
				fresh++
			}
			for len(p.CtLens) <= len(p.Hops) {
				p.CtLens = append(p.CtLens, 40)
			}
		}
		b.nums = g.vAddNums()
		return b
	}
	pay := func(intro, k int, min, max uint64) *vBPay {
		return &vBPay{Intro: intro, Hops: make([]int, k), Base: 1000, Rate: 100,
			Delta: 80, Min: min, Max: max, Feat: 1}
	}
	type dc = struct {
		name string
		b    *vBCase
	}
	var out []dc
	// the aggregated htlc_maximum: at, above by 1 msat, far above
	out = append(out, dc{"directed:max-equal", mk(500000, pay(2, 1, 1000, 500000))})
	out = append(out, dc{"directed:amount-above-htlc-maximum+1", mk(500001, pay(2, 1, 1000, 500000))})
	out = append(out, dc{"directed:amount-above-htlc-maximum-far", mk(400000000, pay(2, 2, 1000, 500000))})
	// minimal input: the introduction node is our direct peer
	out = append(out, dc{"directed:amount-above-htlc-maximum-minimal", mk(500001, pay(1, 1, 0, 500000))})
	// the aggregated htlc_minimum: below, equal
	out = append(out, dc{"directed:min-below", mk(999, pay(2, 1, 1000, 500000))})
	out = append(out, dc{"directed:min-equal", mk(1000, pay(2, 1, 1000, 500000))})
	// introduction-node-only path
	out = append(out, dc{"directed:intro-only", mk(20000, pay(2, 0, 1000, 500000))})
	out = append(out, dc{"directed:intro-only-above-max", mk(500001, pay(2, 0, 1000, 500000))})
	out = append(out, dc{"directed:intro-only-below-min", mk(999, pay(2, 0, 1000, 500000))})
	// two paths, only the second can carry the amount
	out = append(out, dc{"directed:two-paths", mk(300000,
		pay(2, 1, 1000, 200000), pay(1, 2, 1000, 500000))})
	out = append(out, dc{"directed:two-paths-both-too-small", mk(600000,
		pay(2, 1, 1000, 200000), pay(1, 2, 1000, 500000))})
	// introduction node == source
	out = append(out, dc{"directed:intro-is-source", mk(20000, pay(0, 1, 1000, 500000))})
	// MPP shard
	x := mk(20000, pay(2, 2, 1000, 500000))
	x.total = 100000
	out = append(out, dc{"directed:mpp-shard", x})
	// the introduction node gives an inbound discount on the channel the
	// payment arrives on
	y := mk(400000, pay(2, 1, 1000, 500000))
	y.g.chans[1].InB = [2]int32{-1500, 0}
	out = append(out, dc{"directed:intro-inbound-discount", y})
	y = mk(400000, pay(2, 1, 1000, 500000))
	y.g.chans[1].InB = [2]int32{700, 2000}
	out = append(out, dc{"directed:intro-inbound-surcharge", y})
	// through the REAL payment session (RequestRoute keeps the path set out of
	// RestrictParams): small and large encrypted data for the recipient
	for _, v := range []struct {
		name string
		k, l int
	}{
		{"directed:session-intro-only", 0, 40},
		{"directed:session-intro-only-large-encrypted-data", 0, 1215},
		{"directed:session-two-blinded-hops-large-encrypted-data", 2, 560},
	} {
		w := mk(20000, pay(2, v.k, 1000, 500000))
		w.pays[0].CtLens[len(w.pays[0].CtLens)-1] = v.l
		w.session = true
		out = append(out, dc{v.name, w})
	}
	// introduction-node-only path whose encrypted data makes findPath's own
	// payload estimate land exactly on the limit (searched with the real
	// lastHopPayloadSize)
	for l := 1200; l < 1300; l++ {
		z := mk(52946097776, pay(1, 0, 1000, 1<<50))
		z.g.chans[0].AB.Max, z.g.chans[0].Cap = 1<<50, 100000000
		z.pays[0].CtLens = []int{l}
		bp := z.payment(0, z.pays[0])
		ps, err := NewBlindedPaymentPathSet([]*BlindedPayment{bp})
		if err != nil {
			break
		}
		sz, _ := lastHopPayloadSize(&RestrictParams{BlindedPaymentPathSet: ps},
			int32(z.height)+int32(ps.FinalCLTVDelta()), lnwire.MilliSatoshi(z.amt))
		if sz == sphinx.MaxRoutingPayloadSize {
			out = append(out, dc{"directed:intro-only-payload-at-limit", z})
			break
		}
	}
	return out
}

// ---- driver --------------------------------------------------------------------------

// vAdditionalStream emits the hint and blinded streams; false = abandoned.
func vAdditionalStream(out *vWriter) bool {
	onlyH := int(vEnvInt("VERIF_ONLY_H", -1))
	onlyB := int(vEnvInt("VERIF_ONLY_B", -1))
	onlyD := int(vEnvInt("VERIF_ONLY_D", -1))
	replay := onlyH >= 0 || onlyB >= 0 || onlyD >= 0
	rounds := int(vEnvInt("VERIF_ROUNDS", 5))

	// directed
	for i, d := range vDirected() {
		if replay && onlyD != i {
			continue
		}
		row := d.b.run(i, d.name)
		row.Stream = "directed"
		out.emit(row)
		if vAbort {
			return false
		}
	}

	// (a) route hints
	nh := int(vEnvInt("VERIF_CASES_H", int64(vCases(120, 1200))))
	hr := vNewRng(vSeed() ^ 0x68696e7473000000)
	for ci := 0; ci < nh; ci++ {
		if replay && onlyH != ci {
			continue
		}
		r := hr.fork(uint64(ci))
		c := vGenHintCase(r)
		row := c.run(ci, "hint")
		row.Stream = "hint"
		out.emit(row)
		if vAbort {
			return false
		}
		cur, last := c, row
		if row.Kind != "route" {
			rc := c.clone()
			rc.feeLimit, rc.cltvLim = 1<<40, 1000000
			rc.ignNodes, rc.ignPairs, rc.outChans = nil, nil, nil
			rc.lastHop, rc.minProb = -1, 0
			for id, bw := range rc.hints {
				if bw < 4*rc.amt {
					delete(rc.hints, id)
				}
			}
			rrow := rc.run(ci, "hint-relaxed")
			rrow.Stream = "hint"
			out.emit(rrow)
			if vAbort {
				return false
			}
			cur, last = rc, rrow
		}
		for k := 0; k < rounds && last.Kind == "route"; k++ {
			next := cur.clone()
			name := vTighten(r, next, last)
			nrow := next.run(ci, "hint-"+name)
			nrow.Stream = "hint"
			out.emit(nrow)
			if vAbort {
				return false
			}
			if nrow.Kind == "route" {
				cur, last = next, nrow
			} else if r.intn(2) != 0 {
				break
			}
		}
	}

	// (b) blinded payments
	nb := int(vEnvInt("VERIF_CASES_B", int64(vCases(160, 1600))))
	br := vNewRng(vSeed() ^ 0x626c696e64656400)
	for ci := 0; ci < nb; ci++ {
		if replay && onlyB != ci {
			continue
		}
		r := br.fork(uint64(ci))
		b := vGenBCase(r)
		row := b.run(ci, "blinded")
		out.emit(row)
		if vAbort {
			return false
		}
		cur, last := b, row
		if row.Kind != "broute" {
			rb := b.clone()
			rc := rb.vCase
			rc.feeLimit, rc.cltvLim = 1<<40, 1000000
			rc.ignNodes, rc.ignPairs, rc.outChans = nil, nil, nil
			rc.lastHop, rc.minProb = -1, 0
			for id, bw := range rc.hints {
				if bw < 4*rc.amt {
					delete(rc.hints, id)
				}
			}
			for _, p := range rb.pays {
				p.Feat = 1
				if p.Min > rc.amt {
					p.Min = rc.amt
				}
				if p.Max < rc.amt {
					p.Max = rc.amt
				}
				if p.Intro == rc.src && len(rc.g.nodes) > 1 {
					p.Intro = rb.vCase.dst
					if p.Intro == rc.src {
						p.Intro = 1
					}
				}
			}
			rrow := rb.run(ci, "blinded-relaxed")
			out.emit(rrow)
			if vAbort {
				return false
			}
			cur, last = rb, rrow
		}
		for k := 0; k < rounds && last.Kind == "broute"; k++ {
			next := cur.clone()
			name := vBTighten(r, next, last)
			nrow := next.run(ci, name)
			out.emit(nrow)
			if vAbort {
				return false
			}
			if nrow.Kind == "broute" {
				cur, last = next, nrow
			} else if r.intn(2) != 0 {
				break
			}
		}
	}
	return true
}
