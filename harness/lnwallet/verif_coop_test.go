//go:build verif

package lnwallet

// C17 correspondence harness (lnwallet side).
//
// Three streams, all written to VERIF_OUT as JSONL:
//   const/bal/tx  the exported pure functions CoopCloseBalance and
//                 CreateCooperativeCloseTx on boundary grids + seeded values
//                 (incl. int64 extremes);
//   chan          real channel pairs (CreateTestChannels) of every channel
//                 type: both sides run the real CreateCloseProposal, then the
//                 real CompleteCooperativeClose with the exchanged signatures
//                 (ECDSA 2-of-2 or MuSig2); observed: error class, tx
//                 descriptor, returned balance, byte equality of both sides'
//                 transactions, an independent txscript engine run against
//                 the funding output, and that a tampered output is rejected;
//   dance         like chan, but the balances are reached with real HTLC
//                 add/settle state transitions instead of being constructed.

import (
	"bytes"
	"encoding/hex"
	"errors"
	"io"
	"math"
	"strings"
	"testing"

	"github.com/btcsuite/btcd/blockchain"
	"github.com/btcsuite/btcd/btcec/v2/schnorr/musig2"
	"github.com/btcsuite/btcd/btcutil/v2"
	"github.com/btcsuite/btcd/chainhash/v2"
	"github.com/btcsuite/btcd/mempool"
	"github.com/btcsuite/btcd/txscript/v2"
	"github.com/btcsuite/btcd/wire/v2"
	"github.com/lightningnetwork/lnd/channeldb"
	"github.com/lightningnetwork/lnd/fn/v2"
	"github.com/lightningnetwork/lnd/input"
	"github.com/lightningnetwork/lnd/lntypes"
	"github.com/lightningnetwork/lnd/lnwire"
)

type vDesc struct {
	Ver  int32   `json:"ver"`
	Seq  uint32  `json:"seq"`
	Lt   uint32  `json:"lt"`
	Outs [][]any `json:"outs"` // [value, hex script]
}

func vDescOf(tx *wire.MsgTx) *vDesc {
	d := &vDesc{Ver: tx.Version, Lt: tx.LockTime, Outs: [][]any{}}
	if len(tx.TxIn) == 1 {
		d.Seq = tx.TxIn[0].Sequence
	}
	for _, o := range tx.TxOut {
		d.Outs = append(d.Outs, []any{o.Value, hex.EncodeToString(o.PkScript)})
	}
	return d
}

func vRawNoWitness(tx *wire.MsgTx) string {
	var b bytes.Buffer
	_ = tx.SerializeNoWitness(&b)
	return hex.EncodeToString(b.Bytes())
}

func vRaw(tx *wire.MsgTx) string {
	var b bytes.Buffer
	_ = tx.Serialize(&b)
	return hex.EncodeToString(b.Bytes())
}

// error classes shared with Coop/Exec.v: 1 ErrChanClosing, 2 cannot afford,
// 3 CheckTransactionSanity, 9 anything else (never expected).
func vErrClass(err error) int {
	if err == nil {
		return 0
	}
	var re blockchain.RuleError
	switch {
	case errors.Is(err, ErrChanClosing):
		return 1
	case strings.Contains(err.Error(), "cannot afford"):
		return 2
	case errors.As(err, &re):
		return 3
	}
	return 9
}

func vPayer(p int) fn.Option[lntypes.ChannelParty] {
	switch p {
	case 1:
		return fn.Some(lntypes.Local)
	case 2:
		return fn.Some(lntypes.Remote)
	}
	return fn.None[lntypes.ChannelParty]()
}

// pick returns one of the values.
func vPick(r *vrng, vs ...int64) int64 { return vs[r.intn(len(vs))] }

func vScript(r *vrng) []byte {
	switch r.intn(8) {
	case 0: // p2wkh
		return append([]byte{0x00, 0x14}, r.bytes(20)...)
	case 1: // p2wsh
		return append([]byte{0x00, 0x20}, r.bytes(32)...)
	case 2: // p2tr
		return append([]byte{0x51, 0x20}, r.bytes(32)...)
	case 3: // OP_RETURN <data>
		n := r.intn(20) + 1
		return append([]byte{0x6a, byte(n)}, r.bytes(n)...)
	case 4: // bare OP_RETURN
		return []byte{0x6a}
	case 5: // short / odd
		return r.bytes(r.intn(4))
	case 6: // low-entropy so that prefixes and equal scripts occur
		n := r.intn(3) + 1
		b := make([]byte, n)
		for i := range b {
			b[i] = byte(r.intn(2))
		}
		return b
	}
	return r.bytes(r.intn(34) + 1)
}

// ---------------------------------------------------------------- pure

func vPureCases(t *testing.T, out *vWriter, master *vrng, n int) {
	out.emit(map[string]any{"k": "const", "anchor": int64(AnchorSize)})

	anchorsT := channeldb.AnchorOutputsBit | channeldb.SingleFunderTweaklessBit
	plainT := channeldb.SingleFunderTweaklessBit

	big := []int64{math.MaxInt64, math.MaxInt64 - 1, math.MaxInt64 - 660,
		math.MaxInt64 - 661, math.MinInt64, math.MinInt64 + 1, -1, -660,
		1 << 62, 21e14}

	for i := 0; i < n; i++ {
		r := master.fork(uint64(1_000_000 + i))
		anchors := r.bool()
		ini := r.bool()
		payer := r.intn(3)
		if r.intn(3) > 0 {
			payer = 0
		}
		var our, their, cfee, fee int64
		switch r.intn(10) {
		case 0: // extremes: int64 wrap
			our = big[r.intn(len(big))]
			their = big[r.intn(len(big))]
			cfee = vPick(r, 0, 1, 660, big[r.intn(len(big))])
			fee = vPick(r, 0, 1, big[r.intn(len(big))])
		default:
			our = vPick(r, 0, 1, 329, 330, 659, 660, 661, r.rng(0, 5000),
				r.rng(0, 1e9))
			their = vPick(r, 0, 1, 329, 330, 659, 660, 661, r.rng(0, 5000),
				r.rng(0, 1e9))
			cfee = vPick(r, 0, 1, 183, 9050, r.rng(0, 50000))
			// the payer's balance after the credit, +-1
			credit := cfee
			if anchors {
				credit += 660
			}
			payerIsLocal := (payer == 1) || (payer == 0 && ini)
			pb := their
			if payerIsLocal {
				pb = our
			}
			if payerIsLocal == ini {
				pb += credit
			}
			fee = vPick(r, 0, 1, pb-1, pb, pb+1, pb/2, r.rng(0, 20000),
				r.rng(0, 2e9))
		}
		ct := plainT
		if anchors {
			ct = anchorsT
		}
		o, th, err := CoopCloseBalance(
			ct, ini, btcutil.Amount(fee), btcutil.Amount(our),
			btcutil.Amount(their), btcutil.Amount(cfee), vPayer(payer),
		)
		out.emit(map[string]any{"k": "bal", "an": anchors, "ini": ini,
			"fee": fee, "our": our, "their": their, "cfee": cfee,
			"payer": payer, "ok": err == nil, "o": int64(o), "t": int64(th)})
	}

	var op wire.OutPoint
	for i := 0; i < n; i++ {
		r := master.fork(uint64(2_000_000 + i))
		ld := vPick(r, 0, 200, 354, 546, 1300, r.rng(0, 3000))
		rd := vPick(r, 0, 200, 354, 546, 1300, r.rng(0, 3000))
		our := vPick(r, 0, ld-1, ld, ld+1, rd, r.rng(0, 4000), r.rng(0, 1e9))
		their := vPick(r, 0, rd-1, rd, rd+1, our, our, ld, r.rng(0, 4000),
			r.rng(0, 1e9))
		os := vScript(r)
		ts := vScript(r)
		switch r.intn(5) {
		case 0:
			ts = append([]byte{}, os...)
		case 1: // one a strict prefix of the other
			ts = append(append([]byte{}, os...), byte(r.intn(256)))
		}
		var opts []CloseTxOpt
		rbf := r.intn(3) == 0
		if rbf {
			opts = append(opts, WithRBFCloseTx())
		}
		var seq, lt any
		if r.intn(2) == 0 {
			s := uint32(vPick(r, 0, int64(mempool.MaxRBFSequence),
				0xffffffff, r.rng(0, 0xffffffff)))
			seq = s
			opts = append(opts, WithCustomTxInSequence(s))
		}
		if r.intn(3) == 0 {
			l := uint32(vPick(r, 0, 1, 800000, r.rng(0, 0xffffffff)))
			lt = l
			opts = append(opts, WithCustomTxLockTime(l))
		}
		tx, err := CreateCooperativeCloseTx(
			*wire.NewTxIn(&op, nil, nil), btcutil.Amount(ld),
			btcutil.Amount(rd), btcutil.Amount(our),
			btcutil.Amount(their), os, ts, opts...,
		)
		if err != nil {
			t.Fatalf("CreateCooperativeCloseTx: %v", err)
		}
		out.emit(map[string]any{"k": "tx", "rbf": rbf, "seq": seq, "lt": lt,
			"ld": ld, "rd": rd, "our": our, "their": their,
			"os": hex.EncodeToString(os), "ts": hex.EncodeToString(ts),
			"oo": input.ScriptIsOpReturn(os),
			"to": input.ScriptIsOpReturn(ts), "d": vDescOf(tx)})
	}
}

// ---------------------------------------------------------------- chan

type vChanType struct {
	name string
	ct   channeldb.ChannelType
}

var vChanTypes = []vChanType{
	{"legacy", channeldb.SingleFunderBit},
	{"tweakless", channeldb.SingleFunderTweaklessBit},
	{"anchors", channeldb.SingleFunderTweaklessBit |
		channeldb.AnchorOutputsBit},
	{"anchors-zero-fee", channeldb.SingleFunderTweaklessBit |
		channeldb.AnchorOutputsBit | channeldb.ZeroHtlcTxFeeBit},
	{"lease", channeldb.SingleFunderTweaklessBit |
		channeldb.AnchorOutputsBit | channeldb.ZeroHtlcTxFeeBit |
		channeldb.LeaseExpirationBit},
	{"taproot", channeldb.SingleFunderTweaklessBit |
		channeldb.AnchorOutputsBit | channeldb.ZeroHtlcTxFeeBit |
		channeldb.SimpleTaprootFeatureBit},
	{"taproot-root", channeldb.SingleFunderTweaklessBit |
		channeldb.AnchorOutputsBit | channeldb.ZeroHtlcTxFeeBit |
		channeldb.SimpleTaprootFeatureBit | channeldb.TapscriptRootBit},
}

func vView(lc *LightningChannel) map[string]any {
	cs := lc.channelState
	return map[string]any{
		"an":  cs.ChanType.HasAnchors(),
		"tap": cs.ChanType.IsTaproot(),
		"ini": cs.IsInitiator,
		"lm":  uint64(cs.LocalCommitment.LocalBalance),
		"rm":  uint64(cs.LocalCommitment.RemoteBalance),
		"cf":  int64(cs.LocalCommitment.CommitFee),
		"ld":  int64(cs.LocalChanCfg.DustLimit),
		"rd":  int64(cs.RemoteChanCfg.DustLimit),
		"closed": lc.isClosed,
		"htlcs":  len(cs.LocalCommitment.Htlcs),
	}
}

// vMusig builds the pair of coop-close MuSig2 sessions the way
// peer.MusigChanCloser does (fresh nonces, RemoteMusigCommit).
func vMusig(t *testing.T, a, b *LightningChannel) (*MusigSession, *MusigSession) {
	ka, kb := a.MultiSigKeys()
	na, err := musig2.GenNonces(musig2.WithPublicKey(ka.PubKey))
	if err != nil {
		t.Fatal(err)
	}
	nb, err := musig2.GenNonces(musig2.WithPublicKey(kb.PubKey))
	if err != nil {
		t.Fatal(err)
	}
	mk := func(lc *LightningChannel, local, remote *musig2.Nonces) *MusigSession {
		lk, rk := lc.MultiSigKeys()
		tweak := fn.MapOption(TapscriptRootToTweak)(lc.State().TapscriptRoot)
		s := NewPartialMusigSession(
			*remote, lk, rk, lc.Signer, lc.FundingTxOut(),
			RemoteMusigCommit, tweak, fn.None[io.Reader](),
		)
		if err := s.FinalizeSession(*local); err != nil {
			t.Fatal(err)
		}
		return s
	}
	return mk(a, na, nb), mk(b, nb, na)
}

func vEngine(tx *wire.MsgTx, prev *wire.TxOut) bool {
	f := txscript.NewCannedPrevOutputFetcher(prev.PkScript, prev.Value)
	hc := txscript.NewTxSigHashes(tx, f)
	vm, err := txscript.NewEngine(
		prev.PkScript, tx, 0, txscript.StandardVerifyFlags, nil, hc,
		prev.Value, f,
	)
	if err != nil {
		return false
	}
	return vm.Execute() == nil
}

type vSide struct {
	Err  int    `json:"err"`
	Msg  string `json:"msg,omitempty"`
	D    *vDesc `json:"d,omitempty"`
	Bal  int64  `json:"bal"`
	Raw  string `json:"raw,omitempty"`  // serialization without witness
	Full string `json:"full,omitempty"` // with witness (completed tx)
}

func vSideOf(tx *wire.MsgTx, bal btcutil.Amount, err error, full bool) *vSide {
	s := &vSide{Err: vErrClass(err)}
	if err != nil {
		s.Msg = err.Error()
		return s
	}
	s.D = vDescOf(tx)
	s.Bal = int64(bal)
	s.Raw = vRawNoWitness(tx)
	if full {
		s.Full = vRaw(tx)
	}
	return s
}

// vCloseBoth runs the proposal/completion exchange on a channel pair and
// emits one "chan" row.
func vCloseBoth(t *testing.T, out *vWriter, kind, ctName string,
	a, b *LightningChannel, fee int64, sA, sB []byte, rbfMode bool,
	payerA int, lockTime uint32) {

	row := map[string]any{"k": kind, "ct": ctName, "fee": fee,
		"sA": hex.EncodeToString(sA), "sB": hex.EncodeToString(sB),
		"opA": input.ScriptIsOpReturn(sA), "opB": input.ScriptIsOpReturn(sB),
		"rbf": rbfMode, "payerA": payerA,
		"capacity": int64(a.channelState.Capacity),
		"fundingValue": a.FundingTxOut().Value,
		"viewA":        vView(a), "viewB": vView(b)}

	var optsA, optsB []ChanCloseOpt
	if rbfMode {
		// rbf_coop_transitions.go: the closer pays; MaxRBFSequence;
		// the closer's locktime.
		row["seq"] = uint32(mempool.MaxRBFSequence)
		row["lt"] = lockTime
		pa := lntypes.Local
		if payerA == 2 {
			pa = lntypes.Remote
		}
		optsA = append(optsA, WithCustomSequence(mempool.MaxRBFSequence),
			WithCustomLockTime(lockTime), WithCustomPayer(pa))
		optsB = append(optsB, WithCustomSequence(mempool.MaxRBFSequence),
			WithCustomLockTime(lockTime),
			WithCustomPayer(pa.CounterParty()))
	}
	if a.channelState.ChanType.IsTaproot() {
		ma, mb := vMusig(t, a, b)
		optsA = append(optsA, WithCoopCloseMusigSession(ma))
		optsB = append(optsB, WithCoopCloseMusigSession(mb))
	}

	f := btcutil.Amount(fee)
	sigA, txA, balA, errA := a.CreateCloseProposal(f, sA, sB, optsA...)
	sigB, txB, balB, errB := b.CreateCloseProposal(f, sB, sA, optsB...)
	row["propA"] = vSideOf(txA, balA, errA, false)
	row["propB"] = vSideOf(txB, balB, errB, false)

	if errA == nil && errB == nil {
		prev := a.FundingTxOut()
		finA, cbalA, cerrA := a.CompleteCooperativeClose(
			sigA, sigB, sA, sB, f, optsA...,
		)
		finB, cbalB, cerrB := b.CompleteCooperativeClose(
			sigB, sigA, sB, sA, f, optsB...,
		)
		row["compA"] = vSideOf(finA, cbalA, cerrA, true)
		row["compB"] = vSideOf(finB, cbalB, cerrB, true)
		if cerrA == nil {
			row["engineA"] = vEngine(finA, prev)
			// the signatures must commit to the outputs: moving one
			// satoshi must invalidate the transaction.
			tam := finA.Copy()
			tam.TxOut[0].Value++
			row["tamperOK"] = vEngine(tam, prev)
		}
		if cerrB == nil {
			row["engineB"] = vEngine(finB, b.FundingTxOut())
		}
		row["closedA"] = a.isClosed
		row["closedB"] = b.isClosed

		// a further proposal after completion: refused in the legacy
		// flow (ErrChanClosing), allowed in the RBF flow.
		row["viewA2"] = vView(a)
		if a.channelState.ChanType.IsTaproot() {
			ma, _ := vMusig(t, a, b)
			optsA[len(optsA)-1] = WithCoopCloseMusigSession(ma)
		}
		_, tx2, bal2, err2 := a.CreateCloseProposal(f, sA, sB, optsA...)
		row["reA"] = vSideOf(tx2, bal2, err2, false)
	}
	out.emit(row)
}

// vSetState constructs an HTLC-free channel state on both sides.
func vSetState(a, b *LightningChannel, aMsat, bMsat uint64, commitFee,
	dustA, dustB int64) {

	for _, p := range []struct {
		lc     *LightningChannel
		l, r   uint64
		ld, rd int64
	}{{a, aMsat, bMsat, dustA, dustB}, {b, bMsat, aMsat, dustB, dustA}} {
		cs := p.lc.channelState
		cs.LocalCommitment.LocalBalance = lnwire.MilliSatoshi(p.l)
		cs.LocalCommitment.RemoteBalance = lnwire.MilliSatoshi(p.r)
		cs.LocalCommitment.CommitFee = btcutil.Amount(commitFee)
		cs.LocalChanCfg.DustLimit = btcutil.Amount(p.ld)
		cs.RemoteChanCfg.DustLimit = btcutil.Amount(p.rd)
		p.lc.isClosed = false
	}
}

func vCloseScript(r *vrng) []byte {
	switch r.intn(6) {
	case 0:
		return append([]byte{0x00, 0x20}, r.bytes(32)...)
	case 1:
		return append([]byte{0x51, 0x20}, r.bytes(32)...)
	case 2:
		n := r.intn(20) + 1
		return append([]byte{0x6a, byte(n)}, r.bytes(n)...)
	}
	return append([]byte{0x00, 0x14}, r.bytes(20)...)
}

func TestVerifCoop(t *testing.T) {
	out := vOpenOut()
	defer out.close()
	master := vNewRng(vSeed())

	vPureCases(t, out, master, vCases(1500, 20000))

	nChan := vCases(70, 1000) // per channel type
	for ti, vt := range vChanTypes {
		a, b, err := CreateTestChannels(t, vt.ct)
		if err != nil {
			t.Fatalf("CreateTestChannels(%s): %v", vt.name, err)
		}
		capSat := int64(a.channelState.Capacity)
		anchors := int64(0)
		if vt.ct.HasAnchors() {
			anchors = 2 * int64(AnchorSize)
		}
		for i := 0; i < nChan; i++ {
			r := master.fork(uint64(3_000_000 + ti*100_000 + i))
			dustA := vPick(r, 200, 354, 546, 1300, r.rng(200, 3000))
			dustB := vPick(r, 200, 354, 546, 1300, r.rng(200, 3000))
			cfee := vPick(r, 0, 183, 9050, r.rng(0, 40000))
			credit := cfee + anchors
			// total spendable msat, split between the parties
			tot := uint64(capSat-credit) * 1000
			var aSat int64
			switch r.intn(12) {
			case 0:
				aSat = 0
			case 1: // opener's final balance around its dust limit
				aSat = dustA - credit + r.rng(-1, 1)
			case 2: // non-opener's balance around its dust limit
				aSat = capSat - credit - dustB + r.rng(-1, 1)
			case 3:
				aSat = capSat - credit
			case 4:
				aSat = r.rng(0, 3000)
			case 5:
				aSat = capSat - credit - r.rng(0, 3000)
			default:
				aSat = r.rng(0, capSat-credit)
			}
			if aSat < 0 {
				aSat = 0
			}
			if aSat > capSat-credit {
				aSat = capSat - credit
			}
			aMsat := uint64(aSat) * 1000
			if r.intn(3) == 0 && aMsat+1000 <= tot {
				aMsat += uint64(vPick(r, 1, 500, 999, r.rng(1, 999)))
			}
			bMsat := tot - aMsat
			vSetState(a, b, aMsat, bMsat, cfee, dustA, dustB)

			rbfMode := r.intn(3) == 0
			payerA := 0
			if rbfMode {
				payerA = 1 + r.intn(2)
			}
			// the payer's balance before the fee
			payBal := int64(aMsat/1000) + credit
			if payerA == 2 {
				payBal = int64(bMsat / 1000)
			}
			payDust := dustA
			if payerA == 2 {
				payDust = dustB
			}
			fee := vPick(r, 0, 1, 253, payBal-1, payBal, payBal+1,
				payBal-payDust-1, payBal-payDust, payBal-payDust+1,
				r.rng(0, 30000), r.rng(0, 30000), r.rng(0, capSat+5))
			if fee < 0 {
				fee = 0
			}
			sA, sB := vCloseScript(r), vCloseScript(r)
			if r.intn(8) == 0 {
				sB = append([]byte{}, sA...)
			}
			vCloseBoth(t, out, "chan", vt.name, a, b, fee, sA, sB,
				rbfMode, payerA, uint32(vPick(r, 0, 800000,
					r.rng(0, 499999999))))
		}
	}

	// balances reached through real HTLC add/settle state transitions
	nDance := vCases(3, 40)
	for ti, vt := range vChanTypes {
		for i := 0; i < nDance; i++ {
			r := master.fork(uint64(4_000_000 + ti*100_000 + i))
			a, b, err := CreateTestChannels(t, vt.ct)
			if err != nil {
				t.Fatal(err)
			}
			nh := 1 + r.intn(3)
			for h := 0; h < nh; h++ {
				amt := lnwire.MilliSatoshi(r.rng(1_000_000, 900_000_000))
				if r.intn(3) == 0 {
					amt += lnwire.MilliSatoshi(r.rng(1, 999))
				}
				src, dst := a, b
				if r.bool() {
					src, dst = b, a
				}
				htlc, pre := createHTLC(h+ti*10, amt)
				htlc.ID = src.updateLogs.Local.htlcCounter
				if _, err := src.AddHTLC(htlc, nil); err != nil {
					t.Fatalf("AddHTLC: %v", err)
				}
				if _, err := dst.ReceiveHTLC(htlc); err != nil {
					t.Fatalf("ReceiveHTLC: %v", err)
				}
				if err := ForceStateTransition(src, dst); err != nil {
					t.Fatalf("transition: %v", err)
				}
				err = dst.SettleHTLC(pre, htlc.ID, nil, nil, nil)
				if err != nil {
					t.Fatalf("SettleHTLC: %v", err)
				}
				if err := src.ReceiveHTLCSettle(pre, htlc.ID); err != nil {
					t.Fatalf("ReceiveHTLCSettle: %v", err)
				}
				if err := ForceStateTransition(dst, src); err != nil {
					t.Fatalf("transition: %v", err)
				}
			}
			fee := vPick(r, 0, 253, r.rng(0, 30000))
			rbfMode := r.intn(3) == 0
			payerA := 0
			if rbfMode {
				payerA = 1 + r.intn(2)
			}
			vCloseBoth(t, out, "dance", vt.name, a, b, fee,
				vCloseScript(r), vCloseScript(r), rbfMode, payerA, 0)
		}
	}
	_ = chainhash.Hash{}
}
