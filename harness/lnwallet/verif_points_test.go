//go:build verif

package lnwallet

// C06 stage "points": EVERY value of the node's OWN per-commitment chain that it
// hands out — channel_ready.next_per_commitment_point, revoke_and_ack
// (per_commitment_secret, next_per_commitment_point), channel_reestablish
// (my_current_per_commitment_point) — is recorded together with the producer
// root; props/c06_points.py recomputes the chain from the root (hashlib + its
// own secp256k1) and checks the index every slot carries, and the
// gap/repeat-freedom of the whole sequence per party.
//
// Driven code (all real): CreateTestChannels, SignNextCommitment,
// ReceiveNewCommitment, RevokeCurrentCommitment (generateRevocation),
// ReceiveRevocation, restart from the database (FetchOpenChannels +
// NewLightningChannel), OpenChannel.ChanSyncMsg, ProcessChanSyncMsg
// (retransmitted revoke_and_ack), LightningChannel.NextRevocationKey and
// OpenChannel.SecondCommitmentPoint (the two helpers from which lnd builds
// channel_ready: htlcswitch/link.go resend guard is replayed here,
// peer.loadActiveChannels / funding.processChannelReady call
// SecondCommitmentPoint on a database instance at ANY height).
//
// Schedules: random interleavings of sign / deliver / revoke / restart (messages
// in flight are lost, both sides reload, exchange channel_reestablish and
// retransmit) + one systematic schedule per channel type with a restart after
// every single step.  After every step both parties are probed "as if the peer
// connected now".

import (
	"bytes"
	"encoding/hex"
	"fmt"
	"testing"

	"github.com/lightningnetwork/lnd/channeldb"
	"github.com/lightningnetwork/lnd/chanstate"
	"github.com/lightningnetwork/lnd/lnwire"
)

type vptType struct {
	name string
	bits channeldb.ChannelType
}

var vptTypes = []vptType{
	{"legacy", channeldb.SingleFunderBit},
	{"tweakless", channeldb.SingleFunderTweaklessBit},
	{"anchors", channeldb.SingleFunderTweaklessBit |
		channeldb.AnchorOutputsBit},
	{"zerofee", channeldb.SingleFunderTweaklessBit |
		channeldb.AnchorOutputsBit | channeldb.ZeroHtlcTxFeeBit},
	{"lease", channeldb.SingleFunderTweaklessBit |
		channeldb.AnchorOutputsBit | channeldb.ZeroHtlcTxFeeBit |
		channeldb.LeaseExpirationBit},
}

var vptNames = [2]string{"a", "b"}

// vptEvent is one value of a party's own chain leaving the node (Sent) or that
// would leave it if the peer connected at this moment (probe).
type vptEvent struct {
	Step   int    `json:"step"`
	Party  string `json:"party"`
	Slot   string `json:"slot"` // channel_ready | revoke_and_ack | reestablish
	Src    string `json:"src"`
	Sent   bool   `json:"sent"`
	DiskH  uint64 `json:"disk_h"` // LocalCommitment.CommitHeight in the database
	Point  string `json:"point,omitempty"`
	Secret string `json:"secret,omitempty"`
	// channel_reestablish only
	NextLocal  uint64 `json:"next_local,omitempty"`
	RemoteTail uint64 `json:"remote_tail,omitempty"`
	PeerSecret string `json:"peer_secret,omitempty"`
	Err        string `json:"err,omitempty"`
}

type vptRow struct {
	Stage    string     `json:"stage"`
	Case     int        `json:"case"`
	Seed     uint64     `json:"seed"`
	Kind     string     `json:"kind"`
	ChanType string     `json:"chan_type"`
	Roots    [2]string  `json:"roots"`
	Ops      []string   `json:"ops"`
	Events   []vptEvent `json:"events"`
	FinalH   [2]uint64  `json:"final_h"`
	Abort    string     `json:"abort,omitempty"`
}

type vptCtx struct {
	t    *testing.T
	r    *vrng
	ch   [2]*LightningChannel
	q    [2][]lnwire.Message // messages in flight TO party i
	recv [2]bool             // party i holds a received, not yet revoked commitment
	row  *vptRow
	step int
}

func vptSafe(f func() error) (err error) {
	defer func() {
		if p := recover(); p != nil {
			err = fmt.Errorf("panic: %v", p)
		}
	}()
	return f()
}

func vptRoot(cs *chanstate.OpenChannel) string {
	var b bytes.Buffer
	if err := cs.RevocationProducer.Encode(&b); err != nil {
		return "err:" + err.Error()
	}
	return hex.EncodeToString(b.Bytes())
}

func (c *vptCtx) fetch(p int) (*chanstate.OpenChannel, error) {
	old := c.ch[p].channelState
	chans, err := old.Db.FetchOpenChannels(old.IdentityPub)
	if err != nil {
		return nil, err
	}
	if len(chans) != 1 {
		return nil, fmt.Errorf("vpt: %d channels in db", len(chans))
	}
	return chans[0], nil
}

func (c *vptCtx) ev(e vptEvent) {
	e.Step = c.step
	c.row.Events = append(c.row.Events, e)
}

// probe records what p would hand out if its peer connected right now, from a
// database instance of the channel (exactly what peer.loadActiveChannels gets)
// and from the live state machine.
func (c *vptCtx) probe(p int) {
	name := vptNames[p]
	db, err := c.fetch(p)
	if err != nil {
		c.row.Abort = "fetch:" + err.Error()
		return
	}
	diskH := db.LocalCommitment.CommitHeight
	for _, s := range []struct {
		src string
		cs  *chanstate.OpenChannel
	}{{"second_point_db", db}, {"second_point_live", c.ch[p].channelState}} {
		e := vptEvent{Party: name, Slot: "channel_ready", Src: s.src,
			DiskH: diskH}
		err := vptSafe(func() error {
			pt, err := s.cs.SecondCommitmentPoint()
			if err != nil {
				return err
			}
			e.Point = hex.EncodeToString(pt.SerializeCompressed())
			return nil
		})
		if err != nil {
			e.Err = err.Error()
		}
		c.ev(e)
	}
	// channel_reestablish as built from the database instance
	c.reest(p, db, "chan_sync_db", false)
}

func (c *vptCtx) reest(p int, cs *chanstate.OpenChannel, src string,
	sent bool) *lnwire.ChannelReestablish {

	e := vptEvent{Party: vptNames[p], Slot: "reestablish", Src: src,
		Sent: sent, DiskH: cs.LocalCommitment.CommitHeight}
	var msg *lnwire.ChannelReestablish
	err := vptSafe(func() error {
		var err error
		msg, err = cs.ChanSyncMsg()
		if err != nil {
			return err
		}
		e.Point = hex.EncodeToString(
			msg.LocalUnrevokedCommitPoint.SerializeCompressed(),
		)
		e.NextLocal = msg.NextLocalCommitHeight
		e.RemoteTail = msg.RemoteCommitTailHeight
		e.PeerSecret = hex.EncodeToString(msg.LastRemoteCommitSecret[:])
		return nil
	})
	if err != nil {
		e.Err = err.Error()
		msg = nil
	}
	c.ev(e)
	return msg
}

func (c *vptCtx) revEvent(p int, m *lnwire.RevokeAndAck, src string) {
	e := vptEvent{Party: vptNames[p], Slot: "revoke_and_ack", Src: src,
		Sent:   true,
		DiskH:  c.ch[p].channelState.LocalCommitment.CommitHeight,
		Secret: hex.EncodeToString(m.Revocation[:])}
	if m.NextRevocationKey != nil {
		e.Point = hex.EncodeToString(
			m.NextRevocationKey.SerializeCompressed(),
		)
	}
	c.ev(e)
}

func (c *vptCtx) op(s string) { c.row.Ops = append(c.row.Ops, s) }

func (c *vptCtx) canSign(p int) bool {
	lc := c.ch[p]
	return !lc.commitChains.Remote.hasUnackedCommitment() &&
		lc.channelState.RemoteNextRevocation != nil
}

func (c *vptCtx) doSign(p int) bool {
	if !c.canSign(p) {
		return false
	}
	c.op("sign " + vptNames[p])
	var msg *lnwire.CommitSig
	err := vptSafe(func() error {
		st, err := c.ch[p].SignNextCommitment(ctxb)
		if err != nil {
			return err
		}
		recs, err := lnwire.ParseCustomRecords(st.AuxSigBlob)
		if err != nil {
			return err
		}
		msg = &lnwire.CommitSig{
			ChanID: lnwire.NewChanIDFromOutPoint(
				c.ch[p].channelState.FundingOutpoint,
			),
			CommitSig: st.CommitSig, HtlcSigs: st.HtlcSigs,
			PartialSig: st.PartialSig, CustomRecords: recs,
		}
		return nil
	})
	if err != nil {
		c.row.Abort = "sign:" + err.Error()
		return false
	}
	c.q[1-p] = append(c.q[1-p], msg)
	return true
}

func (c *vptCtx) doDeliver(p int) bool {
	if len(c.q[p]) == 0 {
		return false
	}
	m := c.q[p][0]
	// a commitment can only be taken when the previous one was revoked
	if _, ok := m.(*lnwire.CommitSig); ok && c.recv[p] {
		return false
	}
	c.q[p] = c.q[p][1:]
	lc := c.ch[p]
	err := vptSafe(func() error {
		switch msg := m.(type) {
		case *lnwire.CommitSig:
			c.op("deliver sig " + vptNames[p])
			blob, err := msg.CustomRecords.Serialize()
			if err != nil {
				return err
			}
			err = lc.ReceiveNewCommitment(&CommitSigs{
				CommitSig:  msg.CommitSig,
				HtlcSigs:   msg.HtlcSigs,
				PartialSig: msg.PartialSig,
				AuxSigBlob: blob,
			})
			if err == nil {
				c.recv[p] = true
			}
			return err
		case *lnwire.RevokeAndAck:
			c.op("deliver rev " + vptNames[p])
			_, _, err := lc.ReceiveRevocation(msg)
			return err
		}
		return fmt.Errorf("vpt: unexpected message %T", m)
	})
	if err != nil {
		c.row.Abort = "deliver:" + err.Error()
		return false
	}
	return true
}

func (c *vptCtx) doRevoke(p int) bool {
	if !c.recv[p] {
		return false
	}
	c.op("revoke " + vptNames[p])
	var msg *lnwire.RevokeAndAck
	err := vptSafe(func() error {
		var err error
		msg, _, _, err = c.ch[p].RevokeCurrentCommitment()
		return err
	})
	if err != nil {
		c.row.Abort = "revoke:" + err.Error()
		return false
	}
	c.recv[p] = false
	c.revEvent(p, msg, "fresh")
	c.q[1-p] = append(c.q[1-p], msg)
	return true
}

// doRestart: the connection drops (everything in flight is lost), both nodes
// restart from their databases, reconnect and resynchronise exactly like the
// link does (channel_reestablish both ways, optional channel_ready resend,
// ProcessChanSyncMsg retransmissions).
func (c *vptCtx) doRestart() bool {
	c.op("restart")
	c.q = [2][]lnwire.Message{}
	c.recv = [2]bool{}
	for p := 0; p < 2; p++ {
		nc, err := restartChannel(c.ch[p])
		if err != nil {
			c.row.Abort = "restart:" + err.Error()
			return false
		}
		c.ch[p] = nc
	}
	var sync [2]*lnwire.ChannelReestablish
	for p := 0; p < 2; p++ {
		sync[p] = c.reest(p, c.ch[p].channelState, "chan_sync_sent", true)
		if sync[p] == nil {
			c.row.Abort = "chansync"
			return false
		}
	}
	for p := 0; p < 2; p++ {
		// htlcswitch/link.go: resend channel_ready when neither side
		// has done a state update yet
		if sync[1-p].NextLocalCommitHeight == 1 &&
			sync[p].NextLocalCommitHeight == 1 &&
			!c.ch[p].IsPending() {

			e := vptEvent{Party: vptNames[p], Slot: "channel_ready",
				Src: "link_resend_next_rev_key", Sent: true,
				DiskH: c.ch[p].channelState.LocalCommitment.
					CommitHeight}
			pt, err := c.ch[p].NextRevocationKey()
			if err != nil {
				e.Err = err.Error()
			} else {
				e.Point = hex.EncodeToString(
					pt.SerializeCompressed(),
				)
			}
			c.ev(e)
		}
		var out []lnwire.Message
		err := vptSafe(func() error {
			var err error
			out, _, _, err = c.ch[p].ProcessChanSyncMsg(
				ctxb, sync[1-p],
			)
			return err
		})
		if err != nil {
			c.row.Abort = "processchansync:" + err.Error()
			return false
		}
		for _, m := range out {
			if r, ok := m.(*lnwire.RevokeAndAck); ok {
				c.revEvent(p, r, "retransmit")
			}
			c.q[1-p] = append(c.q[1-p], m)
		}
	}
	return true
}

func (c *vptCtx) probeAll() {
	for p := 0; p < 2; p++ {
		c.probe(p)
	}
}

func (c *vptCtx) stepDone() {
	c.step++
	c.probeAll()
}

// pump delivers and answers everything in flight (used to reach quiescence).
func (c *vptCtx) pump() {
	for i := 0; i < 64 && c.row.Abort == ""; i++ {
		did := false
		for p := 0; p < 2; p++ {
			if c.doDeliver(p) {
				c.stepDone()
				did = true
			}
			if c.row.Abort == "" && c.doRevoke(p) {
				c.stepDone()
				did = true
			}
		}
		if !did {
			return
		}
	}
}

func vptRun(t *testing.T, r *vrng, ci int, ty vptType, kind string,
	steps int) *vptRow {

	row := &vptRow{Stage: "lnwallet", Case: ci, Seed: vSeed(), Kind: kind,
		ChanType: ty.name, Ops: []string{}, Events: []vptEvent{}}
	var a, b *LightningChannel
	err := vptSafe(func() error {
		var err error
		a, b, err = CreateTestChannels(t, ty.bits)
		return err
	})
	if err != nil {
		row.Abort = "create:" + err.Error()
		return row
	}
	c := &vptCtx{t: t, r: r, ch: [2]*LightningChannel{a, b}, row: row}
	row.Roots = [2]string{vptRoot(a.channelState), vptRoot(b.channelState)}
	// channel_ready as funding.sendChannelReady builds it (height 0):
	// CreateTestChannels has exchanged exactly these points
	for p := 0; p < 2; p++ {
		e := vptEvent{Party: vptNames[p], Slot: "channel_ready",
			Src: "funding_next_rev_key", Sent: true}
		pt, err := c.ch[p].NextRevocationKey()
		if err != nil {
			e.Err = err.Error()
		} else {
			e.Point = hex.EncodeToString(pt.SerializeCompressed())
		}
		c.ev(e)
	}
	c.probeAll()
	switch kind {
	case "systematic":
		// k full dances, a restart after EVERY single step (so every
		// message is lost once and every retransmission path runs)
		for d := 0; d < steps && row.Abort == ""; d++ {
			p := d % 2
			seq := []func() bool{
				func() bool { return c.doSign(p) },
				func() bool { return c.doDeliver(1 - p) },
				func() bool { return c.doRevoke(1 - p) },
				func() bool { return c.doDeliver(p) },
			}
			for cut := 0; cut <= len(seq) && row.Abort == ""; cut++ {
				for i := 0; i < cut && row.Abort == ""; i++ {
					if seq[i]() {
						c.stepDone()
					}
				}
				if cut < len(seq) && row.Abort == "" {
					if c.doRestart() {
						c.stepDone()
					}
					c.pump()
				}
			}
			c.pump()
		}
	default:
		for i := 0; i < steps && row.Abort == ""; i++ {
			p := r.intn(2)
			var did bool
			switch x := r.intn(100); {
			case x < 12:
				did = c.doRestart()
			case x < 40:
				did = c.doSign(p) || c.doSign(1-p)
			case x < 70:
				did = c.doDeliver(p) || c.doDeliver(1-p)
			default:
				did = c.doRevoke(p) || c.doRevoke(1-p) ||
					c.doDeliver(p) || c.doDeliver(1-p) ||
					c.doSign(p)
			}
			if did {
				c.stepDone()
			}
		}
		if row.Abort == "" && r.bool() {
			c.pump()
		}
		if row.Abort == "" && c.doRestart() {
			c.stepDone()
			c.pump()
		}
	}
	for p := 0; p < 2; p++ {
		if db, err := c.fetch(p); err == nil {
			row.FinalH[p] = db.LocalCommitment.CommitHeight
		}
	}
	return row
}

func TestVerifPoints(t *testing.T) {
	out := vOpenOut()
	defer out.close()
	root := vNewRng(vSeed())
	n := vCases(30, 600)
	first := int(vEnvInt("VERIF_FIRST_CASE", 0))
	ci := 0
	// systematic: one per channel type, 3 dances (heights 0..3)
	for ti, ty := range vptTypes {
		if ci >= first && ci < first+n {
			out.emit(vptRun(t, root.fork(uint64(ci)), ci, ty,
				"systematic", 3+ti%2))
		}
		ci++
	}
	for ; ci < first+n; ci++ {
		if ci < first {
			continue
		}
		r := root.fork(uint64(ci))
		ty := vptTypes[r.intn(len(vptTypes))]
		steps := 8 + r.intn(40)
		if r.intn(6) == 0 {
			steps = 60 + r.intn(80)
		}
		out.emit(vptRun(t, r, ci, ty, "random", steps))
	}
}
