//go:build verif

package lnwallet

// C01 / C02 / C03 / C06b correspondence harness (see
// /verif/notes/chan_trace_format.md).  Two REAL LightningChannels made by
// CreateTestChannels are driven through a seeded schedule of API calls and
// message deliveries.  The harness owns the two FIFO queues of wire messages,
// so the interleaving is exactly the generated one.  Real signatures are
// produced and verified by the real code on every sign / deliver-sig.  One JSON
// object per schedule is written to VERIF_OUT.
//
// Every identifier defined here is prefixed vch/vCh.

import (
	"bytes"
	"crypto/sha256"
	"encoding/binary"
	"encoding/json"
	"errors"
	"fmt"
	"net"
	"os"
	"path/filepath"
	"reflect"
	"regexp"
	"sort"
	"strings"
	"sync"
	"testing"
	"time"

	"github.com/btcsuite/btcd/btcutil/v2"
	"github.com/btcsuite/btcd/chainhash/v2"
	"github.com/btcsuite/btcwallet/walletdb"
	"github.com/lightningnetwork/lnd/channeldb"
	"github.com/lightningnetwork/lnd/chanstate"
	"github.com/lightningnetwork/lnd/clock"
	"github.com/lightningnetwork/lnd/fn/v2"
	"github.com/lightningnetwork/lnd/input"
	"github.com/lightningnetwork/lnd/keychain"
	"github.com/lightningnetwork/lnd/kvdb"
	"github.com/lightningnetwork/lnd/lnwallet/chainfee"
	"github.com/lightningnetwork/lnd/lnwire"
	"github.com/lightningnetwork/lnd/tlv"
)

type vchType struct {
	name string
	ct   channeldb.ChannelType
}

var vchTypes = []vchType{
	{"legacy", channeldb.SingleFunderBit},
	{"tweakless", channeldb.SingleFunderTweaklessBit},
	{"anchors", channeldb.SingleFunderTweaklessBit |
		channeldb.AnchorOutputsBit},
	{"zerofee", channeldb.SingleFunderTweaklessBit |
		channeldb.AnchorOutputsBit | channeldb.ZeroHtlcTxFeeBit},
	{"lease", channeldb.SingleFunderTweaklessBit |
		channeldb.AnchorOutputsBit | channeldb.ZeroHtlcTxFeeBit |
		channeldb.LeaseExpirationBit},
	{"taproot", channeldb.SingleFunderTweaklessBit |
		channeldb.AnchorOutputsBit | channeldb.ZeroHtlcTxFeeBit |
		channeldb.SimpleTaprootFeatureBit},
	{"taproot_final", channeldb.SingleFunderTweaklessBit |
		channeldb.AnchorOutputsBit | channeldb.ZeroHtlcTxFeeBit |
		channeldb.SimpleTaprootFeatureBit | channeldb.TaprootFinalBit},
}

var vchNames = [2]string{"a", "b"}

// vchCtx is the state of one schedule.
type vchCtx struct {
	r       *vrng
	ct      channeldb.ChannelType
	ch      [2]*LightningChannel
	q       [2][]lnwire.Message // q[i]: messages travelling TOWARDS party i
	chanID  lnwire.ChannelID
	hashID  map[[32]byte]int64
	nHash   int64
	adds    [][3]int64 // (amt, expiry, hash_id) of earlier adds, for duplicates
	steps   []map[string]any
	prev    [2]map[string]any // last emitted dump per party (for "=" compression)
	prevHL  [2]map[string]any // last emitted height-log dump per party (key "hl")
	abort   string
	crash   bool
	cut     bool
	freeRev bool
	// noFreshFee (VERIF_CHAN_NO_FRESH_FEE=1): no update_fee while the opener
	// has never revoked (avoids the known lnd defect
	// corpus/chan/fresh_fee_restart.json).
	noFreshFee bool
	noFee      bool // VERIF_CHAN_FEE=0: no update_fee in the main stream

	// side writers (VERIF_SIDE): per party a SECOND OpenChannel instance of
	// the same channel, fetched / refreshed at an earlier step and therefore
	// stale, on which the metadata writers of lnd's other subsystems are
	// invoked while the state machine keeps running on the live instance.
	sideOn    bool
	side      [2]*chanstate.OpenChannel
	sideStamp [2]uint64
	nSign     int

	// write-level crashes (VERIF_CRASHIN): every party's channel DB sits on
	// a vchStopDB; backend = "bbolt" | "sqlite" is the kvdb backend below it.
	db      [2]*vchStopDB
	backend string
	crashIn bool
	maxTx   map[string]int // most transactions one call of a kind committed

	// forwarding-package references (refsOn): like the link, every settle /
	// fail of an incoming HTLC names the Add it answers (sourceRef: height +
	// index inside the fwd pkg ReceiveRevocation returned when the Add was
	// locked in) and the place the response came from (destRef: an entry of a
	// package of a second, dummy channel kept in the same DB).
	probed  bool // a liveprobe ran: nothing may follow
	refsOn  bool
	addRef  [2]map[uint64]channeldb.AddRef // incoming HTLC index -> its Add
	destIdx [2]map[uint64]uint16           // incoming HTLC index -> dest entry
	nDest   [2]uint16
}

// vchDestChan is the dummy "other channel" whose forwarding package (height
// vchDestHeight, vchDestSlots settle/fail entries, no adds) the destRefs of all
// responses point into; each party's DB has its own copy.
var vchDestChan = lnwire.NewShortChanIDFromInt(0x0dead0000001)

const (
	vchDestHeight = 1
	vchDestSlots  = 160
)

// vchInner returns the real kvdb backend below a channel's DB (bypassing the
// counting wrapper).
func vchInner(cs *chanstate.OpenChannel) kvdb.Backend {
	db, ok := cs.Db.(*channeldb.ChannelStateDB)
	if !ok {
		return nil
	}
	b := db.GetParentDB().Backend
	if w, ok := b.(*vchStopDB); ok {
		return w.Backend
	}
	return b
}

func vchMakeDestPkg(cs *chanstate.OpenChannel) error {
	sfs := make([]channeldb.LogUpdate, vchDestSlots)
	for i := range sfs {
		sfs[i] = channeldb.LogUpdate{LogIndex: uint64(i),
			UpdateMsg: &lnwire.UpdateFulfillHTLC{ID: uint64(i)}}
	}
	pkg := channeldb.NewFwdPkg(vchDestChan, vchDestHeight, nil, sfs)
	return kvdb.Update(vchInner(cs), func(tx kvdb.RwTx) error {
		return channeldb.NewChannelPackager(vchDestChan).AddFwdPkg(tx, pkg)
	}, func() {})
}

// noteFwdPkg records where the Adds of a forwarding package live.
func (c *vchCtx) noteFwdPkg(p int, pkg *channeldb.FwdPkg) {
	if !c.refsOn || pkg == nil {
		return
	}
	for i, u := range pkg.Adds {
		if add, ok := u.UpdateMsg.(*lnwire.UpdateAddHTLC); ok {
			c.addRef[p][add.ID] = channeldb.AddRef{
				Height: pkg.Height, Index: uint16(i),
			}
		}
	}
}

// loadRefs rebuilds p's Add references from the persisted forwarding packages
// (what a restarted link does).
func (c *vchCtx) loadRefs(p int) {
	if !c.refsOn {
		return
	}
	c.addRef[p] = map[uint64]channeldb.AddRef{}
	pkgs, err := c.ch[p].channelState.LoadFwdPkgs()
	if err != nil {
		return
	}
	for _, pkg := range pkgs {
		c.noteFwdPkg(p, pkg)
	}
}

// refsFor: the references p's link hands to SettleHTLC / FailHTLC for the
// incoming HTLC idx (nil when unknown / out of dest slots).
func (c *vchCtx) refsFor(p int, idx uint64) (*channeldb.AddRef,
	*channeldb.SettleFailRef) {

	if !c.refsOn {
		return nil, nil
	}
	var src *channeldb.AddRef
	if r, ok := c.addRef[p][idx]; ok {
		src = &r
	}
	j, ok := c.destIdx[p][idx]
	if !ok {
		if c.nDest[p] >= vchDestSlots {
			return src, nil
		}
		j = c.nDest[p]
		c.nDest[p]++
		c.destIdx[p][idx] = j
	}
	return src, &channeldb.SettleFailRef{
		Source: vchDestChan, Height: vchDestHeight, Index: j,
	}
}

// ---------------------------------------------------------------------------
// kvdb backend under the channel DBs

var errVchStop = errors.New("vch: crash point reached")

// vchSqliteOpen is set by verif_chan_sqlite_test.go (build tag kvdb_sqlite).
var vchSqliteOpen func(dir string) (kvdb.Backend, error)

// vchStopDB wraps the real kvdb backend of ONE party's channel DB.  It counts
// the read-write transactions that commit and, when armed with limit = n, lets
// exactly n more of them commit: every later one fails with errVchStop and
// leaves the database untouched (the process "died" right after the n-th
// commit) - either refused before it starts or (rollback mode: the node dies
// while the transaction is open) its closure runs against the real backend and
// the backend has to ROLL the whole transaction BACK.  Reads go straight through.
type vchStopDB struct {
	kvdb.Backend

	mu        sync.Mutex
	count     int  // Update transactions committed since begin()
	committed int  // Update transactions committed since arm()
	refused   int  // Update transactions refused / rolled back since arm()
	rolled    int  // ... of which were executed and rolled back
	limit     int  // -1: unlimited
	rollback  bool // refuse by executing + rolling back
	rawTx     int  // BeginReadWriteTx calls (not expected from the state machine)

	// RETRY mode (kvdb contract: the closure of Update / View may be executed
	// several times, reset is called before every execution, only the last
	// execution counts - what the SQL backends do after a serialization
	// failure): every read-write transaction that is going to commit is first
	// executed 1-2 times against the real backend and ROLLED BACK (reset runs
	// before each execution), then executed once more and committed; every
	// View closure is executed twice.
	retry   bool
	txSeq   uint64 // transactions seen (chooses 1 or 2 forced retries)
	retried int    // forced retries since begin()
}

var errVchRetry = errors.New("vch: forced transaction retry")

// forceRetries executes f against the real backend and rolls it back, once or
// twice.  A closure error other than the sentinel is returned (the real
// execution would fail the same way).
func (d *vchStopDB) forceRetries(f func(tx walletdb.ReadWriteTx) error,
	reset func()) error {

	d.txSeq++
	n := 1
	if d.txSeq%3 == 0 {
		n = 2
	}
	for i := 0; i < n; i++ {
		err := d.Backend.Update(func(tx walletdb.ReadWriteTx) error {
			if err := f(tx); err != nil {
				return err
			}
			return errVchRetry
		}, reset)
		if err == nil {
			panic("vch: a transaction that returned an error committed")
		}
		if !errors.Is(err, errVchRetry) &&
			!strings.Contains(err.Error(), errVchRetry.Error()) {

			return err
		}
		d.retried++
	}
	return nil
}

func (d *vchStopDB) View(f func(tx walletdb.ReadTx) error, reset func()) error {
	d.mu.Lock()
	retry := d.retry
	d.mu.Unlock()
	if retry {
		if err := d.Backend.View(f, reset); err != nil {
			return err
		}
	}
	return d.Backend.View(f, reset)
}

func (d *vchStopDB) Update(f func(tx walletdb.ReadWriteTx) error,
	reset func()) error {

	d.mu.Lock()
	defer d.mu.Unlock()
	if d.limit >= 0 && d.committed >= d.limit {
		d.refused++
		if !d.rollback {
			return errVchStop
		}
		d.rolled++
		err := d.Backend.Update(func(tx walletdb.ReadWriteTx) error {
			if err := f(tx); err != nil {
				return err
			}
			return errVchStop
		}, reset)
		if err == nil {
			panic("vch: a transaction that returned an error committed")
		}
		if !errors.Is(err, errVchStop) &&
			!strings.Contains(err.Error(), errVchStop.Error()) {

			return fmt.Errorf("%w (closure: %v)", errVchStop, err)
		}
		return err
	}
	if d.retry {
		if err := d.forceRetries(f, reset); err != nil {
			return err
		}
	}
	err := d.Backend.Update(f, reset)
	if err == nil {
		d.committed++
		d.count++
	}
	return err
}

func (d *vchStopDB) BeginReadWriteTx() (walletdb.ReadWriteTx, error) {
	d.mu.Lock()
	defer d.mu.Unlock()
	d.rawTx++
	if d.limit >= 0 {
		d.refused++
		return nil, errVchStop
	}
	return d.Backend.BeginReadWriteTx()
}

// arm: from now on only n more read-write transactions commit (n < 0: all).
func (d *vchStopDB) arm(n int, rollback bool) {
	d.mu.Lock()
	d.committed, d.refused, d.rolled, d.limit = 0, 0, 0, n
	d.rollback = rollback
	d.mu.Unlock()
}

// disarm lifts the limit and returns (committed, refused, rolled back) since
// arm().
func (d *vchStopDB) disarm() (int, int, int) {
	d.mu.Lock()
	defer d.mu.Unlock()
	d.limit = -1
	return d.committed, d.refused, d.rolled
}

// begin / end count the transactions committed in between.
func (d *vchStopDB) begin() {
	d.mu.Lock()
	d.count, d.retried = 0, 0
	d.mu.Unlock()
}

func (d *vchStopDB) endRetried() int {
	d.mu.Lock()
	defer d.mu.Unlock()
	return d.retried
}

func (d *vchStopDB) end() int {
	d.mu.Lock()
	defer d.mu.Unlock()
	return d.count
}

// vchMigrate moves the freshly created channel of lc (CreateTestChannels opens
// bbolt through channeldb.OpenForTesting) onto a channel DB of its own that
// lives on the chosen kvdb backend wrapped in a vchStopDB: the complete channel
// state is written by the same full sync CreateTestChannels itself uses
// (SyncPending -> SyncPendingChannel -> fullSyncOpenChannel), every later
// read / write of the channel goes to the new DB.
func vchMigrate(t *testing.T, lc *LightningChannel, backend string,
	port int, mods ...channeldb.OptionModifier) (*vchStopDB, error) {

	dir := t.TempDir()
	var (
		inner kvdb.Backend
		err   error
	)
	switch {
	case backend == "sqlite" && vchSqliteOpen == nil:
		err = errors.New("vch: built without verif_chan_sqlite_test.go " +
			"/ the kvdb_sqlite tag")
	case backend == "sqlite":
		inner, err = vchSqliteOpen(dir)
	default:
		inner, err = kvdb.GetBoltBackend(&kvdb.BoltBackendConfig{
			DBPath: dir, DBFileName: "channel.db",
			NoFreelistSync: true, AutoCompact: false,
			AutoCompactMinAge: kvdb.DefaultBoltAutoCompactMinAge,
			DBTimeout:         kvdb.DefaultDBTimeout,
		})
	}
	if err != nil {
		return nil, err
	}
	stop := &vchStopDB{Backend: inner, limit: -1}
	db, err := channeldb.CreateWithBackend(stop, mods...)
	if err != nil {
		_ = inner.Close()
		return nil, err
	}
	t.Cleanup(func() { _ = db.Close() })
	lc.channelState.Db = db.ChannelStateDB()
	addr := &net.TCPAddr{IP: net.ParseIP("127.0.0.1"), Port: port}
	if err := lc.channelState.SyncPending(addr, 101); err != nil {
		return nil, err
	}
	return stop, nil
}

// ---------------------------------------------------------------------------
// error classes

var vchDigits = regexp.MustCompile(`[0-9a-f]{6,}|[0-9]+`)

func vchClass(err error) string {
	if err == nil {
		return "ok"
	}
	var (
		e1 *InvalidCommitSigError
		e2 *InvalidPartialCommitSigError
		e3 *InvalidHtlcSigError
		e4 ErrUnknownHtlcIndex
		e5 ErrHtlcIndexAlreadyFailed
		e6 ErrHtlcIndexAlreadySettled
		e7 ErrInvalidSettlePreimage
		e8 *ErrCommitSyncLocalDataLoss
	)
	s := err.Error()
	switch {
	case errors.Is(err, errVchStop), strings.Contains(s, errVchStop.Error()):
		return "crash_stop"
	case errors.Is(err, ErrNoWindow):
		return "no_window"
	case errors.Is(err, ErrBelowChanReserve):
		return "below_reserve"
	case errors.Is(err, ErrMaxHTLCNumber):
		return "max_htlcs"
	case errors.Is(err, ErrMaxPendingAmount):
		return "max_pending"
	case errors.Is(err, ErrBelowMinHTLC):
		return "below_min"
	case errors.Is(err, ErrInvalidHTLCAmt):
		return "invalid_amt"
	case errors.As(err, &e1), errors.As(err, &e2), errors.As(err, &e3),
		strings.Contains(s, "invalid partial sig"):
		// (VerifyCommitSig's invalidPartialSigError reaches the caller
		// unwrapped: errors.As in ReceiveNewCommitment targets the value
		// type.)
		return "sig_invalid"
	case errors.As(err, &e4):
		return "unknown_htlc"
	case errors.As(err, &e5), errors.As(err, &e6):
		return "dup_modify"
	case errors.As(err, &e7):
		return "other:invalid_preimage"
	case errors.As(err, &e8), errors.Is(err, ErrCommitSyncRemoteDataLoss):
		return "data_loss"
	case errors.Is(err, ErrCannotSyncCommitChains),
		errors.Is(err, ErrInvalidLastCommitSecret),
		errors.Is(err, ErrInvalidLocalUnrevokedCommitPoint):
		return "commit_sync"
	case strings.Contains(s, "fee update as non-initiator"),
		strings.Contains(s, "fee update as initiator"):
		return "fee_not_initiator"
	case strings.Contains(s, "below fee floor"):
		return "fee_floor"
	case strings.Contains(s, "cannot apply fee_update"):
		return "other:fee_exceeds_balance"
	}
	if len(s) > 90 {
		s = s[:90]
	}
	return "other:" + vchDigits.ReplaceAllString(s, "#")
}

// vchSafe runs f and turns a panic of the code under test into an error
// class; the case is aborted by the caller.
func vchSafe(f func() error) (res string) {
	defer func() {
		if p := recover(); p != nil {
			s := fmt.Sprint(p)
			if len(s) > 120 {
				s = s[:120]
			}
			res = "panic:" + vchDigits.ReplaceAllString(s, "#")
		}
	}()
	return vchClass(f())
}

// ---------------------------------------------------------------------------
// dumps

func (c *vchCtx) hid(h [32]byte) int64 {
	if v, ok := c.hashID[h]; ok {
		return v
	}
	return -1
}

func vchPreimage(hid int64) (pre [32]byte, hash [32]byte) {
	var b [20]byte
	copy(b[:], "vch-preimage")
	binary.LittleEndian.PutUint64(b[12:], uint64(hid))
	pre = sha256.Sum256(b[:])
	hash = sha256.Sum256(pre[:])
	return
}

func (c *vchCtx) commitDump(cm *commitment, local bool) map[string]any {
	htlcs := make([][]int64, 0, len(cm.outgoingHTLCs)+len(cm.incomingHTLCs))
	one := func(pds []paymentDescriptor, incoming int64) {
		s := make([]*paymentDescriptor, 0, len(pds))
		for i := range pds {
			s = append(s, &pds[i])
		}
		sort.SliceStable(s, func(i, j int) bool {
			return s[i].HtlcIndex < s[j].HtlcIndex
		})
		for _, pd := range s {
			oi := pd.remoteOutputIndex
			if local {
				oi = pd.localOutputIndex
			}
			on := int64(0)
			if oi >= 0 {
				on = 1
			}
			htlcs = append(htlcs, []int64{
				incoming, int64(pd.Amount), int64(pd.HtlcIndex),
				int64(pd.Timeout), c.hid(pd.RHash), on,
			})
		}
	}
	one(cm.outgoingHTLCs, 0)
	one(cm.incomingHTLCs, 1)
	var outs int64
	nOut := 0
	if cm.txn != nil {
		for _, o := range cm.txn.TxOut {
			outs += o.Value
		}
		nOut = len(cm.txn.TxOut)
	}
	return map[string]any{
		"h": cm.height, "ours": cm.messageIndices.Local,
		"theirs":  cm.messageIndices.Remote,
		"our_bal": uint64(cm.ourBalance), "their_bal": uint64(cm.theirBalance),
		"fee": int64(cm.fee), "fee_per_kw": int64(cm.feePerKw),
		"htlcs": htlcs, "outs": outs, "n_out": nOut,
	}
}

func (c *vchCtx) partyDump(lc *LightningChannel) map[string]any {
	d := map[string]any{}
	lch, rch := lc.commitChains.Local, lc.commitChains.Remote
	d["ltail"] = c.commitDump(lch.tail(), true)
	d["ltip"] = nil
	if lch.hasUnackedCommitment() {
		d["ltip"] = c.commitDump(lch.tip(), true)
	}
	d["rtail"] = c.commitDump(rch.tail(), false)
	d["rtip"] = nil
	if rch.hasUnackedCommitment() {
		d["rtip"] = c.commitDump(rch.tip(), false)
	}
	d["own_idx"] = lc.updateLogs.Local.logIndex
	d["own_htlc"] = lc.updateLogs.Local.htlcCounter
	d["peer_idx"] = lc.updateLogs.Remote.logIndex
	d["peer_htlc"] = lc.updateLogs.Remote.htlcCounter
	disk := map[string]any{
		"local_h":          lc.channelState.LocalCommitment.CommitHeight,
		"remote_h":         lc.channelState.RemoteCommitment.CommitHeight,
		"pending_remote_h": nil,
	}
	if diff, err := lc.channelState.RemoteCommitChainTip(); err == nil {
		disk["pending_remote_h"] = diff.Commitment.CommitHeight
	} else if !errors.Is(err, channeldb.ErrNoPendingCommit) {
		disk["pending_remote_h"] = "err:" + vchClass(err)
	}
	d["disk"] = disk
	d["revstate"] = vchRevState(lc.channelState)
	// The fee rate of a view is the LAST FeeUpdate of the opener's log in
	// list order: record whether list order agrees with log-index order.
	d["own_fee_sorted"] = vchFeeSorted(lc.updateLogs.Local)
	d["peer_fee_sorted"] = vchFeeSorted(lc.updateLogs.Remote)
	if vchDebug {
		d["own_log"] = vchLogDump(lc.updateLogs.Local)
		d["peer_log"] = vchLogDump(lc.updateLogs.Remote)
	}
	return d
}

// diskX reads the persisted side tables of the channel that NewLightningChannel
// / the link consume after a restart (only put into RELOAD dumps, key "diskx"):
// which of the heights remote_h-1, remote_h, remote_h+1 have a revocation-log
// entry, the forwarding packages [height, #adds, #settle/fails, state, set bits
// of the AckFilter, set bits of the SettleFailFilter] of the channel ("fwdpkgs")
// and of the dummy destination channel ("destpkgs"), and the
// log indexes of the persisted unsignedAckedUpdates / remoteUnsignedLocalUpdates.
func vchDiskX(cs *chanstate.OpenChannel) map[string]any {
	out := map[string]any{}
	revlog := []uint64{}
	rh := cs.RemoteCommitment.CommitHeight
	for _, h := range []uint64{rh - 1, rh, rh + 1} {
		if h == ^uint64(0) {
			continue
		}
		if _, _, err := cs.FindPreviousState(h); err == nil {
			revlog = append(revlog, h)
		} else if !errors.Is(err, channeldb.ErrLogEntryNotFound) &&
			!errors.Is(err, channeldb.ErrNoPastDeltas) {

			out["revlog_err"] = vchClass(err)
		}
	}
	out["revlog"] = revlog
	bits := func(f *channeldb.PkgFilter) []uint16 {
		l := []uint16{}
		if f != nil {
			for i := uint16(0); i < f.Count(); i++ {
				if f.Contains(i) {
					l = append(l, i)
				}
			}
		}
		return l
	}
	dumpPkgs := func(fp []*channeldb.FwdPkg) [][]any {
		pkgs := [][]any{}
		sort.Slice(fp, func(i, j int) bool {
			return fp[i].Height < fp[j].Height
		})
		for _, f := range fp {
			pkgs = append(pkgs, []any{f.Height, len(f.Adds),
				len(f.SettleFails), int(f.State), bits(f.AckFilter),
				bits(f.SettleFailFilter)})
		}
		return pkgs
	}
	fp, err := cs.LoadFwdPkgs()
	if err != nil {
		out["fwdpkgs_err"] = vchClass(err)
	}
	out["fwdpkgs"] = dumpPkgs(fp)
	if inner := vchInner(cs); inner != nil {
		var dp []*channeldb.FwdPkg
		err := kvdb.View(inner, func(tx kvdb.RTx) error {
			var err error
			dp, err = channeldb.NewChannelPackager(vchDestChan).
				LoadFwdPkgs(tx)
			return err
		}, func() { dp = nil })
		if err != nil {
			out["destpkgs_err"] = vchClass(err)
		}
		out["destpkgs"] = dumpPkgs(dp)
	}
	idx := func(us []channeldb.LogUpdate, err error) any {
		if err != nil {
			return "err:" + vchClass(err)
		}
		l := make([]uint64, 0, len(us))
		for _, u := range us {
			l = append(l, u.LogIndex)
		}
		return l
	}
	out["lwr"] = cs.LastWasRevoke
	out["unsigned_acked"] = idx(cs.UnsignedAckedUpdates())
	out["remote_unsigned"] = idx(cs.RemoteUnsignedLocalUpdates())
	return out
}

// reloadDump: party dump of a channel object just restored from disk, plus the
// side tables.
func (c *vchCtx) reloadDump(lc *LightningChannel) map[string]any {
	d := c.partyDump(lc)
	d["diskx"] = vchDiskX(lc.channelState)
	d["params"] = vchParams(lc.channelState)
	return d
}

// vchParams dumps the channel PARAMETERS of an OpenChannel: every persisted
// field that is fixed when the channel is funded and that commitment
// construction / verification, the scripts or the resync read back after a
// restart (not the fields the side writers change: IsPending, confirmation
// heights, confirmed scid, status).  Row key "init_params" (live objects, after
// the channels were moved onto their DBs) and key "params" of every reload dump.
func vchParams(cs *chanstate.OpenChannel) map[string]any {
	hexs := func(b []byte) string { return fmt.Sprintf("%x", b) }
	key := func(k keychain.KeyDescriptor) any {
		pk := ""
		if k.PubKey != nil {
			pk = hexs(k.PubKey.SerializeCompressed())
		}
		return []any{pk, uint32(k.Family), k.Index}
	}
	cfg := func(c *channeldb.ChannelConfig) map[string]any {
		return map[string]any{
			"dust": int64(c.DustLimit), "csv": c.CsvDelay,
			"reserve": int64(c.ChanReserve), "min_htlc": uint64(c.MinHTLC),
			"max_pending": uint64(c.MaxPendingAmount),
			"max_htlcs":   c.MaxAcceptedHtlcs,
			"multisig":    key(c.MultiSigKey),
			"revocation":  key(c.RevocationBasePoint),
			"payment":     key(c.PaymentBasePoint),
			"delay":       key(c.DelayBasePoint),
			"htlc":        key(c.HtlcBasePoint),
		}
	}
	out := map[string]any{
		// (ScidAliasFeatureBit is set later by MarkScidAliasNegotiated, one
		// of the side writers: masked)
		"chan_type": uint64(cs.ChanType &^ channeldb.ScidAliasFeatureBit),
		"chain_hash": cs.ChainHash.String(),
		"funding_outpoint": cs.FundingOutpoint.String(),
		"scid":             cs.ShortChannelID.ToUint64(),
		"is_initiator":     cs.IsInitiator,
		"funding_broadcast_height": cs.FundingBroadcastHeight,
		"num_confs":                cs.NumConfsRequired,
		"channel_flags":            uint8(cs.ChannelFlags),
		"capacity":                 int64(cs.Capacity),
		"initial_local_balance":    uint64(cs.InitialLocalBalance),
		"initial_remote_balance":   uint64(cs.InitialRemoteBalance),
		"local_cfg":                cfg(&cs.LocalChanCfg),
		"remote_cfg":               cfg(&cs.RemoteChanCfg),
		"local_shutdown_script":    hexs(cs.LocalShutdownScript),
		"remote_shutdown_script":   hexs(cs.RemoteShutdownScript),
		"thaw_height":              cs.ThawHeight,
		"revocation_key_locator": []uint32{
			uint32(cs.RevocationKeyLocator.Family),
			cs.RevocationKeyLocator.Index,
		},
		"memo": hexs(cs.Memo), "tapscript_root": nil, "custom_blob": nil,
		"identity_pub": "",
	}
	if cs.IdentityPub != nil {
		out["identity_pub"] = hexs(cs.IdentityPub.SerializeCompressed())
	}
	cs.TapscriptRoot.WhenSome(func(h chainhash.Hash) {
		out["tapscript_root"] = h.String()
	})
	cs.CustomBlob.WhenSome(func(b tlv.Blob) {
		out["custom_blob"] = hexs(b)
	})
	return out
}

// vchSetParams gives the freshly created pair non-default values (drawn from
// the case's seed) for the persisted parameters the stock fixture leaves at
// their zero / uniform values, consistently on both sides (a's Local* = b's
// Remote*).  Called BEFORE the channels are moved onto their DBs, so the full
// sync persists them the way funding does.  Not varied: which side is the
// initiator (the fixture's height-0 commitments are built for alice), keys,
// capacity, CustomBlob (consumed by the aux components).
func vchSetParams(r *vrng, a, b *LightningChannel) {
	as, bs := a.channelState, b.channelState
	two := func(lo, hi int64) (int64, int64) {
		x := r.rng(lo, hi)
		y := r.rng(lo, hi-1)
		if y >= x {
			y++
		}
		return x, y
	}
	set := func(f func(ac, bc *channeldb.ChannelConfig)) {
		f(&as.LocalChanCfg, &bs.LocalChanCfg)
		as.RemoteChanCfg.ChannelStateBounds = bs.LocalChanCfg.ChannelStateBounds
		as.RemoteChanCfg.CommitmentParams = bs.LocalChanCfg.CommitmentParams
		bs.RemoteChanCfg.ChannelStateBounds = as.LocalChanCfg.ChannelStateBounds
		bs.RemoteChanCfg.CommitmentParams = as.LocalChanCfg.CommitmentParams
	}
	capSat := int64(as.Capacity)
	set(func(ac, bc *channeldb.ChannelConfig) {
		x, y := two(3, 300)
		ac.CsvDelay, bc.CsvDelay = uint16(x), uint16(y)
		x, y = two(200, 1500)
		ac.DustLimit, bc.DustLimit = btcutil.Amount(x), btcutil.Amount(y)
		x, y = two(capSat/100, capSat/100+capSat/200)
		ac.ChanReserve, bc.ChanReserve = btcutil.Amount(x), btcutil.Amount(y)
		x, y = two(1, 2)
		ac.MinHTLC, bc.MinHTLC = lnwire.MilliSatoshi(x), lnwire.MilliSatoshi(y)
		x, y = two(capSat*1000-1_000_000, capSat*1000)
		ac.MaxPendingAmount = lnwire.MilliSatoshi(x)
		bc.MaxPendingAmount = lnwire.MilliSatoshi(y)
		x, y = two(380, int64(input.MaxHTLCNumber/2))
		ac.MaxAcceptedHtlcs, bc.MaxAcceptedHtlcs = uint16(x), uint16(y)
	})
	// channel type: zero-conf / scid-alias bits (inert for commitments) on a
	// third of the cases; FrozenBit on a quarter of the non-lease ones
	ct := as.ChanType
	if r.intn(3) == 0 {
		ct |= channeldb.ZeroConfBit | channeldb.ScidAliasChanBit
	}
	if !ct.HasLeaseExpiration() && r.intn(4) == 0 {
		ct |= channeldb.FrozenBit
	}
	as.ChanType, bs.ChanType = ct, ct
	if ct.HasLeaseExpiration() || ct.IsFrozen() {
		th := uint32(r.rng(400_000, 900_000))
		as.ThawHeight, bs.ThawHeight = th, th
	}
	scid := lnwire.NewShortChanIDFromInt(uint64(r.rng(500_000, 800_000))<<40 |
		uint64(r.rng(1, 3000))<<16 | uint64(r.rng(0, 3)))
	as.ShortChannelID, bs.ShortChannelID = scid, scid
	fl := lnwire.FundingFlag(0)
	if r.bool() {
		fl = lnwire.FFAnnounceChannel
	}
	as.ChannelFlags, bs.ChannelFlags = fl, fl
	nc := uint16(r.rng(1, 6))
	as.NumConfsRequired, bs.NumConfsRequired = nc, nc
	as.InitialLocalBalance = as.LocalCommitment.LocalBalance
	as.InitialRemoteBalance = as.LocalCommitment.RemoteBalance
	bs.InitialLocalBalance = bs.LocalCommitment.LocalBalance
	bs.InitialRemoteBalance = bs.LocalCommitment.RemoteBalance
	as.RevocationKeyLocator = keychain.KeyLocator{
		Family: keychain.KeyFamily(r.rng(1, 9)), Index: uint32(r.rng(1, 1<<20))}
	bs.RevocationKeyLocator = keychain.KeyLocator{
		Family: keychain.KeyFamily(r.rng(1, 9)), Index: uint32(r.rng(1, 1<<20))}
	as.Memo = r.bytes(1 + r.intn(24))
	bs.Memo = r.bytes(1 + r.intn(24))
	script := func() lnwire.DeliveryAddress {
		return append([]byte{0x00, 0x14}, r.bytes(20)...)
	}
	sa, sb := script(), script()
	as.LocalShutdownScript, bs.RemoteShutdownScript = sa, sa
	bs.LocalShutdownScript, as.RemoteShutdownScript = sb, sb
}

// vchRevState: what the channel knows of the peer's revocation chain: can the
// store reproduce the secret of the last revoked remote height, and short
// fingerprints of RemoteCurrentRevocation / RemoteNextRevocation.
func vchRevState(cs *chanstate.OpenChannel) map[string]any {
	fp := func(k interface{ SerializeCompressed() []byte }) any {
		return fmt.Sprintf("%x", k.SerializeCompressed()[:7])
	}
	out := map[string]any{"store_ok": true, "cur": nil, "next": nil}
	if h := cs.RemoteCommitment.CommitHeight; h > 0 {
		_, err := cs.RevocationStore.LookUp(h - 1)
		out["store_ok"] = err == nil
	}
	if cs.RemoteCurrentRevocation != nil {
		out["cur"] = fp(cs.RemoteCurrentRevocation)
	}
	if cs.RemoteNextRevocation != nil {
		out["next"] = fp(cs.RemoteNextRevocation)
	}
	return out
}

func vchFeeSorted(u *updateLog) bool {
	last, have := uint64(0), false
	for e := u.Front(); e != nil; e = e.Next() {
		if e.Value.EntryType != FeeUpdate {
			continue
		}
		if have && e.Value.LogIndex <= last {
			return false
		}
		last, have = e.Value.LogIndex, true
	}
	return true
}

var vchDebug = os.Getenv("VERIF_CHAN_DEBUG") != ""

// vchLogDump (VERIF_CHAN_DEBUG=1 only): [entry type, log index, htlc index,
// parent index, amount, addHeight local, remote, removeHeight local, remote].
func vchLogDump(u *updateLog) [][]uint64 {
	out := [][]uint64{}
	for e := u.Front(); e != nil; e = e.Next() {
		pd := e.Value
		out = append(out, []uint64{uint64(pd.EntryType), pd.LogIndex,
			pd.HtlcIndex, pd.ParentIndex, uint64(pd.Amount),
			pd.addCommitHeights.Local, pd.addCommitHeights.Remote,
			pd.removeCommitHeights.Local, pd.removeCommitHeights.Remote})
	}
	return out
}

// vchHL (work package C01view): the full update logs of one channel object in
// LIST order with the four commit heights of every entry (vchLogDump format).
// Emitted per step and party under the step key "hl" ("=" when unchanged), for
// the initial state under the row key "init_hl", and for every channel object
// restored from disk under extra.hl_reloaded / extra.hl_reload_before.
func vchHL(lc *LightningChannel) map[string]any {
	return map[string]any{
		"own":  vchLogDump(lc.updateLogs.Local),
		"peer": vchLogDump(lc.updateLogs.Remote),
	}
}

// record appends a step with the dumps of both parties.  A party whose dump
// is identical to its dump in the previous step is written as "=" (expanded
// again by props/chan_common.py).
func (c *vchCtx) record(op []any, res string, extra map[string]any) {
	st := map[string]any{"op": op, "res": res,
		"qa": len(c.q[0]), "qb": len(c.q[1])}
	if extra != nil {
		st["extra"] = extra
	}
	for i := 0; i < 2; i++ {
		var d map[string]any
		r := vchSafe(func() error {
			d = c.partyDump(c.ch[i])
			return nil
		})
		if r != "ok" {
			st[vchNames[i]] = map[string]any{"dump_failed": r}
			if c.abort == "" {
				c.abort = "dump:" + r
			}
			c.prev[i] = nil
			continue
		}
		if c.prev[i] != nil && reflect.DeepEqual(c.prev[i], d) {
			st[vchNames[i]] = "="
		} else {
			st[vchNames[i]] = d
			c.prev[i] = d
		}
	}
	hl := map[string]any{}
	for i := 0; i < 2; i++ {
		var d map[string]any
		if r := vchSafe(func() error {
			d = vchHL(c.ch[i])
			return nil
		}); r != "ok" {
			hl[vchNames[i]] = nil
			c.prevHL[i] = nil
			continue
		}
		if c.prevHL[i] != nil && reflect.DeepEqual(c.prevHL[i], d) {
			hl[vchNames[i]] = "="
		} else {
			hl[vchNames[i]] = d
			c.prevHL[i] = d
		}
	}
	st["hl"] = hl
	c.steps = append(c.steps, st)
}

// recordTerminal appends the terminal liveprobe step: the state of the probed
// objects is NOT observed (both party dumps and height logs are written as
// "=", i.e. "as before"): what a live resync leaves behind is not a state of a
// protocol-following schedule.
func (c *vchCtx) recordTerminal(op []any, res string, extra map[string]any) {
	c.steps = append(c.steps, map[string]any{"op": op, "res": res,
		"qa": len(c.q[0]), "qb": len(c.q[1]), "extra": extra,
		"a": "=", "b": "=", "hl": map[string]any{"a": "=", "b": "="}})
}

// ---------------------------------------------------------------------------
// state queries used by the generator

func (c *vchCtx) hasLtip(p int) bool {
	return c.ch[p].commitChains.Local.hasUnackedCommitment()
}

func (c *vchCtx) windowOpen(p int) bool {
	lc := c.ch[p]
	return !lc.commitChains.Remote.hasUnackedCommitment() &&
		lc.channelState.RemoteNextRevocation != nil
}

func (c *vchCtx) owes(p int) bool { return c.ch[p].OweCommitment() }

// canDeliver: the head of the queue towards p may be handed to p.  The link
// revokes right after ReceiveNewCommitment, hence it never processes a
// revocation while it holds an unrevoked received commitment; schedules follow
// that discipline unless VERIF_CHAN_FREE_REV=1 (see notes/chan_trace_format.md,
// Deviations).
func (c *vchCtx) canDeliver(p int) bool {
	if len(c.q[p]) == 0 {
		return false
	}
	return c.revOK(p, c.q[p][0])
}

func (c *vchCtx) revOK(p int, m lnwire.Message) bool {
	if _, isRev := m.(*lnwire.RevokeAndAck); isRev && !c.freeRev {
		return !c.hasLtip(p)
	}
	return true
}

// resolvable lists the HTLCs offered by the peer that are present in p's
// persisted local AND remote commitments and not yet resolved by p.
func (c *vchCtx) resolvable(p int) []uint64 {
	lc := c.ch[p]
	inRemote := map[uint64]bool{}
	for _, h := range lc.channelState.RemoteCommitment.Htlcs {
		if h.Incoming {
			inRemote[h.HtlcIndex] = true
		}
	}
	var out []uint64
	for _, h := range lc.channelState.LocalCommitment.Htlcs {
		if h.Incoming && inRemote[h.HtlcIndex] &&
			!lc.updateLogs.Remote.htlcHasModification(h.HtlcIndex) &&
			lc.updateLogs.Remote.lookupHtlc(h.HtlcIndex) != nil {

			out = append(out, h.HtlcIndex)
		}
	}
	sort.Slice(out, func(i, j int) bool { return out[i] < out[j] })
	return out
}

// modified lists HTLCs offered by the peer on which p has a pending
// modification (for the dup_modify malformed op).
func (c *vchCtx) modified(p int) []uint64 {
	lc := c.ch[p]
	var out []uint64
	for idx := range lc.updateLogs.Remote.htlcIndex {
		if lc.updateLogs.Remote.htlcHasModification(idx) {
			out = append(out, idx)
		}
	}
	sort.Slice(out, func(i, j int) bool { return out[i] < out[j] })
	return out
}

func (c *vchCtx) activeHtlcs(p int) int {
	lc := c.ch[p]
	return len(lc.updateLogs.Local.htlcIndex) +
		len(lc.updateLogs.Remote.htlcIndex)
}

// ---------------------------------------------------------------------------
// operations

func (c *vchCtx) send(to int, m lnwire.Message) { c.q[to] = append(c.q[to], m) }

// txBegin / txEnd count the read-write transactions p's channel DB commits
// during one state-machine call (extra.ntx); the per-kind maximum tells the
// generator how many crash points a call has.
func (c *vchCtx) txBegin(p int) {
	if c.db[p] != nil {
		c.db[p].begin()
	}
}

func (c *vchCtx) txEnd(p int, kind string, extra map[string]any) map[string]any {
	if c.db[p] == nil {
		return extra
	}
	n := c.db[p].end()
	if extra == nil {
		extra = map[string]any{}
	}
	extra["ntx"] = n
	if nr := c.db[p].endRetried(); nr > 0 {
		extra["nretry"] = nr
	}
	if c.maxTx != nil && n > c.maxTx[kind] {
		c.maxTx[kind] = n
	}
	return extra
}

func vchKind(m lnwire.Message) string {
	switch m.(type) {
	case *lnwire.UpdateAddHTLC:
		return "add"
	case *lnwire.UpdateFulfillHTLC:
		return "settle"
	case *lnwire.UpdateFailHTLC:
		return "fail"
	case *lnwire.UpdateFailMalformedHTLC:
		return "malformed"
	case *lnwire.UpdateFee:
		return "fee"
	case *lnwire.CommitSig:
		return "sig"
	case *lnwire.RevokeAndAck:
		return "rev"
	}
	return fmt.Sprintf("unknown:%T", m)
}

func (c *vchCtx) doAdd(p int, amt lnwire.MilliSatoshi, expiry uint32,
	hid int64, mal bool) string {

	_, hash := vchPreimage(hid)
	c.hashID[hash] = hid
	htlc := &lnwire.UpdateAddHTLC{
		ChanID: c.chanID, Amount: amt, Expiry: expiry, PaymentHash: hash,
	}
	var idx uint64
	res := vchSafe(func() error {
		var err error
		idx, err = c.ch[p].AddHTLC(htlc, nil)
		return err
	})
	var extra map[string]any
	if res == "ok" {
		htlc.ID = idx
		c.send(1-p, htlc)
		extra = map[string]any{"idx": idx}
		c.adds = append(c.adds, [3]int64{int64(amt), int64(expiry), hid})
	}
	if mal {
		if extra == nil {
			extra = map[string]any{}
		}
		extra["mal"] = 1
	}
	c.record([]any{"add", vchNames[p], uint64(amt), expiry, hid}, res, extra)
	if strings.HasPrefix(res, "panic:") {
		c.abort = "add:" + res
	}
	return res
}

// doResolve runs settle / fail / malformed by p on the peer's HTLC idx.
// badPre makes the settle use a wrong preimage (malformed stream).
func (c *vchCtx) doResolve(kind string, p int, idx uint64, mal,
	badPre bool) string {

	lc := c.ch[p]
	var msg lnwire.Message
	src, dest := c.refsFor(p, idx)
	res := vchSafe(func() error {
		switch kind {
		case "settle":
			var pre [32]byte
			if pd := lc.updateLogs.Remote.lookupHtlc(idx); pd != nil {
				pre, _ = vchPreimage(c.hid(pd.RHash))
			}
			if badPre {
				pre[0] ^= 1
			}
			msg = &lnwire.UpdateFulfillHTLC{
				ChanID: c.chanID, ID: idx, PaymentPreimage: pre,
			}
			return lc.SettleHTLC(pre, idx, src, dest, nil)
		case "fail":
			reason := []byte("vch-fail")
			msg = &lnwire.UpdateFailHTLC{
				ChanID: c.chanID, ID: idx, Reason: reason,
			}
			return lc.FailHTLC(idx, reason, src, dest, nil)
		default:
			sha := sha256.Sum256([]byte("vch-onion"))
			msg = &lnwire.UpdateFailMalformedHTLC{
				ChanID: c.chanID, ID: idx, ShaOnionBlob: sha,
				FailureCode: lnwire.CodeInvalidOnionVersion,
			}
			dest = nil // (MalformedFailHTLC takes no destRef)
			return lc.MalformedFailHTLC(
				idx, lnwire.CodeInvalidOnionVersion, sha, src,
			)
		}
	})
	if res == "ok" {
		c.send(1-p, msg)
	}
	var extra map[string]any
	if mal {
		extra = map[string]any{"mal": 1}
		if badPre {
			extra["bad_preimage"] = 1
		}
	}
	if res == "ok" && c.refsOn {
		if extra == nil {
			extra = map[string]any{}
		}
		extra["src_ref"], extra["dest_ref"] = nil, nil
		if src != nil {
			extra["src_ref"] = []uint64{src.Height, uint64(src.Index)}
		}
		if dest != nil {
			extra["dest_ref"] = []uint64{dest.Height, uint64(dest.Index)}
		}
	}
	c.record([]any{kind, vchNames[p], idx}, res, extra)
	if strings.HasPrefix(res, "panic:") {
		c.abort = kind + ":" + res
	}
	return res
}

func (c *vchCtx) doFee(p int, fee int64, mal bool) string {
	res := vchSafe(func() error {
		return c.ch[p].UpdateFee(chainfee.SatPerKWeight(fee))
	})
	if res == "ok" {
		c.send(1-p, &lnwire.UpdateFee{
			ChanID: c.chanID, FeePerKw: uint32(fee),
		})
	}
	var extra map[string]any
	if mal {
		extra = map[string]any{"mal": 1}
	}
	c.record([]any{"fee", vchNames[p], fee}, res, extra)
	if strings.HasPrefix(res, "panic:") {
		c.abort = "fee:" + res
	}
	return res
}

func vchCommitSigMsg(chanID lnwire.ChannelID, st *NewCommitState) (
	*lnwire.CommitSig, error) {

	recs, err := lnwire.ParseCustomRecords(st.AuxSigBlob)
	if err != nil {
		return nil, err
	}
	return &lnwire.CommitSig{
		ChanID: chanID, CommitSig: st.CommitSig, HtlcSigs: st.HtlcSigs,
		PartialSig: st.PartialSig, CustomRecords: recs,
	}, nil
}

func (c *vchCtx) doSign(p int) string {
	var msg *lnwire.CommitSig
	c.txBegin(p)
	res := vchSafe(func() error {
		st, err := c.ch[p].SignNextCommitment(ctxb)
		if err != nil {
			return err
		}
		msg, err = vchCommitSigMsg(c.chanID, st)
		return err
	})
	var extra map[string]any
	if res == "ok" {
		c.send(1-p, msg)
		extra = map[string]any{"n_htlc_sigs": len(msg.HtlcSigs)}
		c.nSign++
	}
	extra = c.txEnd(p, "sign", extra)
	c.record([]any{"sign", vchNames[p]}, res, extra)
	if res != "ok" && res != "no_window" {
		c.abort = "sign:" + res
	}
	return res
}

func (c *vchCtx) doRevoke(p int) string {
	lc := c.ch[p]
	if !c.hasLtip(p) {
		// The real RevokeCurrentCommitment has no guard (it would
		// advance an empty chain and crash); the link never calls it
		// without a received commitment.
		c.record([]any{"revoke", vchNames[p]}, "no_pending",
			map[string]any{"mal": 1})
		return "no_pending"
	}
	revH := lc.commitChains.Local.tail().height
	var msg *lnwire.RevokeAndAck
	c.txBegin(p)
	res := vchSafe(func() error {
		var err error
		msg, _, _, err = lc.RevokeCurrentCommitment()
		return err
	})
	extra := c.txEnd(p, "revoke", map[string]any{"rev_height": revH})
	if res == "ok" {
		want, err := lc.channelState.RevocationProducer.AtIndex(revH)
		extra["secret_matches"] = err == nil &&
			[32]byte(*want) == msg.Revocation
		c.send(1-p, msg)
	}
	c.record([]any{"revoke", vchNames[p]}, res, extra)
	if res != "ok" {
		c.abort = "revoke:" + res
	}
	return res
}

// deliverMsg hands one wire message to p exactly as the link would.
func (c *vchCtx) deliverMsg(p int, m lnwire.Message) string {
	lc := c.ch[p]
	return vchSafe(func() error {
		switch msg := m.(type) {
		case *lnwire.UpdateAddHTLC:
			_, err := lc.ReceiveHTLC(msg)
			return err
		case *lnwire.UpdateFulfillHTLC:
			return lc.ReceiveHTLCSettle(msg.PaymentPreimage, msg.ID)
		case *lnwire.UpdateFailHTLC:
			return lc.ReceiveFailHTLC(msg.ID, msg.Reason)
		case *lnwire.UpdateFailMalformedHTLC:
			return lc.ReceiveFailHTLC(msg.ID, []byte("vch-malformed"))
		case *lnwire.UpdateFee:
			return lc.ReceiveUpdateFee(
				chainfee.SatPerKWeight(msg.FeePerKw),
			)
		case *lnwire.CommitSig:
			blob, err := msg.CustomRecords.Serialize()
			if err != nil {
				return err
			}
			return lc.ReceiveNewCommitment(&CommitSigs{
				CommitSig:  msg.CommitSig,
				HtlcSigs:   msg.HtlcSigs,
				PartialSig: msg.PartialSig,
				AuxSigBlob: blob,
			})
		case *lnwire.RevokeAndAck:
			pkg, _, err := lc.ReceiveRevocation(msg)
			if err == nil {
				c.noteFwdPkg(p, pkg)
			}
			return err
		}
		return fmt.Errorf("vch: unknown message %T", m)
	})
}

func (c *vchCtx) doDeliver(p int) string {
	if len(c.q[p]) == 0 {
		c.record([]any{"deliver", vchNames[p]}, "no_pending",
			map[string]any{"mal": 1})
		return "no_pending"
	}
	m := c.q[p][0]
	c.q[p] = c.q[p][1:]
	c.txBegin(p)
	res := c.deliverMsg(p, m)
	c.record([]any{"deliver", vchNames[p]}, res,
		c.txEnd(p, "deliver_"+vchKind(m),
			map[string]any{"kind": vchKind(m)}))
	if res != "ok" {
		c.abort = "deliver_" + vchKind(m) + ":" + res
	}
	return res
}

// vchReload builds a fresh LightningChannel from old's database, with the
// same signer, signature pool and aux components (restartChannel of
// channel_test.go).
func vchReload(old *LightningChannel) (*LightningChannel, error) {
	chans, err := old.channelState.Db.FetchOpenChannels(
		old.channelState.IdentityPub,
	)
	if err != nil {
		return nil, err
	}
	if len(chans) != 1 {
		return nil, fmt.Errorf("vch: %d channels in db", len(chans))
	}
	var opts []ChannelOpt
	old.leafStore.WhenSome(func(s AuxLeafStore) {
		opts = append(opts, WithLeafStore(s))
	})
	old.auxSigner.WhenSome(func(s AuxSigner) {
		opts = append(opts, WithAuxSigner(s))
	})
	return NewLightningChannel(old.Signer, chans[0], old.sigPool, opts...)
}

// doCrash is a pure observation: a second LightningChannel is restored from
// p's database, dumped and discarded.
func (c *vchCtx) doCrash(p int) {
	extra := map[string]any{}
	var d map[string]any
	res := vchSafe(func() error {
		lc, err := vchReload(c.ch[p])
		if err != nil {
			return err
		}
		d = c.reloadDump(lc)
		extra["hl_reloaded"] = vchHL(lc)
		return nil
	})
	if res == "ok" {
		extra["reloaded"] = d
	} else {
		extra["err"] = res
		extra["reloaded"] = nil
	}
	c.record([]any{"crash", vchNames[p]}, res, extra)
}

// stamp counts the persisted state transitions of p's channel: every sign,
// revoke and received revocation adds one.
func (c *vchCtx) stamp(p int) uint64 {
	cs := c.ch[p].channelState
	s := cs.LocalCommitment.CommitHeight + 2*cs.RemoteCommitment.CommitHeight
	if c.ch[p].commitChains.Remote.hasUnackedCommitment() {
		s++
	}
	return s
}

func (c *vchCtx) sideFetch(p int) error {
	old := c.ch[p].channelState
	chans, err := old.Db.FetchOpenChannels(old.IdentityPub)
	if err != nil {
		return err
	}
	if len(chans) != 1 {
		return fmt.Errorf("vch: %d channels in db", len(chans))
	}
	c.side[p] = chans[0]
	c.sideStamp[p] = c.stamp(p)
	return nil
}

var vchSideKinds = []string{
	"real_scid", "real_scid", "alias", "conf_height", "close_conf",
	"mark_open", "status", "shutdown_info",
}

// doSide invokes one of the metadata writers that lnd's other subsystems
// (funding manager, chain watcher, peer, switch) call on THEIR OpenChannel
// instance of a live channel.  None of them may change what the state machine
// persisted.  kinds "refresh" / "refetch" only bring the stale instance up to
// date (no write).
func (c *vchCtx) doSide(p int, kind string) string {
	if c.side[p] == nil {
		if err := c.sideFetch(p); err != nil {
			c.abort = "side_fetch:" + vchClass(err)
			return c.abort
		}
	}
	st := c.side[p]
	staleBy := c.stamp(p) - c.sideStamp[p]
	res := vchSafe(func() error {
		switch kind {
		case "refresh":
			err := st.Refresh()
			if err == nil {
				c.sideStamp[p] = c.stamp(p)
			}
			return err
		case "refetch":
			return c.sideFetch(p)
		case "real_scid":
			return st.MarkRealScid(lnwire.NewShortChanIDFromInt(
				uint64(700000+len(c.steps))<<40 | 1<<16,
			))
		case "alias":
			return st.MarkScidAliasNegotiated()
		case "conf_height":
			h := uint32(1000 + len(c.steps))
			st.SetBroadcastHeight(h - 1)
			return st.MarkConfirmationHeight(h)
		case "close_conf":
			err := st.MarkCloseConfirmationHeight(
				fn.Some(uint32(2000 + len(c.steps))),
			)
			if err != nil {
				return err
			}
			return st.ResetCloseConfirmationHeight()
		case "mark_open":
			// same locator: only IsPending flips on disk
			return st.MarkAsOpen(st.ShortChanID())
		case "status":
			bit := chanstate.ChanStatusRemoteCloseInitiator
			if err := st.ApplyChanStatus(bit); err != nil {
				return err
			}
			// ClearChannelStatus' closure was not retry-safe (finding
			// C02-F3, fixed in /repo 7a71987: it assigned to its captured
			// `status` parameter).  Diagnostic knob only:
			// VERIF_CHAN_RETRY_STATUS=0 suspends the forced retries for
			// this one call; the default keeps them.
			if d := c.db[p]; d != nil && d.retry &&
				vEnvInt("VERIF_CHAN_RETRY_STATUS", 1) == 0 {

				d.retry = false
				defer func() { d.retry = true }()
			}
			return st.ClearChanStatus(bit)
		case "shutdown_info":
			return st.MarkShutdownSent(chanstate.NewShutdownInfo(
				lnwire.DeliveryAddress{0x00, 0x14, 1, 2, 3}, p == 0,
			))
		}
		return fmt.Errorf("vch: unknown side kind %q", kind)
	})
	c.record([]any{"side", vchNames[p], kind}, res,
		map[string]any{"kind": kind, "stale_by": staleBy})
	if strings.HasPrefix(res, "panic:") {
		c.abort = "side:" + res
	}
	return res
}

// genSide: a side write on a stale instance, usually followed at once by a
// reload (observation or restart) - the damage a wrong writer does is only
// visible until the state machine overwrites it.
func (c *vchCtx) genSide() {
	r := c.r
	p := r.intn(2)
	c.doSide(p, vchSideKinds[r.intn(len(vchSideKinds))])
	if c.abort != "" {
		return
	}
	switch x := r.intn(20); {
	case x < 12 && c.crash:
		c.doCrash(p)
	case x < 15 && c.cut:
		c.doCut(0, 0)
	}
}

func (c *vchCtx) doCut(ka, kb int) {
	k := [2]int{ka, kb}
	delivered := make([][]any, 0, ka+kb)
	for p := 0; p < 2; p++ {
		if k[p] > len(c.q[p]) {
			k[p] = len(c.q[p])
		}
		for i := 0; i < k[p] && c.abort == ""; i++ {
			m := c.q[p][i]
			if !c.revOK(p, m) {
				k[p] = i
				break
			}
			res := c.deliverMsg(p, m)
			delivered = append(delivered,
				[]any{vchNames[p], vchKind(m), res})
			if res != "ok" {
				c.abort = "cut_deliver_" + vchKind(m) + ":" + res
			}
		}
	}
	dropped := []int{len(c.q[0]) - k[0], len(c.q[1]) - k[1]}
	c.q[0], c.q[1] = nil, nil
	extra := map[string]any{"delivered": delivered, "dropped": dropped,
		"sync_a": []string{}, "sync_b": []string{},
		"err_a": nil, "err_b": nil}
	op := []any{"cut", k[0], k[1]}
	if c.abort != "" {
		c.record(op, "aborted", extra)
		return
	}
	c.restartBoth(op, extra, -1)
}

// restartBoth: both sides restart from disk (everything in flight has been
// dropped by the caller), exchange channel_reestablish and queue what
// ProcessChanSyncMsg returns; records the step.  dead = the party whose live
// object died inside a state-machine call (its in-memory state is not a
// reference for anything; -1 = none).
func (c *vchCtx) restartBoth(op []any, extra map[string]any, dead int) {
	c.record(op, c.restartCore(extra, dead, -1, 0, false), extra)
}

// restartCore is the restart itself; it fills extra and returns the result
// class (ok | reload_failed | sync_failed | sync_error).  armP >= 0: that
// party's channel DB is armed with (armK, rollback) while it runs
// ProcessChanSyncMsg (the node dies inside the resync; crash_stop from it is
// expected and does not abort the case); extra gets call_res / committed /
// refused / rolled_back.
func (c *vchCtx) restartCore(extra map[string]any, dead, armP, armK int,
	rollback bool) string {

	pre := map[string]any{}
	for p := 0; p < 2; p++ {
		if p != dead {
			pre[vchNames[p]] = c.partyDump(c.ch[p])
		}
	}
	extra["pre_reload"] = pre
	// transactions NewLightningChannel + ChanSyncMsg + ProcessChanSyncMsg
	// commit on each side (extra.ntx_sync)
	for p := 0; p < 2; p++ {
		c.txBegin(p)
	}
	ntxSync := map[string]any{}
	nretrySync := map[string]any{}
	defer func() {
		for p := 0; p < 2; p++ {
			if c.db[p] != nil {
				ntxSync[vchNames[p]] = c.db[p].end()
				if nr := c.db[p].endRetried(); nr > 0 {
					nretrySync[vchNames[p]] = nr
				}
			}
		}
	}()
	extra["ntx_sync"] = ntxSync
	extra["nretry_sync"] = nretrySync
	for p := 0; p < 2; p++ {
		var lc *LightningChannel
		res := vchSafe(func() error {
			var err error
			lc, err = vchReload(c.ch[p])
			return err
		})
		if res != "ok" {
			extra["err_"+vchNames[p]] = "reload:" + res
			c.abort = "reload_" + vchNames[p] + ":" + res
			return "reload_failed"
		}
		c.ch[p] = lc
		c.loadRefs(p)
	}
	reloaded := map[string]any{}
	hlReloaded := map[string]any{}
	extra["hl_reloaded"] = hlReloaded
	for p := 0; p < 2; p++ {
		reloaded[vchNames[p]] = c.reloadDump(c.ch[p])
		hlReloaded[vchNames[p]] = vchHL(c.ch[p])
		// a restarted node hands fresh instances to every subsystem
		if c.sideOn {
			_ = c.sideFetch(p)
		}
	}
	extra["reloaded"] = reloaded

	// channel_reestablish both ways.  Taproot nonces travel inside the
	// messages and are bound by ProcessChanSyncMsg (the reloaded channel
	// generated its verification nonce in NewLightningChannel).
	var sync [2]*lnwire.ChannelReestablish
	chanSync := map[string]any{}
	for p := 0; p < 2; p++ {
		res := vchSafe(func() error {
			var err error
			sync[p], err = c.ch[p].channelState.ChanSyncMsg()
			return err
		})
		if res != "ok" {
			extra["err_"+vchNames[p]] = "chansyncmsg:" + res
			c.abort = "chansyncmsg_" + vchNames[p] + ":" + res
			return "sync_failed"
		}
		chanSync[vchNames[p]] = []uint64{
			sync[p].NextLocalCommitHeight,
			sync[p].RemoteCommitTailHeight,
		}
	}
	extra["chan_sync"] = chanSync
	extra["lwr"] = map[string]any{
		"a": c.ch[0].channelState.LastWasRevoke,
		"b": c.ch[1].channelState.LastWasRevoke,
	}
	// Both reestablish messages exist before either is processed
	// (ProcessChanSyncMsg may itself sign); a processes first, then b.
	res := "ok"
	for p := 0; p < 2; p++ {
		var msgs []lnwire.Message
		armed := p == armP && c.db[p] != nil
		if armed {
			c.db[p].arm(armK, rollback)
		}
		r := vchSafe(func() error {
			var err error
			msgs, _, _, err = c.ch[p].ProcessChanSyncMsg(ctxb, sync[1-p])
			return err
		})
		if armed {
			committed, refused, rolled := c.db[p].disarm()
			extra["call_res"] = r
			extra["committed"] = committed
			extra["refused"] = refused
			extra["rolled_back"] = rolled
		}
		kinds := make([]string, 0, len(msgs))
		switch {
		case armed && r != "ok" && extra["refused"].(int) > 0:
			// the node died inside its resync: nothing leaves it
		case r != "ok":
			extra["err_"+vchNames[p]] = r
			c.abort = "sync_error"
			res = "sync_error"
		default:
			for _, m := range msgs {
				kinds = append(kinds, vchKind(m))
				if _, ok := m.(*lnwire.CommitSig); ok {
					c.nSign++
				}
				c.send(1-p, m)
			}
		}
		extra["sync_"+vchNames[p]] = kinds
	}
	return res
}

// doCrashIn is a WRITE-LEVEL crash: p's node dies inside one state-machine
// call (call = "sign" | "revoke" | "deliver" | "sync"; deliver = the
// revoke_and_ack at the head of the queue towards p; sync = the
// ProcessChanSyncMsg of a restart that begins right here: everything in flight
// is lost, both sides rebuild from disk and exchange channel_reestablish, the
// peer's ProcessChanSyncMsg runs to completion, p's dies) right after the k-th
// read-write transaction that call commits on p's channel DB - the (k+1)-th
// and every later one fails with errVchStop and leaves the DB untouched
// (refused up front, or - k negative: crash point -k-1 in ROLLBACK mode - run
// against the real backend and rolled back by it).  Whatever the call
// returns is thrown away (the message was never handed to the peer), all
// messages in flight are lost, p's live object is discarded and, as after every
// disconnect, BOTH sides rebuild their channel from disk and run the
// channel_reestablish exchange.  k >= number of transactions of the call =
// crash right after the complete call.
//
//	op    ["crashin", p, call, k]
//	res   as for cut (ok | reload_failed | sync_failed | sync_error)
//	extra call_res (class of the interrupted call: ok | crash_stop | ...),
//	      committed / refused (transactions of the call that committed / were
//	      refused / rolled_back), reload_before (reload dump of p taken just
//	      before the call), kind, rev_height (revoke), sync1 (call = sync: the
//	      extra of the interrupted restart) + everything a cut records
//	      (pre_reload only for the peer).
func (c *vchCtx) doCrashIn(p int, call string, k int) {
	lc := c.ch[p]
	op := []any{"crashin", vchNames[p], call, k}
	rollback := k < 0
	if rollback {
		k = -k - 1
	}
	extra := map[string]any{"delivered": [][]any{},
		"sync_a": []string{}, "sync_b": []string{},
		"err_a": nil, "err_b": nil}
	// enabledness (scripts are replayed verbatim; a disabled call is skipped)
	enabled := c.db[p] != nil
	switch call {
	case "sign", "sync":
	case "revoke":
		enabled = enabled && c.hasLtip(p)
	case "deliver":
		enabled = enabled && len(c.q[p]) > 0
	default:
		enabled = false
	}
	if !enabled {
		c.record(op, "no_pending", map[string]any{"mal": 1})
		return
	}
	if call == "sync" {
		// the interrupted restart; its reload of p is the reference
		// "before the call"
		first := map[string]any{"sync_a": []string{}, "sync_b": []string{},
			"err_a": nil, "err_b": nil}
		c.q[0], c.q[1] = nil, nil
		res := c.restartCore(first, -1, p, k, rollback)
		delete(first, "pre_reload")
		extra["sync1"] = first
		if res != "ok" {
			extra["err_a"], extra["err_b"] = first["err_a"], first["err_b"]
			c.record(op, res, extra)
			return
		}
		for _, key := range []string{"call_res", "committed", "refused",
			"rolled_back"} {

			extra[key] = first[key]
		}
		extra["reload_before"] = first["reloaded"].(map[string]any)[vchNames[p]]
		extra["hl_reload_before"] = first["hl_reloaded"].(map[string]any)[vchNames[p]]
		if c.maxTx != nil && first["refused"].(int) == 0 &&
			first["committed"].(int) > c.maxTx["sync"] {

			c.maxTx["sync"] = first["committed"].(int)
		}
		extra["dropped"] = []int{len(c.q[0]), len(c.q[1])}
		c.q[0], c.q[1] = nil, nil
		c.restartBoth(op, extra, p)
		return
	}
	var before map[string]any
	if r := vchSafe(func() error {
		old, err := vchReload(lc)
		if err != nil {
			return err
		}
		before = c.reloadDump(old)
		extra["hl_reload_before"] = vchHL(old)
		return nil
	}); r != "ok" {
		extra["err_"+vchNames[p]] = "reload:" + r
		c.abort = "reload_" + vchNames[p] + ":" + r
		c.record(op, "reload_failed", extra)
		return
	}
	extra["reload_before"] = before

	c.db[p].arm(k, rollback)
	var res string
	switch call {
	case "sign":
		res = vchSafe(func() error {
			_, err := lc.SignNextCommitment(ctxb)
			return err
		})
	case "revoke":
		extra["rev_height"] = lc.commitChains.Local.tail().height
		res = vchSafe(func() error {
			_, _, _, err := lc.RevokeCurrentCommitment()
			return err
		})
	case "deliver":
		m := c.q[p][0]
		extra["kind"] = vchKind(m)
		res = c.deliverMsg(p, m)
	}
	committed, refused, rolled := c.db[p].disarm()
	extra["call_res"] = res
	extra["committed"] = committed
	extra["refused"] = refused
	extra["rolled_back"] = rolled
	if c.maxTx != nil && refused == 0 {
		kind := call
		if call == "deliver" {
			kind = "deliver_" + extra["kind"].(string)
		}
		if committed > c.maxTx[kind] {
			c.maxTx[kind] = committed
		}
	}
	extra["dropped"] = []int{len(c.q[0]), len(c.q[1])}
	c.q[0], c.q[1] = nil, nil
	c.restartBoth(op, extra, p)
}

// doLiveProbe is the LIVE-RESYNC PROBE, a TERMINAL step (nothing may follow it:
// the probed objects are not a protocol-following continuation): the
// connection "drops" and the channel_reestablish exchange is run on the LIVE
// in-memory channel objects instead of objects rebuilt from disk - the API
// allows that, and a live object may hold an accepted but not yet revoked (=
// not durable) commitment.  mode[i] = 'l': party i keeps its live object, 'r':
// party i is rebuilt from disk first (as lnd's peer does).  Both ChanSyncMsg
// are created, then a and b run ProcessChanSyncMsg.  Recorded per party
// (extra.probe.<p>): live, tip_minus_tail (local chain, before), err (class),
// kinds of the returned messages, rev_heights (for every returned
// revoke_and_ack the height whose per-commitment secret it carries, -1 =
// unknown), durable_before / durable_after = LocalCommitment.CommitHeight of a
// FRESH fetch of the channel from its DB right before / after the call, sync =
// [NextLocalCommitHeight, RemoteCommitTailHeight] it sent.
func (c *vchCtx) doLiveProbe(mode string) {
	if len(mode) != 2 {
		mode = "ll"
	}
	op := []any{"liveprobe", mode}
	probe := map[string]any{}
	extra := map[string]any{"probe": probe,
		"queues": []int{len(c.q[0]), len(c.q[1])}}
	durable := func(p int) any {
		cs := c.ch[p].channelState
		chans, err := cs.Db.FetchOpenChannels(cs.IdentityPub)
		if err != nil || len(chans) != 1 {
			return nil
		}
		return chans[0].LocalCommitment.CommitHeight
	}
	info := [2]map[string]any{}
	for p := 0; p < 2; p++ {
		lch := c.ch[p].commitChains.Local
		info[p] = map[string]any{"live": mode[p] != 'r',
			"tip_minus_tail": lch.tip().height - lch.tail().height,
			"rtip_minus_rtail": c.ch[p].commitChains.Remote.tip().height -
				c.ch[p].commitChains.Remote.tail().height,
			"err": nil, "kinds": []string{}, "rev_heights": []int64{}}
		probe[vchNames[p]] = info[p]
		if mode[p] == 'r' {
			var lc *LightningChannel
			if r := vchSafe(func() error {
				var err error
				lc, err = vchReload(c.ch[p])
				return err
			}); r != "ok" {
				info[p]["err"] = "reload:" + r
				c.recordTerminal(op, "reload_failed", extra)
				return
			}
			c.ch[p] = lc
		}
	}
	var sync [2]*lnwire.ChannelReestablish
	for p := 0; p < 2; p++ {
		if r := vchSafe(func() error {
			var err error
			sync[p], err = c.ch[p].channelState.ChanSyncMsg()
			return err
		}); r != "ok" {
			info[p]["err"] = "chansyncmsg:" + r
			c.recordTerminal(op, "sync_failed", extra)
			return
		}
		info[p]["sync"] = []uint64{sync[p].NextLocalCommitHeight,
			sync[p].RemoteCommitTailHeight}
	}
	for p := 0; p < 2; p++ {
		info[p]["durable_before"] = durable(p)
		if mode[p] != 'r' && c.ct.IsTaproot() {
			// a live taproot object has consumed the verification nonce
			// NewLightningChannel generated; give it the one a resync needs
			_, err := c.ch[p].GenMusigNonces()
			info[p]["nonce_regen"] = err == nil
		}
		var msgs []lnwire.Message
		r := vchSafe(func() error {
			var err error
			msgs, _, _, err = c.ch[p].ProcessChanSyncMsg(ctxb, sync[1-p])
			return err
		})
		info[p]["durable_after"] = durable(p)
		if r != "ok" {
			info[p]["err"] = r
			continue
		}
		kinds := []string{}
		revs := []int64{}
		for _, m := range msgs {
			kinds = append(kinds, vchKind(m))
			rev, ok := m.(*lnwire.RevokeAndAck)
			if !ok {
				continue
			}
			h := int64(-1)
			top := c.ch[p].commitChains.Local.tip().height + 2
			for x := uint64(0); x <= top; x++ {
				s, err := c.ch[p].channelState.RevocationProducer.AtIndex(x)
				if err == nil && [32]byte(*s) == rev.Revocation {
					h = int64(x)
					break
				}
			}
			revs = append(revs, h)
		}
		info[p]["kinds"], info[p]["rev_heights"] = kinds, revs
	}
	c.probed = true
	c.recordTerminal(op, "ok", extra)
}

// probeEpilogue brings the (drained) channel into a state worth probing:
// mostly the window "commit_sig received, not yet revoked" on one or both
// sides, else a few random steps.
func (c *vchCtx) probeEpilogue() {
	r := c.r
	ok := func() bool { return c.abort == "" }
	flush := func(to int) {
		for ok() && c.canDeliver(to) {
			c.doDeliver(to)
		}
	}
	update := func(p int) {
		res := c.resolvable(p)
		switch x := r.intn(10); {
		case p == 0 && !c.noFee && x < 2:
			c.doFee(0, c.pickFee(), false)
		case len(res) > 0 && x < 6:
			c.doResolve([]string{"settle", "fail", "malformed"}[r.intn(3)],
				p, res[r.intn(len(res))], false, false)
		default:
			c.genAdd(p)
		}
	}
	// p updates + signs, q receives everything: q holds an unrevoked commitment
	flight := func(p int) {
		update(p)
		if ok() && r.intn(3) == 0 {
			update(p)
		}
		if ok() && c.windowOpen(p) && c.owes(p) {
			if c.doSign(p) == "ok" {
				flush(1 - p)
			}
		}
	}
	x := r.intn(10)
	switch {
	case x < 6:
		p := r.intn(2)
		flight(p)
		switch y := r.intn(6); {
		case y == 0 && ok():
			// the peer's own flight crosses: both sides hold one
			flight(1 - p)
		case y == 1 && ok():
			// q's update + signature still in flight towards p
			update(1 - p)
			if ok() && c.windowOpen(1-p) && c.owes(1-p) {
				c.doSign(1 - p)
			}
		case y == 2 && ok() && c.hasLtip(1-p):
			// q revoked, the revocation is in flight
			c.doRevoke(1 - p)
		}
	default:
		for n := 1 + r.intn(8); n > 0 && ok(); n-- {
			c.genMain()
		}
	}
}

// crashPoint draws the number of transactions a crashed call of this kind
// still commits: 0 .. n, n = most transactions a call of the kind was seen to
// commit in this case (at least 1); with n > 1 the interior points 1 .. n-1 -
// the node dies BETWEEN two transactions of one call - get 60 %.
func (c *vchCtx) crashPoint(kind string) int {
	n := c.maxTx[kind]
	if n < 1 {
		n = 1
	}
	k := c.r.intn(n + 1)
	if n > 1 && c.r.intn(5) < 3 {
		k = 1 + c.r.intn(n-1)
	}
	// half of the crash points hit an OPEN transaction: it is executed
	// against the real backend and rolled back (op carries -k-1)
	if c.r.bool() {
		return -k - 1
	}
	return k
}

// ---------------------------------------------------------------------------
// generator

func (c *vchCtx) pickAmt(p int) lnwire.MilliSatoshi {
	r := c.r
	lc := c.ch[p]
	rate := lc.commitChains.Local.tip().feePerKw
	switch x := r.intn(20); {
	case x < 10:
		// Straddle a dust threshold: dust limit of either owner plus
		// the second-level fee component (or none) +-1 sat, with msat
		// remainders.
		dust := int64(lc.channelState.LocalChanCfg.DustLimit)
		if r.bool() {
			dust = int64(lc.channelState.RemoteChanCfg.DustLimit)
		}
		var comp int64
		switch r.intn(3) {
		case 1:
			comp = int64(HtlcTimeoutFee(c.ct, rate))
		case 2:
			comp = int64(HtlcSuccessFee(c.ct, rate))
		}
		sat := dust + comp + r.rng(-1, 1)
		rem := []int64{0, 0, 0, 1, 999, 500}[r.intn(6)]
		v := sat*1000 + rem
		if r.intn(8) == 0 {
			v = sat*1000 - 1
		}
		if v <= 0 {
			v = 1
		}
		return lnwire.MilliSatoshi(v)
	case x < 12:
		return lnwire.MilliSatoshi(
			[]int64{1, 999, 1000, 1001, 1999, 2000}[r.intn(6)])
	case x < 17:
		return lnwire.MilliSatoshi(r.rng(10_000_000, 5_000_000_000))
	case x < 18:
		// A large share of what p can send.
		av := int64(lc.AvailableBalance())
		return lnwire.MilliSatoshi(av/int64(2+r.intn(3)) + r.rng(0, 999))
	default:
		// At the boundary of what AddHTLC accepts.
		av := int64(lc.AvailableBalance())
		v := av + []int64{-1000, -1, 0, 1, 1000, -500_000}[r.intn(6)]
		if v <= 0 {
			v = 1
		}
		return lnwire.MilliSatoshi(v)
	}
}

func (c *vchCtx) genAdd(p int) {
	r := c.r
	if len(c.adds) > 0 && r.intn(8) == 0 {
		// exact duplicate (hash, amount, expiry) of an earlier add,
		// sometimes with only the expiry changed
		d := c.adds[r.intn(len(c.adds))]
		exp := uint32(d[1])
		if r.intn(3) == 0 {
			exp = uint32(100 + r.intn(8))
		}
		c.doAdd(p, lnwire.MilliSatoshi(d[0]), exp, d[2], false)
		return
	}
	hid := c.nHash
	c.nHash++
	c.doAdd(p, c.pickAmt(p), uint32(100+r.intn(8)), hid, false)
}

func (c *vchCtx) pickFee() int64 {
	r := c.r
	switch x := r.intn(20); {
	case x < 8:
		return []int64{253, 254, 500, 1000, 2500, 6000, 6001, 10000}[r.intn(8)]
	case x < 17:
		return r.rng(253, 30000)
	case x < 19:
		return r.rng(30000, 120000)
	default:
		return r.rng(120000, 2_000_000)
	}
}

func (c *vchCtx) genMalformed() {
	r := c.r
	p := r.intn(2)
	lc := c.ch[p]
	switch r.intn(9) {
	case 0: // unknown HTLC index
		idx := lc.updateLogs.Remote.htlcCounter + uint64(r.intn(3))
		c.doResolve([]string{"settle", "fail", "malformed"}[r.intn(3)],
			p, idx, true, false)
	case 1: // resolve twice
		if m := c.modified(p); len(m) > 0 {
			c.doResolve([]string{"settle", "fail", "malformed"}[r.intn(3)],
				p, m[r.intn(len(m))], true, false)
			return
		}
		c.doFee(1, c.pickFee(), true)
	case 2: // wrong preimage
		if m := c.resolvable(p); len(m) > 0 {
			c.doResolve("settle", p, m[r.intn(len(m))], true, true)
			return
		}
		c.doFee(1, c.pickFee(), true)
	case 3: // fee update by the non-opener
		c.doFee(1, c.pickFee(), true)
	case 4: // zero amount
		hid := c.nHash
		c.nHash++
		c.doAdd(p, 0, 100, hid, true)
	case 5: // more than the sender owns
		hid := c.nHash
		c.nHash++
		amt := lnwire.MilliSatoshi(int64(lc.AvailableBalance()) +
			r.rng(1, 2_000_000_000))
		if r.intn(3) == 0 {
			amt = lnwire.NewMSatFromSatoshis(lc.Capacity) +
				lnwire.MilliSatoshi(r.rng(0, 5000))
		}
		c.doAdd(p, amt, 100, hid, true)
	case 6: // revoke with nothing to revoke
		if !c.hasLtip(p) {
			c.doRevoke(p)
		} else if !c.hasLtip(1 - p) {
			c.doRevoke(1 - p)
		}
	case 7: // deliver from an empty queue
		if len(c.q[p]) == 0 {
			c.doDeliver(p)
		} else if len(c.q[1-p]) == 0 {
			c.doDeliver(1 - p)
		}
	default: // sign with the window closed
		if !c.windowOpen(p) {
			c.doSign(p)
		} else if !c.windowOpen(1 - p) {
			c.doSign(1 - p)
		}
	}
}

func (c *vchCtx) genCut() {
	r := c.r
	pick := func(n int) int {
		switch r.intn(10) {
		case 0, 1, 2:
			return 0
		case 3, 4, 5:
			return n
		}
		return r.intn(n + 1)
	}
	c.doCut(pick(len(c.q[0])), pick(len(c.q[1])))
	if c.abort == "" && r.intn(5) == 0 {
		if c.crashIn && r.intn(3) == 0 {
			c.doCrashIn(r.intn(2), "sync", c.crashPoint("sync"))
			return
		}
		c.doCut(pick(len(c.q[0])), pick(len(c.q[1])))
	}
}

type vchChoice struct {
	w int
	f func()
}

func (c *vchCtx) genMain() {
	r := c.r
	var ch []vchChoice
	add := func(w int, f func()) {
		if w > 0 {
			ch = append(ch, vchChoice{w, f})
		}
	}
	for p := 0; p < 2; p++ {
		p := p
		w := 12
		if n := c.activeHtlcs(p); n > 12 {
			w = 2
		} else if n > 6 {
			w = 6
		}
		add(w, func() { c.genAdd(p) })
		if res := c.resolvable(p); len(res) > 0 {
			add(26, func() {
				idx := res[r.intn(len(res))]
				kind := "settle"
				switch x := r.intn(10); {
				case x >= 8:
					kind = "malformed"
				case x >= 5:
					kind = "fail"
				}
				c.doResolve(kind, p, idx, false, false)
			})
		}
		switch {
		case c.windowOpen(p) && c.owes(p):
			add(34, func() {
				if c.crashIn && r.intn(9) == 0 {
					c.doCrashIn(p, "sign", c.crashPoint("sign"))
					return
				}
				c.signBiased(p)
			})
		case c.windowOpen(p):
			add(1, func() { c.doSign(p) }) // empty commit_sig
		}
		if c.hasLtip(p) {
			add(44, func() {
				if c.crashIn && r.intn(8) == 0 {
					c.doCrashIn(p, "revoke", c.crashPoint("revoke"))
					return
				}
				c.revokeMaybeCut(p)
			})
		}
		if n := len(c.q[p]); c.canDeliver(p) {
			w := 40
			if n > 3 {
				w = 60
			}
			add(w, func() {
				_, isRev := c.q[p][0].(*lnwire.RevokeAndAck)
				if isRev && c.crashIn && r.intn(6) == 0 {
					c.doCrashIn(p, "deliver",
						c.crashPoint("deliver_rev"))
					return
				}
				c.doDeliver(p)
			})
		}
	}
	if !(c.noFreshFee && c.ch[0].currentHeight == 0) && !c.noFee {
		add(3, func() { c.doFee(0, c.pickFee(), false) })
	}
	total := 0
	for _, x := range ch {
		total += x.w
	}
	n := r.intn(total)
	for _, x := range ch {
		if n < x.w {
			x.f()
			return
		}
		n -= x.w
	}
}

// signBiased signs for p and, to get overlapping dances, often lets the
// peer sign as well before anything is delivered; sometimes the connection
// is cut right after the signature.
func (c *vchCtx) signBiased(p int) {
	if c.doSign(p) != "ok" || c.abort != "" {
		return
	}
	q := 1 - p
	if c.windowOpen(q) && c.owes(q) && c.r.intn(5) < 2 {
		c.doSign(q)
	}
	if c.cut && c.abort == "" && c.r.intn(14) == 0 {
		c.doCut(0, 0)
	}
}

func (c *vchCtx) revokeMaybeCut(p int) {
	if c.doRevoke(p) != "ok" || c.abort != "" {
		return
	}
	if c.cut && c.r.intn(14) == 0 {
		// (the revocation is lost: p's ProcessChanSyncMsg retransmits it and
		// signs what it owes - the one resync that writes)
		if c.crashIn && c.r.bool() {
			c.doCrashIn(p, "sync", c.crashPoint("sync"))
			return
		}
		c.doCut(0, 0)
	}
}

// genDanceCut is a directed snippet: starting from a state without pending
// commitments, p makes one or two updates and runs a commitment dance in which
// every message is delivered at once; the connection is cut (both sides
// restart, nothing in flight survives) after a random stage of the dance.
// Optionally p sends a second update + signature as soon as its window
// reopens, i.e. while the peer has not signed the first one back.
func (c *vchCtx) genDanceCut(p int) {
	r := c.r
	q := 1 - p
	ok := func() bool { return c.abort == "" }
	update := func() {
		res := c.resolvable(p)
		switch x := r.intn(10); {
		case p == 0 && !c.noFee && x < 5:
			c.doFee(0, c.pickFee(), false)
		case len(res) > 0 && x < 8:
			c.doResolve([]string{"settle", "fail", "malformed"}[r.intn(3)],
				p, res[r.intn(len(res))], false, false)
		default:
			c.genAdd(p)
		}
	}
	flush := func(to int) {
		for ok() && c.canDeliver(to) {
			c.doDeliver(to)
		}
	}
	stop := r.intn(9)
	second := r.intn(3) == 0
	update()
	if r.intn(3) == 0 {
		update()
	}
	stages := []func(){
		func() { c.doSign(p) },
		func() { flush(q) },
		func() {
			if c.hasLtip(q) {
				c.doRevoke(q)
			}
		},
		func() {
			flush(p)
			if second && ok() && c.windowOpen(p) {
				update()
				if ok() && c.owes(p) {
					c.doSign(p)
				}
			}
		},
		func() {
			if c.windowOpen(q) && c.owes(q) {
				c.doSign(q)
			}
		},
		func() { flush(p) },
		func() {
			if c.hasLtip(p) {
				c.doRevoke(p)
			}
		},
		func() { flush(q) },
	}
	for i, st := range stages {
		if !ok() {
			return
		}
		st()
		if i == stop {
			break
		}
	}
	if ok() && c.cut {
		c.doCut(0, 0)
	}
}

func (c *vchCtx) calm() bool {
	for p := 0; p < 2; p++ {
		if c.hasLtip(p) || !c.windowOpen(p) || len(c.q[p]) > 0 {
			return false
		}
	}
	return true
}

func (c *vchCtx) run(maxSteps int) {
	r := c.r
	if c.cut && r.intn(5) == 0 {
		// a dance with a restart on the brand-new channel
		c.genDanceCut(r.intn(3) / 2) // the opener twice as often
	}
	if c.cut {
		// each resolution kind gets its directed restart scenario in a
		// fifth of the cases
		for _, kind := range []string{"settle", "fail", "malformed"} {
			if r.intn(5) == 0 && c.abort == "" {
				c.genResolveCut(kind)
			}
		}
		if n := len(c.steps) + maxSteps/2; n > maxSteps {
			maxSteps = n
		}
	}
	for len(c.steps) < maxSteps && c.abort == "" {
		x := r.intn(1000)
		switch {
		case c.cut && x >= 300 && x < 340 && c.calm():
			c.genDanceCut(r.intn(2))
		case c.sideOn && x >= 400 && x < 450:
			c.genSide()
		case c.sideOn && x >= 450 && x < 465:
			c.doSide(r.intn(2), []string{"refresh", "refetch"}[r.intn(2)])
		case c.crash && x < 83:
			c.doCrash(r.intn(2))
		case c.cut && x >= 100 && x < 150:
			c.genCut()
		case x >= 200 && x < 250:
			c.genMalformed()
		default:
			c.genMain()
		}
	}
	c.drain()
}

// quiesce delivers everything and signs / revokes until both sides are clean.
func (c *vchCtx) quiesce() {
	for iter := 0; iter < 40 && c.abort == ""; iter++ {
		progressed := false
		for p := 0; p < 2 && c.abort == ""; p++ {
			for c.canDeliver(p) && c.abort == "" {
				c.doDeliver(p)
				progressed = true
			}
		}
		for p := 0; p < 2 && c.abort == ""; p++ {
			if c.hasLtip(p) {
				c.doRevoke(p)
				progressed = true
			}
		}
		for p := 0; p < 2 && c.abort == ""; p++ {
			if c.owes(p) && c.windowOpen(p) {
				c.doSign(p)
				progressed = true
			}
		}
		if !progressed {
			break
		}
	}
}

// drain = quiesce + one last side write + a reload observation of both sides.
func (c *vchCtx) drain() {
	c.quiesce()
	if c.abort == "" && c.sideOn {
		c.doSide(c.r.intn(2), vchSideKinds[c.r.intn(len(vchSideKinds))])
	}
	if c.abort == "" && c.crash {
		c.doCrash(0)
		c.doCrash(1)
	}
}

// genResolveCut is a directed snippet around the resolution of a locked-in
// HTLC: p resolves (settle | fail | malformed) an incoming HTLC - one is
// offered and locked in first if there is none -, signs, the peer revokes, and
// the connection is cut at a chosen stage, most often in the window "peer's
// revoke_and_ack processed, peer's next commit_sig not yet" (the resolution
// then lives only in remoteUnsignedLocalUpdates), with the peer's own new add +
// signature lost in flight.  After the restart p (sometimes) adds something
// and both sides sign until clean.
func (c *vchCtx) genResolveCut(kind string) {
	r := c.r
	p := r.intn(2)
	q := 1 - p
	ok := func() bool { return c.abort == "" }
	flush := func(to int) {
		for ok() && c.canDeliver(to) {
			c.doDeliver(to)
		}
	}
	c.quiesce()
	if !ok() {
		return
	}
	res := c.resolvable(p)
	if len(res) == 0 {
		amt := lnwire.MilliSatoshi(r.rng(5_000_000, 900_000_000))
		if r.intn(4) == 0 {
			amt = c.pickAmt(q)
		}
		hid := c.nHash
		c.nHash++
		if c.doAdd(q, amt, uint32(100+r.intn(8)), hid, false) != "ok" {
			return
		}
		c.quiesce()
		if res = c.resolvable(p); !ok() || len(res) == 0 {
			return
		}
	}
	if c.doResolve(kind, p, res[r.intn(len(res))], false, false) != "ok" {
		return
	}
	stop := []int{3, 3, 3, 4, 4, 4, 0, 1, 2, 5}[r.intn(10)]
	prefix := 0
	stages := []func(){
		func() { c.doSign(p) },
		func() { flush(q) },
		func() {
			if c.hasLtip(q) {
				c.doRevoke(q)
			}
		},
		func() { flush(p) },
		func() {
			// the peer's next flight: maybe a new add, and the signature
			// that covers p's resolution
			if r.intn(3) > 0 {
				c.genAdd(q)
			}
			if ok() && c.windowOpen(q) && c.owes(q) {
				c.doSign(q)
			}
			if r.intn(3) == 0 && len(c.q[p]) > 1 {
				prefix = len(c.q[p]) - 1 // updates arrive, the sig is lost
			}
		},
		func() { flush(p) },
	}
	for i, st := range stages {
		if !ok() {
			return
		}
		st()
		if i == stop {
			break
		}
	}
	if !ok() {
		return
	}
	if c.cut {
		c.doCut(prefix, 0)
	}
	if ok() && r.bool() {
		c.genAdd(p)
	}
	c.quiesce()
}

func (c *vchCtx) clean() bool {
	for p := 0; p < 2; p++ {
		lc := c.ch[p]
		if len(c.q[p]) > 0 || c.hasLtip(p) ||
			lc.commitChains.Remote.hasUnackedCommitment() ||
			lc.OweCommitment() || lc.NeedCommitment() {

			return false
		}
	}
	return true
}

func (c *vchCtx) cfg(name string) map[string]any {
	side := func(lc *LightningChannel) map[string]any {
		l := lc.channelState.LocalChanCfg
		return map[string]any{
			"dust":             int64(l.DustLimit),
			"reserve":          int64(l.ChanReserve),
			"max_htlcs":        l.MaxAcceptedHtlcs,
			"max_pending_msat": uint64(l.MaxPendingAmount),
			"min_htlc_msat":    uint64(l.MinHTLC),
		}
	}
	var tw, sw int64
	switch {
	case c.ct.ZeroHtlcTxFee() || c.ct.IsTaproot():
	case c.ct.HasAnchors():
		tw, sw = input.HtlcTimeoutWeightConfirmed,
			input.HtlcSuccessWeightConfirmed
	default:
		tw, sw = input.HtlcTimeoutWeight, input.HtlcSuccessWeight
	}
	initiator := "b"
	if c.ch[0].channelState.IsInitiator {
		initiator = "a"
	}
	return map[string]any{
		"capacity_sat":        int64(c.ch[0].Capacity),
		"anchors":             c.ct.HasAnchors(),
		"zero_fee_htlc":       c.ct.ZeroHtlcTxFee(),
		"taproot":             c.ct.IsTaproot(),
		"chan_type_bits":      uint64(c.ct),
		"initiator":           initiator,
		"commit_weight":       int64(CommitWeight(c.ct)),
		"htlc_weight":         int64(input.HTLCWeight),
		"htlc_timeout_weight": tw,
		"htlc_success_weight": sw,
		"anchor_size":         int64(AnchorSize),
		"a":                   side(c.ch[0]),
		"b":                   side(c.ch[1]),
		"fee_floor":           int64(chainfee.FeePerKwFloor),
	}
}

func vchSelectTypes() []vchType {
	s := os.Getenv("VERIF_CHAN_TYPES")
	if s == "" {
		return vchTypes
	}
	var out []vchType
	for _, n := range strings.Split(s, ",") {
		n = strings.TrimSpace(n)
		for _, t := range vchTypes {
			if t.name == n {
				out = append(out, t)
			}
		}
	}
	if len(out) == 0 {
		panic("VERIF_CHAN_TYPES: no known channel type in " + s)
	}
	return out
}

// vchScript is an explicit op list (same syntax as the "op" entries of the
// trace, plus ["drain"]) replayed verbatim: VERIF_CHAN_SCRIPT=<file> holding
// one object or a list of objects {"chan_type": name, "ops": [[...], ...]}.
type vchScript struct {
	ChanType   string  `json:"chan_type"`
	Ops        [][]any `json:"ops"`
	ExpectLast string  `json:"expect_last"` // copied into the row
	Backend    string  `json:"backend"`     // "" | bbolt | sqlite (if linked in)
	Retry      *bool   `json:"retry"`       // force / forbid the kvdb RETRY mode
	origin     string
}

func vchNum(v any) int64 {
	switch x := v.(type) {
	case float64:
		return int64(x)
	case json.Number:
		n, _ := x.Int64()
		return n
	}
	panic(fmt.Sprintf("vch script: number expected, got %v", v))
}

func vchSide(v any) int {
	switch v {
	case "a":
		return 0
	case "b":
		return 1
	}
	panic(fmt.Sprintf("vch script: party expected, got %v", v))
}

func (c *vchCtx) runScript(ops [][]any) {
	for _, op := range ops {
		if c.abort != "" {
			return
		}
		switch op[0] {
		case "add":
			c.doAdd(vchSide(op[1]), lnwire.MilliSatoshi(vchNum(op[2])),
				uint32(vchNum(op[3])), vchNum(op[4]), false)
		case "settle", "fail", "malformed":
			c.doResolve(op[0].(string), vchSide(op[1]),
				uint64(vchNum(op[2])), false, false)
		case "fee":
			c.doFee(vchSide(op[1]), vchNum(op[2]), false)
		case "sign":
			c.doSign(vchSide(op[1]))
		case "revoke":
			c.doRevoke(vchSide(op[1]))
		case "deliver":
			c.doDeliver(vchSide(op[1]))
		case "crash":
			c.doCrash(vchSide(op[1]))
		case "cut":
			c.doCut(int(vchNum(op[1])), int(vchNum(op[2])))
		case "liveprobe":
			mode := "ll"
			if len(op) > 1 {
				mode = op[1].(string)
			}
			c.doLiveProbe(mode)
			return // terminal
		case "crashin":
			c.doCrashIn(vchSide(op[1]), op[2].(string), int(vchNum(op[3])))
		case "side":
			c.doSide(vchSide(op[1]), op[2].(string))
		case "drain":
			c.drain()
		default:
			panic(fmt.Sprintf("vch script: unknown op %v", op))
		}
	}
}

func vchLoadScripts(path string) []vchScript {
	raw, err := os.ReadFile(path)
	if err != nil {
		panic(err)
	}
	var many []vchScript
	dec := json.NewDecoder(bytes.NewReader(raw))
	dec.UseNumber()
	if err := dec.Decode(&many); err != nil {
		var one vchScript
		dec = json.NewDecoder(bytes.NewReader(raw))
		dec.UseNumber()
		if err := dec.Decode(&one); err != nil {
			panic("vch script " + path + ": " + err.Error())
		}
		many = []vchScript{one}
	}
	for i := range many {
		many[i].origin = fmt.Sprintf("%s#%d", filepath.Base(path), i)
	}
	return many
}

// vchLoadCorpus reads every *.json of a directory (sorted by name).
func vchLoadCorpus(dir string) []vchScript {
	files, err := filepath.Glob(filepath.Join(dir, "*.json"))
	if err != nil {
		panic(err)
	}
	sort.Strings(files)
	var out []vchScript
	for _, f := range files {
		out = append(out, vchLoadScripts(f)...)
	}
	return out
}

// vchCorpusBase: case numbers of corpus / script rows start here.
const vchCorpusBase = 1000000

func TestVerifChan(t *testing.T) {
	out := vOpenOut()
	defer out.close()
	master := vNewRng(vSeed())
	ncases := vCases(60, 1500)
	types := vchSelectTypes()
	maxDef := int64(60)
	if vTier() == "thorough" {
		maxDef = 90
	}
	maxSteps := int(vEnvInt("VERIF_MAXSTEPS", maxDef))
	crashOn := vEnvInt("VERIF_CRASH", 1) != 0
	cutOn := vEnvInt("VERIF_CUT", 1) != 0
	first := int(vEnvInt("VERIF_FIRST_CASE", 0))
	sideDef := int64(0)
	if crashOn {
		sideDef = 1
	}
	sideOn := vEnvInt("VERIF_SIDE", sideDef) != 0
	cutDef := int64(0)
	if cutOn {
		cutDef = 1
	}
	crashInOn := vEnvInt("VERIF_CRASHIN", cutDef) != 0
	probeOn := vEnvInt("VERIF_LIVEPROBE", cutDef) != 0
	probePct := int64(50)
	if vTier() == "thorough" {
		probePct = 100
	}
	probePct = vEnvInt("VERIF_LIVEPROBE_PCT", probePct)

	// kvdb backend below the channel DBs: VERIF_CHAN_BACKEND = bbolt | sqlite
	// | mix (default; VERIF_CHAN_SQLITE_PCT percent of the cases on sqlite:
	// 15 quick / 50 thorough).  sqlite needs the kvdb_sqlite build tag.
	backendMode := os.Getenv("VERIF_CHAN_BACKEND")
	if backendMode == "" {
		backendMode = "mix"
	}
	sqlitePct := int64(15)
	if vTier() == "thorough" {
		sqlitePct = 50
	}
	sqlitePct = vEnvInt("VERIF_CHAN_SQLITE_PCT", sqlitePct)
	switch backendMode {
	case "bbolt":
		sqlitePct = 0
	case "sqlite":
		sqlitePct = 100
	case "mix":
	default:
		t.Fatalf("VERIF_CHAN_BACKEND=%q", backendMode)
	}
	if vchSqliteOpen == nil {
		if backendMode == "sqlite" {
			t.Fatalf("VERIF_CHAN_BACKEND=sqlite needs -tags kvdb_sqlite")
		}
		sqlitePct = 0
	}

	// Explicit schedules first: VERIF_CHAN_SCRIPT=<file> runs ONLY that
	// file; VERIF_CHAN_CORPUS=<dir> runs every *.json of the directory
	// before the generated cases.
	var scripts []vchScript
	if p := os.Getenv("VERIF_CHAN_SCRIPT"); p != "" {
		scripts = vchLoadScripts(p)
		ncases = 0
	} else if d := os.Getenv("VERIF_CHAN_CORPUS"); d != "" {
		scripts = vchLoadCorpus(d)
	}

	runCase := func(name string, ci int, sc *vchScript) {
		// One subtest per schedule so that databases, temp dirs and
		// signature pools are released as soon as the schedule ends.
		t.Run(name, func(t *testing.T) {
			r := master.fork(uint64(ci))
			ty := types[ci%len(types)]
			if sc != nil {
				ty = vchType{}
				for _, x := range vchTypes {
					if x.name == sc.ChanType {
						ty = x
					}
				}
				if ty.name == "" {
					t.Fatalf("script %s: unknown chan_type %q",
						sc.origin, sc.ChanType)
				}
			}
			a, b, err := CreateTestChannels(t, ty.ct)
			if err != nil {
				t.Fatalf("CreateTestChannels(%s): %v", ty.name, err)
			}
			// Move both channels onto DBs of their own: chosen kvdb
			// backend below a transaction-counting / crashing wrapper.
			backend := "bbolt"
			if int64(master.fork(uint64(ci)^0x5bd1e995).intn(100)) <
				sqlitePct {

				backend = "sqlite"
			}
			if sc != nil && sc.Backend != "" {
				backend = "bbolt"
				if sc.Backend == "sqlite" && vchSqliteOpen != nil &&
					backendMode != "bbolt" {

					backend = "sqlite"
				}
			}
			paramsOn := vEnvInt("VERIF_CHAN_PARAMS", 1) != 0
			if paramsOn {
				vchSetParams(master.fork(uint64(ci)^0x7a3d51), a, b)
			}
			// DB OPTIONS that change what the state-machine transactions
			// write, drawn per case and party (VERIF_CHAN_DBOPTS=0: none):
			// store-final-htlc-resolutions (UpdateChannelCommitment then
			// also writes the final-htlcs bucket), no-revlog-amt-data
			// (revocation-log entries without amounts),
			// tombstone-closed-channels, a test clock.
			var dbs [2]*vchStopDB
			dbOpts := map[string]any{}
			for i, lc := range []*LightningChannel{a, b} {
				var mods []channeldb.OptionModifier
				o := map[string]bool{}
				if vEnvInt("VERIF_CHAN_DBOPTS", 1) != 0 {
					or := master.fork(uint64(ci)*2 + uint64(i) ^ 0x51c3a7)
					o["store_final_htlc_resolutions"] = or.intn(2) == 0
					o["no_revlog_amt_data"] = or.intn(4) == 0
					o["tombstone_closed_channels"] = or.intn(2) == 0
					o["test_clock"] = or.intn(2) == 0
					mods = append(mods,
						channeldb.OptionStoreFinalHtlcResolutions(
							o["store_final_htlc_resolutions"]),
						channeldb.OptionNoRevLogAmtData(
							o["no_revlog_amt_data"]),
						channeldb.OptionTombstoneClosedChannels(
							o["tombstone_closed_channels"]))
					if o["test_clock"] {
						mods = append(mods, channeldb.OptionClock(
							clock.NewTestClock(time.Unix(1_700_000_000, 0))))
					}
				}
				dbOpts[vchNames[i]] = o
				dbs[i], err = vchMigrate(t, lc, backend, 18556-i, mods...)
				if err != nil {
					t.Fatalf("vchMigrate(%s): %v", backend, err)
				}
			}
			for _, lc := range []*LightningChannel{a, b} {
				if err := vchMakeDestPkg(lc.channelState); err != nil {
					t.Fatalf("vchMakeDestPkg: %v", err)
				}
			}
			// RETRY mode of the kvdb wrappers (VERIF_CHAN_RETRY_PCT percent
			// of the cases, default 25, on either backend)
			kvRetry := int64(master.fork(uint64(ci)^0x2f6b1d).intn(100)) <
				vEnvInt("VERIF_CHAN_RETRY_PCT", 25)
			if sc != nil && sc.Retry != nil {
				kvRetry = *sc.Retry
			}
			for _, d := range dbs {
				d.retry = kvRetry
			}
			c := &vchCtx{
				db: dbs, backend: backend, crashIn: crashInOn,
				maxTx:  map[string]int{},
				refsOn: vEnvInt("VERIF_CHAN_REFS", 1) != 0,
				addRef: [2]map[uint64]channeldb.AddRef{{}, {}},
				destIdx: [2]map[uint64]uint16{{}, {}},
				r: r, ct: a.channelState.ChanType,
				ch: [2]*LightningChannel{a, b},
				chanID: lnwire.NewChanIDFromOutPoint(
					a.channelState.FundingOutpoint,
				),
				hashID: map[[32]byte]int64{},
				crash:  crashOn, cut: cutOn,
				freeRev:    vEnvInt("VERIF_CHAN_FREE_REV", 0) != 0,
				noFreshFee: vEnvInt("VERIF_CHAN_NO_FRESH_FEE", 0) != 0,
				noFee:      vEnvInt("VERIF_CHAN_FEE", 1) == 0,
				sideOn:     sideOn || sc != nil,
			}
			if c.sideOn {
				for p := 0; p < 2; p++ {
					if err := c.sideFetch(p); err != nil {
						t.Fatalf("side fetch: %v", err)
					}
				}
			}
			steps := maxSteps
			if r.intn(6) == 0 {
				steps = maxSteps / 3 // some short schedules
			}
			row := map[string]any{
				"case": ci, "seed": vSeed(), "chan_type": ty.name,
				"backend": backend, "kvdb_retry": kvRetry, "db_opts": dbOpts,
				"cfg":     c.cfg(ty.name),
				"init": map[string]any{
					"a": c.partyDump(a), "b": c.partyDump(b),
				},
			}
			row["init_params"] = map[string]any{
				"a": vchParams(a.channelState),
				"b": vchParams(b.channelState),
			}
			c.prevHL = [2]map[string]any{vchHL(a), vchHL(b)}
			row["init_hl"] = map[string]any{"a": c.prevHL[0], "b": c.prevHL[1]}
			if sc != nil {
				c.freeRev = true
				c.runScript(sc.Ops)
				row["script"] = true
				row["corpus"] = sc.origin
				row["expect_last"] = nil
				if sc.ExpectLast != "" {
					row["expect_last"] = sc.ExpectLast
				}
			} else {
				c.run(steps)
			}
			finalClean := c.abort == "" && (c.probed || c.clean())
			// LIVE-RESYNC PROBE (VERIF_LIVEPROBE, default = VERIF_CUT;
			// VERIF_LIVEPROBE_PCT of the generated cases: 50 quick / 100
			// thorough): after the drained end of the schedule a short
			// epilogue + the terminal liveprobe step.
			if sc == nil && probeOn && c.abort == "" && !c.probed &&
				int64(r.intn(100)) < probePct {

				c.probeEpilogue()
				if c.abort == "" {
					c.doLiveProbe([]string{"ll", "ll", "ll", "lr",
						"rl"}[r.intn(5)])
				}
				row["probe_epilogue"] = true
			}
			row["steps"] = c.steps
			row["aborted"] = nil
			if c.abort != "" {
				row["aborted"] = c.abort
			}
			row["final_clean"] = finalClean
			row["n_sign"] = c.nSign
			out.emit(row)
		})
	}

	for i := range scripts {
		runCase(fmt.Sprintf("s%d", i), vchCorpusBase+i, &scripts[i])
	}
	for ci := first; ci < first+ncases; ci++ {
		runCase(fmt.Sprintf("c%d", ci), ci, nil)
	}
}
