//go:build verif && kvdb_sqlite

package lnwallet

import "github.com/lightningnetwork/lnd/kvdb"

// Only built with `-tags "verif kvdb_sqlite"`: links the sqlite-backed kvdb
// backend (kvdb/sqlite on modernc.org/sqlite - pure Go, in the module cache)
// and makes it available to verif_chan_test.go.  Without this file (or without
// the tag) the channel harness runs on bbolt only.
func init() {
	vchSqliteOpen = func(dir string) (kvdb.Backend, error) {
		return kvdb.StartSqliteTestBackend(
			dir, "channel.sqlite", "vch_channel",
		)
	}
}
