//go:build verif

package lnwallet

// C04 / C05 channel-history harness (see /verif/notes/C04.md, C05.md).
//
// It drives two REAL LightningChannels through the seeded schedules of
// verif_chan_test.go (the vch op functions and generators are called, never
// edited) and, around them,
//
//   C04  captures the fully signed commitment transaction of a party before it
//        is revoked, and later asks the counterparty's REAL NewBreachRetribution
//        (live state and state reloaded from disk; with the spend transaction
//        and without it; with and without stored amount data) for the material
//        to punish it; a justice transaction is assembled as
//        contractcourt/breach_arbitrator.go does (witness-type table of
//        newRetributionInfo, sequence of BlocksToMaturity, one sweep output,
//        input.MultiPrevOutFetcher for signing), signed with the victim's real
//        signer through WitnessType.WitnessGenerator, and every input is run
//        through the real txscript engine against the REAL outputs of the
//        captured revoked transaction.  Also: state hint, revocation-log
//        entry vs transaction, the second-level variant.
//   C05  at sampled states (incl. pending remote commitments, after reloads)
//        and for every commitment that ever becomes a local tail:
//        NewLocalForceCloseSummary / NewUnilateralCloseSummary on the
//        persisted state; every second-level transaction and a sweep of every
//        sign descriptor is engine-validated against the real outputs.
//
// Every identifier defined here is prefixed vpu.

import (
	"bytes"
	"encoding/binary"
	"encoding/hex"
	"errors"
	"fmt"
	"os"
	"sort"
	"strings"
	"testing"

	"github.com/btcsuite/btcd/txscript/v2"
	"github.com/btcsuite/btcd/wire/v2"
	"github.com/lightningnetwork/lnd/chainntnfs"
	"github.com/lightningnetwork/lnd/channeldb"
	"github.com/lightningnetwork/lnd/fn/v2"
	"github.com/lightningnetwork/lnd/input"
	"github.com/lightningnetwork/lnd/lnwire"
)

const vpuConfHeight = 500

type vpuSecond struct {
	tx       *wire.MsgTx
	incoming bool // from the commitment owner's point of view
}

// vpuCap is what the world may see of a commitment that is about to be revoked.
type vpuCap struct {
	h      uint64
	tx     *wire.MsgTx
	signed bool
	dump   map[string]any
	local  map[string]any        // C05 (1) report of the owner at capture time
	second map[uint32]*vpuSecond // owner's second-level txs by commitment output index
}

type vpuCtx struct {
	c          *vchCtx
	caps       [2]map[uint64]*vpuCap
	lastCap    [2]int64
	gaps       []string
	samples    []map[string]any
	maxSamples int
	noAmt      bool

	// C05_htlc_sig_index: views of signed commitments (signer / verifier side)
	views    map[string]*vpuSortObs
	viewKeys []string
	dupMode  bool
	nDupAdds int
}

func vpuErr(err error) string {
	if err == nil {
		return ""
	}
	s := err.Error()
	// never "" for a non-nil error: btcd reports an invalid taproot
	// key-spend signature as txscript.Error{ErrTaprootSigInvalid, ""}, whose
	// Error() text is EMPTY - as a string it would read "accepted"
	var se txscript.Error
	if errors.As(err, &se) {
		s = se.ErrorCode.String() + ": " + se.Description
	}
	if s == "" {
		s = fmt.Sprintf("error of type %T with an empty message", err)
	}
	if len(s) > 160 {
		s = s[:160]
	}
	return s
}

// vpuSafe turns a panic of the code under test into an error string.
func vpuSafe(f func() error) (res string) {
	defer func() {
		if p := recover(); p != nil {
			s := fmt.Sprint(p)
			if len(s) > 160 {
				s = s[:160]
			}
			res = "panic:" + s
		}
	}()
	return vpuErr(f())
}

// vpuEngine runs the real script engine on input idx of tx against the given
// previous output.  "" = accepted.
func vpuEngine(pk []byte, amt int64, tx *wire.MsgTx, idx int,
	fetcher txscript.PrevOutputFetcher) string {

	return vpuSafe(func() error {
		hc := txscript.NewTxSigHashes(tx, fetcher)
		vm, err := txscript.NewEngine(
			pk, tx, idx, txscript.StandardVerifyFlags, nil, hc, amt,
			fetcher,
		)
		if err != nil {
			return fmt.Errorf("engine: %w", err)
		}
		return vm.Execute()
	})
}

var vpuSweepPk = append([]byte{txscript.OP_1, 32}, bytes.Repeat([]byte{7}, 32)...)

// vpuSweep builds a one-input sweep of inp the way the sweeper does (sequence
// = BlocksToMaturity, locktime = RequiredLockTime, signing prev-out fetcher
// from the sign descriptors), signs through the input's own CraftInputScript
// and runs the engine against the REAL previous output.
func vpuSweep(signer input.Signer, inp input.Input, real *wire.TxOut,
	realOp wire.OutPoint) map[string]any {

	out := map[string]any{
		"seq": inp.BlocksToMaturity(), "lock": 0,
		"sd_amt": inp.SignDesc().Output.Value,
	}
	if inp.OutPoint() != realOp {
		out["ok"] = "outpoint_mismatch"
		return out
	}
	tx := wire.NewMsgTx(2)
	tx.AddTxIn(&wire.TxIn{
		PreviousOutPoint: inp.OutPoint(),
		Sequence:         inp.BlocksToMaturity(),
	})
	if lt, ok := inp.RequiredLockTime(); ok {
		tx.LockTime = lt
		out["lock"] = lt
	}
	v := real.Value - 150
	if v < 0 {
		v = 0
	}
	tx.AddTxOut(&wire.TxOut{PkScript: vpuSweepPk, Value: v})
	res := vpuSafe(func() error {
		fetcher, err := input.MultiPrevOutFetcher([]input.Input{inp})
		if err != nil {
			return err
		}
		hc := txscript.NewTxSigHashes(tx, fetcher)
		sc, err := inp.CraftInputScript(signer, tx, hc, fetcher, 0)
		if err != nil {
			return fmt.Errorf("craft: %w", err)
		}
		tx.TxIn[0].Witness = sc.Witness
		return nil
	})
	if res == "" {
		res = vpuEngine(real.PkScript, real.Value, tx, 0,
			txscript.NewCannedPrevOutputFetcher(real.PkScript, real.Value))
	}
	out["ok"] = res
	return out
}

func vpuOuts(tx *wire.MsgTx) []int64 {
	o := make([]int64, len(tx.TxOut))
	for i, x := range tx.TxOut {
		o[i] = x.Value
	}
	return o
}

// ---------------------------------------------------------------------------
// C05 (1): own commitment

func vpuSecondLevelType(ct channeldb.ChannelType, incoming bool) input.StandardWitnessType {
	switch {
	case ct.IsTaprootFinal() && incoming:
		return input.TaprootHtlcAcceptedSuccessSecondLevelFinal
	case ct.IsTaprootFinal():
		return input.TaprootHtlcOfferedTimeoutSecondLevelFinal
	case ct.IsTaproot() && incoming:
		return input.TaprootHtlcAcceptedSuccessSecondLevel
	case ct.IsTaproot():
		return input.TaprootHtlcOfferedTimeoutSecondLevel
	case incoming:
		return input.HtlcAcceptedSuccessSecondLevel
	}
	return input.HtlcOfferedTimeoutSecondLevel
}

// vpuLeaseCltv mirrors htlcLeaseResolver.hasCLTV / commitSweepResolver.hasCLTV.
func vpuLeaseCltv(lc *LightningChannel) (uint32, bool) {
	st := lc.channelState
	if st.ChanType.HasLeaseExpiration() && st.IsInitiator && st.ThawHeight > 0 {
		return st.ThawHeight, true
	}
	return 0, false
}

func vpuCsvInput(lc *LightningChannel, op *wire.OutPoint,
	wt, leaseWt input.StandardWitnessType, sd *input.SignDescriptor,
	csv uint32) input.Input {

	d := *sd
	if lease, ok := vpuLeaseCltv(lc); ok {
		return input.NewCsvInputWithCltv(op, leaseWt, &d, vpuConfHeight, csv, lease)
	}
	return input.NewCsvInput(op, wt, &d, vpuConfHeight, csv)
}

func vpuAnchorReport(lc *LightningChannel, ar *AnchorResolution,
	commitTx *wire.MsgTx) map[string]any {

	if ar == nil {
		return nil
	}
	wt := input.StandardWitnessType(input.CommitmentAnchor)
	if lc.channelState.ChanType.IsTaproot() {
		wt = input.TaprootAnchorSweepSpend
	}
	rep := map[string]any{"idx": ar.CommitAnchor.Index}
	if ar.CommitAnchor.Hash != commitTx.TxHash() ||
		int(ar.CommitAnchor.Index) >= len(commitTx.TxOut) {

		rep["ok"] = "bad_outpoint"
		return rep
	}
	real := commitTx.TxOut[ar.CommitAnchor.Index]
	rep["amt"] = real.Value
	d := ar.AnchorSignDescriptor
	inp := input.NewBaseInput(&ar.CommitAnchor, wt, &d, vpuConfHeight)
	for k, v := range vpuSweep(lc.Signer, inp, real, ar.CommitAnchor) {
		rep[k] = v
	}
	return rep
}

func (u *vpuCtx) preimageFor(htlcs []channeldb.HTLC, incoming bool,
	outIdx uint32) ([32]byte, *channeldb.HTLC) {

	for i := range htlcs {
		h := &htlcs[i]
		if h.Incoming == incoming && h.OutputIndex >= 0 &&
			uint32(h.OutputIndex) == outIdx {

			pre, _ := vchPreimage(u.c.hid(h.RHash))
			return pre, h
		}
	}
	return [32]byte{}, nil
}

// closeLocal: lc's own latest persisted commitment confirms.
func (u *vpuCtx) closeLocal(lc *LightningChannel) (map[string]any,
	*wire.MsgTx, bool, map[uint32]*vpuSecond) {

	st := lc.channelState
	ct := st.ChanType
	h := st.LocalCommitment.CommitHeight
	rep := map[string]any{"h": h}
	seconds := map[uint32]*vpuSecond{}
	var commitTx *wire.MsgTx
	signed := true
	if e := vpuSafe(func() error {
		var err error
		commitTx, err = lc.getSignedCommitTx()
		return err
	}); e != "" {
		signed = false
		commitTx = st.LocalCommitment.CommitTx.Copy()
		rep["sign_err"] = e
	}
	rep["txid"] = commitTx.TxHash().String()
	rep["outs"] = vpuOuts(commitTx)
	fund := lc.signDesc.Output
	switch {
	case h == 0:
		// the height-0 commitment carries the fixture's dummy signature
		rep["fund_ok"] = "skipped_h0"
	case !signed:
		rep["fund_ok"] = "unsigned"
	default:
		rep["fund_ok"] = vpuEngine(fund.PkScript, fund.Value, commitTx, 0,
			txscript.NewCannedPrevOutputFetcher(fund.PkScript, fund.Value))
	}
	var sum *LocalForceCloseSummary
	if e := vpuSafe(func() error {
		var err error
		sum, err = NewLocalForceCloseSummary(
			st, lc.Signer, commitTx, vpuConfHeight, h, lc.leafStore,
			lc.auxResolver,
		)
		return err
	}); e != "" {
		rep["err"] = e
		return rep, commitTx, signed, seconds
	}
	rep["err"] = nil
	res, ok := sum.ContractResolutions.UnwrapOr(ContractResolutions{}), sum.ContractResolutions.IsSome()
	if !ok {
		rep["err"] = "no resolutions"
		return rep, commitTx, signed, seconds
	}
	txid := commitTx.TxHash()

	rep["to_local"] = nil
	if cr := res.CommitResolution; cr != nil {
		t := map[string]any{"idx": cr.SelfOutPoint.Index, "csv": cr.MaturityDelay}
		if cr.SelfOutPoint.Hash != txid ||
			int(cr.SelfOutPoint.Index) >= len(commitTx.TxOut) {

			t["ok"] = "bad_outpoint"
		} else {
			real := commitTx.TxOut[cr.SelfOutPoint.Index]
			t["amt"] = real.Value
			var wt input.StandardWitnessType
			switch {
			case ct.IsTaprootFinal():
				wt = input.TaprootLocalCommitSpendFinal
			case ct.IsTaproot():
				wt = input.TaprootLocalCommitSpend
			default:
				wt = input.CommitmentTimeLock
			}
			inp := vpuCsvInput(lc, &cr.SelfOutPoint, wt,
				input.LeaseCommitmentTimeLock, &cr.SelfOutputSignDesc,
				cr.MaturityDelay)
			for k, v := range vpuSweep(lc.Signer, inp, real, cr.SelfOutPoint) {
				t[k] = v
			}
		}
		rep["to_local"] = t
	}
	rep["anchor"] = vpuAnchorReport(lc, res.AnchorResolution, commitTx)

	htlcs := []map[string]any{}
	second := func(tx *wire.MsgTx, incoming bool, csv uint32,
		claim wire.OutPoint, sd *input.SignDescriptor, expiry uint32) {

		e := map[string]any{"inc": 0, "expiry": expiry}
		if incoming {
			e["inc"] = 1
		}
		htlcs = append(htlcs, e)
		if tx == nil {
			e["second_ok"] = "no_second_level_tx"
			return
		}
		prev := tx.TxIn[0].PreviousOutPoint
		e["out_idx"] = prev.Index
		if prev.Hash != txid || int(prev.Index) >= len(commitTx.TxOut) {
			e["second_ok"] = "bad_outpoint"
			return
		}
		real := commitTx.TxOut[prev.Index]
		e["amt"] = real.Value
		tx = tx.Copy()
		pre, hd := u.preimageFor(st.LocalCommitment.Htlcs, incoming, prev.Index)
		if hd != nil {
			e["htlc_index"] = hd.HtlcIndex
			e["amt_msat"] = uint64(hd.Amt)
			e["hash_id"] = u.c.hid(hd.RHash)
		}
		if incoming {
			// the contract resolver supplies the preimage
			slot := 3
			if ct.IsTaproot() {
				slot = 2
			}
			if len(tx.TxIn[0].Witness) > slot {
				tx.TxIn[0].Witness[slot] = pre[:]
			}
		}
		e["lock"] = tx.LockTime
		e["seq"] = tx.TxIn[0].Sequence
		e["second_ok"] = vpuEngine(real.PkScript, real.Value, tx, 0,
			txscript.NewCannedPrevOutputFetcher(real.PkScript, real.Value))
		seconds[prev.Index] = &vpuSecond{tx: tx, incoming: incoming}

		// sweep of the second-level output after the CSV delay
		want := wire.OutPoint{Hash: tx.TxHash(), Index: 0}
		e["second_amt"] = tx.TxOut[0].Value
		e["csv"] = csv
		wt := vpuSecondLevelType(ct, incoming)
		leaseWt := input.StandardWitnessType(input.LeaseHtlcOfferedTimeoutSecondLevel)
		if incoming {
			leaseWt = input.LeaseHtlcAcceptedSuccessSecondLevel
		}
		cl := claim
		inp := vpuCsvInput(lc, &cl, wt, leaseWt, sd, csv)
		sw := vpuSweep(lc.Signer, inp, tx.TxOut[0], want)
		e["sweep_ok"] = sw["ok"]
		e["sweep_seq"] = sw["seq"]
		e["sweep_sd_amt"] = sw["sd_amt"]
	}
	if hr := res.HtlcResolutions; hr != nil {
		for i := range hr.OutgoingHTLCs {
			r := &hr.OutgoingHTLCs[i]
			second(r.SignedTimeoutTx, false, r.CsvDelay, r.ClaimOutpoint,
				&r.SweepSignDesc, r.Expiry)
		}
		for i := range hr.IncomingHTLCs {
			r := &hr.IncomingHTLCs[i]
			second(r.SignedSuccessTx, true, r.CsvDelay, r.ClaimOutpoint,
				&r.SweepSignDesc, 0)
		}
	}
	rep["htlcs"] = htlcs
	return rep, commitTx, signed, seconds
}

// ---------------------------------------------------------------------------
// C05 (2): the counterparty's current / pending commitment confirms

// peerSigned returns the counterparty's own fully signed transaction for its
// commitment height h, if it currently holds one (tail from disk state, tip
// from the in-memory local chain).
func vpuPeerSigned(peer *LightningChannel, h uint64) (*wire.MsgTx, string) {
	if peer.channelState.LocalCommitment.CommitHeight == h {
		var tx *wire.MsgTx
		e := vpuSafe(func() error {
			var err error
			tx, err = peer.getSignedCommitTx()
			return err
		})
		return tx, e
	}
	lch := peer.commitChains.Local
	if lch.hasUnackedCommitment() && lch.tip().height == h {
		tip := lch.tip()
		in := SignedCommitTxInputs{
			CommitTx:  tip.txn,
			CommitSig: tip.sig,
			OurKey:    peer.channelState.LocalChanCfg.MultiSigKey,
			TheirKey:  peer.channelState.RemoteChanCfg.MultiSigKey,
			SignDesc:  peer.signDesc,
		}
		if peer.channelState.ChanType.IsTaproot() {
			in.Taproot = vpuTaprootInputs(peer, h)
		}
		var tx *wire.MsgTx
		e := vpuSafe(func() error {
			var err error
			tx, err = GetSignedCommitTx(in, peer.Signer)
			return err
		})
		return tx, e
	}
	return nil, "not_held"
}

func vpuTaprootInputs(lc *LightningChannel,
	h uint64) fn.Option[TaprootSignedCommitTxInputs] {

	return fn.Some(TaprootSignedCommitTxInputs{
		CommitHeight:         h,
		TaprootNonceProducer: lc.taprootNonceProducer,
		TapscriptRoot:        lc.channelState.TapscriptRoot,
	})
}

func (u *vpuCtx) closeRemote(lc, peer *LightningChannel,
	rc *channeldb.ChannelCommitment, pending bool) map[string]any {

	st := lc.channelState
	ct := st.ChanType
	h := rc.CommitHeight
	rep := map[string]any{"h": h, "pending": pending}
	tx := rc.CommitTx
	txid := tx.TxHash()
	rep["txid"] = txid.String()
	rep["outs"] = vpuOuts(tx)
	// the descriptor the victim holds for this commitment
	rch := lc.commitChains.Remote
	switch {
	case !pending && rch.tail().height == h:
		rep["commit"] = u.c.commitDump(rch.tail(), false)
	case pending && rch.hasUnackedCommitment() && rch.tip().height == h:
		rep["commit"] = u.c.commitDump(rch.tip(), false)
	default:
		rep["commit"] = nil
	}
	// what the counterparty would really broadcast
	rep["peer_holds"] = false
	if peer != nil {
		ptx, e := vpuPeerSigned(peer, h)
		switch {
		case e == "not_held":
		case e != "" && h == 0:
			rep["peer_holds"] = true
			rep["fund_ok"] = "skipped_h0"
		case e != "":
			rep["peer_holds"] = true
			rep["fund_ok"] = "sign:" + e
		default:
			rep["peer_holds"] = true
			rep["peer_txid_match"] = ptx.TxHash() == txid
			fund := peer.signDesc.Output
			if h == 0 {
				rep["fund_ok"] = "skipped_h0"
			} else {
				rep["fund_ok"] = vpuEngine(fund.PkScript, fund.Value, ptx, 0,
					txscript.NewCannedPrevOutputFetcher(fund.PkScript, fund.Value))
			}
		}
	}
	point := st.RemoteCurrentRevocation
	if pending {
		point = st.RemoteNextRevocation
	}
	if point == nil {
		rep["err"] = "no commit point"
		return rep
	}
	var sum *UnilateralCloseSummary
	if e := vpuSafe(func() error {
		var err error
		sum, err = NewUnilateralCloseSummary(
			st, lc.Signer, &chainntnfs.SpendDetail{
				SpendingTx: tx, SpenderTxHash: &txid,
				SpendingHeight: vpuConfHeight,
			}, *rc, point, lc.leafStore, lc.auxResolver,
		)
		return err
	}); e != "" {
		rep["err"] = e
		return rep
	}
	rep["err"] = nil

	rep["to_remote"] = nil
	if cr := sum.CommitResolution; cr != nil {
		t := map[string]any{"idx": cr.SelfOutPoint.Index, "csv": cr.MaturityDelay}
		if cr.SelfOutPoint.Hash != txid ||
			int(cr.SelfOutPoint.Index) >= len(tx.TxOut) {

			t["ok"] = "bad_outpoint"
		} else {
			real := tx.TxOut[cr.SelfOutPoint.Index]
			t["amt"] = real.Value
			// commitSweepResolver.decideWitnessType for a remote commitment
			var wt input.StandardWitnessType
			switch {
			case ct.IsTaprootFinal():
				wt = input.TaprootRemoteCommitSpendFinal
			case ct.IsTaproot():
				wt = input.TaprootRemoteCommitSpend
			case cr.MaturityDelay != 0:
				wt = input.CommitmentToRemoteConfirmed
			case cr.SelfOutputSignDesc.SingleTweak == nil:
				wt = input.CommitSpendNoDelayTweakless
			default:
				wt = input.CommitmentNoDelay
			}
			inp := vpuCsvInput(lc, &cr.SelfOutPoint, wt,
				input.LeaseCommitmentToRemoteConfirmed,
				&cr.SelfOutputSignDesc, cr.MaturityDelay)
			for k, v := range vpuSweep(lc.Signer, inp, real, cr.SelfOutPoint) {
				t[k] = v
			}
		}
		rep["to_remote"] = t
	}
	rep["anchor"] = vpuAnchorReport(lc, sum.AnchorResolution, tx)

	htlcs := []map[string]any{}
	direct := func(incoming bool, claim wire.OutPoint, sd *input.SignDescriptor,
		csv, expiry uint32) {

		e := map[string]any{"inc": 0, "out_idx": claim.Index, "expiry": expiry,
			"csv": csv}
		if incoming {
			e["inc"] = 1
		}
		htlcs = append(htlcs, e)
		if claim.Hash != txid || int(claim.Index) >= len(tx.TxOut) {
			e["claim_ok"] = "bad_outpoint"
			return
		}
		real := tx.TxOut[claim.Index]
		e["amt"] = real.Value
		pre, hd := u.preimageFor(rc.Htlcs, incoming, claim.Index)
		if hd != nil {
			e["htlc_index"] = hd.HtlcIndex
			e["amt_msat"] = uint64(hd.Amt)
			e["hash_id"] = u.c.hid(hd.RHash)
		}
		d := *sd
		var inp input.Input
		switch {
		case incoming && ct.IsTaprootFinal():
			x := input.MakeTaprootHtlcSucceedInputFinal(&claim, &d, pre[:],
				vpuConfHeight, csv)
			inp = &x
		case incoming && ct.IsTaproot():
			x := input.MakeTaprootHtlcSucceedInput(&claim, &d, pre[:],
				vpuConfHeight, csv)
			inp = &x
		case incoming:
			x := input.MakeHtlcSucceedInput(&claim, &d, pre[:],
				vpuConfHeight, csv)
			inp = &x
		default:
			wt := input.StandardWitnessType(input.HtlcOfferedRemoteTimeout)
			switch {
			case ct.IsTaprootFinal():
				wt = input.TaprootHtlcOfferedRemoteTimeoutFinal
			case ct.IsTaproot():
				wt = input.TaprootHtlcOfferedRemoteTimeout
			}
			inp = input.NewCsvInputWithCltv(&claim, wt, &d, vpuConfHeight,
				csv, expiry)
		}
		sw := vpuSweep(lc.Signer, inp, real, claim)
		e["claim_ok"] = sw["ok"]
		e["seq"] = sw["seq"]
		e["lock"] = sw["lock"]
		e["sd_amt"] = sw["sd_amt"]
	}
	if hr := sum.HtlcResolutions; hr != nil {
		for i := range hr.OutgoingHTLCs {
			r := &hr.OutgoingHTLCs[i]
			if r.SignedTimeoutTx != nil {
				htlcs = append(htlcs, map[string]any{"inc": 0,
					"claim_ok": "unexpected second-level tx"})
				continue
			}
			direct(false, r.ClaimOutpoint, &r.SweepSignDesc, r.CsvDelay, r.Expiry)
		}
		for i := range hr.IncomingHTLCs {
			r := &hr.IncomingHTLCs[i]
			if r.SignedSuccessTx != nil {
				htlcs = append(htlcs, map[string]any{"inc": 1,
					"claim_ok": "unexpected second-level tx"})
				continue
			}
			direct(true, r.ClaimOutpoint, &r.SweepSignDesc, r.CsvDelay, 0)
		}
	}
	rep["htlcs"] = htlcs
	return rep
}

// sample: all three commitments that may confirm, from p's point of view; on
// the live object or on a second object restored from p's database.
func (u *vpuCtx) sample(p int, reload bool, why string) {
	c := u.c
	lc := c.ch[p]
	s := map[string]any{"at": len(c.steps), "p": vchNames[p], "reload": reload,
		"why": why}
	if reload {
		var lc2 *LightningChannel
		if e := vpuSafe(func() error {
			var err error
			lc2, err = vchReload(lc)
			return err
		}); e != "" {
			s["err"] = "reload:" + e
			u.samples = append(u.samples, s)
			return
		}
		lc = lc2
	}
	loc, _, _, _ := u.closeLocal(lc)
	loc["commit"] = c.commitDump(lc.commitChains.Local.tail(), true)
	s["local"] = loc
	st := lc.channelState
	rc := st.RemoteCommitment
	s["remote"] = u.closeRemote(lc, c.ch[1-p], &rc, false)
	s["pending"] = nil
	diff, err := st.RemoteCommitChainTip()
	switch {
	case err == nil:
		s["pending"] = u.closeRemote(lc, c.ch[1-p], &diff.Commitment, true)
	case !errors.Is(err, channeldb.ErrNoPendingCommit):
		s["pending"] = map[string]any{"err": "tip:" + vpuErr(err)}
	}
	u.samples = append(u.samples, s)
}

// ---------------------------------------------------------------------------
// C04

// capture records p's current local tail (the commitment its next revocation
// will revoke) unless that height is already recorded.
func (u *vpuCtx) capture(p int) {
	c := u.c
	lc := c.ch[p]
	h := lc.channelState.LocalCommitment.CommitHeight
	if _, ok := u.caps[p][h]; ok {
		return
	}
	if u.lastCap[p] >= 0 && int64(h) > u.lastCap[p]+1 {
		u.gaps = append(u.gaps, fmt.Sprintf("%s:%d..%d", vchNames[p],
			u.lastCap[p]+1, h-1))
	}
	u.lastCap[p] = int64(h)
	cp := &vpuCap{h: h}
	e := vpuSafe(func() error {
		cp.local, cp.tx, cp.signed, cp.second = u.closeLocal(lc)
		cp.dump = c.commitDump(lc.commitChains.Local.tail(), true)
		return nil
	})
	if e != "" {
		u.gaps = append(u.gaps, fmt.Sprintf("%s:%d capture %s", vchNames[p], h, e))
		return
	}
	if tail := lc.commitChains.Local.tail().height; tail != h {
		u.gaps = append(u.gaps, fmt.Sprintf("%s: disk height %d, chain tail %d",
			vchNames[p], h, tail))
	}
	u.caps[p][h] = cp
}

func vpuRetributionErr(err error) string {
	switch {
	case err == nil:
		return ""
	case errors.Is(err, ErrRevLogDataMissing):
		return "revlog_data_missing"
	case errors.Is(err, ErrNoRevocationLogFound),
		errors.Is(err, channeldb.ErrLogEntryNotFound):
		return "no_revlog"
	case errors.Is(err, ErrOutputIndexOutOfRange):
		return "index_out_of_range"
	}
	return "other:" + vpuErr(err)
}

type vpuJIn struct {
	kind string
	wt   input.StandardWitnessType
	inp  input.Input
	hr   *HtlcRetribution
}

// vpuBreachedInputs mirrors contractcourt.newRetributionInfo +
// breachedOutput.BlocksToMaturity.
func vpuBreachedInputs(br *BreachRetribution) ([]vpuJIn, bool) {
	var ins []vpuJIn
	bothNil := br.LocalOutputSignDesc == nil && br.RemoteOutputSignDesc == nil
	isTaproot := br.ChanType.IsTaproot()
	switch {
	case br.LocalOutputSignDesc != nil:
		isTaproot = txscript.IsPayToTaproot(br.LocalOutputSignDesc.Output.PkScript)
	case br.RemoteOutputSignDesc != nil:
		isTaproot = txscript.IsPayToTaproot(br.RemoteOutputSignDesc.Output.PkScript)
	}
	mk := func(kind string, op wire.OutPoint, wt input.StandardWitnessType,
		sd *input.SignDescriptor, hr *HtlcRetribution) {

		var mat uint32
		switch wt {
		case input.CommitmentToRemoteConfirmed, input.TaprootRemoteCommitSpend,
			input.TaprootRemoteCommitSpendFinal:
			mat = 1
		}
		d := *sd
		o := op
		ins = append(ins, vpuJIn{kind: kind, wt: wt, hr: hr,
			inp: input.NewCsvInput(&o, wt, &d, br.BreachHeight, mat)})
	}
	if sd := br.LocalOutputSignDesc; sd != nil {
		var wt input.StandardWitnessType
		switch {
		case br.ChanType.IsTaprootFinal():
			wt = input.TaprootRemoteCommitSpendFinal
		case isTaproot:
			wt = input.TaprootRemoteCommitSpend
		case sd.SingleTweak == nil:
			wt = input.CommitSpendNoDelayTweakless
		default:
			wt = input.CommitmentNoDelay
		}
		if !isTaproot && br.LocalDelay != 0 {
			wt = input.CommitmentToRemoteConfirmed
		}
		mk("to_remote", br.LocalOutpoint, wt, sd, nil)
	}
	if sd := br.RemoteOutputSignDesc; sd != nil {
		var wt input.StandardWitnessType
		switch {
		case br.ChanType.IsTaprootFinal():
			wt = input.TaprootCommitmentRevokeFinal
		case isTaproot:
			wt = input.TaprootCommitmentRevoke
		default:
			wt = input.CommitmentRevoke
		}
		mk("to_local", br.RemoteOutpoint, wt, sd, nil)
	}
	for i := range br.HtlcRetributions {
		hr := &br.HtlcRetributions[i]
		var wt input.StandardWitnessType
		kind := "htlc_out"
		switch {
		case isTaproot && hr.IsIncoming:
			wt, kind = input.TaprootHtlcAcceptedRevoke, "htlc_in"
		case isTaproot:
			wt = input.TaprootHtlcOfferedRevoke
		case hr.IsIncoming:
			wt, kind = input.HtlcAcceptedRevoke, "htlc_in"
		default:
			wt = input.HtlcOfferedRevoke
		}
		mk(kind, hr.OutPoint, wt, &hr.SignDesc, hr)
	}
	return ins, bothNil
}

// vpuJustice assembles ONE justice transaction over all breached outputs
// (createJusticeTx's spendAll / sweepSpendableOutputsTxn), signs it with the
// victim's signer and runs the engine on every input against the real outputs
// of the revoked transaction.
func vpuJustice(signer input.Signer, ins []vpuJIn, real *wire.MsgTx) []map[string]any {
	rep := make([]map[string]any, len(ins))
	realID := real.TxHash()
	tx := wire.NewMsgTx(2)
	var total int64
	var inputs []input.Input
	for _, in := range ins {
		inputs = append(inputs, in.inp)
		total += in.inp.SignDesc().Output.Value
		tx.AddTxIn(&wire.TxIn{
			PreviousOutPoint: in.inp.OutPoint(),
			Sequence:         in.inp.BlocksToMaturity(),
		})
	}
	v := total - 500
	if v < 0 {
		v = 0
	}
	tx.AddTxOut(&wire.TxOut{PkScript: vpuSweepPk, Value: v})
	realFetcher := txscript.NewMultiPrevOutFetcher(nil)
	for i, in := range ins {
		op := in.inp.OutPoint()
		rep[i] = map[string]any{"kind": in.kind, "wt": in.wt.String(),
			"idx": op.Index, "amt": in.inp.SignDesc().Output.Value,
			"seq": in.inp.BlocksToMaturity()}
		if op.Hash != realID || int(op.Index) >= len(real.TxOut) {
			rep[i]["ok"] = "bad_outpoint"
			// keep the sighash computable
			realFetcher.AddPrevOut(op, in.inp.SignDesc().Output)
			continue
		}
		rep[i]["tx_amt"] = real.TxOut[op.Index].Value
		realFetcher.AddPrevOut(op, real.TxOut[op.Index])
	}
	if len(ins) == 0 {
		return rep
	}
	signRes := vpuSafe(func() error {
		fetcher, err := input.MultiPrevOutFetcher(inputs)
		if err != nil {
			return err
		}
		hc := txscript.NewTxSigHashes(tx, fetcher)
		for i, in := range ins {
			sc, err := in.inp.CraftInputScript(signer, tx, hc, fetcher, i)
			if err != nil {
				return fmt.Errorf("craft %d: %w", i, err)
			}
			tx.TxIn[i].Witness = sc.Witness
		}
		return nil
	})
	for i, in := range ins {
		if _, bad := rep[i]["ok"]; bad {
			continue
		}
		if signRes != "" {
			rep[i]["ok"] = "sign:" + signRes
			continue
		}
		out := real.TxOut[in.inp.OutPoint().Index]
		rep[i]["ok"] = vpuEngine(out.PkScript, out.Value, tx, i, realFetcher)
	}
	return rep
}

// vpuSecondLevelJustice: the cheater advanced HTLC outputs with its own
// second-level transactions; mirror convertToSecondLevelRevoke and spend the
// second-level outputs.
func vpuSecondLevelJustice(signer input.Signer, ins []vpuJIn,
	seconds map[uint32]*vpuSecond) []map[string]any {

	rep := []map[string]any{}
	for _, in := range ins {
		if in.hr == nil {
			continue
		}
		sec, ok := seconds[in.hr.OutPoint.Index]
		if !ok {
			continue
		}
		stx := sec.tx
		sd := in.hr.SignDesc
		wt := input.StandardWitnessType(input.HtlcSecondLevelRevoke)
		if txscript.IsPayToTaproot(sd.Output.PkScript) {
			wt = input.TaprootHtlcSecondLevelRevoke
		}
		op := wire.OutPoint{Hash: stx.TxHash(), Index: 0}
		sd.Output = &wire.TxOut{Value: stx.TxOut[0].Value,
			PkScript: stx.TxOut[0].PkScript}
		tw := in.hr.SecondLevelTapTweak
		sd.TapTweak = tw[:]
		sd.WitnessScript = in.hr.SecondLevelWitnessScript
		inp := input.NewCsvInput(&op, wt, &sd, vpuConfHeight, 0)
		e := map[string]any{"kind": in.kind, "idx": in.hr.OutPoint.Index,
			"wt": wt.String(), "amt": stx.TxOut[0].Value}
		sw := vpuSweep(signer, inp, stx.TxOut[0], op)
		e["ok"] = sw["ok"]
		rep = append(rep, e)
	}
	return rep
}

func (u *vpuCtx) revlogDump(victim *LightningChannel, h uint64,
	real *wire.MsgTx) map[string]any {

	d := map[string]any{}
	e := vpuSafe(func() error {
		rl, legacy, err := victim.channelState.FindPreviousState(h)
		if err != nil {
			return err
		}
		if rl == nil {
			d["legacy"] = legacy != nil
			return nil
		}
		d["our_idx"] = rl.OurOutputIndex.Val
		d["their_idx"] = rl.TheirOutputIndex.Val
		d["txid_ok"] = rl.CommitTxHash.Val == [32]byte(real.TxHash())
		d["our_amt"], d["their_amt"] = nil, nil
		rl.OurBalance.WhenSomeV(func(b channeldb.BigSizeMilliSatoshi) {
			d["our_amt"] = int64(b.Int().ToSatoshis())
		})
		rl.TheirBalance.WhenSomeV(func(b channeldb.BigSizeMilliSatoshi) {
			d["their_amt"] = int64(b.Int().ToSatoshis())
		})
		hs := [][]int64{}
		for _, x := range rl.HTLCEntries {
			inc := int64(0)
			if x.Incoming.Val {
				inc = 1
			}
			hs = append(hs, []int64{inc, int64(x.Amt.Val.Int()),
				int64(x.OutputIndex.Val), int64(x.RefundTimeout.Val),
				u.c.hid(x.RHash.Val)})
		}
		d["htlcs"] = hs
		return nil
	})
	if e != "" {
		d["err"] = e
	}
	return d
}

// punish: everything the victim can do about the cheater's revoked height h.
func (u *vpuCtx) punish(victim *LightningChannel, cp *vpuCap, label string,
	withTx bool) map[string]any {

	v := map[string]any{"v": label}
	var spend *wire.MsgTx
	if withTx {
		spend = cp.tx
	}
	var br *BreachRetribution
	e := vpuSafe(func() error {
		var err error
		br, err = NewBreachRetribution(
			victim.channelState, cp.h, vpuConfHeight, spend,
			victim.leafStore, victim.auxResolver,
		)
		if err != nil {
			v["err"] = vpuRetributionErr(err)
			br = nil
		}
		return nil
	})
	if e != "" {
		v["err"] = e
		return v
	}
	if br == nil {
		return v
	}
	v["err"] = nil
	v["breach_txid_ok"] = br.BreachTxHash == cp.tx.TxHash()
	ins, bothNil := vpuBreachedInputs(br)
	v["both_commit_outputs_dust"] = bothNil
	v["inputs"] = vpuJustice(victim.Signer, ins, cp.tx)
	if withTx && len(cp.second) > 0 {
		v["second_level"] = vpuSecondLevelJustice(victim.Signer, ins, cp.second)
	}
	return v
}

func (u *vpuCtx) finish() []map[string]any {
	c := u.c
	out := []map[string]any{}
	for p := 0; p < 2; p++ { // p = victim
		q := 1 - p
		victim := c.ch[p]
		acked := victim.channelState.RemoteCommitment.CommitHeight
		var reloaded *LightningChannel
		relErr := vpuSafe(func() error {
			var err error
			reloaded, err = vchReload(victim)
			return err
		})
		obf := createStateHintObfuscator(victim.channelState)
		hs := make([]uint64, 0, len(u.caps[q]))
		for h := range u.caps[q] {
			hs = append(hs, h)
		}
		sort.Slice(hs, func(i, j int) bool { return hs[i] < hs[j] })
		seen := map[uint64]bool{}
		for _, h := range hs {
			cp := u.caps[q][h]
			seen[h] = true
			r := map[string]any{"cheater": vchNames[q], "h": h,
				"acked": h < acked, "signed": cp.signed,
				"commit": cp.dump, "txid": cp.tx.TxHash().String(),
				"outs": vpuOuts(cp.tx), "local": cp.local,
				"hint": GetStateNumHint(cp.tx, obf),
				"hint_raw": []uint64{vpuObfN(obf), uint64(cp.tx.LockTime),
					uint64(vpuSeq0(cp.tx))}}
			if h < acked {
				r["revlog"] = u.revlogDump(victim, h, cp.tx)
				vs := []map[string]any{
					u.punish(victim, cp, "tx", true),
					u.punish(victim, cp, "nil", false),
				}
				if relErr == "" {
					r["revlog_reload"] = u.revlogDump(reloaded, h, cp.tx)
					vs = append(vs,
						u.punish(reloaded, cp, "tx_reload", true),
						u.punish(reloaded, cp, "nil_reload", false))
				} else {
					vs = append(vs, map[string]any{"v": "tx_reload",
						"err": "reload:" + relErr})
				}
				r["variants"] = vs
			}
			out = append(out, r)
		}
		for h := uint64(0); h < acked; h++ {
			if !seen[h] {
				u.gaps = append(u.gaps, fmt.Sprintf("%s:%d acked, not captured",
					vchNames[q], h))
			}
		}
	}
	return out
}

// ---------------------------------------------------------------------------
// C04 layer 1: the state hint

func vpuObfN(o [StateHintSize]byte) uint64 {
	var b [8]byte
	copy(b[2:], o[:])
	return binary.BigEndian.Uint64(b[:])
}

func vpuSeq0(tx *wire.MsgTx) uint32 {
	if len(tx.TxIn) == 0 {
		return 0
	}
	return tx.TxIn[0].Sequence
}

// vpuHintProbe drives the REAL SetStateNumHint / GetStateNumHint at the
// boundaries.  Entries: [obfuscator, height, #inputs, code, sequence, locktime,
// GetStateNumHint]; code 0 ok, 1 "greater than max", 2 "exactly 1 input",
// 3 other error / panic, 9 GetStateNumHint only.
func vpuHintProbe(r *vrng) [][]uint64 {
	var rows [][]uint64
	obfs := [][StateHintSize]byte{{}, {0xff, 0xff, 0xff, 0xff, 0xff, 0xff},
		{0, 0, 0, 0xff, 0xff, 0xff}, {0xff, 0xff, 0xff, 0, 0, 0},
		{0x80, 0, 0, 0x80, 0, 0}, {0, 0, 1, 0, 0, 1}}
	for i := 0; i < 6; i++ {
		var o [StateHintSize]byte
		copy(o[:], r.bytes(StateHintSize))
		obfs = append(obfs, o)
	}
	fixed := []uint64{0, 1, 2, 1<<24 - 1, 1 << 24, 1<<24 + 1, 1<<32 - 1, 1 << 32,
		1<<48 - 2, 1<<48 - 1, 1 << 48, 1<<48 + 1, 1 << 63, ^uint64(0)}
	probe := func(obf [StateHintSize]byte, h uint64, nIn int) {
		tx := wire.NewMsgTx(2)
		for i := 0; i < nIn; i++ {
			tx.AddTxIn(&wire.TxIn{Sequence: uint32(r.u64())})
		}
		tx.LockTime = uint32(r.u64())
		var code, seq, lock, got uint64
		e := vpuSafe(func() error { return SetStateNumHint(tx, h, obf) })
		switch {
		case e == "":
			seq, lock = uint64(vpuSeq0(tx)), uint64(tx.LockTime)
			got = GetStateNumHint(tx, obf)
		case strings.Contains(e, "greater"):
			code = 1
		case strings.Contains(e, "exactly 1 input"):
			code = 2
		default:
			code = 3
		}
		rows = append(rows, []uint64{vpuObfN(obf), h, uint64(nIn), code, seq,
			lock, got})
	}
	for _, obf := range obfs {
		for _, h := range fixed {
			probe(obf, h, 1)
		}
		for i := 0; i < 6; i++ {
			h := r.u64()
			switch i % 3 {
			case 0:
				h &= 1<<48 - 1
			case 1:
				h &= 1<<26 - 1
			}
			probe(obf, h, 1)
		}
		probe(obf, r.u64()&(1<<48-1), 0)
		probe(obf, r.u64()&(1<<48-1), 2)
		probe(obf, 1<<48, 2) // check order: the height test comes first
		// GetStateNumHint on arbitrary field values
		for i := 0; i < 4; i++ {
			tx := wire.NewMsgTx(2)
			tx.AddTxIn(&wire.TxIn{Sequence: uint32(r.u64())})
			tx.LockTime = uint32(r.u64())
			if i == 0 {
				tx.TxIn[0].Sequence, tx.LockTime = 0xffffffff, 0xffffffff
			}
			rows = append(rows, []uint64{vpuObfN(obf), 0, 1, 9,
				uint64(tx.TxIn[0].Sequence), uint64(tx.LockTime),
				GetStateNumHint(tx, obf)})
		}
	}
	return rows
}

// ---------------------------------------------------------------------------
// C05_htlc_sig_index: output order, HTLC <-> output <-> signature assignment

// vpuSortObs is one commitment transaction (owner, height, txid) as seen by the
// party that signs it for the owner (s: the signer's remote chain) and by the
// owner itself (v: its local chain), plus the HTLC signatures of the commit_sig
// as persisted by the signer (CommitDiff).
type vpuSortObs struct {
	owner    int
	h        uint64
	txid     string
	s, v     map[string]any
	nOn      int
	sigs     []string
	sigTried bool
}

// viewDump: the transaction outputs in order and both HTLC slices IN THE
// ORDER OF THE VIEW (that is the order populateHtlcIndexes walks them), with
// the output index populateHtlcIndexes assigned.
func (u *vpuCtx) viewDump(cm *commitment, local bool) (map[string]any, int) {
	nOn := 0
	one := func(pds []paymentDescriptor) [][]any {
		l := make([][]any, 0, len(pds))
		for i := range pds {
			pd := &pds[i]
			oi, pk := pd.remoteOutputIndex, pd.theirPkScript
			if local {
				oi, pk = pd.localOutputIndex, pd.ourPkScript
			}
			if oi >= 0 {
				nOn++
			}
			sig := ""
			if local && pd.sig != nil {
				if s, err := lnwire.NewSigFromSignature(pd.sig); err == nil {
					sig = hex.EncodeToString(s.RawBytes())
				}
			}
			l = append(l, []any{pd.HtlcIndex, u.c.hid(pd.RHash),
				uint64(pd.Amount), pd.Timeout, oi, hex.EncodeToString(pk),
				sig})
		}
		return l
	}
	outs := make([][]any, len(cm.txn.TxOut))
	for i, o := range cm.txn.TxOut {
		outs[i] = []any{o.Value, hex.EncodeToString(o.PkScript)}
	}
	d := map[string]any{"outs": outs, "out": one(cm.outgoingHTLCs),
		"in": one(cm.incomingHTLCs), "at": len(u.c.steps)}
	return d, nOn
}

func (u *vpuCtx) seeView(owner int, cm *commitment, local bool,
	signer *LightningChannel) {

	if cm == nil || cm.txn == nil || cm.height == 0 ||
		len(cm.outgoingHTLCs)+len(cm.incomingHTLCs) < 2 {

		return
	}
	key := fmt.Sprintf("%d/%d/%s", owner, cm.height, cm.txn.TxHash())
	o := u.views[key]
	if o == nil {
		o = &vpuSortObs{owner: owner, h: cm.height,
			txid: cm.txn.TxHash().String()}
		u.views[key] = o
		u.viewKeys = append(u.viewKeys, key)
	}
	if e := vpuSafe(func() error {
		switch {
		case local && o.v == nil:
			o.v, o.nOn = u.viewDump(cm, true)
		case !local && o.s == nil:
			o.s, o.nOn = u.viewDump(cm, false)
		}
		return nil
	}); e != "" {
		u.gaps = append(u.gaps, "view "+key+": "+e)
	}
	if signer != nil && !o.sigTried {
		o.sigTried = true
		_ = vpuSafe(func() error {
			diff, err := signer.channelState.RemoteCommitChainTip()
			if err != nil || diff.CommitSig == nil ||
				diff.Commitment.CommitHeight != cm.height {

				return err
			}
			o.sigs = []string{}
			for i := range diff.CommitSig.HtlcSigs {
				o.sigs = append(o.sigs, hex.EncodeToString(
					diff.CommitSig.HtlcSigs[i].RawBytes()))
			}
			return nil
		})
	}
}

func (u *vpuCtx) observeViews() {
	c := u.c
	for p := 0; p < 2; p++ {
		lc := c.ch[p]
		lch, rch := lc.commitChains.Local, lc.commitChains.Remote
		u.seeView(p, lch.tail(), true, nil)
		if lch.hasUnackedCommitment() {
			u.seeView(p, lch.tip(), true, nil)
		}
		u.seeView(1-p, rch.tail(), false, nil)
		if rch.hasUnackedCommitment() {
			u.seeView(1-p, rch.tip(), false, lc)
		}
	}
}

func (u *vpuCtx) sortRows() []map[string]any {
	rows := []map[string]any{}
	for _, k := range u.viewKeys {
		o := u.views[k]
		if o.nOn < 2 || len(rows) >= 60 {
			continue
		}
		r := map[string]any{"owner": vchNames[o.owner], "h": o.h,
			"txid": o.txid, "s": o.s, "v": o.v, "sigs": nil}
		if o.sigs != nil {
			r["sigs"] = o.sigs
		}
		rows = append(rows, r)
	}
	return rows
}

// genDup adds an HTLC that collides with a live one of the same sender: an
// exact duplicate (hash, amount, expiry), the same satoshi amount with other
// millisatoshis, the same script with another expiry, or the same value with
// another hash and another expiry (value tie, script and CLTV differ).
func (u *vpuCtx) genDup() {
	c := u.c
	r := c.r
	p := r.intn(2)
	lc := c.ch[p]
	var live, big []*paymentDescriptor
	for e := lc.updateLogs.Local.Front(); e != nil; e = e.Next() {
		pd := e.Value
		if pd.EntryType != Add || c.hid(pd.RHash) < 0 {
			continue
		}
		live = append(live, pd)
		if pd.Amount >= 10_000_000 {
			big = append(big, pd)
		}
	}
	if len(big) > 0 && r.intn(4) != 0 {
		live = big
	}
	if len(live) == 0 {
		hid := c.nHash
		c.nHash++
		c.doAdd(p, lnwire.MilliSatoshi(r.rng(10_000_000, 300_000_000)),
			uint32(100+r.intn(8)), hid, false)
		u.nDupAdds++
		return
	}
	pd := live[r.intn(len(live))]
	amt, exp, hid := pd.Amount, pd.Timeout, c.hid(pd.RHash)
	otherExp := func() uint32 {
		e := uint32(100 + r.intn(8))
		if e == exp {
			e = exp + 1 + uint32(r.intn(3))
		}
		return e
	}
	switch x := r.intn(10); {
	case x < 4: // exact duplicate
	case x < 5: // same satoshis, other millisatoshis
		amt = amt/1000*1000 + lnwire.MilliSatoshi(r.intn(1000))
		if amt == 0 {
			amt = 1
		}
	case x < 7: // same hash and amount, other expiry
		exp = otherExp()
	default: // same value, new hash, other expiry
		hid = c.nHash
		c.nHash++
		exp = otherExp()
	}
	c.doAdd(p, amt, exp, hid, false)
	u.nDupAdds++
}

// ---------------------------------------------------------------------------
// schedule driver (the vch generators, with observation points in between)

func (u *vpuCtx) after() {
	c := u.c
	if c.abort != "" {
		return
	}
	for p := 0; p < 2; p++ {
		u.capture(p)
	}
	u.observeViews()
	if len(u.samples) >= u.maxSamples {
		return
	}
	for p := 0; p < 2; p++ {
		lc := c.ch[p]
		pendingRemote := lc.commitChains.Remote.hasUnackedCommitment()
		x := c.r.intn(100)
		switch {
		case pendingRemote && x < 22:
			u.sample(p, x < 7, "pending_remote")
		case c.hasLtip(p) && x < 10:
			u.sample(p, x < 3, "pending_local")
		case x < 4:
			u.sample(p, x < 2, "any")
		}
	}
}

func (u *vpuCtx) drain() {
	c := u.c
	for iter := 0; iter < 40 && c.abort == ""; iter++ {
		progressed := false
		for p := 0; p < 2 && c.abort == ""; p++ {
			for c.canDeliver(p) && c.abort == "" {
				c.doDeliver(p)
				progressed = true
			}
		}
		if c.abort == "" {
			u.observeViews()
		}
		for p := 0; p < 2 && c.abort == ""; p++ {
			if c.hasLtip(p) {
				u.capture(p)
				c.doRevoke(p)
				progressed = true
			}
		}
		u.after()
		for p := 0; p < 2 && c.abort == ""; p++ {
			if c.owes(p) && c.windowOpen(p) {
				c.doSign(p)
				progressed = true
			}
		}
		if !progressed {
			break
		}
	}
}

func (u *vpuCtx) run(maxSteps int) {
	c := u.c
	r := c.r
	// 60 % of the schedules add directed duplicates of live HTLCs (exact
	// duplicates, same-satoshi amounts, same script with another expiry,
	// same value with another script and expiry)
	u.dupMode = r.intn(100) < 60
	u.after()
	if c.cut && r.intn(5) == 0 {
		c.genDanceCut(r.intn(3) / 2)
		u.after()
	}
	for len(c.steps) < maxSteps && c.abort == "" {
		x := r.intn(1000)
		switch {
		case u.dupMode && x >= 400 && x < 520:
			u.genDup()
		case c.cut && x >= 300 && x < 340 && c.calm():
			c.genDanceCut(r.intn(2))
		case c.crash && x < 30:
			c.doCrash(r.intn(2))
		case c.cut && x >= 100 && x < 150:
			c.genCut()
		case x >= 200 && x < 230:
			c.genMalformed()
		default:
			c.genMain()
		}
		u.after()
	}
	// a last look at a mid-dance state before everything is drained
	if c.abort == "" {
		u.sample(r.intn(2), false, "before_drain")
	}
	u.drain()
}

// runScript replays an explicit op list (trace syntax) with observation
// points after every op and a capture before every revoke.
func (u *vpuCtx) runScript(ops [][]any) {
	c := u.c
	u.after()
	for _, op := range ops {
		if c.abort != "" {
			return
		}
		switch op[0] {
		case "revoke":
			u.capture(vchSide(op[1]))
			c.runScript([][]any{op})
		case "drain":
			u.drain()
		case "sample":
			u.sample(vchSide(op[1]), len(op) > 2 && vchNum(op[2]) != 0, "script")
		default:
			c.runScript([][]any{op})
		}
		u.after()
	}
}

func TestVerifPunish(t *testing.T) {
	out := vOpenOut()
	defer out.close()
	master := vNewRng(vSeed())
	ncases := vCases(63, 700)
	types := vchSelectTypes()
	maxDef := int64(50)
	if vTier() == "thorough" {
		maxDef = 80
	}
	maxSteps := int(vEnvInt("VERIF_MAXSTEPS", maxDef))
	cutOn := vEnvInt("VERIF_CUT", 1) != 0
	first := int(vEnvInt("VERIF_FIRST_CASE", 0))
	maxSamples := int(vEnvInt("VERIF_PUNISH_SAMPLES", 6))
	if vTier() == "thorough" {
		maxSamples = int(vEnvInt("VERIF_PUNISH_SAMPLES", 14))
	}

	var scripts []vchScript
	if p := strings.TrimSpace(os.Getenv("VERIF_CHAN_SCRIPT")); p != "" {
		scripts = vchLoadScripts(p)
		ncases = 0
	}

	// C04 layer 1: boundary probes of SetStateNumHint / GetStateNumHint
	out.emit(map[string]any{"hint_probe": vpuHintProbe(master.fork(1 << 40))})

	runCase := func(name string, ci int, sc *vchScript) {
		t.Run(name, func(t *testing.T) {
			r := master.fork(uint64(ci))
			ty := types[ci%len(types)]
			if sc != nil {
				ty = vchType{}
				for _, x := range vchTypes {
					if x.name == sc.ChanType {
						ty = x
					}
				}
				if ty.name == "" {
					t.Fatalf("script %s: unknown chan_type %q", sc.origin,
						sc.ChanType)
				}
			}
			// every fifth schedule runs on databases that do not store the
			// to_local / to_remote amounts of revoked states
			noAmt := (ci/len(types))%5 == 4
			if v := vEnvInt("VERIF_PUNISH_NOAMT", -1); v >= 0 {
				noAmt = v != 0
			}
			var mods []channeldb.OptionModifier
			if noAmt {
				mods = append(mods, channeldb.OptionNoRevLogAmtData(true))
			}
			a, b, err := CreateTestChannels(t, ty.ct, mods...)
			if err != nil {
				t.Fatalf("CreateTestChannels(%s): %v", ty.name, err)
			}
			c := &vchCtx{
				r: r, ct: ty.ct, ch: [2]*LightningChannel{a, b},
				chanID: lnwire.NewChanIDFromOutPoint(
					a.channelState.FundingOutpoint,
				),
				hashID: map[[32]byte]int64{},
				crash:  true, cut: cutOn,
				noFreshFee: vEnvInt("VERIF_CHAN_NO_FRESH_FEE", 0) != 0,
				noFee:      vEnvInt("VERIF_CHAN_FEE", 1) == 0,
			}
			u := &vpuCtx{c: c, maxSamples: maxSamples, noAmt: noAmt,
				lastCap: [2]int64{-1, -1},
				views:   map[string]*vpuSortObs{}}
			u.caps[0], u.caps[1] = map[uint64]*vpuCap{}, map[uint64]*vpuCap{}
			steps := maxSteps
			if r.intn(6) == 0 {
				steps = maxSteps / 3
			}
			cfg := c.cfg(ty.name)
			cfg["csv"] = map[string]any{
				"a": a.channelState.LocalChanCfg.CsvDelay,
				"b": b.channelState.LocalChanCfg.CsvDelay,
			}
			cfg["no_amt_data"] = noAmt
			cfg["second_level_seq"] = HtlcSecondLevelInputSequence(ty.ct)
			cfg["thaw_height"] = a.channelState.ThawHeight
			row := map[string]any{
				"case": ci, "seed": vSeed(), "chan_type": ty.name, "cfg": cfg,
				"init": map[string]any{
					"a": c.partyDump(a), "b": c.partyDump(b),
				},
			}
			if sc != nil {
				c.freeRev = true
				u.runScript(sc.Ops)
				row["script"] = true
				row["corpus"] = sc.origin
			} else {
				u.run(steps)
			}
			// final observation of both sides: live and from disk
			if c.abort == "" {
				for p := 0; p < 2; p++ {
					u.capture(p)
					u.sample(p, false, "final")
					u.sample(p, true, "final")
				}
			}
			row["revoked"] = u.finish()
			row["sorts"] = u.sortRows()
			row["dup_mode"] = u.dupMode
			row["dup_adds"] = u.nDupAdds
			row["samples"] = u.samples
			row["gaps"] = u.gaps
			row["steps"] = c.steps
			row["aborted"] = nil
			if c.abort != "" {
				row["aborted"] = c.abort
			}
			row["final_clean"] = c.abort == "" && c.clean()
			row["n_sign"] = c.nSign
			out.emit(row)
		})
	}
	for i := range scripts {
		runCase(fmt.Sprintf("s%d", i), vchCorpusBase+i, &scripts[i])
	}
	for ci := first; ci < first+ncases; ci++ {
		runCase(fmt.Sprintf("c%d", ci), ci, nil)
	}
}
