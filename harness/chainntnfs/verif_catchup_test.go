//go:build verif

package chainntnfs_test

// C14 catch-up harness (same test binary as verif_txnotifier_test.go, whose
// world / recording helpers it reuses).  The chain notifiers (bitcoind, btcd,
// neutrino) do not hand blocks to TxNotifier in order by themselves: when a
// BlockConnected notification does not build on their best block they call
// chainntnfs.HandleMissedBlocks (GetCommonBlockAncestorHeight + RewindChain +
// getMissedBlocks) and then connect the returned blocks and the new one.  Here
// that layer is driven through an in-memory ChainConn over histories in which
// the backend's notifications are dropped: the backend silently reorgs /
// extends its chain and the notifier only hears about ONE block of the new
// active chain (first block after the fork point, a block at its own height, a
// block ahead, the new tip).
//
// Refinement check "catch-up = canonical in-order delivery": the trace records
// the CANONICAL sequence -- one "rewind" block-step (DisconnectTip of every
// height from the notifier's tip down to the common ancestor, computed by the
// harness from its own knowledge of both chains) followed by ConnectTip +
// NotifyHeight of every block of the new chain up to the notified one -- each
// paired with what the real code did at that point (events, hints, errors; a
// block returned by HandleMissedBlocks that is not the canonical one is
// recorded as an error).  props/c14.py feeds the canonical sequence to the
// model and checks C14_conf_exact / C14_spend_exact against the BACKEND's
// final active chain.

import (
	"fmt"
	"testing"

	"github.com/btcsuite/btcd/btcjson"
	"github.com/btcsuite/btcd/btcutil/v2"
	"github.com/btcsuite/btcd/chainhash/v2"
	"github.com/btcsuite/btcd/wire/v2"
	"github.com/lightningnetwork/lnd/chainntnfs"
	"github.com/lightningnetwork/lnd/channeldb"
)

// xBackend: an in-memory chain backend that remembers every header it has ever
// seen (reorged-out ones too, like bitcoind / btcd) and the active chain.
type xBackend struct {
	broken  bool // the real code left the canonical sequence: the history stops here
	w       *xWorld
	headers map[chainhash.Hash]*wire.BlockHeader
	heights map[chainhash.Hash]int32
	active  []xBlock // active[i] is the block at height i+1
}

func (b *xBackend) GetBlockHeader(h *chainhash.Hash) (*wire.BlockHeader, error) {
	hdr, ok := b.headers[*h]
	if !ok {
		return nil, fmt.Errorf("unknown header %v", h)
	}
	return hdr, nil
}

func (b *xBackend) GetBlockHeaderVerbose(h *chainhash.Hash) (
	*btcjson.GetBlockHeaderVerboseResult, error) {

	height, ok := b.heights[*h]
	if !ok {
		return nil, fmt.Errorf("unknown header %v", h)
	}
	return &btcjson.GetBlockHeaderVerboseResult{Height: height}, nil
}

func (b *xBackend) GetBlockHash(height int64) (*chainhash.Hash, error) {
	if height < 1 || int(height) > len(b.active) {
		return nil, fmt.Errorf("no block at height %d", height)
	}
	return b.w.blocks[b.active[height-1].bid].Hash(), nil
}

// extend the backend's active chain by one block linked to its tip
func (b *xBackend) mine(txs []int) xBlock {
	w := b.w
	w.nbid++
	bid := w.nbid
	var prev chainhash.Hash
	if n := len(b.active); n > 0 {
		prev = *w.blocks[b.active[n-1].bid].Hash()
	}
	mb := &wire.MsgBlock{Header: wire.BlockHeader{PrevBlock: prev, Nonce: uint32(bid)}}
	for _, i := range txs {
		mb.Transactions = append(mb.Transactions, w.txs[i])
	}
	blk := btcutil.NewBlock(mb)
	w.blocks[bid] = blk
	w.bidOf[*blk.Hash()] = bid
	hdr := mb.Header
	b.headers[*blk.Hash()] = &hdr
	b.heights[*blk.Hash()] = int32(len(b.active) + 1)
	xb := xBlock{bid: bid, txs: txs}
	b.active = append(b.active, xb)
	return xb
}

func (b *xBackend) epoch(height int) chainntnfs.BlockEpoch {
	blk := b.w.blocks[b.active[height-1].bid]
	return chainntnfs.BlockEpoch{
		Height: int32(height), Hash: blk.Hash(), BlockHeader: &blk.MsgBlock().Header,
	}
}

// the backend tells the notifier about its block at newHeight (every other
// notification since the notifier's best block was lost)
func (b *xBackend) deliver(newHeight int) {
	w := b.w
	if b.broken {
		return
	}
	cur := w.cur()
	// common ancestor of the notifier's view and the active chain
	a := 0
	for a < cur && a < len(b.active) && w.chain[a].bid == b.active[a].bid {
		a++
	}
	if a == cur && newHeight == cur+1 {
		// builds on the notifier's best block: plain in-order delivery
		w.opConnectBlock(newHeight, b.active[newHeight-1])
		if w.cur() != newHeight {
			b.broken = true
		}
		w.opNotify()
		return
	}
	best := chainntnfs.BlockEpoch{Height: int32(cur)}
	bb := w.blocks[w.chain[cur-1].bid]
	best.Hash, best.BlockHeader = bb.Hash(), &bb.MsgBlock().Header

	newBest, missed, err := chainntnfs.HandleMissedBlocks(b, w.n, best, int32(newHeight), true)
	// canonical: disconnect cur .. a+1
	heights := []int{}
	for h := cur; h > a; h-- {
		heights = append(heights, h)
	}
	ret := xErrCode(err)
	if err == nil && int(newBest.Height) != a {
		ret = fmt.Sprintf("e?best block after rewind at height %d, common ancestor is %d",
			newBest.Height, a)
	}
	w.chain = w.chain[:a]
	w.record([]any{"rewind", heights, newHeight, cur}, ret)

	// what the notifier connects next: the missed blocks, then the new block
	type conn struct {
		height int
		bid    int
	}
	var got []conn
	if err == nil {
		for _, e := range missed {
			bid, ok := w.bidOf[*e.Hash]
			if !ok {
				bid = -1
			}
			got = append(got, conn{int(e.Height), bid})
		}
		got = append(got, conn{newHeight, b.active[newHeight-1].bid})
	}
	// canonical: connect a+1 .. newHeight of the active chain
	for h, k := a+1, 0; h <= newHeight; h, k = h+1, k+1 {
		want := b.active[h-1]
		switch {
		case k >= len(got):
			b.broken = true
			w.record([]any{"conn", h, want.bid, append([]int{}, want.txs...)},
				"e?block not delivered by the catch-up")
		case got[k].height != h || got[k].bid != want.bid:
			b.broken = true
			// deliver what the real code asked for, as the notifier would
			if blk, ok := w.blocks[got[k].bid]; ok {
				_ = w.n.ConnectTip(blk, uint32(got[k].height))
				_ = w.n.NotifyHeight(uint32(got[k].height))
			}
			w.record([]any{"conn", h, want.bid, append([]int{}, want.txs...)},
				fmt.Sprintf("e?catch-up delivered (height %d, block %d) instead",
					got[k].height, got[k].bid))
		default:
			w.opConnectBlock(h, want)
			if w.cur() != h {
				b.broken = true
			}
		}
		w.opNotify()
		if b.broken {
			return
		}
	}
}

// ConnectTip of an existing (backend) block
func (w *xWorld) opConnectBlock(height int, blk xBlock) {
	err := w.n.ConnectTip(w.blocks[blk.bid], uint32(height))
	if err == nil {
		w.chain = append(w.chain, blk)
		if len(w.chain) > w.high {
			w.high = len(w.chain)
		}
	}
	w.record([]any{"conn", height, blk.bid, append([]int{}, blk.txs...)}, xErrCode(err))
}

// xCatchParams: one member of the enumerated catch-up family.  The notifier
// and the backend agree on a chain of height 5; the backend then replaces the
// top `depth` blocks (0 = none: same branch) by `nb` new ones (nb >= depth) and
// the notifier hears about exactly one block of the new chain: which = 0 the
// first block after the fork point, 1 the block at its own best height + 1,
// 2 the new tip, 3 its own best height.  T0 sits on the old chain at oldPos
// (0 = not at all, 1 = below the fork point, 2 = lowest reorged-out block,
// 3 = old tip) and on the new branch at newPos (0 = absent, 1 = first new
// block, 2 = last new block); T2 / T3 ride at other positions.
type xCatchParams struct{ depth, nb, which, oldPos, newPos int }

func xCatchFamily() []xCatchParams {
	var out []xCatchParams
	for depth := 0; depth <= 3; depth++ {
		for nb := depth; nb <= depth+3; nb++ {
			if nb == 0 || (depth == 0 && nb < 2) {
				continue
			}
			for which := 0; which < 4; which++ {
				if which == 3 && (depth == 0 || nb < depth) {
					continue
				}
				if which == 1 && nb < depth+1 {
					continue
				}
				for oldPos := 0; oldPos < 4; oldPos++ {
					if oldPos >= 2 && depth == 0 {
						continue
					}
					for newPos := 0; newPos < 3; newPos++ {
						if newPos > 0 && oldPos == 1 {
							continue // still confirmed below the fork point
						}
						out = append(out, xCatchParams{depth, nb, which, oldPos, newPos})
					}
				}
			}
		}
	}
	return out
}

func xCatchCase(t *testing.T, hc *channeldb.HeightHintCache, ci int, p xCatchParams,
	limit int) (w *xWorld) {

	const base = 5
	w = xNewWorld(t, hc, ci, 2, limit, "catchup")
	w.ntx, w.nop = 4, 3
	b := &xBackend{w: w, headers: map[chainhash.Hash]*wire.BlockHeader{},
		heights: map[chainhash.Hash]int32{}}
	defer func() {
		// a panic of the real code (nil dereference on a stale index entry ...) ends the
		// history; it is reported with the history that led to it
		if r := recover(); r != nil {
			ch, sh := w.hints()
			w.rec.Ops = append(w.rec.Ops, xOpRec{Op: []any{"notify"},
				Ret: fmt.Sprintf("e?panic: %v", r), CH: ch, SH: sh, Cur: w.cur()})
		}
		for _, blk := range b.active {
			w.rec.Final = append(w.rec.Final, []any{blk.bid, append([]int{}, blk.txs...)})
		}
	}()
	w.chain = append(w.chain, b.mine([]int{}), b.mine([]int{}))
	w.boot()
	fork := base - p.depth // height of the common ancestor
	// clients: T0 (1 + ci%3 confirmations, and a 1-conf client), T2, T3, spends of outpoints 0 / 1
	n0 := 1 + ci%3
	w.opReg(0, n0, 1)
	w.answerConf(0)
	w.opReg(0, 1, 2)
	w.answerConf(0)
	w.opReg(2, 2, 3)
	w.opSReg(0, 1)
	w.answerSpend(0)
	w.opSReg(1, 3)
	oldH := 0
	switch p.oldPos {
	case 1:
		oldH = fork
		if oldH < 3 {
			oldH = 3
		}
		if oldH > fork {
			oldH = 0
		}
	case 2:
		oldH = fork + 1
	case 3:
		oldH = base
	}
	// the old chain, delivered in order; T2 in the old tip, T3 at height 3
	for h := 3; h <= base; h++ {
		txs := []int{}
		if h == oldH {
			txs = append(txs, 0)
		}
		if h == base {
			txs = append(txs, 2)
		}
		if h == 3 {
			txs = append(txs, 3)
		}
		b.mine(txs)
		b.deliver(h)
	}
	// a late client through the historical rescan
	if ci%2 == 1 {
		w.opReg(3, 2, 1)
		w.answerConf(3)
	}
	// the backend silently switches to the new branch
	b.active = b.active[:fork]
	for k := 1; k <= p.nb; k++ {
		txs := []int{}
		onChain := oldH > 0 && oldH <= fork
		if !onChain && ((p.newPos == 1 && k == 1) || (p.newPos == 2 && k == p.nb)) {
			txs = append(txs, 0)
		}
		if p.depth > 0 && k == 2 {
			txs = append(txs, 2) // T2 re-included one block later than before
		}
		b.mine(txs)
	}
	tip := len(b.active)
	var nh int
	switch p.which {
	case 0:
		nh = fork + 1
	case 1:
		nh = base + 1
	case 2:
		nh = tip
	default:
		nh = base
	}
	if nh > tip {
		nh = tip
	}
	b.deliver(nh)
	// the rest of the new branch and three more blocks arrive in order
	for !b.broken && w.cur() < tip {
		b.deliver(w.cur() + 1)
	}
	for k := 0; k < 3 && !b.broken; k++ {
		b.mine([]int{})
		b.deliver(w.cur() + 1)
	}
	return w
}
