//go:build verif

package chainntnfs_test

// C14 correspondence harness: drives the real chainntnfs.TxNotifier with the
// real channeldb.HeightHintCache (bbolt) on seeded and exhaustively enumerated
// chain histories (connect / disconnect / reconnect with the tx absent, moved
// or replaced by a conflicting spend), registrations with arbitrary hints and
// confirmation depths, cancellations and historical-rescan completions racing
// with new blocks.  After every operation all client channels are drained
// non-blockingly and the hint cache is queried; everything is written as JSONL
// to VERIF_OUT.  External test package (channeldb imports chainntnfs), so the
// helpers of harness/_util are re-declared locally with an x prefix.

import (
	"bufio"
	"encoding/json"
	"fmt"
	"os"
	"strconv"
	"sync"
	"testing"

	"github.com/btcsuite/btcd/btcutil/v2"
	"github.com/btcsuite/btcd/chainhash/v2"
	"github.com/btcsuite/btcd/wire/v2"
	"github.com/lightningnetwork/lnd/chainntnfs"
	"github.com/lightningnetwork/lnd/channeldb"
)

// ---- local copies of the shared helpers (splitmix64, env, JSONL writer) ----

type xrng struct{ s uint64 }

func (r *xrng) u64() uint64 {
	r.s += 0x9e3779b97f4a7c15
	z := r.s
	z = (z ^ (z >> 30)) * 0xbf58476d1ce4e5b9
	z = (z ^ (z >> 27)) * 0x94d049bb133111eb
	return z ^ (z >> 31)
}
func (r *xrng) intn(n int) int {
	if n <= 0 {
		return 0
	}
	return int(r.u64() % uint64(n))
}
func (r *xrng) fork(i uint64) *xrng { return &xrng{s: r.s ^ (i+1)*0xd1342543de82ef95} }
func (r *xrng) pct(p int) bool      { return r.intn(100) < p }

func xEnvInt(name string, def int64) int64 {
	if v := os.Getenv(name); v != "" {
		if n, err := strconv.ParseInt(v, 10, 64); err == nil {
			return n
		}
	}
	return def
}

func xTier() string {
	if t := os.Getenv("VERIF_TIER"); t != "" {
		return t
	}
	return "quick"
}

func xCases(q, t int) int {
	if n := xEnvInt("VERIF_CASES", -1); n >= 0 {
		return int(n)
	}
	if xTier() == "thorough" {
		return t
	}
	return q
}

type xWriter struct {
	mu sync.Mutex
	f  *os.File
	w  *bufio.Writer
}

func xOpenOut() *xWriter {
	p := os.Getenv("VERIF_OUT")
	if p == "" {
		p = os.DevNull
	}
	f, err := os.Create(p)
	if err != nil {
		panic(err)
	}
	return &xWriter{f: f, w: bufio.NewWriterSize(f, 1<<20)}
}
func (w *xWriter) emit(v any) {
	b, err := json.Marshal(v)
	if err != nil {
		panic(err)
	}
	w.mu.Lock()
	w.w.Write(b)
	w.w.WriteByte('\n')
	w.mu.Unlock()
}
func (w *xWriter) close() {
	w.mu.Lock()
	w.w.Flush()
	w.f.Close()
	w.mu.Unlock()
}

// ---- universe ----

var (
	xRawScript = []byte{
		0xa9, 0x14,
		0x90, 0x1c, 0x86, 0x94, 0xc0, 0x3f, 0xaf, 0xd5,
		0x52, 0x28, 0x10, 0xe0, 0x33, 0x0f, 0x26, 0xe6,
		0x7a, 0x85, 0x33, 0xcd,
		0x87,
	}
	xSigScript = []byte{
		0x16,
		0x00, 0x14, 0x1d, 0x7c, 0xd6, 0xc7, 0x5c, 0x2e,
		0x86, 0xf4, 0xcb, 0xf9, 0x8e, 0xae, 0xd2, 0x21,
		0xb3, 0x0b, 0xd9, 0xa0, 0xb9, 0x28,
	}
	xWitness = [][]byte{{0x01}}
)

const (
	// T0, T1 spend outpoint 0 (conflict); T2 spends outpoint 1; T3 spends
	// outpoint 2.  xNTx/xNOp are the maxima; a world uses the first w.ntx txs
	// and w.nop outpoints (3/2 for the single-history kinds, 4/3 for the
	// multi-request kinds).
	xNTx = 4
	xNOp = 3
)

var xSpends = [xNTx]int{0, 0, 1, 2}

type xBlock struct {
	bid int
	txs []int
}

type xOpRec struct {
	Op  []any          `json:"op"`
	Ret any            `json:"ret"`
	Ev  map[string]any `json:"ev,omitempty"`
	CH  []*uint32      `json:"ch"`
	SH  []*uint32      `json:"sh"`
	Cur int            `json:"cur"`
}

type xCase struct {
	CI     int       `json:"ci"`
	Kind   string    `json:"kind"`
	Parent int       `json:"parent,omitempty"`
	Start  int       `json:"start"`
	Limit  int       `json:"limit"`
	Pre    [][]any   `json:"pre"`
	CH0    []*uint32 `json:"ch0"`
	SH0    []*uint32 `json:"sh0"`
	Ops    []xOpRec  `json:"ops"`
	Final  [][]any   `json:"final,omitempty"` // catch-up kinds: the backend's final active chain
}

type xConfClient struct {
	cid  int
	tx   int
	ev   *chainntnfs.ConfirmationEvent
	dead bool
}
type xSpendClient struct {
	cid  int
	op   int
	ev   *chainntnfs.SpendEvent
	dead bool
}

type xPending struct {
	start, end int
	snap       []int // answer computed at registration time: nil | [h, x]
}

// xWorld is one case: real notifier + the harness' own view of the chain.
type xWorld struct {
	t      *testing.T
	n      *chainntnfs.TxNotifier
	hc     *channeldb.HeightHintCache
	limit  int
	txs    [xNTx]*wire.MsgTx
	txh    [xNTx]chainhash.Hash
	ops    [xNOp]wire.OutPoint
	creq   [xNTx]chainntnfs.ConfRequest
	sreq   [xNOp]chainntnfs.SpendRequest
	chain  []xBlock // chain[i] is the block at height i+1
	high   int
	blocks map[int]*btcutil.Block
	bidOf  map[chainhash.Hash]int
	nbid   int
	ncid   int
	cc     []*xConfClient
	sc     []*xSpendClient
	cpend  [xNTx][]xPending
	spend  [xNOp][]xPending
	rec    *xCase
	ntx    int       // txs / conf requests in use (<= xNTx)
	nop    int       // outpoints / spend requests in use (<= xNOp)
	plan   [xNTx]int // multi-request kinds: planned inclusion height of tx i (0 = none)
	ustart int       // first height of the historical dispatch the next upd/supd answers (0 = whole chain)
}

func (w *xWorld) cur() int { return len(w.chain) }

func (w *xWorld) mkBlock(txs []int) xBlock {
	w.nbid++
	bid := w.nbid
	mb := &wire.MsgBlock{Header: wire.BlockHeader{Nonce: uint32(bid)}}
	for _, i := range txs {
		mb.Transactions = append(mb.Transactions, w.txs[i])
	}
	b := btcutil.NewBlock(mb)
	w.blocks[bid] = b
	w.bidOf[*b.Hash()] = bid
	return xBlock{bid: bid, txs: txs}
}

// where is tx i on the active chain (height, bid) or (0,0)
func (w *xWorld) findTx(i, from, to int) (int, int) {
	for h := from; h <= to && h <= len(w.chain); h++ {
		if h < 1 {
			continue
		}
		for _, x := range w.chain[h-1].txs {
			if x == i {
				return h, w.chain[h-1].bid
			}
		}
	}
	return 0, 0
}

// where is outpoint o spent on the active chain (height, spender tx) or (0,-1)
func (w *xWorld) findSpend(o, from, to int) (int, int) {
	for h := from; h <= to && h <= len(w.chain); h++ {
		if h < 1 {
			continue
		}
		for _, x := range w.chain[h-1].txs {
			if xSpends[x] == o {
				return h, x
			}
		}
	}
	return 0, -1
}

func (w *xWorld) hints() ([]*uint32, []*uint32) {
	ch := make([]*uint32, w.ntx)
	sh := make([]*uint32, w.nop)
	for i := 0; i < w.ntx; i++ {
		if h, err := w.hc.QueryConfirmHint(w.creq[i]); err == nil {
			v := h
			ch[i] = &v
		} else if err != chainntnfs.ErrConfirmHintNotFound {
			xFatal("QueryConfirmHint: %v", err)
		}
	}
	for i := 0; i < w.nop; i++ {
		if h, err := w.hc.QuerySpendHint(w.sreq[i]); err == nil {
			v := h
			sh[i] = &v
		} else if err != chainntnfs.ErrSpendHintNotFound {
			xFatal("QuerySpendHint: %v", err)
		}
	}
	return ch, sh
}

// drain all client channels non-blockingly
func (w *xWorld) drain() map[string]any {
	out := map[string]any{}
	for _, c := range w.cc {
		if c.dead {
			continue
		}
		rec := map[string]any{}
		var ups [][]uint32
		for more := true; more; {
			select {
			case u, ok := <-c.ev.Updates:
				if !ok {
					xFatal("Updates closed for live client %d", c.cid)
				}
				ups = append(ups, []uint32{u.NumConfsLeft, u.BlockHeight})
			default:
				more = false
			}
		}
		if len(ups) > 0 {
			rec["u"] = ups
		}
		var confs [][]int
		for more := true; more; {
			select {
			case d, ok := <-c.ev.Confirmed:
				if !ok {
					xFatal("Confirmed closed for live client %d", c.cid)
				}
				bid, known := w.bidOf[*d.BlockHash]
				if !known {
					bid = -1
				}
				if d.Tx == nil || d.Tx.TxHash() != w.txh[c.tx] {
					bid = -2
				}
				confs = append(confs, []int{int(d.BlockHeight), bid})
			default:
				more = false
			}
		}
		if len(confs) > 0 {
			rec["c"] = confs
		}
		var negs []int32
		for more := true; more; {
			select {
			case d, ok := <-c.ev.NegativeConf:
				if !ok {
					xFatal("NegativeConf closed for live client %d", c.cid)
				}
				negs = append(negs, d)
			default:
				more = false
			}
		}
		if len(negs) > 0 {
			rec["n"] = negs
		}
		nd := 0
		for more := true; more; {
			select {
			case _, ok := <-c.ev.Done:
				if !ok {
					more = false
					break
				}
				nd++
			default:
				more = false
			}
		}
		if nd > 0 {
			rec["d"] = nd
		}
		if len(rec) > 0 {
			out[strconv.Itoa(c.cid)] = rec
		}
	}
	for _, c := range w.sc {
		if c.dead {
			continue
		}
		rec := map[string]any{}
		var sp [][]int
		for more := true; more; {
			select {
			case d, ok := <-c.ev.Spend:
				if !ok {
					xFatal("Spend closed for live client %d", c.cid)
				}
				tx := -1
				for i := 0; i < xNTx; i++ {
					if *d.SpenderTxHash == w.txh[i] {
						tx = i
					}
				}
				if d.SpentOutPoint == nil || *d.SpentOutPoint != w.ops[c.op] {
					tx = -2
				}
				sp = append(sp, []int{int(d.SpendingHeight), tx})
			default:
				more = false
			}
		}
		if len(sp) > 0 {
			rec["s"] = sp
		}
		nr := 0
		for more := true; more; {
			select {
			case _, ok := <-c.ev.Reorg:
				if !ok {
					xFatal("Reorg closed for live client %d", c.cid)
				}
				nr++
			default:
				more = false
			}
		}
		if nr > 0 {
			rec["r"] = nr
		}
		nd := 0
		for more := true; more; {
			select {
			case _, ok := <-c.ev.Done:
				if !ok {
					more = false
					break
				}
				nd++
			default:
				more = false
			}
		}
		if nd > 0 {
			rec["d"] = nd
		}
		if len(rec) > 0 {
			out[strconv.Itoa(c.cid)] = rec
		}
	}
	return out
}

func (w *xWorld) record(op []any, ret any) {
	ev := w.drain()
	ch, sh := w.hints()
	w.rec.Ops = append(w.rec.Ops, xOpRec{Op: op, Ret: ret, Ev: ev, CH: ch, SH: sh, Cur: w.cur()})
}

func xErrCode(err error) any {
	switch {
	case err == nil:
		return "ok"
	case err == chainntnfs.ErrNumConfsOutOfRange:
		return "e1"
	case err == chainntnfs.ErrNoHeightHint:
		return "e2"
	default:
		s := err.Error()
		if len(s) > 20 && (s[:22] == "confirmation notificat" || s[:18] == "spend notification") {
			return "e3"
		}
		if len(s) > 25 && s[:25] == "received blocks out of or" {
			return "e4"
		}
		return "e?" + s
	}
}

// ---- operations on the real notifier ----

func (w *xWorld) opReg(tx, numConfs, hint int) {
	w.ncid++
	cid := w.ncid
	reg, err := w.n.RegisterConf(&w.txh[tx], xRawScript, uint32(numConfs), uint32(hint))
	if err != nil {
		w.record([]any{"reg", tx, cid, numConfs, hint}, xErrCode(err))
		return
	}
	w.cc = append(w.cc, &xConfClient{cid: cid, tx: tx, ev: reg.Event})
	var ret any = "ok"
	if reg.HistoricalDispatch != nil {
		d := reg.HistoricalDispatch
		ret = []int{int(d.StartHeight), int(d.EndHeight)}
		h, b := w.findTx(tx, int(d.StartHeight), int(d.EndHeight))
		var snap []int
		if h > 0 {
			snap = []int{h, b}
		}
		w.cpend[tx] = append(w.cpend[tx], xPending{int(d.StartHeight), int(d.EndHeight), snap})
	}
	if int(reg.Height) != w.cur() {
		ret = fmt.Sprintf("height %d != %d", reg.Height, w.cur())
	}
	w.record([]any{"reg", tx, cid, numConfs, hint}, ret)
}

func (w *xWorld) opSReg(op, hint int) {
	w.ncid++
	cid := w.ncid
	reg, err := w.n.RegisterSpend(&w.ops[op], xRawScript, uint32(hint))
	if err != nil {
		w.record([]any{"sreg", op, cid, hint}, xErrCode(err))
		return
	}
	w.sc = append(w.sc, &xSpendClient{cid: cid, op: op, ev: reg.Event})
	var ret any = "ok"
	if reg.HistoricalDispatch != nil {
		d := reg.HistoricalDispatch
		ret = []int{int(d.StartHeight), int(d.EndHeight)}
		h, x := w.findSpend(op, int(d.StartHeight), int(d.EndHeight))
		var snap []int
		if h > 0 {
			snap = []int{h, x}
		}
		w.spend[op] = append(w.spend[op], xPending{int(d.StartHeight), int(d.EndHeight), snap})
	}
	w.record([]any{"sreg", op, cid, hint}, ret)
}

// ans: nil or [height, bid]
func (w *xWorld) opUpd(tx int, ans []int, mode string) {
	var det *chainntnfs.TxConfirmation
	var a any
	if ans != nil {
		b, ok := w.blocks[ans[1]]
		if !ok {
			// block the notifier has not been told about (backend ahead)
			mb := &wire.MsgBlock{Header: wire.BlockHeader{Nonce: uint32(ans[1])}}
			mb.Transactions = append(mb.Transactions, w.txs[tx])
			b = btcutil.NewBlock(mb)
			w.blocks[ans[1]] = b
			w.bidOf[*b.Hash()] = ans[1]
		}
		det = &chainntnfs.TxConfirmation{
			BlockHash:   b.Hash(),
			BlockHeight: uint32(ans[0]),
			TxIndex:     0,
			Tx:          w.txs[tx],
		}
		a = ans
	}
	err := w.n.UpdateConfDetails(w.creq[tx], det)
	st := w.ustart
	if st < 1 {
		st = 1
	}
	w.ustart = 0
	w.record([]any{"upd", tx, a, mode, st}, xErrCode(err))
}

// ans: nil or [height, spender tx]
func (w *xWorld) opSUpd(op int, ans []int, mode string) {
	var det *chainntnfs.SpendDetail
	var a any
	if ans != nil {
		o := w.ops[op]
		det = &chainntnfs.SpendDetail{
			SpentOutPoint:     &o,
			SpenderTxHash:     &w.txh[ans[1]],
			SpendingTx:        w.txs[ans[1]],
			SpenderInputIndex: 0,
			SpendingHeight:    int32(ans[0]),
		}
		a = ans
	}
	err := w.n.UpdateSpendDetails(w.sreq[op], det)
	st := w.ustart
	if st < 1 {
		st = 1
	}
	w.ustart = 0
	w.record([]any{"supd", op, a, mode, st}, xErrCode(err))
}

func (w *xWorld) opConnect(height int, txs []int) {
	blk := w.mkBlock(txs)
	err := w.n.ConnectTip(w.blocks[blk.bid], uint32(height))
	if err == nil {
		w.chain = append(w.chain, blk)
		if len(w.chain) > w.high {
			w.high = len(w.chain)
		}
	}
	t := make([]int, len(txs))
	copy(t, txs)
	w.record([]any{"conn", height, blk.bid, t}, xErrCode(err))
}

func (w *xWorld) opNotify() {
	err := w.n.NotifyHeight(uint32(w.cur()))
	w.record([]any{"notify"}, xErrCode(err))
}

func (w *xWorld) opDisconnect(height int) {
	err := w.n.DisconnectTip(uint32(height))
	if err == nil {
		w.chain = w.chain[:len(w.chain)-1]
	}
	w.record([]any{"disc", height}, xErrCode(err))
}

func (w *xWorld) opCancel(c *xConfClient) {
	c.ev.Cancel()
	c.dead = true
	w.record([]any{"cancel", c.tx, c.cid}, "ok")
}

func (w *xWorld) opSCancel(c *xSpendClient) {
	c.ev.Cancel()
	c.dead = true
	w.record([]any{"scancel", c.op, c.cid}, "ok")
}

// txs that may be put in the next block: not on the chain, no conflict
func (w *xWorld) candidates() []int {
	var onchain [xNTx]bool
	var spent [xNOp]bool
	for _, b := range w.chain {
		for _, x := range b.txs {
			onchain[x] = true
			spent[xSpends[x]] = true
		}
	}
	var c []int
	for i := 0; i < w.ntx; i++ {
		if !onchain[i] && !spent[xSpends[i]] {
			c = append(c, i)
		}
	}
	return c
}

func (w *xWorld) pickBlockTxs(r *xrng, p int) []int {
	txs := []int{}
	var spent [xNOp]bool
	for _, i := range w.candidates() {
		if !spent[xSpends[i]] && r.pct(p) {
			txs = append(txs, i)
			spent[xSpends[i]] = true
		}
	}
	return txs
}

func xNewWorld(t *testing.T, hc *channeldb.HeightHintCache, ci, start, limit int,
	kind string) *xWorld {

	w := &xWorld{t: t, hc: hc, limit: limit, blocks: map[int]*btcutil.Block{},
		bidOf: map[chainhash.Hash]int{}, ntx: 3, nop: 2}
	for o := 0; o < xNOp; o++ {
		var h chainhash.Hash
		h[0] = 0xaa
		h[1] = byte(ci)
		h[2] = byte(ci >> 8)
		h[3] = byte(ci >> 16)
		w.ops[o] = wire.OutPoint{Hash: h, Index: uint32(o)}
		sr, err := chainntnfs.NewSpendRequest(&w.ops[o], xRawScript)
		if err != nil {
			t.Fatal(err)
		}
		w.sreq[o] = sr
	}
	for i := 0; i < xNTx; i++ {
		tx := wire.NewMsgTx(int32(i + 1))
		tx.LockTime = uint32(ci + 1)
		tx.AddTxIn(&wire.TxIn{
			PreviousOutPoint: w.ops[xSpends[i]],
			SignatureScript:  xSigScript,
			Witness:          xWitness,
		})
		tx.AddTxOut(&wire.TxOut{PkScript: xRawScript})
		w.txs[i] = tx
		w.txh[i] = tx.TxHash()
		cr, err := chainntnfs.NewConfRequest(&w.txh[i], xRawScript)
		if err != nil {
			t.Fatal(err)
		}
		w.creq[i] = cr
	}
	w.rec = &xCase{CI: ci, Kind: kind, Start: start, Limit: limit}
	return w
}

// start the notifier on the pre-chain built so far
func (w *xWorld) boot() {
	for _, b := range w.chain {
		t := make([]int, len(b.txs))
		copy(t, b.txs)
		w.rec.Pre = append(w.rec.Pre, []any{b.bid, t})
	}
	w.high = len(w.chain)
	w.rec.CH0, w.rec.SH0 = w.hints()
	w.n = chainntnfs.NewTxNotifier(uint32(len(w.chain)), uint32(w.limit), w.hc, w.hc)
}

// ---- seeded histories ----

func (w *xWorld) randomHint(r *xrng, confirmedAt int) int {
	cur := w.cur()
	switch {
	case r.pct(2):
		return 0
	case r.pct(10): // possibly invalid: anywhere
		return 1 + r.intn(cur+2)
	case confirmedAt > 0:
		if r.pct(40) {
			return confirmedAt
		}
		return 1 + r.intn(confirmedAt)
	default:
		switch r.intn(4) {
		case 0:
			return cur + 1
		case 1:
			if cur > 0 {
				return cur
			}
			return 1
		default:
			return 1 + r.intn(cur+2)
		}
	}
}

func (w *xWorld) randomNumConfs(r *xrng) int {
	mx := 6
	if w.limit < mx {
		mx = w.limit
	}
	switch {
	case r.pct(1):
		return 0
	case r.pct(2):
		return w.limit + 1
	case r.pct(35):
		return 1
	default:
		return 1 + r.intn(mx)
	}
}

func (w *xWorld) clientOp(r *xrng) {
	switch k := r.intn(100); {
	case k < 30:
		tx := r.intn(w.ntx)
		h, _ := w.findTx(tx, 1, w.cur())
		w.opReg(tx, w.randomNumConfs(r), w.randomHint(r, h))
	case k < 48:
		op := r.intn(w.nop)
		h, _ := w.findSpend(op, 1, w.cur())
		w.opSReg(op, w.randomHint(r, h))
	case k < 68:
		// historical conf rescan completion
		tx := r.intn(w.ntx)
		for j := 0; j < w.ntx && len(w.cpend[tx]) == 0; j++ {
			tx = (tx + 1) % w.ntx
		}
		if len(w.cpend[tx]) == 0 {
			if r.pct(30) {
				h, b := w.findTx(tx, 1, w.cur())
				if h > 0 {
					w.opUpd(tx, []int{h, b}, "spurious")
				} else {
					w.opUpd(tx, nil, "spurious")
				}
			}
			return
		}
		p := w.cpend[tx][0]
		if !r.pct(12) { // sometimes deliver a second answer for the same dispatch
			w.cpend[tx] = w.cpend[tx][1:]
		}
		m := r.intn(100)
		// the registration-time snapshot is outdated by now (the tx was included /
		// moved / reorged out while the rescan was running): deliver it often
		if nh, nb := w.findTx(tx, p.start, w.cur()); r.pct(45) &&
			((p.snap == nil) != (nh == 0) || (p.snap != nil && (p.snap[0] != nh || p.snap[1] != nb))) {
			m = 90
		}
		w.ustart = p.start
		switch {
		case m < 70:
			h, b := w.findTx(tx, p.start, w.cur())
			if h > 0 {
				w.opUpd(tx, []int{h, b}, "now")
			} else {
				w.opUpd(tx, nil, "now")
			}
		case m < 82:
			w.ustart = 1
			h, b := w.findTx(tx, 1, w.cur())
			if h > 0 {
				w.opUpd(tx, []int{h, b}, "index")
			} else {
				w.opUpd(tx, nil, "index")
			}
		case m < 94:
			w.opUpd(tx, p.snap, "snapshot")
		default:
			// backend already sees a block the notifier has not been given
			if h, b := w.findTx(tx, 1, w.cur()); h > 0 && !r.pct(10) {
				w.opUpd(tx, []int{h, b}, "index")
			} else {
				w.nbid++
				w.opUpd(tx, []int{w.cur() + 1 + r.intn(2), 9000 + w.nbid}, "ahead")
			}
		}
	case k < 82:
		op := r.intn(w.nop)
		if len(w.spend[op]) == 0 {
			op = (op + 1) % w.nop
		}
		if len(w.spend[op]) == 0 {
			if r.pct(30) {
				h, x := w.findSpend(op, 1, w.cur())
				if h > 0 {
					w.opSUpd(op, []int{h, x}, "spurious")
				} else {
					w.opSUpd(op, nil, "spurious")
				}
			}
			return
		}
		p := w.spend[op][0]
		if !r.pct(12) {
			w.spend[op] = w.spend[op][1:]
		}
		m := r.intn(100)
		if nh, nx := w.findSpend(op, p.start, w.cur()); r.pct(45) &&
			((p.snap == nil) != (nh == 0) || (p.snap != nil && (p.snap[0] != nh || p.snap[1] != nx))) {
			m = 90
		}
		w.ustart = p.start
		switch {
		case m < 70:
			h, x := w.findSpend(op, p.start, w.cur())
			if h > 0 {
				w.opSUpd(op, []int{h, x}, "now")
			} else {
				w.opSUpd(op, nil, "now")
			}
		case m < 82:
			w.ustart = 1
			h, x := w.findSpend(op, 1, w.cur())
			if h > 0 {
				w.opSUpd(op, []int{h, x}, "index")
			} else {
				w.opSUpd(op, nil, "index")
			}
		case m < 94:
			w.opSUpd(op, p.snap, "snapshot")
		default:
			if h, x := w.findSpend(op, 1, w.cur()); h > 0 && !r.pct(10) {
				w.opSUpd(op, []int{h, x}, "index")
			} else {
				w.opSUpd(op, []int{w.cur() + 1 + r.intn(2), r.intn(w.ntx)}, "ahead")
			}
		}
	case k < 92:
		var live []*xConfClient
		for _, c := range w.cc {
			if !c.dead {
				live = append(live, c)
			}
		}
		if len(live) > 0 {
			w.opCancel(live[r.intn(len(live))])
		}
	default:
		var live []*xSpendClient
		for _, c := range w.sc {
			if !c.dead {
				live = append(live, c)
			}
		}
		if len(live) > 0 {
			w.opSCancel(live[r.intn(len(live))])
		}
	}
}

// racePrelude: a request is registered while its tx is unconfirmed (historical
// rescan dispatched), the tx is included at tip, k more blocks connect, and only
// then the -- by now outdated -- rescan result is delivered ("not found" as
// computed at registration time), possibly followed by more blocks.
func (w *xWorld) racePrelude(r *xrng) {
	cand := w.candidates()
	if len(cand) == 0 {
		return
	}
	tx := cand[r.intn(len(cand))]
	spend := r.pct(40)
	hint := 1 + r.intn(w.cur())
	if spend {
		w.opSReg(xSpends[tx], hint)
	} else {
		w.opReg(tx, 1+r.intn(2), hint)
	}
	w.opConnect(w.cur()+1, []int{tx})
	w.opNotify()
	for k := r.intn(3); k > 0; k-- {
		w.opConnect(w.cur()+1, []int{})
		if r.pct(30) {
			w.clientOp(r)
		}
		w.opNotify()
	}
	if r.pct(75) {
		if spend {
			if ps := w.spend[xSpends[tx]]; len(ps) > 0 {
				w.spend[xSpends[tx]] = ps[1:]
				w.ustart = ps[0].start
				w.opSUpd(xSpends[tx], ps[0].snap, "snapshot")
			}
		} else if ps := w.cpend[tx]; len(ps) > 0 {
			w.cpend[tx] = ps[1:]
			w.ustart = ps[0].start
			w.opUpd(tx, ps[0].snap, "snapshot")
		}
		if r.pct(50) {
			w.opConnect(w.cur()+1, []int{})
			w.opNotify()
		}
	}
}

// flushPending: at the end of a history most outstanding historical rescans
// complete, late: with the registration-time snapshot or truthfully.
func (w *xWorld) flushPending(r *xrng) {
	for tx := 0; tx < w.ntx; tx++ {
		for len(w.cpend[tx]) > 0 {
			p := w.cpend[tx][0]
			w.cpend[tx] = w.cpend[tx][1:]
			if !r.pct(70) {
				continue
			}
			w.ustart = p.start
			if r.pct(50) {
				w.opUpd(tx, p.snap, "snapshot")
			} else if h, b := w.findTx(tx, p.start, w.cur()); h > 0 {
				w.opUpd(tx, []int{h, b}, "now")
			} else {
				w.opUpd(tx, nil, "now")
			}
		}
	}
	for op := 0; op < w.nop; op++ {
		for len(w.spend[op]) > 0 {
			p := w.spend[op][0]
			w.spend[op] = w.spend[op][1:]
			if !r.pct(70) {
				continue
			}
			w.ustart = p.start
			if r.pct(50) {
				w.opSUpd(op, p.snap, "snapshot")
			} else if h, x := w.findSpend(op, p.start, w.cur()); h > 0 {
				w.opSUpd(op, []int{h, x}, "now")
			} else {
				w.opSUpd(op, nil, "now")
			}
		}
	}
}

// xRestartCase: the "restart" observation.  A fresh TxNotifier is built on the
// SAME hint cache at the final tip of a finished history; every request is
// registered again with height hint = its cached hint (1 if none) and the
// historical dispatch is answered truthfully for the dispatched range on the
// final chain.  A client must end up notified iff the tx has >= N confirmations
// (the outpoint is spent) on the final chain: any persisted hint that is too
// high makes the rescan miss it, whatever the cause.
func xRestartCase(t *testing.T, hc *channeldb.HeightHintCache, w *xWorld) *xCase {
	w2 := xNewWorld(t, hc, w.rec.CI, len(w.chain), w.limit, "restart")
	w2.rec.Parent = w.rec.CI
	w2.rec.CI = w.rec.CI + 2000000
	w2.ntx, w2.nop = w.ntx, w.nop
	w2.chain = append([]xBlock{}, w.chain...)
	w2.blocks, w2.bidOf, w2.nbid = w.blocks, w.bidOf, w.nbid
	w2.boot()
	ch, sh := w2.hints()
	for tx := 0; tx < w2.ntx; tx++ {
		hint, n := 1, 1
		if ch[tx] != nil && *ch[tx] > 0 {
			hint = int(*ch[tx])
		}
		if tx == 0 && w.limit >= 2 && w.rec.CI%2 == 1 {
			n = 2
		}
		w2.opReg(tx, n, hint)
		for len(w2.cpend[tx]) > 0 {
			p := w2.cpend[tx][0]
			w2.cpend[tx] = w2.cpend[tx][1:]
			w2.ustart = p.start
			if h, b := w2.findTx(tx, p.start, p.end); h > 0 {
				w2.opUpd(tx, []int{h, b}, "now")
			} else {
				w2.opUpd(tx, nil, "now")
			}
		}
	}
	for op := 0; op < w2.nop; op++ {
		hint := 1
		if sh[op] != nil && *sh[op] > 0 {
			hint = int(*sh[op])
		}
		w2.opSReg(op, hint)
		for len(w2.spend[op]) > 0 {
			p := w2.spend[op][0]
			w2.spend[op] = w2.spend[op][1:]
			w2.ustart = p.start
			if h, x := w2.findSpend(op, p.start, p.end); h > 0 {
				w2.opSUpd(op, []int{h, x}, "now")
			} else {
				w2.opSUpd(op, nil, "now")
			}
		}
	}
	return w2.rec
}

func xRandomCase(t *testing.T, hc *channeldb.HeightHintCache, r *xrng, ci int) *xWorld {
	limits := []int{144, 144, 144, 2, 3, 4, 5, 6}
	limit := limits[r.intn(len(limits))]
	start := 1 + r.intn(3)
	w := xNewWorld(t, hc, ci, start, limit, "random")
	for h := 1; h <= start; h++ {
		w.chain = append(w.chain, w.mkBlock(w.pickBlockTxs(r, 25)))
	}
	// sometimes a hint left over from an earlier run
	if r.pct(20) {
		tx := r.intn(w.ntx)
		if err := hc.CommitConfirmHint(uint32(1+r.intn(start+1)), w.creq[tx]); err != nil {
			t.Fatal(err)
		}
	}
	if r.pct(15) {
		op := r.intn(w.nop)
		if err := hc.CommitSpendHint(uint32(1+r.intn(start+1)), w.sreq[op]); err != nil {
			t.Fatal(err)
		}
	}
	w.boot()
	maxH := start + 5
	nops := 6 + r.intn(22)
	if r.pct(30) {
		w.racePrelude(r)
	}
	defer w.flushPending(r)
	for k := 0; k < nops; k++ {
		switch x := r.intn(100); {
		case x < 45:
			w.clientOp(r)
		case x < 75:
			if w.cur() >= maxH {
				continue
			}
			w.opConnect(w.cur()+1, w.pickBlockTxs(r, 40))
			// registrations / rescan completions racing with the tip
			for r.pct(25) {
				w.clientOp(r)
			}
			w.opNotify()
		case x < 97:
			// disconnect 1..3 blocks; mostly within the reorg safety limit
			d := 1 + r.intn(3)
			for ; d > 0 && w.cur() > 1; d-- {
				if w.cur()+w.limit <= w.high && !r.pct(8) {
					break
				}
				w.opDisconnect(w.cur())
				if r.pct(10) {
					w.clientOp(r)
				}
			}
		default:
			// out-of-order calls: error, no state change
			if r.pct(50) {
				w.opConnect(w.cur()+2-3*r.intn(2), w.pickBlockTxs(r, 40))
			} else {
				w.opDisconnect(w.cur() + 1 - 2*r.intn(2))
			}
		}
	}
	return w
}

// ---- multi-request histories with forced index collisions ----
//
// TxNotifier keeps ONE confsByInitialHeight / ntfnsByConfirmHeight /
// spendsByHeight index for all requests: a bucket is shared by every request
// whose inclusion height, due height (inclusion height + numConfs - 1) or spend
// height coincides.  The histories below watch up to 4 txs / 3 outpoints with
// several clients each, registered at different times (before inclusion, after
// inclusion through the historical rescan, between ConnectTip and NotifyHeight),
// included in different (or the same) blocks, with numConfs CHOSEN so that the
// due heights of different requests coincide, and then connect / disconnect
// only some of the inclusion blocks / re-include.  Every environment obligation
// is met (valid hints, truthful rescan answers, reorgs within the limit), so
// each request's stream is checked at full strength.

// validHint: a client height hint that is never above the actual
// confirmation / spend height (at = 0: not on the chain yet).
func (w *xWorld) validHint(r *xrng, at int) int {
	if at > 0 {
		if r.pct(40) {
			return at
		}
		return 1 + r.intn(at)
	}
	switch r.intn(3) {
	case 0:
		return w.cur() + 1
	case 1:
		if w.cur() > 0 {
			return w.cur()
		}
		return 1
	default:
		return 1 + r.intn(w.cur()+1)
	}
}

// answer every outstanding historical conf rescan of tx truthfully
func (w *xWorld) answerConf(tx int) {
	for len(w.cpend[tx]) > 0 {
		p := w.cpend[tx][0]
		w.cpend[tx] = w.cpend[tx][1:]
		w.ustart = p.start
		if h, b := w.findTx(tx, p.start, w.cur()); h > 0 {
			w.opUpd(tx, []int{h, b}, "now")
		} else {
			w.opUpd(tx, nil, "now")
		}
	}
}

func (w *xWorld) answerSpend(op int) {
	for len(w.spend[op]) > 0 {
		p := w.spend[op][0]
		w.spend[op] = w.spend[op][1:]
		w.ustart = p.start
		if h, x := w.findSpend(op, p.start, w.cur()); h > 0 {
			w.opSUpd(op, []int{h, x}, "now")
		} else {
			w.opSUpd(op, nil, "now")
		}
	}
}

// numConfs that makes the client of a tx included at height `at` due at `due`
// (the shared bucket), when that is a legal value; otherwise a small random one
func (w *xWorld) collidingNumConfs(r *xrng, at, due int) int {
	mx := 5
	if w.limit < mx {
		mx = w.limit
	}
	n := due - at + 1
	if at <= 0 || n < 1 || n > mx || r.pct(20) {
		n = 1 + r.intn(mx)
	}
	return n
}

// the txs of the block at `height` according to the plan
func (w *xWorld) plannedBlock(height int) []int {
	txs := []int{}
	var spent [xNOp]bool
	for _, i := range w.candidates() {
		if w.plan[i] == height && !spent[xSpends[i]] {
			txs = append(txs, i)
			spent[xSpends[i]] = true
		}
	}
	return txs
}

func (w *xWorld) multiClientOp(r *xrng, due int) {
	switch k := r.intn(100); {
	case k < 45:
		tx := r.intn(w.ntx)
		h, _ := w.findTx(tx, 1, w.cur())
		at := h
		if at == 0 && w.plan[tx] > w.cur() {
			at = w.plan[tx]
		}
		w.opReg(tx, w.collidingNumConfs(r, at, due), w.validHint(r, h))
		if !r.pct(20) {
			w.answerConf(tx)
		}
	case k < 62:
		op := r.intn(w.nop)
		h, _ := w.findSpend(op, 1, w.cur())
		w.opSReg(op, w.validHint(r, h))
		if !r.pct(20) {
			w.answerSpend(op)
		}
	case k < 74:
		w.answerConf(r.intn(w.ntx))
	case k < 82:
		w.answerSpend(r.intn(w.nop))
	case k < 94:
		var live []*xConfClient
		for _, c := range w.cc {
			if !c.dead {
				live = append(live, c)
			}
		}
		if len(live) > 0 {
			w.opCancel(live[r.intn(len(live))])
		}
	default:
		var live []*xSpendClient
		for _, c := range w.sc {
			if !c.dead {
				live = append(live, c)
			}
		}
		if len(live) > 0 {
			w.opSCancel(live[r.intn(len(live))])
		}
	}
}

func xMultiCase(t *testing.T, hc *channeldb.HeightHintCache, r *xrng, ci int) *xWorld {
	limits := []int{144, 144, 144, 8, 6, 5}
	limit := limits[r.intn(len(limits))]
	start := 2 + r.intn(3)
	w := xNewWorld(t, hc, ci, start, limit, "multi")
	w.ntx, w.nop = 4, 3
	for h := 1; h <= start; h++ {
		txs := []int{}
		if h >= 2 && r.pct(12) {
			txs = w.pickBlockTxs(r, 35)
		}
		w.chain = append(w.chain, w.mkBlock(txs))
	}
	w.boot()
	replan := func() {
		for i := 0; i < w.ntx; i++ {
			if h, _ := w.findTx(i, 1, w.cur()); h > 0 {
				w.plan[i] = h
			} else if w.plan[i] <= w.cur() {
				if r.pct(20) {
					w.plan[i] = 0
				} else {
					w.plan[i] = w.cur() + 1 + r.intn(3)
				}
			}
		}
	}
	regConf := func(tx, due int) {
		h, _ := w.findTx(tx, 1, w.cur())
		at := h
		if at == 0 && w.plan[tx] > w.cur() {
			at = w.plan[tx]
		}
		w.opReg(tx, w.collidingNumConfs(r, at, due), w.validHint(r, h))
		if !r.pct(15) {
			w.answerConf(tx)
		}
	}
	grow := func(to, due int) {
		for w.cur() < to {
			w.opConnect(w.cur()+1, w.plannedBlock(w.cur()+1))
			for r.pct(30) {
				w.multiClientOp(r, due)
			}
			w.opNotify()
			for r.pct(35) {
				w.multiClientOp(r, due)
			}
		}
	}
	replan()
	due := start + 2 + r.intn(3)
	// most requests get their first clients before anything is included
	for tx := 0; tx < w.ntx; tx++ {
		for k := r.intn(3); k > 0; k-- {
			regConf(tx, due)
		}
	}
	for op := 0; op < w.nop; op++ {
		if r.pct(60) {
			h, _ := w.findSpend(op, 1, w.cur())
			w.opSReg(op, w.validHint(r, h))
			w.answerSpend(op)
		}
	}
	for round := 0; round < 3; round++ {
		// grow to somewhere between the first planned inclusion and the due height
		lo := w.cur() + 1
		to := lo + r.intn(due-lo+1)
		if due < lo {
			to = lo
		}
		grow(to, due)
		// disconnect 1..3 blocks, strictly within the reorg safety limit
		n := 0
		for d := 1 + r.intn(3); d > 0 && w.cur() > 1 && w.high < w.cur()+w.limit; d-- {
			w.opDisconnect(w.cur())
			n++
			if r.pct(20) {
				w.multiClientOp(r, due)
			}
		}
		if n > 0 {
			replan()
		}
		if r.pct(40) {
			due = w.cur() + 1 + r.intn(3)
		}
		for r.pct(40) {
			regConf(r.intn(w.ntx), due)
		}
		if round > 0 && r.pct(50) {
			break
		}
	}
	// ... and past every due height
	grow(due+1+r.intn(2), due)
	for tx := 0; tx < w.ntx; tx++ {
		w.answerConf(tx)
	}
	for op := 0; op < w.nop; op++ {
		w.answerSpend(op)
	}
	return w
}

// xCollParams: one member of the enumerated collision family.  A = T0 is
// included at height 3, B = T2 `off` blocks later (0 = same block); B's client
// wants k confirmations, A's k+off: both are due at 3+off+k-1.  `grow` empty
// blocks follow, `disc` blocks are disconnected (1 .. down to A's block),
// re bit 0 / 1: B / A is re-included in the first new block (when it was
// removed), then the chain grows past the due heights.  via: 0 = both
// registered before inclusion (handleConfDetailsAtTip), 1 = A's / 2 = B's
// client registers after inclusion (historical rescan -> UpdateConfDetails ->
// dispatchConfDetails), 3 = A has a second client (1 conf) that is cancelled
// after the reorg and B has a client that is cancelled BEFORE the reorg
// (CancelConf on a shared bucket).  Spend requests on both outpoints and a conf
// request on T3 (same block as B, 1 conf more) ride along.
type xCollParams struct{ off, k, grow, disc, re, via int }

func xCollFamily() []xCollParams {
	var out []xCollParams
	for via := 0; via < 4; via++ {
		for off := 0; off <= 2; off++ {
			for k := 1; k <= 3; k++ {
				for grow := 0; grow <= 2; grow++ {
					for disc := 1; disc <= off+grow+1 && disc <= 3; disc++ {
						bGone := disc >= grow+1
						aGone := disc >= off+grow+1
						for re := 0; re < 4; re++ {
							if (re&1 != 0 && !bGone) || (re&2 != 0 && !aGone) {
								continue
							}
							out = append(out, xCollParams{off, k, grow, disc, re, via})
						}
					}
				}
			}
		}
	}
	return out
}

func xCollCase(t *testing.T, hc *channeldb.HeightHintCache, ci int, p xCollParams,
	limit int) *xWorld {

	const A, B, C = 0, 2, 3
	w := xNewWorld(t, hc, ci, 2, limit, "mcoll")
	w.ntx, w.nop = 4, 3
	w.chain = append(w.chain, w.mkBlock([]int{}), w.mkBlock([]int{}))
	w.boot()
	nA, nB := p.k+p.off, p.k
	reg := func(tx, n int) {
		w.opReg(tx, n, 1)
		w.answerConf(tx)
	}
	w.opSReg(0, 1)
	w.answerSpend(0)
	w.opSReg(1, 2)
	w.answerSpend(1)
	if p.via != 1 {
		reg(A, nA)
	}
	if p.via == 3 {
		reg(A, 1)
	}
	if p.via != 2 {
		reg(B, nB)
	}
	if p.via == 3 {
		reg(B, nB+1)
	}
	reg(C, nB+1)
	hA, hB := 3, 3+p.off
	for h := 3; h <= hB; h++ {
		txs := []int{}
		if h == hA {
			txs = append(txs, A)
		}
		if h == hB {
			txs = append(txs, B, C)
		}
		w.opConnect(h, txs)
		if h == hB && p.via == 1 {
			reg(A, nA) // between ConnectTip and NotifyHeight
		}
		w.opNotify()
	}
	if p.via == 2 {
		reg(B, nB)
	}
	for g := 0; g < p.grow; g++ {
		w.opConnect(w.cur()+1, []int{})
		w.opNotify()
	}
	if p.via == 3 {
		for _, c := range w.cc {
			if !c.dead && c.tx == B {
				w.opCancel(c)
				break
			}
		}
	}
	for d := 0; d < p.disc; d++ {
		w.opDisconnect(w.cur())
	}
	if p.via == 3 {
		for _, c := range w.cc {
			if !c.dead && c.tx == A {
				w.opCancel(c)
				break
			}
		}
	}
	txs := []int{}
	if p.re&2 != 0 {
		txs = append(txs, A)
	}
	if p.re&1 != 0 {
		txs = append(txs, B)
	}
	w.opConnect(w.cur()+1, txs)
	w.opNotify()
	for w.cur() < hB+p.k+2 {
		w.opConnect(w.cur()+1, []int{})
		w.opNotify()
	}
	return w
}

// ---- exhaustive small histories (thorough tier) ----
//
// One tx (T0) with conflicting T1, two clients; alphabet of 8 abstract moves,
// all sequences of the given depth.
func xEnumCase(t *testing.T, hc *channeldb.HeightHintCache, ci int, code []int,
	limit int) *xWorld {

	w := xNewWorld(t, hc, ci, 1, limit, "enum")
	w.chain = append(w.chain, w.mkBlock([]int{}))
	w.boot()
	for _, m := range code {
		switch m {
		case 0: // block with T0 (if valid), else empty
			txs := []int{}
			for _, c := range w.candidates() {
				if c == 0 {
					txs = []int{0}
				}
			}
			w.opConnect(w.cur()+1, txs)
			w.opNotify()
		case 1: // block with conflicting T1 (if valid), else empty
			txs := []int{}
			for _, c := range w.candidates() {
				if c == 1 {
					txs = []int{1}
				}
			}
			w.opConnect(w.cur()+1, txs)
			w.opNotify()
		case 2:
			w.opConnect(w.cur()+1, []int{})
			w.opNotify()
		case 3:
			if w.cur() > 1 {
				w.opDisconnect(w.cur())
			}
		case 4: // register conf T0, 1 conf, hint 1
			w.opReg(0, 1, 1)
		case 5: // register conf T0, 2 confs, hint above tip
			w.opReg(0, 2, w.cur()+1)
		case 6: // complete the oldest pending rescan truthfully
			if len(w.cpend[0]) > 0 {
				p := w.cpend[0][0]
				w.cpend[0] = w.cpend[0][1:]
				h, b := w.findTx(0, p.start, w.cur())
				w.ustart = p.start
				if h > 0 {
					w.opUpd(0, []int{h, b}, "now")
				} else {
					w.opUpd(0, nil, "now")
				}
			} else if len(w.spend[0]) > 0 {
				p := w.spend[0][0]
				w.spend[0] = w.spend[0][1:]
				h, x := w.findSpend(0, p.start, w.cur())
				w.ustart = p.start
				if h > 0 {
					w.opSUpd(0, []int{h, x}, "now")
				} else {
					w.opSUpd(0, nil, "now")
				}
			}
		case 7: // register spend of outpoint 0, hint 1
			w.opSReg(0, 1)
		case 8: // cancel the oldest live client
			for _, c := range w.cc {
				if !c.dead {
					w.opCancel(c)
					return w
				}
			}
		}
	}
	return w
}

// ---- directed histories (always run) ----
//
// Scripts over the same operations; a negative argument -k of "upd"/"supd"
// means "answer truthfully from the active chain".
type xStep struct {
	op   string
	a, b int
	c    int
}

var xDirected = [][]xStep{
	// all clients cancelled while a rescan is pending, rescan completes, reorg
	{{"pre", 0, -1, 0}, {"pre", 1, 0, 0}, {"pre", 0, -1, 0}, {"boot", 0, 0, 0},
		{"reg", 0, 1, 1}, {"cancel", 0, 0, 0}, {"upd", 0, 0, 0},
		{"disc", 0, 0, 0}, {"disc", 0, 0, 0}, {"conn", 0, -1, 0}, {"conn", 0, -1, 0},
		{"reg", 0, 1, 1}, {"conn", 1, 0, 0}, {"conn", 0, -1, 0}},
	{{"pre", 0, -1, 0}, {"pre", 1, 0, 0}, {"pre", 0, -1, 0}, {"boot", 0, 0, 0},
		{"sreg", 0, 1, 0}, {"scancel", 0, 0, 0}, {"supd", 0, 0, 0},
		{"disc", 0, 0, 0}, {"disc", 0, 0, 0}, {"conn", 0, -1, 0}, {"conn", 0, -1, 0},
		{"sreg", 0, 1, 0}, {"conn", 1, 1, 0}, {"conn", 0, -1, 0}},
	// partial reorg of a confirmed tx (2 confs), then re-extension
	{{"pre", 0, -1, 0}, {"boot", 0, 0, 0}, {"reg", 0, 2, 2}, {"conn", 1, 0, 0},
		{"conn", 0, -1, 0}, {"disc", 0, 0, 0}, {"conn", 0, -1, 0}, {"disc", 0, 0, 0},
		{"disc", 0, 0, 0}, {"conn", 1, 1, 0}, {"conn", 0, -1, 0}},
	// rescan result exactly reorgSafetyLimit below the tip (limit 4 variant): the
	// height must NOT be tracked (boundary of the tracking condition added by
	// af6371e and of dispatchConfDetails' reorgSafeHeight test), otherwise the
	// request is pruned by the next ConnectTip at that height
	{{"pre", 1, 0, 0}, {"pre", 0, -1, 0}, {"pre", 0, -1, 0}, {"pre", 0, -1, 0},
		{"pre", 0, -1, 0}, {"boot", 0, 0, 0}, {"reg", 0, 1, 1}, {"upd", 0, 0, 0},
		{"disc", 0, 0, 0}, {"conn", 0, -1, 0}, {"conn", 0, -1, 0}},
	// same with zero registered clients when the rescan completes, then a new client
	{{"pre", 1, 0, 0}, {"pre", 0, -1, 0}, {"pre", 0, -1, 0}, {"pre", 0, -1, 0},
		{"pre", 0, -1, 0}, {"boot", 0, 0, 0}, {"reg", 0, 1, 1}, {"cancel", 0, 0, 0},
		{"upd", 0, 0, 0}, {"disc", 0, 0, 0}, {"conn", 0, -1, 0}, {"reg", 0, 1, 1},
		{"conn", 0, -1, 0}},
	{{"pre", 1, 0, 0}, {"pre", 0, -1, 0}, {"pre", 0, -1, 0}, {"pre", 0, -1, 0},
		{"pre", 0, -1, 0}, {"boot", 0, 0, 0}, {"sreg", 0, 1, 0}, {"scancel", 0, 0, 0},
		{"supd", 0, 0, 0}, {"disc", 0, 0, 0}, {"conn", 0, -1, 0}, {"sreg", 0, 1, 0},
		{"conn", 0, -1, 0}},
	// OUTDATED rescan result: registered while unconfirmed (rescan dispatched), found
	// at tip, one more block, THEN the rescan returns "not found" (as of registration
	// time); one more block.  The answer must be ignored, the hint must stay at the
	// confirmation / spend height.  N = 1, N = 2, spend twin.
	{{"pre", 0, -1, 0}, {"boot", 0, 0, 0}, {"reg", 0, 1, 1}, {"conn", 1, 0, 0},
		{"conn", 0, -1, 0}, {"updsnap", 0, 0, 0}, {"conn", 0, -1, 0}},
	{{"pre", 0, -1, 0}, {"boot", 0, 0, 0}, {"reg", 0, 2, 1}, {"conn", 1, 0, 0},
		{"conn", 0, -1, 0}, {"conn", 0, -1, 0}, {"updsnap", 0, 0, 0}, {"conn", 0, -1, 0}},
	{{"pre", 0, -1, 0}, {"boot", 0, 0, 0}, {"sreg", 0, 1, 0}, {"conn", 1, 0, 0},
		{"conn", 0, -1, 0}, {"supdsnap", 0, 0, 0}, {"conn", 0, -1, 0}},
	// OUTDATED non-nil result: the block the rescan saw was reorged out and the tx
	// (resp. a conflicting spender) was re-included at tip before the answer arrives
	{{"pre", 0, -1, 0}, {"pre", 1, 0, 0}, {"pre", 0, -1, 0}, {"boot", 0, 0, 0},
		{"reg", 0, 1, 1}, {"disc", 0, 0, 0}, {"disc", 0, 0, 0}, {"conn", 0, -1, 0},
		{"conn", 1, 0, 0}, {"conn", 0, -1, 0}, {"updsnap", 0, 0, 0}, {"conn", 0, -1, 0}},
	{{"pre", 0, -1, 0}, {"pre", 1, 0, 0}, {"pre", 0, -1, 0}, {"boot", 0, 0, 0},
		{"sreg", 0, 1, 0}, {"disc", 0, 0, 0}, {"disc", 0, 0, 0}, {"conn", 0, -1, 0},
		{"conn", 1, 1, 0}, {"conn", 0, -1, 0}, {"supdsnap", 0, 0, 0}, {"conn", 0, -1, 0}},
}

func xDirectedCase(t *testing.T, hc *channeldb.HeightHintCache, ci int, script []xStep,
	limit int) *xWorld {

	w := xNewWorld(t, hc, ci, 0, limit, "directed")
	for _, s := range script {
		txs := []int{}
		if s.a == 1 {
			txs = []int{s.b}
		}
		switch s.op {
		case "pre":
			w.chain = append(w.chain, w.mkBlock(txs))
		case "boot":
			w.rec.Start = len(w.chain)
			w.boot()
		case "conn":
			w.opConnect(w.cur()+1, txs)
			w.opNotify()
		case "disc":
			w.opDisconnect(w.cur())
		case "reg":
			w.opReg(s.a, s.b, s.c)
		case "sreg":
			w.opSReg(s.a, s.b)
		case "cancel":
			for _, c := range w.cc {
				if !c.dead && c.tx == s.a {
					w.opCancel(c)
					break
				}
			}
		case "scancel":
			for _, c := range w.sc {
				if !c.dead && c.op == s.a {
					w.opSCancel(c)
					break
				}
			}
		case "upd":
			if h, b := w.findTx(s.a, 1, w.cur()); h > 0 {
				w.opUpd(s.a, []int{h, b}, "index")
			} else {
				w.opUpd(s.a, nil, "index")
			}
		case "updsnap":
			if ps := w.cpend[s.a]; len(ps) > 0 {
				w.cpend[s.a] = ps[1:]
				w.ustart = ps[0].start
				w.opUpd(s.a, ps[0].snap, "snapshot")
			}
		case "supdsnap":
			if ps := w.spend[s.a]; len(ps) > 0 {
				w.spend[s.a] = ps[1:]
				w.ustart = ps[0].start
				w.opSUpd(s.a, ps[0].snap, "snapshot")
			}
		case "supd":
			if h, x := w.findSpend(s.a, 1, w.cur()); h > 0 {
				w.opSUpd(s.a, []int{h, x}, "index")
			} else {
				w.opSUpd(s.a, nil, "index")
			}
		}
	}
	return w
}

func TestVerifTxNotifier(t *testing.T) {
	out := xOpenOut()
	defer out.close()
	master := &xrng{s: uint64(xEnvInt("VERIF_SEED", 1))}
	ncases := xCases(260, 3000)
	depth := 0
	if xTier() == "thorough" {
		depth = int(xEnvInt("VERIF_ENUM_DEPTH", 4))
	}
	depth = int(xEnvInt("VERIF_ENUM_DEPTH", int64(depth)))

	type job struct {
		ci     int
		code   []int
		lim    int
		script []xStep
		multi  bool
		coll   *xCollParams
		catch  *xCatchParams
	}
	var jobs []job
	for k, sc := range xDirected {
		jobs = append(jobs, job{ci: 1000000 + 2*k, script: sc, lim: 144})
		jobs = append(jobs, job{ci: 1000000 + 2*k + 1, script: sc, lim: 4})
	}
	for ci := 0; ci < ncases; ci++ {
		jobs = append(jobs, job{ci: ci})
	}
	// multi-request histories: seeded + the enumerated collision family (all of
	// it in the thorough tier; in the quick tier via = 0 completely and a
	// seed-rotating third of the other variants)
	nmulti := int(xEnvInt("VERIF_MULTI", int64(xCases(130, 1500))))
	for k := 0; k < nmulti; k++ {
		jobs = append(jobs, job{ci: 500000 + k, multi: true})
	}
	fam := xCollFamily()
	rot := int(master.s % 3)
	for k := range fam {
		if xTier() != "thorough" && fam[k].via != 0 && k%3 != rot {
			continue
		}
		lim := 144
		if k%4 == 3 {
			lim = 6
		}
		jobs = append(jobs, job{ci: 600000 + k, coll: &fam[k], lim: lim})
	}
	// catch-up layer (verif_catchup_test.go): the enumerated family, all of it in
	// the thorough tier, a seed-rotating half in the quick tier
	cfam := xCatchFamily()
	for k := range cfam {
		if xTier() != "thorough" && k%2 != int(master.s%2) {
			continue
		}
		lim := 144
		if k%4 == 3 {
			lim = 8
		}
		jobs = append(jobs, job{ci: 700000 + k, catch: &cfam[k], lim: lim})
	}
	if depth > 0 {
		const alpha = 8
		total := 1
		for i := 0; i < depth; i++ {
			total *= alpha
		}
		for k := 0; k < total; k++ {
			code := make([]int, depth)
			x := k
			for i := 0; i < depth; i++ {
				code[i] = x % alpha
				x /= alpha
			}
			jobs = append(jobs, job{ci: ncases + k, code: code, lim: 144})
		}
	}

	nw := int(xEnvInt("VERIF_WORKERS", 8))
	ch := make(chan job)
	var wg sync.WaitGroup
	for i := 0; i < nw; i++ {
		db := channeldb.OpenForTesting(t, t.TempDir())
		hc, err := channeldb.NewHeightHintCache(channeldb.CacheConfig{}, db.Backend)
		if err != nil {
			t.Fatal(err)
		}
		wg.Add(1)
		go func() {
			defer wg.Done()
			for j := range ch {
				var c *xWorld
				if j.coll != nil {
					c = xCollCase(t, hc, j.ci, *j.coll, j.lim)
					out.emit(c.rec)
					continue
				} else if j.catch != nil {
					c = xCatchCase(t, hc, j.ci, *j.catch, j.lim)
					out.emit(c.rec)
					continue
				} else if j.multi {
					c = xMultiCase(t, hc, master.fork(uint64(j.ci)), j.ci)
				} else if j.script != nil {
					c = xDirectedCase(t, hc, j.ci, j.script, j.lim)
				} else if j.code == nil {
					c = xRandomCase(t, hc, master.fork(uint64(j.ci)), j.ci)
				} else {
					c = xEnumCase(t, hc, j.ci, j.code, j.lim)
				}
				out.emit(c.rec)
				out.emit(xRestartCase(t, hc, c))
			}
		}()
	}
	for _, j := range jobs {
		ch <- j
	}
	close(ch)
	wg.Wait()
}

// xFatal aborts the whole test binary (worker goroutines cannot call t.Fatal).
func xFatal(format string, a ...any) { panic(fmt.Sprintf(format, a...)) }
