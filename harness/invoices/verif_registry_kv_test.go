//go:build verif

package invoices_test

// External half of the C15 harness: channeldb imports package invoices, so the
// KV invoice store can only be constructed from the external test package.
// Everything else lives in verif_registry_test.go (package invoices).

import (
	"testing"

	"github.com/lightningnetwork/lnd/channeldb"
	"github.com/lightningnetwork/lnd/clock"
	invpkg "github.com/lightningnetwork/lnd/invoices"
)

func TestVerifRegistry(t *testing.T) {
	makeKV := func(t *testing.T) (invpkg.InvoiceDB, *clock.TestClock) {
		c := clock.NewTestClock(invpkg.VTestTime())
		db, err := channeldb.MakeTestInvoiceDB(t, channeldb.OptionClock(c))
		if err != nil {
			t.Fatalf("kv db: %v", err)
		}
		return db, c
	}
	invpkg.VerifRunRegistry(t, makeKV)
}
