//go:build verif

package invoices

// C15 correspondence harness: drives the REAL InvoiceRegistry (NotifyExitHopHtlc,
// SettleHodlInvoice, cancelInvoiceImpl, cancelSingleHtlc, AddInvoice) on seeded
// event sequences over a small universe of invoices and HTLCs, on the native
// SQL store (sqlite) and -- through the constructor handed in by the external
// test file verif_registry_kv_test.go -- on the channeldb KV store.  After
// every event it records the direct HtlcResolution, everything delivered on
// the hodl channel, and LookupInvoice of every invoice of the universe.
//
// The Coq model (Invoice/Exec.v) re-runs the same events and must agree;
// props/c15.py additionally evaluates the C15 predicate on this trace alone.

import (
	"context"
	"crypto/sha256"
	"database/sql"
	"encoding/hex"
	"errors"
	"fmt"
	"sort"
	"testing"
	"time"

	"github.com/btcsuite/btcd/chainhash/v2"
	"github.com/lightningnetwork/lnd/amp"
	"github.com/lightningnetwork/lnd/chainntnfs"
	"github.com/lightningnetwork/lnd/clock"
	"github.com/lightningnetwork/lnd/lntypes"
	"github.com/lightningnetwork/lnd/lnwire"
	"github.com/lightningnetwork/lnd/record"
	"github.com/lightningnetwork/lnd/sqldb"
)

var vTestTime = time.Date(2018, time.February, 2, 14, 0, 0, 0, time.UTC)

type vNotifier struct {
	chainntnfs.ChainNotifier
	blockChan chan *chainntnfs.BlockEpoch
}

func (m *vNotifier) RegisterBlockEpochNtfn(*chainntnfs.BlockEpoch) (
	*chainntnfs.BlockEpochEvent, error) {

	return &chainntnfs.BlockEpochEvent{
		Epochs: m.blockChan,
		Cancel: func() {},
	}, nil
}

type vPayload struct {
	mpp     *record.MPP
	amp     *record.AMP
	custom  record.CustomSet
	pathID  *chainhash.Hash
	total   lnwire.MilliSatoshi
}

func (p *vPayload) MultiPath() *record.MPP { return p.mpp }
func (p *vPayload) AMPRecord() *record.AMP { return p.amp }
func (p *vPayload) CustomRecords() record.CustomSet {
	if p.custom == nil {
		return make(record.CustomSet)
	}
	return p.custom
}
func (p *vPayload) Metadata() []byte                    { return nil }
func (p *vPayload) PathID() *chainhash.Hash              { return p.pathID }
func (p *vPayload) TotalAmtMsat() lnwire.MilliSatoshi    { return p.total }

// VMakeDB builds a fresh invoice store + its clock.
type VMakeDB func(t *testing.T) (InvoiceDB, *clock.TestClock)

func vMakeSQL(t *testing.T) (InvoiceDB, *clock.TestClock) {
	db := sqldb.NewTestSqliteDB(t).BaseDB
	executor := sqldb.NewTransactionExecutor(
		db, func(tx *sql.Tx) SQLInvoiceQueries {
			return db.WithTx(tx)
		},
	)
	c := clock.NewTestClock(vTestTime)
	return NewSQLStore(executor, c), c
}

func vFailName(o FailResolutionResult) string {
	switch o {
	case ResultReplayToCanceled:
		return "replay_canceled"
	case ResultInvoiceAlreadyCanceled:
		return "already_canceled"
	case ResultInvoiceAlreadySettled:
		return "already_settled"
	case ResultAmountTooLow:
		return "amount_too_low"
	case ResultExpiryTooSoon:
		return "expiry_too_soon"
	case ResultCanceled:
		return "canceled"
	case ResultInvoiceNotOpen:
		return "not_open"
	case ResultMppTimeout:
		return "mpp_timeout"
	case ResultAddressMismatch:
		return "address_mismatch"
	case ResultHtlcSetTotalMismatch:
		return "set_total_mismatch"
	case ResultHtlcSetTotalTooLow:
		return "set_total_too_low"
	case ResultHtlcSetOverpayment:
		return "set_overpayment"
	case ResultInvoiceNotFound:
		return "not_found"
	case ResultKeySendError:
		return "keysend_error"
	case ResultMppInProgress:
		return "mpp_in_progress"
	case ResultHtlcInvoiceTypeMismatch:
		return "type_mismatch"
	case ResultAmpError:
		return "amp_error"
	case ResultAmpReconstruction:
		return "amp_reconstruction"
	}
	return "unknown_fail"
}

func vSettleName(o SettleResolutionResult) string {
	switch o {
	case ResultSettled:
		return "settled"
	case ResultReplayToSettled:
		return "replay_settled"
	case ResultDuplicateToSettled:
		return "duplicate_settled"
	}
	return "unknown_settle"
}

func vErrName(err error) string {
	switch {
	case err == nil:
		return "ok"
	case errors.Is(err, ErrDuplicateInvoice), errors.Is(err, ErrDuplicatePayAddr):
		return "dup"
	case errors.Is(err, ErrInvoiceNotFound), errors.Is(err, ErrNoInvoicesCreated),
		errors.Is(err, ErrInvRefEquivocation):
		return "not_found"
	case errors.Is(err, ErrInvoiceStillOpen):
		return "still_open"
	case errors.Is(err, ErrInvoiceAlreadyCanceled):
		return "already_canceled"
	case errors.Is(err, ErrInvoiceAlreadySettled):
		return "already_settled"
	}
	return "other"
}

// ---- universe ----

type vInvoice struct {
	Hash    int    `json:"hash"`
	Addr    int    `json:"addr"`
	Value   uint64 `json:"value"`
	Pre     *int   `json:"pre"`
	Delta   int32  `json:"delta"`
	Hodl    bool   `json:"hodl"`
	Amp     bool   `json:"amp"`
	AddrReq bool   `json:"addr_req"`
	Kind    string `json:"kind"`
}

type vHtlc struct {
	Hash    int     `json:"hash"`
	HashHex string  `json:"hash_hex"`
	Key     int     `json:"key"`
	Amt     uint64  `json:"amt"`
	Expiry  uint32  `json:"expiry"`
	Height  int32   `json:"height"`
	Mpp     []int64 `json:"mpp"` // [addr id, total] or nil
	Amp     bool    `json:"amp"`
	Path    *int    `json:"path"`
	Total   uint64  `json:"total"`
	Ks      any     `json:"ks"` // nil | "bad" | preimage id
	// AMP stream only (predicate-only cases)
	SetID int    `json:"set_id,omitempty"`
	ampRec *record.AMP
	rawHash *lntypes.Hash
}

type vUniverse struct {
	pre      [][32]byte       // preimage id i+1
	hash     [][32]byte       // hash id i+1 ; first len(pre) are sha256(pre[i])
	addr     [][32]byte       // addr id i+1
	preID    map[[32]byte]int
	chanBase uint64
}

func (u *vUniverse) hashOf(id int) lntypes.Hash { return lntypes.Hash(u.hash[id-1]) }
func (u *vUniverse) addrOf(id int) [32]byte {
	if id == 0 {
		return [32]byte{}
	}
	return u.addr[id-1]
}
func (u *vUniverse) key(k int) CircuitKey {
	return CircuitKey{
		ChanID: lnwire.NewShortChanIDFromInt(u.chanBase + uint64(k%2)),
		HtlcID: uint64(k),
	}
}
func (u *vUniverse) keyID(k CircuitKey) int { return int(k.HtlcID) }

func vFeatures(bits ...lnwire.FeatureBit) *lnwire.FeatureVector {
	return lnwire.NewFeatureVector(lnwire.NewRawFeatureVector(bits...), lnwire.Features)
}

func (u *vUniverse) mkInvoice(v *vInvoice, now time.Time) *Invoice {
	bits := []lnwire.FeatureBit{lnwire.TLVOnionPayloadRequired}
	switch {
	case v.Amp:
		bits = append(bits, lnwire.PaymentAddrOptional, lnwire.AMPRequired)
	case v.AddrReq:
		bits = append(bits, lnwire.PaymentAddrRequired)
	case v.Addr != 0:
		bits = append(bits, lnwire.PaymentAddrOptional)
	}
	inv := &Invoice{
		CreationDate: now,
		Terms: ContractTerm{
			Value:          lnwire.MilliSatoshi(v.Value),
			Expiry:         time.Hour,
			FinalCltvDelta: v.Delta,
			PaymentAddr:    u.addrOf(v.Addr),
			Features:       vFeatures(bits...),
		},
		HodlInvoice:    v.Hodl,
		PaymentRequest: []byte(fmt.Sprintf("lnverif-%d-%x", v.Hash, u.hash[v.Hash-1][:6])),
	}
	if v.Pre != nil {
		p := lntypes.Preimage(u.pre[*v.Pre-1])
		inv.Terms.PaymentPreimage = &p
	}
	return inv
}

func (u *vUniverse) payload(h *vHtlc) *vPayload {
	p := &vPayload{total: lnwire.MilliSatoshi(h.Total)}
	if h.Mpp != nil {
		p.mpp = record.NewMPP(lnwire.MilliSatoshi(uint64(h.Mpp[1])), u.addrOf(int(h.Mpp[0])))
	}
	if h.ampRec != nil {
		p.amp = h.ampRec
	} else if h.Amp {
		var share, set [32]byte
		share[0], set[0] = 7, 9
		p.amp = record.NewAMP(share, set, 1)
	}
	if h.Path != nil {
		ph := chainhash.Hash(u.addrOf(*h.Path))
		p.pathID = &ph
	}
	switch ks := h.Ks.(type) {
	case string:
		p.custom = record.CustomSet{record.KeySendType: []byte{1, 2, 3}}
	case int:
		pre := u.pre[ks-1]
		p.custom = record.CustomSet{record.KeySendType: pre[:]}
	}
	return p
}

// ---- one case ----

type vOp struct {
	Ev    []any   `json:"ev"`
	Reply []any   `json:"reply"`
	Ntf   [][]any `json:"ntf"`
	Snap  []vSnap `json:"snap"`
}

type vSnapHtlc struct {
	Key    int    `json:"key"`
	Amt    uint64 `json:"amt"`
	Total  uint64 `json:"total"`
	Expiry uint32 `json:"expiry"`
	Height uint32 `json:"height"`
	State  string `json:"state"`
	// AMP only
	SetID   string `json:"set_id,omitempty"`
	AmpHash string `json:"amp_hash,omitempty"`
	AmpPre  string `json:"amp_pre,omitempty"`
}

type vSnap struct {
	Hash  int         `json:"hash"`
	State string      `json:"state"`
	Paid  uint64      `json:"paid"`
	Pre   *int        `json:"pre"`
	PreHex string     `json:"pre_hex,omitempty"`
	Htlcs []vSnapHtlc `json:"htlcs"`
}

type vCase struct {
	Kind    string         `json:"kind"`
	Backend string         `json:"backend"`
	Case    int            `json:"case"`
	Cfg     map[string]any `json:"cfg"`
	Tbl     [][2]int       `json:"tbl"`
	HashHex []string       `json:"hash_hex"`
	Ops     []vOp          `json:"ops"`
}

type vRun struct {
	t    *testing.T
	u    *vUniverse
	reg  *InvoiceRegistry
	hodl chan interface{}
	ops  []vOp
	// extra invoice hashes to look up (spontaneous AMP: child hashes)
	extra   map[int]lntypes.Hash
	extraID []int
}

func vCState(s ContractState) string {
	switch s {
	case ContractOpen:
		return "open"
	case ContractSettled:
		return "settled"
	case ContractCanceled:
		return "canceled"
	case ContractAccepted:
		return "accepted"
	}
	return "?"
}

func vHState(s HtlcState) string {
	switch s {
	case HtlcStateAccepted:
		return "accepted"
	case HtlcStateCanceled:
		return "canceled"
	case HtlcStateSettled:
		return "settled"
	}
	return "?"
}

func (r *vRun) resArr(res HtlcResolution) []any {
	switch x := res.(type) {
	case *HtlcSettleResolution:
		pid := 999
		if id, ok := r.u.preID[x.Preimage]; ok {
			pid = id
		}
		return []any{"settle", r.u.keyID(x.CircuitKey()), pid, x.AcceptHeight,
			vSettleName(x.Outcome), hex.EncodeToString(x.Preimage[:])}
	case *HtlcFailResolution:
		return []any{"fail", r.u.keyID(x.CircuitKey()), x.AcceptHeight, vFailName(x.Outcome)}
	}
	return []any{"unknown"}
}

func (r *vRun) drain() [][]any {
	out := [][]any{}
	for {
		select {
		case m := <-r.hodl:
			res, ok := m.(HtlcResolution)
			if !ok {
				out = append(out, []any{"unknown"})
				continue
			}
			out = append(out, r.resArr(res))
		default:
			sort.Slice(out, func(i, j int) bool {
				a, b := out[i], out[j]
				if a[1].(int) != b[1].(int) {
					return a[1].(int) < b[1].(int)
				}
				return a[0].(string) < b[0].(string)
			})
			return out
		}
	}
}

func (r *vRun) snapshot() []vSnap {
	out := []vSnap{}
	one := func(id int, hash lntypes.Hash) bool {
		inv, err := r.reg.LookupInvoice(context.Background(), hash)
		if err != nil {
			return false
		}
		s := vSnap{Hash: id, State: vCState(inv.State), Paid: uint64(inv.AmtPaid),
			Htlcs: []vSnapHtlc{}}
		if inv.Terms.PaymentPreimage != nil {
			pid := 999
			if x, ok := r.u.preID[*inv.Terms.PaymentPreimage]; ok {
				pid = x
			}
			s.Pre = &pid
			s.PreHex = hex.EncodeToString(inv.Terms.PaymentPreimage[:])
		}
		for k, h := range inv.Htlcs {
			sh := vSnapHtlc{Key: r.u.keyID(k), Amt: uint64(h.Amt),
				Total: uint64(h.MppTotalAmt), Expiry: h.Expiry, Height: h.AcceptHeight,
				State: vHState(h.State)}
			if h.AMP != nil {
				sid := h.AMP.Record.SetID()
				sh.SetID = hex.EncodeToString(sid[:4])
				sh.AmpHash = hex.EncodeToString(h.AMP.Hash[:])
				if h.AMP.Preimage != nil {
					sh.AmpPre = hex.EncodeToString(h.AMP.Preimage[:])
				}
			}
			s.Htlcs = append(s.Htlcs, sh)
		}
		sort.Slice(s.Htlcs, func(i, j int) bool { return s.Htlcs[i].Key < s.Htlcs[j].Key })
		out = append(out, s)
		return true
	}
	for id := 1; id <= len(r.u.hash); id++ {
		one(id, r.u.hashOf(id))
	}
	for _, id := range r.extraID {
		one(id, r.extra[id])
	}
	return out
}

func (r *vRun) record(ev []any, reply []any) {
	r.ops = append(r.ops, vOp{Ev: ev, Reply: reply, Ntf: r.drain(), Snap: r.snapshot()})
}

func (r *vRun) add(v *vInvoice) {
	inv := r.u.mkInvoice(v, vTestTime)
	_, err := r.reg.AddInvoice(context.Background(), inv, r.u.hashOf(v.Hash))
	name := vErrName(err)
	if name == "other" {
		name = "invalid"
	}
	r.record([]any{"add", v}, []any{"api", name})
}

func (r *vRun) notify(h *vHtlc, height int32) {
	hh := *h
	hh.Height = height
	hash := r.u.hashOf(h.Hash)
	if h.rawHash != nil {
		hash = *h.rawHash
		id := 100 + h.Key
		if _, ok := r.extra[id]; !ok {
			if r.extra == nil {
				r.extra = map[int]lntypes.Hash{}
			}
			r.extra[id] = hash
			r.extraID = append(r.extraID, id)
		}
	}
	hh.HashHex = hex.EncodeToString(hash[:])
	res, err := r.reg.NotifyExitHopHtlc(
		hash, lnwire.MilliSatoshi(h.Amt), h.Expiry, height, r.u.key(h.Key),
		r.hodl, nil, r.u.payload(h),
	)
	var reply []any
	switch {
	case err != nil:
		reply = []any{"err", err.Error()}
	case res == nil:
		reply = []any{"nil"}
	default:
		reply = r.resArr(res)
	}
	r.record([]any{"notify", &hh}, reply)
}

func (r *vRun) settle(pid int) {
	p := lntypes.Preimage(r.u.pre[pid-1])
	err := r.reg.SettleHodlInvoice(context.Background(), p)
	r.record([]any{"settle", pid, hex.EncodeToString(p[:])}, []any{"api", vErrName(err)})
}

func (r *vRun) cancel(hash int, force bool) {
	err := r.reg.cancelInvoiceImpl(context.Background(), r.u.hashOf(hash), force)
	r.record([]any{"cancel", hash, force}, []any{"api", vErrName(err)})
}

func (r *vRun) timeout(h *vHtlc) {
	if h.Amp && h.ampRec == nil {
		// AMP-record HTLCs of the model stream are never accepted, so no
		// release timer is ever started for them.
		return
	}
	var ref InvoiceRef
	var addr any
	hash := r.u.hashOf(h.Hash)
	switch {
	case h.ampRec != nil:
		ref = InvoiceRefBySetID(h.ampRec.SetID())
	case h.Path != nil:
		ref = InvoiceRefByHashAndAddr(hash, r.u.addrOf(*h.Path))
		addr = *h.Path
	case h.Mpp != nil && h.Amp:
		ref = InvoiceRefByAddr(r.u.addrOf(int(h.Mpp[0])))
		addr = h.Mpp[0]
	case h.Mpp != nil:
		ref = InvoiceRefByHashAndAddr(hash, r.u.addrOf(int(h.Mpp[0])))
		addr = h.Mpp[0]
	default:
		ref = InvoiceRefByHash(hash)
	}
	err := r.reg.cancelSingleHtlc(ref, r.u.key(h.Key), ResultMppTimeout)
	r.record([]any{"timeout", h.Hash, addr, h.Key}, []any{"api", vErrName(err)})
}

func vNewUniverse(r *vrng, npre, nextra, naddr int, ci int) *vUniverse {
	u := &vUniverse{preID: map[[32]byte]int{}, chanBase: uint64(1000 + 4*ci)}
	for i := 0; i < npre; i++ {
		var p [32]byte
		copy(p[:], r.bytes(32))
		p[0] |= 1 // never the all-zero preimage
		u.pre = append(u.pre, p)
		u.preID[p] = i + 1
		u.hash = append(u.hash, sha256.Sum256(p[:]))
	}
	for i := 0; i < nextra; i++ {
		var h [32]byte
		copy(h[:], r.bytes(32))
		u.hash = append(u.hash, h)
	}
	for i := 0; i < naddr; i++ {
		var a [32]byte
		copy(a[:], r.bytes(32))
		a[0] |= 1
		u.addr = append(u.addr, a)
	}
	return u
}

func vNewRegistry(t *testing.T, mk VMakeDB, cfg RegistryConfig) *InvoiceRegistry {
	idb, clk := mk(t)
	notifier := &vNotifier{blockChan: make(chan *chainntnfs.BlockEpoch)}
	// Start height 0 and no block epochs: the expiry watcher (an asynchronous
	// caller of cancelInvoiceImpl when an accepted hold htlc reaches its
	// expiry height) stays inert; its cancels are driven explicitly as
	// "cancel" events instead.  Every accepted htlc has expiry >= 1 here.
	ew := NewInvoiceExpiryWatcher(clk, 0, 0, nil, notifier)
	cfg.Clock = clk
	cfg.HtlcInterceptor = &MockHtlcModifier{}
	cfg.HtlcHoldDuration = 30 * time.Second
	reg := NewRegistry(idb, ew, &cfg)
	if err := reg.Start(); err != nil {
		t.Fatalf("registry start: %v", err)
	}
	t.Cleanup(func() { _ = reg.Stop() })
	return reg
}

func vPick[T any](r *vrng, xs []T) T { return xs[r.intn(len(xs))] }

// vModelCase generates and runs one model-tied case.
func vModelCase(t *testing.T, r *vrng, ci int, backend string, mk VMakeDB) *vCase {
	const npre, nextra, naddr = 5, 1, 3
	u := vNewUniverse(r, npre, nextra, naddr, ci)
	rd := int32(vPick(r, []int{4, 4, 10, 0}))
	keysend := r.intn(3) == 0
	kshold := keysend && r.intn(3) == 0
	cfg := RegistryConfig{FinalCltvRejectDelta: rd, AcceptKeySend: keysend}
	if kshold {
		cfg.KeysendHoldTime = time.Minute
	}
	reg := vNewRegistry(t, mk, cfg)
	run := &vRun{t: t, u: u, reg: reg, hodl: make(chan interface{}, 256)}
	c := &vCase{Kind: "model", Backend: backend, Case: ci,
		Cfg: map[string]any{"rd": rd, "keysend": keysend, "kshold": kshold,
			"kv": backend == "kv"}}
	for i := 0; i < npre; i++ {
		c.Tbl = append(c.Tbl, [2]int{i + 1, i + 1})
	}
	for _, h := range u.hash {
		c.HashHex = append(c.HashHex, hex.EncodeToString(h[:]))
	}

	// --- invoices ---
	baseHeight := int32(vPick(r, []int{1, 100, 700000}))
	values := []uint64{0, 1, 1000, 100000, 100000, 2500}
	var invs []*vInvoice
	ninv := 2 + r.intn(2)
	for i := 0; i < ninv; i++ {
		v := &vInvoice{Hash: i + 1, Value: vPick(r, values), Delta: int32(vPick(r, []int{4, 9, 40, 3}))}
		pre := i + 1
		switch k := r.intn(12); {
		case k < 3:
			v.Kind = "regular"
			v.Pre = &pre
			if r.bool() {
				v.Addr = 1 + r.intn(naddr)
			}
		case k < 6:
			v.Kind = "mpp"
			v.Pre = &pre
			v.Addr = 1 + r.intn(naddr)
			v.AddrReq = true
		case k < 8:
			v.Kind = "hodl"
			v.Hodl = true
			if r.bool() {
				v.Addr = 1 + r.intn(naddr)
				v.AddrReq = r.bool()
			}
		case k < 9:
			v.Kind = "hodl_mpp"
			v.Hodl = true
			v.Addr = 1 + r.intn(naddr)
			v.AddrReq = true
		case k < 10:
			v.Kind = "amp_invoice"
			v.Amp = true
			v.Addr = 1 + r.intn(naddr)
		case k < 11:
			// malformed: preimage of another hash
			v.Kind = "wrong_preimage"
			wp := 1 + (i+1)%npre
			v.Pre = &wp
			if r.bool() {
				v.Addr = 1 + r.intn(naddr)
			}
		default:
			// malformed: no preimage on a non-hodl invoice
			v.Kind = "no_preimage"
		}
		invs = append(invs, v)
	}

	// --- htlc universe: built around the invoices ---
	var htlcs []*vHtlc
	nextKey := 1
	mk1 := func(h *vHtlc) *vHtlc {
		h.Key = nextKey
		nextKey++
		htlcs = append(htlcs, h)
		return h
	}
	expiryFor := func(v *vInvoice) uint32 {
		d := v.Delta
		if rd > d {
			d = rd
		}
		// boundary: exactly enough, one short, one more; sometimes plenty
		off := vPick(r, []int32{0, 0, 0, 1, -1, 30})
		if r.intn(8) == 0 {
			// between the two deltas
			lo := v.Delta
			if rd < lo {
				lo = rd
			}
			return uint32(baseHeight + lo)
		}
		return uint32(baseHeight + d + off)
	}
	amtAround := func(v uint64) uint64 {
		switch r.intn(6) {
		case 0:
			if v > 0 {
				return v - 1
			}
			return 0
		case 1:
			return v + 1
		case 2:
			return v * 2
		default:
			return v
		}
	}
	ampAddr := func(a int) bool {
		for _, v := range invs {
			if v.Amp && v.Addr == a {
				return true
			}
		}
		return false
	}
	for _, v := range invs {
		n := 2 + r.intn(3)
		for j := 0; j < n; j++ {
			switch k := r.intn(14); {
			case k < 3: // legacy
				mk1(&vHtlc{Hash: v.Hash, Amt: amtAround(v.Value), Expiry: expiryFor(v)})
			case k < 9: // mpp set of 1..3 shards
				total := amtAround(v.Value)
				if total == 0 && r.intn(3) > 0 {
					total = 1 + uint64(r.intn(5000))
				}
				addr := v.Addr
				if r.intn(7) == 0 {
					addr = 1 + r.intn(naddr)
				}
				if r.intn(15) == 0 {
					addr = 0
				}
				shards := 1 + r.intn(3)
				rem := total
				for s := 0; s < shards; s++ {
					var a uint64
					if s == shards-1 {
						a = rem
						switch r.intn(6) {
						case 0:
							if a > 0 {
								a--
							}
						case 1:
							a++
						}
					} else if rem > 0 {
						a = uint64(r.rng(0, int64(rem)))
					}
					rem -= minU64(a, rem)
					t2 := total
					if r.intn(10) == 0 {
						t2 = total + 1 // mismatching set total
					}
					a2 := addr
					if s > 0 && r.intn(6) == 0 {
						// a later shard of an otherwise consistent set
						// carries another payment address
						a2 = 1 + r.intn(naddr)
					}
					h := &vHtlc{Hash: v.Hash, Amt: a, Expiry: expiryFor(v),
						Mpp: []int64{int64(a2), int64(t2)}}
					if r.intn(12) == 0 {
						// blinded path instead of MPP record
						h.Mpp = nil
						pa := a2
						h.Path = &pa
						h.Total = t2
					}
					if r.intn(25) == 0 && !ampAddr(addr) {
						h.Amp = true // AMP record towards a (mostly) non-AMP invoice
					}
					mk1(h)
				}
			case k < 10: // AMP record without MPP record
				mk1(&vHtlc{Hash: v.Hash, Amt: v.Value, Expiry: expiryFor(v), Amp: true})
			case k < 12: // keysend record towards an existing invoice
				var ks any = v.Hash
				if v.Hash > npre || r.intn(4) == 0 {
					ks = 1 + r.intn(npre)
				}
				if r.intn(6) == 0 {
					ks = "bad"
				}
				h := &vHtlc{Hash: v.Hash, Amt: amtAround(v.Value), Expiry: expiryFor(v), Ks: ks}
				if r.intn(6) == 0 {
					h.Mpp = []int64{int64(v.Addr), int64(h.Amt)}
				}
				mk1(h)
			default: // unknown invoice
				mk1(&vHtlc{Hash: npre + 1, Amt: v.Value, Expiry: expiryFor(v)})
			}
		}
	}
	// spontaneous keysends to hashes without invoice
	for j := 0; j < 1+r.intn(2); j++ {
		hid := ninv + 1 + r.intn(npre-ninv)
		var ks any = hid
		if r.intn(5) == 0 {
			ks = 1 + r.intn(npre)
		}
		fake := &vInvoice{Delta: rd}
		mk1(&vHtlc{Hash: hid, Amt: uint64(1 + r.intn(3000)), Expiry: expiryFor(fake), Ks: ks})
	}

	// --- events ---
	added := 0
	addNext := func() {
		if added < len(invs) {
			run.add(invs[added])
			added++
		}
	}
	addNext()
	for added < len(invs) && r.intn(5) > 0 {
		addNext()
	}
	isAdded := func(h *vHtlc) bool { return h.Hash <= added || h.Ks != nil }
	var hodlIDs []int
	for _, v := range invs {
		if v.Hodl {
			hodlIDs = append(hodlIDs, v.Hash)
		}
	}
	nev := 12 + r.intn(12)
	var sent []*vHtlc
	next := 0 // next unsent htlc in creation order (shards of one set are adjacent)
	send := func(h *vHtlc, ht int32) {
		run.notify(h, ht)
		sent = append(sent, h)
	}
	for e := 0; e < nev; e++ {
		switch k := r.intn(40); {
		case k < 16 && next < len(htlcs):
			// walk through the universe in order so that sets complete
			h := htlcs[next]
			next++
			if !isAdded(h) && r.intn(4) > 0 {
				continue
			}
			ht := baseHeight
			if r.intn(8) == 0 {
				ht += int32(r.intn(3)) - 1
			}
			send(h, ht)
		case k < 21:
			h := vPick(r, htlcs)
			if !isAdded(h) && r.intn(3) > 0 {
				continue
			}
			send(h, baseHeight)
		case k < 26 && len(sent) > 0: // replay
			h := vPick(r, sent)
			ht := baseHeight
			if r.intn(3) == 0 {
				ht += int32(r.intn(50))
			}
			run.notify(h, ht)
		case k < 30:
			if len(hodlIDs) > 0 && r.intn(4) > 0 {
				run.settle(vPick(r, hodlIDs))
			} else {
				run.settle(1 + r.intn(npre))
			}
		case k < 33:
			if r.intn(5) > 0 {
				run.cancel(1+r.intn(added), r.intn(3) > 0)
			} else {
				run.cancel(1+r.intn(npre+nextra), r.intn(3) > 0)
			}
		case k < 37 && len(sent) > 0:
			run.timeout(vPick(r, sent))
		default:
			if added < len(invs) {
				addNext()
			} else if r.intn(3) == 0 {
				// duplicate add
				run.add(vPick(r, invs))
			} else if r.bool() {
				run.timeout(vPick(r, htlcs))
			}
		}
	}
	c.Ops = run.ops
	return c
}

func minU64(a, b uint64) uint64 {
	if a < b {
		return a
	}
	return b
}

// vAmpCase: AMP invoices / spontaneous AMP with real share derivation.  These
// cases are checked by the python predicate only (no model correspondence).
func vAmpCase(t *testing.T, r *vrng, ci int, backend string, mk VMakeDB) *vCase {
	u := vNewUniverse(r, 2, 8, 2, ci)
	rd := int32(4)
	spont := r.bool()
	cfg := RegistryConfig{FinalCltvRejectDelta: rd, AcceptAMP: spont}
	reg := vNewRegistry(t, mk, cfg)
	run := &vRun{t: t, u: u, reg: reg, hodl: make(chan interface{}, 256)}
	c := &vCase{Kind: "amp", Backend: backend, Case: ci,
		Cfg: map[string]any{"rd": rd, "accept_amp": spont, "kv": backend == "kv"}}
	baseHeight := int32(100)
	value := uint64(vPick(r, []int{0, 1000, 90000}))
	inv := &vInvoice{Hash: 3, Value: value, Delta: 4, Amp: true, Addr: 1, Kind: "amp_invoice"}
	if !spont || r.bool() {
		run.add(inv)
	}
	// two payment attempts (set ids) of 1..3 shards each
	var htlcs []*vHtlc
	key := 1
	for set := 0; set < 2; set++ {
		total := value
		switch r.intn(5) {
		case 0:
			total = value + 1
		case 1:
			if value > 0 {
				total = value - 1
			}
		}
		if total == 0 {
			total = uint64(1 + r.intn(1000))
		}
		n := 1 + r.intn(3)
		var setID [32]byte
		copy(setID[:], r.bytes(32))
		var sharer amp.Sharer
		var err error
		var root amp.Share
		copy(root[:], r.bytes(32))
		root[0] |= 1
		sharer = amp.SeedSharerFromRoot(&root)
		rem := total
		for s := 0; s < n; s++ {
			var left amp.Sharer
			if s < n-1 {
				left, sharer, err = sharer.Split()
				if err != nil {
					t.Fatal(err)
				}
			} else {
				left = sharer
			}
			child := left.Child(uint32(s))
			a := rem
			if s < n-1 && rem > 0 {
				a = uint64(r.rng(0, int64(rem)))
			}
			rem -= a
			if s == n-1 {
				switch r.intn(6) {
				case 0:
					if a > 0 {
						a--
					}
				case 1:
					a++
				}
			}
			share := child.Share
			if r.intn(14) == 0 {
				share[3] ^= 0x40 // corrupted share: reconstruction must fail
			}
			hh := lntypes.Hash(child.Hash)
			t2 := total
			if r.intn(12) == 0 {
				t2++
			}
			off := vPick(r, []int32{0, 0, 1, -1, 20})
			h := &vHtlc{Hash: 3, Key: key, Amt: a, Expiry: uint32(baseHeight + 4 + off),
				Mpp: []int64{1, int64(t2)}, Amp: true, SetID: set + 1,
				ampRec: record.NewAMP([32]byte(share), setID, uint32(s)), rawHash: &hh}
			key++
			htlcs = append(htlcs, h)
		}
	}
	nev := 6 + r.intn(8)
	var sent []*vHtlc
	for e := 0; e < nev; e++ {
		switch k := r.intn(12); {
		case k < 8:
			h := vPick(r, htlcs)
			run.notify(h, baseHeight)
			sent = append(sent, h)
		case k < 9 && len(sent) > 0:
			run.notify(vPick(r, sent), baseHeight+int32(r.intn(3)))
		case k < 10 && len(sent) > 0:
			run.timeout(vPick(r, sent))
		case k < 11:
			run.cancel(3, true)
		default:
			run.add(inv)
		}
	}
	c.Ops = run.ops
	for _, h := range u.hash {
		c.HashHex = append(c.HashHex, hex.EncodeToString(h[:]))
	}
	return c
}

// VerifRunRegistry is the driver; makeKV comes from the external test file
// (package invoices_test) because channeldb imports this package.
func VerifRunRegistry(t *testing.T, makeKV VMakeDB) {
	out := vOpenOut()
	defer out.close()
	master := vNewRng(vSeed())
	ncases := vCases(70, 1500)
	namp := vCases(16, 300)
	if v := vEnvInt("VERIF_AMP_CASES", -1); v >= 0 {
		namp = int(v)
	}
	backends := []struct {
		name string
		mk   VMakeDB
	}{{"kv", makeKV}, {"sql", vMakeSQL}}
	only := ""
	if v := vEnvInt("VERIF_BACKEND", 0); v == 1 {
		only = "kv"
	} else if v == 2 {
		only = "sql"
	}
	for ci := 0; ci < ncases; ci++ {
		for bi, b := range backends {
			if only != "" && only != b.name {
				continue
			}
			// the same seeded case runs on both stores
			r := master.fork(uint64(ci))
			t.Run("", func(t *testing.T) {
				out.emit(vModelCase(t, r, 2*ci+bi, b.name, b.mk))
			})
		}
	}
	for ci := 0; ci < namp; ci++ {
		b := backends[ci%2]
		if only != "" && only != b.name {
			continue
		}
		r := master.fork(uint64(1000000 + ci))
		t.Run("", func(t *testing.T) {
			out.emit(vAmpCase(t, r, 2*ncases+ci, b.name, b.mk))
		})
	}
}

// VTestTime exposes the fixed clock start to the external test file.
func VTestTime() time.Time { return vTestTime }
